(* Block-level integration (YataBlocks.v) refines the unit-level integration of Crdt/Doc.v.
   Stdlib only; no axioms.  Every numbered theorem is followed by Print Assumptions. *)
From Coq Require Import List NArith ZArith Bool Lia Arith.
From YV Require Import Gen.Consts Lib.Bytes Codec.Varint Codec.AnyCodec Codec.IdSetCodec Codec.UpdateV1
  Codec.V2Cols Ids.Ranges Crdt.Doc Crdt.Blocks Crdt.BlocksProofs Crdt.YataProofs.
From YV.Crdt Require Import YataBlocks.
Import ListNotations.
Open Scope N_scope.

(* ================================================================================================ *)
(* 0. small facts                                                                                    *)
(* ================================================================================================ *)
Lemma yib_oid_eqb_true : forall a b, oid_eqb a b = true <-> a = b.
Proof.
  intros a b. split; [apply blk_oid_eqb_eq|]. intros <-. apply blk_oid_eqb_refl.
Qed.
Lemma yib_oid_eqb_false : forall a b, oid_eqb a b = false <-> a <> b.
Proof.
  intros a b. split.
  - intros H E. apply yib_oid_eqb_true in E. congruence.
  - intros H. destruct (oid_eqb a b) eqn:E; [|reflexivity]. apply yib_oid_eqb_true in E. contradiction.
Qed.
Lemma yib_oid_eqb_sym : forall a b, oid_eqb a b = oid_eqb b a.
Proof.
  intros a b. destruct (oid_eqb a b) eqn:E.
  - apply yib_oid_eqb_true in E. subst. symmetry. apply blk_oid_eqb_refl.
  - symmetry. apply yib_oid_eqb_false. apply yib_oid_eqb_false in E. congruence.
Qed.

Lemma yib_mem_In : forall i l, mem_id i l = true <-> In i l.
Proof.
  intros i l. unfold mem_id. rewrite existsb_exists. split.
  - intros (x & Hx & E). apply id_eqb_eq in E. subst. exact Hx.
  - intros H. exists i. split; [exact H|apply id_eqb_refl].
Qed.
Lemma yib_mem_false : forall i l, mem_id i l = false <-> ~ In i l.
Proof.
  intros i l. split.
  - intros H Hin. apply yib_mem_In in Hin. congruence.
  - intros H. destruct (mem_id i l) eqn:E; [|reflexivity]. apply yib_mem_In in E. contradiction.
Qed.
Lemma yib_mem_cons : forall i j l, mem_id i (j :: l) = id_eqb i j || mem_id i l.
Proof. reflexivity. Qed.
Lemma yib_mem_app : forall i a b, mem_id i (a ++ b) = mem_id i a || mem_id i b.
Proof. intros. unfold mem_id. apply existsb_app. Qed.

(* ids pushed one by one on a set *)
Definition yib_push (ids acc : list id) : list id := fold_left (fun a i => i :: a) ids acc.
Lemma yib_mem_push : forall ids acc i, mem_id i (yib_push ids acc) = mem_id i ids || mem_id i acc.
Proof.
  induction ids as [|j r IH]; intros acc i; cbn [yib_push fold_left].
  - reflexivity.
  - change (fold_left (fun a i0 => i0 :: a) r (j :: acc)) with (yib_push r (j :: acc)).
    rewrite IH, !yib_mem_cons. destruct (id_eqb i j), (mem_id i r); reflexivity.
Qed.

Lemma yib_nodupb_app : forall a b i, yib_nodupb (a ++ b) = true -> In i a -> In i b -> False.
Proof.
  induction a as [|j r IH]; intros b i H Ha Hb; [destruct Ha|].
  cbn [app yib_nodupb] in H. apply andb_prop in H. destruct H as [Hj Hr].
  destruct Ha as [<-|Ha].
  - apply negb_true_iff in Hj. apply yib_mem_false in Hj. apply Hj. apply in_or_app. right. exact Hb.
  - eapply IH; eassumption.
Qed.
Lemma yib_nodupb_app_r : forall a b, yib_nodupb (a ++ b) = true -> yib_nodupb b = true.
Proof.
  induction a as [|j r IH]; intros b H; [exact H|].
  cbn [app yib_nodupb] in H. apply andb_prop in H. apply IH. apply H.
Qed.
Lemma yib_nodupb_app_l : forall a b, yib_nodupb (a ++ b) = true -> yib_nodupb a = true.
Proof.
  induction a as [|j r IH]; intros b H; [reflexivity|].
  cbn [app yib_nodupb] in *. apply andb_prop in H. destruct H as [Hj Hr].
  rewrite (IH _ Hr), andb_true_r. apply negb_true_iff. apply negb_true_iff in Hj.
  apply yib_mem_false. apply yib_mem_false in Hj. intro Hi. apply Hj. apply in_or_app. left. exact Hi.
Qed.

(* ================================================================================================ *)
(* 1. the units of a block                                                                           *)
(* ================================================================================================ *)
Fixpoint yib_dunits (c k : N) (o ro : option id) (p : parent) (ps : option (list N)) (del : bool)
                    (us : list ucontent) : list ditem :=
  match us with
  | [] => []
  | u :: r => mkditem (mkop (mkid c k) o ro p ps u) del :: yib_dunits c (k + 1) (Some (mkid c k)) ro p ps del r
  end.

Lemma yib_ditems_units : forall us c k o ro p ps del,
  flat_map (fun x => match x with XItem o => [mkditem o del] | XGC _ => [] end) (units_of_item c k o ro p ps us)
  = yib_dunits c k o ro p ps del us.
Proof.
  induction us as [|u r IH]; intros; cbn [units_of_item flat_map yib_dunits app]; [reflexivity|].
  rewrite IH. reflexivity.
Qed.

Lemma yib_ditems_item : forall i o ro p ps c del,
  yib_ditems (yib_mk (BItem i o ro p ps c) del) = yib_dunits (cl i) (ck i) o ro p ps del (content_units c).
Proof. intros. unfold yib_ditems. cbn [yib_b yib_del units_of_block]. apply yib_ditems_units. Qed.

Lemma yib_dunits_length : forall us c k o ro p ps del, length (yib_dunits c k o ro p ps del us) = length us.
Proof. induction us as [|u r IH]; intros; cbn [yib_dunits length]; [reflexivity|]. rewrite IH. reflexivity. Qed.

Lemma yib_dunits_ids : forall us c k o ro p ps del i,
  In i (map did (yib_dunits c k o ro p ps del us)) <->
  cl i = c /\ k <= ck i /\ ck i < k + N.of_nat (length us).
Proof.
  induction us as [|u r IH]; intros c k o ro p ps del i; cbn [yib_dunits map length In].
  - split; [intros []|]. intros (_ & H1 & H2). lia.
  - rewrite IH. unfold did at 1. cbn [d_op oid]. split.
    + intros [<-|(Hc & H1 & H2)]; cbn [cl ck]; [split; [reflexivity|lia]|split; [exact Hc|lia]].
    + intros (Hc & H1 & H2). destruct (N.eq_dec (ck i) k) as [E|E].
      * left. destruct i as [ci ki]. cbn [cl ck] in *. subst. reflexivity.
      * right. split; [exact Hc|lia].
Qed.

(* what a well-formed block is *)
Lemma yib_blk_ok_inv : forall b, yib_blk_ok b = true ->
  exists i o ro p ps c, b = yib_mk (BItem i o ro p ps c) (yib_del b) /\ blk_content_wf c = true /\
    N.of_nat (length (content_units c)) = content_len c /\ 0 < content_len c.
Proof.
  intros [blk del] H. unfold yib_blk_ok, yib_is_item in H. cbn [yib_b yib_del] in *.
  destruct blk as [i o ro p ps c|i n|i n]; cbn in H; try discriminate.
  apply andb_prop in H. destruct H as [Hwf Hne]. unfold blk_nonempty in Hne. cbn [block_len] in Hne.
  exists i, o, ro, p, ps, c. repeat split; try assumption.
  - apply blk_content_len_units. exact Hwf.
  - apply N.ltb_lt. exact Hne.
Qed.

Lemma yib_contains_ids : forall b i, yib_blk_ok b = true ->
  mem_id i (yib_ids (yib_ditems b)) = yib_contains b i.
Proof.
  intros b i H. destruct (yib_blk_ok_inv b H) as (bi & o & ro & p & ps & c & Eb & Hwf & Hlen & Hpos).
  rewrite Eb. rewrite yib_ditems_item. unfold yib_contains, yib_id, yib_len, yib_ids. cbn [yib_b block_id block_len].
  destruct (mem_id i _) eqn:E.
  - apply yib_mem_In in E. apply yib_dunits_ids in E. destruct E as (Hc & H1 & H2). rewrite Hlen in H2.
    symmetry. rewrite !andb_true_iff. repeat split; [apply N.eqb_eq; congruence|apply N.leb_le; exact H1|apply N.ltb_lt; exact H2].
  - symmetry. apply not_true_iff_false. intro Hc. apply yib_mem_false in E. apply E.
    rewrite !andb_true_iff in Hc. destruct Hc as [[Hc H1] H2].
    apply yib_dunits_ids. rewrite Hlen. apply N.eqb_eq in Hc. apply N.leb_le in H1. apply N.ltb_lt in H2.
    repeat split; [congruence|exact H1|exact H2].
Qed.

Lemma yib_contains_own_id : forall b, yib_blk_ok b = true -> yib_contains b (yib_id b) = true.
Proof.
  intros b H. destruct (yib_blk_ok_inv b H) as (bi & o & ro & p & ps & c & Eb & Hwf & Hlen & Hpos).
  rewrite Eb. unfold yib_contains, yib_id, yib_len. cbn [yib_b block_id block_len].
  rewrite N.eqb_refl, N.leb_refl. cbn [andb]. apply N.ltb_lt. lia.
Qed.

Lemma yib_expand_app : forall a b, yib_expand (a ++ b) = yib_expand a ++ yib_expand b.
Proof. intros. unfold yib_expand. apply flat_map_app. Qed.
Lemma yib_expand_cons : forall b r, yib_expand (b :: r) = yib_ditems b ++ yib_expand r.
Proof. reflexivity. Qed.
Lemma yib_ids_app : forall a b, yib_ids (a ++ b) = yib_ids a ++ yib_ids b.
Proof. intros. unfold yib_ids. apply map_app. Qed.

(* ================================================================================================ *)
(* 2. the unit-level scan over the chained units of one block                                        *)
(* ================================================================================================ *)
(* the units after the first one: every unit has the previous unit as origin *)
Lemma yib_scan_chain_keep : forall us c k ro p ps del x R ku lftu confu beforeu,
  mem_id (mkid c k) beforeu = true -> mem_id (mkid c k) confu = true ->
  (forall j, k <= j -> j <= k + N.of_nat (length us) -> oorigin x <> Some (mkid c j)) ->
  (forall j, k < j -> j <= k + N.of_nat (length us) -> ororigin x <> Some (mkid c j)) ->
  let ch := yib_dunits c (k + 1) (Some (mkid c k)) ro p ps del us in
  yata_scan x (ch ++ R) ku lftu confu beforeu =
  yata_scan x R (ku + length us) lftu (yib_push (yib_ids ch) confu) (yib_push (yib_ids ch) beforeu).
Proof.
  induction us as [|u r IH]; intros c k ro p ps del x R ku lftu confu beforeu Hb Hc Ho Hro ch; subst ch.
  - cbn [yib_dunits app length yib_ids map yib_push fold_left]. rewrite Nat.add_0_r. reflexivity.
  - cbn [yib_dunits app yata_scan]. cbn [did d_op oid oorigin ororigin].
    assert (E1 : oid_eqb (Some (mkid c (k + 1))) (ororigin x) = false).
    { apply yib_oid_eqb_false. intro E. apply (Hro (k + 1)); [lia|cbn [length]; lia|]. congruence. }
    rewrite E1.
    assert (E2 : oid_eqb (oorigin x) (Some (mkid c k)) = false).
    { apply yib_oid_eqb_false. apply Ho; [lia|cbn [length]; lia]. }
    rewrite E2.
    rewrite !yib_mem_cons, Hb, Hc, !orb_true_r. cbn [negb].
    specialize (IH c (k + 1) ro p ps del x R (S ku) lftu (mkid c (k + 1) :: confu) (mkid c (k + 1) :: beforeu)).
    cbv zeta in IH. rewrite IH.
    + cbn [length yib_ids map yib_push fold_left did d_op oid].
      replace (S ku + length r)%nat with (ku + S (length r))%nat by lia. reflexivity.
    + rewrite yib_mem_cons, id_eqb_refl. reflexivity.
    + rewrite yib_mem_cons, id_eqb_refl. reflexivity.
    + intros j Hj Hj2. apply Ho; [lia|cbn [length]; lia].
    + intros j Hj Hj2. apply Hro; [lia|cbn [length]; lia].
Qed.

Lemma yib_scan_chain_clear : forall us c k ro p ps del x R ku beforeu,
  mem_id (mkid c k) beforeu = true ->
  (forall j, k <= j -> j <= k + N.of_nat (length us) -> oorigin x <> Some (mkid c j)) ->
  (forall j, k < j -> j <= k + N.of_nat (length us) -> ororigin x <> Some (mkid c j)) ->
  let ch := yib_dunits c (k + 1) (Some (mkid c k)) ro p ps del us in
  yata_scan x (ch ++ R) ku ku [] beforeu =
  yata_scan x R (ku + length us) (ku + length us) [] (yib_push (yib_ids ch) beforeu).
Proof.
  induction us as [|u r IH]; intros c k ro p ps del x R ku beforeu Hb Ho Hro ch; subst ch.
  - cbn [yib_dunits app length yib_ids map yib_push fold_left]. rewrite Nat.add_0_r. reflexivity.
  - cbn [yib_dunits app yata_scan]. cbn [did d_op oid oorigin ororigin].
    assert (E1 : oid_eqb (Some (mkid c (k + 1))) (ororigin x) = false).
    { apply yib_oid_eqb_false. intro E. apply (Hro (k + 1)); [lia|cbn [length]; lia|]. congruence. }
    rewrite E1.
    assert (E2 : oid_eqb (oorigin x) (Some (mkid c k)) = false).
    { apply yib_oid_eqb_false. apply Ho; [lia|cbn [length]; lia]. }
    rewrite E2.
    rewrite !yib_mem_cons, Hb, !orb_true_r.
    assert (E3 : id_eqb (mkid c k) (mkid c (k + 1)) = false).
    { apply id_eqb_neq. intro E. injection E. lia. }
    rewrite E3. cbn [mem_id existsb orb negb].
    specialize (IH c (k + 1) ro p ps del x R (S ku) (mkid c (k + 1) :: beforeu)).
    cbv zeta in IH. rewrite IH.
    + cbn [length yib_ids map yib_push fold_left did d_op oid].
      replace (S ku + length r)%nat with (ku + S (length r))%nat by lia. reflexivity.
    + rewrite yib_mem_cons, id_eqb_refl. reflexivity.
    + intros j Hj Hj2. apply Ho; [lia|cbn [length]; lia].
    + intros j Hj Hj2. apply Hro; [lia|cbn [length]; lia].
Qed.

(* ================================================================================================ *)
(* 3. the conflict loop = the unit-level scan                                                        *)
(* ================================================================================================ *)
(* the sets of the two levels: a unit is in the unit-level set iff its block is in the block-level set *)
Definition yib_corr (store : yib_seq) (set setu : list id) : Prop :=
  forall i, mem_id i setu = match yib_get_item i store with Some B => mem_id (yib_id B) set | None => false end.
(* get_item finds THE block that contains an id *)
Definition yib_canon (store : yib_seq) : Prop :=
  forall B i, In B store -> yib_contains B i = true -> yib_get_item i store = Some B.

Lemma yib_get_item_some : forall i s B, yib_get_item i s = Some B -> In B s /\ yib_contains B i = true.
Proof.
  intros i s. induction s as [|b r IH]; intros B H; cbn [yib_get_item] in H; [discriminate|].
  destruct (yib_contains b i) eqn:E.
  - injection H as <-. split; [left; reflexivity|exact E].
  - destruct (IH _ H) as [H1 H2]. split; [right; exact H1|exact H2].
Qed.

Lemma yib_loop_range : forall x right store rest k lft conf before, (lft <= k)%nat ->
  yib_loop x right store rest k lft conf before = lft \/ (k < yib_loop x right store rest k lft conf before)%nat.
Proof.
  intros x right store rest. induction rest as [|item rest' IH]; intros k lft conf before Hle; cbn [yib_loop].
  - left. reflexivity.
  - destruct (oid_eqb right (Some (yib_id item))); [left; reflexivity|].
    assert (Hclr : forall bf, (k < yib_loop x right store rest' (S k) (S k) [] bf)%nat).
    { intros bf. destruct (IH (S k) (S k) [] bf (le_n _)) as [E|E]; lia. }
    assert (Hkp : forall cf bf, yib_loop x right store rest' (S k) lft cf bf = lft \/
                                (k < yib_loop x right store rest' (S k) lft cf bf)%nat).
    { intros cf bf. destruct (IH (S k) lft cf bf) as [E|E]; [lia|left; exact E|right; lia]. }
    destruct (oid_eqb (yib_origin x) (yib_origin item)).
    + destruct (cl (yib_id item) <? cl (yib_id x)); [right; apply Hclr|].
      destruct (oid_eqb (yib_rorigin x) (yib_rorigin item)); [left; reflexivity|apply Hkp].
    + destruct (match yib_origin item with Some oi => yib_get_item oi store | None => None end);
        [|left; reflexivity].
      destruct (mem_id _ _); [|left; reflexivity].
      destruct (negb _); [right; apply Hclr|apply Hkp].
Qed.

Lemma yib_ids_distinct : forall store B B', yib_canon store -> (forall b, In b store -> yib_blk_ok b = true) ->
  In B store -> In B' store -> yib_id B = yib_id B' -> B = B'.
Proof.
  intros store B B' Hc Hok HB HB' E.
  pose proof (Hc B (yib_id B) HB (yib_contains_own_id _ (Hok _ HB))) as H1.
  pose proof (Hc B' (yib_id B') HB' (yib_contains_own_id _ (Hok _ HB'))) as H2.
  rewrite E in H1. congruence.
Qed.

Lemma yib_corr_step : forall store item set setu, yib_canon store ->
  (forall b, In b store -> yib_blk_ok b = true) -> In item store ->
  yib_corr store set setu ->
  yib_corr store (yib_id item :: set) (yib_push (yib_ids (yib_ditems item)) setu).
Proof.
  intros store item set setu Hc Hok Hin Hcorr i.
  rewrite yib_mem_push, (yib_contains_ids _ _ (Hok _ Hin)).
  destruct (yib_contains item i) eqn:E.
  - rewrite (Hc _ _ Hin E), yib_mem_cons, id_eqb_refl. reflexivity.
  - cbn [orb]. rewrite Hcorr. destruct (yib_get_item i store) as [B|] eqn:G; [|reflexivity].
    destruct (yib_get_item_some _ _ _ G) as [HB HBi].
    rewrite yib_mem_cons.
    assert (En : id_eqb (yib_id B) (yib_id item) = false).
    { apply id_eqb_neq. intro Eid. assert (B = item) by (eapply yib_ids_distinct; eassumption). subst. congruence. }
    rewrite En. reflexivity.
Qed.

Lemma yib_corr_nil : forall store, yib_corr store [] [].
Proof. intros store i. cbn. destruct (yib_get_item i store); reflexivity. Qed.

Lemma yib_loop_sim : forall (x : yib_blk) (ux : op) right store,
  oorigin ux = yib_origin x -> ororigin ux = yib_rorigin x -> cl (oid ux) = cl (yib_id x) ->
  yib_canon store -> (forall B, In B store -> yib_blk_ok B = true) ->
  (forall r, right = Some r -> yib_rorigin x = Some r) ->
  (right = None -> forall B i, In B store -> yib_rorigin x = Some i -> yib_contains B i = false) ->
  forall rest k lft conf before ku lftu confu beforeu,
  (forall B, In B rest -> In B store) ->
  (forall B i, In B rest -> yib_origin B = Some i -> yib_contains B i = false) ->
  (forall B i, In B rest -> yib_contains B i = true -> yib_origin x <> Some i) ->
  (forall B i, In B rest -> yib_contains B i = true -> yib_rorigin x = Some i -> i = yib_id B) ->
  (lft <= k)%nat -> yib_corr store conf confu -> yib_corr store before beforeu ->
  yata_scan ux (yib_expand rest) ku lftu confu beforeu =
    let r := yib_loop x right store rest k lft conf before in
    if (r <=? k)%nat then lftu else (ku + length (yib_expand (firstn (r - k) rest)))%nat.
Proof.
  intros x ux right store Hox Hrox Hcx Hcan Hok Hr1 Hr2 rest.
  induction rest as [|item rest' IH]; intros k lft conf before ku lftu confu beforeu Hsub Hself Hno Hnro Hle Hcf Hbf.
  - cbn [yib_expand flat_map yata_scan yib_loop]. apply Nat.leb_le in Hle. rewrite Hle. reflexivity.
  - assert (Hin : In item store) by (apply Hsub; left; reflexivity).
    pose proof (Hok _ Hin) as Hokb.
    destruct (yib_blk_ok_inv item Hokb) as (bi & o & ro & p & ps & c & Eb & Hwf & Hlen & Hpos).
    set (del := yib_del item) in *. destruct bi as [bc bk].
    destruct (content_units c) as [|u us] eqn:Ecu; [cbn [length] in Hlen; lia|].
    assert (Eexp : yib_expand (item :: rest') =
                   mkditem (mkop (mkid bc bk) o ro p ps u) del ::
                   (yib_dunits bc (bk + 1) (Some (mkid bc bk)) ro p ps del us ++ yib_expand rest')).
    { rewrite yib_expand_cons, Eb, yib_ditems_item, Ecu. reflexivity. }
    assert (Eids : yib_ids (yib_ditems item) =
                   mkid bc bk :: yib_ids (yib_dunits bc (bk + 1) (Some (mkid bc bk)) ro p ps del us)).
    { rewrite Eb, yib_ditems_item, Ecu. reflexivity. }
    assert (Eid : yib_id item = mkid bc bk) by (rewrite Eb; reflexivity).
    assert (Eo : yib_origin item = o) by (rewrite Eb; reflexivity).
    assert (Ero : yib_rorigin item = ro) by (rewrite Eb; reflexivity).
    assert (Hrange : forall j, bk <= j -> j <= bk + N.of_nat (length us) -> yib_contains item (mkid bc j) = true).
    { intros j H1 H2. rewrite Eb. unfold yib_contains, yib_id, yib_len. cbn [yib_b block_id block_len cl ck].
      rewrite N.eqb_refl. cbn [andb]. rewrite andb_true_iff. split; [apply N.leb_le; exact H1|].
      apply N.ltb_lt. rewrite <- Hlen. cbn [length]. lia. }
    assert (HoC : forall j, bk <= j -> j <= bk + N.of_nat (length us) -> oorigin ux <> Some (mkid bc j)).
    { intros j H1 H2. rewrite Hox. eapply Hno; [left; reflexivity|]. apply Hrange; assumption. }
    assert (HroC : forall j, bk < j -> j <= bk + N.of_nat (length us) -> ororigin ux <> Some (mkid bc j)).
    { intros j H1 H2 E. rewrite Hrox in E.
      assert (mkid bc j = yib_id item).
      { eapply Hnro; [left; reflexivity| |exact E]. apply Hrange; [lia|assumption]. }
      rewrite Eid in H. injection H. lia. }
    (* the rest of the list *)
    assert (Hsub' : forall B, In B rest' -> In B store) by (intros; apply Hsub; right; assumption).
    assert (Hself' : forall B i, In B rest' -> yib_origin B = Some i -> yib_contains B i = false)
      by (intros B i HB; apply Hself; right; assumption).
    assert (Hno' : forall B i, In B rest' -> yib_contains B i = true -> yib_origin x <> Some i)
      by (intros B i HB; apply Hno; right; assumption).
    assert (Hnro' : forall B i, In B rest' -> yib_contains B i = true -> yib_rorigin x = Some i -> i = yib_id B)
      by (intros B i HB; apply Hnro; right; assumption).
    (* the two ways of going on *)
    assert (Hlen1 : length (yib_ditems item) = S (length us)).
    { rewrite Eb, yib_ditems_item, Ecu. cbn [yib_dunits length]. rewrite yib_dunits_length. reflexivity. }
    assert (Hclear : forall bfu bf, yib_corr store bf bfu ->
       yata_scan ux (yib_dunits bc (bk + 1) (Some (mkid bc bk)) ro p ps del us ++ yib_expand rest')
                 (S ku) (S ku) [] (mkid bc bk :: bfu) =
       let r := yib_loop x right store rest' (S k) (S k) [] (yib_id item :: bf) in
       if (r <=? k)%nat then lftu else (ku + length (yib_expand (firstn (r - k) (item :: rest'))))%nat).
    { intros bfu bf Hc0. rewrite yib_scan_chain_clear; [|rewrite yib_mem_cons, id_eqb_refl; reflexivity|exact HoC|exact HroC].
      rewrite (IH (S k) (S k) [] (yib_id item :: bf)); try assumption.
      - cbv zeta. destruct (yib_loop_range x right store rest' (S k) (S k) [] (yib_id item :: bf) (le_n _)) as [E|E].
        + rewrite E. rewrite Nat.leb_refl. replace (S k <=? k)%nat with false by (symmetry; apply Nat.leb_gt; lia).
          replace (S k - k)%nat with 1%nat by lia. cbn [firstn]. rewrite yib_expand_cons. cbn [yib_expand flat_map].
          rewrite app_nil_r, Hlen1. lia.
        + set (r := yib_loop x right store rest' (S k) (S k) [] (yib_id item :: bf)) in *.
          replace (r <=? S k)%nat with false by (symmetry; apply Nat.leb_gt; lia).
          replace (r <=? k)%nat with false by (symmetry; apply Nat.leb_gt; lia).
          replace (r - k)%nat with (S (r - S k)) by lia. cbn [firstn]. rewrite yib_expand_cons, app_length, Hlen1. lia.
      - lia.
      - apply yib_corr_nil.
      - pose proof (yib_corr_step store item bf bfu Hcan Hok Hin Hc0) as Hs. rewrite Eids in Hs.
        cbn [yib_push fold_left] in Hs. exact Hs. }
    assert (Hkeep : forall cfu cf bfu bf, yib_corr store cf cfu -> yib_corr store bf bfu ->
       yata_scan ux (yib_dunits bc (bk + 1) (Some (mkid bc bk)) ro p ps del us ++ yib_expand rest')
                 (S ku) lftu (mkid bc bk :: cfu) (mkid bc bk :: bfu) =
       let r := yib_loop x right store rest' (S k) lft (yib_id item :: cf) (yib_id item :: bf) in
       if (r <=? k)%nat then lftu else (ku + length (yib_expand (firstn (r - k) (item :: rest'))))%nat).
    { intros cfu cf bfu bf Hc0 Hb0.
      rewrite yib_scan_chain_keep; [|rewrite yib_mem_cons, id_eqb_refl; reflexivity
                                    |rewrite yib_mem_cons, id_eqb_refl; reflexivity|exact HoC|exact HroC].
      rewrite (IH (S k) lft (yib_id item :: cf) (yib_id item :: bf)); try assumption.
      - cbv zeta. destruct (yib_loop_range x right store rest' (S k) lft (yib_id item :: cf) (yib_id item :: bf)) as [E|E]; [lia| |].
        + rewrite E. replace (lft <=? S k)%nat with true by (symmetry; apply Nat.leb_le; lia).
          replace (lft <=? k)%nat with true by (symmetry; apply Nat.leb_le; lia). reflexivity.
        + set (r := yib_loop x right store rest' (S k) lft (yib_id item :: cf) (yib_id item :: bf)) in *.
          replace (r <=? S k)%nat with false by (symmetry; apply Nat.leb_gt; lia).
          replace (r <=? k)%nat with false by (symmetry; apply Nat.leb_gt; lia).
          replace (r - k)%nat with (S (r - S k)) by lia. cbn [firstn]. rewrite yib_expand_cons, app_length, Hlen1. lia.
      - lia.
      - pose proof (yib_corr_step store item cf cfu Hcan Hok Hin Hc0) as Hs. rewrite Eids in Hs.
        cbn [yib_push fold_left] in Hs. exact Hs.
      - pose proof (yib_corr_step store item bf bfu Hcan Hok Hin Hb0) as Hs. rewrite Eids in Hs.
        cbn [yib_push fold_left] in Hs. exact Hs. }
    assert (Hbreak : lftu = let r := lft in if (r <=? k)%nat then lftu
                                else (ku + length (yib_expand (firstn (r - k) (item :: rest'))))%nat).
    { cbv zeta. apply Nat.leb_le in Hle. rewrite Hle. reflexivity. }
    rewrite Eid in Hclear, Hkeep. cbv zeta in Hclear, Hkeep, Hbreak.
    rewrite Eexp. cbn [yata_scan yib_loop]. cbn [did d_op oid oorigin ororigin].
    (* the test `self.right == Some(item)` *)
    assert (Et : oid_eqb (Some (mkid bc bk)) (ororigin ux) = oid_eqb right (Some (yib_id item))).
    { rewrite Eid, Hrox. destruct right as [r|].
      - rewrite (Hr1 r eq_refl). apply yib_oid_eqb_sym.
      - change (oid_eqb None (Some (mkid bc bk))) with false. apply yib_oid_eqb_false. intro E. symmetry in E.
        pose proof (Hr2 eq_refl item (mkid bc bk) Hin E) as Hc0.
        rewrite <- Eid, yib_contains_own_id in Hc0 by exact Hokb. discriminate. }
    rewrite Et. destruct (oid_eqb right (Some (yib_id item))); [exact Hbreak|].
    rewrite Hox, Eo, Hcx, Hrox, Ero, Eid.
    destruct (oid_eqb (yib_origin x) o) eqn:Eor.
    + cbn [cl]. destruct (bc <? cl (yib_id x)).
      * apply Hclear. exact Hbf.
      * destruct (oid_eqb (yib_rorigin x) ro); [exact Hbreak|].
        apply Hkeep; assumption.
    + destruct o as [oo|]; [|exact Hbreak].
      assert (Hoo : yib_contains item oo = false) by (eapply Hself; [left; reflexivity|exact Eo]).
      assert (Hne : id_eqb oo (mkid bc bk) = false).
      { apply id_eqb_neq. intro E. subst oo. rewrite <- Eid, yib_contains_own_id in Hoo by exact Hokb. discriminate. }
      rewrite !yib_mem_cons, Hne. cbn [orb]. rewrite (Hbf oo), (Hcf oo).
      destruct (yib_get_item oo store) as [B|] eqn:G; [|exact Hbreak].
      destruct (yib_get_item_some _ _ _ G) as [HB HBi].
      assert (En : id_eqb (yib_id B) (mkid bc bk) = false).
      { apply id_eqb_neq. intro Ei. rewrite <- Eid in Ei.
        assert (EB : B = item) by (eapply yib_ids_distinct; eassumption). rewrite EB in HBi. congruence. }
      rewrite !yib_mem_cons, En. cbn [orb].
      destruct (mem_id (yib_id B) before); [|exact Hbreak].
      destruct (mem_id (yib_id B) conf); cbn [negb].
      * apply Hkeep; assumption.
      * apply Hclear. exact Hbf.
Qed.

(* ================================================================================================ *)
(* 4. from the unit-level well-formedness to what the loop needs                                     *)
(* ================================================================================================ *)
Lemma yib_forallb_In : forall (s : yib_seq) B, forallb yib_blk_ok s = true -> In B s -> yib_blk_ok B = true.
Proof. intros s B H HB. rewrite forallb_forall in H. apply H. exact HB. Qed.

Lemma yib_contains_expand : forall s B i, forallb yib_blk_ok s = true -> In B s -> yib_contains B i = true ->
  In i (yib_ids (yib_expand s)).
Proof.
  intros s B i Hok HB Hc. destruct (in_split _ _ HB) as (s1 & s2 & ->).
  rewrite yib_expand_app, yib_expand_cons, !yib_ids_app. apply in_or_app. right. apply in_or_app. left.
  apply yib_mem_In. rewrite yib_contains_ids; [exact Hc|]. eapply yib_forallb_In; eassumption.
Qed.

Lemma yib_expand_contains : forall s i, forallb yib_blk_ok s = true -> In i (yib_ids (yib_expand s)) ->
  exists B, In B s /\ yib_contains B i = true.
Proof.
  induction s as [|b r IH]; intros i Hok Hi; [destruct Hi|].
  cbn [forallb] in Hok. apply andb_prop in Hok. destruct Hok as [Hb Hr].
  rewrite yib_expand_cons, yib_ids_app in Hi. apply in_app_or in Hi. destruct Hi as [Hi|Hi].
  - exists b. split; [left; reflexivity|]. rewrite <- yib_contains_ids by exact Hb. apply yib_mem_In. exact Hi.
  - destruct (IH i Hr Hi) as (B & HB & Hc). exists B. split; [right; exact HB|exact Hc].
Qed.

Lemma yib_canon_of_nodup : forall s, forallb yib_blk_ok s = true ->
  yib_nodupb (yib_ids (yib_expand s)) = true -> yib_canon s.
Proof.
  induction s as [|b r IH]; intros Hok Hnd B i HB Hc; [destruct HB|].
  pose proof Hok as Hok0. cbn [forallb] in Hok. apply andb_prop in Hok. destruct Hok as [Hb Hr].
  rewrite yib_expand_cons, yib_ids_app in Hnd. cbn [yib_get_item].
  destruct (yib_contains b i) eqn:E.
  - destruct HB as [<-|HB]; [reflexivity|]. exfalso.
    eapply yib_nodupb_app; [exact Hnd| |].
    + apply yib_mem_In. rewrite yib_contains_ids; [exact E|exact Hb].
    + eapply yib_contains_expand; eassumption.
  - destruct HB as [<-|HB]; [congruence|]. apply IH; try assumption. eapply yib_nodupb_app_r. exact Hnd.
Qed.

Lemma yib_origins_left_app_r : forall a b, yib_origins_left (a ++ b) = true -> yib_origins_left b = true.
Proof.
  induction a as [|u r IH]; intros b H; [exact H|].
  cbn [app yib_origins_left] in H. apply andb_prop in H. apply IH. apply H.
Qed.
Lemma yib_origins_left_In : forall l u, yib_origins_left l = true -> In u l -> oorigin (d_op u) <> Some (did u).
Proof.
  induction l as [|v r IH]; intros u H Hu; [destruct Hu|].
  cbn [yib_origins_left] in H. apply andb_prop in H. destruct H as [Hv Hr].
  destruct Hu as [<-|Hu]; [|apply IH; assumption].
  intro E. rewrite E in Hv. apply negb_true_iff in Hv. unfold yib_ids in Hv. cbn [map] in Hv.
  rewrite yib_mem_cons, id_eqb_refl in Hv. discriminate.
Qed.

Lemma yib_ditems_head : forall b, yib_blk_ok b = true ->
  exists u r, yib_ditems b = u :: r /\ oorigin (d_op u) = yib_origin b /\ ororigin (d_op u) = yib_rorigin b /\
              did u = yib_id b.
Proof.
  intros b H. destruct (yib_blk_ok_inv b H) as (bi & o & ro & p & ps & c & Eb & Hwf & Hlen & Hpos).
  rewrite Eb, yib_ditems_item. destruct (content_units c) as [|u us]; [cbn [length] in Hlen; lia|].
  cbn [yib_dunits]. eexists _, _. split; [reflexivity|]. destruct bi. repeat split.
Qed.

Lemma yib_origin_not_self : forall s B i, forallb yib_blk_ok s = true ->
  yib_origins_left (yib_expand s) = true -> In B s -> yib_origin B = Some i -> yib_contains B i = false.
Proof.
  intros s B i Hok Hol HB Ho. pose proof (yib_forallb_In _ _ Hok HB) as HokB.
  destruct (in_split _ _ HB) as (s1 & s2 & ->).
  rewrite yib_expand_app, yib_expand_cons in Hol. apply yib_origins_left_app_r in Hol.
  destruct (yib_ditems_head B HokB) as (u & r & Eu & Eo & _ & _).
  destruct (yib_contains B i) eqn:E; [|reflexivity]. exfalso.
  rewrite <- yib_contains_ids in E by exact HokB. rewrite Eu in E, Hol.
  cbn [app yib_origins_left] in Hol. rewrite Eo, Ho in Hol. apply andb_prop in Hol. destruct Hol as [Hol _].
  apply negb_true_iff in Hol. change (u :: r ++ yib_expand s2) with ((u :: r) ++ yib_expand s2) in Hol.
  rewrite yib_ids_app, yib_mem_app, E in Hol. discriminate.
Qed.

Lemma yib_cut_after_app : forall p P L suf, (forall B, In B P -> yib_id B <> p) -> yib_id L = p ->
  yib_cut_after p (P ++ L :: suf) = Some (P ++ [L], suf).
Proof.
  intros p P. induction P as [|b r IH]; intros L suf Hn HL; cbn [app yib_cut_after].
  - rewrite HL, id_eqb_refl. reflexivity.
  - replace (id_eqb (yib_id b) p) with false by (symmetry; apply id_eqb_neq; apply Hn; left; reflexivity).
    rewrite IH; [reflexivity| |exact HL]. intros B HB. apply Hn. right. exact HB.
Qed.

Lemma yib_dunits_last : forall us c k o ro p ps del, us <> [] ->
  exists init ul, yib_dunits c k o ro p ps del us = init ++ [ul] /\
                  did ul = mkid c (k + N.of_nat (length us) - 1).
Proof.
  induction us as [|u r IH]; intros c k o ro p ps del Hne; [congruence|].
  destruct r as [|u2 r2].
  - exists [], (mkditem (mkop (mkid c k) o ro p ps u) del). split; [reflexivity|].
    cbn [did d_op oid length]. f_equal. lia.
  - destruct (IH c (k + 1) (Some (mkid c k)) ro p ps del) as (init & ul & E & Hid); [discriminate|].
    exists (mkditem (mkop (mkid c k) o ro p ps u) del :: init), ul. split.
    + cbn [yib_dunits app] in *. rewrite E. reflexivity.
    + rewrite Hid. f_equal. cbn [length]. lia.
Qed.

Lemma yib_ditems_last : forall b, yib_blk_ok b = true ->
  exists init ul, yib_ditems b = init ++ [ul] /\ did ul = yib_last_id b.
Proof.
  intros b H. destruct (yib_blk_ok_inv b H) as (bi & o & ro & p & ps & c & Eb & Hwf & Hlen & Hpos).
  rewrite Eb, yib_ditems_item.
  destruct (yib_dunits_last (content_units c) (cl bi) (ck bi) o ro p ps (yib_del b)) as (init & ul & E & Hid).
  { intro E. rewrite E in Hlen. cbn [length] in Hlen. lia. }
  exists init, ul. split; [exact E|]. rewrite Hid, Hlen. reflexivity.
Qed.

(* the conflict loop is not needed when detect_conflict says so: it would return 0 *)
Lemma yib_no_conflict_loop_zero : forall x left right store suf,
  yib_detect_conflict left right suf = false -> yib_resolve_conflict x right store suf = O.
Proof.
  intros x left right store suf H. unfold yib_resolve_conflict.
  assert (Hh : oid_eqb (yib_head_ptr suf) right = true).
  { unfold yib_detect_conflict in H. destruct left, right; try discriminate;
      apply negb_false_iff in H; exact H. }
  apply yib_oid_eqb_true in Hh. destruct suf as [|b r]; [reflexivity|].
  cbn [yib_head_ptr] in Hh. subst right. cbn [yib_loop]. rewrite blk_oid_eqb_refl. reflexivity.
Qed.

(* ================================================================================================ *)
(* 5. the units of the incoming block, one after the other                                           *)
(* ================================================================================================ *)
Lemma yib_scan_zero : forall x R,
  match R with
  | [] => True
  | o :: _ => oorigin x <> oorigin (d_op o) /\ oorigin (d_op o) <> Some (did o)
  end -> yata_scan x R 0 0 [] [] = O.
Proof.
  intros x [|o R] H; [reflexivity|]. destruct H as [H1 H2]. cbn [yata_scan].
  destruct (oid_eqb (Some (did o)) (ororigin x)); [reflexivity|].
  replace (oid_eqb (oorigin x) (oorigin (d_op o))) with false by (symmetry; apply yib_oid_eqb_false; exact H1).
  destruct (oorigin (d_op o)) as [oo|]; [|reflexivity].
  rewrite yib_mem_cons. replace (id_eqb oo (did o)) with false; [reflexivity|].
  symmetry. apply id_eqb_neq. congruence.
Qed.

Lemma yib_insert_next : forall A uj R u', oorigin (d_op u') = Some (did uj) ->
  (forall z, In z A -> did z <> did uj) -> yata_scan (d_op u') R 0 0 [] [] = O ->
  yata_insert (A ++ uj :: R) u' = (A ++ [uj]) ++ u' :: R.
Proof.
  intros A uj R u' Ho HA Hs. unfold yata_insert. rewrite Ho.
  rewrite (split_after_first (did uj) A uj R HA eq_refl). rewrite Hs. reflexivity.
Qed.

Lemma yib_fold_chain : forall us c k ro p ps del A prev R,
  did prev = mkid c k ->
  (forall z, In z A -> ~ (cl (did z) = c /\ k <= ck (did z) /\ ck (did z) <= k + N.of_nat (length us))) ->
  match R with
  | [] => True
  | o :: _ => (forall j, k <= j -> j <= k + N.of_nat (length us) -> oorigin (d_op o) <> Some (mkid c j)) /\
              oorigin (d_op o) <> Some (did o)
  end ->
  fold_left yata_insert (yib_dunits c (k + 1) (Some (mkid c k)) ro p ps del us) (A ++ prev :: R)
  = A ++ prev :: yib_dunits c (k + 1) (Some (mkid c k)) ro p ps del us ++ R.
Proof.
  induction us as [|u r IH]; intros c k ro p ps del A prev R Hp HA HR; [reflexivity|].
  cbn [yib_dunits fold_left]. rewrite yib_insert_next.
  - rewrite (IH c (k + 1) ro p ps del (A ++ [prev])).
    + rewrite <- app_assoc. reflexivity.
    + reflexivity.
    + intros z Hz (Hc & H1 & H2). apply in_app_or in Hz. destruct Hz as [Hz|[<-|[]]].
      * apply (HA z Hz). split; [exact Hc|]. cbn [length]. lia.
      * rewrite Hp in H1. cbn [ck] in H1. lia.
    + destruct R as [|o R']; [exact I|]. destruct HR as [HR1 HR2]. split; [|exact HR2].
      intros j H1 H2. apply HR1; [lia|cbn [length]; lia].
  - cbn [d_op oorigin]. rewrite Hp. reflexivity.
  - intros z Hz E. apply (HA z Hz). rewrite E, Hp. cbn [cl ck length]. split; [reflexivity|lia].
  - apply yib_scan_zero. destruct R as [|o R']; [exact I|]. destruct HR as [HR1 HR2]. split; [|exact HR2].
    cbn [d_op oorigin]. intro E. apply (HR1 k); [lia|lia|]. symmetry. exact E.
Qed.

(* ================================================================================================ *)
(* 6. THEOREM 4: the conflict loop computes the position yata_scan computes                           *)
(* ================================================================================================ *)
(* [s] = the sequence after the splits, [suf] = what lies to the right of the resolved left ([s] = pre ++ suf);
   right = the pointer resolved from the right origin.  The unit-level scan of the first unit of x over the
   units of suf stops after exactly the units of the blocks the loop steps over. *)
Definition yib_right_ok (x : yib_blk) (right : option id) (s suf : yib_seq) : Prop :=
  (forall r, right = Some r -> yib_rorigin x = Some r) /\
  (right = None -> forall i, yib_rorigin x = Some i -> ~ In i (yib_ids (yib_expand s))) /\
  (forall B i, In B suf -> yib_contains B i = true -> yib_rorigin x = Some i -> i = yib_id B).

Theorem yib_conflict_loop_spec : forall (x : yib_blk) (ux : op) right s pre suf,
  oorigin ux = yib_origin x -> ororigin ux = yib_rorigin x -> cl (oid ux) = cl (yib_id x) ->
  forallb yib_blk_ok s = true -> yib_nodupb (yib_ids (yib_expand s)) = true ->
  yib_origins_left (yib_expand s) = true ->
  s = pre ++ suf ->
  (forall o, yib_origin x = Some o -> ~ In o (yib_ids (yib_expand suf))) ->
  yib_right_ok x right s suf ->
  yata_scan ux (yib_expand suf) 0 0 [] [] =
  length (yib_expand (firstn (yib_resolve_conflict x right s suf) suf)).
Proof.
  intros x ux right s pre suf Hox Hrox Hcx Hok Hnd Hol Es Hno (Hr1 & Hr2 & Hr3).
  pose proof (yib_canon_of_nodup s Hok Hnd) as Hcan.
  assert (Hsuf : forall B, In B suf -> In B s) by (intros B HB; rewrite Es; apply in_or_app; right; exact HB).
  assert (Hoksuf : forallb yib_blk_ok suf = true).
  { rewrite Es, forallb_app in Hok. apply andb_prop in Hok. apply Hok. }
  unfold yib_resolve_conflict.
  assert (HR2 : right = None -> forall B i, In B s -> yib_rorigin x = Some i -> yib_contains B i = false).
  { intros Hn B i HB Hi. destruct (yib_contains B i) eqn:E; [|reflexivity]. exfalso.
    apply (Hr2 Hn i Hi). eapply yib_contains_expand; eassumption. }
  rewrite (yib_loop_sim x ux right s Hox Hrox Hcx Hcan (fun B => yib_forallb_In s B Hok) Hr1 HR2
             suf O O [] [] O O [] []).
  - cbv zeta. destruct (yib_loop x right s suf 0 0 [] []) as [|r]; [reflexivity|].
    cbn [Nat.leb]. rewrite Nat.sub_0_r. reflexivity.
  - exact Hsuf.
  - intros B i HB Ho. apply (yib_origin_not_self s B i Hok Hol (Hsuf B HB) Ho).
  - intros B i HB Hc Ho. apply (Hno i Ho). eapply yib_contains_expand; eassumption.
  - exact Hr3.
  - apply le_n.
  - apply yib_corr_nil.
  - apply yib_corr_nil.
Qed.
Print Assumptions yib_conflict_loop_spec.

(* ================================================================================================ *)
(* 7. integration with resolved pointers refines the unit-level integration                           *)
(* ================================================================================================ *)
(* the block as it arrives: a Deleted content is deleted, and so is everything under a deleted parent *)
Definition yib_arrival (x : yib_blk) (pdel : bool) : yib_blk :=
  yib_set_del x (yib_is_deleted_content x || yib_del x || pdel).

(* x is new for s: its ids are not there, nothing refers to them, its origin is not one of its own units *)
Definition yib_new_for (s : yib_seq) (x : yib_blk) : Prop :=
  yib_blk_ok x = true /\
  (forall u, In u (yib_expand s) -> yib_contains x (did u) = false /\
                                    forall o, oorigin (d_op u) = Some o -> yib_contains x o = false) /\
  (forall o, yib_origin x = Some o -> yib_contains x o = false).

(* left is the pointer resolved from the origin: s = pre ++ suf, pre ends with the block that ends at the
   origin; or there is no such block (origin None, or not in the sequence) and pre = [] *)
Definition yib_left_ok (x : yib_blk) (left : option id) (s pre suf : yib_seq) : Prop :=
  s = pre ++ suf /\
  ((left = None /\ pre = [] /\ (forall o, yib_origin x = Some o -> ~ In o (yib_ids (yib_expand s)))) \/
   (exists P L, pre = P ++ [L] /\ left = Some (yib_id L) /\ yib_origin x = Some (yib_last_id L))).

Lemma yib_ditems_set_del : forall x d, yib_blk_ok x = true ->
  exists i o ro p ps c, x = yib_mk (BItem i o ro p ps c) (yib_del x) /\
    yib_ditems (yib_set_del x d) = yib_dunits (cl i) (ck i) o ro p ps d (content_units c) /\
    N.of_nat (length (content_units c)) = content_len c /\ 0 < content_len c.
Proof.
  intros x d H. destruct (yib_blk_ok_inv x H) as (bi & o & ro & p & ps & c & Eb & Hwf & Hlen & Hpos).
  exists bi, o, ro, p, ps, c. repeat split; try assumption.
  rewrite Eb. unfold yib_set_del. cbn [yib_b]. apply yib_ditems_item.
Qed.

Theorem yib_integrate_ptrs_refines : forall s x left right pdel pre suf,
  forallb yib_blk_ok s = true -> yib_nodupb (yib_ids (yib_expand s)) = true ->
  yib_origins_left (yib_expand s) = true ->
  yib_new_for s x -> yib_psub x = None ->
  yib_left_ok x left s pre suf -> yib_right_ok x right s suf ->
  exists n, yib_integrate_ptrs s x left right pdel = yib_ok (pre ++ firstn n suf ++ yib_arrival x pdel :: skipn n suf) /\
    yib_expand (pre ++ firstn n suf ++ yib_arrival x pdel :: skipn n suf)
    = fold_left yata_insert (yib_ditems (yib_arrival x pdel)) (yib_expand s).
Proof.
  intros s x left right pdel pre suf Hok Hnd Hol (Hokx & Hfresh & Hxo) Hps (Es & Hleft) Hright.
  set (n := yib_resolve_conflict x right s suf).
  exists n.
  assert (Hoksuf : forallb yib_blk_ok suf = true).
  { rewrite Es, forallb_app in Hok. apply andb_prop in Hok. apply Hok. }
  assert (Hokpre : forallb yib_blk_ok pre = true).
  { rewrite Es, forallb_app in Hok. apply andb_prop in Hok. apply Hok. }
  assert (Hnd2 : yib_nodupb (yib_ids (yib_expand pre) ++ yib_ids (yib_expand suf)) = true).
  { rewrite <- yib_ids_app, <- yib_expand_app, <- Es. exact Hnd. }
  (* 1. the block-level result *)
  assert (Hcut : match left with None => pre = [] /\ suf = s | Some p => yib_cut_after p s = Some (pre, suf) end).
  { destruct Hleft as [(-> & -> & _)|(P & L & -> & -> & _)].
    - rewrite Es. split; reflexivity.
    - rewrite Es, <- app_assoc. cbn [app]. apply yib_cut_after_app; [|reflexivity].
      intros B HB E.
      assert (HokB : yib_blk_ok B = true).
      { eapply yib_forallb_In; [exact Hokpre|]. apply in_or_app. left. exact HB. }
      assert (HokL : yib_blk_ok L = true).
      { eapply yib_forallb_In; [exact Hokpre|]. apply in_or_app. right. left. reflexivity. }
      rewrite forallb_app in Hokpre. apply andb_prop in Hokpre. destruct Hokpre as [HokP _].
      rewrite yib_expand_app, yib_ids_app, <- app_assoc in Hnd2.
      eapply (yib_nodupb_app _ _ (yib_id B) Hnd2).
      + eapply yib_contains_expand; [exact HokP|exact HB|]. apply yib_contains_own_id. exact HokB.
      + apply in_or_app. left. cbn [yib_expand flat_map]. rewrite app_nil_r. apply yib_mem_In.
        rewrite yib_contains_ids by exact HokL. rewrite E. apply yib_contains_own_id. exact HokL. }
  assert (Hres : yib_integrate_ptrs s x left right pdel =
                 yib_ok (pre ++ firstn n suf ++ yib_arrival x pdel :: skipn n suf)).
  { assert (En : (if yib_detect_conflict left right suf then yib_resolve_conflict x right s suf else O) = n).
    { destruct (yib_detect_conflict left right suf) eqn:Ed; [reflexivity|].
      symmetry. eapply yib_no_conflict_loop_zero. exact Ed. }
    unfold yib_integrate_ptrs. destruct left as [lp|].
    - rewrite Hcut, En. unfold yib_link. rewrite Hps. rewrite <- app_assoc. reflexivity.
    - destruct Hcut as [Ep Esf]. clearbody n. subst suf. cbv beta iota zeta. rewrite En.
      unfold yib_link. rewrite Hps, Ep. reflexivity. }
  split; [exact Hres|].
  (* 2. the unit level *)
  destruct (yib_ditems_set_del x (yib_is_deleted_content x || yib_del x || pdel) Hokx)
    as (xi & xo & xro & xp & xps & xc & Ex & Edit & Hlen & Hpos).
  destruct xi as [c k]. cbn [cl ck] in Edit.
  destruct (content_units xc) as [|u us] eqn:Ecu; [cbn [length] in Hlen; lia|].
  set (d := yib_is_deleted_content x || yib_del x || pdel) in *.
  set (u0 := mkditem (mkop (mkid c k) xo xro xp xps u) d).
  assert (Exo : yib_origin x = xo) by (rewrite Ex; reflexivity).
  assert (Exro : yib_rorigin x = xro) by (rewrite Ex; reflexivity).
  assert (Exid : yib_id x = mkid c k) by (rewrite Ex; reflexivity).
  assert (Hxr : forall i, yib_contains x i = true <-> cl i = c /\ k <= ck i /\ ck i <= k + N.of_nat (length us)).
  { intros i. rewrite Ex. unfold yib_contains, yib_id, yib_len. cbn [yib_b block_id block_len cl ck].
    rewrite <- Hlen. cbn [length]. rewrite !andb_true_iff, N.eqb_eq, N.leb_le, N.ltb_lt. split.
    - intros [[H1 H2] H3]. repeat split; [congruence|exact H2|lia].
    - intros (H1 & H2 & H3). repeat split; [congruence|exact H2|lia]. }
  (* the scan of the first unit *)
  assert (Hscan : yata_scan (d_op u0) (yib_expand suf) 0 0 [] [] = length (yib_expand (firstn n suf))).
  { apply (yib_conflict_loop_spec x (d_op u0) right s pre suf); try assumption.
    - cbn. symmetry. exact Exo.
    - cbn. symmetry. exact Exro.
    - cbn. rewrite Exid. reflexivity.
    - intros o Ho Hin. destruct Hleft as [(_ & _ & Habs)|(P & L & EP & _ & HoL)].
      + apply (Habs o Ho). rewrite Es, yib_expand_app, yib_ids_app. apply in_or_app. right. exact Hin.
      + rewrite Ho in HoL. injection HoL as ->.
        eapply (yib_nodupb_app _ _ (yib_last_id L) Hnd2); [|exact Hin].
        assert (HokL : yib_blk_ok L = true).
        { eapply yib_forallb_In; [exact Hokpre|]. rewrite EP. apply in_or_app. right. left. reflexivity. }
        destruct (yib_ditems_last L HokL) as (init & ul & El & Hul).
        rewrite EP, yib_expand_app, yib_ids_app. apply in_or_app. right. cbn [yib_expand flat_map].
        rewrite app_nil_r, El, yib_ids_app. apply in_or_app. right. left. exact Hul. }
  (* the first unit *)
  assert (Hfirst : yata_insert (yib_expand s) u0 =
                   (yib_expand pre ++ yib_expand (firstn n suf)) ++ u0 :: yib_expand (skipn n suf)).
  { assert (Hsplit : match oorigin (d_op u0) with
                     | None => ([], yib_expand s)
                     | Some o => match split_after o (yib_expand s) with Some pp => pp | None => ([], yib_expand s) end
                     end = (yib_expand pre, yib_expand suf)).
    { cbn [u0 d_op oorigin]. rewrite <- Exo. destruct Hleft as [(_ & -> & Habs)|(P & L & EP & _ & HoL)].
      - rewrite Es. cbn [app yib_expand flat_map]. destruct (yib_origin x) as [o|]; [|reflexivity].
        replace (split_after o (flat_map yib_ditems suf)) with (@None (list ditem * list ditem)); [reflexivity|].
        symmetry. apply split_after_none. intros z Hz E. apply (Habs o eq_refl).
        rewrite Es. cbn [app]. unfold yib_ids. rewrite <- E. apply in_map. exact Hz.
      - rewrite HoL.
        assert (HokL : yib_blk_ok L = true).
        { eapply yib_forallb_In; [exact Hokpre|]. rewrite EP. apply in_or_app. right. left. reflexivity. }
        destruct (yib_ditems_last L HokL) as (init & ul & El & Hul).
        assert (Epre : yib_expand pre = (yib_expand P ++ init) ++ [ul]).
        { rewrite EP, yib_expand_app. cbn [yib_expand flat_map]. rewrite app_nil_r, El, app_assoc. reflexivity. }
        rewrite Es, yib_expand_app, Epre, <- app_assoc. cbn [app].
        rewrite (split_after_first (yib_last_id L) (yib_expand P ++ init) ul (yib_expand suf)); [reflexivity| |exact Hul].
        intros z Hz E. rewrite Epre, yib_ids_app in Hnd2. apply yib_nodupb_app_l in Hnd2.
        eapply (yib_nodupb_app _ _ (yib_last_id L) Hnd2).
        + unfold yib_ids. rewrite <- E. apply in_map. exact Hz.
        + left. exact Hul. }
    unfold yata_insert. rewrite Hsplit, Hscan.
    assert (Esuf : yib_expand suf = yib_expand (firstn n suf) ++ yib_expand (skipn n suf)).
    { rewrite <- yib_expand_app, firstn_skipn. reflexivity. }
    rewrite Esuf at 1 2. rewrite blk_firstn_app_len, blk_skipn_app_len, app_assoc. reflexivity. }
  unfold yib_arrival. fold d. rewrite Edit. cbn [yib_dunits fold_left]. fold u0. rewrite Hfirst.
  rewrite yib_fold_chain.
  - rewrite !yib_expand_app, yib_expand_cons. rewrite Edit.
    cbn [yib_dunits]. fold u0. rewrite <- !app_assoc. reflexivity.
  - reflexivity.
  - intros z Hz Hr. assert (Hzs : In z (yib_expand s)).
    { rewrite Es, yib_expand_app. apply in_app_or in Hz. apply in_or_app. destruct Hz as [Hz|Hz]; [left; exact Hz|right].
      rewrite <- (firstn_skipn n suf), yib_expand_app. apply in_or_app. left. exact Hz. }
    destruct (Hfresh z Hzs) as [Hf _]. apply Hxr in Hr. congruence.
  - destruct (yib_expand (skipn n suf)) as [|o R'] eqn:ER; [exact I|].
    assert (Hos : In o (yib_expand s)).
    { rewrite Es, yib_expand_app. apply in_or_app. right.
      rewrite <- (firstn_skipn n suf), yib_expand_app. apply in_or_app. right. rewrite ER. left. reflexivity. }
    split.
    + intros j H1 H2 E. destruct (Hfresh o Hos) as [_ Hf]. specialize (Hf _ E).
      assert (yib_contains x (mkid c j) = true) by (apply Hxr; cbn [cl ck]; repeat split; assumption). congruence.
    + eapply yib_origins_left_In; eassumption.
Qed.
Print Assumptions yib_integrate_ptrs_refines.

(* ================================================================================================ *)
(* 8. THEOREM 2: splits are invisible at unit level                                                   *)
(* ================================================================================================ *)
Lemma yib_split_ditems : forall b k l r, blk_wf (yib_b b) = true -> blk_split (yib_b b) k = Some (l, r) ->
  yib_ditems b = yib_ditems (yib_mk l (yib_del b)) ++ yib_ditems (yib_mk r (yib_del b)).
Proof.
  intros b k l r Hwf H. unfold yib_ditems. cbn [yib_b yib_del].
  rewrite (blk_split_units _ _ _ _ Hwf H), flat_map_app. reflexivity.
Qed.

Theorem yib_splits_are_invisible : forall s1 b s2 k l r,
  blk_wf (yib_b b) = true -> blk_split (yib_b b) k = Some (l, r) ->
  yib_expand (s1 ++ yib_mk l (yib_del b) :: yib_mk r (yib_del b) :: s2) = yib_expand (s1 ++ b :: s2).
Proof.
  intros s1 b s2 k l r Hwf H. rewrite !yib_expand_app, !yib_expand_cons.
  rewrite (yib_split_ditems b k l r Hwf H), <- app_assoc. reflexivity.
Qed.
Print Assumptions yib_splits_are_invisible.

Lemma yib_split_halves_ok : forall b k l r, yib_blk_ok b = true -> blk_split (yib_b b) k = Some (l, r) ->
  yib_blk_ok (yib_mk l (yib_del b)) = true /\ yib_blk_ok (yib_mk r (yib_del b)) = true /\
  yib_id (yib_mk l (yib_del b)) = yib_id b /\ yib_len (yib_mk l (yib_del b)) = k /\
  yib_id (yib_mk r (yib_del b)) = mkid (cl (yib_id b)) (ck (yib_id b) + k) /\ 0 < k /\ k < yib_len b.
Proof.
  intros b k l r Hok H. destruct (blk_split_guard _ _ _ _ H) as [H0 Hk].
  unfold yib_blk_ok in Hok. apply andb_prop in Hok. destruct Hok as [Hok Hne]. apply andb_prop in Hok.
  destruct Hok as [Hit Hwf].
  destruct (blk_split_wf _ _ _ _ Hwf H) as (Hwl & Hwr & Hll & Hlr & Hil & Hir).
  assert (Hitem : yib_is_item (yib_mk l (yib_del b)) = true /\ yib_is_item (yib_mk r (yib_del b)) = true).
  { unfold yib_is_item in *. cbn [yib_b]. unfold blk_split in H.
    destruct ((0 <? k) && (k <? block_len (yib_b b))); [|discriminate].
    destruct (yib_b b); try discriminate. destruct (blk_content_split c k) as [[c1 c2]|]; [|discriminate].
    injection H as <- <-. split; reflexivity. }
  destruct Hitem as [Hi1 Hi2].
  unfold yib_blk_ok, yib_id, yib_len, blk_nonempty. cbn [yib_b].
  rewrite Hi1, Hi2, Hwl, Hwr, Hll, Hlr. cbn [andb].
  repeat split; try assumption; apply N.ltb_lt; lia.
Qed.

(* what yib_split_at does *)
Lemma yib_split_at_inv : forall p k s s', yib_split_at p k s = yib_ok s' ->
  exists A b C l r, s = A ++ b :: C /\ yib_id b = p /\ blk_split (yib_b b) k = Some (l, r) /\
                    s' = A ++ yib_mk l (yib_del b) :: yib_mk r (yib_del b) :: C.
Proof.
  intros p k s. induction s as [|b0 rr IH]; intros s' H; cbn [yib_split_at] in H; [discriminate|].
  destruct (id_eqb (yib_id b0) p) eqn:E.
  - destruct (blk_split (yib_b b0) k) as [[l r]|] eqn:Es; [|discriminate]. injection H as <-.
    exists [], b0, rr, l, r. apply id_eqb_eq in E. repeat split; assumption.
  - destruct (yib_split_at p k rr) as [r'|] eqn:Er; [|discriminate]. cbn [yib_bind] in H. injection H as <-.
    destruct (IH r' eq_refl) as (A & b & C & l & r & -> & Hid & Hs & ->).
    exists (b0 :: A), b, C, l, r. repeat split; assumption.
Qed.

Lemma yib_split_at_app_r : forall p k pre suf, (forall B, In B pre -> yib_id B <> p) ->
  yib_split_at p k (pre ++ suf) = yib_bind (yib_split_at p k suf) (fun r => yib_ok (pre ++ r)).
Proof.
  intros p k pre suf. induction pre as [|b r IH]; intros Hn; cbn [app yib_split_at].
  - destruct (yib_split_at p k suf); reflexivity.
  - replace (id_eqb (yib_id b) p) with false by (symmetry; apply id_eqb_neq; apply Hn; left; reflexivity).
    rewrite IH by (intros B HB; apply Hn; right; exact HB).
    destruct (yib_split_at p k suf); reflexivity.
Qed.

Lemma yib_get_item_app_r : forall i pre suf, (forall B, In B pre -> yib_contains B i = false) ->
  yib_get_item i (pre ++ suf) = yib_get_item i suf.
Proof.
  intros i pre suf. induction pre as [|b r IH]; intros Hn; cbn [app yib_get_item]; [reflexivity|].
  rewrite (Hn b (or_introl eq_refl)). apply IH. intros B HB. apply Hn. right. exact HB.
Qed.

Lemma yib_get_item_none : forall i s, forallb yib_blk_ok s = true -> yib_get_item i s = None ->
  ~ In i (yib_ids (yib_expand s)).
Proof.
  intros i s Hok H Hin. destruct (yib_expand_contains s i Hok Hin) as (B & HB & Hc).
  induction s as [|b r IH]; [destruct HB|]. cbn [yib_get_item] in H.
  cbn [forallb] in Hok. apply andb_prop in Hok. destruct Hok as [Hb Hr].
  destruct (yib_contains b i) eqn:E; [discriminate|].
  destruct HB as [<-|HB]; [congruence|]. apply IH; try assumption.
  eapply yib_contains_expand; eassumption.
Qed.

(* the sequence-level invariants survive a split *)
Definition yib_seq_inv (s : yib_seq) : Prop :=
  forallb yib_blk_ok s = true /\ yib_nodupb (yib_ids (yib_expand s)) = true /\
  yib_origins_left (yib_expand s) = true.

Lemma yib_seq_ok_inv : forall s, yib_seq_ok s = true <-> yib_seq_inv s.
Proof.
  intros s. unfold yib_seq_ok, yib_seq_inv. rewrite !andb_true_iff. tauto.
Qed.

Lemma yib_split_inv_preserved : forall A b C l r k, yib_seq_inv (A ++ b :: C) ->
  blk_split (yib_b b) k = Some (l, r) ->
  yib_expand (A ++ yib_mk l (yib_del b) :: yib_mk r (yib_del b) :: C) = yib_expand (A ++ b :: C) /\
  yib_seq_inv (A ++ yib_mk l (yib_del b) :: yib_mk r (yib_del b) :: C).
Proof.
  intros A b C l r k (Hok & Hnd & Hol) Hs.
  assert (Hb : yib_blk_ok b = true).
  { eapply yib_forallb_In; [exact Hok|]. apply in_or_app. right. left. reflexivity. }
  assert (Hwf : blk_wf (yib_b b) = true).
  { unfold yib_blk_ok in Hb. apply andb_prop in Hb. destruct Hb as [Hb _]. apply andb_prop in Hb. apply Hb. }
  pose proof (yib_splits_are_invisible A b C k l r Hwf Hs) as Ee.
  split; [exact Ee|]. unfold yib_seq_inv. rewrite Ee. repeat split; try assumption.
  destruct (yib_split_halves_ok b k l r Hb Hs) as (H1 & H2 & _).
  rewrite forallb_app in *. cbn [forallb] in *. apply andb_prop in Hok. destruct Hok as [HA HC].
  apply andb_prop in HC. destruct HC as [_ HC]. rewrite HA, H1, H2, HC. reflexivity.
Qed.

(* ---- get_item_clean_end ---- *)
Lemma yib_upto_app : forall o l1 l2, ~ In o l1 -> yib_upto o (l1 ++ o :: l2) = l1 ++ [o].
Proof.
  intros o l1 l2. induction l1 as [|i r IH]; intros Hn; cbn [app yib_upto].
  - rewrite id_eqb_refl. reflexivity.
  - replace (id_eqb i o) with false by (symmetry; apply id_eqb_neq; intro E; apply Hn; left; exact E).
    rewrite IH by (intro Hi; apply Hn; right; exact Hi).
    destruct (r ++ [o]) eqn:E; [destruct r; discriminate|reflexivity].
Qed.

Lemma yib_upto_pre : forall P L C, yib_seq_inv (P ++ L :: C) ->
  yib_ids (yib_expand (P ++ [L])) = yib_upto (yib_last_id L) (yib_ids (yib_expand (P ++ L :: C))).
Proof.
  intros P L C (Hok & Hnd & _).
  assert (HokL : yib_blk_ok L = true).
  { eapply yib_forallb_In; [exact Hok|]. apply in_or_app. right. left. reflexivity. }
  destruct (yib_ditems_last L HokL) as (init & ul & El & Hul).
  rewrite !yib_expand_app, !yib_expand_cons in *. cbn [yib_expand flat_map]. rewrite app_nil_r.
  rewrite El in *. rewrite !yib_ids_app in *. unfold yib_ids at 3 6. cbn [map]. rewrite Hul.
  rewrite <- !app_assoc in *. cbn [app].
  rewrite (app_assoc (yib_ids (yib_expand P)) (yib_ids init) (yib_last_id L :: yib_ids (yib_expand C))), yib_upto_app.
  - rewrite <- app_assoc. reflexivity.
  - intro Hin. rewrite (app_assoc (yib_ids (yib_expand P)) (yib_ids init)) in Hnd.
    eapply (yib_nodupb_app _ _ (yib_last_id L) Hnd); [exact Hin|].
    unfold yib_ids at 1. cbn [map]. rewrite Hul. left. reflexivity.
Qed.

Lemma yib_contains_last : forall b o, yib_contains b o = true -> ck o - ck (yib_id b) = yib_len b - 1 ->
  yib_last_id b = o.
Proof.
  intros b o Hc E. unfold yib_contains in Hc. rewrite !andb_true_iff, N.eqb_eq, N.leb_le, N.ltb_lt in Hc.
  destruct Hc as [[H1 H2] H3]. unfold yib_last_id, blk_last_id. fold (yib_id b). fold (yib_len b).
  destruct o as [oc ok]. cbn [cl ck] in *. f_equal; [exact H1|lia].
Qed.

Lemma yib_clean_end_spec : forall x o s l s', yib_seq_inv s -> yib_origin x = Some o ->
  yib_clean_end o s = yib_ok (l, s') ->
  yib_expand s' = yib_expand s /\ yib_seq_inv s' /\ exists pre suf, yib_left_ok x l s' pre suf /\
  (l <> None -> yib_ids (yib_expand pre) = yib_upto o (yib_ids (yib_expand s))).
Proof.
  intros x o s l s' Hinv Ho H. pose proof Hinv as (Hok & Hnd & Hol).
  pose proof (yib_canon_of_nodup s Hok Hnd) as Hcan.
  unfold yib_clean_end in H. destruct (yib_get_item o s) as [b|] eqn:G.
  - destruct (yib_get_item_some _ _ _ G) as [Hb Hc].
    pose proof (yib_forallb_In _ _ Hok Hb) as Hokb.
    destruct (ck o - ck (yib_id b) =? yib_len b - 1) eqn:Eoff.
    + injection H as <- <-. apply N.eqb_eq in Eoff. split; [reflexivity|]. split; [exact Hinv|].
      destruct (in_split _ _ Hb) as (A & C & Es). exists (A ++ [b]), C. split.
      * split; [rewrite Es, <- app_assoc; reflexivity|]. right. exists A, b. repeat split.
        rewrite Ho. f_equal. symmetry. apply yib_contains_last; assumption.
      * intros _. rewrite Es in Hinv |- *. rewrite (yib_upto_pre A b C Hinv).
        rewrite (yib_contains_last b o Hc Eoff). reflexivity.
    + destruct (yib_split_at (yib_id b) (ck o - ck (yib_id b) + 1) s) as [s1|] eqn:Esp; [|discriminate].
      cbn [yib_bind] in H. injection H as <- <-.
      destruct (yib_split_at_inv _ _ _ _ Esp) as (A & b' & C & l0 & r0 & Es & Hid & Hs & Es1).
      assert (b' = b).
      { apply (yib_ids_distinct s b' b Hcan (fun B => yib_forallb_In s B Hok)); [|exact Hb|exact Hid].
        rewrite Es. apply in_or_app. right. left. reflexivity. }
      subst b'. rewrite Es in Hinv.
      destruct (yib_split_inv_preserved A b C l0 r0 _ Hinv Hs) as [Ee Hinv1].
      destruct (yib_split_halves_ok b _ l0 r0 Hokb Hs) as (Hl1 & Hr1 & Hidl & Hlenl & Hidr & Hk0 & Hk1).
      assert (Hlast : yib_last_id (yib_mk l0 (yib_del b)) = o).
      { unfold yib_last_id, blk_last_id. fold (yib_id (yib_mk l0 (yib_del b))). fold (yib_len (yib_mk l0 (yib_del b))).
        rewrite Hidl, Hlenl. unfold yib_contains in Hc.
        rewrite !andb_true_iff, N.eqb_eq, N.leb_le, N.ltb_lt in Hc. destruct Hc as [[H1 H2] H3].
        destruct o as [oc ok]. cbn [cl ck] in *. f_equal; [exact H1|lia]. }
      rewrite Es1. rewrite <- Es in Ee. split; [exact Ee|]. split; [exact Hinv1|].
      exists (A ++ [yib_mk l0 (yib_del b)]), (yib_mk r0 (yib_del b) :: C). split.
      * split; [rewrite <- app_assoc; reflexivity|]. right. exists A, (yib_mk l0 (yib_del b)).
        repeat split; [rewrite Hidl; reflexivity|]. rewrite Ho, Hlast. reflexivity.
      * intros _. rewrite (yib_upto_pre A _ _ Hinv1), Hlast, Ee. reflexivity.
  - injection H as <- <-. split; [reflexivity|]. split; [exact Hinv|]. exists [], s. split.
    + split; [reflexivity|]. left. repeat split. intros o' Ho'. rewrite Ho in Ho'. injection Ho' as <-.
      apply yib_get_item_none; assumption.
    + intros Hn. congruence.
Qed.

(* ---- get_item_clean_start, to the right of the resolved left ---- *)
Lemma yib_clean_start_spec : forall x ro pre suf r s', yib_seq_inv (pre ++ suf) -> yib_rorigin x = Some ro ->
  ~ In ro (yib_ids (yib_expand pre)) ->
  yib_clean_start ro (pre ++ suf) = yib_ok (r, s') ->
  exists suf', s' = pre ++ suf' /\ yib_expand s' = yib_expand (pre ++ suf) /\ yib_seq_inv s' /\
               yib_right_ok x r s' suf'.
Proof.
  intros x ro pre suf r s' Hinv Hro Hnpre H. pose proof Hinv as (Hok & Hnd & Hol).
  pose proof (yib_canon_of_nodup _ Hok Hnd) as Hcan.
  assert (Hokpre : forallb yib_blk_ok pre = true) by (rewrite forallb_app in Hok; apply andb_prop in Hok; apply Hok).
  assert (Hoksuf : forallb yib_blk_ok suf = true) by (rewrite forallb_app in Hok; apply andb_prop in Hok; apply Hok).
  unfold yib_clean_start in H.
  rewrite yib_get_item_app_r in H.
  2:{ intros B HB. destruct (yib_contains B ro) eqn:E; [|reflexivity]. exfalso. apply Hnpre.
      eapply yib_contains_expand; eassumption. }
  destruct (yib_get_item ro suf) as [b|] eqn:G.
  - destruct (yib_get_item_some _ _ _ G) as [Hb Hc].
    assert (Hbs : In b (pre ++ suf)) by (apply in_or_app; right; exact Hb).
    pose proof (yib_forallb_In _ _ Hok Hbs) as Hokb.
    pose proof Hc as Hc'. unfold yib_contains in Hc'.
    rewrite !andb_true_iff, N.eqb_eq, N.leb_le, N.ltb_lt in Hc'. destruct Hc' as [[Hc1 Hc2] Hc3].
    destruct (ck ro - ck (yib_id b) =? 0) eqn:Eoff.
    + injection H as <- <-. apply N.eqb_eq in Eoff.
      assert (Eid : yib_id b = ro).
      { destruct (yib_id b) as [bc bk], ro as [rc rk]. cbn [cl ck] in *. f_equal; [exact Hc1|lia]. }
      exists suf. repeat split; try assumption.
      * intros r0 E. injection E as <-. rewrite Eid. exact Hro.
      * intros E. discriminate.
      * intros B i HB HBi Hi. rewrite Hro in Hi. injection Hi as <-.
        assert (HBs : In B (pre ++ suf)) by (apply in_or_app; right; exact HB).
        pose proof (Hcan B ro HBs HBi) as G1. pose proof (Hcan b ro Hbs Hc) as G2.
        rewrite G1 in G2. injection G2 as ->. symmetry. exact Eid.
    + rewrite yib_split_at_app_r in H.
      2:{ intros B HB E. rewrite yib_expand_app, yib_ids_app in Hnd.
          eapply (yib_nodupb_app _ _ (yib_id b) Hnd).
          - rewrite <- E. eapply yib_contains_expand; [exact Hokpre|exact HB|].
            apply yib_contains_own_id. exact (yib_forallb_In pre B Hokpre HB).
          - eapply yib_contains_expand; [exact Hoksuf|exact Hb|]. apply yib_contains_own_id. exact Hokb. }
      destruct (yib_split_at (yib_id b) (ck ro - ck (yib_id b)) suf) as [suf1|] eqn:Esp; [|discriminate].
      cbn [yib_bind] in H. injection H as <- <-.
      destruct (yib_split_at_inv _ _ _ _ Esp) as (A & b' & C & l0 & r0 & Es & Hid & Hs & Es1).
      assert (b' = b).
      { apply (yib_ids_distinct (pre ++ suf) b' b Hcan (fun B => yib_forallb_In _ B Hok)); [|exact Hbs|exact Hid].
        apply in_or_app. right. rewrite Es. apply in_or_app. right. left. reflexivity. }
      subst b'. rewrite Es, app_assoc in Hinv.
      destruct (yib_split_inv_preserved (pre ++ A) b C l0 r0 _ Hinv Hs) as [Ee Hinv1].
      rewrite <- (app_assoc pre A (b :: C)) in Ee. rewrite <- (app_assoc pre A) in Ee, Hinv1. rewrite <- Es in Ee.
      destruct (yib_split_halves_ok b _ l0 r0 Hokb Hs) as (Hl1 & Hr1 & Hidl & Hlenl & Hidr & Hk0 & Hk1).
      assert (Eidr : yib_id (yib_mk r0 (yib_del b)) = ro).
      { rewrite Hidr. destruct ro as [rc rk]. cbn [cl ck] in *. f_equal; [exact Hc1|lia]. }
      exists suf1. rewrite Es1. repeat split; try (exact Ee); try (apply Hinv1).
      * intros r1 E. injection E as <-. exact Hro.
      * intros E. discriminate.
      * intros B i HB HBi Hi. rewrite Hro in Hi. injection Hi as <-.
        destruct Hinv1 as (Hok1 & Hnd1 & _). pose proof (yib_canon_of_nodup _ Hok1 Hnd1) as Hcan1.
        assert (HBs : In B (pre ++ A ++ yib_mk l0 (yib_del b) :: yib_mk r0 (yib_del b) :: C)).
        { apply in_or_app. right. exact HB. }
        assert (Hrs : In (yib_mk r0 (yib_del b)) (pre ++ A ++ yib_mk l0 (yib_del b) :: yib_mk r0 (yib_del b) :: C)).
        { apply in_or_app. right. apply in_or_app. right. right. left. reflexivity. }
        pose proof (Hcan1 B ro HBs HBi) as G1.
        assert (Hcr : yib_contains (yib_mk r0 (yib_del b)) ro = true).
        { pose proof (yib_contains_own_id _ Hr1) as Hown. rewrite Eidr in Hown. exact Hown. }
        pose proof (Hcan1 _ ro Hrs Hcr) as G2. rewrite G1 in G2. injection G2 as ->. symmetry. exact Eidr.
  - injection H as <- <-. exists suf. repeat split; try assumption.
    + intros r0 E. discriminate.
    + intros _ i Hi. rewrite Hro in Hi. injection Hi as <-. rewrite yib_expand_app, yib_ids_app. intro Hin.
      apply in_app_or in Hin. destruct Hin as [Hin|Hin]; [exact (Hnpre Hin)|].
      exact (yib_get_item_none ro suf Hoksuf G Hin).
    + intros B i HB HBi Hi. rewrite Hro in Hi. injection Hi as <-. exfalso.
      apply (yib_get_item_none ro suf Hoksuf G). eapply yib_contains_expand; eassumption.
Qed.

(* ================================================================================================ *)
(* 9. THEOREM 1: block-level integration refines the unit-level integration                          *)
(* ================================================================================================ *)
Lemma yib_fresh_inv : forall s b, yib_fresh s b = true ->
  yib_new_for s b /\
  (forall o ro, yib_origin b = Some o -> yib_rorigin b = Some ro ->
                ~ In ro (yib_upto o (yib_ids (yib_expand s)))).
Proof.
  intros s b H. unfold yib_fresh in H. rewrite !andb_true_iff in H. destruct H as [[[H1 H2] H3] H4].
  split; [split; [exact H1|split]|].
  - intros u Hu. rewrite forallb_forall in H2. specialize (H2 u Hu). apply andb_prop in H2.
    destruct H2 as [Ha Hb]. unfold yib_in_range in *. split; [apply negb_true_iff; exact Ha|].
    intros o Ho. rewrite Ho in Hb. apply negb_true_iff. exact Hb.
  - intros o Ho. rewrite Ho in H3. apply negb_true_iff. exact H3.
  - intros o ro Ho Hro. rewrite Ho, Hro in H4. apply negb_true_iff in H4. apply yib_mem_false. exact H4.
Qed.

Lemma yib_new_for_expand : forall s s' b, yib_expand s' = yib_expand s -> yib_new_for s b -> yib_new_for s' b.
Proof. intros s s' b E (H1 & H2 & H3). repeat split; try assumption; rewrite E in *; apply H2; assumption. Qed.

(* what Update::missing_dependency leaves: the same units, and pointers as yib_integrate_ptrs_refines wants them *)
Lemma yib_resolve_spec : forall s b l r s2, yib_seq_inv s -> yib_fresh s b = true ->
  yib_resolve b s = yib_ok (l, r, s2) ->
  yib_expand s2 = yib_expand s /\ yib_seq_inv s2 /\
  exists pre suf, yib_left_ok b l s2 pre suf /\ yib_right_ok b r s2 suf.
Proof.
  intros s b l r s2 Hinv Hfresh H. destruct (yib_fresh_inv s b Hfresh) as [Hnew Hror].
  unfold yib_resolve in H.
  (* stage 1 *)
  assert (St1 : forall ls, match yib_origin b with Some o => yib_clean_end o s | None => yib_ok (None, s) end = yib_ok ls ->
            yib_expand (snd ls) = yib_expand s /\ yib_seq_inv (snd ls) /\
            exists pre suf, yib_left_ok b (fst ls) (snd ls) pre suf /\
              (forall ro, yib_rorigin b = Some ro -> ~ In ro (yib_ids (yib_expand pre)))).
  { intros [l1 s1] E. cbn [fst snd]. destruct (yib_origin b) as [o|] eqn:Eo.
    - destruct (yib_clean_end_spec b o s l1 s1 Hinv Eo E) as (Ee & Hi & pre & suf & Hl & Hup).
      split; [exact Ee|]. split; [exact Hi|]. exists pre, suf. split; [exact Hl|].
      intros ro Hro. destruct l1 as [lp|].
      + rewrite Hup by discriminate. apply (Hror o ro eq_refl Hro).
      + destruct Hl as [_ [(_ & -> & _)|(P & L & _ & HL & _)]]; [intros []|discriminate HL].
    - injection E as <- <-. split; [reflexivity|]. split; [exact Hinv|]. exists [], s. split.
      + split; [reflexivity|]. left. repeat split. intros o Ho. congruence.
      + intros ro _ []. }
  destruct (match yib_origin b with Some o => yib_clean_end o s | None => yib_ok (None, s) end) as [[l1 s1]|] eqn:E1;
    [|discriminate].
  destruct (St1 _ eq_refl) as (Ee1 & Hinv1 & pre & suf & Hleft & Hnpre). cbn [fst snd] in *.
  cbn [yib_bind fst snd] in H.
  destruct Hleft as [Es1 Hleft].
  destruct (yib_rorigin b) as [ro|] eqn:Ero.
  - destruct (yib_clean_start ro s1) as [[r1 s3]|] eqn:E2; [|discriminate].
    cbn [yib_bind fst snd] in H. injection H as <- <- <-.
    rewrite Es1 in E2, Hinv1.
    destruct (yib_clean_start_spec b ro pre suf r1 s3 Hinv1 Ero (Hnpre ro eq_refl) E2) as (suf' & Es3 & Ee3 & Hinv3 & Hr).
    rewrite <- Es1 in Ee3. split; [congruence|]. split; [exact Hinv3|]. exists pre, suf'. split; [|exact Hr].
    split; [exact Es3|]. destruct Hleft as [(Hl & Hp & Habs)|Hl]; [left|right; exact Hl].
    repeat split; try assumption. intros o Ho. rewrite Ee3. apply Habs. exact Ho.
  - cbn [yib_bind fst snd] in H. injection H as <- <- <-. split; [exact Ee1|]. split; [exact Hinv1|].
    exists pre, suf. split; [split; assumption|]. repeat split.
    + intros r0 E. discriminate E.
    + intros _ i Hi. congruence.
    + intros B i _ _ Hi. congruence.
Qed.

Theorem yib_integrate_refines_units : forall s b pdel s',
  yib_seq_ok s = true -> yib_fresh s b = true -> yib_psub b = None ->
  yib_integrate_off s b 0 pdel = yib_ok s' ->
  yib_expand s' = fold_left yata_insert (yib_ditems (yib_arrival b pdel)) (yib_expand s).
Proof.
  intros s b pdel s' Hok Hfresh Hps H. apply yib_seq_ok_inv in Hok.
  unfold yib_integrate_off in H. destruct (yib_resolve b s) as [[[l r] s2]|] eqn:Er; [|discriminate].
  cbn [yib_bind] in H. change (0 <? 0) with false in H. cbv iota in H.
  destruct (yib_resolve_spec s b l r s2 Hok Hfresh Er) as (Ee & (Hok2 & Hnd2 & Hol2) & pre & suf & Hl & Hr).
  destruct (yib_fresh_inv s b Hfresh) as [Hnew _].
  pose proof (yib_new_for_expand s s2 b Ee Hnew) as Hnew2.
  destruct (yib_integrate_ptrs_refines s2 b l r pdel pre suf Hok2 Hnd2 Hol2 Hnew2 Hps Hl Hr) as (n & E1 & E2).
  rewrite E1 in H. injection H as <-. rewrite E2, Ee. reflexivity.
Qed.
Print Assumptions yib_integrate_refines_units.

(* failure: only a content that refuses to be cut (tag 2) *)
Lemma yib_split_at_no_fail1 : forall b k s, In b s -> yib_split_at (yib_id b) k s <> yib_fail 1.
Proof.
  intros b k s. induction s as [|b0 r IH]; intros Hb; [destruct Hb|]. cbn [yib_split_at].
  destruct (id_eqb (yib_id b0) (yib_id b)) eqn:E.
  - destruct (blk_split (yib_b b0) k) as [[? ?]|]; discriminate.
  - destruct Hb as [->|Hb]; [rewrite id_eqb_refl in E; discriminate|].
    specialize (IH Hb). destruct (yib_split_at (yib_id b) k r); [discriminate|]. cbn [yib_bind]. congruence.
Qed.

(* ================================================================================================ *)
(* 10. THEOREM 3: the position does not depend on the blocking                                        *)
(* ================================================================================================ *)
Theorem yib_position_independent_of_blocking : forall s1 s2 b pdel r1 r2,
  yib_seq_ok s1 = true -> yib_seq_ok s2 = true -> yib_expand s1 = yib_expand s2 ->
  yib_fresh s1 b = true -> yib_fresh s2 b = true -> yib_psub b = None ->
  yib_integrate_off s1 b 0 pdel = yib_ok r1 -> yib_integrate_off s2 b 0 pdel = yib_ok r2 ->
  yib_expand r1 = yib_expand r2.
Proof.
  intros s1 s2 b pdel r1 r2 H1 H2 E F1 F2 Hps I1 I2.
  rewrite (yib_integrate_refines_units s1 b pdel r1 H1 F1 Hps I1).
  rewrite (yib_integrate_refines_units s2 b pdel r2 H2 F2 Hps I2). rewrite E. reflexivity.
Qed.
Print Assumptions yib_position_independent_of_blocking.

(* ================================================================================================ *)
(* 11. THEOREM 6 (partial): the offset prologue builds the second half of the split block             *)
(* ================================================================================================ *)
(* Item::trim(offset = k): when the unit before the cut is an item of the sequence (the block [lb] that
   get_item_clean_end leaves ends there), the trimmed item IS the right half of blk_split at k, and the left
   pointer is that block.  What is missing for the full statement
     yib_expand (yib_integrate_off s b k pdel) = yib_expand (yib_integrate s (second half))
   is the commutation of the three splits (origin of b, right origin, previous unit) with the two splits the
   second half asks for; it is tested (YataBlocksCases.yibc_offset, and a sweep of 26862 cases) but not proved.
   Without the hypothesis the statement is false: YataBlocksCases.yib_offset_prologue_absent_refuted. *)
Theorem yib_offset_prologue_partial : forall b k s b1 b2 p s' lb,
  yib_is_item b = true ->
  blk_split (yib_b b) k = Some (b1, b2) ->
  yib_clean_end (mkid (cl (yib_id b)) (ck (yib_id b) + k - 1)) s = yib_ok (Some p, s') ->
  yib_deref p s' = Some lb -> yib_last_id lb = mkid (cl (yib_id b)) (ck (yib_id b) + k - 1) ->
  yib_trim b k s = yib_ok (yib_mk b2 (yib_del b), Some p, s').
Proof.
  intros b k s b1 b2 p s' lb Hit Hs Hce Hd Hl. unfold yib_trim. cbn [cl ck]. rewrite Hce. cbn [yib_bind fst snd].
  rewrite Hd, Hl, Hs. destruct b as [blk del]. cbn [yib_b yib_del] in *. unfold yib_id in *. cbn [yib_b] in *.
  unfold blk_split in Hs. destruct ((0 <? k) && (k <? block_len blk)); [|discriminate].
  destruct blk as [i o ro pp ps c|i n|i n].
  - destruct (blk_content_split c k) as [[c1 c2]|]; [|discriminate]. injection Hs as <- <-.
    unfold yib_set_head. cbn [yib_b yib_del block_id]. reflexivity.
  - discriminate Hit.
  - discriminate Hit.
Qed.
Print Assumptions yib_offset_prologue_partial.
