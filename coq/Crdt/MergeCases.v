(* Concrete runs of [mrg_merge_updates] against Update::merge_updates / merge_updates_v1 of the Rust library
   (commit fd4802e, scratch test yrs/tests/mrg_cases.rs).  For every case:
     mrg_case_N_in_J   the J-th argument, as the block list the v1 decoder of the model produces from the
                       bytes handed to the Rust function (mrg_case_N_in_J_bytes: that decoding);
     mrg_case_N        the result of the model, in memory;
     mrg_case_N_bytes  its v1 encoding is byte for byte what merge_updates_v1 returned (and what
                       Update::merge_updates(..).encode_v1() returned: the test asserts both are equal).
   The right half of a cut item keeps its parent in memory but is written without it (it has an origin), so the
   comparison with the Rust result is made on the bytes.
   Cases named file_w* / file_j* come from a random generator (w: views of one history, j: arbitrary blocks,
   including Item / GC blocks that disagree); 300 of them were compared the same way outside this file. *)
From Coq Require Import List NArith ZArith Bool.
From YV Require Import Gen.Consts Lib.Bytes Codec.Varint Codec.AnyCodec Codec.IdSetCodec Codec.UpdateV1 Ids.Ranges Crdt.Doc Crdt.Blocks.
From YV Require Import Crdt.Merge.
Import ListNotations. Open Scope N_scope.

Definition mrg_dec (bs : list N) : option update :=
  match decode_update_v1 (S (length bs)) bs with Ok u [] => Some u | _ => None end.

(* ---- case 0: gap_build ---- *)
Definition mrg_case_0_in_0 : update := {| u_blocks := [(1, [BItem {| cl := 1; ck := 0 |} None None (PNamed [116]) None (BString [97; 98])])]; u_ds := [] |}.
Example mrg_case_0_in_0_bytes : mrg_dec [1; 1; 1; 0; 4; 1; 1; 116; 2; 97; 98; 0] = Some mrg_case_0_in_0.
Proof. vm_compute; reflexivity. Qed.
Definition mrg_case_0_in_1 : update := {| u_blocks := [(1, [BItem {| cl := 1; ck := 7 |} (Some {| cl := 1; ck := 6 |}) None PUnknown None (BString [104; 105])])]; u_ds := [] |}.
Example mrg_case_0_in_1_bytes : mrg_dec [1; 1; 1; 7; 132; 1; 6; 2; 104; 105; 0] = Some mrg_case_0_in_1.
Proof. vm_compute; reflexivity. Qed.
Example mrg_case_0 : mrg_merge_updates [mrg_case_0_in_0; mrg_case_0_in_1] = {| u_blocks := [(1, [BItem {| cl := 1; ck := 0 |} None None (PNamed [116]) None (BString [97; 98]); BSkip {| cl := 1; ck := 2 |} 5; BItem {| cl := 1; ck := 7 |} (Some {| cl := 1; ck := 6 |}) None PUnknown None (BString [104; 105])])]; u_ds := [] |}.
Proof. vm_compute; reflexivity. Qed.
(* Rust: 01030100040101740261620a0584010602686900 *)
Example mrg_case_0_bytes : encode_update_v1 (mrg_merge_updates [mrg_case_0_in_0; mrg_case_0_in_1]) = Some [1; 3; 1; 0; 4; 1; 1; 116; 2; 97; 98; 10; 5; 132; 1; 6; 2; 104; 105; 0].
Proof. vm_compute; reflexivity. Qed.

(* ---- case 1: gap_prefix_filler_abc ---- *)
Definition mrg_case_1_in_0 : update := {| u_blocks := [(1, [BItem {| cl := 1; ck := 0 |} None None (PNamed [116]) None (BString [97; 98]); BSkip {| cl := 1; ck := 2 |} 5; BItem {| cl := 1; ck := 7 |} (Some {| cl := 1; ck := 6 |}) None PUnknown None (BString [104; 105])])]; u_ds := [] |}.
Example mrg_case_1_in_0_bytes : mrg_dec [1; 3; 1; 0; 4; 1; 1; 116; 2; 97; 98; 10; 5; 132; 1; 6; 2; 104; 105; 0] = Some mrg_case_1_in_0.
Proof. vm_compute; reflexivity. Qed.
Definition mrg_case_1_in_1 : update := {| u_blocks := [(1, [BItem {| cl := 1; ck := 0 |} None None (PNamed [116]) None (BString [97; 98; 99; 100; 101])])]; u_ds := [] |}.
Example mrg_case_1_in_1_bytes : mrg_dec [1; 1; 1; 0; 4; 1; 1; 116; 5; 97; 98; 99; 100; 101; 0] = Some mrg_case_1_in_1.
Proof. vm_compute; reflexivity. Qed.
Definition mrg_case_1_in_2 : update := {| u_blocks := [(1, [BItem {| cl := 1; ck := 5 |} (Some {| cl := 1; ck := 4 |}) None PUnknown None (BString [102; 103])])]; u_ds := [] |}.
Example mrg_case_1_in_2_bytes : mrg_dec [1; 1; 1; 5; 132; 1; 4; 2; 102; 103; 0] = Some mrg_case_1_in_2.
Proof. vm_compute; reflexivity. Qed.
Example mrg_case_1 : mrg_merge_updates [mrg_case_1_in_0; mrg_case_1_in_1; mrg_case_1_in_2] = {| u_blocks := [(1, [BItem {| cl := 1; ck := 0 |} None None (PNamed [116]) None (BString [97; 98]); BItem {| cl := 1; ck := 2 |} (Some {| cl := 1; ck := 1 |}) None (PNamed [116]) None (BString [99; 100; 101]); BItem {| cl := 1; ck := 5 |} (Some {| cl := 1; ck := 4 |}) None PUnknown None (BString [102; 103]); BItem {| cl := 1; ck := 7 |} (Some {| cl := 1; ck := 6 |}) None PUnknown None (BString [104; 105])])]; u_ds := [] |}.
Proof. vm_compute; reflexivity. Qed.
(* Rust: 01040100040101740261628401010363646584010402666784010602686900 *)
Example mrg_case_1_bytes : encode_update_v1 (mrg_merge_updates [mrg_case_1_in_0; mrg_case_1_in_1; mrg_case_1_in_2]) = Some [1; 4; 1; 0; 4; 1; 1; 116; 2; 97; 98; 132; 1; 1; 3; 99; 100; 101; 132; 1; 4; 2; 102; 103; 132; 1; 6; 2; 104; 105; 0].
Proof. vm_compute; reflexivity. Qed.

(* ---- case 2: gap_prefix_filler_acb ---- *)
Definition mrg_case_2_in_0 : update := {| u_blocks := [(1, [BItem {| cl := 1; ck := 0 |} None None (PNamed [116]) None (BString [97; 98]); BSkip {| cl := 1; ck := 2 |} 5; BItem {| cl := 1; ck := 7 |} (Some {| cl := 1; ck := 6 |}) None PUnknown None (BString [104; 105])])]; u_ds := [] |}.
Example mrg_case_2_in_0_bytes : mrg_dec [1; 3; 1; 0; 4; 1; 1; 116; 2; 97; 98; 10; 5; 132; 1; 6; 2; 104; 105; 0] = Some mrg_case_2_in_0.
Proof. vm_compute; reflexivity. Qed.
Definition mrg_case_2_in_1 : update := {| u_blocks := [(1, [BItem {| cl := 1; ck := 5 |} (Some {| cl := 1; ck := 4 |}) None PUnknown None (BString [102; 103])])]; u_ds := [] |}.
Example mrg_case_2_in_1_bytes : mrg_dec [1; 1; 1; 5; 132; 1; 4; 2; 102; 103; 0] = Some mrg_case_2_in_1.
Proof. vm_compute; reflexivity. Qed.
Definition mrg_case_2_in_2 : update := {| u_blocks := [(1, [BItem {| cl := 1; ck := 0 |} None None (PNamed [116]) None (BString [97; 98; 99; 100; 101])])]; u_ds := [] |}.
Example mrg_case_2_in_2_bytes : mrg_dec [1; 1; 1; 0; 4; 1; 1; 116; 5; 97; 98; 99; 100; 101; 0] = Some mrg_case_2_in_2.
Proof. vm_compute; reflexivity. Qed.
Example mrg_case_2 : mrg_merge_updates [mrg_case_2_in_0; mrg_case_2_in_1; mrg_case_2_in_2] = {| u_blocks := [(1, [BItem {| cl := 1; ck := 0 |} None None (PNamed [116]) None (BString [97; 98]); BItem {| cl := 1; ck := 2 |} (Some {| cl := 1; ck := 1 |}) None (PNamed [116]) None (BString [99; 100; 101]); BItem {| cl := 1; ck := 5 |} (Some {| cl := 1; ck := 4 |}) None PUnknown None (BString [102; 103]); BItem {| cl := 1; ck := 7 |} (Some {| cl := 1; ck := 6 |}) None PUnknown None (BString [104; 105])])]; u_ds := [] |}.
Proof. vm_compute; reflexivity. Qed.
(* Rust: 01040100040101740261628401010363646584010402666784010602686900 *)
Example mrg_case_2_bytes : encode_update_v1 (mrg_merge_updates [mrg_case_2_in_0; mrg_case_2_in_1; mrg_case_2_in_2]) = Some [1; 4; 1; 0; 4; 1; 1; 116; 2; 97; 98; 132; 1; 1; 3; 99; 100; 101; 132; 1; 4; 2; 102; 103; 132; 1; 6; 2; 104; 105; 0].
Proof. vm_compute; reflexivity. Qed.

(* ---- case 3: gap_prefix_filler_bac ---- *)
Definition mrg_case_3_in_0 : update := {| u_blocks := [(1, [BItem {| cl := 1; ck := 0 |} None None (PNamed [116]) None (BString [97; 98; 99; 100; 101])])]; u_ds := [] |}.
Example mrg_case_3_in_0_bytes : mrg_dec [1; 1; 1; 0; 4; 1; 1; 116; 5; 97; 98; 99; 100; 101; 0] = Some mrg_case_3_in_0.
Proof. vm_compute; reflexivity. Qed.
Definition mrg_case_3_in_1 : update := {| u_blocks := [(1, [BItem {| cl := 1; ck := 0 |} None None (PNamed [116]) None (BString [97; 98]); BSkip {| cl := 1; ck := 2 |} 5; BItem {| cl := 1; ck := 7 |} (Some {| cl := 1; ck := 6 |}) None PUnknown None (BString [104; 105])])]; u_ds := [] |}.
Example mrg_case_3_in_1_bytes : mrg_dec [1; 3; 1; 0; 4; 1; 1; 116; 2; 97; 98; 10; 5; 132; 1; 6; 2; 104; 105; 0] = Some mrg_case_3_in_1.
Proof. vm_compute; reflexivity. Qed.
Definition mrg_case_3_in_2 : update := {| u_blocks := [(1, [BItem {| cl := 1; ck := 5 |} (Some {| cl := 1; ck := 4 |}) None PUnknown None (BString [102; 103])])]; u_ds := [] |}.
Example mrg_case_3_in_2_bytes : mrg_dec [1; 1; 1; 5; 132; 1; 4; 2; 102; 103; 0] = Some mrg_case_3_in_2.
Proof. vm_compute; reflexivity. Qed.
Example mrg_case_3 : mrg_merge_updates [mrg_case_3_in_0; mrg_case_3_in_1; mrg_case_3_in_2] = {| u_blocks := [(1, [BItem {| cl := 1; ck := 0 |} None None (PNamed [116]) None (BString [97; 98; 99; 100; 101]); BItem {| cl := 1; ck := 5 |} (Some {| cl := 1; ck := 4 |}) None PUnknown None (BString [102; 103]); BItem {| cl := 1; ck := 7 |} (Some {| cl := 1; ck := 6 |}) None PUnknown None (BString [104; 105])])]; u_ds := [] |}.
Proof. vm_compute; reflexivity. Qed.
(* Rust: 010301000401017405616263646584010402666784010602686900 *)
Example mrg_case_3_bytes : encode_update_v1 (mrg_merge_updates [mrg_case_3_in_0; mrg_case_3_in_1; mrg_case_3_in_2]) = Some [1; 3; 1; 0; 4; 1; 1; 116; 5; 97; 98; 99; 100; 101; 132; 1; 4; 2; 102; 103; 132; 1; 6; 2; 104; 105; 0].
Proof. vm_compute; reflexivity. Qed.

(* ---- case 4: gap_prefix_filler_bca ---- *)
Definition mrg_case_4_in_0 : update := {| u_blocks := [(1, [BItem {| cl := 1; ck := 0 |} None None (PNamed [116]) None (BString [97; 98; 99; 100; 101])])]; u_ds := [] |}.
Example mrg_case_4_in_0_bytes : mrg_dec [1; 1; 1; 0; 4; 1; 1; 116; 5; 97; 98; 99; 100; 101; 0] = Some mrg_case_4_in_0.
Proof. vm_compute; reflexivity. Qed.
Definition mrg_case_4_in_1 : update := {| u_blocks := [(1, [BItem {| cl := 1; ck := 5 |} (Some {| cl := 1; ck := 4 |}) None PUnknown None (BString [102; 103])])]; u_ds := [] |}.
Example mrg_case_4_in_1_bytes : mrg_dec [1; 1; 1; 5; 132; 1; 4; 2; 102; 103; 0] = Some mrg_case_4_in_1.
Proof. vm_compute; reflexivity. Qed.
Definition mrg_case_4_in_2 : update := {| u_blocks := [(1, [BItem {| cl := 1; ck := 0 |} None None (PNamed [116]) None (BString [97; 98]); BSkip {| cl := 1; ck := 2 |} 5; BItem {| cl := 1; ck := 7 |} (Some {| cl := 1; ck := 6 |}) None PUnknown None (BString [104; 105])])]; u_ds := [] |}.
Example mrg_case_4_in_2_bytes : mrg_dec [1; 3; 1; 0; 4; 1; 1; 116; 2; 97; 98; 10; 5; 132; 1; 6; 2; 104; 105; 0] = Some mrg_case_4_in_2.
Proof. vm_compute; reflexivity. Qed.
Example mrg_case_4 : mrg_merge_updates [mrg_case_4_in_0; mrg_case_4_in_1; mrg_case_4_in_2] = {| u_blocks := [(1, [BItem {| cl := 1; ck := 0 |} None None (PNamed [116]) None (BString [97; 98; 99; 100; 101]); BItem {| cl := 1; ck := 5 |} (Some {| cl := 1; ck := 4 |}) None PUnknown None (BString [102; 103]); BItem {| cl := 1; ck := 7 |} (Some {| cl := 1; ck := 6 |}) None PUnknown None (BString [104; 105])])]; u_ds := [] |}.
Proof. vm_compute; reflexivity. Qed.
(* Rust: 010301000401017405616263646584010402666784010602686900 *)
Example mrg_case_4_bytes : encode_update_v1 (mrg_merge_updates [mrg_case_4_in_0; mrg_case_4_in_1; mrg_case_4_in_2]) = Some [1; 3; 1; 0; 4; 1; 1; 116; 5; 97; 98; 99; 100; 101; 132; 1; 4; 2; 102; 103; 132; 1; 6; 2; 104; 105; 0].
Proof. vm_compute; reflexivity. Qed.

(* ---- case 5: gap_prefix_filler_cab ---- *)
Definition mrg_case_5_in_0 : update := {| u_blocks := [(1, [BItem {| cl := 1; ck := 5 |} (Some {| cl := 1; ck := 4 |}) None PUnknown None (BString [102; 103])])]; u_ds := [] |}.
Example mrg_case_5_in_0_bytes : mrg_dec [1; 1; 1; 5; 132; 1; 4; 2; 102; 103; 0] = Some mrg_case_5_in_0.
Proof. vm_compute; reflexivity. Qed.
Definition mrg_case_5_in_1 : update := {| u_blocks := [(1, [BItem {| cl := 1; ck := 0 |} None None (PNamed [116]) None (BString [97; 98]); BSkip {| cl := 1; ck := 2 |} 5; BItem {| cl := 1; ck := 7 |} (Some {| cl := 1; ck := 6 |}) None PUnknown None (BString [104; 105])])]; u_ds := [] |}.
Example mrg_case_5_in_1_bytes : mrg_dec [1; 3; 1; 0; 4; 1; 1; 116; 2; 97; 98; 10; 5; 132; 1; 6; 2; 104; 105; 0] = Some mrg_case_5_in_1.
Proof. vm_compute; reflexivity. Qed.
Definition mrg_case_5_in_2 : update := {| u_blocks := [(1, [BItem {| cl := 1; ck := 0 |} None None (PNamed [116]) None (BString [97; 98; 99; 100; 101])])]; u_ds := [] |}.
Example mrg_case_5_in_2_bytes : mrg_dec [1; 1; 1; 0; 4; 1; 1; 116; 5; 97; 98; 99; 100; 101; 0] = Some mrg_case_5_in_2.
Proof. vm_compute; reflexivity. Qed.
Example mrg_case_5 : mrg_merge_updates [mrg_case_5_in_0; mrg_case_5_in_1; mrg_case_5_in_2] = {| u_blocks := [(1, [BItem {| cl := 1; ck := 0 |} None None (PNamed [116]) None (BString [97; 98]); BItem {| cl := 1; ck := 2 |} (Some {| cl := 1; ck := 1 |}) None (PNamed [116]) None (BString [99; 100; 101]); BItem {| cl := 1; ck := 5 |} (Some {| cl := 1; ck := 4 |}) None PUnknown None (BString [102; 103]); BItem {| cl := 1; ck := 7 |} (Some {| cl := 1; ck := 6 |}) None PUnknown None (BString [104; 105])])]; u_ds := [] |}.
Proof. vm_compute; reflexivity. Qed.
(* Rust: 01040100040101740261628401010363646584010402666784010602686900 *)
Example mrg_case_5_bytes : encode_update_v1 (mrg_merge_updates [mrg_case_5_in_0; mrg_case_5_in_1; mrg_case_5_in_2]) = Some [1; 4; 1; 0; 4; 1; 1; 116; 2; 97; 98; 132; 1; 1; 3; 99; 100; 101; 132; 1; 4; 2; 102; 103; 132; 1; 6; 2; 104; 105; 0].
Proof. vm_compute; reflexivity. Qed.

(* ---- case 6: gap_prefix_filler_cba ---- *)
Definition mrg_case_6_in_0 : update := {| u_blocks := [(1, [BItem {| cl := 1; ck := 5 |} (Some {| cl := 1; ck := 4 |}) None PUnknown None (BString [102; 103])])]; u_ds := [] |}.
Example mrg_case_6_in_0_bytes : mrg_dec [1; 1; 1; 5; 132; 1; 4; 2; 102; 103; 0] = Some mrg_case_6_in_0.
Proof. vm_compute; reflexivity. Qed.
Definition mrg_case_6_in_1 : update := {| u_blocks := [(1, [BItem {| cl := 1; ck := 0 |} None None (PNamed [116]) None (BString [97; 98; 99; 100; 101])])]; u_ds := [] |}.
Example mrg_case_6_in_1_bytes : mrg_dec [1; 1; 1; 0; 4; 1; 1; 116; 5; 97; 98; 99; 100; 101; 0] = Some mrg_case_6_in_1.
Proof. vm_compute; reflexivity. Qed.
Definition mrg_case_6_in_2 : update := {| u_blocks := [(1, [BItem {| cl := 1; ck := 0 |} None None (PNamed [116]) None (BString [97; 98]); BSkip {| cl := 1; ck := 2 |} 5; BItem {| cl := 1; ck := 7 |} (Some {| cl := 1; ck := 6 |}) None PUnknown None (BString [104; 105])])]; u_ds := [] |}.
Example mrg_case_6_in_2_bytes : mrg_dec [1; 3; 1; 0; 4; 1; 1; 116; 2; 97; 98; 10; 5; 132; 1; 6; 2; 104; 105; 0] = Some mrg_case_6_in_2.
Proof. vm_compute; reflexivity. Qed.
Example mrg_case_6 : mrg_merge_updates [mrg_case_6_in_0; mrg_case_6_in_1; mrg_case_6_in_2] = {| u_blocks := [(1, [BItem {| cl := 1; ck := 0 |} None None (PNamed [116]) None (BString [97; 98; 99; 100; 101]); BItem {| cl := 1; ck := 5 |} (Some {| cl := 1; ck := 4 |}) None PUnknown None (BString [102; 103]); BItem {| cl := 1; ck := 7 |} (Some {| cl := 1; ck := 6 |}) None PUnknown None (BString [104; 105])])]; u_ds := [] |}.
Proof. vm_compute; reflexivity. Qed.
(* Rust: 010301000401017405616263646584010402666784010602686900 *)
Example mrg_case_6_bytes : encode_update_v1 (mrg_merge_updates [mrg_case_6_in_0; mrg_case_6_in_1; mrg_case_6_in_2]) = Some [1; 3; 1; 0; 4; 1; 1; 116; 5; 97; 98; 99; 100; 101; 132; 1; 4; 2; 102; 103; 132; 1; 6; 2; 104; 105; 0].
Proof. vm_compute; reflexivity. Qed.

(* ---- case 7: dup_inc ---- *)
Definition mrg_case_7_in_0 : update := {| u_blocks := [(1, [BItem {| cl := 1; ck := 0 |} None None (PNamed [116]) None (BString [97; 98])])]; u_ds := [] |}.
Example mrg_case_7_in_0_bytes : mrg_dec [1; 1; 1; 0; 4; 1; 1; 116; 2; 97; 98; 0] = Some mrg_case_7_in_0.
Proof. vm_compute; reflexivity. Qed.
Definition mrg_case_7_in_1 : update := {| u_blocks := [(1, [BItem {| cl := 1; ck := 0 |} None None (PNamed [116]) None (BString [97; 98])])]; u_ds := [] |}.
Example mrg_case_7_in_1_bytes : mrg_dec [1; 1; 1; 0; 4; 1; 1; 116; 2; 97; 98; 0] = Some mrg_case_7_in_1.
Proof. vm_compute; reflexivity. Qed.
Example mrg_case_7 : mrg_merge_updates [mrg_case_7_in_0; mrg_case_7_in_1] = {| u_blocks := [(1, [BItem {| cl := 1; ck := 0 |} None None (PNamed [116]) None (BString [97; 98])])]; u_ds := [] |}.
Proof. vm_compute; reflexivity. Qed.
(* Rust: 010101000401017402616200 *)
Example mrg_case_7_bytes : encode_update_v1 (mrg_merge_updates [mrg_case_7_in_0; mrg_case_7_in_1]) = Some [1; 1; 1; 0; 4; 1; 1; 116; 2; 97; 98; 0].
Proof. vm_compute; reflexivity. Qed.

(* ---- case 8: prefixes_up ---- *)
Definition mrg_case_8_in_0 : update := {| u_blocks := [(1, [BItem {| cl := 1; ck := 0 |} None None (PNamed [116]) None (BString [97; 98])])]; u_ds := [] |}.
Example mrg_case_8_in_0_bytes : mrg_dec [1; 1; 1; 0; 4; 1; 1; 116; 2; 97; 98; 0] = Some mrg_case_8_in_0.
Proof. vm_compute; reflexivity. Qed.
Definition mrg_case_8_in_1 : update := {| u_blocks := [(1, [BItem {| cl := 1; ck := 0 |} None None (PNamed [116]) None (BString [97; 98; 99; 100; 101])])]; u_ds := [] |}.
Example mrg_case_8_in_1_bytes : mrg_dec [1; 1; 1; 0; 4; 1; 1; 116; 5; 97; 98; 99; 100; 101; 0] = Some mrg_case_8_in_1.
Proof. vm_compute; reflexivity. Qed.
Definition mrg_case_8_in_2 : update := {| u_blocks := [(1, [BItem {| cl := 1; ck := 0 |} None None (PNamed [116]) None (BString [97; 98; 99; 100; 101; 102; 103])])]; u_ds := [] |}.
Example mrg_case_8_in_2_bytes : mrg_dec [1; 1; 1; 0; 4; 1; 1; 116; 7; 97; 98; 99; 100; 101; 102; 103; 0] = Some mrg_case_8_in_2.
Proof. vm_compute; reflexivity. Qed.
Definition mrg_case_8_in_3 : update := {| u_blocks := [(1, [BItem {| cl := 1; ck := 0 |} None None (PNamed [116]) None (BString [97; 98; 99; 100; 101; 102; 103; 104; 105])])]; u_ds := [] |}.
Example mrg_case_8_in_3_bytes : mrg_dec [1; 1; 1; 0; 4; 1; 1; 116; 9; 97; 98; 99; 100; 101; 102; 103; 104; 105; 0] = Some mrg_case_8_in_3.
Proof. vm_compute; reflexivity. Qed.
Example mrg_case_8 : mrg_merge_updates [mrg_case_8_in_0; mrg_case_8_in_1; mrg_case_8_in_2; mrg_case_8_in_3] = {| u_blocks := [(1, [BItem {| cl := 1; ck := 0 |} None None (PNamed [116]) None (BString [97; 98]); BItem {| cl := 1; ck := 2 |} (Some {| cl := 1; ck := 1 |}) None (PNamed [116]) None (BString [99; 100; 101]); BItem {| cl := 1; ck := 5 |} (Some {| cl := 1; ck := 4 |}) None (PNamed [116]) None (BString [102; 103]); BItem {| cl := 1; ck := 7 |} (Some {| cl := 1; ck := 6 |}) None (PNamed [116]) None (BString [104; 105])])]; u_ds := [] |}.
Proof. vm_compute; reflexivity. Qed.
(* Rust: 01040100040101740261628401010363646584010402666784010602686900 *)
Example mrg_case_8_bytes : encode_update_v1 (mrg_merge_updates [mrg_case_8_in_0; mrg_case_8_in_1; mrg_case_8_in_2; mrg_case_8_in_3]) = Some [1; 4; 1; 0; 4; 1; 1; 116; 2; 97; 98; 132; 1; 1; 3; 99; 100; 101; 132; 1; 4; 2; 102; 103; 132; 1; 6; 2; 104; 105; 0].
Proof. vm_compute; reflexivity. Qed.

(* ---- case 9: prefixes_down ---- *)
Definition mrg_case_9_in_0 : update := {| u_blocks := [(1, [BItem {| cl := 1; ck := 0 |} None None (PNamed [116]) None (BString [97; 98; 99; 100; 101; 102; 103; 104; 105])])]; u_ds := [] |}.
Example mrg_case_9_in_0_bytes : mrg_dec [1; 1; 1; 0; 4; 1; 1; 116; 9; 97; 98; 99; 100; 101; 102; 103; 104; 105; 0] = Some mrg_case_9_in_0.
Proof. vm_compute; reflexivity. Qed.
Definition mrg_case_9_in_1 : update := {| u_blocks := [(1, [BItem {| cl := 1; ck := 0 |} None None (PNamed [116]) None (BString [97; 98; 99; 100; 101; 102; 103])])]; u_ds := [] |}.
Example mrg_case_9_in_1_bytes : mrg_dec [1; 1; 1; 0; 4; 1; 1; 116; 7; 97; 98; 99; 100; 101; 102; 103; 0] = Some mrg_case_9_in_1.
Proof. vm_compute; reflexivity. Qed.
Definition mrg_case_9_in_2 : update := {| u_blocks := [(1, [BItem {| cl := 1; ck := 0 |} None None (PNamed [116]) None (BString [97; 98; 99; 100; 101])])]; u_ds := [] |}.
Example mrg_case_9_in_2_bytes : mrg_dec [1; 1; 1; 0; 4; 1; 1; 116; 5; 97; 98; 99; 100; 101; 0] = Some mrg_case_9_in_2.
Proof. vm_compute; reflexivity. Qed.
Definition mrg_case_9_in_3 : update := {| u_blocks := [(1, [BItem {| cl := 1; ck := 0 |} None None (PNamed [116]) None (BString [97; 98])])]; u_ds := [] |}.
Example mrg_case_9_in_3_bytes : mrg_dec [1; 1; 1; 0; 4; 1; 1; 116; 2; 97; 98; 0] = Some mrg_case_9_in_3.
Proof. vm_compute; reflexivity. Qed.
Example mrg_case_9 : mrg_merge_updates [mrg_case_9_in_0; mrg_case_9_in_1; mrg_case_9_in_2; mrg_case_9_in_3] = {| u_blocks := [(1, [BItem {| cl := 1; ck := 0 |} None None (PNamed [116]) None (BString [97; 98; 99; 100; 101; 102; 103; 104; 105])])]; u_ds := [] |}.
Proof. vm_compute; reflexivity. Qed.
(* Rust: 01010100040101740961626364656667686900 *)
Example mrg_case_9_bytes : encode_update_v1 (mrg_merge_updates [mrg_case_9_in_0; mrg_case_9_in_1; mrg_case_9_in_2; mrg_case_9_in_3]) = Some [1; 1; 1; 0; 4; 1; 1; 116; 9; 97; 98; 99; 100; 101; 102; 103; 104; 105; 0].
Proof. vm_compute; reflexivity. Qed.

(* ---- case 10: incs_shuffled ---- *)
Definition mrg_case_10_in_0 : update := {| u_blocks := [(1, [BItem {| cl := 1; ck := 5 |} (Some {| cl := 1; ck := 4 |}) None PUnknown None (BString [102; 103])])]; u_ds := [] |}.
Example mrg_case_10_in_0_bytes : mrg_dec [1; 1; 1; 5; 132; 1; 4; 2; 102; 103; 0] = Some mrg_case_10_in_0.
Proof. vm_compute; reflexivity. Qed.
Definition mrg_case_10_in_1 : update := {| u_blocks := [(1, [BItem {| cl := 1; ck := 0 |} None None (PNamed [116]) None (BString [97; 98])])]; u_ds := [] |}.
Example mrg_case_10_in_1_bytes : mrg_dec [1; 1; 1; 0; 4; 1; 1; 116; 2; 97; 98; 0] = Some mrg_case_10_in_1.
Proof. vm_compute; reflexivity. Qed.
Definition mrg_case_10_in_2 : update := {| u_blocks := [(1, [BItem {| cl := 1; ck := 7 |} (Some {| cl := 1; ck := 6 |}) None PUnknown None (BString [104; 105])])]; u_ds := [] |}.
Example mrg_case_10_in_2_bytes : mrg_dec [1; 1; 1; 7; 132; 1; 6; 2; 104; 105; 0] = Some mrg_case_10_in_2.
Proof. vm_compute; reflexivity. Qed.
Definition mrg_case_10_in_3 : update := {| u_blocks := [(1, [BItem {| cl := 1; ck := 2 |} (Some {| cl := 1; ck := 1 |}) None PUnknown None (BString [99; 100; 101])])]; u_ds := [] |}.
Example mrg_case_10_in_3_bytes : mrg_dec [1; 1; 1; 2; 132; 1; 1; 3; 99; 100; 101; 0] = Some mrg_case_10_in_3.
Proof. vm_compute; reflexivity. Qed.
Example mrg_case_10 : mrg_merge_updates [mrg_case_10_in_0; mrg_case_10_in_1; mrg_case_10_in_2; mrg_case_10_in_3] = {| u_blocks := [(1, [BItem {| cl := 1; ck := 0 |} None None (PNamed [116]) None (BString [97; 98]); BItem {| cl := 1; ck := 2 |} (Some {| cl := 1; ck := 1 |}) None PUnknown None (BString [99; 100; 101]); BItem {| cl := 1; ck := 5 |} (Some {| cl := 1; ck := 4 |}) None PUnknown None (BString [102; 103]); BItem {| cl := 1; ck := 7 |} (Some {| cl := 1; ck := 6 |}) None PUnknown None (BString [104; 105])])]; u_ds := [] |}.
Proof. vm_compute; reflexivity. Qed.
(* Rust: 01040100040101740261628401010363646584010402666784010602686900 *)
Example mrg_case_10_bytes : encode_update_v1 (mrg_merge_updates [mrg_case_10_in_0; mrg_case_10_in_1; mrg_case_10_in_2; mrg_case_10_in_3]) = Some [1; 4; 1; 0; 4; 1; 1; 116; 2; 97; 98; 132; 1; 1; 3; 99; 100; 101; 132; 1; 4; 2; 102; 103; 132; 1; 6; 2; 104; 105; 0].
Proof. vm_compute; reflexivity. Qed.

(* ---- case 11: prefix5_suffix3 ---- *)
Definition mrg_case_11_in_0 : update := {| u_blocks := [(1, [BItem {| cl := 1; ck := 0 |} None None (PNamed [116]) None (BString [97; 98; 99; 100; 101])])]; u_ds := [] |}.
Example mrg_case_11_in_0_bytes : mrg_dec [1; 1; 1; 0; 4; 1; 1; 116; 5; 97; 98; 99; 100; 101; 0] = Some mrg_case_11_in_0.
Proof. vm_compute; reflexivity. Qed.
Definition mrg_case_11_in_1 : update := {| u_blocks := [(1, [BItem {| cl := 1; ck := 3 |} (Some {| cl := 1; ck := 2 |}) None PUnknown None (BString [100; 101; 102; 103; 104; 105])])]; u_ds := [] |}.
Example mrg_case_11_in_1_bytes : mrg_dec [1; 1; 1; 3; 132; 1; 2; 6; 100; 101; 102; 103; 104; 105; 0] = Some mrg_case_11_in_1.
Proof. vm_compute; reflexivity. Qed.
Example mrg_case_11 : mrg_merge_updates [mrg_case_11_in_0; mrg_case_11_in_1] = {| u_blocks := [(1, [BItem {| cl := 1; ck := 0 |} None None (PNamed [116]) None (BString [97; 98; 99; 100; 101]); BItem {| cl := 1; ck := 5 |} (Some {| cl := 1; ck := 4 |}) None PUnknown None (BString [102; 103; 104; 105])])]; u_ds := [] |}.
Proof. vm_compute; reflexivity. Qed.
(* Rust: 0102010004010174056162636465840104046667686900 *)
Example mrg_case_11_bytes : encode_update_v1 (mrg_merge_updates [mrg_case_11_in_0; mrg_case_11_in_1]) = Some [1; 2; 1; 0; 4; 1; 1; 116; 5; 97; 98; 99; 100; 101; 132; 1; 4; 4; 102; 103; 104; 105; 0].
Proof. vm_compute; reflexivity. Qed.

(* ---- case 12: suffix3_prefix5 ---- *)
Definition mrg_case_12_in_0 : update := {| u_blocks := [(1, [BItem {| cl := 1; ck := 3 |} (Some {| cl := 1; ck := 2 |}) None PUnknown None (BString [100; 101; 102; 103; 104; 105])])]; u_ds := [] |}.
Example mrg_case_12_in_0_bytes : mrg_dec [1; 1; 1; 3; 132; 1; 2; 6; 100; 101; 102; 103; 104; 105; 0] = Some mrg_case_12_in_0.
Proof. vm_compute; reflexivity. Qed.
Definition mrg_case_12_in_1 : update := {| u_blocks := [(1, [BItem {| cl := 1; ck := 0 |} None None (PNamed [116]) None (BString [97; 98; 99; 100; 101])])]; u_ds := [] |}.
Example mrg_case_12_in_1_bytes : mrg_dec [1; 1; 1; 0; 4; 1; 1; 116; 5; 97; 98; 99; 100; 101; 0] = Some mrg_case_12_in_1.
Proof. vm_compute; reflexivity. Qed.
Example mrg_case_12 : mrg_merge_updates [mrg_case_12_in_0; mrg_case_12_in_1] = {| u_blocks := [(1, [BItem {| cl := 1; ck := 0 |} None None (PNamed [116]) None (BString [97; 98; 99; 100; 101]); BItem {| cl := 1; ck := 5 |} (Some {| cl := 1; ck := 4 |}) None PUnknown None (BString [102; 103; 104; 105])])]; u_ds := [] |}.
Proof. vm_compute; reflexivity. Qed.
(* Rust: 0102010004010174056162636465840104046667686900 *)
Example mrg_case_12_bytes : encode_update_v1 (mrg_merge_updates [mrg_case_12_in_0; mrg_case_12_in_1]) = Some [1; 2; 1; 0; 4; 1; 1; 116; 5; 97; 98; 99; 100; 101; 132; 1; 4; 4; 102; 103; 104; 105; 0].
Proof. vm_compute; reflexivity. Qed.

(* ---- case 13: prefix5_suffix6 ---- *)
Definition mrg_case_13_in_0 : update := {| u_blocks := [(1, [BItem {| cl := 1; ck := 0 |} None None (PNamed [116]) None (BString [97; 98; 99; 100; 101])])]; u_ds := [] |}.
Example mrg_case_13_in_0_bytes : mrg_dec [1; 1; 1; 0; 4; 1; 1; 116; 5; 97; 98; 99; 100; 101; 0] = Some mrg_case_13_in_0.
Proof. vm_compute; reflexivity. Qed.
Definition mrg_case_13_in_1 : update := {| u_blocks := [(1, [BItem {| cl := 1; ck := 6 |} (Some {| cl := 1; ck := 5 |}) None PUnknown None (BString [103; 104; 105])])]; u_ds := [] |}.
Example mrg_case_13_in_1_bytes : mrg_dec [1; 1; 1; 6; 132; 1; 5; 3; 103; 104; 105; 0] = Some mrg_case_13_in_1.
Proof. vm_compute; reflexivity. Qed.
Example mrg_case_13 : mrg_merge_updates [mrg_case_13_in_0; mrg_case_13_in_1] = {| u_blocks := [(1, [BItem {| cl := 1; ck := 0 |} None None (PNamed [116]) None (BString [97; 98; 99; 100; 101]); BSkip {| cl := 1; ck := 5 |} 1; BItem {| cl := 1; ck := 6 |} (Some {| cl := 1; ck := 5 |}) None PUnknown None (BString [103; 104; 105])])]; u_ds := [] |}.
Proof. vm_compute; reflexivity. Qed.
(* Rust: 01030100040101740561626364650a018401050367686900 *)
Example mrg_case_13_bytes : encode_update_v1 (mrg_merge_updates [mrg_case_13_in_0; mrg_case_13_in_1]) = Some [1; 3; 1; 0; 4; 1; 1; 116; 5; 97; 98; 99; 100; 101; 10; 1; 132; 1; 5; 3; 103; 104; 105; 0].
Proof. vm_compute; reflexivity. Qed.

(* ---- case 14: suffix6_prefix5_filler ---- *)
Definition mrg_case_14_in_0 : update := {| u_blocks := [(1, [BItem {| cl := 1; ck := 6 |} (Some {| cl := 1; ck := 5 |}) None PUnknown None (BString [103; 104; 105])])]; u_ds := [] |}.
Example mrg_case_14_in_0_bytes : mrg_dec [1; 1; 1; 6; 132; 1; 5; 3; 103; 104; 105; 0] = Some mrg_case_14_in_0.
Proof. vm_compute; reflexivity. Qed.
Definition mrg_case_14_in_1 : update := {| u_blocks := [(1, [BItem {| cl := 1; ck := 0 |} None None (PNamed [116]) None (BString [97; 98; 99; 100; 101])])]; u_ds := [] |}.
Example mrg_case_14_in_1_bytes : mrg_dec [1; 1; 1; 0; 4; 1; 1; 116; 5; 97; 98; 99; 100; 101; 0] = Some mrg_case_14_in_1.
Proof. vm_compute; reflexivity. Qed.
Definition mrg_case_14_in_2 : update := {| u_blocks := [(1, [BItem {| cl := 1; ck := 5 |} (Some {| cl := 1; ck := 4 |}) None PUnknown None (BString [102; 103])])]; u_ds := [] |}.
Example mrg_case_14_in_2_bytes : mrg_dec [1; 1; 1; 5; 132; 1; 4; 2; 102; 103; 0] = Some mrg_case_14_in_2.
Proof. vm_compute; reflexivity. Qed.
Example mrg_case_14 : mrg_merge_updates [mrg_case_14_in_0; mrg_case_14_in_1; mrg_case_14_in_2] = {| u_blocks := [(1, [BItem {| cl := 1; ck := 0 |} None None (PNamed [116]) None (BString [97; 98; 99; 100; 101]); BItem {| cl := 1; ck := 5 |} (Some {| cl := 1; ck := 4 |}) None PUnknown None (BString [102; 103]); BItem {| cl := 1; ck := 7 |} (Some {| cl := 1; ck := 6 |}) None PUnknown None (BString [104; 105])])]; u_ds := [] |}.
Proof. vm_compute; reflexivity. Qed.
(* Rust: 010301000401017405616263646584010402666784010602686900 *)
Example mrg_case_14_bytes : encode_update_v1 (mrg_merge_updates [mrg_case_14_in_0; mrg_case_14_in_1; mrg_case_14_in_2]) = Some [1; 3; 1; 0; 4; 1; 1; 116; 5; 97; 98; 99; 100; 101; 132; 1; 4; 2; 102; 103; 132; 1; 6; 2; 104; 105; 0].
Proof. vm_compute; reflexivity. Qed.

(* ---- case 15: gap_suffix6 ---- *)
Definition mrg_case_15_in_0 : update := {| u_blocks := [(1, [BItem {| cl := 1; ck := 0 |} None None (PNamed [116]) None (BString [97; 98]); BSkip {| cl := 1; ck := 2 |} 5; BItem {| cl := 1; ck := 7 |} (Some {| cl := 1; ck := 6 |}) None PUnknown None (BString [104; 105])])]; u_ds := [] |}.
Example mrg_case_15_in_0_bytes : mrg_dec [1; 3; 1; 0; 4; 1; 1; 116; 2; 97; 98; 10; 5; 132; 1; 6; 2; 104; 105; 0] = Some mrg_case_15_in_0.
Proof. vm_compute; reflexivity. Qed.
Definition mrg_case_15_in_1 : update := {| u_blocks := [(1, [BItem {| cl := 1; ck := 6 |} (Some {| cl := 1; ck := 5 |}) None PUnknown None (BString [103; 104; 105])])]; u_ds := [] |}.
Example mrg_case_15_in_1_bytes : mrg_dec [1; 1; 1; 6; 132; 1; 5; 3; 103; 104; 105; 0] = Some mrg_case_15_in_1.
Proof. vm_compute; reflexivity. Qed.
Example mrg_case_15 : mrg_merge_updates [mrg_case_15_in_0; mrg_case_15_in_1] = {| u_blocks := [(1, [BItem {| cl := 1; ck := 0 |} None None (PNamed [116]) None (BString [97; 98]); BSkip {| cl := 1; ck := 2 |} 4; BItem {| cl := 1; ck := 6 |} (Some {| cl := 1; ck := 5 |}) None PUnknown None (BString [103; 104; 105])])]; u_ds := [] |}.
Proof. vm_compute; reflexivity. Qed.
(* Rust: 01030100040101740261620a048401050367686900 *)
Example mrg_case_15_bytes : encode_update_v1 (mrg_merge_updates [mrg_case_15_in_0; mrg_case_15_in_1]) = Some [1; 3; 1; 0; 4; 1; 1; 116; 2; 97; 98; 10; 4; 132; 1; 5; 3; 103; 104; 105; 0].
Proof. vm_compute; reflexivity. Qed.

(* ---- case 16: none ---- *)
Example mrg_case_16 : mrg_merge_updates [] = {| u_blocks := []; u_ds := [] |}.
Proof. vm_compute; reflexivity. Qed.
(* Rust: 0000 *)
Example mrg_case_16_bytes : encode_update_v1 (mrg_merge_updates []) = Some [0; 0].
Proof. vm_compute; reflexivity. Qed.

(* ---- case 17: multi_shuffled ---- *)
Definition mrg_case_17_in_0 : update := {| u_blocks := [(30, [BItem {| cl := 30; ck := 0 |} None (Some {| cl := 10; ck := 0 |}) PUnknown None (BString [62; 62; 32])])]; u_ds := [(10, [(1, 3, tt)])] |}.
Example mrg_case_17_in_0_bytes : mrg_dec [1; 1; 30; 0; 68; 10; 0; 3; 62; 62; 32; 1; 10; 1; 1; 2] = Some mrg_case_17_in_0.
Proof. vm_compute; reflexivity. Qed.
Definition mrg_case_17_in_1 : update := {| u_blocks := [(10, [BItem {| cl := 10; ck := 7 |} (Some {| cl := 10; ck := 5 |}) (Some {| cl := 10; ck := 6 |}) PUnknown None (BString [81])])]; u_ds := [(10, [(0, 1, tt)]); (30, [(0, 3, tt)])] |}.
Example mrg_case_17_in_1_bytes : mrg_dec [1; 1; 10; 7; 196; 10; 5; 10; 6; 1; 81; 2; 10; 1; 0; 1; 30; 1; 0; 3] = Some mrg_case_17_in_1.
Proof. vm_compute; reflexivity. Qed.
Definition mrg_case_17_in_2 : update := {| u_blocks := [(10, [BItem {| cl := 10; ck := 0 |} None None (PNamed [116]) None (BString [104; 101; 108; 108; 111])])]; u_ds := [] |}.
Example mrg_case_17_in_2_bytes : mrg_dec [1; 1; 10; 0; 4; 1; 1; 116; 5; 104; 101; 108; 108; 111; 0] = Some mrg_case_17_in_2.
Proof. vm_compute; reflexivity. Qed.
Definition mrg_case_17_in_3 : update := {| u_blocks := [(10, [BItem {| cl := 10; ck := 5 |} (Some {| cl := 10; ck := 1 |}) (Some {| cl := 10; ck := 2 |}) PUnknown None (BString [88; 89])])]; u_ds := [] |}.
Example mrg_case_17_in_3_bytes : mrg_dec [1; 1; 10; 5; 196; 10; 1; 10; 2; 2; 88; 89; 0] = Some mrg_case_17_in_3.
Proof. vm_compute; reflexivity. Qed.
Definition mrg_case_17_in_4 : update := {| u_blocks := [(20, [BItem {| cl := 20; ck := 0 |} (Some {| cl := 10; ck := 4 |}) None PUnknown None (BString [32; 119; 111; 114; 108; 100])])]; u_ds := [] |}.
Example mrg_case_17_in_4_bytes : mrg_dec [1; 1; 20; 0; 132; 10; 4; 6; 32; 119; 111; 114; 108; 100; 0] = Some mrg_case_17_in_4.
Proof. vm_compute; reflexivity. Qed.
Example mrg_case_17 : mrg_merge_updates [mrg_case_17_in_0; mrg_case_17_in_1; mrg_case_17_in_2; mrg_case_17_in_3; mrg_case_17_in_4] = {| u_blocks := [(30, [BItem {| cl := 30; ck := 0 |} None (Some {| cl := 10; ck := 0 |}) PUnknown None (BString [62; 62; 32])]); (20, [BItem {| cl := 20; ck := 0 |} (Some {| cl := 10; ck := 4 |}) None PUnknown None (BString [32; 119; 111; 114; 108; 100])]); (10, [BItem {| cl := 10; ck := 0 |} None None (PNamed [116]) None (BString [104; 101; 108; 108; 111]); BItem {| cl := 10; ck := 5 |} (Some {| cl := 10; ck := 1 |}) (Some {| cl := 10; ck := 2 |}) PUnknown None (BString [88; 89]); BItem {| cl := 10; ck := 7 |} (Some {| cl := 10; ck := 5 |}) (Some {| cl := 10; ck := 6 |}) PUnknown None (BString [81])])]; u_ds := [(10, [(0, 3, tt)]); (30, [(0, 3, tt)])] |}.
Proof. vm_compute; reflexivity. Qed.
(* Rust: 03011e00440a00033e3e20011400840a040620776f726c64030a00040101740568656c6c6fc40a010a02025859c40a050a060151020a0100031e010003 *)
Example mrg_case_17_bytes : encode_update_v1 (mrg_merge_updates [mrg_case_17_in_0; mrg_case_17_in_1; mrg_case_17_in_2; mrg_case_17_in_3; mrg_case_17_in_4]) = Some [3; 1; 30; 0; 68; 10; 0; 3; 62; 62; 32; 1; 20; 0; 132; 10; 4; 6; 32; 119; 111; 114; 108; 100; 3; 10; 0; 4; 1; 1; 116; 5; 104; 101; 108; 108; 111; 196; 10; 1; 10; 2; 2; 88; 89; 196; 10; 5; 10; 6; 1; 81; 2; 10; 1; 0; 3; 30; 1; 0; 3].
Proof. vm_compute; reflexivity. Qed.

(* ---- case 18: multi_with_full ---- *)
Definition mrg_case_18_in_0 : update := {| u_blocks := [(30, [BItem {| cl := 30; ck := 0 |} None (Some {| cl := 10; ck := 0 |}) PUnknown None (BString [62; 62; 32])])]; u_ds := [(10, [(1, 3, tt)])] |}.
Example mrg_case_18_in_0_bytes : mrg_dec [1; 1; 30; 0; 68; 10; 0; 3; 62; 62; 32; 1; 10; 1; 1; 2] = Some mrg_case_18_in_0.
Proof. vm_compute; reflexivity. Qed.
Definition mrg_case_18_in_1 : update := {| u_blocks := [(30, [BItem {| cl := 30; ck := 0 |} None (Some {| cl := 10; ck := 0 |}) PUnknown None (BDeleted 3)]); (20, [BItem {| cl := 20; ck := 0 |} (Some {| cl := 10; ck := 4 |}) None PUnknown None (BString [32; 119; 111; 114; 108; 100])]); (10, [BItem {| cl := 10; ck := 0 |} None None (PNamed [116]) None (BDeleted 2); BItem {| cl := 10; ck := 2 |} (Some {| cl := 10; ck := 1 |}) None PUnknown None (BDeleted 1); BItem {| cl := 10; ck := 3 |} (Some {| cl := 10; ck := 2 |}) None PUnknown None (BString [108; 111]); BItem {| cl := 10; ck := 5 |} (Some {| cl := 10; ck := 1 |}) (Some {| cl := 10; ck := 2 |}) PUnknown None (BString [88]); BItem {| cl := 10; ck := 6 |} (Some {| cl := 10; ck := 5 |}) (Some {| cl := 10; ck := 2 |}) PUnknown None (BString [89]); BItem {| cl := 10; ck := 7 |} (Some {| cl := 10; ck := 5 |}) (Some {| cl := 10; ck := 6 |}) PUnknown None (BString [81])])]; u_ds := [(10, [(0, 3, tt)]); (30, [(0, 3, tt)])] |}.
Example mrg_case_18_in_1_bytes : mrg_dec [3; 1; 30; 0; 65; 10; 0; 3; 1; 20; 0; 132; 10; 4; 6; 32; 119; 111; 114; 108; 100; 6; 10; 0; 1; 1; 1; 116; 2; 129; 10; 1; 1; 132; 10; 2; 2; 108; 111; 196; 10; 1; 10; 2; 1; 88; 196; 10; 5; 10; 2; 1; 89; 196; 10; 5; 10; 6; 1; 81; 2; 10; 1; 0; 3; 30; 1; 0; 3] = Some mrg_case_18_in_1.
Proof. vm_compute; reflexivity. Qed.
Definition mrg_case_18_in_2 : update := {| u_blocks := [(10, [BItem {| cl := 10; ck := 0 |} None None (PNamed [116]) None (BString [104; 101; 108; 108; 111])])]; u_ds := [] |}.
Example mrg_case_18_in_2_bytes : mrg_dec [1; 1; 10; 0; 4; 1; 1; 116; 5; 104; 101; 108; 108; 111; 0] = Some mrg_case_18_in_2.
Proof. vm_compute; reflexivity. Qed.
Example mrg_case_18 : mrg_merge_updates [mrg_case_18_in_0; mrg_case_18_in_1; mrg_case_18_in_2] = {| u_blocks := [(30, [BItem {| cl := 30; ck := 0 |} None (Some {| cl := 10; ck := 0 |}) PUnknown None (BString [62; 62; 32])]); (20, [BItem {| cl := 20; ck := 0 |} (Some {| cl := 10; ck := 4 |}) None PUnknown None (BString [32; 119; 111; 114; 108; 100])]); (10, [BItem {| cl := 10; ck := 0 |} None None (PNamed [116]) None (BDeleted 2); BItem {| cl := 10; ck := 2 |} (Some {| cl := 10; ck := 1 |}) None PUnknown None (BDeleted 1); BItem {| cl := 10; ck := 3 |} (Some {| cl := 10; ck := 2 |}) None PUnknown None (BString [108; 111]); BItem {| cl := 10; ck := 5 |} (Some {| cl := 10; ck := 1 |}) (Some {| cl := 10; ck := 2 |}) PUnknown None (BString [88]); BItem {| cl := 10; ck := 6 |} (Some {| cl := 10; ck := 5 |}) (Some {| cl := 10; ck := 2 |}) PUnknown None (BString [89]); BItem {| cl := 10; ck := 7 |} (Some {| cl := 10; ck := 5 |}) (Some {| cl := 10; ck := 6 |}) PUnknown None (BString [81])])]; u_ds := [(10, [(0, 3, tt)]); (30, [(0, 3, tt)])] |}.
Proof. vm_compute; reflexivity. Qed.
(* Rust: 03011e00440a00033e3e20011400840a040620776f726c64060a000101017402810a0101840a02026c6fc40a010a020158c40a050a020159c40a050a060151020a0100031e010003 *)
Example mrg_case_18_bytes : encode_update_v1 (mrg_merge_updates [mrg_case_18_in_0; mrg_case_18_in_1; mrg_case_18_in_2]) = Some [3; 1; 30; 0; 68; 10; 0; 3; 62; 62; 32; 1; 20; 0; 132; 10; 4; 6; 32; 119; 111; 114; 108; 100; 6; 10; 0; 1; 1; 1; 116; 2; 129; 10; 1; 1; 132; 10; 2; 2; 108; 111; 196; 10; 1; 10; 2; 1; 88; 196; 10; 5; 10; 2; 1; 89; 196; 10; 5; 10; 6; 1; 81; 2; 10; 1; 0; 3; 30; 1; 0; 3].
Proof. vm_compute; reflexivity. Qed.

(* ---- case 19: multi_gappy ---- *)
Definition mrg_case_19_in_0 : update := {| u_blocks := [(10, [BItem {| cl := 10; ck := 7 |} (Some {| cl := 10; ck := 5 |}) (Some {| cl := 10; ck := 6 |}) PUnknown None (BString [81])])]; u_ds := [(10, [(0, 1, tt)]); (30, [(0, 3, tt)])] |}.
Example mrg_case_19_in_0_bytes : mrg_dec [1; 1; 10; 7; 196; 10; 5; 10; 6; 1; 81; 2; 10; 1; 0; 1; 30; 1; 0; 3] = Some mrg_case_19_in_0.
Proof. vm_compute; reflexivity. Qed.
Definition mrg_case_19_in_1 : update := {| u_blocks := [(10, [BItem {| cl := 10; ck := 0 |} None None (PNamed [116]) None (BString [104; 101; 108; 108; 111])])]; u_ds := [] |}.
Example mrg_case_19_in_1_bytes : mrg_dec [1; 1; 10; 0; 4; 1; 1; 116; 5; 104; 101; 108; 108; 111; 0] = Some mrg_case_19_in_1.
Proof. vm_compute; reflexivity. Qed.
Definition mrg_case_19_in_2 : update := {| u_blocks := [(30, [BItem {| cl := 30; ck := 0 |} None (Some {| cl := 10; ck := 0 |}) PUnknown None (BString [62; 62; 32])])]; u_ds := [(10, [(1, 3, tt)])] |}.
Example mrg_case_19_in_2_bytes : mrg_dec [1; 1; 30; 0; 68; 10; 0; 3; 62; 62; 32; 1; 10; 1; 1; 2] = Some mrg_case_19_in_2.
Proof. vm_compute; reflexivity. Qed.
Example mrg_case_19 : mrg_merge_updates [mrg_case_19_in_0; mrg_case_19_in_1; mrg_case_19_in_2] = {| u_blocks := [(30, [BItem {| cl := 30; ck := 0 |} None (Some {| cl := 10; ck := 0 |}) PUnknown None (BString [62; 62; 32])]); (10, [BItem {| cl := 10; ck := 0 |} None None (PNamed [116]) None (BString [104; 101; 108; 108; 111]); BSkip {| cl := 10; ck := 5 |} 2; BItem {| cl := 10; ck := 7 |} (Some {| cl := 10; ck := 5 |}) (Some {| cl := 10; ck := 6 |}) PUnknown None (BString [81])])]; u_ds := [(10, [(0, 3, tt)]); (30, [(0, 3, tt)])] |}.
Proof. vm_compute; reflexivity. Qed.
(* Rust: 02011e00440a00033e3e20030a00040101740568656c6c6f0a02c40a050a060151020a0100031e010003 *)
Example mrg_case_19_bytes : encode_update_v1 (mrg_merge_updates [mrg_case_19_in_0; mrg_case_19_in_1; mrg_case_19_in_2]) = Some [2; 1; 30; 0; 68; 10; 0; 3; 62; 62; 32; 3; 10; 0; 4; 1; 1; 116; 5; 104; 101; 108; 108; 111; 10; 2; 196; 10; 5; 10; 6; 1; 81; 2; 10; 1; 0; 3; 30; 1; 0; 3].
Proof. vm_compute; reflexivity. Qed.

(* ---- case 20: multi_nested_rev ---- *)
Definition mrg_case_20_in_0 : update := {| u_blocks := [(20, [BItem {| cl := 20; ck := 0 |} (Some {| cl := 10; ck := 4 |}) None PUnknown None (BString [32; 119; 111; 114; 108; 100])])]; u_ds := [] |}.
Example mrg_case_20_in_0_bytes : mrg_dec [1; 1; 20; 0; 132; 10; 4; 6; 32; 119; 111; 114; 108; 100; 0] = Some mrg_case_20_in_0.
Proof. vm_compute; reflexivity. Qed.
Definition mrg_case_20_in_1 : update := {| u_blocks := [(10, [BItem {| cl := 10; ck := 5 |} (Some {| cl := 10; ck := 1 |}) (Some {| cl := 10; ck := 2 |}) PUnknown None (BString [88; 89])])]; u_ds := [] |}.
Example mrg_case_20_in_1_bytes : mrg_dec [1; 1; 10; 5; 196; 10; 1; 10; 2; 2; 88; 89; 0] = Some mrg_case_20_in_1.
Proof. vm_compute; reflexivity. Qed.
Definition mrg_case_20_in_2 : update := {| u_blocks := [(30, [BItem {| cl := 30; ck := 0 |} None (Some {| cl := 10; ck := 0 |}) PUnknown None (BString [62; 62; 32])]); (10, [BItem {| cl := 10; ck := 0 |} None None (PNamed [116]) None (BString [104; 101; 108; 108; 111]); BSkip {| cl := 10; ck := 5 |} 2; BItem {| cl := 10; ck := 7 |} (Some {| cl := 10; ck := 5 |}) (Some {| cl := 10; ck := 6 |}) PUnknown None (BString [81])])]; u_ds := [(10, [(0, 3, tt)]); (30, [(0, 3, tt)])] |}.
Example mrg_case_20_in_2_bytes : mrg_dec [2; 1; 30; 0; 68; 10; 0; 3; 62; 62; 32; 3; 10; 0; 4; 1; 1; 116; 5; 104; 101; 108; 108; 111; 10; 2; 196; 10; 5; 10; 6; 1; 81; 2; 10; 1; 0; 3; 30; 1; 0; 3] = Some mrg_case_20_in_2.
Proof. vm_compute; reflexivity. Qed.
Example mrg_case_20 : mrg_merge_updates [mrg_case_20_in_0; mrg_case_20_in_1; mrg_case_20_in_2] = {| u_blocks := [(30, [BItem {| cl := 30; ck := 0 |} None (Some {| cl := 10; ck := 0 |}) PUnknown None (BString [62; 62; 32])]); (20, [BItem {| cl := 20; ck := 0 |} (Some {| cl := 10; ck := 4 |}) None PUnknown None (BString [32; 119; 111; 114; 108; 100])]); (10, [BItem {| cl := 10; ck := 0 |} None None (PNamed [116]) None (BString [104; 101; 108; 108; 111]); BItem {| cl := 10; ck := 5 |} (Some {| cl := 10; ck := 1 |}) (Some {| cl := 10; ck := 2 |}) PUnknown None (BString [88; 89]); BItem {| cl := 10; ck := 7 |} (Some {| cl := 10; ck := 5 |}) (Some {| cl := 10; ck := 6 |}) PUnknown None (BString [81])])]; u_ds := [(10, [(0, 3, tt)]); (30, [(0, 3, tt)])] |}.
Proof. vm_compute; reflexivity. Qed.
(* Rust: 03011e00440a00033e3e20011400840a040620776f726c64030a00040101740568656c6c6fc40a010a02025859c40a050a060151020a0100031e010003 *)
Example mrg_case_20_bytes : encode_update_v1 (mrg_merge_updates [mrg_case_20_in_0; mrg_case_20_in_1; mrg_case_20_in_2]) = Some [3; 1; 30; 0; 68; 10; 0; 3; 62; 62; 32; 1; 20; 0; 132; 10; 4; 6; 32; 119; 111; 114; 108; 100; 3; 10; 0; 4; 1; 1; 116; 5; 104; 101; 108; 108; 111; 196; 10; 1; 10; 2; 2; 88; 89; 196; 10; 5; 10; 6; 1; 81; 2; 10; 1; 0; 3; 30; 1; 0; 3].
Proof. vm_compute; reflexivity. Qed.

(* ---- case 21: multi_diff_mid_rev ---- *)
Definition mrg_case_21_in_0 : update := {| u_blocks := [(30, [BItem {| cl := 30; ck := 0 |} None (Some {| cl := 10; ck := 0 |}) PUnknown None (BDeleted 3)]); (20, [BItem {| cl := 20; ck := 2 |} (Some {| cl := 20; ck := 1 |}) None PUnknown None (BString [111; 114; 108; 100])]); (10, [BItem {| cl := 10; ck := 3 |} (Some {| cl := 10; ck := 2 |}) None PUnknown None (BString [108; 111]); BItem {| cl := 10; ck := 5 |} (Some {| cl := 10; ck := 1 |}) (Some {| cl := 10; ck := 2 |}) PUnknown None (BString [88]); BItem {| cl := 10; ck := 6 |} (Some {| cl := 10; ck := 5 |}) (Some {| cl := 10; ck := 2 |}) PUnknown None (BString [89]); BItem {| cl := 10; ck := 7 |} (Some {| cl := 10; ck := 5 |}) (Some {| cl := 10; ck := 6 |}) PUnknown None (BString [81])])]; u_ds := [(10, [(0, 3, tt)]); (30, [(0, 3, tt)])] |}.
Example mrg_case_21_in_0_bytes : mrg_dec [3; 1; 30; 0; 65; 10; 0; 3; 1; 20; 2; 132; 20; 1; 4; 111; 114; 108; 100; 4; 10; 3; 132; 10; 2; 2; 108; 111; 196; 10; 1; 10; 2; 1; 88; 196; 10; 5; 10; 2; 1; 89; 196; 10; 5; 10; 6; 1; 81; 2; 10; 1; 0; 3; 30; 1; 0; 3] = Some mrg_case_21_in_0.
Proof. vm_compute; reflexivity. Qed.
Definition mrg_case_21_in_1 : update := {| u_blocks := [(10, [BItem {| cl := 10; ck := 0 |} None None (PNamed [116]) None (BString [104; 101; 108; 108; 111])])]; u_ds := [] |}.
Example mrg_case_21_in_1_bytes : mrg_dec [1; 1; 10; 0; 4; 1; 1; 116; 5; 104; 101; 108; 108; 111; 0] = Some mrg_case_21_in_1.
Proof. vm_compute; reflexivity. Qed.
Definition mrg_case_21_in_2 : update := {| u_blocks := [(20, [BItem {| cl := 20; ck := 0 |} (Some {| cl := 10; ck := 4 |}) None PUnknown None (BString [32; 119; 111; 114; 108; 100])])]; u_ds := [] |}.
Example mrg_case_21_in_2_bytes : mrg_dec [1; 1; 20; 0; 132; 10; 4; 6; 32; 119; 111; 114; 108; 100; 0] = Some mrg_case_21_in_2.
Proof. vm_compute; reflexivity. Qed.
Example mrg_case_21 : mrg_merge_updates [mrg_case_21_in_0; mrg_case_21_in_1; mrg_case_21_in_2] = {| u_blocks := [(30, [BItem {| cl := 30; ck := 0 |} None (Some {| cl := 10; ck := 0 |}) PUnknown None (BDeleted 3)]); (20, [BItem {| cl := 20; ck := 0 |} (Some {| cl := 10; ck := 4 |}) None PUnknown None (BString [32; 119; 111; 114; 108; 100])]); (10, [BItem {| cl := 10; ck := 0 |} None None (PNamed [116]) None (BString [104; 101; 108; 108; 111]); BItem {| cl := 10; ck := 5 |} (Some {| cl := 10; ck := 1 |}) (Some {| cl := 10; ck := 2 |}) PUnknown None (BString [88]); BItem {| cl := 10; ck := 6 |} (Some {| cl := 10; ck := 5 |}) (Some {| cl := 10; ck := 2 |}) PUnknown None (BString [89]); BItem {| cl := 10; ck := 7 |} (Some {| cl := 10; ck := 5 |}) (Some {| cl := 10; ck := 6 |}) PUnknown None (BString [81])])]; u_ds := [(10, [(0, 3, tt)]); (30, [(0, 3, tt)])] |}.
Proof. vm_compute; reflexivity. Qed.
(* Rust: 03011e00410a0003011400840a040620776f726c64040a00040101740568656c6c6fc40a010a020158c40a050a020159c40a050a060151020a0100031e010003 *)
Example mrg_case_21_bytes : encode_update_v1 (mrg_merge_updates [mrg_case_21_in_0; mrg_case_21_in_1; mrg_case_21_in_2]) = Some [3; 1; 30; 0; 65; 10; 0; 3; 1; 20; 0; 132; 10; 4; 6; 32; 119; 111; 114; 108; 100; 4; 10; 0; 4; 1; 1; 116; 5; 104; 101; 108; 108; 111; 196; 10; 1; 10; 2; 1; 88; 196; 10; 5; 10; 2; 1; 89; 196; 10; 5; 10; 6; 1; 81; 2; 10; 1; 0; 3; 30; 1; 0; 3].
Proof. vm_compute; reflexivity. Qed.

(* ---- case 22: gc_then_items ---- *)
Definition mrg_case_22_in_0 : update := {| u_blocks := [(5, [BItem {| cl := 5; ck := 0 |} None None (PNamed [109]) (Some [107]) (BDeleted 1); BGC {| cl := 5; ck := 1 |} 6; BItem {| cl := 5; ck := 7 |} None None (PNamed [109]) (Some [106]) (BDeleted 1); BGC {| cl := 5; ck := 8 |} 1; BItem {| cl := 5; ck := 9 |} (Some {| cl := 5; ck := 0 |}) None PUnknown None (BAny [AInt 7]); BItem {| cl := 5; ck := 10 |} None None (PNamed [109]) (Some [122]) (BAny [AString [101; 110; 100]])])]; u_ds := [(5, [(0, 9, tt)])] |}.
Example mrg_case_22_in_0_bytes : mrg_dec [1; 6; 5; 0; 33; 1; 1; 109; 1; 107; 1; 0; 6; 33; 1; 1; 109; 1; 106; 1; 0; 1; 168; 5; 0; 1; 125; 7; 40; 1; 1; 109; 1; 122; 1; 119; 3; 101; 110; 100; 1; 5; 1; 0; 9] = Some mrg_case_22_in_0.
Proof. vm_compute; reflexivity. Qed.
Definition mrg_case_22_in_1 : update := {| u_blocks := [(5, [BItem {| cl := 5; ck := 0 |} None None (PNamed [109]) (Some [107]) (BType TText); BItem {| cl := 5; ck := 1 |} None None (PId {| cl := 5; ck := 0 |}) None (BString [97; 98; 99; 100; 101; 102]); BItem {| cl := 5; ck := 7 |} None None (PNamed [109]) (Some [106]) (BType TMap); BItem {| cl := 5; ck := 8 |} None None (PId {| cl := 5; ck := 7 |}) (Some [120]) (BAny [AInt 1]); BItem {| cl := 5; ck := 9 |} (Some {| cl := 5; ck := 0 |}) None PUnknown None (BAny [AInt 7]); BItem {| cl := 5; ck := 10 |} None None (PNamed [109]) (Some [122]) (BAny [AString [101; 110; 100]])])]; u_ds := [(5, [(0, 9, tt)])] |}.
Example mrg_case_22_in_1_bytes : mrg_dec [1; 6; 5; 0; 39; 1; 1; 109; 1; 107; 2; 4; 0; 5; 0; 6; 97; 98; 99; 100; 101; 102; 39; 1; 1; 109; 1; 106; 1; 40; 0; 5; 7; 1; 120; 1; 125; 1; 168; 5; 0; 1; 125; 7; 40; 1; 1; 109; 1; 122; 1; 119; 3; 101; 110; 100; 1; 5; 1; 0; 9] = Some mrg_case_22_in_1.
Proof. vm_compute; reflexivity. Qed.
Example mrg_case_22 : mrg_merge_updates [mrg_case_22_in_0; mrg_case_22_in_1] = {| u_blocks := [(5, [BItem {| cl := 5; ck := 0 |} None None (PNamed [109]) (Some [107]) (BDeleted 1); BGC {| cl := 5; ck := 1 |} 6; BItem {| cl := 5; ck := 7 |} None None (PNamed [109]) (Some [106]) (BDeleted 1); BGC {| cl := 5; ck := 8 |} 1; BItem {| cl := 5; ck := 9 |} (Some {| cl := 5; ck := 0 |}) None PUnknown None (BAny [AInt 7]); BItem {| cl := 5; ck := 10 |} None None (PNamed [109]) (Some [122]) (BAny [AString [101; 110; 100]])])]; u_ds := [(5, [(0, 9, tt)])] |}.
Proof. vm_compute; reflexivity. Qed.
(* Rust: 010605002101016d016b0100062101016d016a010001880500017d072801016d017a017703656e640105010009 *)
Example mrg_case_22_bytes : encode_update_v1 (mrg_merge_updates [mrg_case_22_in_0; mrg_case_22_in_1]) = Some [1; 6; 5; 0; 33; 1; 1; 109; 1; 107; 1; 0; 6; 33; 1; 1; 109; 1; 106; 1; 0; 1; 136; 5; 0; 1; 125; 7; 40; 1; 1; 109; 1; 122; 1; 119; 3; 101; 110; 100; 1; 5; 1; 0; 9].
Proof. vm_compute; reflexivity. Qed.

(* ---- case 23: items_then_gc ---- *)
Definition mrg_case_23_in_0 : update := {| u_blocks := [(5, [BItem {| cl := 5; ck := 0 |} None None (PNamed [109]) (Some [107]) (BType TText); BItem {| cl := 5; ck := 1 |} None None (PId {| cl := 5; ck := 0 |}) None (BString [97; 98; 99; 100; 101; 102]); BItem {| cl := 5; ck := 7 |} None None (PNamed [109]) (Some [106]) (BType TMap); BItem {| cl := 5; ck := 8 |} None None (PId {| cl := 5; ck := 7 |}) (Some [120]) (BAny [AInt 1]); BItem {| cl := 5; ck := 9 |} (Some {| cl := 5; ck := 0 |}) None PUnknown None (BAny [AInt 7]); BItem {| cl := 5; ck := 10 |} None None (PNamed [109]) (Some [122]) (BAny [AString [101; 110; 100]])])]; u_ds := [(5, [(0, 9, tt)])] |}.
Example mrg_case_23_in_0_bytes : mrg_dec [1; 6; 5; 0; 39; 1; 1; 109; 1; 107; 2; 4; 0; 5; 0; 6; 97; 98; 99; 100; 101; 102; 39; 1; 1; 109; 1; 106; 1; 40; 0; 5; 7; 1; 120; 1; 125; 1; 168; 5; 0; 1; 125; 7; 40; 1; 1; 109; 1; 122; 1; 119; 3; 101; 110; 100; 1; 5; 1; 0; 9] = Some mrg_case_23_in_0.
Proof. vm_compute; reflexivity. Qed.
Definition mrg_case_23_in_1 : update := {| u_blocks := [(5, [BItem {| cl := 5; ck := 0 |} None None (PNamed [109]) (Some [107]) (BDeleted 1); BGC {| cl := 5; ck := 1 |} 6; BItem {| cl := 5; ck := 7 |} None None (PNamed [109]) (Some [106]) (BDeleted 1); BGC {| cl := 5; ck := 8 |} 1; BItem {| cl := 5; ck := 9 |} (Some {| cl := 5; ck := 0 |}) None PUnknown None (BAny [AInt 7]); BItem {| cl := 5; ck := 10 |} None None (PNamed [109]) (Some [122]) (BAny [AString [101; 110; 100]])])]; u_ds := [(5, [(0, 9, tt)])] |}.
Example mrg_case_23_in_1_bytes : mrg_dec [1; 6; 5; 0; 33; 1; 1; 109; 1; 107; 1; 0; 6; 33; 1; 1; 109; 1; 106; 1; 0; 1; 168; 5; 0; 1; 125; 7; 40; 1; 1; 109; 1; 122; 1; 119; 3; 101; 110; 100; 1; 5; 1; 0; 9] = Some mrg_case_23_in_1.
Proof. vm_compute; reflexivity. Qed.
Example mrg_case_23 : mrg_merge_updates [mrg_case_23_in_0; mrg_case_23_in_1] = {| u_blocks := [(5, [BItem {| cl := 5; ck := 0 |} None None (PNamed [109]) (Some [107]) (BType TText); BItem {| cl := 5; ck := 1 |} None None (PId {| cl := 5; ck := 0 |}) None (BString [97; 98; 99; 100; 101; 102]); BItem {| cl := 5; ck := 7 |} None None (PNamed [109]) (Some [106]) (BType TMap); BItem {| cl := 5; ck := 8 |} None None (PId {| cl := 5; ck := 7 |}) (Some [120]) (BAny [AInt 1]); BItem {| cl := 5; ck := 9 |} (Some {| cl := 5; ck := 0 |}) None PUnknown None (BAny [AInt 7]); BItem {| cl := 5; ck := 10 |} None None (PNamed [109]) (Some [122]) (BAny [AString [101; 110; 100]])])]; u_ds := [(5, [(0, 9, tt)])] |}.
Proof. vm_compute; reflexivity. Qed.
(* Rust: 010605002701016d016b0204000500066162636465662701016d016a01280005070178017d01880500017d072801016d017a017703656e640105010009 *)
Example mrg_case_23_bytes : encode_update_v1 (mrg_merge_updates [mrg_case_23_in_0; mrg_case_23_in_1]) = Some [1; 6; 5; 0; 39; 1; 1; 109; 1; 107; 2; 4; 0; 5; 0; 6; 97; 98; 99; 100; 101; 102; 39; 1; 1; 109; 1; 106; 1; 40; 0; 5; 7; 1; 120; 1; 125; 1; 136; 5; 0; 1; 125; 7; 40; 1; 1; 109; 1; 122; 1; 119; 3; 101; 110; 100; 1; 5; 1; 0; 9].
Proof. vm_compute; reflexivity. Qed.

(* ---- case 24: gc_suffix_overlap2 ---- *)
Definition mrg_case_24_in_0 : update := {| u_blocks := [(5, [BGC {| cl := 5; ck := 4 |} 3; BItem {| cl := 5; ck := 7 |} None None (PNamed [109]) (Some [106]) (BDeleted 1); BGC {| cl := 5; ck := 8 |} 1; BItem {| cl := 5; ck := 9 |} (Some {| cl := 5; ck := 0 |}) None PUnknown None (BAny [AInt 7]); BItem {| cl := 5; ck := 10 |} None None (PNamed [109]) (Some [122]) (BAny [AString [101; 110; 100]])])]; u_ds := [(5, [(0, 9, tt)])] |}.
Example mrg_case_24_in_0_bytes : mrg_dec [1; 5; 5; 4; 0; 3; 33; 1; 1; 109; 1; 106; 1; 0; 1; 168; 5; 0; 1; 125; 7; 40; 1; 1; 109; 1; 122; 1; 119; 3; 101; 110; 100; 1; 5; 1; 0; 9] = Some mrg_case_24_in_0.
Proof. vm_compute; reflexivity. Qed.
Definition mrg_case_24_in_1 : update := {| u_blocks := [(5, [BGC {| cl := 5; ck := 2 |} 5; BItem {| cl := 5; ck := 7 |} None None (PNamed [109]) (Some [106]) (BDeleted 1); BGC {| cl := 5; ck := 8 |} 1; BItem {| cl := 5; ck := 9 |} (Some {| cl := 5; ck := 0 |}) None PUnknown None (BAny [AInt 7]); BItem {| cl := 5; ck := 10 |} None None (PNamed [109]) (Some [122]) (BAny [AString [101; 110; 100]])])]; u_ds := [(5, [(0, 9, tt)])] |}.
Example mrg_case_24_in_1_bytes : mrg_dec [1; 5; 5; 2; 0; 5; 33; 1; 1; 109; 1; 106; 1; 0; 1; 168; 5; 0; 1; 125; 7; 40; 1; 1; 109; 1; 122; 1; 119; 3; 101; 110; 100; 1; 5; 1; 0; 9] = Some mrg_case_24_in_1.
Proof. vm_compute; reflexivity. Qed.
Example mrg_case_24 : mrg_merge_updates [mrg_case_24_in_0; mrg_case_24_in_1] = {| u_blocks := [(5, [BGC {| cl := 5; ck := 2 |} 5; BItem {| cl := 5; ck := 7 |} None None (PNamed [109]) (Some [106]) (BDeleted 1); BGC {| cl := 5; ck := 8 |} 1; BItem {| cl := 5; ck := 9 |} (Some {| cl := 5; ck := 0 |}) None PUnknown None (BAny [AInt 7]); BItem {| cl := 5; ck := 10 |} None None (PNamed [109]) (Some [122]) (BAny [AString [101; 110; 100]])])]; u_ds := [(5, [(0, 9, tt)])] |}.
Proof. vm_compute; reflexivity. Qed.
(* Rust: 0105050200052101016d016a010001880500017d072801016d017a017703656e640105010009 *)
Example mrg_case_24_bytes : encode_update_v1 (mrg_merge_updates [mrg_case_24_in_0; mrg_case_24_in_1]) = Some [1; 5; 5; 2; 0; 5; 33; 1; 1; 109; 1; 106; 1; 0; 1; 136; 5; 0; 1; 125; 7; 40; 1; 1; 109; 1; 122; 1; 119; 3; 101; 110; 100; 1; 5; 1; 0; 9].
Proof. vm_compute; reflexivity. Qed.

(* ---- case 25: incs_with_gc ---- *)
Definition mrg_case_25_in_0 : update := {| u_blocks := [(5, [BItem {| cl := 5; ck := 10 |} None None (PNamed [109]) (Some [122]) (BAny [AString [101; 110; 100]])])]; u_ds := [(5, [(7, 9, tt)])] |}.
Example mrg_case_25_in_0_bytes : mrg_dec [1; 1; 5; 10; 40; 1; 1; 109; 1; 122; 1; 119; 3; 101; 110; 100; 1; 5; 1; 7; 2] = Some mrg_case_25_in_0.
Proof. vm_compute; reflexivity. Qed.
Definition mrg_case_25_in_1 : update := {| u_blocks := [(5, [BItem {| cl := 5; ck := 0 |} None None (PNamed [109]) (Some [107]) (BType TText); BItem {| cl := 5; ck := 1 |} None None (PId {| cl := 5; ck := 0 |}) None (BString [97; 98; 99]); BItem {| cl := 5; ck := 4 |} (Some {| cl := 5; ck := 3 |}) None PUnknown None (BString [100; 101; 102])])]; u_ds := [] |}.
Example mrg_case_25_in_1_bytes : mrg_dec [1; 3; 5; 0; 39; 1; 1; 109; 1; 107; 2; 4; 0; 5; 0; 3; 97; 98; 99; 132; 5; 3; 3; 100; 101; 102; 0] = Some mrg_case_25_in_1.
Proof. vm_compute; reflexivity. Qed.
Definition mrg_case_25_in_2 : update := {| u_blocks := [(5, [BItem {| cl := 5; ck := 0 |} None None (PNamed [109]) (Some [107]) (BDeleted 1); BGC {| cl := 5; ck := 1 |} 6; BItem {| cl := 5; ck := 7 |} None None (PNamed [109]) (Some [106]) (BDeleted 1); BGC {| cl := 5; ck := 8 |} 1; BItem {| cl := 5; ck := 9 |} (Some {| cl := 5; ck := 0 |}) None PUnknown None (BAny [AInt 7]); BItem {| cl := 5; ck := 10 |} None None (PNamed [109]) (Some [122]) (BAny [AString [101; 110; 100]])])]; u_ds := [(5, [(0, 9, tt)])] |}.
Example mrg_case_25_in_2_bytes : mrg_dec [1; 6; 5; 0; 33; 1; 1; 109; 1; 107; 1; 0; 6; 33; 1; 1; 109; 1; 106; 1; 0; 1; 168; 5; 0; 1; 125; 7; 40; 1; 1; 109; 1; 122; 1; 119; 3; 101; 110; 100; 1; 5; 1; 0; 9] = Some mrg_case_25_in_2.
Proof. vm_compute; reflexivity. Qed.
Example mrg_case_25 : mrg_merge_updates [mrg_case_25_in_0; mrg_case_25_in_1; mrg_case_25_in_2] = {| u_blocks := [(5, [BItem {| cl := 5; ck := 0 |} None None (PNamed [109]) (Some [107]) (BType TText); BItem {| cl := 5; ck := 1 |} None None (PId {| cl := 5; ck := 0 |}) None (BString [97; 98; 99]); BItem {| cl := 5; ck := 4 |} (Some {| cl := 5; ck := 3 |}) None PUnknown None (BString [100; 101; 102]); BItem {| cl := 5; ck := 7 |} None None (PNamed [109]) (Some [106]) (BDeleted 1); BGC {| cl := 5; ck := 8 |} 1; BItem {| cl := 5; ck := 9 |} (Some {| cl := 5; ck := 0 |}) None PUnknown None (BAny [AInt 7]); BItem {| cl := 5; ck := 10 |} None None (PNamed [109]) (Some [122]) (BAny [AString [101; 110; 100]])])]; u_ds := [(5, [(0, 9, tt)])] |}.
Proof. vm_compute; reflexivity. Qed.
(* Rust: 010705002701016d016b020400050003616263840503036465662101016d016a010001880500017d072801016d017a017703656e640105010009 *)
Example mrg_case_25_bytes : encode_update_v1 (mrg_merge_updates [mrg_case_25_in_0; mrg_case_25_in_1; mrg_case_25_in_2]) = Some [1; 7; 5; 0; 39; 1; 1; 109; 1; 107; 2; 4; 0; 5; 0; 3; 97; 98; 99; 132; 5; 3; 3; 100; 101; 102; 33; 1; 1; 109; 1; 106; 1; 0; 1; 136; 5; 0; 1; 125; 7; 40; 1; 1; 109; 1; 122; 1; 119; 3; 101; 110; 100; 1; 5; 1; 0; 9].
Proof. vm_compute; reflexivity. Qed.

(* ---- case 26: gc_inc0_suffix ---- *)
Definition mrg_case_26_in_0 : update := {| u_blocks := [(5, [BItem {| cl := 5; ck := 0 |} None None (PNamed [109]) (Some [107]) (BType TText); BItem {| cl := 5; ck := 1 |} None None (PId {| cl := 5; ck := 0 |}) None (BString [97; 98; 99]); BItem {| cl := 5; ck := 4 |} (Some {| cl := 5; ck := 3 |}) None PUnknown None (BString [100; 101; 102])])]; u_ds := [] |}.
Example mrg_case_26_in_0_bytes : mrg_dec [1; 3; 5; 0; 39; 1; 1; 109; 1; 107; 2; 4; 0; 5; 0; 3; 97; 98; 99; 132; 5; 3; 3; 100; 101; 102; 0] = Some mrg_case_26_in_0.
Proof. vm_compute; reflexivity. Qed.
Definition mrg_case_26_in_1 : update := {| u_blocks := [(5, [BGC {| cl := 5; ck := 4 |} 3; BItem {| cl := 5; ck := 7 |} None None (PNamed [109]) (Some [106]) (BDeleted 1); BGC {| cl := 5; ck := 8 |} 1; BItem {| cl := 5; ck := 9 |} (Some {| cl := 5; ck := 0 |}) None PUnknown None (BAny [AInt 7]); BItem {| cl := 5; ck := 10 |} None None (PNamed [109]) (Some [122]) (BAny [AString [101; 110; 100]])])]; u_ds := [(5, [(0, 9, tt)])] |}.
Example mrg_case_26_in_1_bytes : mrg_dec [1; 5; 5; 4; 0; 3; 33; 1; 1; 109; 1; 106; 1; 0; 1; 168; 5; 0; 1; 125; 7; 40; 1; 1; 109; 1; 122; 1; 119; 3; 101; 110; 100; 1; 5; 1; 0; 9] = Some mrg_case_26_in_1.
Proof. vm_compute; reflexivity. Qed.
Example mrg_case_26 : mrg_merge_updates [mrg_case_26_in_0; mrg_case_26_in_1] = {| u_blocks := [(5, [BItem {| cl := 5; ck := 0 |} None None (PNamed [109]) (Some [107]) (BType TText); BItem {| cl := 5; ck := 1 |} None None (PId {| cl := 5; ck := 0 |}) None (BString [97; 98; 99]); BItem {| cl := 5; ck := 4 |} (Some {| cl := 5; ck := 3 |}) None PUnknown None (BString [100; 101; 102]); BItem {| cl := 5; ck := 7 |} None None (PNamed [109]) (Some [106]) (BDeleted 1); BGC {| cl := 5; ck := 8 |} 1; BItem {| cl := 5; ck := 9 |} (Some {| cl := 5; ck := 0 |}) None PUnknown None (BAny [AInt 7]); BItem {| cl := 5; ck := 10 |} None None (PNamed [109]) (Some [122]) (BAny [AString [101; 110; 100]])])]; u_ds := [(5, [(0, 9, tt)])] |}.
Proof. vm_compute; reflexivity. Qed.
(* Rust: 010705002701016d016b020400050003616263840503036465662101016d016a010001880500017d072801016d017a017703656e640105010009 *)
Example mrg_case_26_bytes : encode_update_v1 (mrg_merge_updates [mrg_case_26_in_0; mrg_case_26_in_1]) = Some [1; 7; 5; 0; 39; 1; 1; 109; 1; 107; 2; 4; 0; 5; 0; 3; 97; 98; 99; 132; 5; 3; 3; 100; 101; 102; 33; 1; 1; 109; 1; 106; 1; 0; 1; 136; 5; 0; 1; 125; 7; 40; 1; 1; 109; 1; 122; 1; 119; 3; 101; 110; 100; 1; 5; 1; 0; 9].
Proof. vm_compute; reflexivity. Qed.

(* ---- case 27: file_w1 ---- *)
Definition mrg_case_27_in_0 : update := {| u_blocks := [(7, [BItem {| cl := 7; ck := 0 |} None None (PNamed [116]) None (BDeleted 4)]); (2, [BItem {| cl := 2; ck := 0 |} None None (PNamed [116]) None (BString [104]); BItem {| cl := 2; ck := 1 |} (Some {| cl := 2; ck := 0 |}) None PUnknown None (BString [108; 104; 118; 104; 121; 111; 106]); BSkip {| cl := 2; ck := 8 |} 1; BGC {| cl := 2; ck := 9 |} 2; BGC {| cl := 2; ck := 11 |} 2])]; u_ds := [] |}.
Example mrg_case_27_in_0_bytes : mrg_dec [2; 1; 7; 0; 1; 1; 1; 116; 4; 5; 2; 0; 4; 1; 1; 116; 1; 104; 132; 2; 0; 7; 108; 104; 118; 104; 121; 111; 106; 10; 1; 0; 2; 0; 2; 0] = Some mrg_case_27_in_0.
Proof. vm_compute; reflexivity. Qed.
Definition mrg_case_27_in_1 : update := {| u_blocks := [(7, [BItem {| cl := 7; ck := 0 |} None None (PNamed [116]) None (BDeleted 2); BItem {| cl := 7; ck := 2 |} (Some {| cl := 7; ck := 1 |}) None PUnknown None (BDeleted 1); BItem {| cl := 7; ck := 3 |} (Some {| cl := 7; ck := 2 |}) None PUnknown None (BDeleted 1)])]; u_ds := [] |}.
Example mrg_case_27_in_1_bytes : mrg_dec [1; 3; 7; 0; 1; 1; 1; 116; 2; 129; 7; 1; 1; 129; 7; 2; 1; 0] = Some mrg_case_27_in_1.
Proof. vm_compute; reflexivity. Qed.
Definition mrg_case_27_in_2 : update := {| u_blocks := [(7, [BItem {| cl := 7; ck := 0 |} None None (PNamed [116]) None (BDeleted 1); BItem {| cl := 7; ck := 1 |} (Some {| cl := 7; ck := 0 |}) None PUnknown None (BDeleted 3)])]; u_ds := [(2, [(0, 4, tt)])] |}.
Example mrg_case_27_in_2_bytes : mrg_dec [1; 2; 7; 0; 1; 1; 1; 116; 1; 129; 7; 0; 3; 1; 2; 1; 0; 4] = Some mrg_case_27_in_2.
Proof. vm_compute; reflexivity. Qed.
Example mrg_case_27 : mrg_merge_updates [mrg_case_27_in_0; mrg_case_27_in_1; mrg_case_27_in_2] = {| u_blocks := [(7, [BItem {| cl := 7; ck := 0 |} None None (PNamed [116]) None (BDeleted 4)]); (2, [BItem {| cl := 2; ck := 0 |} None None (PNamed [116]) None (BString [104]); BItem {| cl := 2; ck := 1 |} (Some {| cl := 2; ck := 0 |}) None PUnknown None (BString [108; 104; 118; 104; 121; 111; 106]); BSkip {| cl := 2; ck := 8 |} 1; BGC {| cl := 2; ck := 9 |} 2; BGC {| cl := 2; ck := 11 |} 2])]; u_ds := [(2, [(0, 4, tt)])] |}.
Proof. vm_compute; reflexivity. Qed.
(* Rust: 020107000101017404050200040101740168840200076c687668796f6a0a01000200020102010004 *)
Example mrg_case_27_bytes : encode_update_v1 (mrg_merge_updates [mrg_case_27_in_0; mrg_case_27_in_1; mrg_case_27_in_2]) = Some [2; 1; 7; 0; 1; 1; 1; 116; 4; 5; 2; 0; 4; 1; 1; 116; 1; 104; 132; 2; 0; 7; 108; 104; 118; 104; 121; 111; 106; 10; 1; 0; 2; 0; 2; 1; 2; 1; 0; 4].
Proof. vm_compute; reflexivity. Qed.

(* ---- case 28: file_w2 ---- *)
Definition mrg_case_28_in_0 : update := {| u_blocks := [(3, [BItem {| cl := 3; ck := 2 |} (Some {| cl := 3; ck := 1 |}) None PUnknown None (BDeleted 1); BItem {| cl := 3; ck := 3 |} (Some {| cl := 3; ck := 2 |}) None PUnknown None (BDeleted 2); BItem {| cl := 3; ck := 5 |} (Some {| cl := 3; ck := 4 |}) None PUnknown None (BDeleted 2); BSkip {| cl := 3; ck := 7 |} 1; BGC {| cl := 3; ck := 8 |} 1; BItem {| cl := 3; ck := 9 |} (Some {| cl := 3; ck := 8 |}) None PUnknown None (BString [113; 103; 116])]); (2, [BItem {| cl := 2; ck := 0 |} None None (PNamed [116]) None (BString [100]); BItem {| cl := 2; ck := 1 |} (Some {| cl := 2; ck := 0 |}) None PUnknown None (BString [122]); BItem {| cl := 2; ck := 2 |} (Some {| cl := 2; ck := 1 |}) None PUnknown None (BString [116]); BItem {| cl := 2; ck := 3 |} (Some {| cl := 2; ck := 2 |}) None PUnknown None (BDeleted 1); BItem {| cl := 2; ck := 4 |} (Some {| cl := 2; ck := 3 |}) None PUnknown None (BString [108; 106; 99; 102; 102; 105; 113; 102; 118; 105])])]; u_ds := [(3, [(5, 6, tt)])] |}.
Example mrg_case_28_in_0_bytes : mrg_dec [2; 6; 3; 2; 129; 3; 1; 1; 129; 3; 2; 2; 129; 3; 4; 2; 10; 1; 0; 1; 132; 3; 8; 3; 113; 103; 116; 5; 2; 0; 4; 1; 1; 116; 1; 100; 132; 2; 0; 1; 122; 132; 2; 1; 1; 116; 129; 2; 2; 1; 132; 2; 3; 10; 108; 106; 99; 102; 102; 105; 113; 102; 118; 105; 1; 3; 1; 5; 1] = Some mrg_case_28_in_0.
Proof. vm_compute; reflexivity. Qed.
Definition mrg_case_28_in_1 : update := {| u_blocks := [(9, [BItem {| cl := 9; ck := 6 |} (Some {| cl := 9; ck := 5 |}) None PUnknown None (BString [116])]); (3, [BItem {| cl := 3; ck := 0 |} None None (PNamed [116]) None (BDeleted 7); BSkip {| cl := 3; ck := 7 |} 3; BItem {| cl := 3; ck := 10 |} (Some {| cl := 3; ck := 9 |}) None PUnknown None (BString [103]); BItem {| cl := 3; ck := 11 |} (Some {| cl := 3; ck := 10 |}) None PUnknown None (BString [116])]); (2, [BItem {| cl := 2; ck := 0 |} None None (PNamed [116]) None (BString [100; 122; 116]); BSkip {| cl := 2; ck := 3 |} 1; BSkip {| cl := 2; ck := 4 |} 2; BSkip {| cl := 2; ck := 6 |} 3; BItem {| cl := 2; ck := 9 |} (Some {| cl := 2; ck := 8 |}) None PUnknown None (BString [105; 113; 102; 118; 105])])]; u_ds := [(3, [(1, 5, tt)]); (9, [(4, 5, tt)])] |}.
Example mrg_case_28_in_1_bytes : mrg_dec [3; 1; 9; 6; 132; 9; 5; 1; 116; 4; 3; 0; 1; 1; 1; 116; 7; 10; 3; 132; 3; 9; 1; 103; 132; 3; 10; 1; 116; 5; 2; 0; 4; 1; 1; 116; 3; 100; 122; 116; 10; 1; 10; 2; 10; 3; 132; 2; 8; 5; 105; 113; 102; 118; 105; 2; 3; 1; 1; 4; 9; 1; 4; 1] = Some mrg_case_28_in_1.
Proof. vm_compute; reflexivity. Qed.
Definition mrg_case_28_in_2 : update := {| u_blocks := [(9, [BItem {| cl := 9; ck := 6 |} (Some {| cl := 9; ck := 5 |}) None PUnknown None (BString [116])]); (3, [BItem {| cl := 3; ck := 0 |} None None (PNamed [116]) None (BDeleted 2); BItem {| cl := 3; ck := 2 |} (Some {| cl := 3; ck := 1 |}) None PUnknown None (BDeleted 3); BItem {| cl := 3; ck := 5 |} (Some {| cl := 3; ck := 4 |}) None PUnknown None (BDeleted 1); BItem {| cl := 3; ck := 6 |} (Some {| cl := 3; ck := 5 |}) None PUnknown None (BDeleted 1)]); (2, [BItem {| cl := 2; ck := 1 |} (Some {| cl := 2; ck := 0 |}) None PUnknown None (BString [122]); BSkip {| cl := 2; ck := 2 |} 4; BItem {| cl := 2; ck := 6 |} (Some {| cl := 2; ck := 5 |}) None PUnknown None (BString [99; 102; 102]); BItem {| cl := 2; ck := 9 |} (Some {| cl := 2; ck := 8 |}) None PUnknown None (BString [105]); BItem {| cl := 2; ck := 10 |} (Some {| cl := 2; ck := 9 |}) None PUnknown None (BString [113; 102; 118])])]; u_ds := [(2, [(0, 3, tt)])] |}.
Example mrg_case_28_in_2_bytes : mrg_dec [3; 1; 9; 6; 132; 9; 5; 1; 116; 4; 3; 0; 1; 1; 1; 116; 2; 129; 3; 1; 3; 129; 3; 4; 1; 129; 3; 5; 1; 5; 2; 1; 132; 2; 0; 1; 122; 10; 4; 132; 2; 5; 3; 99; 102; 102; 132; 2; 8; 1; 105; 132; 2; 9; 3; 113; 102; 118; 1; 2; 1; 0; 3] = Some mrg_case_28_in_2.
Proof. vm_compute; reflexivity. Qed.
Definition mrg_case_28_in_3 : update := {| u_blocks := [(9, [BGC {| cl := 9; ck := 1 |} 3; BSkip {| cl := 9; ck := 4 |} 2; BItem {| cl := 9; ck := 6 |} (Some {| cl := 9; ck := 5 |}) None PUnknown None (BString [116; 97])]); (3, [BItem {| cl := 3; ck := 3 |} (Some {| cl := 3; ck := 2 |}) None PUnknown None (BDeleted 3)]); (2, [BItem {| cl := 2; ck := 0 |} None None (PNamed [116]) None (BString [100; 122])])]; u_ds := [(9, [(2, 3, tt)])] |}.
Example mrg_case_28_in_3_bytes : mrg_dec [3; 3; 9; 1; 0; 3; 10; 2; 132; 9; 5; 2; 116; 97; 1; 3; 3; 129; 3; 2; 3; 1; 2; 0; 4; 1; 1; 116; 2; 100; 122; 1; 9; 1; 2; 1] = Some mrg_case_28_in_3.
Proof. vm_compute; reflexivity. Qed.
Example mrg_case_28 : mrg_merge_updates [mrg_case_28_in_0; mrg_case_28_in_1; mrg_case_28_in_2; mrg_case_28_in_3] = {| u_blocks := [(9, [BGC {| cl := 9; ck := 1 |} 3; BSkip {| cl := 9; ck := 4 |} 2; BItem {| cl := 9; ck := 6 |} (Some {| cl := 9; ck := 5 |}) None PUnknown None (BString [116; 97])]); (3, [BItem {| cl := 3; ck := 0 |} None None (PNamed [116]) None (BDeleted 2); BItem {| cl := 3; ck := 2 |} (Some {| cl := 3; ck := 1 |}) None PUnknown None (BDeleted 3); BItem {| cl := 3; ck := 5 |} (Some {| cl := 3; ck := 4 |}) None PUnknown None (BDeleted 1); BItem {| cl := 3; ck := 6 |} (Some {| cl := 3; ck := 5 |}) None PUnknown None (BDeleted 1); BSkip {| cl := 3; ck := 7 |} 1; BGC {| cl := 3; ck := 8 |} 1; BItem {| cl := 3; ck := 9 |} (Some {| cl := 3; ck := 8 |}) None PUnknown None (BString [113; 103; 116])]); (2, [BItem {| cl := 2; ck := 0 |} None None (PNamed [116]) None (BString [100; 122; 116]); BItem {| cl := 2; ck := 3 |} (Some {| cl := 2; ck := 2 |}) None PUnknown None (BDeleted 1); BItem {| cl := 2; ck := 4 |} (Some {| cl := 2; ck := 3 |}) None PUnknown None (BString [108; 106; 99; 102; 102; 105; 113; 102; 118; 105])])]; u_ds := [(2, [(0, 3, tt)]); (3, [(1, 6, tt)]); (9, [(2, 3, tt); (4, 5, tt)])] |}.
Proof. vm_compute; reflexivity. Qed.
(* Rust: 0303090100030a0284090502746107030001010174028103010381030401810305010a010001840308037167740302000401017403647a74810202018402030a6c6a6366666971667669030201000303010105090202010401 *)
Example mrg_case_28_bytes : encode_update_v1 (mrg_merge_updates [mrg_case_28_in_0; mrg_case_28_in_1; mrg_case_28_in_2; mrg_case_28_in_3]) = Some [3; 3; 9; 1; 0; 3; 10; 2; 132; 9; 5; 2; 116; 97; 7; 3; 0; 1; 1; 1; 116; 2; 129; 3; 1; 3; 129; 3; 4; 1; 129; 3; 5; 1; 10; 1; 0; 1; 132; 3; 8; 3; 113; 103; 116; 3; 2; 0; 4; 1; 1; 116; 3; 100; 122; 116; 129; 2; 2; 1; 132; 2; 3; 10; 108; 106; 99; 102; 102; 105; 113; 102; 118; 105; 3; 2; 1; 0; 3; 3; 1; 1; 5; 9; 2; 2; 1; 4; 1].
Proof. vm_compute; reflexivity. Qed.

(* ---- case 29: file_w4 ---- *)
Definition mrg_case_29_in_0 : update := {| u_blocks := []; u_ds := [] |}.
Example mrg_case_29_in_0_bytes : mrg_dec [0; 0] = Some mrg_case_29_in_0.
Proof. vm_compute; reflexivity. Qed.
Definition mrg_case_29_in_1 : update := {| u_blocks := [(7, [BItem {| cl := 7; ck := 0 |} None None (PNamed [116]) None (BString [117; 116; 120; 120; 120]); BItem {| cl := 7; ck := 5 |} (Some {| cl := 7; ck := 4 |}) None PUnknown None (BString [113; 103]); BItem {| cl := 7; ck := 7 |} (Some {| cl := 7; ck := 6 |}) None PUnknown None (BString [111])])]; u_ds := [] |}.
Example mrg_case_29_in_1_bytes : mrg_dec [1; 3; 7; 0; 4; 1; 1; 116; 5; 117; 116; 120; 120; 120; 132; 7; 4; 2; 113; 103; 132; 7; 6; 1; 111; 0] = Some mrg_case_29_in_1.
Proof. vm_compute; reflexivity. Qed.
Definition mrg_case_29_in_2 : update := {| u_blocks := []; u_ds := [] |}.
Example mrg_case_29_in_2_bytes : mrg_dec [0; 0] = Some mrg_case_29_in_2.
Proof. vm_compute; reflexivity. Qed.
Definition mrg_case_29_in_3 : update := {| u_blocks := [(7, [BItem {| cl := 7; ck := 0 |} None None (PNamed [116]) None (BString [117; 116])])]; u_ds := [] |}.
Example mrg_case_29_in_3_bytes : mrg_dec [1; 1; 7; 0; 4; 1; 1; 116; 2; 117; 116; 0] = Some mrg_case_29_in_3.
Proof. vm_compute; reflexivity. Qed.
Definition mrg_case_29_in_4 : update := {| u_blocks := [(7, [BItem {| cl := 7; ck := 0 |} None None (PNamed [116]) None (BString [117; 116; 120; 120; 120]); BItem {| cl := 7; ck := 5 |} (Some {| cl := 7; ck := 4 |}) None PUnknown None (BString [113]); BItem {| cl := 7; ck := 6 |} (Some {| cl := 7; ck := 5 |}) None PUnknown None (BString [103; 111])])]; u_ds := [] |}.
Example mrg_case_29_in_4_bytes : mrg_dec [1; 3; 7; 0; 4; 1; 1; 116; 5; 117; 116; 120; 120; 120; 132; 7; 4; 1; 113; 132; 7; 5; 2; 103; 111; 0] = Some mrg_case_29_in_4.
Proof. vm_compute; reflexivity. Qed.
Example mrg_case_29 : mrg_merge_updates [mrg_case_29_in_0; mrg_case_29_in_1; mrg_case_29_in_2; mrg_case_29_in_3; mrg_case_29_in_4] = {| u_blocks := [(7, [BItem {| cl := 7; ck := 0 |} None None (PNamed [116]) None (BString [117; 116; 120; 120; 120]); BItem {| cl := 7; ck := 5 |} (Some {| cl := 7; ck := 4 |}) None PUnknown None (BString [113; 103]); BItem {| cl := 7; ck := 7 |} (Some {| cl := 7; ck := 6 |}) None PUnknown None (BString [111])])]; u_ds := [] |}.
Proof. vm_compute; reflexivity. Qed.
(* Rust: 0103070004010174057574787878840704027167840706016f00 *)
Example mrg_case_29_bytes : encode_update_v1 (mrg_merge_updates [mrg_case_29_in_0; mrg_case_29_in_1; mrg_case_29_in_2; mrg_case_29_in_3; mrg_case_29_in_4]) = Some [1; 3; 7; 0; 4; 1; 1; 116; 5; 117; 116; 120; 120; 120; 132; 7; 4; 2; 113; 103; 132; 7; 6; 1; 111; 0].
Proof. vm_compute; reflexivity. Qed.

(* ---- case 30: file_w5 ---- *)
Definition mrg_case_30_in_0 : update := {| u_blocks := [(9, [BItem {| cl := 9; ck := 3 |} (Some {| cl := 9; ck := 2 |}) None PUnknown None (BDeleted 1); BItem {| cl := 9; ck := 4 |} (Some {| cl := 9; ck := 3 |}) None PUnknown None (BString [110; 99; 108; 99; 118])]); (1, [BItem {| cl := 1; ck := 1 |} (Some {| cl := 1; ck := 0 |}) None PUnknown None (BString [120]); BItem {| cl := 1; ck := 2 |} (Some {| cl := 1; ck := 1 |}) None PUnknown None (BDeleted 8)])]; u_ds := [(1, [(2, 6, tt)]); (9, [(1, 5, tt)])] |}.
Example mrg_case_30_in_0_bytes : mrg_dec [2; 2; 9; 3; 129; 9; 2; 1; 132; 9; 3; 5; 110; 99; 108; 99; 118; 2; 1; 1; 132; 1; 0; 1; 120; 129; 1; 1; 8; 2; 1; 1; 2; 4; 9; 1; 1; 4] = Some mrg_case_30_in_0.
Proof. vm_compute; reflexivity. Qed.
Definition mrg_case_30_in_1 : update := {| u_blocks := [(9, [BItem {| cl := 9; ck := 0 |} None None (PNamed [116]) None (BDeleted 2)]); (3, [BItem {| cl := 3; ck := 0 |} None None (PNamed [116]) None (BString [107])]); (1, [BItem {| cl := 1; ck := 1 |} (Some {| cl := 1; ck := 0 |}) None PUnknown None (BString [120])])]; u_ds := [(3, [(1, 2, tt)])] |}.
Example mrg_case_30_in_1_bytes : mrg_dec [3; 1; 9; 0; 1; 1; 1; 116; 2; 1; 3; 0; 4; 1; 1; 116; 1; 107; 1; 1; 1; 132; 1; 0; 1; 120; 1; 3; 1; 1; 1] = Some mrg_case_30_in_1.
Proof. vm_compute; reflexivity. Qed.
Definition mrg_case_30_in_2 : update := {| u_blocks := [(9, [BItem {| cl := 9; ck := 0 |} None None (PNamed [116]) None (BDeleted 4); BSkip {| cl := 9; ck := 4 |} 2; BSkip {| cl := 9; ck := 6 |} 1; BItem {| cl := 9; ck := 7 |} (Some {| cl := 9; ck := 6 |}) None PUnknown None (BString [99; 118])]); (1, [BItem {| cl := 1; ck := 8 |} (Some {| cl := 1; ck := 7 |}) None PUnknown None (BDeleted 2)])]; u_ds := [] |}.
Example mrg_case_30_in_2_bytes : mrg_dec [2; 4; 9; 0; 1; 1; 1; 116; 4; 10; 2; 10; 1; 132; 9; 6; 2; 99; 118; 1; 1; 8; 129; 1; 7; 2; 0] = Some mrg_case_30_in_2.
Proof. vm_compute; reflexivity. Qed.
Definition mrg_case_30_in_3 : update := {| u_blocks := [(1, [BItem {| cl := 1; ck := 0 |} None None (PNamed [116]) None (BString [116; 120]); BItem {| cl := 1; ck := 2 |} (Some {| cl := 1; ck := 1 |}) None PUnknown None (BDeleted 7); BItem {| cl := 1; ck := 9 |} (Some {| cl := 1; ck := 8 |}) None PUnknown None (BDeleted 1)])]; u_ds := [(3, [(0, 1, tt)])] |}.
Example mrg_case_30_in_3_bytes : mrg_dec [1; 3; 1; 0; 4; 1; 1; 116; 2; 116; 120; 129; 1; 1; 7; 129; 1; 8; 1; 1; 3; 1; 0; 1] = Some mrg_case_30_in_3.
Proof. vm_compute; reflexivity. Qed.
Definition mrg_case_30_in_4 : update := {| u_blocks := [(3, [BItem {| cl := 3; ck := 0 |} None None (PNamed [116]) None (BString [107; 105])]); (1, [BItem {| cl := 1; ck := 0 |} None None (PNamed [116]) None (BString [116])])]; u_ds := [(1, [(1, 2, tt)])] |}.
Example mrg_case_30_in_4_bytes : mrg_dec [2; 1; 3; 0; 4; 1; 1; 116; 2; 107; 105; 1; 1; 0; 4; 1; 1; 116; 1; 116; 1; 1; 1; 1; 1] = Some mrg_case_30_in_4.
Proof. vm_compute; reflexivity. Qed.
Example mrg_case_30 : mrg_merge_updates [mrg_case_30_in_0; mrg_case_30_in_1; mrg_case_30_in_2; mrg_case_30_in_3; mrg_case_30_in_4] = {| u_blocks := [(9, [BItem {| cl := 9; ck := 0 |} None None (PNamed [116]) None (BDeleted 2); BItem {| cl := 9; ck := 2 |} (Some {| cl := 9; ck := 1 |}) None (PNamed [116]) None (BDeleted 2); BItem {| cl := 9; ck := 4 |} (Some {| cl := 9; ck := 3 |}) None PUnknown None (BString [110; 99; 108; 99; 118])]); (3, [BItem {| cl := 3; ck := 0 |} None None (PNamed [116]) None (BString [107]); BItem {| cl := 3; ck := 1 |} (Some {| cl := 3; ck := 0 |}) None (PNamed [116]) None (BString [105])]); (1, [BItem {| cl := 1; ck := 0 |} None None (PNamed [116]) None (BString [116]); BItem {| cl := 1; ck := 1 |} (Some {| cl := 1; ck := 0 |}) None (PNamed [116]) None (BString [120]); BItem {| cl := 1; ck := 2 |} (Some {| cl := 1; ck := 1 |}) None PUnknown None (BDeleted 7); BItem {| cl := 1; ck := 9 |} (Some {| cl := 1; ck := 8 |}) None PUnknown None (BDeleted 1)])]; u_ds := [(1, [(1, 6, tt)]); (3, [(0, 2, tt)]); (9, [(1, 5, tt)])] |}.
Proof. vm_compute; reflexivity. Qed.
(* Rust: 03030900010101740281090102840903056e636c637602030004010174016b84030001690401000401017401748401000178810101078101080103010101050301000209010104 *)
Example mrg_case_30_bytes : encode_update_v1 (mrg_merge_updates [mrg_case_30_in_0; mrg_case_30_in_1; mrg_case_30_in_2; mrg_case_30_in_3; mrg_case_30_in_4]) = Some [3; 3; 9; 0; 1; 1; 1; 116; 2; 129; 9; 1; 2; 132; 9; 3; 5; 110; 99; 108; 99; 118; 2; 3; 0; 4; 1; 1; 116; 1; 107; 132; 3; 0; 1; 105; 4; 1; 0; 4; 1; 1; 116; 1; 116; 132; 1; 0; 1; 120; 129; 1; 1; 7; 129; 1; 8; 1; 3; 1; 1; 1; 5; 3; 1; 0; 2; 9; 1; 1; 4].
Proof. vm_compute; reflexivity. Qed.

(* ---- case 31: file_j3 ---- *)
Definition mrg_case_31_in_0 : update := {| u_blocks := [(2, [BGC {| cl := 2; ck := 2 |} 1; BGC {| cl := 2; ck := 3 |} 1; BItem {| cl := 2; ck := 4 |} (Some {| cl := 2; ck := 3 |}) None PUnknown None (BString [121]); BSkip {| cl := 2; ck := 5 |} 3; BSkip {| cl := 2; ck := 8 |} 1; BGC {| cl := 2; ck := 9 |} 2; BItem {| cl := 2; ck := 11 |} (Some {| cl := 2; ck := 10 |}) None PUnknown None (BDeleted 1); BSkip {| cl := 2; ck := 12 |} 1; BItem {| cl := 2; ck := 13 |} (Some {| cl := 2; ck := 12 |}) None PUnknown None (BDeleted 1)])]; u_ds := [] |}.
Example mrg_case_31_in_0_bytes : mrg_dec [1; 9; 2; 2; 0; 1; 0; 1; 132; 2; 3; 1; 121; 10; 3; 10; 1; 0; 2; 129; 2; 10; 1; 10; 1; 129; 2; 12; 1; 0] = Some mrg_case_31_in_0.
Proof. vm_compute; reflexivity. Qed.
Definition mrg_case_31_in_1 : update := {| u_blocks := [(2, [BItem {| cl := 2; ck := 10 |} (Some {| cl := 2; ck := 9 |}) None PUnknown None (BString [100; 113; 121; 122])])]; u_ds := [] |}.
Example mrg_case_31_in_1_bytes : mrg_dec [1; 1; 2; 10; 132; 2; 9; 4; 100; 113; 121; 122; 0] = Some mrg_case_31_in_1.
Proof. vm_compute; reflexivity. Qed.
Definition mrg_case_31_in_2 : update := {| u_blocks := [(3, [BItem {| cl := 3; ck := 0 |} None None (PNamed [116]) None (BString [121; 101])]); (2, [BItem {| cl := 2; ck := 0 |} None None (PNamed [116]) None (BDeleted 3); BItem {| cl := 2; ck := 3 |} (Some {| cl := 2; ck := 2 |}) None PUnknown None (BString [106; 121; 122; 108; 112]); BItem {| cl := 2; ck := 8 |} (Some {| cl := 2; ck := 7 |}) None PUnknown None (BString [112]); BItem {| cl := 2; ck := 9 |} (Some {| cl := 2; ck := 8 |}) None PUnknown None (BString [101; 100; 113; 121]); BItem {| cl := 2; ck := 13 |} (Some {| cl := 2; ck := 12 |}) None PUnknown None (BDeleted 1)])]; u_ds := [(2, [(0, 2, tt)])] |}.
Example mrg_case_31_in_2_bytes : mrg_dec [2; 1; 3; 0; 4; 1; 1; 116; 2; 121; 101; 5; 2; 0; 1; 1; 1; 116; 3; 132; 2; 2; 5; 106; 121; 122; 108; 112; 132; 2; 7; 1; 112; 132; 2; 8; 4; 101; 100; 113; 121; 129; 2; 12; 1; 1; 2; 1; 0; 2] = Some mrg_case_31_in_2.
Proof. vm_compute; reflexivity. Qed.
Definition mrg_case_31_in_3 : update := {| u_blocks := [(3, [BItem {| cl := 3; ck := 0 |} None None (PNamed [116]) None (BString [121]); BItem {| cl := 3; ck := 1 |} (Some {| cl := 3; ck := 0 |}) None PUnknown None (BString [101; 101; 107; 106]); BItem {| cl := 3; ck := 5 |} (Some {| cl := 3; ck := 4 |}) None PUnknown None (BString [100; 119])]); (2, [BItem {| cl := 2; ck := 0 |} None None (PNamed [116]) None (BDeleted 1); BItem {| cl := 2; ck := 1 |} (Some {| cl := 2; ck := 0 |}) None PUnknown None (BString [117; 97]); BSkip {| cl := 2; ck := 3 |} 2; BSkip {| cl := 2; ck := 5 |} 3; BItem {| cl := 2; ck := 8 |} (Some {| cl := 2; ck := 7 |}) None PUnknown None (BString [112; 101]); BItem {| cl := 2; ck := 10 |} (Some {| cl := 2; ck := 9 |}) None PUnknown None (BString [100; 113; 121]); BItem {| cl := 2; ck := 13 |} (Some {| cl := 2; ck := 12 |}) None PUnknown None (BString [122])])]; u_ds := [] |}.
Example mrg_case_31_in_3_bytes : mrg_dec [2; 3; 3; 0; 4; 1; 1; 116; 1; 121; 132; 3; 0; 4; 101; 101; 107; 106; 132; 3; 4; 2; 100; 119; 7; 2; 0; 1; 1; 1; 116; 1; 132; 2; 0; 2; 117; 97; 10; 2; 10; 3; 132; 2; 7; 2; 112; 101; 132; 2; 9; 3; 100; 113; 121; 132; 2; 12; 1; 122; 0] = Some mrg_case_31_in_3.
Proof. vm_compute; reflexivity. Qed.
Definition mrg_case_31_in_4 : update := {| u_blocks := [(3, [BGC {| cl := 3; ck := 6 |} 1]); (2, [BGC {| cl := 2; ck := 0 |} 3; BItem {| cl := 2; ck := 3 |} (Some {| cl := 2; ck := 2 |}) None PUnknown None (BString [106; 121; 122; 108; 112]); BSkip {| cl := 2; ck := 8 |} 4; BItem {| cl := 2; ck := 12 |} (Some {| cl := 2; ck := 11 |}) None PUnknown None (BString [121; 122])])]; u_ds := [] |}.
Example mrg_case_31_in_4_bytes : mrg_dec [2; 1; 3; 6; 0; 1; 4; 2; 0; 0; 3; 132; 2; 2; 5; 106; 121; 122; 108; 112; 10; 4; 132; 2; 11; 2; 121; 122; 0] = Some mrg_case_31_in_4.
Proof. vm_compute; reflexivity. Qed.
Example mrg_case_31 : mrg_merge_updates [mrg_case_31_in_0; mrg_case_31_in_1; mrg_case_31_in_2; mrg_case_31_in_3; mrg_case_31_in_4] = {| u_blocks := [(3, [BItem {| cl := 3; ck := 0 |} None None (PNamed [116]) None (BString [121; 101]); BItem {| cl := 3; ck := 2 |} (Some {| cl := 3; ck := 1 |}) None PUnknown None (BString [101; 107; 106]); BItem {| cl := 3; ck := 5 |} (Some {| cl := 3; ck := 4 |}) None PUnknown None (BString [100; 119])]); (2, [BGC {| cl := 2; ck := 0 |} 3; BItem {| cl := 2; ck := 3 |} (Some {| cl := 2; ck := 2 |}) None PUnknown None (BString [106; 121; 122; 108; 112]); BItem {| cl := 2; ck := 8 |} (Some {| cl := 2; ck := 7 |}) None PUnknown None (BString [112; 101]); BItem {| cl := 2; ck := 10 |} (Some {| cl := 2; ck := 9 |}) None PUnknown None (BString [100; 113; 121]); BItem {| cl := 2; ck := 13 |} (Some {| cl := 2; ck := 12 |}) None PUnknown None (BString [122])])]; u_ds := [(2, [(0, 2, tt)])] |}.
Proof. vm_compute; reflexivity. Qed.
(* Rust: 020303000401017402796584030103656b6a8403040264770502000003840202056a797a6c708402070270658402090364717984020c017a0102010002 *)
Example mrg_case_31_bytes : encode_update_v1 (mrg_merge_updates [mrg_case_31_in_0; mrg_case_31_in_1; mrg_case_31_in_2; mrg_case_31_in_3; mrg_case_31_in_4]) = Some [2; 3; 3; 0; 4; 1; 1; 116; 2; 121; 101; 132; 3; 1; 3; 101; 107; 106; 132; 3; 4; 2; 100; 119; 5; 2; 0; 0; 3; 132; 2; 2; 5; 106; 121; 122; 108; 112; 132; 2; 7; 2; 112; 101; 132; 2; 9; 3; 100; 113; 121; 132; 2; 12; 1; 122; 1; 2; 1; 0; 2].
Proof. vm_compute; reflexivity. Qed.

(* ---- case 32: file_j6 ---- *)
Definition mrg_case_32_in_0 : update := {| u_blocks := [(1, [BGC {| cl := 1; ck := 0 |} 2])]; u_ds := [(1, [(4, 5, tt)]); (2, [(0, 2, tt)])] |}.
Example mrg_case_32_in_0_bytes : mrg_dec [1; 1; 1; 0; 0; 2; 2; 1; 1; 4; 1; 2; 1; 0; 2] = Some mrg_case_32_in_0.
Proof. vm_compute; reflexivity. Qed.
Example mrg_case_32 : mrg_merge_updates [mrg_case_32_in_0] = {| u_blocks := [(1, [BGC {| cl := 1; ck := 0 |} 2])]; u_ds := [(1, [(4, 5, tt)]); (2, [(0, 2, tt)])] |}.
Proof. vm_compute; reflexivity. Qed.
(* Rust: 010101000002020101040102010002 *)
Example mrg_case_32_bytes : encode_update_v1 (mrg_merge_updates [mrg_case_32_in_0]) = Some [1; 1; 1; 0; 0; 2; 2; 1; 1; 4; 1; 2; 1; 0; 2].
Proof. vm_compute; reflexivity. Qed.

(* ---- case 33: file_j9 ---- *)
Definition mrg_case_33_in_0 : update := {| u_blocks := [(9, [BItem {| cl := 9; ck := 1 |} (Some {| cl := 9; ck := 0 |}) None PUnknown None (BString [114; 121; 102; 105]); BGC {| cl := 9; ck := 5 |} 1]); (2, [BGC {| cl := 2; ck := 0 |} 3; BSkip {| cl := 2; ck := 3 |} 4; BItem {| cl := 2; ck := 7 |} (Some {| cl := 2; ck := 6 |}) None PUnknown None (BString [112])])]; u_ds := [(2, [(5, 6, tt)]); (3, [(1, 5, tt)])] |}.
Example mrg_case_33_in_0_bytes : mrg_dec [2; 2; 9; 1; 132; 9; 0; 4; 114; 121; 102; 105; 0; 1; 3; 2; 0; 0; 3; 10; 4; 132; 2; 6; 1; 112; 2; 2; 1; 5; 1; 3; 1; 1; 4] = Some mrg_case_33_in_0.
Proof. vm_compute; reflexivity. Qed.
Definition mrg_case_33_in_1 : update := {| u_blocks := [(9, [BItem {| cl := 9; ck := 0 |} None None (PNamed [116]) None (BString [101]); BItem {| cl := 9; ck := 1 |} (Some {| cl := 9; ck := 0 |}) None PUnknown None (BString [114]); BGC {| cl := 9; ck := 2 |} 3; BGC {| cl := 9; ck := 5 |} 1]); (2, [BItem {| cl := 2; ck := 7 |} (Some {| cl := 2; ck := 6 |}) None PUnknown None (BDeleted 1)])]; u_ds := [(9, [(4, 7, tt)])] |}.
Example mrg_case_33_in_1_bytes : mrg_dec [2; 4; 9; 0; 4; 1; 1; 116; 1; 101; 132; 9; 0; 1; 114; 0; 3; 0; 1; 1; 2; 7; 129; 2; 6; 1; 1; 9; 1; 4; 3] = Some mrg_case_33_in_1.
Proof. vm_compute; reflexivity. Qed.
Definition mrg_case_33_in_2 : update := {| u_blocks := [(9, [BItem {| cl := 9; ck := 0 |} None None (PNamed [116]) None (BString [101; 114; 121]); BItem {| cl := 9; ck := 3 |} (Some {| cl := 9; ck := 2 |}) None PUnknown None (BString [102])])]; u_ds := [(2, [(4, 8, tt)]); (3, [(0, 2, tt)])] |}.
Example mrg_case_33_in_2_bytes : mrg_dec [1; 2; 9; 0; 4; 1; 1; 116; 3; 101; 114; 121; 132; 9; 2; 1; 102; 2; 2; 1; 4; 4; 3; 1; 0; 2] = Some mrg_case_33_in_2.
Proof. vm_compute; reflexivity. Qed.
Example mrg_case_33 : mrg_merge_updates [mrg_case_33_in_0; mrg_case_33_in_1; mrg_case_33_in_2] = {| u_blocks := [(9, [BItem {| cl := 9; ck := 0 |} None None (PNamed [116]) None (BString [101]); BItem {| cl := 9; ck := 1 |} (Some {| cl := 9; ck := 0 |}) None PUnknown None (BString [114]); BGC {| cl := 9; ck := 2 |} 3; BGC {| cl := 9; ck := 5 |} 1]); (2, [BGC {| cl := 2; ck := 0 |} 3; BSkip {| cl := 2; ck := 3 |} 4; BItem {| cl := 2; ck := 7 |} (Some {| cl := 2; ck := 6 |}) None PUnknown None (BString [112])])]; u_ds := [(2, [(4, 8, tt)]); (3, [(0, 5, tt)]); (9, [(4, 7, tt)])] |}.
Proof. vm_compute; reflexivity. Qed.
(* Rust: 0204090004010174016584090001720003000103020000030a04840206017003020104040301000509010403 *)
Example mrg_case_33_bytes : encode_update_v1 (mrg_merge_updates [mrg_case_33_in_0; mrg_case_33_in_1; mrg_case_33_in_2]) = Some [2; 4; 9; 0; 4; 1; 1; 116; 1; 101; 132; 9; 0; 1; 114; 0; 3; 0; 1; 3; 2; 0; 0; 3; 10; 4; 132; 2; 6; 1; 112; 3; 2; 1; 4; 4; 3; 1; 0; 5; 9; 1; 4; 3].
Proof. vm_compute; reflexivity. Qed.


(* ---- which cases satisfy the hypotheses of the theorems of MergeProofs.v ----
   mrg_wf: the units of overlapping blocks are equal; mrg_wf_norm: equal up to the parent information that the
   wire format leaves out on items with an origin.  Both false: an update of a garbage-collecting replica (GC
   blocks, deleted contents) next to one that still has the items, or arbitrary blocks from the random generator *)
Example mrg_case_0_wf : mrg_wf [mrg_case_0_in_0; mrg_case_0_in_1] = true /\ mrg_wf_norm [mrg_case_0_in_0; mrg_case_0_in_1] = true.   (* gap_build *)
Proof. vm_compute; split; reflexivity. Qed.
Example mrg_case_1_wf : mrg_wf [mrg_case_1_in_0; mrg_case_1_in_1; mrg_case_1_in_2] = true /\ mrg_wf_norm [mrg_case_1_in_0; mrg_case_1_in_1; mrg_case_1_in_2] = true.   (* gap_prefix_filler_abc *)
Proof. vm_compute; split; reflexivity. Qed.
Example mrg_case_2_wf : mrg_wf [mrg_case_2_in_0; mrg_case_2_in_1; mrg_case_2_in_2] = true /\ mrg_wf_norm [mrg_case_2_in_0; mrg_case_2_in_1; mrg_case_2_in_2] = true.   (* gap_prefix_filler_acb *)
Proof. vm_compute; split; reflexivity. Qed.
Example mrg_case_3_wf : mrg_wf [mrg_case_3_in_0; mrg_case_3_in_1; mrg_case_3_in_2] = true /\ mrg_wf_norm [mrg_case_3_in_0; mrg_case_3_in_1; mrg_case_3_in_2] = true.   (* gap_prefix_filler_bac *)
Proof. vm_compute; split; reflexivity. Qed.
Example mrg_case_4_wf : mrg_wf [mrg_case_4_in_0; mrg_case_4_in_1; mrg_case_4_in_2] = true /\ mrg_wf_norm [mrg_case_4_in_0; mrg_case_4_in_1; mrg_case_4_in_2] = true.   (* gap_prefix_filler_bca *)
Proof. vm_compute; split; reflexivity. Qed.
Example mrg_case_5_wf : mrg_wf [mrg_case_5_in_0; mrg_case_5_in_1; mrg_case_5_in_2] = true /\ mrg_wf_norm [mrg_case_5_in_0; mrg_case_5_in_1; mrg_case_5_in_2] = true.   (* gap_prefix_filler_cab *)
Proof. vm_compute; split; reflexivity. Qed.
Example mrg_case_6_wf : mrg_wf [mrg_case_6_in_0; mrg_case_6_in_1; mrg_case_6_in_2] = true /\ mrg_wf_norm [mrg_case_6_in_0; mrg_case_6_in_1; mrg_case_6_in_2] = true.   (* gap_prefix_filler_cba *)
Proof. vm_compute; split; reflexivity. Qed.
Example mrg_case_7_wf : mrg_wf [mrg_case_7_in_0; mrg_case_7_in_1] = true /\ mrg_wf_norm [mrg_case_7_in_0; mrg_case_7_in_1] = true.   (* dup_inc *)
Proof. vm_compute; split; reflexivity. Qed.
Example mrg_case_8_wf : mrg_wf [mrg_case_8_in_0; mrg_case_8_in_1; mrg_case_8_in_2; mrg_case_8_in_3] = true /\ mrg_wf_norm [mrg_case_8_in_0; mrg_case_8_in_1; mrg_case_8_in_2; mrg_case_8_in_3] = true.   (* prefixes_up *)
Proof. vm_compute; split; reflexivity. Qed.
Example mrg_case_9_wf : mrg_wf [mrg_case_9_in_0; mrg_case_9_in_1; mrg_case_9_in_2; mrg_case_9_in_3] = true /\ mrg_wf_norm [mrg_case_9_in_0; mrg_case_9_in_1; mrg_case_9_in_2; mrg_case_9_in_3] = true.   (* prefixes_down *)
Proof. vm_compute; split; reflexivity. Qed.
Example mrg_case_10_wf : mrg_wf [mrg_case_10_in_0; mrg_case_10_in_1; mrg_case_10_in_2; mrg_case_10_in_3] = true /\ mrg_wf_norm [mrg_case_10_in_0; mrg_case_10_in_1; mrg_case_10_in_2; mrg_case_10_in_3] = true.   (* incs_shuffled *)
Proof. vm_compute; split; reflexivity. Qed.
Example mrg_case_11_wf : mrg_wf [mrg_case_11_in_0; mrg_case_11_in_1] = false /\ mrg_wf_norm [mrg_case_11_in_0; mrg_case_11_in_1] = true.   (* prefix5_suffix3 *)
Proof. vm_compute; split; reflexivity. Qed.
Example mrg_case_12_wf : mrg_wf [mrg_case_12_in_0; mrg_case_12_in_1] = false /\ mrg_wf_norm [mrg_case_12_in_0; mrg_case_12_in_1] = true.   (* suffix3_prefix5 *)
Proof. vm_compute; split; reflexivity. Qed.
Example mrg_case_13_wf : mrg_wf [mrg_case_13_in_0; mrg_case_13_in_1] = true /\ mrg_wf_norm [mrg_case_13_in_0; mrg_case_13_in_1] = true.   (* prefix5_suffix6 *)
Proof. vm_compute; split; reflexivity. Qed.
Example mrg_case_14_wf : mrg_wf [mrg_case_14_in_0; mrg_case_14_in_1; mrg_case_14_in_2] = true /\ mrg_wf_norm [mrg_case_14_in_0; mrg_case_14_in_1; mrg_case_14_in_2] = true.   (* suffix6_prefix5_filler *)
Proof. vm_compute; split; reflexivity. Qed.
Example mrg_case_15_wf : mrg_wf [mrg_case_15_in_0; mrg_case_15_in_1] = true /\ mrg_wf_norm [mrg_case_15_in_0; mrg_case_15_in_1] = true.   (* gap_suffix6 *)
Proof. vm_compute; split; reflexivity. Qed.
Example mrg_case_16_wf : mrg_wf [] = true /\ mrg_wf_norm [] = true.   (* none *)
Proof. vm_compute; split; reflexivity. Qed.
Example mrg_case_17_wf : mrg_wf [mrg_case_17_in_0; mrg_case_17_in_1; mrg_case_17_in_2; mrg_case_17_in_3; mrg_case_17_in_4] = true /\ mrg_wf_norm [mrg_case_17_in_0; mrg_case_17_in_1; mrg_case_17_in_2; mrg_case_17_in_3; mrg_case_17_in_4] = true.   (* multi_shuffled *)
Proof. vm_compute; split; reflexivity. Qed.
Example mrg_case_18_wf : mrg_wf [mrg_case_18_in_0; mrg_case_18_in_1; mrg_case_18_in_2] = false /\ mrg_wf_norm [mrg_case_18_in_0; mrg_case_18_in_1; mrg_case_18_in_2] = false.   (* multi_with_full *)
Proof. vm_compute; split; reflexivity. Qed.
Example mrg_case_19_wf : mrg_wf [mrg_case_19_in_0; mrg_case_19_in_1; mrg_case_19_in_2] = true /\ mrg_wf_norm [mrg_case_19_in_0; mrg_case_19_in_1; mrg_case_19_in_2] = true.   (* multi_gappy *)
Proof. vm_compute; split; reflexivity. Qed.
Example mrg_case_20_wf : mrg_wf [mrg_case_20_in_0; mrg_case_20_in_1; mrg_case_20_in_2] = true /\ mrg_wf_norm [mrg_case_20_in_0; mrg_case_20_in_1; mrg_case_20_in_2] = true.   (* multi_nested_rev *)
Proof. vm_compute; split; reflexivity. Qed.
Example mrg_case_21_wf : mrg_wf [mrg_case_21_in_0; mrg_case_21_in_1; mrg_case_21_in_2] = false /\ mrg_wf_norm [mrg_case_21_in_0; mrg_case_21_in_1; mrg_case_21_in_2] = true.   (* multi_diff_mid_rev *)
Proof. vm_compute; split; reflexivity. Qed.
Example mrg_case_22_wf : mrg_wf [mrg_case_22_in_0; mrg_case_22_in_1] = false /\ mrg_wf_norm [mrg_case_22_in_0; mrg_case_22_in_1] = false.   (* gc_then_items *)
Proof. vm_compute; split; reflexivity. Qed.
Example mrg_case_23_wf : mrg_wf [mrg_case_23_in_0; mrg_case_23_in_1] = false /\ mrg_wf_norm [mrg_case_23_in_0; mrg_case_23_in_1] = false.   (* items_then_gc *)
Proof. vm_compute; split; reflexivity. Qed.
Example mrg_case_24_wf : mrg_wf [mrg_case_24_in_0; mrg_case_24_in_1] = true /\ mrg_wf_norm [mrg_case_24_in_0; mrg_case_24_in_1] = true.   (* gc_suffix_overlap2 *)
Proof. vm_compute; split; reflexivity. Qed.
Example mrg_case_25_wf : mrg_wf [mrg_case_25_in_0; mrg_case_25_in_1; mrg_case_25_in_2] = false /\ mrg_wf_norm [mrg_case_25_in_0; mrg_case_25_in_1; mrg_case_25_in_2] = false.   (* incs_with_gc *)
Proof. vm_compute; split; reflexivity. Qed.
Example mrg_case_26_wf : mrg_wf [mrg_case_26_in_0; mrg_case_26_in_1] = false /\ mrg_wf_norm [mrg_case_26_in_0; mrg_case_26_in_1] = false.   (* gc_inc0_suffix *)
Proof. vm_compute; split; reflexivity. Qed.
Example mrg_case_27_wf : mrg_wf [mrg_case_27_in_0; mrg_case_27_in_1; mrg_case_27_in_2] = false /\ mrg_wf_norm [mrg_case_27_in_0; mrg_case_27_in_1; mrg_case_27_in_2] = true.   (* file_w1 *)
Proof. vm_compute; split; reflexivity. Qed.
Example mrg_case_28_wf : mrg_wf [mrg_case_28_in_0; mrg_case_28_in_1; mrg_case_28_in_2; mrg_case_28_in_3] = false /\ mrg_wf_norm [mrg_case_28_in_0; mrg_case_28_in_1; mrg_case_28_in_2; mrg_case_28_in_3] = true.   (* file_w2 *)
Proof. vm_compute; split; reflexivity. Qed.
Example mrg_case_29_wf : mrg_wf [mrg_case_29_in_0; mrg_case_29_in_1; mrg_case_29_in_2; mrg_case_29_in_3; mrg_case_29_in_4] = true /\ mrg_wf_norm [mrg_case_29_in_0; mrg_case_29_in_1; mrg_case_29_in_2; mrg_case_29_in_3; mrg_case_29_in_4] = true.   (* file_w4 *)
Proof. vm_compute; split; reflexivity. Qed.
Example mrg_case_30_wf : mrg_wf [mrg_case_30_in_0; mrg_case_30_in_1; mrg_case_30_in_2; mrg_case_30_in_3; mrg_case_30_in_4] = false /\ mrg_wf_norm [mrg_case_30_in_0; mrg_case_30_in_1; mrg_case_30_in_2; mrg_case_30_in_3; mrg_case_30_in_4] = true.   (* file_w5 *)
Proof. vm_compute; split; reflexivity. Qed.
Example mrg_case_31_wf : mrg_wf [mrg_case_31_in_0; mrg_case_31_in_1; mrg_case_31_in_2; mrg_case_31_in_3; mrg_case_31_in_4] = false /\ mrg_wf_norm [mrg_case_31_in_0; mrg_case_31_in_1; mrg_case_31_in_2; mrg_case_31_in_3; mrg_case_31_in_4] = false.   (* file_j3 *)
Proof. vm_compute; split; reflexivity. Qed.
Example mrg_case_32_wf : mrg_wf [mrg_case_32_in_0] = true /\ mrg_wf_norm [mrg_case_32_in_0] = true.   (* file_j6 *)
Proof. vm_compute; split; reflexivity. Qed.
Example mrg_case_33_wf : mrg_wf [mrg_case_33_in_0; mrg_case_33_in_1; mrg_case_33_in_2] = false /\ mrg_wf_norm [mrg_case_33_in_0; mrg_case_33_in_1; mrg_case_33_in_2] = false.   (* file_j9 *)
Proof. vm_compute; split; reflexivity. Qed.
