(* Concrete cases for Crdt/LinkBlocks.v by vm_compute: non-vacuity of the hypotheses of every theorem of
   LinkBlocksProofs.v, each branch of the transcription at least once, the witnesses of the `_refuted`
   theorems, and the bounded sweeps the statements were tested with before they were proved. *)
From Coq Require Import List NArith Bool Arith.
From YV Require Import Codec.UpdateV1 Crdt.Links.
From YV.Crdt Require Import LinkBlocks.
Import ListNotations.
Open Scope N_scope.

Definition lkb_c_i (c k : N) : id := mkid c k.
(* 1:0..4 live in one block, a tombstone block 2:0..1, then 1:5 *)
Definition lkb_c_st0 : lkb_store :=
  lkb_mks [lkb_mkb (lkb_c_i 1 0) 5 false false; lkb_mkb (lkb_c_i 2 0) 2 true false; lkb_mkb (lkb_c_i 1 5) 1 false false] [] [].
Definition lkb_c_q7 := lkb_mkq 7 (Some (lkb_c_i 1 1, true)) (Some (lkb_c_i 1 3, true)).     (* [1:1, 1:3]: inside one block *)
Definition lkb_c_q5 := lkb_mkq 5 (Some (lkb_c_i 1 2, false)) (Some (lkb_c_i 1 5, false)).   (* (1:2, 1:5): over three blocks *)
Definition lkb_c_q9 := lkb_mkq 9 None None.
Definition lkb_c_get (r : lkb_res lkb_store) : lkb_store := match r with lkb_ok s => s | lkb_fail _ => lkb_c_st0 end.
Definition lkb_c_st1 := lkb_c_get (lkb_link_materialize lkb_c_st0 lkb_c_q7).
Definition lkb_c_st2 := lkb_c_get (lkb_link_materialize lkb_c_st1 lkb_c_q5).
Definition lkb_c_st3 := lkb_c_get (lkb_link_materialize lkb_c_st2 lkb_c_q9).

(* ---------- 1. materialize ---------- *)
Example lkb_c_hyp_materialize :
  lkb_wf_blocks (lkb_blocks lkb_c_st0) = true /\ lkb_inv lkb_c_st0 = true /\
  lk_wf (lk_mk (lkb_units lkb_c_st0) (lkb_qstart lkb_c_q7) (lkb_qend lkb_c_q7) []) = true /\
  lkb_fresh_quote lkb_c_st0 7 = true /\
  lkb_wf_blocks (lkb_blocks lkb_c_st1) = true /\ lkb_inv lkb_c_st1 = true /\
  lk_wf (lk_mk (lkb_units lkb_c_st1) (lkb_qstart lkb_c_q5) (lkb_qend lkb_c_q5) []) = true /\
  lkb_fresh_quote lkb_c_st1 5 = true.
Proof. repeat split; vm_compute; reflexivity. Qed.

(* the block 1:0..4 is split at both bounds (Store::materialize, two splices) *)
Example lkb_c_materialize_inside :
  lkb_link_materialize lkb_c_st0 lkb_c_q7 =
  lkb_ok (lkb_mks [lkb_mkb (lkb_c_i 1 0) 1 false false; lkb_mkb (lkb_c_i 1 1) 3 false true; lkb_mkb (lkb_c_i 1 4) 1 false false;
                   lkb_mkb (lkb_c_i 2 0) 2 true false; lkb_mkb (lkb_c_i 1 5) 1 false false]
                  [(lkb_c_i 1 1, [7])] [lkb_c_q7]).
Proof. vm_compute. reflexivity. Qed.

(* a second quotation over the first: the shared block 1:3 is split off with the first quotation's entry copied,
   the tombstones 2:0..1 are registered, the exclusive end 1:5 is not *)
Example lkb_c_materialize_across :
  lkb_blocks lkb_c_st2 =
    [lkb_mkb (lkb_c_i 1 0) 1 false false; lkb_mkb (lkb_c_i 1 1) 2 false true; lkb_mkb (lkb_c_i 1 3) 1 false true;
     lkb_mkb (lkb_c_i 1 4) 1 false true; lkb_mkb (lkb_c_i 2 0) 2 true true; lkb_mkb (lkb_c_i 1 5) 1 false false] /\
  lkb_linked_by lkb_c_st2 = [(lkb_c_i 2 0, [5]); (lkb_c_i 1 4, [5]); (lkb_c_i 1 3, [5; 7]); (lkb_c_i 1 1, [7])] /\
  lkb_reg lkb_c_st2 7 = [lkb_c_i 1 1; lkb_c_i 1 2; lkb_c_i 1 3] /\
  lkb_reg lkb_c_st2 5 = [lkb_c_i 1 3; lkb_c_i 1 4; lkb_c_i 2 0; lkb_c_i 2 1] /\
  lkb_reg lkb_c_st2 5 = lk_registered (lk_materialize (lk_mk (lkb_units lkb_c_st1) (lkb_qstart lkb_c_q5) (lkb_qend lkb_c_q5) [])) /\
  lkb_inv lkb_c_st2 = true /\ lkb_flag_has_entry lkb_c_st2 = true.
Proof. repeat split; vm_compute; reflexivity. Qed.

(* unbounded quotation: every block, no split *)
Example lkb_c_materialize_unbounded :
  lkb_blocks lkb_c_st3 = map (fun b => lkb_set_linked b true) (lkb_blocks lkb_c_st2) /\
  lkb_reg lkb_c_st3 9 = lk_ids (lkb_units lkb_c_st2).
Proof. split; vm_compute; reflexivity. Qed.

(* start bound that is the last element of its block with Assoc::After: `begin` moves to the next block *)
Example lkb_c_materialize_after_last :
  lkb_reg (lkb_c_get (lkb_link_materialize lkb_c_st1 (lkb_mkq 4 (Some (lkb_c_i 1 0, false)) (Some (lkb_c_i 1 1, true))))) 4
  = [lkb_c_i 1 1].
Proof. vm_compute. reflexivity. Qed.

(* empty last slice (`return None`): (1:0, 1:1) *)
Example lkb_c_materialize_empty :
  lkb_link_materialize lkb_c_st0 (lkb_mkq 4 (Some (lkb_c_i 1 0, false)) (Some (lkb_c_i 1 1, false)))
  = lkb_ok (lkb_mks (lkb_blocks lkb_c_st0) [] [lkb_mkq 4 (Some (lkb_c_i 1 0, false)) (Some (lkb_c_i 1 1, false))]).
Proof. vm_compute. reflexivity. Qed.

(* start bound unknown (collected, or not yet received): early return of LinkSource::materialize *)
Example lkb_c_materialize_unknown_start :
  lkb_linked_by (lkb_c_get (lkb_link_materialize lkb_c_st0 (lkb_mkq 4 (Some (lkb_c_i 9 9, true)) None))) = [].
Proof. vm_compute. reflexivity. Qed.

(* the failure values are reached when lk_wf does not hold (the start after the end):
   ItemSlice::new with start > end, and `offset -= 1` at offset 0 *)
Example lkb_c_materialize_failures :
  lkb_link_materialize lkb_c_st0 (lkb_mkq 7 (Some (lkb_c_i 1 3, true)) (Some (lkb_c_i 1 1, false))) = lkb_fail 3 /\
  lkb_link_materialize lkb_c_st0 (lkb_mkq 7 (Some (lkb_c_i 1 3, false)) (Some (lkb_c_i 1 0, false))) = lkb_fail 2 /\
  lk_wf (lk_mk (lkb_units lkb_c_st0) (Some (lkb_c_i 1 3, true)) (Some (lkb_c_i 1 1, false)) []) = false.
Proof. repeat split; vm_compute; reflexivity. Qed.

(* outside lk_wf the two levels differ: an end bound that is not in the sequence (not received yet) never closes
   RangeIter, every block from the start on is registered; the unit-level model registers nothing *)
Example lkb_c_materialize_end_absent :
  lkb_reg (lkb_c_get (lkb_link_materialize lkb_c_st0 (lkb_mkq 7 (Some (lkb_c_i 1 1, false)) (Some (lkb_c_i 9 9, true))))) 7
    = [lkb_c_i 1 2; lkb_c_i 1 3; lkb_c_i 1 4; lkb_c_i 2 0; lkb_c_i 2 1; lkb_c_i 1 5] /\
  lk_registered (lk_materialize (lk_mk (lkb_units lkb_c_st0) (Some (lkb_c_i 1 1, false)) (Some (lkb_c_i 9 9, true)) [])) = [].
Proof. split; vm_compute; reflexivity. Qed.

(* ---------- 2. split ---------- *)
Example lkb_c_split :
  lkb_split lkb_c_st2 (lkb_c_i 1 1) 1 =
  lkb_ok (lkb_mks [lkb_mkb (lkb_c_i 1 0) 1 false false; lkb_mkb (lkb_c_i 1 1) 1 false true; lkb_mkb (lkb_c_i 1 2) 1 false true;
                   lkb_mkb (lkb_c_i 1 3) 1 false true; lkb_mkb (lkb_c_i 1 4) 1 false true; lkb_mkb (lkb_c_i 2 0) 2 true true;
                   lkb_mkb (lkb_c_i 1 5) 1 false false]
                  ((lkb_c_i 1 2, [7]) :: lkb_linked_by lkb_c_st2) (lkb_quotes lkb_c_st2)) /\
  lkb_unit_regs (lkb_c_get (lkb_split lkb_c_st2 (lkb_c_i 1 1) 1)) = lkb_unit_regs lkb_c_st2 /\
  (* an unflagged block: no entry appears *)
  lkb_linked_by (lkb_c_get (lkb_split lkb_c_st1 (lkb_c_i 2 0) 1)) = lkb_linked_by lkb_c_st1 /\
  (* offset 0: ItemPtr::splice returns None; offset = length: failure; unknown block: nothing *)
  lkb_split lkb_c_st2 (lkb_c_i 1 1) 0 = lkb_ok lkb_c_st2 /\ lkb_split lkb_c_st2 (lkb_c_i 1 1) 2 = lkb_fail 4 /\
  lkb_split lkb_c_st2 (lkb_c_i 8 8) 1 = lkb_ok lkb_c_st2.
Proof. repeat split; vm_compute; reflexivity. Qed.

(* ---------- 3. integrate: the five rules of join_linked_range, the guard ---------- *)
Definition lkb_c_new := lkb_c_i 3 0.
Example lkb_c_integrate_rules :
  (* between 1:1..2 [7] and 1:3 [5; 7]: joins 7 (r1, both neighbours) and 5 (r3: the new block sits right after
     the exclusive start 1:2 of quotation 5) *)
  lkb_regs (lkb_linked_by (lkb_integrate lkb_c_st2 2 lkb_c_new 2 false)) lkb_c_new = [7; 5] /\
  (* between 1:3 [5; 7] and 1:4 [5]: joins 5 (r1), not 7 whose inclusive end is 1:3 *)
  lkb_regs (lkb_linked_by (lkb_integrate lkb_c_st2 3 lkb_c_new 1 false)) lkb_c_new = [5] /\
  (* r2: after the last block of 5 (2:0..1), whose end 1:5 is exclusive: joins 5 *)
  lkb_regs (lkb_linked_by (lkb_integrate lkb_c_st2 5 lkb_c_new 1 false)) lkb_c_new = [5] /\
  (* inclusive start 1:1 of quotation 7: a block in front of it does not join (flag set nevertheless) *)
  lkb_regs (lkb_linked_by (lkb_integrate lkb_c_st2 1 lkb_c_new 1 false)) lkb_c_new = [] /\
  nth_error (lkb_blocks (lkb_integrate lkb_c_st2 1 lkb_c_new 1 false)) 1 = Some (lkb_mkb lkb_c_new 1 false true) /\
  (* r4 / r5: the open ends of the unbounded quotation 9 *)
  lkb_regs (lkb_linked_by (lkb_integrate lkb_c_st3 6 lkb_c_new 1 false)) lkb_c_new = [9] /\
  lkb_regs (lkb_linked_by (lkb_integrate lkb_c_st3 0 lkb_c_new 1 false)) lkb_c_new = [9] /\
  (* guard false: no flagged neighbour (position 0 of st2), and a deleted new block *)
  nth_error (lkb_blocks (lkb_integrate lkb_c_st2 0 lkb_c_new 1 false)) 0 = Some (lkb_mkb lkb_c_new 1 false false) /\
  lkb_integrate lkb_c_st2 3 lkb_c_new 1 true
    = lkb_mks (lk_insert_at 3 (lkb_mkb lkb_c_new 1 true false) (lkb_blocks lkb_c_st2)) (lkb_linked_by lkb_c_st2) (lkb_quotes lkb_c_st2).
Proof. repeat split; vm_compute; reflexivity. Qed.

Example lkb_c_hyp_integrate :
  lkb_op_ok lkb_c_st2 (lkb_op_integrate 2 lkb_c_new 2 false) = true /\
  lkb_find_quote 5 (lkb_quotes lkb_c_st2) = Some lkb_c_q5 /\ lkb_quotes_known lkb_c_st2 = true /\
  (* a clash of ids is what lkb_op_ok excludes *)
  lkb_op_ok lkb_c_st2 (lkb_op_integrate 2 (lkb_c_i 1 4) 2 false) = false.
Proof. repeat split; vm_compute; reflexivity. Qed.

(* ---------- 4. delete ---------- *)
Example lkb_c_delete :
  snd (lkb_delete lkb_c_st2 (lkb_c_i 1 3)) = [5; 7] /\
  lkb_linked_by (fst (lkb_delete lkb_c_st2 (lkb_c_i 1 3))) = [(lkb_c_i 2 0, [5]); (lkb_c_i 1 4, [5]); (lkb_c_i 1 1, [7])] /\
  lk_notify_units (lkb_units lkb_c_st2) (lkb_units (fst (lkb_delete lkb_c_st2 (lkb_c_i 1 3)))) (lkb_reg lkb_c_st2 7)
                  (lkb_qstart lkb_c_q7) (lkb_qend lkb_c_q7) = true /\
  (* an unregistered block, a registered tombstone, an unknown id: nobody is notified, nothing changes in linked_by *)
  snd (lkb_delete lkb_c_st2 (lkb_c_i 1 0)) = [] /\
  lkb_delete lkb_c_st2 (lkb_c_i 2 0) = (lkb_c_st2, []) /\ lkb_delete lkb_c_st2 (lkb_c_i 8 8) = (lkb_c_st2, []) /\
  (* the flag of the deleted block stays *)
  nth_error (lkb_blocks (fst (lkb_delete lkb_c_st2 (lkb_c_i 1 3)))) 2 = Some (lkb_mkb (lkb_c_i 1 3) 1 true true).
Proof. repeat split; vm_compute; reflexivity. Qed.

(* ---------- 5. unlink: two quotations share the block 1:3 ---------- *)
Example lkb_c_unlink :
  lkb_find_quote 7 (lkb_quotes lkb_c_st2) = Some lkb_c_q7 /\
  lkb_reg_after_start lkb_c_st2 7 (lkb_qstart lkb_c_q7) = true /\
  lkb_reg_after_start lkb_c_st2 5 (lkb_qstart lkb_c_q5) = true /\
  lkb_linked_by (lkb_c_get (lkb_unlink_all lkb_c_st2 7)) = [(lkb_c_i 1 3, [5]); (lkb_c_i 2 0, [5]); (lkb_c_i 1 4, [5])] /\
  lkb_reg (lkb_c_get (lkb_unlink_all lkb_c_st2 7)) 5 = lkb_reg lkb_c_st2 5 /\
  lkb_reg (lkb_c_get (lkb_unlink_all lkb_c_st2 7)) 7 = [] /\
  (* the block that was quoted by 7 only loses the flag, the shared block keeps it *)
  map lkb_blinked (lkb_blocks (lkb_c_get (lkb_unlink_all lkb_c_st2 7))) = [false; false; true; true; true; false] /\
  lkb_linked_by (lkb_c_get (lkb_unlink_all lkb_c_st2 5)) = [(lkb_c_i 1 3, [7]); (lkb_c_i 1 1, [7])] /\
  lkb_unlink_all lkb_c_st2 4 = lkb_fail 10.
Proof. repeat split; vm_compute; reflexivity. Qed.

(* the seeded regression (unlink drops the whole entry) would be caught by the second conjunct of lkb_unlink_exact *)
Definition lkb_c_bad_unlink (b : lkb_block) (q : N) (m : lkb_links) : lkb_block * lkb_links :=
  match lkb_get (lkb_bid b) m with
  | Some qs => if lkb_nmem q qs then (lkb_set_linked b false, lkb_del (lkb_bid b) m) else (b, m)
  | None => (b, m)
  end.
Example lkb_c_bad_unlink_caught :
  let (b', m') := lkb_c_bad_unlink (lkb_mkb (lkb_c_i 1 3) 1 false true) 7 (lkb_linked_by lkb_c_st2) in
  lkb_reg_of m' (lkb_blocks lkb_c_st2) 5 <> lkb_reg lkb_c_st2 5.
Proof. vm_compute. discriminate. Qed.

(* ---------- 6. squash, the invariant ---------- *)
Example lkb_c_squash :
  (* 1:4 | 1:5 after quotation 7 only: both unflagged, merged; 1:0 | 1:1: the right one is flagged, refused *)
  lkb_blocks (lkb_squash (lkb_mks [lkb_mkb (lkb_c_i 1 4) 1 false false; lkb_mkb (lkb_c_i 1 5) 1 false false] [] []) true 0)
    = [lkb_mkb (lkb_c_i 1 4) 2 false false] /\
  lkb_squash lkb_c_st1 true 0 = lkb_c_st1 /\
  (* different clients, deleted flags that differ, a gap in the clocks, `compat` false: refused *)
  lkb_squash lkb_c_st0 true 0 = lkb_c_st0 /\ lkb_squash lkb_c_st0 true 1 = lkb_c_st0 /\
  lkb_try_squash true (lkb_mkb (lkb_c_i 1 0) 1 false false) (lkb_mkb (lkb_c_i 1 2) 1 false false) = None /\
  lkb_try_squash false (lkb_mkb (lkb_c_i 1 0) 1 false false) (lkb_mkb (lkb_c_i 1 1) 1 false false) = None.
Proof. repeat split; vm_compute; reflexivity. Qed.

Example lkb_c_run :
  let ops := [lkb_op_quote lkb_c_q7; lkb_op_quote lkb_c_q5; lkb_op_split (lkb_c_i 1 1) 1;
              lkb_op_integrate 3 lkb_c_new 2 false; lkb_op_delete (lkb_c_i 1 3); lkb_op_unlink 7; lkb_op_squash true 0] in
  lkb_run_ok lkb_c_st0 ops = true /\ lkb_inv (lkb_run lkb_c_st0 ops) = true /\
  lkb_wf_blocks (lkb_blocks (lkb_run lkb_c_st0 ops)) = true /\
  lkb_linked_by (lkb_run lkb_c_st0 ops) = [(lkb_c_new, [5]); (lkb_c_i 2 0, [5]); (lkb_c_i 1 4, [5])] /\
  (* the first two blocks were quoted by 7 only: unlinked, unflagged, squashed again *)
  nth_error (lkb_blocks (lkb_run lkb_c_st0 ops)) 0 = Some (lkb_mkb (lkb_c_i 1 0) 2 false false).
Proof. repeat split; vm_compute; reflexivity. Qed.

(* ---------- the witnesses of the `_refuted` theorems of LinkBlocksProofs.v ---------- *)
Definition lkb_c_split_st : lkb_store :=
  lkb_mks [lkb_mkb (lkb_c_i 1 0) 2 false true] [(lkb_c_i 1 0, [7])] [lkb_mkq 7 (Some (lkb_c_i 1 0, true)) (Some (lkb_c_i 1 1, true))].
Example lkb_c_split_old_witness :
  lkb_wf_blocks (lkb_blocks lkb_c_split_st) = true /\ lkb_inv lkb_c_split_st = true /\
  lkb_unit_regs (lkb_c_get (lkb_split_old lkb_c_split_st (lkb_c_i 1 0) 1)) = [(lkb_c_i 1 0, [7]); (lkb_c_i 1 1, [])] /\
  lkb_unit_regs (lkb_c_get (lkb_split lkb_c_split_st (lkb_c_i 1 0) 1)) = [(lkb_c_i 1 0, [7]); (lkb_c_i 1 1, [7])] /\
  snd (lkb_delete (lkb_c_get (lkb_split_old lkb_c_split_st (lkb_c_i 1 0) 1)) (lkb_c_i 1 1)) = [] /\
  snd (lkb_delete (lkb_c_get (lkb_split lkb_c_split_st (lkb_c_i 1 0) 1)) (lkb_c_i 1 1)) = [7].
Proof. repeat split; vm_compute; reflexivity. Qed.

Definition lkb_c_flag_st : lkb_store := lkb_mks [lkb_mkb (lkb_c_i 1 0) 2 false false] [] [].
Definition lkb_c_flag_q := lkb_mkq 7 (Some (lkb_c_i 1 0, true)) (Some (lkb_c_i 1 1, true)).
Example lkb_c_flag_witness_join :
  let ops := [lkb_op_quote lkb_c_flag_q; lkb_op_integrate 1 (lkb_c_i 1 3) 1 false; lkb_op_integrate 2 (lkb_c_i 1 4) 1 false] in
  lkb_run_ok lkb_c_flag_st ops = true /\ lkb_inv (lkb_run lkb_c_flag_st ops) = true /\
  lkb_flag_has_entry (lkb_run lkb_c_flag_st ops) = false /\
  lkb_blocks (lkb_run lkb_c_flag_st ops)
    = [lkb_mkb (lkb_c_i 1 0) 2 false true; lkb_mkb (lkb_c_i 1 3) 1 false true; lkb_mkb (lkb_c_i 1 4) 1 false true] /\
  lkb_linked_by (lkb_run lkb_c_flag_st ops) = [(lkb_c_i 1 0, [7])] /\
  (* 1:3 and 1:4 are consecutive, same client, both live: only the flag keeps them apart *)
  lkb_try_squash true (lkb_mkb (lkb_c_i 1 3) 1 false true) (lkb_mkb (lkb_c_i 1 4) 1 false true) = None /\
  lkb_try_squash true (lkb_mkb (lkb_c_i 1 3) 1 false false) (lkb_mkb (lkb_c_i 1 4) 1 false false)
    = Some (lkb_mkb (lkb_c_i 1 3) 2 false false).
Proof. repeat split; vm_compute; reflexivity. Qed.
Example lkb_c_flag_witness_delete :
  let ops := [lkb_op_quote lkb_c_flag_q; lkb_op_delete (lkb_c_i 1 0)] in
  lkb_run_ok lkb_c_flag_st ops = true /\ lkb_flag_has_entry (lkb_run lkb_c_flag_st ops) = false /\
  lkb_blocks (lkb_run lkb_c_flag_st ops) = [lkb_mkb (lkb_c_i 1 0) 2 true true] /\ lkb_linked_by (lkb_run lkb_c_flag_st ops) = [].
Proof. repeat split; vm_compute; reflexivity. Qed.

(* ====================================================================== *)
(* the bounded sweeps the statements were tested with (tests, not results):
   all block lists of up to k blocks over two clients with the given lengths, live or deleted, all bounds      *)
(* ====================================================================== *)
(* generators *)
Definition lkb_t_shape : Type := (N * N * bool)%type.
Fixpoint lkb_t_clock_of (c : N) (done : list lkb_block) : N :=
  match done with [] => 0 | b :: r => if cl (lkb_bid b) =? c then N.max (ck (lkb_bid b) + lkb_blen b) (lkb_t_clock_of c r) else lkb_t_clock_of c r end.
Fixpoint lkb_t_build (l : list lkb_t_shape) (acc : list lkb_block) : list lkb_block :=
  match l with [] => acc
  | (c, n, d) :: r => lkb_t_build r (acc ++ [lkb_mkb (mkid c (lkb_t_clock_of c acc)) n d false]) end.
Definition lkb_t_shapes1 (lens : list N) : list lkb_t_shape :=
  flat_map (fun c => flat_map (fun n => [(c, n, true); (c, n, false)]) lens) [1; 2].
Fixpoint lkb_t_lists_upto {A} (k : nat) (xs : list A) : list (list A) :=
  match k with O => [[]] | S k' => [] :: flat_map (fun x => map (cons x) (lkb_t_lists_upto k' xs)) xs end.
Definition lkb_t_all_blocks (k : nat) (lens : list N) : list (list lkb_block) :=
  map (fun l => lkb_t_build l []) (lkb_t_lists_upto k (lkb_t_shapes1 lens)).
Definition lkb_t_bounds_of (l : list lkb_block) : list lk_bound :=
  None :: flat_map (fun u => [Some (fst u, true); Some (fst u, false)]) (lkb_units_of l).

Definition lkb_t_ids_eqb (a b : list id) : bool :=
  (Nat.eqb (length a) (length b)) && forallb (fun p => id_eqb (fst p) (snd p)) (combine a b).
Definition lkb_t_units_eqb (a b : list lk_unit) : bool :=
  (Nat.eqb (length a) (length b)) && forallb (fun p => id_eqb (fst (fst p)) (fst (snd p)) && Bool.eqb (snd (fst p)) (snd (snd p))) (combine a b).

Definition lkb_t_unit_init (l : list lkb_block) (s e : lk_bound) : list id :=
  lk_registered (lk_materialize (lk_mk (lkb_units_of l) s e [])).

(* test 1: single quotation on a fresh store *)
Definition lkb_t_t1_one (l : list lkb_block) (s e : lk_bound) : bool :=
  if lk_wf (lk_mk (lkb_units_of l) s e []) then
    match lkb_link_materialize (lkb_mks l [] []) (lkb_mkq 7 s e) with
    | lkb_fail _ => false
    | lkb_ok st' => lkb_t_ids_eqb (lkb_reg st' 7) (lkb_t_unit_init l s e) && lkb_t_units_eqb (lkb_units st') (lkb_units_of l)
                    && lkb_inv st' && lkb_flag_has_entry st' && lkb_wf_blocks (lkb_blocks st')
    end
  else true.
Definition lkb_t_t1 (k : nat) (lens : list N) : bool :=
  forallb (fun l => forallb (fun s => forallb (fun e => lkb_t_t1_one l s e) (lkb_t_bounds_of l)) (lkb_t_bounds_of l)) (lkb_t_all_blocks k lens).
(* test 1b: two quotations *)
Definition lkb_t_regs_eqb (a b : list (id * list N)) : bool :=
  (Nat.eqb (length a) (length b)) &&
  forallb (fun p => id_eqb (fst (fst p)) (fst (snd p)) &&
     forallb (fun q => lkb_nmem q (snd (snd p))) (snd (fst p)) && forallb (fun q => lkb_nmem q (snd (fst p))) (snd (snd p))) (combine a b).
Definition lkb_t_t1b_one (l : list lkb_block) (s1 e1 s e : lk_bound) : bool :=
  if lk_wf (lk_mk (lkb_units_of l) s e []) && lk_wf (lk_mk (lkb_units_of l) s1 e1 []) then
    match lkb_link_materialize (lkb_mks l [] []) (lkb_mkq 5 s1 e1) with
    | lkb_fail _ => false
    | lkb_ok st1 =>
      match lkb_link_materialize st1 (lkb_mkq 7 s e) with
      | lkb_fail _ => false
      | lkb_ok st' => lkb_t_ids_eqb (lkb_reg st' 7) (lkb_t_unit_init l s e) && lkb_t_ids_eqb (lkb_reg st' 5) (lkb_t_unit_init l s1 e1)
                    && lkb_t_units_eqb (lkb_units st') (lkb_units_of l)
                    && lkb_inv st' && lkb_flag_has_entry st' && lkb_wf_blocks (lkb_blocks st')
      end
    end
  else true.
Definition lkb_t_t1b (k : nat) (lens : list N) : bool :=
  forallb (fun l => let bs := lkb_t_bounds_of l in
     forallb (fun s1 => forallb (fun e1 => forallb (fun s => forallb (fun e => lkb_t_t1b_one l s1 e1 s e) bs) bs) bs) bs) (lkb_t_all_blocks k lens).
Definition lkb_t_mem_eqb (univ a b : list id) : bool := forallb (fun x => Bool.eqb (lk_mem x a) (lk_mem x b)) univ.

(* states: two quotations, then possibly one deletion *)
Definition lkb_t_forall_states (k : nat) (lens : list N) (P : lkb_store -> bool) : bool :=
  forallb (fun l => let bs := lkb_t_bounds_of l in
    forallb (fun s1 => forallb (fun e1 =>
      if lk_wf (lk_mk (lkb_units_of l) s1 e1 []) then
      match lkb_link_materialize (lkb_mks l [] []) (lkb_mkq 5 s1 e1) with
      | lkb_fail _ => false
      | lkb_ok st1 =>
          forallb (fun s => forallb (fun e =>
             if lk_wf (lk_mk (lkb_units_of l) s e []) then
             match lkb_link_materialize st1 (lkb_mkq 7 s e) with
             | lkb_fail _ => false
             | lkb_ok st2 => P st2 && forallb (fun b => P (fst (lkb_delete st2 (lkb_bid b)))) (lkb_blocks st2)
             end else true) (firstn 4 bs)) (firstn 5 (rev bs))
      end else true) bs) bs) (lkb_t_all_blocks k lens).

Definition lkb_t_nats_upto (n : nat) : list nat := seq 0 (S n).

Definition lkb_t_t3_one (st : lkb_store) : bool :=
  forallb (fun pos => forallb (fun len => forallb (fun del =>
    let st' := lkb_integrate st pos (mkid 3 0) len del in
    forallb (fun qt =>
      lkb_t_mem_eqb (lk_ids (lkb_units st')) (lkb_reg st' (lkb_qid qt))
        (lk_next_reg_units (lkb_units st) (lkb_units st') (lkb_reg st (lkb_qid qt)) (lkb_qstart qt) (lkb_qend qt)))
      (lkb_quotes st)
    && lkb_inv st' && lkb_wf_blocks (lkb_blocks st'))
    [true; false]) [1; 2]) (lkb_t_nats_upto (length (lkb_blocks st))).
(* delete: per quotation next registered and notification *)
Definition lkb_t_t4_one (st : lkb_store) : bool :=
  forallb (fun b =>
    let '(st', ntf) := lkb_delete st (lkb_bid b) in
    forallb (fun qt =>
      lkb_t_mem_eqb (lk_ids (lkb_units st')) (lkb_reg st' (lkb_qid qt))
        (lk_next_reg_units (lkb_units st) (lkb_units st') (lkb_reg st (lkb_qid qt)) (lkb_qstart qt) (lkb_qend qt))
      && Bool.eqb (lkb_nmem (lkb_qid qt) ntf)
           (lk_notify_units (lkb_units st) (lkb_units st') (lkb_reg st (lkb_qid qt)) (lkb_qstart qt) (lkb_qend qt)))
      (lkb_quotes st)
    && lkb_inv st') (lkb_blocks st).
(* unlink *)
Definition lkb_t_t5_one (st : lkb_store) : bool :=
  forallb (fun q => match lkb_unlink_all st q with
    | lkb_fail _ => false
    | lkb_ok st' => match lkb_reg st' q with [] => true | _ => false end
                    && forallb (fun q' => (q' =? q) || lkb_t_ids_eqb (lkb_reg st' q') (lkb_reg st q')) [5; 7]
                    && lkb_inv st'
    end) [5; 7].
Definition lkb_t_ops_of (st : lkb_store) (c : N) : list lkb_op :=
  map (fun p => lkb_op_integrate p (mkid c 0) 1 false) (lkb_t_nats_upto (length (lkb_blocks st)))
  ++ map (fun b => lkb_op_split (lkb_bid b) 1) (lkb_blocks st)
  ++ map (fun b => lkb_op_delete (lkb_bid b)) (lkb_blocks st)
  ++ [lkb_op_unlink 5].
Definition lkb_t_chk (st : lkb_store) : bool :=
  forallb (fun qt => lkb_reg_after_start st (lkb_qid qt) (lkb_qstart qt)) (lkb_quotes st) && lkb_inv st && lkb_wf_blocks (lkb_blocks st).
Definition lkb_t_t6_one (st : lkb_store) : bool :=
  lkb_t_chk st && forallb (fun o => let st1 := lkb_apply st o in lkb_t_chk st1 &&
     forallb (fun o2 => lkb_t_chk (lkb_apply st1 o2)) (lkb_t_ops_of st1 4)) (lkb_t_ops_of st 3).

Example lkb_t_sweep_materialize : lkb_t_t1 2 [1; 2; 3] = true.
Proof. vm_compute. reflexivity. Qed.
Example lkb_t_sweep_materialize_two : lkb_t_t1b 2 [1; 2] = true.
Proof. vm_compute. reflexivity. Qed.
(* states: two quotations on a list, then possibly one deletion; then integrate / delete / unlink / two more operations *)
Example lkb_t_sweep_integrate : lkb_t_forall_states 1 [1; 2; 3] lkb_t_t3_one = true.
Proof. vm_compute. reflexivity. Qed.
Example lkb_t_sweep_delete : lkb_t_forall_states 2 [1; 2] lkb_t_t4_one = true.
Proof. vm_compute. reflexivity. Qed.
Example lkb_t_sweep_unlink : lkb_t_forall_states 2 [1; 2] lkb_t_t5_one = true.
Proof. vm_compute. reflexivity. Qed.
(* lkb_reg_after_start (the hypothesis of lkb_unlink_exact), lkb_inv, lkb_wf_blocks after two more operations *)
Example lkb_t_sweep_reachable : lkb_t_forall_states 1 [1; 2; 3] lkb_t_t6_one = true.
Proof. vm_compute. reflexivity. Qed.
(* the converse of the invariant fails on these states (after a deletion) *)
Example lkb_t_sweep_flag_has_entry : lkb_t_forall_states 1 [1; 2] lkb_flag_has_entry = false.
Proof. vm_compute. reflexivity. Qed.
