(* Proofs about Blocks.v: splitting and squashing wire-level blocks never changes the unit-level view
   (Crdt/Doc.v units_of_block), they are inverse to each other, and every wire-level condition of
   ItemPtr::try_squash is necessary. *)
From Coq Require Import List NArith ZArith Bool Lia ZifyBool ZifyN ZifyNat.
From YV Require Import Gen.Consts Lib.Bytes Codec.Varint Codec.AnyCodec Codec.IdSetCodec Codec.UpdateV1
  Codec.V2Cols Ids.Ranges Crdt.Doc.
From YV Require Import Codec.V2Proofs.
From YV Require Import Crdt.Blocks.
Import ListNotations.
Open Scope N_scope.

(* ================================================================================================ *)
(* 0. boolean equalities                                                                             *)
(* ================================================================================================ *)

Lemma blk_id_eqb_eq : forall a b, id_eqb a b = true -> a = b.
Proof.
  intros [ca ka] [cb kb] H. unfold id_eqb in H. cbn [cl ck] in H.
  apply andb_prop in H. destruct H as [H1 H2]. apply N.eqb_eq in H1. apply N.eqb_eq in H2. subst. reflexivity.
Qed.
Lemma blk_id_eqb_refl : forall a, id_eqb a a = true.
Proof. intros [c k]. unfold id_eqb. cbn [cl ck]. rewrite !N.eqb_refl. reflexivity. Qed.
Lemma blk_oid_eqb_eq : forall a b, oid_eqb a b = true -> a = b.
Proof. intros [a|] [b|] H; cbn [oid_eqb] in H; try discriminate; [apply blk_id_eqb_eq in H; subst|]; reflexivity. Qed.
Lemma blk_oid_eqb_refl : forall a, oid_eqb a a = true.
Proof. intros [a|]; [apply blk_id_eqb_refl|reflexivity]. Qed.
Lemma blk_bytes_eqb_eq : forall a b, bytes_eqb a b = true -> a = b.
Proof.
  induction a as [|x a IH]; intros [|y b] H; cbn in H; try discriminate; [reflexivity|].
  apply andb_prop in H. destruct H as [H1 H2]. apply N.eqb_eq in H1. subst y. f_equal. apply IH. exact H2.
Qed.
Lemma blk_bytes_eqb_refl : forall a, bytes_eqb a a = true.
Proof. induction a as [|x a IH]; [reflexivity|]. cbn. rewrite N.eqb_refl. exact IH. Qed.
Lemma blk_okey_eqb_eq : forall a b, okey_eqb a b = true -> a = b.
Proof. intros [a|] [b|] H; cbn [okey_eqb] in H; try discriminate; [apply blk_bytes_eqb_eq in H; subst|]; reflexivity. Qed.
Lemma blk_okey_eqb_refl : forall a, okey_eqb a a = true.
Proof. intros [a|]; [apply blk_bytes_eqb_refl|reflexivity]. Qed.
Lemma blk_parent_eqb_eq : forall a b, parent_eqb a b = true -> a = b.
Proof.
  intros [x|x|] [y|y|] H; cbn [parent_eqb] in H; try discriminate; try reflexivity.
  - apply blk_bytes_eqb_eq in H. subst. reflexivity.
  - apply blk_id_eqb_eq in H. subst. reflexivity.
Qed.
Lemma blk_parent_eqb_refl : forall a, parent_eqb a a = true.
Proof. intros [x|x|]; cbn [parent_eqb]; [apply blk_bytes_eqb_refl|apply blk_id_eqb_refl|reflexivity]. Qed.

(* ================================================================================================ *)
(* 1. lists, units_of_item, gc_units                                                                 *)
(* ================================================================================================ *)

Lemma blk_some_inj : forall A (x y : A), Some x = Some y -> x = y.
Proof. intros A x y H. injection H as H. exact H. Qed.

Lemma blk_app_inv_len : forall (A : Type) (a a' b b' : list A),
  length a = length a' -> a ++ b = a' ++ b' -> a = a' /\ b = b'.
Proof.
  induction a as [|x a IH]; intros [|x' a'] b b' Hl H; cbn [length] in Hl; try discriminate.
  - split; [reflexivity|exact H].
  - cbn [app] in H. injection H as Hx Ht. injection Hl as Hl. destruct (IH a' b b' Hl Ht). subst. split; reflexivity.
Qed.

Lemma blk_firstn_app_len : forall (A : Type) (x y : list A), firstn (length x) (x ++ y) = x.
Proof. induction x as [|a x IH]; intro y; [reflexivity|]. cbn [length app firstn]. rewrite IH. reflexivity. Qed.
Lemma blk_skipn_app_len : forall (A : Type) (x y : list A), skipn (length x) (x ++ y) = y.
Proof. induction x as [|a x IH]; intro y; [reflexivity|]. cbn [length app skipn]. apply IH. Qed.

Lemma blk_units_len : forall us c k o ro p ps, length (units_of_item c k o ro p ps us) = length us.
Proof. induction us as [|u us IH]; intros; [reflexivity|]. cbn [units_of_item length]. rewrite IH. reflexivity. Qed.

(* the run starting at position |us1| of an item: its id is clock + |us1| and its origin is the previous unit *)
Lemma blk_units_app : forall us1 us2 c k o ro p ps,
  units_of_item c k o ro p ps (us1 ++ us2) =
  units_of_item c k o ro p ps us1 ++
  units_of_item c (k + N.of_nat (length us1))
    (match us1 with [] => o | _ => Some (mkid c (k + N.of_nat (length us1) - 1)) end) ro p ps us2.
Proof.
  induction us1 as [|u us1 IH]; intros us2 c k o ro p ps.
  - cbn [app units_of_item length]. change (N.of_nat 0) with 0. rewrite N.add_0_r. reflexivity.
  - cbn [app units_of_item]. f_equal. rewrite IH. f_equal.
    replace (k + 1 + N.of_nat (length us1)) with (k + N.of_nat (length (u :: us1))) by (cbn [length]; lia).
    f_equal. destruct us1 as [|u' us1]; [|reflexivity].
    cbn [length]. change (N.of_nat 1) with 1. replace (k + 1 - 1) with k by lia. reflexivity.
Qed.

Lemma blk_gc_units_app : forall n m c k,
  gc_units c k (n + m) = gc_units c k n ++ gc_units c (k + N.of_nat n) m.
Proof.
  induction n as [|n IH]; intros m c k.
  - cbn [Nat.add gc_units app]. change (N.of_nat 0) with 0. rewrite N.add_0_r. reflexivity.
  - cbn [Nat.add gc_units app]. f_equal. rewrite IH. f_equal. f_equal. lia.
Qed.

(* ================================================================================================ *)
(* 2. UTF-8 / UTF-16                                                                                 *)
(* ================================================================================================ *)

Lemma blk_u16_unfold : forall f b0 r,
  utf16_units_fuel (S f) (b0 :: r) =
  if b0 <? 128 then b0 :: utf16_units_fuel f r
  else if b0 <? 192 then utf16_units_fuel f r
  else if b0 <? 224 then
    match r with
    | b1 :: r' => ((b0 mod 32) * 64 + b1 mod 64) :: utf16_units_fuel f r'
    | [] => [b0 mod 32]
    end
  else if b0 <? 240 then
    match r with
    | b1 :: b2 :: r' => ((b0 mod 16) * 4096 + (b1 mod 64) * 64 + b2 mod 64) :: utf16_units_fuel f r'
    | _ => [b0 mod 16]
    end
  else
    match r with
    | b1 :: b2 :: b3 :: r' =>
      let cp := (b0 mod 8) * 262144 + (b1 mod 64) * 4096 + (b2 mod 64) * 64 + b3 mod 64 in
      let v := cp - 65536 in
      (55296 + v / 1024) :: (56320 + v mod 1024) :: utf16_units_fuel f r'
    | _ => [0; 0]
    end.
Proof. reflexivity. Qed.

Lemma blk_u16_fuel_succ : forall f s, (length s <= f)%nat -> utf16_units_fuel (S f) s = utf16_units_fuel f s.
Proof.
  induction f as [|f IH]; intros s Hl.
  - destruct s; [reflexivity|cbn [length] in Hl; lia].
  - destruct s as [|b0 r]; [reflexivity|]. rewrite (blk_u16_unfold (S f)), (blk_u16_unfold f).
    split_cases; try reflexivity; cbv zeta; rewrite IH by (cbn [length] in *; lia); reflexivity.
Qed.

Lemma blk_u16_fuel_ge : forall f s, (length s <= f)%nat -> utf16_units_fuel f s = utf16_units s.
Proof.
  intros f s H. replace f with (length s + (f - length s))%nat by lia. generalize (f - length s)%nat as k.
  induction k as [|k IH]; [rewrite Nat.add_0_r; reflexivity|].
  rewrite Nat.add_succ_r. rewrite blk_u16_fuel_succ by lia. exact IH.
Qed.

(* the fuel-free equation of utf16_units *)
Lemma blk_u16_cons : forall b0 r,
  utf16_units (b0 :: r) =
  if b0 <? 128 then b0 :: utf16_units r
  else if b0 <? 192 then utf16_units r
  else if b0 <? 224 then
    match r with
    | b1 :: r' => ((b0 mod 32) * 64 + b1 mod 64) :: utf16_units r'
    | [] => [b0 mod 32]
    end
  else if b0 <? 240 then
    match r with
    | b1 :: b2 :: r' => ((b0 mod 16) * 4096 + (b1 mod 64) * 64 + b2 mod 64) :: utf16_units r'
    | _ => [b0 mod 16]
    end
  else
    match r with
    | b1 :: b2 :: b3 :: r' =>
      let cp := (b0 mod 8) * 262144 + (b1 mod 64) * 4096 + (b2 mod 64) * 64 + b3 mod 64 in
      let v := cp - 65536 in
      (55296 + v / 1024) :: (56320 + v mod 1024) :: utf16_units r'
    | _ => [0; 0]
    end.
Proof.
  intros b0 r. unfold utf16_units at 1. cbn [length]. rewrite blk_u16_unfold.
  split_cases; try reflexivity; cbv zeta; rewrite blk_u16_fuel_ge by (cbn [length]; lia); reflexivity.
Qed.

Lemma blk_u16_nil : utf16_units [] = [].
Proof. reflexivity. Qed.

Lemma blk_utf16_len_app : forall a b, utf16_len (a ++ b) = utf16_len a + utf16_len b.
Proof.
  induction a as [|x a IH]; intro b; [reflexivity|].
  cbn [app]. rewrite !utf16_len_cons. rewrite IH. lia.
Qed.

Ltac blk_cont_facts :=
  repeat match goal with
  | |- context [cont ?x] =>
      first [ replace (cont x) with true by (unfold cont, in_range in *; lia)
            | replace (cont x) with false by (unfold cont, in_range in *; lia) ]
  end.
Ltac blk_ltb_facts :=
  repeat match goal with
  | |- context [?x <? ?n] =>
      first [ replace (x <? n) with true by (unfold cont, in_range in *; lia)
            | replace (x <? n) with false by (unfold cont, in_range in *; lia) ]
  end.
Ltac blk_rew_hyps :=
  repeat match goal with E : ?c = _ |- context [?c] => rewrite E end.

(* one well-formed char c at the head of a string: everything the later proofs need to know about it *)
Lemma blk_char_decomp : forall b0 rr r', utf8_step (b0 :: rr) = Some r' ->
  exists c, b0 :: rr = c ++ r' /\ utf8_valid c = true /\
    utf16_len c = utf16_len_byte b0 /\ 1 <= utf16_len_byte b0 /\
    N.of_nat (length (utf16_units c)) = utf16_len_byte b0 /\
    (forall t, utf16_units (c ++ t) = utf16_units c ++ utf16_units t) /\
    (forall k t, take16 k (c ++ t) =
       if k =? 0 then ([], c ++ t)
       else (c ++ fst (take16 (k - utf16_len_byte b0) t), snd (take16 (k - utf16_len_byte b0) t))).
Proof.
  intros b0 rr r' H. cbn [utf8_step] in H.
  step_cases H; apply blk_some_inj in H; subst;
  match goal with
  | |- exists c, ?x0 :: ?x1 :: ?x2 :: ?x3 :: ?r = c ++ ?r /\ _ => exists [x0; x1; x2; x3]
  | |- exists c, ?x0 :: ?x1 :: ?x2 :: ?r = c ++ ?r /\ _ => exists [x0; x1; x2]
  | |- exists c, ?x0 :: ?x1 :: ?r = c ++ ?r /\ _ => exists [x0; x1]
  | |- exists c, ?x0 :: ?r = c ++ ?r /\ _ => exists [x0]
  end;
  (split; [reflexivity|]);
  (split; [unfold utf8_valid; cbn [length utf8_valid_fuel]; blk_rew_hyps; reflexivity|]);
  (split; [unfold utf16_len; cbn [fold_left]; unfold utf16_len_byte; blk_ltb_facts; reflexivity|]);
  (split; [unfold utf16_len_byte; blk_ltb_facts; lia|]);
  (split; [rewrite blk_u16_cons; unfold utf16_len_byte; blk_ltb_facts; reflexivity|]);
  (split; [intro t; cbn [app]; rewrite !blk_u16_cons; blk_ltb_facts; reflexivity|]);
  intros k t; cbn [app take16]; blk_cont_facts; destruct (k =? 0); reflexivity.
Qed.

Lemma blk_valid_step : forall b0 r, utf8_valid (b0 :: r) = true ->
  exists r', utf8_step (b0 :: r) = Some r' /\ utf8_valid r' = true /\ (length r' < length (b0 :: r))%nat.
Proof.
  intros b0 r H. unfold utf8_valid in H. cbn [length] in H. rewrite utf8_fuel_step in H.
  destruct (utf8_step (b0 :: r)) as [r'|] eqn:E; [|discriminate].
  pose proof (utf8_step_suffix _ _ E) as Hs. exists r'. split; [reflexivity|]. split; [|exact Hs].
  rewrite utf8_fuel_ge in H by (cbn [length] in Hs; lia). exact H.
Qed.

Lemma blk_u16_app_n : forall n a b, (length a <= n)%nat -> utf8_valid a = true ->
  utf16_units (a ++ b) = utf16_units a ++ utf16_units b.
Proof.
  induction n as [|n IH]; intros a b Hl Ha.
  - destruct a; [reflexivity|cbn [length] in Hl; lia].
  - destruct a as [|b0 r]; [reflexivity|].
    destruct (blk_valid_step _ _ Ha) as [r' [E [Hr' Hlen]]].
    destruct (blk_char_decomp _ _ _ E) as [c [Hc [_ [_ [_ [_ [Happ _]]]]]]].
    rewrite Hc. rewrite <- app_assoc. rewrite !Happ. rewrite IH; [apply app_assoc|cbn [length] in *; lia|exact Hr'].
Qed.
Lemma blk_u16_app : forall a b, utf8_valid a = true -> utf16_units (a ++ b) = utf16_units a ++ utf16_units b.
Proof. intros a b. apply (blk_u16_app_n (length a)). lia. Qed.

Lemma blk_u16_length_n : forall n s, (length s <= n)%nat -> utf8_valid s = true ->
  N.of_nat (length (utf16_units s)) = utf16_len s.
Proof.
  induction n as [|n IH]; intros s Hl Hs.
  - destruct s; [reflexivity|cbn [length] in Hl; lia].
  - destruct s as [|b0 r]; [reflexivity|].
    destruct (blk_valid_step _ _ Hs) as [r' [E [Hr' Hlen]]].
    destruct (blk_char_decomp _ _ _ E) as [c [Hc [_ [Hl16 [_ [Hn [Happ _]]]]]]].
    rewrite Hc. rewrite Happ, app_length, blk_utf16_len_app, Hl16, Nat2N.inj_add, Hn.
    rewrite IH; [reflexivity|cbn [length] in *; lia|exact Hr'].
Qed.
Lemma blk_u16_length : forall s, utf8_valid s = true -> N.of_nat (length (utf16_units s)) = utf16_len s.
Proof. intro s. apply (blk_u16_length_n (length s)). lia. Qed.

(* a valid one byte string is ASCII, so the special case of SplittableString::len is invisible *)
Lemma blk_valid_single : forall b, utf8_valid [b] = true -> b <? 128 = true.
Proof.
  intros b H. unfold utf8_valid in H. cbn [length utf8_valid_fuel] in H.
  repeat match type of H with (if ?c then _ else _) = true => destruct c eqn:? end; try discriminate. reflexivity.
Qed.
Lemma blk_str_len16_valid : forall s, utf8_valid s = true -> str_len16 s = utf16_len s.
Proof.
  intros s H. destruct s as [|b [|b' s]]; try reflexivity.
  apply blk_valid_single in H. unfold str_len16, utf16_len. cbn [fold_left]. unfold utf16_len_byte. rewrite H. reflexivity.
Qed.
Lemma blk_str_units_valid : forall s, utf8_valid s = true -> content_units (BString s) = map UString (utf16_units s).
Proof.
  intros s H. destruct s as [|b [|b' s]]; try reflexivity.
  apply blk_valid_single in H. cbn [content_units]. rewrite blk_u16_cons, H. reflexivity.
Qed.

(* split_str never loses or reorders bytes *)
Lemma blk_take16_app : forall s k, fst (take16 k s) ++ snd (take16 k s) = s.
Proof.
  induction s as [|b s IH]; intro k; [reflexivity|]. cbn [take16].
  destruct (cont b); [cbn [fst snd app]; rewrite IH; reflexivity|].
  destruct (k =? 0); [reflexivity|]. cbn [fst snd app]. rewrite IH. reflexivity.
Qed.

(* on a valid string both halves are valid (split_at is at a char boundary) *)
Lemma blk_take16_valid_n : forall n s k, (length s <= n)%nat -> utf8_valid s = true ->
  utf8_valid (fst (take16 k s)) = true /\ utf8_valid (snd (take16 k s)) = true.
Proof.
  induction n as [|n IH]; intros s k Hl Hs.
  - destruct s; [split; reflexivity|cbn [length] in Hl; lia].
  - destruct s as [|b0 r]; [split; reflexivity|].
    destruct (blk_valid_step _ _ Hs) as [r' [E [Hr' Hlen]]].
    destruct (blk_char_decomp _ _ _ E) as [c [Hc [Hvc [_ [_ [_ [_ Htake]]]]]]].
    rewrite Hc, Htake. destruct (k =? 0).
    + cbn [fst snd]. split; [reflexivity|]. rewrite <- Hc. exact Hs.
    + cbn [fst snd]. destruct (IH r' (k - utf16_len_byte b0)) as [H1 H2]; [cbn [length] in *; lia|exact Hr'|].
      split; [apply utf8_valid_app; assumption|exact H2].
Qed.
Lemma blk_take16_valid : forall s k, utf8_valid s = true ->
  utf8_valid (fst (take16 k s)) = true /\ utf8_valid (snd (take16 k s)) = true.
Proof. intros s k. apply (blk_take16_valid_n (length s)). lia. Qed.

(* ================================================================================================ *)
(* 3. contents                                                                                       *)
(* ================================================================================================ *)

Lemma blk_content_len_units : forall c, blk_content_wf c = true ->
  N.of_nat (length (content_units c)) = content_len c.
Proof.
  intros c H. destruct c; cbn [content_units content_len length]; try reflexivity.
  - rewrite repeat_length. lia.
  - rewrite map_length. reflexivity.
  - cbn [blk_content_wf] in H. change (N.of_nat (length (content_units (BString s))) = str_len16 s).
    rewrite blk_str_units_valid, map_length, blk_u16_length, blk_str_len16_valid by exact H. reflexivity.
  - rewrite map_length. reflexivity.
Qed.

(* splitting: the part that needs no well-formedness *)
Lemma blk_content_split_inv : forall c k c1 c2, k < content_len c ->
  blk_content_split c k = Some (c1, c2) ->
  blk_content_squashable c1 c2 = true /\ blk_content_squash c1 c2 = c /\ content_len c1 = k.
Proof.
  intros c k c1 c2 Hk H. destruct c; cbn [blk_content_split] in H; try discriminate.
  - injection H as <- <-. cbn [blk_content_squashable blk_content_squash content_len] in *.
    repeat split. f_equal. lia.
  - injection H as <- <-. cbn [blk_content_squashable blk_content_squash content_len] in *.
    rewrite firstn_skipn, firstn_length. repeat split; lia.
  - destruct (str_len16 (fst (blk_split_str s k)) =? k) eqn:E; [|discriminate]. injection H as <- <-.
    apply N.eqb_eq in E. unfold blk_split_str in *.
    cbn [blk_content_squashable blk_content_squash]. rewrite blk_take16_app.
    repeat split. exact E.
  - injection H as <- <-. cbn [blk_content_squashable blk_content_squash content_len] in *.
    rewrite firstn_skipn, firstn_length. repeat split; lia.
Qed.

(* splitting: the unit view, for well-formed contents *)
Lemma blk_content_split_units : forall c k c1 c2, blk_content_wf c = true -> k < content_len c ->
  blk_content_split c k = Some (c1, c2) ->
  content_units c = content_units c1 ++ content_units c2 /\
  blk_content_wf c1 = true /\ blk_content_wf c2 = true.
Proof.
  intros c k c1 c2 Hwf Hk H. destruct c; cbn [blk_content_split] in H; try discriminate.
  - injection H as <- <-. cbn [content_units content_len blk_content_wf] in *.
    rewrite <- repeat_app. repeat split. f_equal. lia.
  - injection H as <- <-. cbn [content_units blk_content_wf]. rewrite <- map_app, firstn_skipn. repeat split.
  - destruct (str_len16 (fst (blk_split_str s k)) =? k) eqn:E; [|discriminate]. injection H as <- <-.
    unfold blk_split_str in *. cbn [blk_content_wf] in *.
    destruct (blk_take16_valid s k Hwf) as [H1 H2].
    rewrite !blk_str_units_valid by assumption.
    rewrite <- map_app, <- blk_u16_app by exact H1. rewrite blk_take16_app. repeat split; assumption.
  - injection H as <- <-. cbn [content_units blk_content_wf]. rewrite <- map_app, firstn_skipn. repeat split.
Qed.

Lemma blk_content_squash_units : forall a b, blk_content_wf a = true -> blk_content_wf b = true ->
  blk_content_squashable a b = true ->
  content_units (blk_content_squash a b) = content_units a ++ content_units b /\
  blk_content_wf (blk_content_squash a b) = true.
Proof.
  intros a b Ha Hb H. destruct a, b; cbn [blk_content_squashable] in H; try discriminate;
    cbn [blk_content_squash blk_content_wf] in *.
  - cbn [content_units]. rewrite <- repeat_app. split; [|reflexivity]. f_equal. lia.
  - cbn [content_units]. rewrite map_app. split; reflexivity.
  - pose proof (utf8_valid_app _ _ Ha Hb) as Hab. split; [|exact Hab].
    rewrite !blk_str_units_valid by assumption. rewrite blk_u16_app by exact Ha. apply map_app.
  - cbn [content_units]. rewrite map_app. split; reflexivity.
Qed.

Lemma blk_content_squash_len : forall a b, blk_content_wf a = true -> blk_content_wf b = true ->
  blk_content_squashable a b = true ->
  content_len (blk_content_squash a b) = content_len a + content_len b.
Proof.
  intros a b Ha Hb H.
  destruct (blk_content_squash_units a b Ha Hb H) as [Hu Hw].
  rewrite <- !blk_content_len_units by assumption. rewrite Hu, app_length. lia.
Qed.

(* ================================================================================================ *)
(* 4. Theorem 1: splitting never changes the unit-level view                                          *)
(* ================================================================================================ *)

Lemma blk_split_guard : forall b k l r, blk_split b k = Some (l, r) -> 0 < k /\ k < block_len b.
Proof.
  intros b k l r H. unfold blk_split in H.
  destruct ((0 <? k) && (k <? block_len b)) eqn:G; [|discriminate]. lia.
Qed.

Theorem blk_split_units : forall b k l r, blk_wf b = true ->
  blk_split b k = Some (l, r) -> units_of_block b = units_of_block l ++ units_of_block r.
Proof.
  intros b k l r Hwf H. destruct (blk_split_guard _ _ _ _ H) as [H0 Hk].
  unfold blk_split in H. destruct ((0 <? k) && (k <? block_len b)); [|discriminate].
  destruct b as [i o ro p ps c|i n|i n]; cbn [block_len blk_wf] in *.
  - destruct (blk_content_split c k) as [[c1 c2]|] eqn:E; [|discriminate]. injection H as <- <-.
    destruct (blk_content_split_units _ _ _ _ Hwf Hk E) as [Hu [Hw1 Hw2]].
    destruct (blk_content_split_inv _ _ _ _ Hk E) as [_ [_ Hl1]].
    pose proof (blk_content_len_units c1 Hw1) as Hn. rewrite Hl1 in Hn.
    cbn [units_of_block cl ck]. rewrite Hu, blk_units_app, Hn.
    destruct (content_units c1) as [|u us]; [cbn [length] in Hn; lia|]. reflexivity.
  - injection H as <- <-. cbn [units_of_block cl ck].
    replace (N.to_nat n) with (N.to_nat k + N.to_nat (n - k))%nat by lia.
    rewrite blk_gc_units_app, N2Nat.id. reflexivity.
  - injection H as <- <-. reflexivity.
Qed.

(* what else is true of the halves *)
Theorem blk_split_wf : forall b k l r, blk_wf b = true -> blk_split b k = Some (l, r) ->
  blk_wf l = true /\ blk_wf r = true /\ block_len l = k /\ block_len r = block_len b - k /\
  block_id l = block_id b /\ block_id r = mkid (cl (block_id b)) (ck (block_id b) + k).
Proof.
  intros b k l r Hwf H. destruct (blk_split_guard _ _ _ _ H) as [H0 Hk].
  unfold blk_split in H. destruct ((0 <? k) && (k <? block_len b)); [|discriminate].
  destruct b as [i o ro p ps c|i n|i n]; cbn [block_len blk_wf] in *.
  - destruct (blk_content_split c k) as [[c1 c2]|] eqn:E; [|discriminate]. injection H as <- <-.
    destruct (blk_content_split_units _ _ _ _ Hwf Hk E) as [Hu [Hw1 Hw2]].
    destruct (blk_content_split_inv _ _ _ _ Hk E) as [_ [_ Hl1]].
    cbn [blk_wf block_len block_id cl ck]. repeat split; try assumption.
    rewrite <- (blk_content_len_units c Hwf), <- (blk_content_len_units c2 Hw2), Hu, app_length.
    pose proof (blk_content_len_units c1 Hw1). lia.
  - injection H as <- <-. cbn [blk_wf block_len block_id cl ck]. repeat split.
  - injection H as <- <-. cbn [blk_wf block_len block_id cl ck]. repeat split.
Qed.

(* ================================================================================================ *)
(* 5. Theorem 2: squashing never changes the unit-level view                                          *)
(* ================================================================================================ *)

Lemma blk_item_conditions_inv : forall ia oa roa pa psa ca ib ob rob pb psb cb,
  blk_item_conditions (BItem ia oa roa pa psa ca) (BItem ib ob rob pb psb cb) = true ->
  ib = mkid (cl ia) (ck ia + content_len ca) /\
  ob = Some (mkid (cl ia) (ck ia + content_len ca - 1)) /\ roa = rob /\ pa = pb /\ psa = psb.
Proof.
  intros ia oa roa pa psa ca ib ob rob pb psb cb H. cbn [blk_item_conditions] in H.
  repeat (apply andb_prop in H; let H' := fresh "C" in destruct H as [H H']).
  apply N.eqb_eq in H. apply N.eqb_eq in C3. apply blk_oid_eqb_eq in C2. apply blk_oid_eqb_eq in C1.
  apply blk_parent_eqb_eq in C0. apply blk_okey_eqb_eq in C.
  destruct ib as [cb' kb']. cbn [cl ck] in *. subst. repeat split.
Qed.

Theorem blk_squash_units : forall a b, blk_wf a = true -> blk_wf b = true -> blk_nonempty a = true ->
  blk_can_squash a b = true -> units_of_block (blk_squash a b) = units_of_block a ++ units_of_block b.
Proof.
  intros a b Ha Hb Hne H. unfold blk_nonempty in Hne.
  destruct a as [ia oa roa pa psa ca|ia na|ia na], b as [ib ob rob pb psb cb|ib nb|ib nb];
    cbn [blk_can_squash] in H; try discriminate; cbn [blk_wf block_len] in *.
  - apply andb_prop in H. destruct H as [Hc Hs].
    destruct (blk_item_conditions_inv _ _ _ _ _ _ _ _ _ _ _ _ Hc) as [-> [-> [<- [<- <-]]]].
    destruct (blk_content_squash_units ca cb Ha Hb Hs) as [Hu _].
    pose proof (blk_content_len_units ca Ha) as Hn.
    cbn [blk_squash units_of_block cl ck]. rewrite Hu, blk_units_app, Hn.
    destruct (content_units ca) as [|u us]; [cbn [length] in Hn; lia|]. reflexivity.
  - unfold blk_range_adjacent in H. apply andb_prop in H. destruct H as [H1 H2].
    apply N.eqb_eq in H1. apply N.eqb_eq in H2. cbn [blk_squash units_of_block].
    replace (N.to_nat (na + nb)) with (N.to_nat na + N.to_nat nb)%nat by lia.
    rewrite blk_gc_units_app, N2Nat.id, H1, H2. reflexivity.
  - reflexivity.
Qed.

Theorem blk_squash_wf : forall a b, blk_wf a = true -> blk_wf b = true -> blk_can_squash a b = true ->
  blk_wf (blk_squash a b) = true /\ block_len (blk_squash a b) = block_len a + block_len b /\
  block_id (blk_squash a b) = block_id a.
Proof.
  intros a b Ha Hb H.
  destruct a as [ia oa roa pa psa ca|ia na|ia na], b as [ib ob rob pb psb cb|ib nb|ib nb];
    cbn [blk_can_squash] in H; try discriminate; cbn [blk_wf block_len blk_squash block_id] in *;
    try (repeat split; fail).
  apply andb_prop in H. destruct H as [_ Hs].
  destruct (blk_content_squash_units ca cb Ha Hb Hs) as [_ Hw].
  repeat split; [exact Hw|apply blk_content_squash_len; assumption].
Qed.

(* ================================================================================================ *)
(* 6. Theorem 3: split and squash are inverse to each other                                           *)
(* ================================================================================================ *)

Theorem blk_split_squash : forall b k l r,
  blk_split b k = Some (l, r) -> blk_can_squash l r = true /\ blk_squash l r = b.
Proof.
  intros b k l r H. destruct (blk_split_guard _ _ _ _ H) as [H0 Hk].
  unfold blk_split in H. destruct ((0 <? k) && (k <? block_len b)); [|discriminate].
  destruct b as [i o ro p ps c|i n|i n]; cbn [block_len] in *.
  - destruct (blk_content_split c k) as [[c1 c2]|] eqn:E; [|discriminate]. injection H as <- <-.
    destruct (blk_content_split_inv _ _ _ _ Hk E) as [Hs [Hq Hl1]].
    cbn [blk_can_squash blk_item_conditions blk_squash]. unfold blk_last_id. cbn [block_id block_len cl ck].
    rewrite Hs, Hq, Hl1, !N.eqb_refl, blk_oid_eqb_refl, blk_oid_eqb_refl, blk_parent_eqb_refl, blk_okey_eqb_refl.
    split; reflexivity.
  - injection H as <- <-. cbn [blk_can_squash blk_squash]. unfold blk_range_adjacent. cbn [cl ck].
    rewrite !N.eqb_refl. split; [reflexivity|]. f_equal. lia.
  - injection H as <- <-. cbn [blk_can_squash blk_squash]. unfold blk_range_adjacent. cbn [cl ck].
    rewrite !N.eqb_refl. split; [reflexivity|]. f_equal. lia.
Qed.

Lemma blk_content_squash_split : forall a b, blk_content_wf a = true -> blk_content_wf b = true ->
  blk_content_squashable a b = true ->
  blk_content_split (blk_content_squash a b) (content_len a) = Some (a, b).
Proof.
  intros a b Ha Hb H. destruct a, b; cbn [blk_content_squashable] in H; try discriminate;
    cbn [blk_content_squash blk_content_split content_len blk_content_wf] in *.
  - do 3 f_equal. lia.
  - rewrite Nat2N.id, blk_firstn_app_len, blk_skipn_app_len. reflexivity.
  - unfold blk_split_str. rewrite (blk_str_len16_valid s Ha).
    rewrite take16_app by (apply utf8_valid_head; exact Hb). cbn [fst snd].
    rewrite (blk_str_len16_valid s Ha), N.eqb_refl. reflexivity.
  - rewrite Nat2N.id, blk_firstn_app_len, blk_skipn_app_len. reflexivity.
Qed.

Theorem blk_squash_split : forall a b, blk_wf a = true -> blk_wf b = true ->
  blk_nonempty a = true -> blk_nonempty b = true -> blk_can_squash a b = true ->
  blk_split (blk_squash a b) (block_len a) = Some (a, b).
Proof.
  intros a b Ha Hb Hna Hnb H. unfold blk_nonempty in *.
  destruct (blk_squash_wf a b Ha Hb H) as [_ [Hlen _]].
  unfold blk_split. replace ((0 <? block_len a) && (block_len a <? block_len (blk_squash a b))) with true by lia.
  destruct a as [ia oa roa pa psa ca|ia na|ia na], b as [ib ob rob pb psb cb|ib nb|ib nb];
    cbn [blk_can_squash] in H; try discriminate; cbn [blk_wf block_len blk_squash] in *.
  - apply andb_prop in H. destruct H as [Hc Hs].
    destruct (blk_item_conditions_inv _ _ _ _ _ _ _ _ _ _ _ _ Hc) as [-> [-> [<- [<- <-]]]].
    rewrite blk_content_squash_split by assumption. reflexivity.
  - unfold blk_range_adjacent in H. apply andb_prop in H. destruct H as [H1 H2].
    apply N.eqb_eq in H1. apply N.eqb_eq in H2. destruct ib as [c' k']. cbn [cl ck] in *. subst.
    do 3 f_equal. lia.
  - unfold blk_range_adjacent in H. apply andb_prop in H. destruct H as [H1 H2].
    apply N.eqb_eq in H1. apply N.eqb_eq in H2. destruct ib as [c' k']. cbn [cl ck] in *. subst.
    do 3 f_equal. lia.
Qed.

(* ================================================================================================ *)
(* 7. Theorem 4: every wire-level condition of ItemPtr::try_squash is necessary                       *)
(* ================================================================================================ *)

Definition blk_xcont (x : xop) : option ucontent := match x with XItem o => Some (ocont o) | XGC _ => None end.
Lemma blk_units_conts : forall us c k o ro p ps, map blk_xcont (units_of_item c k o ro p ps us) = map Some us.
Proof. induction us as [|u us IH]; intros; [reflexivity|]. cbn [units_of_item map blk_xcont ocont]. rewrite IH. reflexivity. Qed.
Lemma blk_map_some_inj : forall (A : Type) (l l' : list A), map Some l = map Some l' -> l = l'.
Proof.
  induction l as [|x l IH]; intros [|y l'] H; cbn [map] in H; try discriminate; [reflexivity|].
  injection H as -> H. f_equal. apply IH. exact H.
Qed.
Lemma blk_units_inj : forall us us' c k o ro p ps c' k' o' ro' p' ps',
  units_of_item c k o ro p ps us = units_of_item c' k' o' ro' p' ps' us' -> us = us'.
Proof.
  intros us us' c k o ro p ps c' k' o' ro' p' ps' H. apply (f_equal (map blk_xcont)) in H.
  rewrite !blk_units_conts in H. apply blk_map_some_inj. exact H.
Qed.

Lemma blk_gc_units_not_item : forall n c k o l, gc_units c k n <> XItem o :: l.
Proof. intros [|n] c k o l H; cbn [gc_units] in H; discriminate. Qed.

(* If ANY block x has the concatenated unit view of the item blocks a and b (both with at least one unit) then
   all the wire-level conditions of try_squash hold, and x is a with the two contents joined.  The clock and
   origin conditions are stated with the number of units of a; under blk_wf this is block_len a (see the
   boolean form below). *)
Theorem blk_squash_conditions_necessary :
  forall ia oa roa pa psa ca ib ob rob pb psb cb x,
    content_units ca <> [] -> content_units cb <> [] ->
    units_of_block x =
      units_of_block (BItem ia oa roa pa psa ca) ++ units_of_block (BItem ib ob rob pb psb cb) ->
    let n := N.of_nat (length (content_units ca)) in
    cl ia = cl ib /\                                   (* same client *)
    ck ia + n = ck ib /\                               (* consecutive clocks *)
    ob = Some (mkid (cl ia) (ck ia + n - 1)) /\        (* origin of b = last id of a *)
    roa = rob /\                                       (* equal right origins *)
    pa = pb /\ psa = psb /\                            (* equal parent and parent_sub *)
    exists cx, x = BItem ia oa roa pa psa cx /\ content_units cx = content_units ca ++ content_units cb.
Proof.
  intros ia oa roa pa psa ca ib ob rob pb psb cb x Hna Hnb H n. subst n.
  cbn [units_of_block] in H.
  remember (content_units ca) as usa eqn:Ea. remember (content_units cb) as usb eqn:Eb.
  destruct usa as [|ua usa]; [contradiction|]. destruct usb as [|ub usb]; [contradiction|]. clear Hna Hnb.
  destruct x as [ix ox rox px psx cx|ix nx|ix nx].
  2:{ cbn [units_of_block units_of_item app] in H. apply blk_gc_units_not_item in H. destruct H. }
  2:{ cbn [units_of_block units_of_item app] in H. discriminate H. }
  cbn [units_of_block] in H. remember (content_units cx) as usx eqn:Ex.
  assert (Hlen : length usx = (length (ua :: usa) + length (ub :: usb))%nat).
  { apply (f_equal (@length xop)) in H. rewrite app_length, !blk_units_len in H. exact H. }
  rewrite <- (firstn_skipn (length (ua :: usa)) usx) in H. rewrite blk_units_app in H.
  assert (Hf : length (firstn (length (ua :: usa)) usx) = length (ua :: usa)) by (rewrite firstn_length; lia).
  apply blk_app_inv_len in H; [|rewrite !blk_units_len; exact Hf].
  destruct H as [H1 H2]. rewrite Hf in H2.
  pose proof (blk_units_inj _ _ _ _ _ _ _ _ _ _ _ _ _ _ H1) as Hu1.
  pose proof (blk_units_inj _ _ _ _ _ _ _ _ _ _ _ _ _ _ H2) as Hu2.
  rewrite Hu1 in H1, H2. rewrite Hu2 in H2.
  cbn [units_of_item] in H1, H2. injection H1 as Hc Hk Ho Hro Hp Hps _. injection H2 as Hc2 Hk2 Ho2 Hro2 Hp2 Hps2 _.
  destruct ix as [cx' kx']. destruct ia as [ca' ka']. cbn [cl ck] in *. subst.
  repeat split; try reflexivity; try exact Hk2.
  exists cx. split; [reflexivity|]. rewrite <- (firstn_skipn (length (ua :: usa)) (content_units cx)), Hu1, Hu2. reflexivity.
Qed.

(* kinds of contents and of units: all units of a content have the kind of the content *)
Definition blk_ckind (c : bcontent) : N :=
  match c with
  | BDeleted _ => 0 | BJson _ => 1 | BBinary _ => 2 | BString _ => 3 | BEmbed _ => 4
  | BFormat _ _ => 5 | BType _ => 6 | BAny _ => 7 | BDoc _ _ => 8
  end.
Definition blk_ukind (u : ucontent) : N :=
  match u with
  | UDeleted => 0 | UJson _ => 1 | UBinary _ => 2 | UString _ => 3 | UEmbed _ => 4
  | UFormat _ _ => 5 | UType _ => 6 | UAny _ => 7 | UDoc _ _ => 8
  end.
Lemma blk_units_kind : forall c u, In u (content_units c) -> blk_ukind u = blk_ckind c.
Proof.
  intros c u H. destruct c; cbn [content_units blk_ckind] in *;
    try (destruct H as [<-|[]]; reflexivity).
  - apply repeat_spec in H. subst. reflexivity.
  - apply in_map_iff in H. destruct H as [y [<- _]]. reflexivity.
  - destruct s as [|b [|b' s]]; try (apply in_map_iff in H; destruct H as [y [<- _]]; reflexivity).
    destruct H as [<-|[]]. reflexivity.
  - apply in_map_iff in H. destruct H as [y [<- _]]. reflexivity.
Qed.
Lemma blk_two_units_squashable : forall c, (2 <= length (content_units c))%nat -> blk_content_squashable c c = true.
Proof. intros c H. destruct c; cbn [content_units length] in H; try lia; reflexivity. Qed.
Lemma blk_squashable_kind : forall a b c, blk_ckind a = blk_ckind c -> blk_ckind b = blk_ckind c ->
  blk_content_squashable c c = true -> blk_content_squashable a b = true.
Proof. intros a b c Ha Hb H. destruct c; cbn in H; try discriminate; destruct a; cbn in Ha; try discriminate; destruct b; cbn in Hb; try discriminate; reflexivity. Qed.

(* boolean form: for well-formed non-empty item blocks, a block with the concatenated unit view exists
   exactly when blk_can_squash holds (the content kinds must be squashable too) *)
Theorem blk_squash_conditions_necessary_bool :
  forall ia oa roa pa psa ca ib ob rob pb psb cb x,
    let a := BItem ia oa roa pa psa ca in
    let b := BItem ib ob rob pb psb cb in
    blk_wf a = true -> blk_wf b = true -> blk_nonempty a = true -> blk_nonempty b = true ->
    units_of_block x = units_of_block a ++ units_of_block b ->
    blk_can_squash a b = true /\ units_of_block x = units_of_block (blk_squash a b).
Proof.
  intros ia oa roa pa psa ca ib ob rob pb psb cb x a b Ha Hb Hna Hnb H. subst a b.
  unfold blk_nonempty in *. cbn [blk_wf block_len] in *.
  pose proof (blk_content_len_units ca Ha) as La. pose proof (blk_content_len_units cb Hb) as Lb.
  assert (Na : content_units ca <> []) by (intro E; rewrite E in La; cbn [length] in La; lia).
  assert (Nb : content_units cb <> []) by (intro E; rewrite E in Lb; cbn [length] in Lb; lia).
  pose proof (blk_squash_conditions_necessary _ _ _ _ _ _ _ _ _ _ _ _ _ Na Nb H) as N. cbv zeta in N.
  destruct N as [H1 [H2 [H3 [H4 [H5 [H6 [cx [Hx Hu]]]]]]]]. rewrite La in *.
  assert (Hs : blk_content_squashable ca cb = true).
  { destruct (content_units ca) as [|ua usa] eqn:Ea; [contradiction|].
    destruct (content_units cb) as [|ub usb] eqn:Eb; [contradiction|].
    apply (blk_squashable_kind ca cb cx).
    - rewrite <- (blk_units_kind ca ua) by (rewrite Ea; left; reflexivity).
      apply blk_units_kind. rewrite Hu. left. reflexivity.
    - rewrite <- (blk_units_kind cb ub) by (rewrite Eb; left; reflexivity).
      apply blk_units_kind. rewrite Hu. apply in_or_app. right. left. reflexivity.
    - apply blk_two_units_squashable. rewrite Hu, app_length. cbn [length]. lia. }
  assert (Hc : blk_can_squash (BItem ia oa roa pa psa ca) (BItem ib ob rob pb psb cb) = true).
  { cbn [blk_can_squash blk_item_conditions]. unfold blk_last_id. cbn [block_id block_len].
    subst. rewrite H1, H2, !N.eqb_refl, blk_oid_eqb_refl, blk_oid_eqb_refl, blk_parent_eqb_refl, blk_okey_eqb_refl, Hs.
    reflexivity. }
  split; [exact Hc|]. rewrite H. symmetry. apply blk_squash_units; try assumption.
Qed.

(* the same in the vocabulary of try_squash (block_len, last id), for a well-formed left block *)
Corollary blk_squash_conditions_necessary_len :
  forall ia oa roa pa psa ca ib ob rob pb psb cb,
    let a := BItem ia oa roa pa psa ca in
    let b := BItem ib ob rob pb psb cb in
    blk_wf a = true -> blk_nonempty a = true -> content_units cb <> [] ->
    (exists x, units_of_block x = units_of_block a ++ units_of_block b) ->
    cl ia = cl ib /\ ck ia + block_len a = ck ib /\ ob = Some (blk_last_id a) /\
    roa = rob /\ pa = pb /\ psa = psb.
Proof.
  intros ia oa roa pa psa ca ib ob rob pb psb cb a b Ha Hna Nb [x H]. subst a b.
  unfold blk_nonempty in *. cbn [blk_wf block_len] in *.
  pose proof (blk_content_len_units ca Ha) as La.
  assert (Na : content_units ca <> []) by (intro E; rewrite E in La; cbn [length] in La; lia).
  pose proof (blk_squash_conditions_necessary _ _ _ _ _ _ _ _ _ _ _ _ _ Na Nb H) as N. cbv zeta in N.
  rewrite La in N. destruct N as [H1 [H2 [H3 [H4 [H5 [H6 _]]]]]].
  unfold blk_last_id. cbn [block_id block_len]. repeat split; assumption.
Qed.

(* ================================================================================================ *)
(* 8. Examples                                                                                       *)
(* ================================================================================================ *)

Definition blk_rorigins (l : list xop) : list (option id) :=
  map (fun x => match x with XItem o => ororigin o | XGC _ => None end) l.
Definition blk_origins (l : list xop) : list (option id) :=
  map (fun x => match x with XItem o => oorigin o | XGC _ => None end) l.

(* two runs "ab" / "cd" that differ only in their right origin (2:5 vs 2:7): every other condition holds *)
Definition blk_ex_ro_a : block := BItem (mkid 1 0) None (Some (mkid 2 5)) (PNamed [116]) None (BString [97; 98]).
Definition blk_ex_ro_b : block := BItem (mkid 1 2) (Some (mkid 1 1)) (Some (mkid 2 7)) (PNamed [116]) None (BString [99; 100]).

Example blk_ex_ro_rejected : blk_can_squash blk_ex_ro_a blk_ex_ro_b = false.
Proof. vm_compute. reflexivity. Qed.
(* merging them anyway loses the right origin of the second run *)
Example blk_ex_ro_lost :
  blk_rorigins (units_of_block blk_ex_ro_a ++ units_of_block blk_ex_ro_b)
    = [Some (mkid 2 5); Some (mkid 2 5); Some (mkid 2 7); Some (mkid 2 7)] /\
  blk_rorigins (units_of_block (blk_squash blk_ex_ro_a blk_ex_ro_b))
    = [Some (mkid 2 5); Some (mkid 2 5); Some (mkid 2 5); Some (mkid 2 5)] /\
  units_of_block (blk_squash blk_ex_ro_a blk_ex_ro_b) <> units_of_block blk_ex_ro_a ++ units_of_block blk_ex_ro_b.
Proof. vm_compute. repeat split. intro H. discriminate H. Qed.
(* and no block at all has the concatenated unit view *)
Example blk_ex_ro_no_block :
  ~ exists x, units_of_block x = units_of_block blk_ex_ro_a ++ units_of_block blk_ex_ro_b.
Proof.
  intros [x H]. unfold blk_ex_ro_a, blk_ex_ro_b in H.
  apply blk_squash_conditions_necessary in H; [|vm_compute; discriminate|vm_compute; discriminate].
  destruct H as [_ [_ [_ [H _]]]]. discriminate H.
Qed.

(* "a€😀b": 9 bytes, 5 UTF-16 units (the emoji is a surrogate pair) *)
Definition blk_ex_str : block :=
  BItem (mkid 7 10) (Some (mkid 3 4)) (Some (mkid 3 5)) (PNamed [116]) None
        (BString [97; 226; 130; 172; 240; 159; 152; 128; 98]).
Example blk_ex_str_units :
  blk_wf blk_ex_str = true /\ block_len blk_ex_str = 5 /\
  map blk_xcont (units_of_block blk_ex_str) =
    [Some (UString 97); Some (UString 8364); Some (UString 55357); Some (UString 56832); Some (UString 98)] /\
  map xid (units_of_block blk_ex_str) = [mkid 7 10; mkid 7 11; mkid 7 12; mkid 7 13; mkid 7 14] /\
  blk_origins (units_of_block blk_ex_str) =
    [Some (mkid 3 4); Some (mkid 7 10); Some (mkid 7 11); Some (mkid 7 12); Some (mkid 7 13)].
Proof. vm_compute. repeat split. Qed.
Example blk_ex_str_split :
  let l := BItem (mkid 7 10) (Some (mkid 3 4)) (Some (mkid 3 5)) (PNamed [116]) None (BString [97; 226; 130; 172]) in
  let r := BItem (mkid 7 12) (Some (mkid 7 11)) (Some (mkid 3 5)) (PNamed [116]) None (BString [240; 159; 152; 128; 98]) in
  blk_split blk_ex_str 2 = Some (l, r) /\
  blk_wf l = true /\ blk_wf r = true /\ blk_nonempty l = true /\ blk_nonempty r = true /\
  blk_can_squash l r = true /\ blk_squash l r = blk_ex_str /\
  blk_split (blk_squash l r) (block_len l) = Some (l, r) /\
  units_of_block blk_ex_str = units_of_block l ++ units_of_block r.
Proof. vm_compute. repeat split. Qed.
(* offset 3 is between the two code units of the emoji: split_str rounds the byte offset up to the end of the
   char, the left half keeps both code units (the Rust item then has len = 3 but 4 units of content, and the
   right half len = 2 but 1 unit); blk_split excludes the case *)
Example blk_split_str_inside_pair :
  blk_split_str [97; 226; 130; 172; 240; 159; 152; 128; 98] 3 = ([97; 226; 130; 172; 240; 159; 152; 128], [98]) /\
  str_len16 [97; 226; 130; 172; 240; 159; 152; 128] = 4 /\
  blk_split blk_ex_str 3 = None /\
  (* a lone emoji split at 1: everything stays left, the right half is the empty string *)
  blk_split_str [240; 159; 152; 128] 1 = ([240; 159; 152; 128], []).
Proof. vm_compute. repeat split. Qed.

Definition blk_ex_json : block :=
  BItem (mkid 2 0) None None (PId (mkid 9 9)) None (BJson [[49]; [50; 50]; [51]]).
Example blk_ex_json_split :
  let l := BItem (mkid 2 0) None None (PId (mkid 9 9)) None (BJson [[49]]) in
  let r := BItem (mkid 2 1) (Some (mkid 2 0)) None (PId (mkid 9 9)) None (BJson [[50; 50]; [51]]) in
  blk_wf blk_ex_json = true /\ blk_split blk_ex_json 1 = Some (l, r) /\
  blk_nonempty l = true /\ blk_nonempty r = true /\
  blk_can_squash l r = true /\ blk_squash l r = blk_ex_json /\
  blk_split (blk_squash l r) (block_len l) = Some (l, r) /\
  units_of_block blk_ex_json = units_of_block l ++ units_of_block r.
Proof. vm_compute. repeat split. Qed.

Definition blk_ex_del : block :=
  BItem (mkid 2 30) (Some (mkid 2 29)) (Some (mkid 1 0)) PUnknown (Some [107]) (BDeleted 5).
Example blk_ex_del_split :
  let l := BItem (mkid 2 30) (Some (mkid 2 29)) (Some (mkid 1 0)) PUnknown (Some [107]) (BDeleted 2) in
  let r := BItem (mkid 2 32) (Some (mkid 2 31)) (Some (mkid 1 0)) PUnknown (Some [107]) (BDeleted 3) in
  blk_wf blk_ex_del = true /\ blk_split blk_ex_del 2 = Some (l, r) /\
  blk_nonempty l = true /\ blk_nonempty r = true /\
  blk_can_squash l r = true /\ blk_squash l r = blk_ex_del /\
  blk_split (blk_squash l r) (block_len l) = Some (l, r) /\
  units_of_block blk_ex_del = units_of_block l ++ units_of_block r.
Proof. vm_compute. repeat split. Qed.

Definition blk_ex_gc : block := BGC (mkid 4 100) 6.
Example blk_ex_gc_split :
  let l := BGC (mkid 4 100) 4 in
  let r := BGC (mkid 4 104) 2 in
  blk_wf blk_ex_gc = true /\ blk_split blk_ex_gc 4 = Some (l, r) /\
  blk_nonempty l = true /\ blk_nonempty r = true /\
  blk_can_squash l r = true /\ blk_squash l r = blk_ex_gc /\
  blk_split (blk_squash l r) (block_len l) = Some (l, r) /\
  units_of_block blk_ex_gc = units_of_block l ++ units_of_block r /\
  length (units_of_block blk_ex_gc) = 6%nat.
Proof. vm_compute. repeat split. Qed.

(* an Any block next to a Binary block: contents of a kind that cannot be merged *)
Example blk_ex_kinds :
  blk_can_squash (BItem (mkid 1 0) None None (PNamed [97]) None (BBinary [1]))
                 (BItem (mkid 1 1) (Some (mkid 1 0)) None (PNamed [97]) None (BBinary [2])) = false /\
  blk_can_squash (BItem (mkid 1 0) None None (PNamed [97]) None (BAny [ANull]))
                 (BItem (mkid 1 1) (Some (mkid 1 0)) None (PNamed [97]) None (BAny [AUndefined; ANull])) = true.
Proof. vm_compute. split; reflexivity. Qed.

(* ---- refutations of the statements without their hypotheses ---- *)

(* Theorem 1 without blk_wf: on bytes that are not UTF-8 the UTF-16 length (byte classes) and the decoded units
   disagree; a truncated 3-byte lead followed by two ASCII bytes has "length" 3 but decodes to one unit *)
Example blk_split_units_nowf_refuted :
  let b := BItem (mkid 1 0) None None (PNamed [116]) None (BString [226; 97; 97]) in
  blk_wf b = false /\
  exists l r, blk_split b 1 = Some (l, r) /\ units_of_block b <> units_of_block l ++ units_of_block r.
Proof. cbv zeta. split; [vm_compute; reflexivity|]. eexists. eexists. split; [vm_compute; reflexivity|]. vm_compute. intro H. discriminate H. Qed.

(* Theorem 2 without blk_nonempty a: an empty left block passes every test of try_squash (Item::new never
   creates one) but the merged block takes its origin from the empty block *)
Example blk_squash_units_empty_refuted :
  let a := BItem (mkid 1 5) None None (PNamed [116]) None (BDeleted 0) in
  let b := BItem (mkid 1 5) (Some (mkid 1 4)) None (PNamed [116]) None (BDeleted 2) in
  blk_wf a = true /\ blk_wf b = true /\ blk_can_squash a b = true /\
  units_of_block (blk_squash a b) <> units_of_block a ++ units_of_block b.
Proof. vm_compute. repeat split. intro H. discriminate H. Qed.

(* Block::try_squash on two GC (or Skip) ranges performs no test at all: on ranges that are not adjacent the
   merged range covers other clocks than the two ranges did *)
Example blk_range_merge_unchecked_refuted :
  let a := BGC (mkid 1 0) 2 in
  let b := BGC (mkid 1 5) 3 in
  blk_rs_accepts a b = true /\ blk_can_squash a b = false /\
  map xid (units_of_block (blk_squash a b)) = [mkid 1 0; mkid 1 1; mkid 1 2; mkid 1 3; mkid 1 4] /\
  map xid (units_of_block a ++ units_of_block b) = [mkid 1 0; mkid 1 1; mkid 1 5; mkid 1 6; mkid 1 7].
Proof. vm_compute. repeat split. Qed.

(* ================================================================================================ *)
Print Assumptions blk_split_units.
Print Assumptions blk_split_wf.
Print Assumptions blk_squash_units.
Print Assumptions blk_squash_wf.
Print Assumptions blk_split_squash.
Print Assumptions blk_squash_split.
Print Assumptions blk_squash_conditions_necessary.
Print Assumptions blk_squash_conditions_necessary_len.
Print Assumptions blk_squash_conditions_necessary_bool.
Print Assumptions blk_ex_ro_lost.
Print Assumptions blk_ex_ro_no_block.
Print Assumptions blk_ex_str_split.
Print Assumptions blk_split_str_inside_pair.
Print Assumptions blk_ex_json_split.
Print Assumptions blk_ex_del_split.
Print Assumptions blk_ex_gc_split.
Print Assumptions blk_split_units_nowf_refuted.
Print Assumptions blk_squash_units_empty_refuted.
Print Assumptions blk_range_merge_unchecked_refuted.
