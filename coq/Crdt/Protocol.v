(* The y-sync PROTOCOL of yrs (cargo feature `sync`): how a peer answers each message.
   DEFINITIONS ONLY (theorems: ProtocolProofs.v, concrete cases: ProtocolCases.v).

   Transcribed code (worktree of /repo at 2545c99):

     yrs/src/sync/protocol.rs
       Protocol::start                      -> prt_start      (SyncStep1(state vector) then Awareness(update()); the
                                                               awareness update is computed with `?`: on Err nothing
                                                               is sent)
       Protocol::handle (MessageReader loop)-> prt_handle_buf (one buffer = several messages; EndOfBuffer ends the
                                                               loop SILENTLY, any other decoding error or a handler
                                                               error aborts with `?` - the replies collected so far
                                                               are dropped, the state changes made so far stay)
       Protocol::handle_message             -> prt_handle     (dispatch on the message kind)
       Protocol::handle_sync_step1          -> prt_handle, case MSync (SyncStep1 v): reply
                                               SyncStep2(encode_state_as_update_v1(sv)); no state change
       Protocol::handle_sync_step2          -> prt_handle_update (Update::decode_v1 `?`, then apply_update `?`)
       Protocol::handle_update              -> the same function (it calls handle_sync_step2)
       Protocol::handle_auth                -> case MAuth: Some reason = Err(PermissionDenied), None = Ok(None)
       Protocol::handle_awareness_query     -> case MAwarenessQuery: reply Awareness(awareness.update()?)
       Protocol::handle_awareness_update    -> case MAwareness: awareness.apply_update(update)?
       Protocol::missing_handle             -> case MCustom: Err(Unsupported(tag))
       (AsyncProtocol has the same bodies; its `start` computes the awareness update BEFORE the state vector:
        same two messages.)
     yrs/src/transaction.rs
       ReadTxn::encode_state_as_update_v1 / merge_pending_v1
                                            -> prt_state_as_update: blocks from the received vector
                                               (write_blocks_from) ++ the WHOLE pending update (store.pending, NOT
                                               filtered by the vector), delete set = IdSet::from_store (ALL deleted
                                               ids, whatever the vector) ++ store.pending_ds.
                                               `merge_updates_v1(merge).unwrap()` and the block encoder's panics
                                               (TypePtr::Unknown) are the value None of [prt_enc] -> PrtPanic.
       ReadTxn::state_vector                -> prt_sv_of
       TransactionMut::apply_update         -> prt_apply_update
     yrs/src/sync/awareness.rs
       Awareness::update                    -> prt_aw_update       (clients whose data is not None)
       Awareness::update_with_clients       -> prt_aw_update_with  (Err(ClientNotFound) = None; null data is
                                                                    written as the string "null")
       Awareness::apply_update / apply_update_internal
                                            -> prt_aw_apply over OpSet/Awareness.v [apply_entry] (REUSED), with
                                               the conversion of wire entries [prt_aw_of_wire] ("null" = removal)
                                               and the u32 overflow of `clock += 1` as explicit failure
       Awareness::remove_state / clean_local_state / set_local_state_raw
                                            -> OpSet/Awareness.v [remove_state], [set_local] (REUSED);
                                               prt_clean_local_state = remove_state on the own client id
     Message / SyncMessage, tags, codec     -> Codec/Messages.v [message], [decode_message], [encode_message] (REUSED)

   The document side of a peer is the op-set model of Crdt/Doc.v + Crdt/SyncProofs.v: the integrated document
   [doc] (built by [deliver]), the pending stash, the pending delete set, and the ghost pool "every operation ever
   delivered" of SyncProofs ([known d pool] = the content of the block store, [diff] = write_blocks_from at unit
   level, [SyncProofs.sv] = get_state_vector: the first gap).

   WHERE THE MODEL IS MORE ABSTRACT THAN THE CODE
   1. Update payloads.  The bytes of SyncStep2 / Update are produced and read through a [prt_codec] (a record
      passed to every function): [prt_enc] : structured update -> option bytes (None = the encoder panics),
      [prt_dec] : bytes -> option structured update (None = Update::decode_v1 fails).  A structured update is a
      list of unit operations [xop] and a delete set given as a list of ids (points, not ranges).  The real decoder
      is available as [prt_dec_v1] (Codec/UpdateV1.v decode_update_v1, then Doc.v units_of_update / ds_points).
      The block-level encoder (write_blocks_from, BlockSlice::encode, Skip placeholders, find_index unwraps) is
      transcribed elsewhere (Crdt/WriteBlocks.v, Crdt/Diff.v) and NOT here: theorems assume the law
      [prt_codec_ok] (what was encoded decodes to the same structured update).
   2. apply_update.  [deliver] retries the WHOLE stash at every call (fixpoint of ready operations); the code only
      retries when a clock recorded in `pending.missing` became available.  UpdateError::InvalidParent does not
      exist in the op-set model ([integrate_op] turns such an item into a GC unit), so handle_sync_step2 can only
      fail by decoding.  Merging of pending updates is list concatenation (no block squashing, duplicates stay).
   3. Awareness.  Timestamps (last_updated), observers / events (on_update, on_change, summaries) are not
      modelled.  The DashMap is an association list; HashMap iteration order of an AwarenessUpdate is the list
      order (theorems are stated for every order where it matters).
   4. The network: two peers, two FIFO queues of DECODED messages (the wire codec round trip of Messages.v is a
      separate, already proved, layer); a schedule is a list of booleans (which queue delivers next).  A handler
      error / panic aborts the run (value None).
   5. Auth, Custom: no state. *)
From Coq Require Import List NArith Bool.
From YV Require Import Lib.Bytes Codec.IdSetCodec Codec.UpdateV1 Codec.Messages Crdt.Doc Crdt.SyncProofs
  OpSet.Awareness.
Import ListNotations.
Open Scope N_scope.

(* ---------------------------------------------------------------------------------------------- *)
(* update payloads                                                                                 *)
(* ---------------------------------------------------------------------------------------------- *)
Definition prt_upd : Type := (list xop * list id)%type.       (* unit operations, delete set (points) *)

Record prt_codec := mk_prt_codec {
  prt_enc : prt_upd -> option (list N);      (* None: encode_state_as_update_v1 panics *)
  prt_dec : list N -> option prt_upd         (* None: Update::decode_v1 returns Err *)
}.

(* the real decoder: Update::decode_v1 (trailing bytes are not looked at) *)
Definition prt_dec_v1 (fuel : nat) (bs : list N) : option prt_upd :=
  match decode_update_v1 fuel bs with
  | Ok u _ => Some (units_of_update u, ds_points (u_ds u))
  | _ => None
  end.

(* ---------------------------------------------------------------------------------------------- *)
(* a peer                                                                                          *)
(* ---------------------------------------------------------------------------------------------- *)
Record prt_dstate := mk_prt_dstate {
  prt_doc : doc;                 (* store.blocks: what is integrated *)
  prt_stash : list xop;          (* store.pending *)
  prt_pend_ds : list id;         (* store.pending_ds *)
  prt_pool : list xop            (* ghost: every operation ever delivered (SyncProofs [causal]) *)
}.
Record prt_peer := mk_prt_peer {
  prt_client : N;                (* doc.client_id() *)
  prt_ds : prt_dstate;
  prt_aw : astate                (* Awareness::states *)
}.

Definition prt_dstate0 : prt_dstate := mk_prt_dstate empty_doc [] [] [].
Definition prt_peer0 (c : N) : prt_peer := mk_prt_peer c prt_dstate0 [].

(* IdSet::from_store: every deleted item and every GC range *)
Definition prt_deleted_ids (d : doc) : list id :=
  flat_map (fun kl : seqkey * list ditem => map did (filter d_del (snd kl))) (d_lists d) ++ d_gc d.

(* ReadTxn::state_vector: per client the first clock that is not integrated *)
Definition prt_clients (d : doc) : list N := nodup N.eq_dec (map cl (integrated_ids d)).
Definition prt_sv_of (d : doc) : IdSetCodec.sv := map (fun c => (c, SyncProofs.sv d c)) (prt_clients d).

(* ReadTxn::encode_state_as_update_v1(sv), before encoding *)
Definition prt_state_as_update (s : prt_dstate) (v : IdSetCodec.sv) : prt_upd :=
  (diff (known (prt_doc s) (prt_pool s)) (sv_get v) ++ prt_stash s,
   prt_deleted_ids (prt_doc s) ++ prt_pend_ds s).

(* TransactionMut::apply_delete over a list of ids *)
Definition prt_delete_all (js : list id) (d : doc) : doc := fold_left (fun d i => delete_item i d) js d.

(* TransactionMut::apply_update *)
Definition prt_apply_update (s : prt_dstate) (u : prt_upd) : prt_dstate :=
  let '(d1, st1) := deliver (prt_doc s) (prt_stash s ++ fst u) in
  let dels := prt_pend_ds s ++ snd u in
  mk_prt_dstate (prt_delete_all dels d1) st1
                (filter (fun i => negb (integrated d1 i)) dels)
                (prt_pool s ++ fst u).

(* a local transaction that produced the operations [w] and deleted [dels], as one update *)
Definition prt_local_update (s : prt_dstate) (u : prt_upd) : prt_dstate := prt_apply_update s u.

(* ---------------------------------------------------------------------------------------------- *)
(* awareness                                                                                       *)
(* ---------------------------------------------------------------------------------------------- *)
Definition prt_null_str : list N := [110; 117; 108; 108].         (* "null" *)

(* apply_update_internal: `if entry.json.as_ref() == NULL_STR { None } else { Some(entry.json) }` *)
Definition prt_aw_of_wire (a : list aw_entry) : aupdate :=
  map (fun e : aw_entry =>
         (fst e, (fst (snd e), if bytes_eqb (snd (snd e)) prt_null_str then None else Some (snd (snd e))))) a.

(* Awareness::update_with_clients: None = Err(ClientNotFound) *)
Fixpoint prt_aw_update_with (s : astate) (clients : list N) (acc : list aw_entry) : option (list aw_entry) :=
  match clients with
  | [] => Some acc
  | c :: r =>
    match aget s c with
    | Some (k, d) => prt_aw_update_with s r (aw_set acc c k (match d with Some j => j | None => prt_null_str end))
    | None => None
    end
  end.
(* Awareness::update: the clients whose data is not None *)
Definition prt_aw_live_clients (s : astate) : list N :=
  map fst (filter (fun ce : N * aentry => is_some (snd (snd ce))) s).
Definition prt_aw_update (s : astate) : option (list aw_entry) :=
  prt_aw_update_with s (prt_aw_live_clients s) [].

(* `clock += 1` on a u32 (the branch that protects the local state) with clock = u32::MAX *)
Definition prt_aw_entry_overflows (local : N) (s : astate) (c : N) (inc : aentry) : bool :=
  match aget s c, inc with
  | Some (k, d), (clock, None) =>
    ((k <? clock) || ((k =? clock) && is_some d)) && (c =? local) && is_some d && (two32 <=? clock + 1)
  | _, _ => false
  end.
(* Awareness::apply_update: None = arithmetic overflow panic *)
Fixpoint prt_aw_apply (local : N) (s : astate) (u : aupdate) : option astate :=
  match u with
  | [] => Some s
  | ce :: r =>
    if prt_aw_entry_overflows local s (fst ce) (snd ce) then None
    else prt_aw_apply local (apply_entry local s (fst ce) (snd ce)) r
  end.

(* Awareness::clean_local_state *)
Definition prt_clean_local_state (p : prt_peer) : prt_peer :=
  mk_prt_peer (prt_client p) (prt_ds p) (remove_state (prt_aw p) (prt_client p)).

(* ---------------------------------------------------------------------------------------------- *)
(* the handlers                                                                                    *)
(* ---------------------------------------------------------------------------------------------- *)
Inductive prt_error :=
| PrtDecoding                           (* Error::DecodingError *)
| PrtAwarenessErr                       (* Error::AwarenessEncoding (ClientNotFound) *)
| PrtPermissionDenied (reason : list N) (* Error::PermissionDenied *)
| PrtUnsupported (tag : N).             (* Error::Unsupported *)

Inductive prt_res (A : Type) :=
| PrtOk (a : A)
| PrtErr (e : prt_error)
| PrtPanic                              (* unwrap() on Err / arithmetic overflow *)
| PrtFuel.                              (* the model ran out of fuel (excluded by theorems) *)
Arguments PrtOk {A}. Arguments PrtErr {A}. Arguments PrtPanic {A}. Arguments PrtFuel {A}.

Definition prt_set_ds (p : prt_peer) (s : prt_dstate) : prt_peer := mk_prt_peer (prt_client p) s (prt_aw p).
Definition prt_set_aw (p : prt_peer) (a : astate) : prt_peer := mk_prt_peer (prt_client p) (prt_ds p) a.

(* handle_sync_step2 = handle_update, after `Update::decode_v1(&update)?` in handle_message *)
Definition prt_handle_update (cd : prt_codec) (p : prt_peer) (bs : list N) : prt_res (prt_peer * list message) :=
  match prt_dec cd bs with
  | Some u => PrtOk (prt_set_ds p (prt_apply_update (prt_ds p) u), [])
  | None => PrtErr PrtDecoding
  end.

Definition prt_handle (cd : prt_codec) (p : prt_peer) (m : message) : prt_res (prt_peer * list message) :=
  match m with
  | MSync (SyncStep1 v) =>
    match prt_enc cd (prt_state_as_update (prt_ds p) v) with
    | Some bs => PrtOk (p, [MSync (SyncStep2 bs)])
    | None => PrtPanic
    end
  | MSync (SyncStep2 bs) => prt_handle_update cd p bs
  | MSync (SyncUpdate bs) => prt_handle_update cd p bs
  | MAuth (Some reason) => PrtErr (PrtPermissionDenied reason)
  | MAuth None => PrtOk (p, [])
  | MAwarenessQuery =>
    match prt_aw_update (prt_aw p) with
    | Some a => PrtOk (p, [MAwareness a])
    | None => PrtErr PrtAwarenessErr
    end
  | MAwareness a =>
    match prt_aw_apply (prt_client p) (prt_aw p) (prt_aw_of_wire a) with
    | Some s' => PrtOk (prt_set_aw p s', [])
    | None => PrtPanic
    end
  | MCustom tag _ => PrtErr (PrtUnsupported tag)
  end.

Definition prt_start (p : prt_peer) : prt_res (list message) :=
  match prt_aw_update (prt_aw p) with
  | Some a => PrtOk [MSync (SyncStep1 (prt_sv_of (prt_doc (prt_ds p)))); MAwareness a]
  | None => PrtErr PrtAwarenessErr
  end.

(* Protocol::handle(data): the MessageReader loop.  [dfuel] is the fuel of the message decoder. *)
Fixpoint prt_handle_buf (fuel dfuel : nat) (cd : prt_codec) (p : prt_peer) (bs : list N) (acc : list message)
  : prt_res (prt_peer * list message) :=
  match fuel with
  | O => PrtFuel
  | S f =>
    match decode_message dfuel bs with
    | Err EndOfBuffer => PrtOk (p, acc)                 (* MessageReader::next returns None *)
    | Err _ => PrtErr PrtDecoding                       (* `let message = result?;` *)
    | Panic _ => PrtPanic
    | Fuel => PrtFuel
    | Ok m rest =>
      match prt_handle cd p m with
      | PrtOk (p', replies) => prt_handle_buf f dfuel cd p' rest (acc ++ replies)
      | PrtErr e => PrtErr e
      | PrtPanic => PrtPanic
      | PrtFuel => PrtFuel
      end
    end
  end.

(* a peer consumes a stream of messages; None = some handler failed *)
Fixpoint prt_feed (cd : prt_codec) (p : prt_peer) (ms : list message) : option (prt_peer * list message) :=
  match ms with
  | [] => Some (p, [])
  | m :: r =>
    match prt_handle cd p m with
    | PrtOk (p1, o1) =>
      match prt_feed cd p1 r with
      | Some (p2, o2) => Some (p2, o1 ++ o2)
      | None => None
      end
    | _ => None
    end
  end.

(* ---------------------------------------------------------------------------------------------- *)
(* the network: two peers, two FIFO queues                                                         *)
(* ---------------------------------------------------------------------------------------------- *)
Record prt_net := mk_prt_net {
  prt_na : prt_peer; prt_nb : prt_peer;
  prt_qab : list message;        (* sent by A, not yet handled by B *)
  prt_qba : list message         (* sent by B, not yet handled by A *)
}.

(* one delivery: [to_b = true] the head of the queue A->B is handled by B (replies go to the queue B->A);
   an empty queue: nothing happens; a failing handler: None *)
Definition prt_step (cd : prt_codec) (to_b : bool) (n : prt_net) : option prt_net :=
  if to_b then
    match prt_qab n with
    | [] => Some n
    | m :: q =>
      match prt_handle cd (prt_nb n) m with
      | PrtOk (b', replies) => Some (mk_prt_net (prt_na n) b' q (prt_qba n ++ replies))
      | _ => None
      end
    end
  else
    match prt_qba n with
    | [] => Some n
    | m :: q =>
      match prt_handle cd (prt_na n) m with
      | PrtOk (a', replies) => Some (mk_prt_net a' (prt_nb n) (prt_qab n ++ replies) q)
      | _ => None
      end
    end.

Fixpoint prt_run (cd : prt_codec) (sched : list bool) (n : prt_net) : option prt_net :=
  match sched with
  | [] => Some n
  | s :: r => match prt_step cd s n with Some n' => prt_run cd r n' | None => None end
  end.

(* both peers connect: each one's `start` output is in its outgoing queue *)
Definition prt_connect (a b : prt_peer) : option prt_net :=
  match prt_start a, prt_start b with
  | PrtOk ma, PrtOk mb => Some (mk_prt_net a b ma mb)
  | _, _ => None
  end.

(* the seeded regression of task item 6: an "already up to date" shortcut in handle_sync_step1 *)
Definition prt_sv_covers (v : IdSetCodec.sv) (d : doc) : bool :=
  forallb (fun c => SyncProofs.sv d c <=? sv_get v c) (prt_clients d).
Definition prt_handle_step1_shortcut (cd : prt_codec) (p : prt_peer) (v : IdSetCodec.sv)
  : prt_res (prt_peer * list message) :=
  if prt_sv_covers v (prt_doc (prt_ds p)) then PrtOk (p, [])
  else prt_handle cd p (MSync (SyncStep1 v)).
