(* Concrete cases for NS.Protocol / NS.ProtocolProofs (vm_compute): non-vacuity of the hypotheses, bounded sweeps
   over all schedules, witnesses of the negative results. *)
From Coq Require Import List NArith Bool Lia.
From YV Require Import Lib.Bytes Codec.IdSetCodec Codec.UpdateV1 Codec.Messages Crdt.Doc Crdt.SyncProofs
  Crdt.MapProofs OpSet.Awareness OpSet.AwarenessProofs.
From YV.Crdt Require Import Protocol ProtocolProofs.
Import ListNotations.
Open Scope N_scope.

(* ---------------------------------------------------------------------------------------------- *)
(* a lawful codec (proved) and a richer toy codec (law checked on the payloads of the runs below)   *)
(* ---------------------------------------------------------------------------------------------- *)
Definition prtc_codec0 : prt_codec :=
  mk_prt_codec (fun u => match u with ([], []) => Some [0; 0] | _ => None end)
               (fun bs => match bs with [0; 0] => Some ([], []) | _ => None end).
Example prtc_codec0_ok : prt_codec_ok prtc_codec0.
Proof. intros [[|x l] [|i d]] bs H; cbn in H; inversion H; reflexivity. Qed.

(* toy codec *)
Definition prtc_enc_id (i : id) : list N := [cl i; ck i].
Definition prtc_enc_oid (o : option id) : list N := match o with None => [0] | Some i => 1 :: prtc_enc_id i end.
Definition prtc_enc_parent (p : parent) : list N :=
  match p with PNamed n => 0 :: N.of_nat (length n) :: n | PId i => 1 :: prtc_enc_id i | PUnknown => [2] end.
Definition prtc_enc_op (x : xop) : option (list N) :=
  match x with
  | XGC i => Some (0 :: prtc_enc_id i)
  | XItem o =>
    match osub o, ocont o with
    | None, UDeleted => Some (1 :: prtc_enc_id (oid o) ++ prtc_enc_oid (oorigin o) ++ prtc_enc_oid (ororigin o) ++ prtc_enc_parent (oparent o) ++ [0])
    | None, UString u => Some (1 :: prtc_enc_id (oid o) ++ prtc_enc_oid (oorigin o) ++ prtc_enc_oid (ororigin o) ++ prtc_enc_parent (oparent o) ++ [1; u])
    | _, _ => None
    end
  end.
Fixpoint prtc_enc_ops (l : list xop) : option (list N) :=
  match l with
  | [] => Some []
  | x :: r => match prtc_enc_op x, prtc_enc_ops r with Some a, Some b => Some (a ++ b) | _, _ => None end
  end.
Definition prtc_enc (u : prt_upd) : option (list N) :=
  match prtc_enc_ops (fst u) with
  | Some b => Some (N.of_nat (length (fst u)) :: b ++ N.of_nat (length (snd u)) :: flat_map prtc_enc_id (snd u))
  | None => None
  end.

Definition prtc_dec_id (bs : list N) : option (id * list N) :=
  match bs with c :: k :: r => Some (mkid c k, r) | _ => None end.
Definition prtc_dec_oid (bs : list N) : option (option id * list N) :=
  match bs with
  | 0 :: r => Some (None, r)
  | 1 :: r => match prtc_dec_id r with Some (i, r') => Some (Some i, r') | None => None end
  | _ => None
  end.
Definition prtc_dec_parent (bs : list N) : option (parent * list N) :=
  match bs with
  | 0 :: n :: r => if N.of_nat (length r) <? n then None else Some (PNamed (firstn (N.to_nat n) r), skipn (N.to_nat n) r)
  | 1 :: r => match prtc_dec_id r with Some (i, r') => Some (PId i, r') | None => None end
  | 2 :: r => Some (PUnknown, r)
  | _ => None
  end.
Definition prtc_dec_op (bs : list N) : option (xop * list N) :=
  match bs with
  | 0 :: r => match prtc_dec_id r with Some (i, r') => Some (XGC i, r') | None => None end
  | 1 :: r =>
    match prtc_dec_id r with
    | Some (i, r1) =>
      match prtc_dec_oid r1 with
      | Some (o, r2) =>
        match prtc_dec_oid r2 with
        | Some (ro, r3) =>
          match prtc_dec_parent r3 with
          | Some (p, r4) =>
            match r4 with
            | 0 :: r5 => Some (XItem (mkop i o ro p None UDeleted), r5)
            | 1 :: u :: r5 => Some (XItem (mkop i o ro p None (UString u)), r5)
            | _ => None
            end
          | None => None
          end
        | None => None
        end
      | None => None
      end
    | None => None
    end
  | _ => None
  end.
Fixpoint prtc_dec_ops (n : nat) (bs : list N) : option (list xop * list N) :=
  match n with
  | O => Some ([], bs)
  | S m => match prtc_dec_op bs with
           | Some (x, r) => match prtc_dec_ops m r with Some (l, r') => Some (x :: l, r') | None => None end
           | None => None
           end
  end.
Fixpoint prtc_dec_ids (n : nat) (bs : list N) : option (list id) :=
  match n with
  | O => Some []
  | S m => match prtc_dec_id bs with
           | Some (i, r) => match prtc_dec_ids m r with Some l => Some (i :: l) | None => None end
           | None => None
           end
  end.
Definition prtc_dec (bs : list N) : option prt_upd :=
  match bs with
  | n :: r =>
    match prtc_dec_ops (N.to_nat n) r with
    | Some (ops, m :: r') => match prtc_dec_ids (N.to_nat m) r' with Some ids => Some (ops, ids) | None => None end
    | _ => None
    end
  | [] => None
  end.
Definition prtc_codec : prt_codec := mk_prt_codec prtc_enc prtc_dec.

(* peers *)
Definition prtc_it (c k : N) (o : option id) (ch : N) : xop := XItem (mkop (mkid c k) o None (PNamed [116]) None (UString ch)).
Definition prtc_mkpeer (c : N) (us : list prt_upd) (aw : astate) : prt_peer :=
  mk_prt_peer c (fold_left prt_apply_update us prt_dstate0) aw.

(* A: client 1 wrote "ab" and deleted b; holds (2,1) in its stash (gap: (2,0) missing) *)
Definition prtc_pA : prt_peer :=
  prtc_mkpeer 1 [([prtc_it 1 0 None 97; prtc_it 1 1 (Some (mkid 1 0)) 98], [mkid 1 1]); ([prtc_it 2 1 (Some (mkid 2 0)) 100], [mkid 3 0])]
         [(1, (3, Some [1])); (7, (2, Some [7]))].
(* B: client 2 wrote "cd"; knows (1,0) *)
Definition prtc_pB : prt_peer :=
  prtc_mkpeer 2 [([prtc_it 2 0 None 99; prtc_it 2 1 (Some (mkid 2 0)) 100], []); ([prtc_it 1 0 None 97], [])]
         [(2, (5, Some [2])); (7, (4, Some [8])); (1, (1, Some [0]))].


(* ---------------------------------------------------------------------------------------------- *)
(* non-vacuity of the hypotheses of prt_handshake_converges                                         *)
(* ---------------------------------------------------------------------------------------------- *)
Lemma prtc_fold_wfs : forall us s, prt_wfs s -> prt_wfs (fold_left prt_apply_update us s).
Proof. induction us as [|u r IH]; intros s H; [exact H|]. cbn [fold_left]. apply IH, prt_apply_update_wfs, H. Qed.

Example prtc_pA_wfs : prt_wfs (prt_ds prtc_pA).
Proof. apply prtc_fold_wfs, prt_wfs0. Qed.
Example prtc_pB_wfs : prt_wfs (prt_ds prtc_pB).
Proof. apply prtc_fold_wfs, prt_wfs0. Qed.
Example prtc_pA_causal : causal (prt_doc (prt_ds prtc_pA)) (prt_pool (prt_ds prtc_pA)).
Proof. apply prtc_pA_wfs. Qed.
Example prtc_pB_causal : causal (prt_doc (prt_ds prtc_pB)) (prt_pool (prt_ds prtc_pB)).
Proof. apply prtc_pB_wfs. Qed.

Definition prtc_nodupb (l : list N) : bool :=
  (fix go (l : list N) := match l with [] => true | x :: r => negb (existsb (N.eqb x) r) && go r end) l.
Lemma prtc_nodupb_ok : forall l, prtc_nodupb l = true -> NoDup l.
Proof.
  induction l as [|x r IH]; intros H; [constructor|]. cbn in H. apply andb_true_iff in H. destruct H as [H1 H2].
  constructor; [|apply IH, H2]. intro Hin. apply negb_true_iff in H1.
  assert (existsb (N.eqb x) r = true) by (apply existsb_exists; exists x; split; [exact Hin|apply N.eqb_refl]). congruence.
Qed.
Example prtc_pA_aw_nodup : NoDup (map fst (prt_aw prtc_pA)).
Proof. apply prtc_nodupb_ok. reflexivity. Qed.
Example prtc_pB_aw_nodup : NoDup (map fst (prt_aw prtc_pB)).
Proof. apply prtc_nodupb_ok. reflexivity. Qed.
Example prtc_pA_no_null : prt_aw_no_null (prt_aw prtc_pA).
Proof. intros c k j H. cbn in H. repeat (destruct H as [H|H]; [inversion H; subst; reflexivity|]). destruct H. Qed.
Example prtc_pB_no_null : prt_aw_no_null (prt_aw prtc_pB).
Proof. intros c k j H. cbn in H. repeat (destruct H as [H|H]; [inversion H; subst; reflexivity|]). destruct H. Qed.
Example prtc_pA_all_live : prt_aw_all_live (prt_aw prtc_pA).
Proof. intros ce H. cbn in H. repeat (destruct H as [H|H]; [subst; reflexivity|]). destruct H. Qed.
Example prtc_pB_all_live : prt_aw_all_live (prt_aw prtc_pB).
Proof. intros ce H. cbn in H. repeat (destruct H as [H|H]; [subst; reflexivity|]). destruct H. Qed.

(* A holds (2,1) in its pending stash and (3,0) in its pending delete set *)
Example prtc_pA_has_stash :
  prt_stash (prt_ds prtc_pA) = [prtc_it 2 1 (Some (mkid 2 0)) 100] /\ prt_pend_ds (prt_ds prtc_pA) = [mkid 3 0]
  /\ prt_deleted_ids (prt_doc (prt_ds prtc_pA)) = [mkid 1 1].
Proof. vm_compute. auto. Qed.

(* the codec law on the two SyncStep2 payloads of the handshake of pA and pB *)
Example prtc_codec_law_on_run :
  let uA := prt_state_as_update (prt_ds prtc_pA) (prt_sv_of (prt_doc (prt_ds prtc_pB))) in
  let uB := prt_state_as_update (prt_ds prtc_pB) (prt_sv_of (prt_doc (prt_ds prtc_pA))) in
  (match prtc_enc uA with Some bs => prtc_dec bs | None => None end) = Some uA /\
  (match prtc_enc uB with Some bs => prtc_dec bs | None => None end) = Some uB.
Proof. vm_compute. auto. Qed.

(* ---------------------------------------------------------------------------------------------- *)
(* bounded sweep: every schedule of 10 deliveries                                                   *)
(* ---------------------------------------------------------------------------------------------- *)
Fixpoint prtc_all_scheds (n : nat) : list (list bool) :=
  match n with O => [[]] | S m => flat_map (fun s => [true :: s; false :: s]) (prtc_all_scheds m) end.

Definition prtc_ids (p : prt_peer) := integrated_ids (prt_doc (prt_ds p)).
Definition prtc_summary (n : prt_net) :=
  (prtc_ids (prt_na n), prtc_ids (prt_nb n),
   prt_deleted_ids (prt_doc (prt_ds (prt_na n))), prt_deleted_ids (prt_doc (prt_ds (prt_nb n))),
   prt_aw (prt_na n), prt_aw (prt_nb n),
   (prt_stash (prt_ds (prt_na n)), prt_stash (prt_ds (prt_nb n)),
    prt_pend_ds (prt_ds (prt_na n)), prt_pend_ds (prt_ds (prt_nb n)))).

Definition prtc_final (sched : list bool) :=
  match prt_connect prtc_pA prtc_pB with
  | Some n => match prt_run prtc_codec sched n with
              | Some n' => Some (length (prt_qab n'), length (prt_qba n'), prtc_summary n')
              | None => None
              end
  | None => None
  end.

Definition prtc_expected :=
  let ids := [mkid 1 0; mkid 1 1; mkid 2 0; mkid 2 1] in
  (ids, ids, [mkid 1 1], [mkid 1 1],
   [(1, (3, Some [1])); (7, (4, Some [8])); (2, (5, Some [2]))],
   [(2, (5, Some [2])); (7, (4, Some [8])); (1, (3, Some [1]))],
   (@nil xop, @nil xop, [mkid 3 0], [mkid 3 0])).

(* a flat fingerprint of a final state, to compare states by computation *)
Definition prtc_fp_ids (l : list id) : list N := N.of_nat (length l) :: flat_map (fun i => [cl i; ck i]) l.
Definition prtc_fp_aw (s : astate) : list N :=
  N.of_nat (length s) :: flat_map (fun ce : N * aentry =>
    fst ce :: fst (snd ce) :: match snd (snd ce) with Some j => 1 :: N.of_nat (length j) :: j | None => [0] end) s.
Definition prtc_fp (n : prt_net) : list N :=
  prtc_fp_ids (prtc_ids (prt_na n)) ++ prtc_fp_ids (prtc_ids (prt_nb n)) ++
  prtc_fp_ids (prt_deleted_ids (prt_doc (prt_ds (prt_na n)))) ++ prtc_fp_ids (prt_deleted_ids (prt_doc (prt_ds (prt_nb n)))) ++
  prtc_fp_aw (prt_aw (prt_na n)) ++ prtc_fp_aw (prt_aw (prt_nb n)) ++
  prtc_fp_ids (map xid (prt_stash (prt_ds (prt_na n)))) ++ prtc_fp_ids (map xid (prt_stash (prt_ds (prt_nb n)))) ++
  prtc_fp_ids (prt_pend_ds (prt_ds (prt_na n))) ++ prtc_fp_ids (prt_pend_ds (prt_ds (prt_nb n))).
Fixpoint prtc_leqb (a b : list N) : bool :=
  match a, b with [], [] => true | x :: a', y :: b' => (x =? y) && prtc_leqb a' b' | _, _ => false end.
Definition prtc_final_fp (sched : list bool) : option (nat * nat * list N) :=
  match prt_connect prtc_pA prtc_pB with
  | Some n => match prt_run prtc_codec sched n with
              | Some n' => Some (length (prt_qab n'), length (prt_qba n'), prtc_fp n')
              | None => None
              end
  | None => None
  end.
Definition prtc_expected_fp : list N :=
  match prtc_final_fp [true;true;true;false;false;false;true;false] with Some (_, _, f) => f | None => [] end.

(* of the 1024 schedules of length 10: none fails; every one that empties the queues (there are some) ends in
   the SAME state, the one displayed in [prtc_expected] *)
Example prtc_sweep :
  forallb (fun s => match prtc_final_fp s with
                    | Some (O, O, f) => prtc_leqb f prtc_expected_fp
                    | Some (_, _, _) => true
                    | None => false
                    end) (prtc_all_scheds 10) = true
  /\ Nat.leb 2 (length (filter (fun s => match prtc_final_fp s with Some (O, O, _) => true | _ => false end)
                                   (prtc_all_scheds 10))) = true
  /\ prtc_final [true;true;true;false;false;false;true;false] = Some (O, O, prtc_expected)
  /\ prtc_final [false;true;false;true;true;false;false;true] = Some (O, O, prtc_expected).
Proof. vm_compute. auto. Qed.

(* ---------------------------------------------------------------------------------------------- *)
(* negative results (witnesses)                                                                     *)
(* ---------------------------------------------------------------------------------------------- *)

(* (a) the awareness half of the handshake does NOT converge in general.  Statement refuted:
         forall a b (NoDup keys, no "null" data, consistent), after the handshake
         forall c, aget (aw A') c = aget (aw B') c.
       Witness: A knows that client 9 was removed at clock 5; B still has its state of clock 3.  `update()` does
       not list removed clients, so B never hears of the removal; A ignores B's older entry. *)
Definition prtc_qA : prt_peer := mk_prt_peer 1 prt_dstate0 [(9, (5, None))].
Definition prtc_qB : prt_peer := mk_prt_peer 2 prt_dstate0 [(9, (3, Some [4]))].
Theorem prt_handshake_awareness_agree_refuted :
  exists cd a b n n' sched c,
    prt_codec_ok cd /\ NoDup (map fst (prt_aw a)) /\ NoDup (map fst (prt_aw b)) /\
    prt_aw_no_null (prt_aw a) /\ prt_aw_no_null (prt_aw b) /\ prt_aw_consistent (prt_aw a) (prt_aw b) /\
    prt_connect a b = Some n /\ prt_run cd sched n = Some n' /\ prt_qab n' = [] /\ prt_qba n' = [] /\
    aget (prt_aw (prt_na n')) c <> aget (prt_aw (prt_nb n')) c.
Proof.
  exists prtc_codec0, prtc_qA, prtc_qB.
  eexists. eexists. exists [true; true; false; false; true; false], 9.
  split; [exact prtc_codec0_ok|]. split; [repeat constructor; intros []|]. split; [repeat constructor; intros []|].
  split; [intros c k j [H|[]]; inversion H|]. split; [intros c k j [H|[]]; inversion H; reflexivity|].
  split; [intros c k j1 j2 H1 H2; cbn in H1; destruct (9 =? c); discriminate|].
  split; [vm_compute; reflexivity|]. split; [vm_compute; reflexivity|].
  split; [reflexivity|]. split; [reflexivity|]. vm_compute. discriminate.
Qed.
Print Assumptions prt_handshake_awareness_agree_refuted.

(* (b) a query / response does not carry removals either *)
Example prtc_query_omits_removal :
  prt_handle prtc_codec0 prtc_qA MAwarenessQuery = PrtOk (prtc_qA, [MAwareness []]).
Proof. reflexivity. Qed.

(* (c) the seeded "already up to date" shortcut loses deletions.  Statement that catches it
       (prt_step2_carries_deletions): the reply to SyncStep1 carries every deleted id, whatever the vector.
       Witness: B has integrated the same ids as A, A deleted (1,1): the shortcut answers nothing. *)
Definition prtc_sA : prt_peer :=
  prtc_mkpeer 1 [([prtc_it 1 0 None 97; prtc_it 1 1 (Some (mkid 1 0)) 98], [mkid 1 1])] [].
Definition prtc_sB : prt_peer :=
  prtc_mkpeer 2 [([prtc_it 1 0 None 97; prtc_it 1 1 (Some (mkid 1 0)) 98], [])] [].
Theorem prt_shortcut_carries_deletions_refuted :
  exists cd p v i,
    In i (prt_deleted_ids (prt_doc (prt_ds p))) /\
    prt_handle_step1_shortcut cd p v = PrtOk (p, []) /\
    (exists bs u, prt_handle cd p (MSync (SyncStep1 v)) = PrtOk (p, [MSync (SyncStep2 bs)]) /\
                  prt_dec cd bs = Some u /\ In i (snd u)).
Proof.
  exists prtc_codec, prtc_sA, (prt_sv_of (prt_doc (prt_ds prtc_sB))), (mkid 1 1).
  split; [vm_compute; auto|]. split; [vm_compute; reflexivity|].
  eexists. eexists. split; [vm_compute; reflexivity|]. split; [vm_compute; reflexivity|]. vm_compute. auto.
Qed.
Print Assumptions prt_shortcut_carries_deletions_refuted.

(* with the real handler B learns the deletion; with the shortcut it does not *)
Example prtc_deletion_arrives :
  match prt_connect prtc_sA prtc_sB with
  | Some n => match prt_run prtc_codec [true;true;false;false;true;false] n with
              | Some n' => prt_deleted_ids (prt_doc (prt_ds (prt_nb n')))
              | None => []
              end
  | None => []
  end = [mkid 1 1]
  /\ prt_deleted_ids (prt_doc (prt_ds prtc_sB)) = [].
Proof. vm_compute. auto. Qed.

(* (d) Protocol::handle over a buffer: "an error leaves the peer unchanged" is FALSE for a buffer of several
       messages: the awareness update in front is applied (the handler ran), then the unknown tag aborts and the
       replies are dropped.  In the model the error value carries no state; the prefix alone shows the change. *)
Definition prtc_buf_prefix : list N := encode_message (MAwareness [(3, (1, [123; 125]))]).
Definition prtc_buf : list N := prtc_buf_prefix ++ encode_message (MSync (SyncStep1 [])) ++ encode_message (MCustom 9 [1; 2]).
Example prtc_handle_buf_partial_failure :
  prt_handle_buf 100 100 prtc_codec (prt_peer0 1) prtc_buf [] = PrtErr (PrtUnsupported 9)
  /\ (exists p', prt_handle_buf 100 100 prtc_codec (prt_peer0 1) prtc_buf_prefix [] = PrtOk (p', [])
                 /\ prt_aw p' = [(3, (1, Some [123; 125]))]).
Proof. split; [vm_compute; reflexivity|]. eexists. split; vm_compute; reflexivity. Qed.

(* (e) a truncated message is silently dropped: no error, no state change *)
Definition prtc_step2_msg : list N := encode_message (MSync (SyncStep2 [1; 2; 3; 4; 5; 6])).
Example prtc_truncated_silent :
  prt_handle_buf 100 100 prtc_codec (prt_peer0 1) (firstn 5 prtc_step2_msg) [] = PrtOk (prt_peer0 1, []).
Proof. vm_compute. reflexivity. Qed.

(* (f) the protection of the local state is silent: B removed A's state (clock 2, null); A keeps its data and
       moves to clock 3, answers nothing; B keeps showing A as removed until a later query / handshake *)
Definition prtc_lA : prt_peer := mk_prt_peer 1 prt_dstate0 [(1, (1, Some [120]))].
Example prtc_protect_bump_silent :
  prt_handle prtc_codec0 prtc_lA (MAwareness [(1, (2, prt_null_str))])
  = PrtOk (mk_prt_peer 1 prt_dstate0 [(1, (3, Some [120]))], []).
Proof. vm_compute. reflexivity. Qed.

(* (g) the JSON text "null" as local state is a removal for the receiver *)
Example prtc_null_string_state :
  prt_handle prtc_codec0 (prt_peer0 2) (MAwareness [(1, (1, prt_null_str))])
  = PrtOk (mk_prt_peer 2 prt_dstate0 [(1, (1, None))], [])
  /\ prt_aw_update [(1, (1, Some prt_null_str))] = Some [(1, (1, prt_null_str))].
Proof. vm_compute. auto. Qed.

(* (h) u32 overflow of `clock += 1`: explicit failure; excluded by clock + 1 < 2^32 (prt_aw_apply_no_overflow) *)
Example prtc_clock_overflow :
  prt_handle prtc_codec0 prtc_lA (MAwareness [(1, (4294967295, prt_null_str))]) = PrtPanic.
Proof. vm_compute. reflexivity. Qed.

(* theorem 4, concretely: after the handshake A types "e" after "b" and deletes it again in a second transaction;
   the two updates reach B as ONE merged batch or as TWO batches in the wrong order: same ids *)
Definition prtc_after : option (prt_peer * prt_peer) :=
  match prt_connect prtc_pA prtc_pB with
  | Some n => match prt_run prtc_codec [true;true;true;false;false;false;true;false] n with
              | Some n' => Some (prt_na n', prt_nb n')
              | None => None end
  | None => None end.
Definition prtc_w1 : prt_upd := ([prtc_it 1 2 (Some (mkid 1 1)) 101], []).
Definition prtc_w2 : prt_upd := ([prtc_it 1 3 (Some (mkid 1 2)) 102], [mkid 1 2]).
Definition prtc_send (us : list prt_upd) : list message :=
  flat_map (fun u => match prtc_enc u with Some bs => [MSync (SyncUpdate bs)] | None => [] end) us.
Example prtc_updates_any_batching :
  match prtc_after with
  | Some (a, b) =>
    let a2 := prt_set_ds a (prt_local_update (prt_local_update (prt_ds a) prtc_w1) prtc_w2) in
    match prt_feed prtc_codec b (prtc_send [(fst prtc_w1 ++ fst prtc_w2, snd prtc_w1 ++ snd prtc_w2)]),
          prt_feed prtc_codec b (prtc_send [prtc_w2; prtc_w1]) with
    | Some (b2, _), Some (b3, _) =>
      (prtc_ids a2, prtc_ids b2, prtc_ids b3, prt_stash (prt_ds b3),
       prt_deleted_ids (prt_doc (prt_ds b2)), prt_deleted_ids (prt_doc (prt_ds b3)))
    | _, _ => ([], [], [], [], [], [])
    end
  | None => ([], [], [], [], [], [])
  end =
  let ids := [mkid 1 0; mkid 1 1; mkid 1 2; mkid 1 3; mkid 2 0; mkid 2 1] in
  (ids, ids, ids, [], [mkid 1 1; mkid 1 2], [mkid 1 1; mkid 1 2]).
Proof. vm_compute. reflexivity. Qed.
