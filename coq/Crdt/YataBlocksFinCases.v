(* Concrete cases for YataBlocksFin.v / YataBlocksFinProofs.v: non-vacuity of the hypotheses. *)
From Coq Require Import List NArith ZArith Bool.
From YV Require Import Codec.UpdateV1 Crdt.Doc Crdt.Blocks Crdt.DeliverProofs Crdt.MapProofs Crdt.YataBlocks Crdt.YataBlocksMore.
From YV.Crdt Require Import YataBlocksFin.
Import ListNotations.
Open Scope N_scope.

Definition yibf_key : seqkey := (PNamed [109], Some [107]).
Definition yibf_item (c k : N) (o : option id) (del : bool) : ditem :=
  mkditem (mkop (mkid c k) o None (PNamed [109]) (Some [107]) (UJson [c])) del.
(* a root map "m" with key "k" written twice (1:0 overwritten by 2:0) *)
Definition yibf_doc : doc := mkdoc [(yibf_key, [yibf_item 1 0 None true; yibf_item 2 0 (Some (mkid 1 0)) false])] [].
(* a concurrent writer 3:0 that had only seen 1:0 *)
Definition yibf_op : op := mkop (mkid 3 0) (Some (mkid 1 0)) None (PNamed [109]) (Some [107]) (UJson [3]).

Example yibf_doc_hyps :
  NoDupKeys yibf_doc /\ NoDupIds yibf_doc /\ integrated yibf_doc (oid yibf_op) = false /\
  resolve_parent yibf_op yibf_doc = Some yibf_key /\ yib_plain_op yibf_op = true /\
  yib_plain_list (get_list yibf_key (d_lists yibf_doc)) = true /\ yib_parent_live yibf_key yibf_doc = true.
Proof.
  split; [|split].
  - unfold NoDupKeys. cbn. constructor; [intros []|constructor].
  - unfold NoDupIds. cbn. constructor; [intros [H|[]]; discriminate|constructor; [intros []|constructor]].
  - vm_compute. repeat split.
Qed.
Example yibf_doc_result :
  map (fun u => (cl (did u), d_del u)) (get_list yibf_key (d_lists (integrate_op yibf_doc yibf_op))) =
    [(1, true); (2, true); (3, false)] /\
  map (fun u => (cl (did u), d_del u)) (yib_umap_step (get_list yibf_key (d_lists yibf_doc)) (yib_doc_unit yibf_op yibf_key)) =
    [(1, true); (2, true); (3, false)].
Proof. vm_compute. split; reflexivity. Qed.

(* a history of three one-unit entries of one key: first write, overwrite, concurrent older writer *)
Definition yibf_ent (c k : N) (o ro : option id) : yib_blk :=
  yib_mk (BItem (mkid c k) o ro (PNamed [109]) (Some [107]) (BJson [[c]])) false.
Example yibf_map_hist :
  let bs := [yibf_ent 1 0 None None; yibf_ent 2 0 (Some (mkid 1 0)) None; yibf_ent 3 0 (Some (mkid 1 0)) (Some (mkid 2 0))] in
  yib_map_hist_ok [] bs = true /\
  match yib_integrate_all [] bs with
  | yib_ok s' => map (fun u => (cl (did u), d_del u)) (yib_expand s') = [(1, true); (3, true); (2, false)]
  | yib_fail _ => False
  end.
Proof. vm_compute. split; reflexivity. Qed.
