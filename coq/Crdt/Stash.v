(* Definitions for the theorems of StashProofs.v: "no update stays stuck in the pending stash".
   Nothing of the Rust code is transcribed here: the transcription of
     TransactionMut::apply_update / Update::integrate / BlockPicker / BlockStore::push   (yrs/src/transaction.rs,
     yrs/src/update.rs, yrs/src/block_store.rs)
   is Crdt/Integrate.v ([itg_apply_update_res], [itg_step_with], [itg_retry_with], [itg_integrate], ...), and
     Update::merge_updates (yrs/src/update.rs) is Crdt/Merge.v ([mrg_merge_updates], used as [itg_mrg]).
   This file only adds
     * the vocabulary of the statements (a causally closed history, a delivery, what a stash must satisfy),
     * [itg2_run]: `for u in deliveries { txn.apply_update(u) }`, stopping at the first result outside the domain
       of the model,
     * generators of small histories / deliveries for the bounded tests of StashCases.v.
   Abstraction (inherited from Integrate.v): a block is (kind, client, clock, length, dependency ids); content,
   YATA positions, delete sets are not modelled; the store is per client the list of segments (start, length,
   Skip?).  A history is given by its blocks only: *)
From Coq Require Import List NArith ZArith Bool.
From YV Require Import Gen.Consts Lib.Bytes Codec.Varint Codec.AnyCodec Codec.IdSetCodec Codec.UpdateV1
  Ids.Ranges Crdt.Doc Crdt.Blocks Crdt.Merge Crdt.Integrate Crdt.IntegrateProofs.
Import ListNotations.
Open Scope N_scope.

(* ================================================================================================ *)
(* coverage                                                                                         *)
(* ================================================================================================ *)
(* id i lies in a non-Skip block of the block set (an update's BlockSet, the stash) *)
Definition itg2_cov (bs : list (N * list block)) (i : id) : bool :=
  existsb (fun e => (fst e =? cl i) && itg_dcov (snd e) (ck i)) bs.
(* ... of one of the updates *)
Definition itg2_cov_us (us : list update) (i : id) : bool :=
  existsb (fun u => itg2_cov (u_blocks (itg_abs_update u)) i) us.
Definition itg2_cov_pend (p : option itg_pending) (i : id) : bool :=
  match p with Some p => itg2_cov (u_blocks (itg_p_update p)) i | None => false end.

(* b is a non-Skip block of the block set *)
Definition itg2_in (bs : list (N * list block)) (b : block) : Prop :=
  exists c d, In (c, d) bs /\ In b d /\ itg_is_skip b = false.

(* ================================================================================================ *)
(* a causally closed history                                                                        *)
(* ================================================================================================ *)
(* The history is seen through the set of its ids, [itg2_cov H] for a block set H (client -> blocks of this client,
   in any order, overlaps allowed), and a ranking rho of ids (any linear extension of "happened before"):
     order    along the clocks of one client the rank increases (a client produces its ids one after the other)
     prefix   the ids of one client form an initial segment of the clocks *)
Record itg2_history (H : list (N * list block)) (rho : id -> nat) : Prop := {
  itg2_h_order : forall c j1 j2, itg2_cov H (mkid c j1) = true -> itg2_cov H (mkid c j2) = true -> j1 < j2 ->
      (rho (mkid c j1) < rho (mkid c j2))%nat;
  itg2_h_prefix : forall c j1 j2, itg2_cov H (mkid c j2) = true -> j1 < j2 -> itg2_cov H (mkid c j1) = true
}.

(* A block that belongs to the history (whole, or cut by ItemPtr::splice / BlockSet::exclude / merge_updates /
   encode_diff, or a run of GC blocks squashed by merge_updates): content-free form, not empty, its ids are ids of
   the history, and every dependency id (origin, right origin, parent id, quoted ids) is an id of the history that
   is ranked below the first id of the block: causal closure, block by block.  W is the list of the unit operations
   of the history (Crdt/Doc.v [units_of_block]: one per id, with origin, right origin, parent): the units of the
   block are among them (this is what makes two deliveries of the same id agree; it is used by the theorem about
   merge_updates only) *)
Definition itg2_okb (H : list (N * list block)) (rho : id -> nat) (W : list xop) (y : block) : Prop :=
  itg_cf_block y = true /\ 0 < block_len y /\ incl (units_of_block y) W /\
  (forall j, itg_clock y <= j < itg_end y -> itg2_cov H (mkid (itg_client y) j) = true) /\
  (forall dep, In dep (itg_deps y) -> itg2_cov H dep = true /\ (rho dep < rho (block_id y))%nat).
Definition itg2_oks (H : list (N * list block)) (rho : id -> nat) (W : list xop) (bs : list (N * list block)) : Prop :=
  forall y, itg2_in bs y -> itg2_okb H rho W y.

(* the classical formulation: H lists the blocks as their clients made them, every dependency id of every block is
   an id of H ranked below the block *)
Record itg2_closed (H : list (N * list block)) (rho : id -> nat) : Prop := {
  itg2_c_deps : forall b, itg2_in H b -> forall dep, In dep (itg_deps b) ->
      itg2_cov H dep = true /\ (rho dep < rho (block_id b))%nat;
  itg2_c_keyed : forall c d b, In (c, d) H -> In b d -> itg_client b = c
}.
(* y is a part of the non-Skip block b: the same client, a sub-range; its dependency ids are among b's or are ids
   of b in front of y (the origin of a right half is the id before it) *)
Definition itg2_piece (y b : block) : Prop :=
  itg_cf_block y = true /\
  itg_client y = itg_client b /\ itg_clock b <= itg_clock y /\ itg_end y <= itg_end b /\ 0 < block_len y /\
  itg_is_skip y = false /\ itg_is_skip b = false /\
  (forall dep, In dep (itg_deps y) ->
     In dep (itg_deps b) \/ (cl dep = itg_client b /\ itg_clock b <= ck dep < itg_clock y)).

(* an update that may be delivered: well-formed (clients distinct, per client a contiguous run of blocks of
   positive length, Skips filling the gaps: what Update::decode + merge_updates + encode_diff produce) and made
   of blocks that belong to the history *)
Definition itg2_deliverable (H : list (N * list block)) (rho : id -> nat) (W : list xop) (u : update) : Prop :=
  itg_update_wf (u_blocks (itg_abs_update u)) = true /\
  itg2_oks H rho W (u_blocks (itg_abs_update u)).

(* ================================================================================================ *)
(* the stash                                                                                        *)
(* ================================================================================================ *)
(* the entry of the missing vector for the client of m is at or below m *)
Definition itg2_entry (missing : list (N * N)) (m : id) : Prop :=
  exists k, itg_get missing (cl m) = Some k /\ k <= ck m.

(* a block set that can sit in the stash: well-formed, content-free *)
Definition itg2_stash_wf (bs : list (N * list block)) : Prop :=
  itg_update_wf bs = true /\ itg_cf_blocks bs.

(* every stashed id is ranked above an id of the history that is recorded in the missing vector (at or below) *)
Definition itg2_headed (H : list (N * list block)) (rho : id -> nat) (p : itg_pending) : Prop :=
  forall i, itg2_cov (u_blocks (itg_p_update p)) i = true ->
    exists m, itg2_cov H m = true /\ (rho m < rho i)%nat /\ itg2_entry (itg_p_missing p) m.

(* every stashed id is ranked above an id of the history that is not integrated *)
Definition itg2_blocked (H : list (N * list block)) (rho : id -> nat) (blocks : list (N * list itg_seg))
  (p : itg_pending) : Prop :=
  forall i, itg2_cov (u_blocks (itg_p_update p)) i = true ->
    exists j, itg2_cov H j = true /\ (rho j < rho i)%nat /\ itg_has blocks j = false.

(* what the theorems keep about a stash *)
Definition itg2_good (H : list (N * list block)) (rho : id -> nat) (W : list xop) (p : itg_pending) : Prop :=
  itg2_stash_wf (u_blocks (itg_p_update p)) /\ itg2_oks H rho W (u_blocks (itg_p_update p)) /\
  itg2_headed H rho p /\ exists i, itg2_cov (u_blocks (itg_p_update p)) i = true.

(* what Update::merge_updates must do on two stashes made of blocks of the history *)
Definition itg2_mrg_ok (H : list (N * list block)) (rho : id -> nat) (W : list xop)
  (mrg : update -> update -> update) : Prop :=
  forall a b,
    itg2_stash_wf (u_blocks a) -> itg2_oks H rho W (u_blocks a) ->
    itg2_stash_wf (u_blocks b) -> itg2_oks H rho W (u_blocks b) ->
    itg2_stash_wf (u_blocks (mrg a b)) /\
    (forall i, itg2_cov (u_blocks (mrg a b)) i = itg2_cov (u_blocks a) i || itg2_cov (u_blocks b) i) /\
    itg2_oks H rho W (u_blocks (mrg a b)).

(* the shape of a client's block list: no empty segment, and a Skip segment is followed by an integrated one *)
Definition itg2_shape_l (l : list itg_seg) : Prop :=
  forall pre g post, l = pre ++ g :: post ->
    0 < itg_sg_len g /\ (itg_sg_skip g = true -> exists g' post', post = g' :: post' /\ itg_sg_skip g' = false).
Definition itg2_shape (blocks : list (N * list itg_seg)) : Prop :=
  forall c l, itg_get blocks c = Some l -> itg2_shape_l l.

(* ================================================================================================ *)
(* deliveries                                                                                       *)
(* ================================================================================================ *)
(* for u in us { apply_update(u) } *)
Fixpoint itg2_run_with (mrg : update -> update -> update) (s : itg_store) (us : list update) : itg_res itg_store :=
  match us with
  | [] => itg_ok s
  | u :: r => itg_bind (itg_apply_with mrg s u) (fun s' => itg2_run_with mrg s' r)
  end.
Definition itg2_run (s : itg_store) (us : list update) : itg_res itg_store := itg2_run_with itg_mrg s us.

(* no Skip segment in any block list *)
Definition itg2_no_holes (blocks : list (N * list itg_seg)) : bool :=
  forallb (fun e => forallb (fun g => negb (itg_sg_skip g) || (itg_sg_len g =? 0)) (snd e)) blocks.

(* ================================================================================================ *)
(* boolean forms of the hypotheses (sound: itg2_okb_b_ok, itg2_deliverable_b_ok, itg2_history_b_ok)  *)
(* ================================================================================================ *)
Definition itg2_range (a n : N) : list N := map (fun k => a + N.of_nat k) (seq 0 (N.to_nat n)).
Definition itg2_okb_b (H : list (N * list block)) (rho : id -> nat) (W : list xop) (y : block) : bool :=
  itg_cf_block y && (0 <? block_len y) &&
  forallb (fun x => existsb (mrg_xop_eqb x) W) (units_of_block y) &&
  forallb (fun j => itg2_cov H (mkid (itg_client y) j)) (itg2_range (itg_clock y) (block_len y)) &&
  forallb (fun dep => itg2_cov H dep && (rho dep <? rho (block_id y))%nat) (itg_deps y).
Definition itg2_deliverable_b (H : list (N * list block)) (rho : id -> nat) (W : list xop) (u : update) : bool :=
  itg_update_wf (u_blocks (itg_abs_update u)) &&
  forallb (fun e => forallb (fun y => itg_is_skip y || itg2_okb_b H rho W y) (snd e)) (u_blocks (itg_abs_update u)).
(* the ids of the non-Skip blocks of a block set *)
Definition itg2_ids (H : list (N * list block)) : list id :=
  flat_map (fun e => flat_map (fun b => if itg_is_skip b then []
                                        else map (mkid (fst e)) (itg2_range (itg_clock b) (block_len b))) (snd e)) H.
Definition itg2_history_b (H : list (N * list block)) (rho : id -> nat) : bool :=
  let ids := itg2_ids H in
  forallb (fun i1 => forallb (fun i2 => negb ((cl i1 =? cl i2) && (ck i1 <? ck i2)) || (rho i1 <? rho i2)%nat) ids) ids &&
  forallb (fun i => forallb (fun j => itg2_cov H (mkid (cl i) j)) (itg2_range 0 (ck i))) ids.

(* ================================================================================================ *)
(* generators for the bounded tests of StashCases.v                                                 *)
(* ================================================================================================ *)
(* a pseudo-random sequence (the LCG of the C standard's example) *)
Definition itg2_rnd (seed : N) : N := (seed * 1103515245 + 12345) mod 2147483648.
Definition itg2_draw (seed n : N) : N := (seed / 65536) mod n.

Definition itg2_item (c k len : N) (o ro : option id) : block :=
  BItem (mkid c k) o ro (PNamed []) None (BDeleted len).

(* the unit ids of the blocks made so far *)
Definition itg2_ids_of (bl : list block) : list id :=
  flat_map (fun b => map (fun j => mkid (itg_client b) (itg_clock b + N.of_nat j)) (seq 0 (N.to_nat (block_len b)))) bl.
Definition itg2_pick_id (seed : N) (ids : list id) : option id :=
  let n := N.of_nat (length ids) in
  let k := itg2_draw seed (n + 1) in
  if k =? n then None else nth_error ids (N.to_nat k).

(* a history of n blocks over nc clients: every block of client c starts at c's next clock, has length 1 or 2,
   and its origin / right origin are None or ids of blocks made before *)
Fixpoint itg2_gen_history (n : nat) (nc seed : N) (clocks : list (N * N)) (bl : list block) : list block * N :=
  match n with
  | O => (bl, seed)
  | S n' =>
      let s1 := itg2_rnd seed in let s2 := itg2_rnd s1 in let s3 := itg2_rnd s2 in let s4 := itg2_rnd s3 in
      let c := 1 + itg2_draw s1 nc in
      let len := 1 + itg2_draw s2 2 in
      let k := match itg_get clocks c with Some k => k | None => 0 end in
      let ids := itg2_ids_of bl in
      let b := itg2_item c k len (itg2_pick_id s3 ids) (itg2_pick_id s4 ids) in
      itg2_gen_history n' nc s4 (itg_put clocks c (k + len)) (bl ++ [b])
  end.

(* what is delivered: every block, or (length 2) its two halves as ItemPtr::splice makes them *)
Fixpoint itg2_gen_pieces (bl : list block) (seed : N) : list block * N :=
  match bl with
  | [] => ([], seed)
  | b :: r =>
      let s1 := itg2_rnd seed in
      let '(r', s') := itg2_gen_pieces r s1 in
      if (block_len b =? 2) && (itg2_draw s1 2 =? 0)
      then (fst (mrg_splice b 1) :: snd (mrg_splice b 1) :: r', s')
      else (b :: r', s')
  end.

Definition itg2_single (b : block) : update := {| u_blocks := [(itg_client b, [b])]; u_ds := [] |}.

(* every piece gets a batch number below nb, and with probability 1/3 a second one (a duplicate) *)
Fixpoint itg2_gen_assign (pl : list block) (nb seed : N) : list (block * N * option N) * N :=
  match pl with
  | [] => ([], seed)
  | b :: r =>
      let s1 := itg2_rnd seed in let s2 := itg2_rnd s1 in let s3 := itg2_rnd s2 in
      let '(r', s') := itg2_gen_assign r nb s3 in
      ((b, itg2_draw s1 nb, if itg2_draw s2 3 =? 0 then Some (itg2_draw s3 nb) else None) :: r', s')
  end.

(* batch j: merge_updates of the single-block updates assigned to it (merge_updates puts the Skips into the gaps) *)
Definition itg2_batch (asg : list (block * N * option N)) (j : N) : option update :=
  let bl := map (fun e => fst (fst e))
                (filter (fun e => (snd (fst e) =? j) || match snd e with Some k => k =? j | None => false end) asg) in
  match bl with
  | [] => None
  | [b] => Some (itg2_single b)
  | _ => Some (mrg_merge_updates (map itg2_single bl))
  end.

Definition itg2_gen_deliveries (pl : list block) (nb seed : N) : list update :=
  let asg := fst (itg2_gen_assign pl nb seed) in
  flat_map (fun j => match itg2_batch asg (N.of_nat j) with Some u => [u] | None => [] end) (seq 0 (N.to_nat nb)).

(* the expected end: per client one range [0, n) *)
Definition itg2_expected (bl : list block) : list (N * list (N * N)) :=
  fold_left (fun m b => itg_put m (itg_client b)
                          [(0, N.max (itg_end b) (match itg_get m (itg_client b) with Some [(_, e)] => e | _ => 0 end))])
            bl [].
Definition itg2_sort_obs (l : list (N * list (N * N))) : list (N * list (N * N)) :=
  fold_left (fun m e => itg_put m (fst e) (snd e)) l [].

(* the trace of a run: (store after each delivery) *)
Fixpoint itg2_trace (s : itg_store) (us : list update) : list (itg_res itg_store) :=
  match us with
  | [] => []
  | u :: r => let s' := itg_apply_update_res s u in
              s' :: match s' with itg_ok s1 => itg2_trace s1 r | _ => [] end
  end.

(* one random case: history, pieces, deliveries; result: (end state as wanted, a stash existed at some moment) *)
Definition itg2_case (n : nat) (nc nb seed : N) : bool * bool :=
  let '(bl, s1) := itg2_gen_history n nc (itg2_rnd seed) [] [] in
  let '(pl, s2) := itg2_gen_pieces bl s1 in
  let ds := itg2_gen_deliveries pl nb s2 in
  let tr := itg2_trace itg_empty ds in
  let stash := existsb (fun r => match r with itg_ok s => itg_obs_has_pending s | _ => false end) tr in
  match itg2_run itg_empty ds with
  | itg_ok s =>
      (negb (itg_obs_has_pending s) && match itg_obs_holes s with [] => true | _ => false end &&
       (fix eq (a b : list (N * list (N * N))) : bool :=
          match a, b with
          | [], [] => true
          | (c1, r1) :: a', (c2, r2) :: b' =>
              (c1 =? c2) &&
              (fix eqr (x y : list (N * N)) : bool :=
                 match x, y with
                 | [], [] => true
                 | (p, q) :: x', (p', q') :: y' => (p =? p') && (q =? q') && eqr x' y'
                 | _, _ => false
                 end) r1 r2 && eq a' b'
          | _, _ => false
          end) (itg2_sort_obs (itg_obs_ranges s)) (itg2_expected bl), stash)
  | _ => (false, stash)
  end.

(* a history given by its blocks in the order they were made: the block set, the ranking (position of the id in
   the order of creation), the unit operations *)
Definition itg2_group (bl : list block) : list (N * list block) :=
  fold_left (fun m b => itg_put m (itg_client b)
                          (match itg_get m (itg_client b) with Some d => d ++ [b] | None => [b] end)) bl [].
Fixpoint itg2_index (i : id) (l : list id) : nat :=
  match l with
  | [] => O
  | x :: r => if id_eqb i x then O else S (itg2_index i r)
  end.
Definition itg2_rho_of (bl : list block) (i : id) : nat := itg2_index i (itg2_ids_of bl).
Definition itg2_units_of (bl : list block) : list xop := flat_map units_of_block bl.
Definition itg2_nodup_ids_b (W : list xop) : bool :=
  (fix go (l : list id) : bool := match l with [] => true | x :: r => negb (existsb (id_eqb x) r) && go r end) (map xid W).

(* one random case as [itg2_case], checking the HYPOTHESES of the theorems: (history, all deliveries deliverable,
   coverage) *)
Definition itg2_case_hyps (n : nat) (nc nb seed : N) : bool :=
  let '(bl, s1) := itg2_gen_history n nc (itg2_rnd seed) [] [] in
  let '(pl, s2) := itg2_gen_pieces bl s1 in
  let ds := itg2_gen_deliveries pl nb s2 in
  let H := itg2_group bl in
  let rho := itg2_rho_of bl in
  let W := itg2_units_of bl in
  itg2_history_b H rho && forallb (itg2_deliverable_b H rho W) ds &&
  forallb (fun i => itg2_cov_us ds i) (itg2_ids H) && itg2_nodup_ids_b W.

(* all sequences of at most k elements of l *)
Fixpoint itg2_seqs {A : Type} (k : nat) (l : list A) : list (list A) :=
  match k with
  | O => [[]]
  | S k' => [] :: flat_map (fun x => map (cons x) (itg2_seqs k' l)) l
  end.
(* the non-empty sublists of l *)
Fixpoint itg2_subsets {A : Type} (l : list A) : list (list A) :=
  match l with
  | [] => []
  | x :: r => let s := itg2_subsets r in [x] :: map (cons x) s ++ s
  end.
Definition itg2_batch_of (bl : list block) : update :=
  match bl with
  | [b] => itg2_single b
  | _ => mrg_merge_updates (map itg2_single bl)
  end.
(* the end state is as wanted: nothing pending, no hole, the expected ranges *)
Definition itg2_end_ok (bl : list block) (s : itg_store) : bool :=
  negb (itg_obs_has_pending s) && match itg_obs_holes s with [] => true | _ => false end &&
  (fix eq (a b : list (N * list (N * N))) : bool :=
     match a, b with
     | [], [] => true
     | (c1, r1) :: a', (c2, r2) :: b' =>
         (c1 =? c2) &&
         (fix eqr (x y : list (N * N)) : bool :=
            match x, y with
            | [], [] => true
            | (p, q) :: x', (p', q') :: y' => (p =? p') && (q =? q') && eqr x' y'
            | _, _ => false
            end) r1 r2 && eq a' b'
     | _, _ => false
     end) (itg2_sort_obs (itg_obs_ranges s)) (itg2_expected bl).
(* ALL deliveries of at most k batches (any non-empty subsets of the blocks, overlaps = duplicates allowed) that
   cover the history: (number of deliveries tried, all ended as wanted) *)
Definition itg2_exhaust (k : nat) (bl : list block) : nat * bool :=
  let batches := map itg2_batch_of (itg2_subsets bl) in
  let ids := itg2_ids (itg2_group bl) in
  let dss := filter (fun ds => forallb (fun i => itg2_cov_us ds i) ids) (itg2_seqs k batches) in
  (length dss,
   forallb (fun ds => match itg2_run itg_empty ds with itg_ok s => itg2_end_ok bl s | _ => false end) dss).
