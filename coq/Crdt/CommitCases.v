(* Concrete cases of Commit.v by vm_compute: the replayed histories of yrs/tests/emt_events.rs, non-vacuity of the
   hypotheses of CommitProofs.v, the witnesses of its `_refuted` theorems. *)
From Coq Require Import List NArith Bool.
From YV Require Import Lib.Bytes Codec.UpdateV1 Ids.Ranges Ids.RangesProofs Crdt.Doc Crdt.Blocks Crdt.Merge Crdt.Diff
  Crdt.ApplyDelete Crdt.WriteBlocks Crdt.GcBlocks Crdt.GcBlocksMore.
From YV.Crdt Require Import Commit.
Import ListNotations.
Open Scope N_scope.

Definition emt_c_root : parent := PNamed [116].                              (* the text "t" *)
Definition emt_c_all : emt_subs := emt_mksubs true true true true true true.
Definition emt_c_upd : emt_subs := emt_mksubs false false false true true false.
Definition emt_c_item (c k : N) (o : option id) (s : list N) (del : bool) : gcb_cell :=
  gcb_mkcell (BItem (mkid c k) o None emt_c_root None (BString s)) del false true.
Definition emt_c_txn (st : gcb_store) (ins ds : idset) (subs : emt_subs) : emt_txn :=
  emt_mktxn st ins ds [] None None false (negb (emt_idset_is_empty ins && emt_idset_is_empty ds)) false [] (Some subs)
            false true false.

(* ---- 1. nothing changed: an empty / read-only transaction, a remote update whose content is known or only stashed
        (insert set and delete set empty; pending / pending_ds are not part of what commit looks at) ---- *)
Definition emt_c_st1 : gcb_store :=
  gcb_mkstore [(1, [emt_c_item 1 0 None [97] false])] [(emt_c_root, gcb_mkbranch [mkid 1 0] [])].
Example emt_c_empty_txn : emt_run (emt_c_txn emt_c_st1 [] [] emt_c_all) = adl_ok [0; 2; 3].
Proof. vm_compute. reflexivity. Qed.
Example emt_c_empty_txn_no_update :
  emt_run (emt_c_txn emt_c_st1 [] [] emt_c_upd) = adl_ok [].
Proof. vm_compute. reflexivity. Qed.

(* ---- 2. a local insertion: every kind once, in the order of commit; Drop adds nothing ---- *)
Definition emt_c_st2 : gcb_store :=
  gcb_mkstore [(1, [emt_c_item 1 0 None [97] false; emt_c_item 1 1 (Some (mkid 1 0)) [98] false])]
              [(emt_c_root, gcb_mkbranch [mkid 1 0; mkid 1 1] [])].
Definition emt_c_t2 := emt_c_txn emt_c_st2 [(1, [(1, 2, tt)])] [] emt_c_all.
Example emt_c_insert_order : emt_run emt_c_t2 = adl_ok [0; 1; 2; 3; 4; 5].
Proof. vm_compute. reflexivity. Qed.
(* the two items were squashed (step 7) before the event was encoded; the event holds the unit (1, 1) only *)
Example emt_c_insert_event :
  match emt_commit emt_c_t2 with
  | adl_ok (t', tr) => (map (fun cb => length (snd cb)) (gcb_clients (emt_store t')),
                        map (fun r => match r with adl_ok u => map xid (units_of_update u) | adl_panic => [] end)
                            (emt_payloads tr))
  | adl_panic => ([], [])
  end = ([1%nat], [[mkid 1 1]; [mkid 1 1]]).
Proof. vm_compute. reflexivity. Qed.

(* ---- 3. integration behind a hole: client 1 has [0,1), a hole [1,3), and the transaction added [3,4).
        The state vector of the store is { 1 -> 1 } before and after ---- *)
Definition emt_c_st3_before : gcb_store :=
  gcb_mkstore [(1, [emt_c_item 1 0 None [97] false])] [(emt_c_root, gcb_mkbranch [mkid 1 0] [])].
Definition emt_c_st3 : gcb_store :=
  gcb_mkstore [(1, [emt_c_item 1 0 None [97] false;
                    gcb_mkcell (BSkip (mkid 1 1) 2) false false false;
                    emt_c_item 1 3 None [100] false])]
              [(emt_c_root, gcb_mkbranch [mkid 1 3; mkid 1 0] [])].
Definition emt_c_ins3 : idset := [(1, [(3, 4, tt)])].
Example emt_c_hole_sv_equal :
  (wbf_state_vector (gcb_to_wbf emt_c_st3_before), wbf_state_vector (gcb_to_wbf emt_c_st3)) = ([(1, 1)], [(1, 1)]).
Proof. vm_compute. reflexivity. Qed.
Example emt_c_hole_fires : emt_run (emt_c_txn emt_c_st3 emt_c_ins3 [] emt_c_upd) = adl_ok [1; 4; 5].
Proof. vm_compute. reflexivity. Qed.
Example emt_c_hole_pre_f694c28 : emt_fires_pre_f694c28 emt_c_st3_before emt_c_st3 [] = false.
Proof. vm_compute. reflexivity. Qed.
Example emt_c_hole_states :
  (emt_compute_before emt_c_st3 emt_c_ins3, emt_compute_after emt_c_st3 emt_c_ins3) = ([(1, 1)], [(1, 4)]).
Proof. vm_compute. reflexivity. Qed.
(* the event before f694c28 had no block; now it has the unit (1, 3) *)
Example emt_c_hole_event :
  (units_of_update (emt_event_pre_f694c28 emt_c_st3 emt_c_ins3 []),
   map xid (units_of_update (wbf_encode_txn_update (gcb_to_wbf emt_c_st3) emt_c_ins3 []))) = ([], [mkid 1 3]).
Proof. vm_compute. reflexivity. Qed.

(* ---- 4. FINDING (before 422808a; repaired): after_state() read before the insertion (emt_after_state_read_early_suppresses_the_event):
        the cell holds { 1 -> 1 }, the transaction then inserted (1, 1) ---- *)
Definition emt_c_t4 : emt_txn :=
  emt_mktxn emt_c_st2 [(1, [(1, 2, tt)])] [] [] None (Some [(1, 1)]) false true false [] (Some emt_c_upd) false true false.
Example emt_c_stale_after_no_event : (emt_run_pre_422808a emt_c_t4, emt_run emt_c_t4) = (adl_ok [1], adl_ok [1; 4; 5]).
Proof. vm_compute. reflexivity. Qed.
(* a stale before_state is harmless *)
Example emt_c_stale_before_event :
  emt_run (emt_mktxn emt_c_st2 [(1, [(1, 2, tt)])] [] [] (Some [(1, 1)]) None false true false [] (Some emt_c_upd)
                     false true false) = adl_ok [1; 4; 5].
Proof. vm_compute. reflexivity. Qed.

(* ---- 5. inserted and deleted in the same transaction, gc on: the event carries ContentDeleted + the delete set ---- *)
Definition emt_c_st5 : gcb_store :=
  gcb_mkstore [(2, [emt_c_item 2 0 None [115; 101; 99] true])] [(emt_c_root, gcb_mkbranch [mkid 2 0] [])].
Definition emt_c_t5 (skip_gc : bool) : emt_txn :=
  emt_mktxn emt_c_st5 [(2, [(0, 3, tt)])] [(2, [(0, 3, tt)])] [] None None false true false [] (Some emt_c_upd)
            skip_gc true false.
Example emt_c_gc_event :
  match emt_commit (emt_c_t5 false) with adl_ok (_, tr) => emt_payloads tr | adl_panic => [] end
  = let u := adl_ok {| u_blocks := [(2, [BItem (mkid 2 0) None None emt_c_root None (BDeleted 3)])];
                       u_ds := [(2, [(0, 3, tt)])] |} in [u; u].
Proof. vm_compute. reflexivity. Qed.
Example emt_c_nogc_event :
  match emt_commit (emt_c_t5 true) with adl_ok (_, tr) => emt_payloads tr | adl_panic => [] end
  = let u := adl_ok {| u_blocks := [(2, [BItem (mkid 2 0) None None emt_c_root None (BString [115; 101; 99])])];
                       u_ds := [(2, [(0, 3, tt)])] |} in [u; u].
Proof. vm_compute. reflexivity. Qed.
(* the bytes of the v1 event: those of the replay (insert "secret"... here 3 letters) *)
Example emt_c_gc_bytes :
  match emt_commit (emt_c_t5 false) with
  | adl_ok (t', _) => emt_event_bytes_v1 (emt_store t') (emt_ins t') (emt_ds t')
  | adl_panic => Panic 0
  end = Ok [1; 1; 2; 0; 1; 1; 1; 116; 3; 1; 2; 1; 0; 3] [].
Proof. vm_compute. reflexivity. Qed.

(* ---- 6. cleanup_fmt deletes a Format item after the observers ran: they saw an empty delete set, the event has it ---- *)
Definition emt_c_fmt (c k : N) (del : bool) : gcb_cell :=
  gcb_mkcell (BItem (mkid c k) None None emt_c_root None (BFormat [98] [110; 117; 108; 108])) del false false.
Definition emt_c_st6 : gcb_store :=
  gcb_mkstore [(1, [emt_c_fmt 1 0 false]); (2, [emt_c_fmt 2 0 false])]
              [(emt_c_root, gcb_mkbranch [mkid 1 0; mkid 2 0] [])].
Definition emt_c_t6 : emt_txn :=
  emt_mktxn emt_c_st6 [(2, [(0, 1, tt)])] [] [] None None false true true [mkid 1 0] (Some emt_c_all) false true false.
Example emt_c_fmt_trace :
  match emt_commit emt_c_t6 with
  | adl_ok (_, tr) =>
      flat_map (fun e => match e with
                         | emt_ev_observers ds => [(1, ds)]
                         | emt_ev_after_transaction ds => [(2, ds)]
                         | emt_ev_update_v1 (adl_ok u) => [(4, u_ds u)]
                         | _ => []
                         end) tr
  | adl_panic => []
  end = [(1, []); (2, [(1, [(0, 1, tt)])]); (4, [(1, [(0, 1, tt)])])].
Proof. vm_compute. reflexivity. Qed.
(* with cleanup_formatting off nothing is deleted *)
Example emt_c_fmt_off :
  match emt_commit (emt_mktxn emt_c_st6 [(2, [(0, 1, tt)])] [] [] None None false true true [mkid 1 0] (Some emt_c_all)
                              false false false) with
  | adl_ok (t', _) => emt_ds t'
  | adl_panic => [(9, [])]
  end = [].
Proof. vm_compute. reflexivity. Qed.

(* ---- 7. at most once ---- *)
Example emt_c_twice :
  match emt_commit emt_c_t2 with
  | adl_ok (t1, tr1) => (length tr1, emt_commit t1 = adl_ok (t1, []))
  | adl_panic => (0%nat, False)
  end = (6%nat, emt_commit (match emt_commit emt_c_t2 with adl_ok (t1, _) => t1 | adl_panic => emt_c_t2 end)
               = adl_ok (match emt_commit emt_c_t2 with adl_ok (t1, _) => t1 | adl_panic => emt_c_t2 end, [])).
Proof. reflexivity. Qed.

(* ---- non-vacuity of the hypotheses ---- *)
Example emt_c_hyps :
  (emt_keys_ok emt_c_st3, emt_ins_ok emt_c_ins3, wbf_wf (gcb_to_wbf emt_c_st3),
   wbf_txn_cut_ok (gcb_to_wbf emt_c_st3) emt_c_ins3, gcb_lists_wf emt_c_st3) = (true, true, true, true, true).
Proof. vm_compute. reflexivity. Qed.

(* ---- the witnesses of the `_refuted` theorems of CommitProofs.v ---- *)
From YV.Crdt Require Import CommitProofs.
Example emt_c_w_stale : emt_run_pre_422808a emt_w_stale = adl_ok [1]     (* observers ran; no update event *)
  /\ emt_run emt_w_stale = adl_ok [1; 4; 5]
  /\ emt_run_pre_422808a (emt_mktxn (emt_store emt_w_stale) (emt_ins emt_w_stale) [] [] None None false true false []
                        (emt_events emt_w_stale) false true false) = adl_ok [1; 4; 5].
Proof. repeat split; vm_compute; reflexivity. Qed.
Example emt_c_w_hole :
  (emt_fires_pre_f694c28 emt_w_hole0 emt_w_hole [],
   emt_fires_pre_422808a [] (emt_compute_before emt_w_hole [(1, [(3, 4, tt)])]) (emt_compute_after emt_w_hole [(1, [(3, 4, tt)])]),
   emt_fires [(1, [(3, 4, tt)])] [])
  = (false, true, true).
Proof. vm_compute. reflexivity. Qed.
(* the executable form of "the follower learns the leader's deletedness" on the cells of case 5 *)
Example emt_c_covered :
  match emt_commit (emt_c_t5 false) with
  | adl_ok (t', _) => forallb (fun cb => forallb (emt_cell_covered (emt_ds t')) (snd cb)) (gcb_clients (emt_store t'))
  | adl_panic => false
  end = true.
Proof. vm_compute. reflexivity. Qed.
