(* Facts about the block-level bookkeeping of quotations (Crdt/LinkBlocks.v): it refines the unit-level model of
   registration (Crdt/Links.v).  Standard library + Crdt/Links(Proofs) only; no axioms.

   (1) lkb_materialize_refines        LinkSource::materialize registers, per unit, what lk_materialize registers;
                                      no failure value, units / other quotations / quotes table as stated,
                                      flags = old flags or registered, lkb_inv and lkb_wf_blocks kept
       lkb_materialize_refines_oracle ... = lk_initial_registered on the encoded values
   (2) lkb_split_preserves            Store::split_block changes nothing per unit (units, registrations, flags)
       lkb_split_preserves_old_refuted  the split before 19d2098 (still used by split_by_snapshot) drops the
                                      registration of the right half; a later deletion notifies nobody
   (3) lkb_integrate_refines(_oracle) integrate_item + join_linked_range = lk_next_reg_units / lk_next_registered
       lkb_integrate_inv
   (4) lkb_delete_refines(_oracle)    TransactionMut::delete of one block = the unit-level deletion step;
                                      notified quotations = lk_notify_units / lk_should_notify
   (5) lkb_unlink_exact               unlink_all removes exactly the registrations of the quotation
                                      (hypothesis lkb_reg_after_start); lkb_unlink_inv
   (6) lkb_flag_entry_invariant       in every reachable state every entry of linked_by is non-empty and belongs
                                      to a flagged block (lkb_inv) and the blocks stay well formed
       lkb_flag_entry_iff_refuted     the converse fails: join_linked_range and delete leave flagged blocks
                                      without an entry
       lkb_squash_preserves           try_squash changes nothing per unit and merges only blocks that are
                                      registered for no quotation

   Parts B and C were developed in separate files (prefixes lkb_m_, lkb_i_); helper lemmas of part A have the
   prefix lkb_p_. *)

From Coq Require Import List NArith Bool Arith Lia.
From YV Require Import Codec.UpdateV1 Crdt.Links Crdt.LinksProofs.
From YV.Crdt Require Import LinkBlocks.
Import ListNotations.

(* ########## part A: maps, ids, split, delete, unlink, squash ########## *)
Open Scope N_scope.

(* ====================================================================== *)
(* P0. maps, sets                                                          *)
(* ====================================================================== *)
Lemma lkb_p_get_del_same : forall k m, lkb_get k (lkb_del k m) = None.
Proof.
  intros k m. unfold lkb_del. induction m as [|[k' v] r IH]; cbn; [reflexivity|].
  destruct (id_eqb k' k) eqn:E; cbn; [exact IH|]. rewrite E. exact IH.
Qed.

Lemma lkb_p_get_del_other : forall k k' m, k' <> k -> lkb_get k' (lkb_del k m) = lkb_get k' m.
Proof.
  intros k k' m H. unfold lkb_del. induction m as [|[k2 v] r IH]; cbn; [reflexivity|].
  destruct (id_eqb k2 k) eqn:E; cbn.
  - apply lk_id_eqb_eq in E. subst k2. destruct (id_eqb k k') eqn:E2; [|exact IH].
    apply lk_id_eqb_eq in E2. congruence.
  - rewrite IH. reflexivity.
Qed.

Lemma lkb_p_get_put_same : forall k v m, lkb_get k (lkb_put k v m) = Some v.
Proof. intros k v m. unfold lkb_put. cbn. rewrite lk_id_eqb_refl. reflexivity. Qed.

Lemma lkb_p_get_put_other : forall k k' v m, k' <> k -> lkb_get k' (lkb_put k v m) = lkb_get k' m.
Proof.
  intros k k' v m H. unfold lkb_put. cbn. destruct (id_eqb k k') eqn:E.
  - apply lk_id_eqb_eq in E. congruence.
  - apply lkb_p_get_del_other. exact H.
Qed.

Lemma lkb_p_regs_put_same : forall k v m, lkb_regs (lkb_put k v m) k = v.
Proof. intros. unfold lkb_regs. rewrite lkb_p_get_put_same. reflexivity. Qed.
Lemma lkb_p_regs_put_other : forall k k' v m, k' <> k -> lkb_regs (lkb_put k v m) k' = lkb_regs m k'.
Proof. intros. unfold lkb_regs. rewrite lkb_p_get_put_other by assumption. reflexivity. Qed.
Lemma lkb_p_regs_del_same : forall k m, lkb_regs (lkb_del k m) k = [].
Proof. intros. unfold lkb_regs. rewrite lkb_p_get_del_same. reflexivity. Qed.
Lemma lkb_p_regs_del_other : forall k k' m, k' <> k -> lkb_regs (lkb_del k m) k' = lkb_regs m k'.
Proof. intros. unfold lkb_regs. rewrite lkb_p_get_del_other by assumption. reflexivity. Qed.

Lemma lkb_p_nmem_In : forall q l, lkb_nmem q l = true <-> In q l.
Proof.
  intros q l. unfold lkb_nmem. rewrite existsb_exists. split.
  - intros [x [H E]]. apply N.eqb_eq in E. subst. exact H.
  - intros H. exists q. split; [exact H|apply N.eqb_refl].
Qed.

Lemma lkb_p_nmem_nremove : forall q q' l, lkb_nmem q' (lkb_nremove q l) = lkb_nmem q' l && negb (q' =? q).
Proof.
  intros q q' l. apply eq_iff_eq_true. rewrite andb_true_iff, negb_true_iff, !lkb_p_nmem_In, N.eqb_neq.
  unfold lkb_nremove. rewrite filter_In, negb_true_iff, N.eqb_neq. tauto.
Qed.

(* keys *)
Definition lkb_p_keys (m : lkb_links) : list id := map fst m.

Lemma lkb_p_get_Some_In : forall k v m, lkb_get k m = Some v -> In (k, v) m.
Proof.
  intros k v m. induction m as [|[k' v'] r IH]; cbn; [discriminate|].
  destruct (id_eqb k' k) eqn:E.
  - intros H. inversion H. apply lk_id_eqb_eq in E. subst. left. reflexivity.
  - intros H. right. apply IH. exact H.
Qed.

Lemma lkb_p_get_None : forall k m, lkb_get k m = None <-> ~ In k (lkb_p_keys m).
Proof.
  intros k m. induction m as [|[k' v'] r IH]; cbn.
  - split; [intros _ []|reflexivity].
  - destruct (id_eqb k' k) eqn:E.
    + apply lk_id_eqb_eq in E. subst. split; [discriminate|]. intros H. exfalso. apply H. left. reflexivity.
    + apply lk_id_eqb_neq in E. rewrite IH. split.
      * intros H [H1|H1]; [congruence|contradiction].
      * intros H H1. apply H. right. exact H1.
Qed.

Lemma lkb_p_keys_nodup_spec : forall m, lkb_keys_nodup m = true <-> NoDup (lkb_p_keys m).
Proof.
  induction m as [|[k v] r IH]; cbn.
  - split; [constructor|reflexivity].
  - rewrite andb_true_iff, negb_true_iff, IH. split.
    + intros [H1 H2]. constructor; [|exact H2]. intros H. apply in_map_iff in H. destruct H as [[k' v'] [E H]].
      cbn in E. subst k'. assert (X : existsb (fun p => id_eqb (fst p) k) r = true).
      { apply existsb_exists. exists (k, v'). split; [exact H|apply lk_id_eqb_refl]. }
      congruence.
    + intros H. inversion H as [|? ? H1 H2]. subst. split; [|exact H2].
      destruct (existsb (fun p => id_eqb (fst p) k) r) eqn:X; [|reflexivity].
      apply existsb_exists in X. destruct X as [[k' v'] [H3 E]]. cbn in E. apply lk_id_eqb_eq in E. subst k'.
      exfalso. apply H1. apply in_map_iff. exists (k, v'). split; [reflexivity|exact H3].
Qed.

Lemma lkb_p_In_get : forall k v m, NoDup (lkb_p_keys m) -> In (k, v) m -> lkb_get k m = Some v.
Proof.
  intros k v m. induction m as [|[k' v'] r IH]; cbn; intros N H; [contradiction|].
  inversion N as [|? ? N1 N2]. subst. destruct H as [H|H].
  - inversion H. subst. rewrite lk_id_eqb_refl. reflexivity.
  - destruct (id_eqb k' k) eqn:E.
    + apply lk_id_eqb_eq in E. subst k'. exfalso. apply N1. apply in_map_iff. exists (k, v). split; [reflexivity|exact H].
    + apply IH; assumption.
Qed.

Lemma lkb_p_del_In : forall k p m, In p (lkb_del k m) <-> In p m /\ fst p <> k.
Proof.
  intros k p m. unfold lkb_del. rewrite filter_In, negb_true_iff, lk_id_eqb_neq. reflexivity.
Qed.

Lemma lkb_p_keys_del_nodup : forall k m, NoDup (lkb_p_keys m) -> NoDup (lkb_p_keys (lkb_del k m)).
Proof.
  intros k m. induction m as [|[k' v'] r IH]; cbn; intros N; [constructor|].
  inversion N as [|? ? N1 N2]. subst. destruct (id_eqb k' k); cbn; [apply IH; exact N2|].
  constructor; [|apply IH; exact N2]. intros H. apply N1. apply in_map_iff in H. destruct H as [p [E H]].
  apply lkb_p_del_In in H. destruct H as [H _]. apply in_map_iff. exists p. split; assumption.
Qed.

Lemma lkb_p_keys_put_nodup : forall k v m, NoDup (lkb_p_keys m) -> NoDup (lkb_p_keys (lkb_put k v m)).
Proof.
  intros k v m N. unfold lkb_put. cbn. constructor; [|apply lkb_p_keys_del_nodup; exact N].
  intros H. apply in_map_iff in H. destruct H as [p [E H]]. apply lkb_p_del_In in H. destruct H as [_ H]. congruence.
Qed.

(* ====================================================================== *)
(* P1. ids of a block                                                      *)
(* ====================================================================== *)
Lemma lkb_p_iota_app : forall c n1 n2 k, lkb_iota c k (n1 + n2) = lkb_iota c k n1 ++ lkb_iota c (k + N.of_nat n1) n2.
Proof.
  intros c n1. induction n1 as [|n1 IH]; intros n2 k.
  - cbn. rewrite N.add_0_r. reflexivity.
  - cbn [Nat.add lkb_iota app]. f_equal. rewrite IH. f_equal. f_equal. lia.
Qed.

Lemma lkb_p_iota_In : forall c n k a, In a (lkb_iota c k n) <-> cl a = c /\ k <= ck a /\ ck a < k + N.of_nat n.
Proof.
  intros c n. induction n as [|n IH]; intros k a.
  - cbn. split; [intros []|]. intros [_ [H1 H2]]. lia.
  - cbn [lkb_iota In]. rewrite IH. split.
    + intros [H|[H1 [H2 H3]]]; [subst a; cbn; lia|]. lia.
    + intros [H1 [H2 H3]]. destruct (N.eq_dec (ck a) k) as [E|E].
      * left. destruct a as [ca ka]. cbn in *. subst. reflexivity.
      * right. lia.
Qed.

Lemma lkb_p_block_ids_In : forall b a, In a (lkb_block_ids b) <-> lkb_contains b a = true.
Proof.
  intros b a. unfold lkb_block_ids, lkb_contains. rewrite lkb_p_iota_In, N2Nat.id.
  rewrite !andb_true_iff, N.eqb_eq, N.leb_le, N.ltb_lt. tauto.
Qed.

Lemma lkb_p_bid_In : forall b, 0 < lkb_blen b -> In (lkb_bid b) (lkb_block_ids b).
Proof.
  intros b H. apply lkb_p_block_ids_In. unfold lkb_contains.
  rewrite !andb_true_iff, N.eqb_eq, N.leb_le, N.ltb_lt. lia.
Qed.

Lemma lkb_p_splice_ids : forall b off x y, lkb_splice b off = lkb_ok (Some (x, y)) ->
  lkb_block_ids b = lkb_block_ids x ++ lkb_block_ids y /\
  lkb_bid x = lkb_bid b /\ lkb_bid y = mkid (cl (lkb_bid b)) (ck (lkb_bid b) + off) /\
  lkb_bdel x = lkb_bdel b /\ lkb_bdel y = lkb_bdel b /\
  lkb_blinked x = lkb_blinked b /\ lkb_blinked y = lkb_blinked b /\
  0 < off /\ off < lkb_blen b /\ lkb_blen x = off /\ lkb_blen y = lkb_blen b - off.
Proof.
  intros b off x y H. unfold lkb_splice in H. destruct (off =? 0) eqn:E0; [discriminate|].
  destruct (off <? lkb_blen b) eqn:E1; [|discriminate]. inversion H. subst x y. clear H. cbn.
  apply N.eqb_neq in E0. apply N.ltb_lt in E1. repeat split; try lia.
  unfold lkb_block_ids. cbn.
  replace (N.to_nat (lkb_blen b)) with (N.to_nat off + N.to_nat (lkb_blen b - off))%nat by lia.
  rewrite lkb_p_iota_app, N2Nat.id. reflexivity.
Qed.

(* all unit ids of a block list *)
Definition lkb_p_all_ids (l : list lkb_block) : list id := flat_map lkb_block_ids l.

Lemma lkb_p_units_ids : forall l, lk_ids (lkb_units_of l) = lkb_p_all_ids l.
Proof.
  induction l as [|b r IH]; [reflexivity|].
  change (lkb_units_of (b :: r)) with (lkb_block_units b ++ lkb_units_of r).
  change (lkb_p_all_ids (b :: r)) with (lkb_block_ids b ++ lkb_p_all_ids r).
  unfold lk_ids. rewrite map_app. f_equal; [|exact IH].
  unfold lkb_block_units. rewrite map_map. cbn. apply map_id.
Qed.

Lemma lkb_p_nodup_spec : forall l, lk_nodup l = true <-> NoDup l.
Proof.
  induction l as [|a r IH]; cbn.
  - split; [constructor|reflexivity].
  - rewrite andb_true_iff, negb_true_iff, IH, lk_mem_false. split.
    + intros [H1 H2]. constructor; assumption.
    + intros H. inversion H. split; assumption.
Qed.

Lemma lkb_p_wf_spec : forall l, lkb_wf_blocks l = true <->
  (forall b, In b l -> 0 < lkb_blen b) /\ NoDup (lkb_p_all_ids l).
Proof.
  intros l. unfold lkb_wf_blocks. rewrite andb_true_iff, forallb_forall, lkb_p_nodup_spec, lkb_p_units_ids.
  split; intros [H1 H2]; (split; [|exact H2]); intros b Hb; specialize (H1 b Hb); [apply N.ltb_lt|apply N.ltb_lt]; exact H1.
Qed.

Lemma lkb_p_nodup_app_disj : forall (A : Type) (l1 l2 : list A) x, NoDup (l1 ++ l2) -> In x l1 -> In x l2 -> False.
Proof.
  intros A l1. induction l1 as [|a r IH]; intros l2 x N H1 H2; [contradiction|].
  cbn in N. inversion N as [|? ? N1 N2]. subst. destruct H1 as [H1|H1].
  - subst. apply N1. apply in_or_app. right. exact H2.
  - eapply IH; eassumption.
Qed.

Lemma lkb_p_nodup_app_r : forall (A : Type) (l1 l2 : list A), NoDup (l1 ++ l2) -> NoDup l2.
Proof. intros A l1. induction l1 as [|a r IH]; intros l2 N; [exact N|]. inversion N. apply IH. assumption. Qed.

Lemma lkb_p_all_ids_app : forall l1 l2, lkb_p_all_ids (l1 ++ l2) = lkb_p_all_ids l1 ++ lkb_p_all_ids l2.
Proof. intros. unfold lkb_p_all_ids. apply flat_map_app. Qed.

Lemma lkb_p_all_ids_In : forall l a, In a (lkb_p_all_ids l) <-> exists b, In b l /\ In a (lkb_block_ids b).
Proof. intros. unfold lkb_p_all_ids. apply in_flat_map. Qed.

(* in a well-formed list pre ++ b :: post, an id of b is in no other block *)
Lemma lkb_p_other_block : forall pre b post c a,
  NoDup (lkb_p_all_ids (pre ++ b :: post)) -> In c (pre ++ post) ->
  In a (lkb_block_ids b) -> In a (lkb_block_ids c) -> False.
Proof.
  intros pre b post c a N Hc Hb Ha. rewrite lkb_p_all_ids_app in N. cbn in N.
  apply in_app_or in Hc. destruct Hc as [Hc|Hc].
  - eapply (lkb_p_nodup_app_disj _ _ _ a N).
    + apply lkb_p_all_ids_In. exists c. split; assumption.
    + apply in_or_app. left. exact Hb.
  - apply lkb_p_nodup_app_r in N. eapply (lkb_p_nodup_app_disj _ _ _ a N); [exact Hb|].
    apply lkb_p_all_ids_In. exists c. split; assumption.
Qed.

(* ====================================================================== *)
(* P2. find_block and the invariant as propositions                        *)
(* ====================================================================== *)
Lemma lkb_p_find_block_Some : forall a l b, lkb_find_block a l = Some b -> In b l /\ lkb_bid b = a.
Proof.
  intros a l b H. unfold lkb_find_block in H. apply find_some in H. destruct H as [H E].
  apply lk_id_eqb_eq in E. split; assumption.
Qed.

Lemma lkb_p_find_block_app : forall a pre b post,
  (forall c, In c pre -> lkb_bid c <> a) -> lkb_bid b = a -> lkb_find_block a (pre ++ b :: post) = Some b.
Proof.
  intros a pre b post H E. induction pre as [|c r IH]; cbn.
  - rewrite E, lk_id_eqb_refl. reflexivity.
  - destruct (id_eqb (lkb_bid c) a) eqn:E2.
    + apply lk_id_eqb_eq in E2. exfalso. apply (H c); [left; reflexivity|exact E2].
    + apply IH. intros c' Hc. apply H. right. exact Hc.
Qed.

(* distinct blocks of a well-formed list have distinct first ids *)
Lemma lkb_p_decomp : forall (l : list lkb_block) b, In b l -> exists pre post, l = pre ++ b :: post.
Proof. intros l b H. apply in_split. exact H. Qed.

Lemma lkb_p_find_block_In : forall l b, lkb_wf_blocks l = true -> In b l -> lkb_find_block (lkb_bid b) l = Some b.
Proof.
  intros l b W H. apply lkb_p_wf_spec in W. destruct W as [W1 W2].
  destruct (in_split _ _ H) as [pre [post E]]. subst l. apply lkb_p_find_block_app; [|reflexivity].
  intros c Hc E. eapply (lkb_p_other_block pre b post c (lkb_bid b) W2).
  - apply in_or_app. left. exact Hc.
  - apply lkb_p_bid_In. apply W1. apply in_or_app. right. left. reflexivity.
  - rewrite <- E. apply lkb_p_bid_In. apply W1. apply in_or_app. left. exact Hc.
Qed.

Definition lkb_p_inv (m : lkb_links) (l : list lkb_block) : Prop :=
  NoDup (lkb_p_keys m) /\
  forall k v, In (k, v) m -> v <> [] /\ lkb_nnodup v = true /\
    exists b, In b l /\ lkb_bid b = k /\ lkb_blinked b = true.

Lemma lkb_p_inv_spec : forall m l, lkb_wf_blocks l = true -> (lkb_inv_of m l = true <-> lkb_p_inv m l).
Proof.
  intros m l W. unfold lkb_inv_of, lkb_p_inv. rewrite andb_true_iff, lkb_p_keys_nodup_spec, forallb_forall.
  split; intros [H1 H2]; (split; [exact H1|]).
  - intros k v H. specialize (H2 _ H). cbn in H2. apply andb_true_iff in H2. destruct H2 as [H2 H3].
    apply andb_true_iff in H2. destruct H2 as [H2 H4]. split; [destruct v; [discriminate|discriminate]|].
    split; [exact H4|]. destruct (lkb_find_block k l) as [b|] eqn:F; [|discriminate].
    apply lkb_p_find_block_Some in F. destruct F as [F1 F2]. exists b. auto.
  - intros [k v] H. destruct (H2 _ _ H) as [A [B [b [C [D E]]]]]. cbn.
    rewrite B. subst k. rewrite (lkb_p_find_block_In l b W C), E. destruct v; [congruence|reflexivity].
Qed.

(* under the invariant, a block without the flag has no entry *)
Lemma lkb_p_unflagged_no_entry : forall m l b, lkb_wf_blocks l = true -> lkb_p_inv m l ->
  In b l -> lkb_blinked b = false -> lkb_get (lkb_bid b) m = None.
Proof.
  intros m l b W [I1 I2] Hb F. destruct (lkb_get (lkb_bid b) m) as [v|] eqn:G; [|reflexivity].
  apply lkb_p_get_Some_In in G. destruct (I2 _ _ G) as [_ [_ [c [C [D E]]]]].
  assert (X : lkb_find_block (lkb_bid c) l = Some c) by (apply lkb_p_find_block_In; assumption).
  rewrite D in X. rewrite (lkb_p_find_block_In l b W Hb) in X. inversion X. subst. congruence.
Qed.

(* a key is the first id of a block *)
Lemma lkb_p_key_is_bid : forall m l k, lkb_p_inv m l -> In k (lkb_p_keys m) -> exists b, In b l /\ lkb_bid b = k.
Proof.
  intros m l k [_ I2] H. apply in_map_iff in H. destruct H as [[k' v] [E H]]. cbn in E. subst k'.
  destruct (I2 _ _ H) as [_ [_ [b [C [D _]]]]]. exists b. auto.
Qed.

(* ====================================================================== *)
(* P3. per-unit registrations                                              *)
(* ====================================================================== *)
Lemma lkb_p_unit_regs_app : forall m l1 l2,
  lkb_unit_regs_of m (l1 ++ l2) = lkb_unit_regs_of m l1 ++ lkb_unit_regs_of m l2.
Proof. intros. unfold lkb_unit_regs_of. apply flat_map_app. Qed.

Lemma lkb_p_unit_regs_ext : forall m m' l,
  (forall c, In c l -> lkb_regs m' (lkb_bid c) = lkb_regs m (lkb_bid c)) ->
  lkb_unit_regs_of m' l = lkb_unit_regs_of m l.
Proof.
  intros m m' l H. induction l as [|c r IH]; [reflexivity|]. unfold lkb_unit_regs_of in *. cbn.
  rewrite (H c) by (left; reflexivity). f_equal. apply IH. intros c' Hc. apply H. right. exact Hc.
Qed.

Lemma lkb_p_units_app : forall l1 l2, lkb_units_of (l1 ++ l2) = lkb_units_of l1 ++ lkb_units_of l2.
Proof. intros. unfold lkb_units_of. apply flat_map_app. Qed.

Lemma lkb_p_flags_app : forall l1 l2, lkb_unit_flags_of (l1 ++ l2) = lkb_unit_flags_of l1 ++ lkb_unit_flags_of l2.
Proof. intros. unfold lkb_unit_flags_of. apply flat_map_app. Qed.

(* ====================================================================== *)
(* T2. Store::split_block                                                  *)
(* ====================================================================== *)
Lemma lkb_p_split_blocks_spec : forall a off l x y l',
  lkb_split_blocks a off l = lkb_ok (Some (x, y, l')) ->
  exists pre b post, l = pre ++ b :: post /\ l' = pre ++ x :: y :: post /\ lkb_bid b = a /\
    (forall c, In c pre -> lkb_bid c <> a) /\ lkb_splice b off = lkb_ok (Some (x, y)).
Proof.
  intros a off l. induction l as [|b r IH]; intros x y l' H; cbn in H; [discriminate|].
  destruct (id_eqb (lkb_bid b) a) eqn:E.
  - destruct (lkb_splice b off) as [[[x' y']|]|] eqn:S; try discriminate. inversion H. subst.
    exists [], b, r. apply lk_id_eqb_eq in E. repeat split; auto; try (intros c []).
  - destruct (lkb_split_blocks a off r) as [[[[x' y'] r']|]|] eqn:R; try discriminate. inversion H. subst.
    destruct (IH _ _ _ eq_refl) as [pre [b' [post [A [B [C [D F]]]]]]]. subst.
    exists (b :: pre), b', post. repeat split; auto. intros c [Hc|Hc]; [subst; apply lk_id_eqb_neq; exact E|auto].
Qed.

Theorem lkb_split_preserves : forall st a off st',
  lkb_wf_blocks (lkb_blocks st) = true -> lkb_inv st = true ->
  lkb_split st a off = lkb_ok st' ->
  lkb_units st' = lkb_units st /\
  lkb_unit_regs st' = lkb_unit_regs st /\
  lkb_unit_flags_of (lkb_blocks st') = lkb_unit_flags_of (lkb_blocks st) /\
  lkb_inv st' = true /\ lkb_wf_blocks (lkb_blocks st') = true /\ lkb_quotes st' = lkb_quotes st.
Proof.
  intros st a off st' W I H. unfold lkb_split in H.
  destruct (lkb_split_blocks a off (lkb_blocks st)) as [[[[x y] bl]|]|] eqn:S; try discriminate.
  2:{ inversion H. subst. repeat split; auto. }
  apply lkb_p_split_blocks_spec in S. destruct S as [pre [b [post [E1 [E2 [E3 [E4 E5]]]]]]].
  apply lkb_p_splice_ids in E5.
  destruct E5 as [Sids [Sx [Sy [Dx [Dy [Fx [Fy [O1 [O2 [Lx Ly]]]]]]]]]].
  unfold lkb_inv in I. pose proof (proj1 (lkb_p_inv_spec _ _ W) I) as PI.
  pose proof (proj1 (lkb_p_wf_spec _) W) as [W1 W2]. rewrite E1 in W1, W2, PI.
  (* ids of the new list *)
  assert (AI : lkb_p_all_ids bl = lkb_p_all_ids (lkb_blocks st)).
  { rewrite E1, E2, !lkb_p_all_ids_app. cbn. rewrite Sids, <- app_assoc. reflexivity. }
  assert (Wbl : lkb_wf_blocks bl = true).
  { apply lkb_p_wf_spec. split.
    - intros c Hc. rewrite E2 in Hc. apply in_app_or in Hc. destruct Hc as [Hc|[Hc|[Hc|Hc]]].
      + apply W1. apply in_or_app. left. exact Hc.
      + subst c. lia.
      + subst c. lia.
      + apply W1. apply in_or_app. right. right. exact Hc.
    - rewrite AI, E1. exact W2. }
  (* the new key is fresh *)
  assert (Yin : In (lkb_bid y) (lkb_block_ids b)).
  { apply lkb_p_block_ids_In. unfold lkb_contains. rewrite Sy. cbn.
    rewrite !andb_true_iff, N.eqb_eq, N.leb_le, N.ltb_lt. lia. }
  assert (Ynb : lkb_bid y <> lkb_bid b).
  { rewrite Sy. intros X. destruct (lkb_bid b) as [c k]. cbn in X. inversion X. lia. }
  assert (Yother : forall c, In c (pre ++ post) -> lkb_bid c <> lkb_bid y).
  { intros c Hc X. eapply (lkb_p_other_block pre b post c (lkb_bid y) W2 Hc Yin).
    rewrite <- X. apply lkb_p_bid_In. apply W1. apply in_app_or in Hc. apply in_or_app.
    destruct Hc; [left|right; right]; assumption. }
  assert (Ykey : lkb_get (lkb_bid y) (lkb_linked_by st) = None).
  { apply lkb_p_get_None. intros K. destruct (lkb_p_key_is_bid _ _ _ PI K) as [c [Hc Ec]].
    apply in_app_or in Hc. destruct Hc as [Hc|[Hc|Hc]].
    - apply (Yother c); [apply in_or_app; left; exact Hc|exact Ec].
    - subst c. congruence.
    - apply (Yother c); [apply in_or_app; right; exact Hc|exact Ec]. }
  set (m := lkb_linked_by st) in *.
  set (m' := if lkb_blinked x
             then match lkb_get (lkb_bid x) m with Some qs => lkb_put (lkb_bid y) qs m | None => m end
             else m) in *.
  inversion H. subst st'. clear H. cbn [lkb_blocks lkb_linked_by lkb_quotes].
  assert (Bin : In b (pre ++ b :: post)) by (apply in_or_app; right; left; reflexivity).
  (* registrations seen from each key *)
  assert (Rother : forall k, k <> lkb_bid y -> lkb_regs m' k = lkb_regs m k).
  { intros k Hk. unfold m'. destruct (lkb_blinked x); [|reflexivity].
    destruct (lkb_get (lkb_bid x) m); [|reflexivity]. apply lkb_p_regs_put_other. exact Hk. }
  assert (Ry : lkb_regs m' (lkb_bid y) = lkb_regs m (lkb_bid b)).
  { unfold m'. rewrite Sx. destruct (lkb_blinked x) eqn:FX.
    - unfold lkb_regs at 2. destruct (lkb_get (lkb_bid b) m) as [qs|] eqn:G.
      + apply lkb_p_regs_put_same.
      + unfold lkb_regs. rewrite Ykey. reflexivity.
    - rewrite Fx in FX. unfold lkb_regs. rewrite Ykey.
      rewrite (lkb_p_unflagged_no_entry m (pre ++ b :: post) b); auto. rewrite <- E1. exact W. }
  split; [|split; [|split; [|split; [|split]]]]; auto.
  - unfold lkb_units. cbn. rewrite E1, E2, !lkb_p_units_app. f_equal. unfold lkb_units_of. cbn.
    unfold lkb_block_units. rewrite Sids, map_app, Dx, Dy, <- app_assoc. reflexivity.
  - unfold lkb_unit_regs. cbn [lkb_blocks lkb_linked_by]. fold m. rewrite E1, E2, !lkb_p_unit_regs_app. f_equal.
    + apply lkb_p_unit_regs_ext. intros c Hc. apply Rother. apply Yother. apply in_or_app. left. exact Hc.
    + unfold lkb_unit_regs_of. cbn. rewrite Sids, map_app, <- app_assoc. f_equal; [|f_equal].
      * rewrite Sx. rewrite Rother by (apply not_eq_sym; exact Ynb). reflexivity.
      * rewrite Ry. reflexivity.
      * apply (lkb_p_unit_regs_ext m m' post). intros c Hc. apply Rother. apply Yother. apply in_or_app. right. exact Hc.
  - rewrite E1, E2, !lkb_p_flags_app. f_equal. unfold lkb_unit_flags_of. cbn.
    rewrite Sids, map_app, Fx, Fy, <- app_assoc. reflexivity.
  - unfold lkb_inv. cbn. apply (lkb_p_inv_spec _ _ Wbl). destruct PI as [P1 P2].
    assert (Old : forall k v, In (k, v) m -> v <> [] /\ lkb_nnodup v = true /\
              exists c, In c bl /\ lkb_bid c = k /\ lkb_blinked c = true).
    { intros k v Hkv. destruct (P2 _ _ Hkv) as [A [B [c [C [D F]]]]]. split; [exact A|]. split; [exact B|].
      apply in_app_or in C. destruct C as [C|[C|C]].
      - exists c. rewrite E2. split; [apply in_or_app; left; exact C|auto].
      - subst c. exists x. rewrite E2. split; [apply in_or_app; right; left; reflexivity|]. split; congruence.
      - exists c. rewrite E2. split; [apply in_or_app; right; right; right; exact C|auto]. }
    unfold m'. destruct (lkb_blinked x) eqn:FX; [|split; assumption].
    destruct (lkb_get (lkb_bid x) m) as [qs|] eqn:G; [|split; assumption].
    split; [apply lkb_p_keys_put_nodup; exact P1|].
    intros k v Hkv. unfold lkb_put in Hkv. destruct Hkv as [Hkv|Hkv].
    + inversion Hkv. subst k v. apply lkb_p_get_Some_In in G. destruct (P2 _ _ G) as [A [B _]].
      split; [exact A|]. split; [exact B|]. exists y. rewrite E2. split; [apply in_or_app; right; right; left; reflexivity|].
      split; [reflexivity|]. congruence.
    + apply lkb_p_del_In in Hkv. destruct Hkv as [Hkv _]. apply Old. exact Hkv.
Qed.

(* a split with an offset inside the block does not fail (and does split: see the Cases file) *)
Lemma lkb_split_no_failure : forall st a off b,
  lkb_find_block a (lkb_blocks st) = Some b -> off < lkb_blen b -> exists st', lkb_split st a off = lkb_ok st'.
Proof.
  intros st a off b F O. unfold lkb_split.
  assert (X : forall l, lkb_find_block a l = Some b ->
     (exists r, lkb_split_blocks a off l = lkb_ok r)).
  { induction l as [|c r IH]; cbn; intros H; [discriminate|]. destruct (id_eqb (lkb_bid c) a) eqn:E.
    - inversion H. subst c. unfold lkb_splice. destruct (off =? 0); [eexists; reflexivity|].
      apply N.ltb_lt in O. rewrite O. eexists. reflexivity.
    - destruct (IH H) as [[[[x y] r']|] R]; rewrite R; eexists; reflexivity. }
  destruct (X _ F) as [[[[x y] r']|] R]; rewrite R; eexists; reflexivity.
Qed.

(* ====================================================================== *)
(* P4. membership in the registered set, liveness                          *)
(* ====================================================================== *)
Lemma lkb_p_reg_In : forall m l q x,
  In x (lkb_reg_of m l q) <-> exists c, In c l /\ In x (lkb_block_ids c) /\ lkb_nmem q (lkb_regs m (lkb_bid c)) = true.
Proof.
  intros m l q x. unfold lkb_reg_of, lkb_unit_regs_of. rewrite in_map_iff. split.
  - intros [[x' v] [E H]]. cbn in E. subst x'. apply filter_In in H. destruct H as [H P]. cbn in P.
    apply in_flat_map in H. destruct H as [c [Hc H]]. apply in_map_iff in H. destruct H as [a [E H]].
    inversion E. subst. exists c. auto.
  - intros [c [Hc [Hx P]]]. exists (x, lkb_regs m (lkb_bid c)). split; [reflexivity|]. apply filter_In. split; [|exact P].
    apply in_flat_map. exists c. split; [exact Hc|]. apply in_map_iff. exists x. auto.
Qed.

Lemma lkb_p_mem_eq_iff : forall x A B, (In x A <-> In x B) -> lk_mem x A = lk_mem x B.
Proof.
  intros x A B H. apply eq_iff_eq_true. rewrite !lk_mem_In. exact H.
Qed.

Lemma lkb_p_block_unique : forall l c c0 x, NoDup (lkb_p_all_ids l) -> In c l -> In c0 l ->
  In x (lkb_block_ids c) -> In x (lkb_block_ids c0) -> c = c0.
Proof.
  intros l c c0 x N Hc Hc0 Hx Hx0. destruct (in_split _ _ Hc) as [pre [post E]]. subst l.
  apply in_app_or in Hc0. destruct Hc0 as [H|[H|H]]; [exfalso|exact H|exfalso].
  - eapply (lkb_p_other_block pre c post c0 x N); [apply in_or_app; left; exact H|exact Hx|exact Hx0].
  - eapply (lkb_p_other_block pre c post c0 x N); [apply in_or_app; right; exact H|exact Hx|exact Hx0].
Qed.

Lemma lkb_p_live_spec : forall l x,
  lk_is_live (lkb_units_of l) x = true <-> exists c, In c l /\ In x (lkb_block_ids c) /\ lkb_bdel c = false.
Proof.
  intros l x. unfold lk_is_live, lkb_units_of. rewrite existsb_exists. split.
  - intros [[y lv] [H P]]. cbn in P. apply andb_true_iff in P. destruct P as [P1 P2]. apply lk_id_eqb_eq in P1. subst y lv.
    apply in_flat_map in H. destruct H as [c [Hc H]]. unfold lkb_block_units in H. apply in_map_iff in H.
    destruct H as [a [E H]]. inversion E. subst. exists c. repeat split; auto. apply negb_true_iff. auto.
  - intros [c [Hc [Hx D]]]. exists (x, true). split; [|cbn; rewrite lk_id_eqb_refl; reflexivity].
    apply in_flat_map. exists c. split; [exact Hc|]. unfold lkb_block_units. apply in_map_iff. exists x. rewrite D. auto.
Qed.

Lemma lkb_p_added_nil : forall s e reg old after prev,
  (forall u, In u after -> lk_mem (fst u) old = true) -> lk_added s e reg old prev after = [].
Proof.
  intros s e reg old after. induction after as [|u r IH]; intros prev H; [reflexivity|].
  cbn. rewrite (H u) by (left; reflexivity). apply IH. intros u' Hu. apply H. right. exact Hu.
Qed.

(* ====================================================================== *)
(* T4. TransactionMut::delete                                              *)
(* ====================================================================== *)
Lemma lkb_p_mark_ids : forall a l, lkb_p_all_ids (lkb_mark_deleted a l) = lkb_p_all_ids l.
Proof.
  intros a l. induction l as [|c r IH]; [reflexivity|].
  change (lkb_mark_deleted a (c :: r)) with
    ((if id_eqb (lkb_bid c) a then lkb_mkb (lkb_bid c) (lkb_blen c) true (lkb_blinked c) else c) :: lkb_mark_deleted a r).
  change (lkb_p_all_ids (c :: r)) with (lkb_block_ids c ++ lkb_p_all_ids r). rewrite <- IH.
  destruct (id_eqb (lkb_bid c) a); reflexivity.
Qed.

Lemma lkb_p_mark_In : forall a l c', In c' (lkb_mark_deleted a l) <->
  exists c, In c l /\ c' = (if id_eqb (lkb_bid c) a then lkb_mkb (lkb_bid c) (lkb_blen c) true (lkb_blinked c) else c).
Proof.
  intros a l c'. unfold lkb_mark_deleted. rewrite in_map_iff. split; intros [c [H1 H2]]; exists c; auto.
Qed.

Lemma lkb_p_mark_flags : forall a l, lkb_unit_flags_of (lkb_mark_deleted a l) = lkb_unit_flags_of l.
Proof.
  intros a l. induction l as [|c r IH]; [reflexivity|].
  change (lkb_mark_deleted a (c :: r)) with
    ((if id_eqb (lkb_bid c) a then lkb_mkb (lkb_bid c) (lkb_blen c) true (lkb_blinked c) else c) :: lkb_mark_deleted a r).
  unfold lkb_unit_flags_of in *. cbn [flat_map]. rewrite IH. destruct (id_eqb (lkb_bid c) a); reflexivity.
Qed.

Lemma lkb_p_mark_wf : forall a l, lkb_wf_blocks l = true -> lkb_wf_blocks (lkb_mark_deleted a l) = true.
Proof.
  intros a l W. apply lkb_p_wf_spec in W. destruct W as [W1 W2]. apply lkb_p_wf_spec. split.
  - intros c' Hc. apply lkb_p_mark_In in Hc. destruct Hc as [c [Hc E]]. subst c'.
    destruct (id_eqb (lkb_bid c) a); [cbn|]; apply W1; exact Hc.
  - rewrite lkb_p_mark_ids. exact W2.
Qed.

(* the state after deleting the live block b: every entry other than b's stays *)
Lemma lkb_p_delete_cases : forall st a,
  lkb_wf_blocks (lkb_blocks st) = true -> lkb_inv st = true ->
  (lkb_delete st a = (st, []) /\
     (lkb_find_block a (lkb_blocks st) = None \/ exists b, lkb_find_block a (lkb_blocks st) = Some b /\ lkb_bdel b = true))
  \/ (exists b m', lkb_find_block a (lkb_blocks st) = Some b /\ lkb_bdel b = false /\
        lkb_delete st a = (lkb_mks (lkb_mark_deleted a (lkb_blocks st)) m' (lkb_quotes st), lkb_regs (lkb_linked_by st) a) /\
        (m' = lkb_del a (lkb_linked_by st) \/ (m' = lkb_linked_by st /\ lkb_get a (lkb_linked_by st) = None))).
Proof.
  intros st a W I. unfold lkb_delete. destruct (lkb_find_block a (lkb_blocks st)) as [b|] eqn:F.
  2:{ left. split; [reflexivity|left; reflexivity]. }
  destruct (lkb_bdel b) eqn:D.
  { left. split; [reflexivity|right; exists b; auto]. }
  right. exists b. destruct (lkb_blinked b) eqn:FL.
  - destruct (lkb_get a (lkb_linked_by st)) as [qs|] eqn:G.
    + exists (lkb_del a (lkb_linked_by st)). unfold lkb_regs. rewrite G. repeat split; auto.
    + exists (lkb_linked_by st). unfold lkb_regs. rewrite G. repeat split; auto.
  - assert (G : lkb_get a (lkb_linked_by st) = None).
    { apply lkb_p_find_block_Some in F. destruct F as [F1 F2]. subst a.
      apply (lkb_p_unflagged_no_entry _ (lkb_blocks st)); auto. apply (lkb_p_inv_spec _ _ W). exact I. }
    exists (lkb_linked_by st). unfold lkb_regs. rewrite G. repeat split; auto.
Qed.

Lemma lkb_p_delete_regs : forall m m' a, (m' = lkb_del a m \/ (m' = m /\ lkb_get a m = None)) ->
  forall k, lkb_regs m' k = if id_eqb k a then [] else lkb_regs m k.
Proof.
  intros m m' a H k. destruct (id_eqb k a) eqn:E.
  - apply lk_id_eqb_eq in E. subst k. destruct H as [H|[H G]]; subst m'.
    + apply lkb_p_regs_del_same.
    + unfold lkb_regs. rewrite G. reflexivity.
  - apply lk_id_eqb_neq in E. destruct H as [H|[H G]]; subst m'; [apply lkb_p_regs_del_other; exact E|reflexivity].
Qed.

Lemma lkb_p_next_reg_no_added : forall before after reg s e x,
  lk_added s e reg (lk_ids before) None after = [] ->
  (In x (lk_next_reg_units before after reg s e) <->
   In x reg /\ ~ (lk_is_live before x = true /\ lk_is_live after x = false)).
Proof.
  intros before after reg s e x A. unfold lk_next_reg_units. rewrite A. cbn [filter app].
  rewrite filter_In, negb_true_iff, lk_mem_false. unfold lk_removed. rewrite filter_In, andb_true_iff, negb_true_iff.
  tauto.
Qed.

Lemma lkb_p_notify_no_added : forall before after reg s e,
  lk_added s e reg (lk_ids before) None after = [] ->
  (lk_notify_units before after reg s e = true <->
   exists x, In x reg /\ lk_is_live before x = true /\ lk_is_live after x = false).
Proof.
  intros before after reg s e A. unfold lk_notify_units. rewrite A. cbn. rewrite orb_false_r. unfold lk_removed.
  destruct (filter (fun a => lk_is_live before a && negb (lk_is_live after a)) reg) as [|y r] eqn:F; cbn.
  - split; [discriminate|]. intros [x [H1 [H2 H3]]]. exfalso.
    assert (X : In x (filter (fun a => lk_is_live before a && negb (lk_is_live after a)) reg)).
    { apply filter_In. rewrite H2, H3. auto. }
    rewrite F in X. exact X.
  - split; [|reflexivity]. intros _. exists y.
    assert (X : In y (filter (fun a => lk_is_live before a && negb (lk_is_live after a)) reg)) by (rewrite F; left; reflexivity).
    apply filter_In in X. destruct X as [X1 X2]. apply andb_true_iff in X2. destruct X2 as [X2 X3].
    apply negb_true_iff in X3. auto.
Qed.

Lemma lkb_p_same_ids_added_nil : forall s e reg before after,
  lk_ids after = lk_ids before -> lk_added s e reg (lk_ids before) None after = [].
Proof.
  intros s e reg before after H. apply lkb_p_added_nil. intros u Hu. rewrite <- H. apply lk_mem_In.
  unfold lk_ids. apply in_map. exact Hu.
Qed.

Theorem lkb_delete_refines : forall st a st' ntf q s e,
  lkb_wf_blocks (lkb_blocks st) = true -> lkb_inv st = true ->
  lkb_delete st a = (st', ntf) ->
  (forall x, lk_mem x (lkb_reg st' q)
             = lk_mem x (lk_next_reg_units (lkb_units st) (lkb_units st') (lkb_reg st q) s e)) /\
  lkb_nmem q ntf = lk_notify_units (lkb_units st) (lkb_units st') (lkb_reg st q) s e /\
  (lkb_blocks st' = lkb_blocks st \/ lkb_blocks st' = lkb_mark_deleted a (lkb_blocks st)) /\
  lkb_unit_flags_of (lkb_blocks st') = lkb_unit_flags_of (lkb_blocks st) /\
  lkb_inv st' = true /\ lkb_wf_blocks (lkb_blocks st') = true /\ lkb_quotes st' = lkb_quotes st.
Proof.
  intros st a st' ntf q s e W I H.
  pose proof (proj1 (lkb_p_wf_spec _) W) as [W1 W2].
  pose proof (proj1 (lkb_p_inv_spec _ _ W) I) as PI.
  destruct (lkb_p_delete_cases st a W I) as [[E _]|[b [m' [F [D [E M]]]]]]; rewrite E in H; inversion H; subst st' ntf; clear H.
  - (* nothing happens *)
    assert (A : lk_added s e (lkb_reg st q) (lk_ids (lkb_units st)) None (lkb_units st) = [])
      by (apply lkb_p_same_ids_added_nil; reflexivity).
    split; [|split; [|split; [|split; [|split; [|split]]]]]; auto.
    + intros x. apply lkb_p_mem_eq_iff. rewrite (lkb_p_next_reg_no_added _ _ _ _ _ _ A). split.
      * intros Hx. split; [exact Hx|]. intros [X1 X2]. congruence.
      * intros [Hx _]. exact Hx.
    + cbn. symmetry. apply not_true_iff_false. intros N. apply (lkb_p_notify_no_added _ _ _ _ _ A) in N.
      destruct N as [x [_ [X1 X2]]]. congruence.
  - (* the live block b is deleted *)
    set (l := lkb_blocks st) in *. set (m := lkb_linked_by st) in *.
    set (l' := lkb_mark_deleted a l).
    unfold lkb_units, lkb_reg, lkb_inv. cbn [lkb_blocks lkb_linked_by lkb_quotes]. fold l m l'.
    assert (Wl' : lkb_wf_blocks l' = true) by (apply lkb_p_mark_wf; exact W).
    pose proof (lkb_p_delete_regs m m' a M) as RG.
    apply lkb_p_find_block_Some in F. destruct F as [Fb Fa].
    assert (IDS : lk_ids (lkb_units_of l') = lk_ids (lkb_units_of l))
      by (rewrite !lkb_p_units_ids; apply lkb_p_mark_ids).
    assert (A : lk_added s e (lkb_reg_of m l q) (lk_ids (lkb_units_of l)) None (lkb_units_of l') = [])
      by (apply lkb_p_same_ids_added_nil; exact IDS).
    (* blocks of l' *)
    assert (Other : forall c, In c l -> lkb_bid c <> a -> In c l').
    { intros c Hc Hn. apply lkb_p_mark_In. exists c. split; [exact Hc|]. apply lk_id_eqb_neq in Hn. rewrite Hn. reflexivity. }
    assert (Uniq : forall c, In c l -> lkb_bid c = a -> c = b).
    { intros c Hc Ec. assert (X := lkb_p_find_block_In l c W Hc). assert (Y := lkb_p_find_block_In l b W Fb).
      rewrite Ec in X. rewrite Fa in Y. congruence. }
    (* liveness after *)
    assert (LiveAfter : forall c x, In c l -> In x (lkb_block_ids c) ->
              lk_is_live (lkb_units_of l') x = (negb (lkb_bdel c) && negb (id_eqb (lkb_bid c) a))).
    { intros c x Hc Hx. apply eq_iff_eq_true. rewrite lkb_p_live_spec, andb_true_iff, !negb_true_iff, lk_id_eqb_neq. split.
      - intros [c' [Hc' [Hx' D']]]. apply lkb_p_mark_In in Hc'. destruct Hc' as [c0 [Hc0 Ec']].
        assert (Xc0 : In x (lkb_block_ids c0)).
        { subst c'. destruct (id_eqb (lkb_bid c0) a); exact Hx'. }
        assert (c0 = c) by (eapply lkb_p_block_unique; eassumption). subst c0.
        destruct (id_eqb (lkb_bid c) a) eqn:Ea; subst c'; [cbn in D'; discriminate|].
        split; [exact D'|apply lk_id_eqb_neq; exact Ea].
      - intros [D' N]. exists c. split; [apply Other; assumption|]. auto. }
    assert (LiveBefore : forall c x, In c l -> In x (lkb_block_ids c) ->
              lk_is_live (lkb_units_of l) x = negb (lkb_bdel c)).
    { intros c x Hc Hx. apply eq_iff_eq_true. rewrite lkb_p_live_spec, negb_true_iff. split.
      - intros [c0 [Hc0 [Hx0 D0]]]. assert (c0 = c) by (eapply lkb_p_block_unique; eassumption). subst c0. exact D0.
      - intros D'. exists c. auto. }
    split; [|split; [|split; [|split; [|split; [|split]]]]]; auto.
    + (* registered after *)
      intros x. apply lkb_p_mem_eq_iff.
      rewrite (lkb_p_next_reg_no_added _ _ _ _ _ _ A).
      rewrite !lkb_p_reg_In. split.
      * intros [c' [Hc' [Hx' P]]]. apply lkb_p_mark_In in Hc'. destruct Hc' as [c [Hc Ec']].
        assert (Bc : lkb_bid c' = lkb_bid c) by (subst c'; destruct (id_eqb (lkb_bid c) a); reflexivity).
        assert (Xc : In x (lkb_block_ids c)) by (subst c'; destruct (id_eqb (lkb_bid c) a); exact Hx').
        rewrite Bc, RG in P. destruct (id_eqb (lkb_bid c) a) eqn:Ea; [discriminate|].
        split; [exists c; auto|]. intros [X1 X2]. rewrite (LiveAfter c x Hc Xc), Ea in X2.
        rewrite (LiveBefore c x Hc Xc) in X1. rewrite X1 in X2. discriminate.
      * intros [[c [Hc [Hx P]]] N]. destruct (id_eqb (lkb_bid c) a) eqn:Ea.
        -- exfalso. apply N. apply lk_id_eqb_eq in Ea. assert (c = b) by (apply Uniq; assumption). subst c.
           rewrite (LiveBefore b x Hc Hx), (LiveAfter b x Hc Hx), D. rewrite Fa, lk_id_eqb_refl. auto.
        -- exists c. split; [apply Other; [exact Hc|apply lk_id_eqb_neq; exact Ea]|]. split; [exact Hx|].
           rewrite RG, Ea. exact P.
    + (* notified *)
      apply eq_iff_eq_true. rewrite (lkb_p_notify_no_added _ _ _ _ _ A). split.
      * intros P. exists (lkb_bid b). split; [|split].
        -- apply lkb_p_reg_In. exists b. split; [exact Fb|]. split; [apply lkb_p_bid_In; apply W1; exact Fb|].
           rewrite Fa. exact P.
        -- rewrite (LiveBefore b _ Fb (lkb_p_bid_In b (W1 b Fb))), D. reflexivity.
        -- rewrite (LiveAfter b _ Fb (lkb_p_bid_In b (W1 b Fb))), Fa, lk_id_eqb_refl, andb_false_r. reflexivity.
      * intros [x [Hx [X1 X2]]]. apply lkb_p_reg_In in Hx. destruct Hx as [c [Hc [Hx P]]].
        rewrite (LiveBefore c x Hc Hx) in X1. rewrite (LiveAfter c x Hc Hx), X1 in X2. cbn in X2.
        apply negb_false_iff in X2. apply lk_id_eqb_eq in X2. rewrite <- X2. exact P.
    + apply lkb_p_mark_flags.
    + (* invariant *)
      apply (lkb_p_inv_spec _ _ Wl'). destruct PI as [P1 P2].
      assert (Sub : forall k v, In (k, v) m' -> In (k, v) m).
      { intros k v Hkv. destruct M as [M|[M _]]; subst m'; [apply lkb_p_del_In in Hkv; tauto|exact Hkv]. }
      split.
      * destruct M as [M|[M _]]; subst m'; [apply lkb_p_keys_del_nodup|]; exact P1.
      * intros k v Hkv. destruct (P2 _ _ (Sub _ _ Hkv)) as [X1 [X2 [c [C1 [C2 C3]]]]]. split; [exact X1|]. split; [exact X2|].
        exists (if id_eqb (lkb_bid c) a then lkb_mkb (lkb_bid c) (lkb_blen c) true (lkb_blinked c) else c).
        split; [apply lkb_p_mark_In; exists c; auto|]. destruct (id_eqb (lkb_bid c) a); auto.
Qed.

(* ====================================================================== *)
(* T5. LinkSource::unlink_all                                              *)
(* ====================================================================== *)
Lemma lkb_p_nremove_notin : forall q l, lkb_nmem q l = false -> lkb_nremove q l = l.
Proof.
  intros q l H. unfold lkb_nremove. induction l as [|x r IH]; [reflexivity|]. cbn in *.
  apply orb_false_iff in H. destruct H as [H1 H2]. rewrite N.eqb_sym in H1. rewrite H1. cbn. f_equal. apply IH. exact H2.
Qed.

Lemma lkb_p_nnodup_nremove : forall q l, lkb_nnodup l = true -> lkb_nnodup (lkb_nremove q l) = true.
Proof.
  intros q l. induction l as [|x r IH]; [reflexivity|]. cbn [lkb_nnodup]. intros H. apply andb_true_iff in H.
  destruct H as [H1 H2]. unfold lkb_nremove in *. cbn [filter]. destruct (negb (x =? q)); [|apply IH; exact H2].
  cbn [lkb_nnodup]. rewrite (IH H2), andb_true_r. apply negb_true_iff in H1. apply negb_true_iff.
  fold (lkb_nremove q r). rewrite lkb_p_nmem_nremove, H1. reflexivity.
Qed.

Lemma lkb_p_nremove_idem : forall q l, lkb_nremove q (lkb_nremove q l) = lkb_nremove q l.
Proof.
  intros q l. unfold lkb_nremove. induction l as [|x r IH]; [reflexivity|]. cbn.
  destruct (negb (x =? q)) eqn:E; cbn; [rewrite E, IH; reflexivity|exact IH].
Qed.

(* one unlink *)
Lemma lkb_p_unlink_spec : forall b q m b' m', lkb_unlink b q m = (b', m') ->
  (forall k, lkb_regs m' k = if id_eqb (lkb_bid b) k then lkb_nremove q (lkb_regs m k) else lkb_regs m k) /\
  ((b' = b /\ m' = m) \/
   (b' = lkb_set_linked b false /\ m' = lkb_del (lkb_bid b) m) \/
   (b' = b /\ exists x r, m' = lkb_put (lkb_bid b) (x :: r) m /\ x :: r = lkb_nremove q (lkb_regs m (lkb_bid b)) /\
               In (lkb_bid b, lkb_regs m (lkb_bid b)) m)).
Proof.
  intros b q m b' m' H. unfold lkb_unlink in H.
  destruct (lkb_get (lkb_bid b) m) as [qs|] eqn:G.
  2:{ inversion H. subst b' m'. split; [|left; auto].
      intros k. destruct (id_eqb (lkb_bid b) k) eqn:E; [|reflexivity]. apply lk_id_eqb_eq in E. subst k.
      unfold lkb_regs. rewrite G. reflexivity. }
  assert (R : lkb_regs m (lkb_bid b) = qs) by (unfold lkb_regs; rewrite G; reflexivity).
  destruct (lkb_nmem q qs) eqn:Q.
  2:{ inversion H. subst b' m'. split; [|left; auto].
      intros k. destruct (id_eqb (lkb_bid b) k) eqn:E; [|reflexivity]. apply lk_id_eqb_eq in E. subst k.
      rewrite R. symmetry. apply lkb_p_nremove_notin. exact Q. }
  destruct (lkb_nremove q qs) as [|x r] eqn:NR; inversion H; subst b' m'; clear H.
  - split; [|right; left; auto]. intros k. destruct (id_eqb (lkb_bid b) k) eqn:E.
    + apply lk_id_eqb_eq in E. subst k. rewrite R, NR. apply lkb_p_regs_del_same.
    + apply lkb_p_regs_del_other. apply not_eq_sym. apply lk_id_eqb_neq. exact E.
  - split.
    + intros k. destruct (id_eqb (lkb_bid b) k) eqn:E.
      * apply lk_id_eqb_eq in E. subst k. rewrite R, NR. apply lkb_p_regs_put_same.
      * apply lkb_p_regs_put_other. apply not_eq_sym. apply lk_id_eqb_neq. exact E.
    + right. right. split; [reflexivity|]. exists x, r. rewrite R. split; [reflexivity|]. split; [symmetry; exact NR|].
      apply lkb_p_get_Some_In. exact G.
Qed.

Definition lkb_p_same_shape (c' c : lkb_block) : Prop :=
  lkb_bid c' = lkb_bid c /\ lkb_blen c' = lkb_blen c /\ lkb_bdel c' = lkb_bdel c /\
  (lkb_blinked c' = true -> lkb_blinked c = true).

Lemma lkb_p_same_shape_refl : forall c, lkb_p_same_shape c c.
Proof. intros c. unfold lkb_p_same_shape. auto. Qed.

Lemma lkb_p_unlink_walk_spec : forall q l m l' m', lkb_unlink_walk q l m = (l', m') ->
  Forall2 lkb_p_same_shape l' l /\
  (forall k, lkb_regs m' k = if existsb (fun c => id_eqb (lkb_bid c) k && lkb_blinked c) l
                             then lkb_nremove q (lkb_regs m k) else lkb_regs m k) /\
  (NoDup (lkb_p_keys m) -> NoDup (lkb_p_keys m')) /\
  (forall pre, NoDup (map lkb_bid (pre ++ l)) ->
     (forall k v, In (k, v) m -> v <> [] /\ lkb_nnodup v = true /\
                  exists c, In c (pre ++ l) /\ lkb_bid c = k /\ lkb_blinked c = true) ->
     (forall k v, In (k, v) m' -> v <> [] /\ lkb_nnodup v = true /\
                  exists c, In c (pre ++ l') /\ lkb_bid c = k /\ lkb_blinked c = true)).
Proof.
  intros q l. induction l as [|b r IH]; intros m l' m' H.
  - cbn in H. inversion H. subst. split; [constructor|]. split; [intros k; reflexivity|]. split; [auto|].
    intros pre _ P k v Hkv. rewrite app_nil_r in *. apply P. exact Hkv.
  - cbn [lkb_unlink_walk] in H.
    destruct (if lkb_blinked b then lkb_unlink b q m else (b, m)) as [b' m1] eqn:U.
    destruct (lkb_unlink_walk q r m1) as [r' m2] eqn:Wk. inversion H. subst l' m'. clear H.
    destruct (IH _ _ _ Wk) as [F2 [RG [KN INV]]].
    destruct (lkb_blinked b) eqn:FL.
    + destruct (lkb_p_unlink_spec _ _ _ _ _ U) as [RG1 Cases].
      assert (Shape : lkb_p_same_shape b' b).
      { destruct Cases as [[E _]|[[E _]|[E _]]]; subst b'; unfold lkb_p_same_shape; cbn; auto; intuition discriminate. }
      split; [constructor; assumption|]. split; [|split].
      * intros k. rewrite RG, RG1. cbn [existsb]. rewrite FL, andb_true_r.
        destruct (id_eqb (lkb_bid b) k); cbn [orb]; [|reflexivity].
        destruct (existsb (fun c => id_eqb (lkb_bid c) k && lkb_blinked c) r); [apply lkb_p_nremove_idem|reflexivity].
      * intros N. apply KN. destruct Cases as [[_ E]|[[_ E]|[_ [x [r0 [E _]]]]]]; subst m1;
          [exact N|apply lkb_p_keys_del_nodup; exact N|apply lkb_p_keys_put_nodup; exact N].
      * intros pre ND P. replace (pre ++ b' :: r') with ((pre ++ [b']) ++ r') by (rewrite <- app_assoc; reflexivity).
        assert (Bb : lkb_bid b' = lkb_bid b) by (destruct Shape; assumption).
        apply INV.
        { replace ((pre ++ [b']) ++ r) with (pre ++ b' :: r) by (rewrite <- app_assoc; reflexivity).
          rewrite map_app in *. cbn [map] in *. rewrite Bb. exact ND. }
        intros k v Hkv.
        assert (Keep : forall k v, In (k, v) m -> k <> lkb_bid b -> v <> [] /\ lkb_nnodup v = true /\
                  exists c, In c ((pre ++ [b']) ++ r) /\ lkb_bid c = k /\ lkb_blinked c = true).
        { intros k0 v0 H0 N0. destruct (P _ _ H0) as [A [B [c [C [D E]]]]]. split; [exact A|]. split; [exact B|].
          exists c. split; [|auto]. apply in_app_or in C. rewrite <- app_assoc. apply in_or_app.
          destruct C as [C|[C|C]]; [left; exact C|subst c; congruence|right; right; exact C]. }
        destruct Cases as [[E1 E2]|[[E1 E2]|[E1 [x [r0 [E2 [E3 E4]]]]]]]; subst b' m1.
        -- destruct (P _ _ Hkv) as [A [B [c [C [D E]]]]]. split; [exact A|]. split; [exact B|].
           exists c. split; [|auto]. rewrite <- app_assoc. exact C.
        -- apply lkb_p_del_In in Hkv. destruct Hkv as [Hkv N0]. apply Keep; assumption.
        -- unfold lkb_put in Hkv. destruct Hkv as [Hkv|Hkv].
           ++ inversion Hkv. subst k v. split; [discriminate|]. destruct (P _ _ E4) as [_ [B _]]. split.
              ** rewrite E3. apply lkb_p_nnodup_nremove. exact B.
              ** exists b. split; [|auto]. rewrite <- app_assoc. apply in_or_app. right. left. reflexivity.
           ++ apply lkb_p_del_In in Hkv. destruct Hkv as [Hkv N0]. apply Keep; assumption.
    + inversion U. subst b' m1. split; [constructor; [apply lkb_p_same_shape_refl|assumption]|]. split; [|split].
      * intros k. rewrite RG. cbn [existsb]. rewrite FL, andb_false_r. reflexivity.
      * exact KN.
      * intros pre ND P. replace (pre ++ b :: r') with ((pre ++ [b]) ++ r') by (rewrite <- app_assoc; reflexivity).
        apply INV.
        { rewrite <- app_assoc. exact ND. }
        intros k v Hkv. rewrite <- app_assoc. apply P. exact Hkv.
Qed.

Lemma lkb_p_reg_of_block : forall q v ids,
  map fst (filter (fun p : id * list N => lkb_nmem q (snd p)) (map (fun a : id => (a, v)) ids))
  = if lkb_nmem q v then ids else [].
Proof.
  intros q v ids. destruct (lkb_nmem q v) eqn:E.
  - induction ids as [|a r IH]; [reflexivity|]. cbn [map filter snd]. rewrite E. cbn [map fst]. f_equal. exact IH.
  - induction ids as [|a r IH]; [reflexivity|]. cbn [map filter snd]. rewrite E. exact IH.
Qed.

Lemma lkb_p_reg_of_cons : forall m c r q,
  lkb_reg_of m (c :: r) q = (if lkb_nmem q (lkb_regs m (lkb_bid c)) then lkb_block_ids c else []) ++ lkb_reg_of m r q.
Proof.
  intros m c r q. unfold lkb_reg_of, lkb_unit_regs_of. cbn [flat_map]. rewrite filter_app, map_app.
  rewrite lkb_p_reg_of_block. reflexivity.
Qed.

Lemma lkb_p_reg_of_ext : forall q m' m l' l,
  Forall2 (fun c' c => lkb_block_ids c' = lkb_block_ids c /\
                       lkb_nmem q (lkb_regs m' (lkb_bid c')) = lkb_nmem q (lkb_regs m (lkb_bid c))) l' l ->
  lkb_reg_of m' l' q = lkb_reg_of m l q.
Proof.
  intros q m' m l' l F. induction F as [|c' c r' r [H1 H2] F IH]; [reflexivity|].
  rewrite !lkb_p_reg_of_cons, IH, H1, H2. reflexivity.
Qed.

Lemma lkb_p_reg_of_nil : forall q m l, (forall c, In c l -> lkb_nmem q (lkb_regs m (lkb_bid c)) = false) ->
  lkb_reg_of m l q = [].
Proof.
  intros q m l H. induction l as [|c r IH]; [reflexivity|]. rewrite lkb_p_reg_of_cons, (H c) by (left; reflexivity).
  apply IH. intros c' Hc. apply H. right. exact Hc.
Qed.

Lemma lkb_p_same_shape_ids : forall c' c, lkb_p_same_shape c' c ->
  lkb_block_ids c' = lkb_block_ids c /\ lkb_block_units c' = lkb_block_units c.
Proof.
  intros c' c [H1 [H2 [H3 _]]]. unfold lkb_block_units, lkb_block_ids. rewrite H1, H2, H3. auto.
Qed.

Lemma lkb_p_same_shape_list : forall l' l, Forall2 lkb_p_same_shape l' l ->
  lkb_units_of l' = lkb_units_of l /\ lkb_p_all_ids l' = lkb_p_all_ids l /\ map lkb_bid l' = map lkb_bid l /\
  (forall c', In c' l' -> exists c, In c l /\ lkb_p_same_shape c' c).
Proof.
  intros l' l F. induction F as [|c' c r' r H F [IH1 [IH2 [IH3 IH4]]]].
  - repeat split; auto. intros c' [].
  - destruct (lkb_p_same_shape_ids _ _ H) as [E1 E2]. unfold lkb_units_of, lkb_p_all_ids in *. cbn [flat_map map].
    rewrite IH1, IH2, IH3, E1, E2. destruct H as [H1 H2]. rewrite H1. repeat split; auto.
    intros x [Hx|Hx]; [subst x; exists c; split; [left; reflexivity|unfold lkb_p_same_shape; auto]|].
    destruct (IH4 _ Hx) as [y [Hy S]]. exists y. split; [right; exact Hy|exact S].
Qed.

Lemma lkb_p_bids_nodup : forall l, lkb_wf_blocks l = true -> NoDup (map lkb_bid l).
Proof.
  intros l W. apply lkb_p_wf_spec in W. destruct W as [W1 W2]. induction l as [|c r IH]; [constructor|].
  cbn [map]. constructor.
  - intros H. apply in_map_iff in H. destruct H as [c2 [E H]].
    eapply (lkb_p_other_block [] c r c2 (lkb_bid c)); [exact W2|exact H| |].
    + apply lkb_p_bid_In. apply W1. left. reflexivity.
    + rewrite <- E. apply lkb_p_bid_In. apply W1. right. exact H.
  - apply IH.
    + intros b Hb. apply W1. right. exact Hb.
    + change (lkb_p_all_ids (c :: r)) with (lkb_block_ids c ++ lkb_p_all_ids r) in W2.
      eapply lkb_p_nodup_app_r. exact W2.
Qed.

Lemma lkb_p_forall2_refl : forall (A : Type) (R : A -> A -> Prop) l, (forall x, R x x) -> Forall2 R l l.
Proof. intros A R l H. induction l; constructor; auto. Qed.

Lemma lkb_p_forall2_imp_in : forall (A : Type) (R S : A -> A -> Prop) l' l,
  Forall2 R l' l -> (forall x y, In y l -> R x y -> S x y) -> Forall2 S l' l.
Proof.
  intros A R S l' l F. induction F as [|x y r' r H F IH]; intros Imp; constructor.
  - apply Imp; [left; reflexivity|exact H].
  - apply IH. intros x' y' Hy. apply Imp. right. exact Hy.
Qed.

Theorem lkb_unlink_exact : forall st q qt,
  lkb_wf_blocks (lkb_blocks st) = true -> lkb_inv st = true ->
  lkb_find_quote q (lkb_quotes st) = Some qt ->
  lkb_reg_after_start st q (lkb_qstart qt) = true ->
  exists st', lkb_unlink_all st q = lkb_ok st' /\
    lkb_reg st' q = [] /\
    (forall q', q' <> q -> lkb_reg st' q' = lkb_reg st q') /\
    lkb_units st' = lkb_units st /\
    Forall2 lkb_p_same_shape (lkb_blocks st') (lkb_blocks st) /\
    lkb_inv st' = true /\ lkb_wf_blocks (lkb_blocks st') = true /\ lkb_quotes st' = lkb_quotes st.
Proof.
  intros st q qt W I FQ RS. unfold lkb_unlink_all. rewrite FQ. unfold lkb_reg_after_start in RS.
  pose proof (proj1 (lkb_p_inv_spec _ _ W) I) as PI.
  set (l := lkb_blocks st) in *. set (m := lkb_linked_by st) in *.
  destruct (lkb_get_item l (lkb_qstart qt)) as [p|] eqn:GI.
  2:{ exists st. split; [reflexivity|]. rewrite forallb_forall in RS. repeat split; auto.
      - unfold lkb_reg. apply lkb_p_reg_of_nil. intros c Hc. apply negb_true_iff. apply RS. exact Hc.
      - apply lkb_p_forall2_refl. apply lkb_p_same_shape_refl. }
  destruct (lkb_unlink_walk q (skipn p l) m) as [suf' m'] eqn:Wk.
  eexists. split; [reflexivity|]. cbn [lkb_blocks lkb_linked_by lkb_quotes]. unfold lkb_reg, lkb_units, lkb_inv.
  cbn [lkb_blocks lkb_linked_by lkb_quotes]. fold l m.
  destruct (lkb_p_unlink_walk_spec _ _ _ _ _ Wk) as [F2 [RG [KN INV]]].
  rewrite forallb_forall in RS.
  assert (Lsplit : l = firstn p l ++ skipn p l) by (symmetry; apply firstn_skipn).
  assert (F2all : Forall2 lkb_p_same_shape (firstn p l ++ suf') l).
  { rewrite Lsplit at 2. apply Forall2_app; [apply lkb_p_forall2_refl; apply lkb_p_same_shape_refl|exact F2]. }
  destruct (lkb_p_same_shape_list _ _ F2all) as [SU [SI [SB SIn]]].
  assert (Wl' : lkb_wf_blocks (firstn p l ++ suf') = true).
  { apply lkb_p_wf_spec. apply lkb_p_wf_spec in W. destruct W as [W1 W2]. split.
    - intros c' Hc. destruct (SIn _ Hc) as [c [Hc2 [_ [E _]]]]. rewrite E. apply W1. exact Hc2.
    - rewrite SI. exact W2. }
  (* q-membership of the new entries *)
  assert (Qfalse : forall c, In c l -> lkb_nmem q (lkb_regs m' (lkb_bid c)) = false).
  { intros c Hc. rewrite RG.
    destruct (existsb (fun c0 => id_eqb (lkb_bid c0) (lkb_bid c) && lkb_blinked c0) (skipn p l)) eqn:EX.
    - rewrite lkb_p_nmem_nremove, N.eqb_refl. apply andb_false_r.
    - rewrite Lsplit in Hc. apply in_app_or in Hc. destruct Hc as [Hc|Hc].
      + apply negb_true_iff. apply RS. exact Hc.
      + destruct (lkb_blinked c) eqn:FL.
        * exfalso. assert (X : existsb (fun c0 => id_eqb (lkb_bid c0) (lkb_bid c) && lkb_blinked c0) (skipn p l) = true).
          { apply existsb_exists. exists c. split; [exact Hc|]. rewrite lk_id_eqb_refl, FL. reflexivity. }
          congruence.
        * unfold lkb_regs. rewrite (lkb_p_unflagged_no_entry m l c W PI); [reflexivity| |exact FL].
          rewrite Lsplit. apply in_or_app. right. exact Hc. }
  assert (Qother : forall q' k, q' <> q -> lkb_nmem q' (lkb_regs m' k) = lkb_nmem q' (lkb_regs m k)).
  { intros q' k Hq. rewrite RG. destruct (existsb (fun c0 => id_eqb (lkb_bid c0) k && lkb_blinked c0) (skipn p l)); [|reflexivity].
    rewrite lkb_p_nmem_nremove. apply N.eqb_neq in Hq. rewrite Hq. apply andb_true_r. }
  split; [|split; [|split; [|split; [|split; [|split]]]]]; auto.
  - apply lkb_p_reg_of_nil. intros c' Hc. destruct (SIn _ Hc) as [c [Hc2 [E _]]]. rewrite E. apply Qfalse. exact Hc2.
  - intros q' Hq. apply lkb_p_reg_of_ext. eapply lkb_p_forall2_imp_in; [exact F2all|].
    intros c' c Hc S. destruct (lkb_p_same_shape_ids _ _ S) as [E1 _]. split; [exact E1|].
    destruct S as [E _]. rewrite E. apply Qother. exact Hq.
  - apply (lkb_p_inv_spec _ _ Wl'). destruct PI as [P1 P2]. split; [apply KN; exact P1|].
    apply INV.
    + rewrite <- Lsplit. apply lkb_p_bids_nodup. exact W.
    + rewrite <- Lsplit. exact P2.
Qed.

(* ====================================================================== *)
(* T6a. Item::try_squash                                                   *)
(* ====================================================================== *)
Lemma lkb_p_squash_at_cases : forall compat pos l,
  lkb_squash_at compat pos l = l \/
  exists pre x y post xy, l = pre ++ x :: y :: post /\ lkb_squash_at compat pos l = pre ++ xy :: post /\
    lkb_try_squash compat x y = Some xy.
Proof.
  intros compat pos. induction pos as [|p IH]; intros l.
  - destruct l as [|x [|y r]]; cbn; auto. destruct (lkb_try_squash compat x y) as [xy|] eqn:T; auto.
    right. exists [], x, y, r, xy. auto.
  - destruct l as [|x r]; cbn; auto. destruct (IH r) as [E|[pre [x0 [y [post [xy [E1 [E2 T]]]]]]]].
    + left. rewrite E. reflexivity.
    + right. exists (x :: pre), x0, y, post, xy. rewrite E2. subst r. auto.
Qed.

Lemma lkb_p_try_squash_spec : forall compat x y xy, lkb_try_squash compat x y = Some xy ->
  lkb_blinked x = false /\ lkb_blinked y = false /\ lkb_bdel y = lkb_bdel x /\
  lkb_bid y = mkid (cl (lkb_bid x)) (ck (lkb_bid x) + lkb_blen x) /\
  xy = lkb_mkb (lkb_bid x) (lkb_blen x + lkb_blen y) (lkb_bdel x) false.
Proof.
  intros compat x y xy H. unfold lkb_try_squash in H.
  destruct ((cl (lkb_bid x) =? cl (lkb_bid y)) && (ck (lkb_bid x) + lkb_blen x =? ck (lkb_bid y)) &&
            Bool.eqb (lkb_bdel x) (lkb_bdel y) && negb (lkb_blinked x) && negb (lkb_blinked y) && compat) eqn:C; [|discriminate].
  inversion H. subst xy. clear H. repeat (apply andb_true_iff in C; destruct C as [C ?]).
  apply N.eqb_eq in C. apply N.eqb_eq in H3. apply eqb_prop in H2. apply negb_true_iff in H1. apply negb_true_iff in H0.
  rewrite H1. repeat split; auto. destruct (lkb_bid y) as [c k]. cbn in *. subst. reflexivity.
Qed.

Theorem lkb_squash_preserves : forall st compat pos,
  lkb_wf_blocks (lkb_blocks st) = true -> lkb_inv st = true ->
  let st' := lkb_squash st compat pos in
  lkb_units st' = lkb_units st /\ lkb_unit_regs st' = lkb_unit_regs st /\
  lkb_unit_flags_of (lkb_blocks st') = lkb_unit_flags_of (lkb_blocks st) /\
  lkb_inv st' = true /\ lkb_wf_blocks (lkb_blocks st') = true /\ lkb_quotes st' = lkb_quotes st /\
  (* only blocks that are registered for no quotation are merged *)
  (lkb_blocks st' = lkb_blocks st \/
   exists pre x y post xy, lkb_blocks st = pre ++ x :: y :: post /\ lkb_blocks st' = pre ++ xy :: post /\
     lkb_regs (lkb_linked_by st) (lkb_bid x) = [] /\ lkb_regs (lkb_linked_by st) (lkb_bid y) = [] /\
     lkb_blinked x = false /\ lkb_blinked y = false).
Proof.
  intros st compat pos W I st'. unfold st', lkb_squash, lkb_units, lkb_unit_regs, lkb_inv.
  cbn [lkb_blocks lkb_linked_by lkb_quotes].
  pose proof (proj1 (lkb_p_inv_spec _ _ W) I) as PI.
  set (l := lkb_blocks st) in *. set (m := lkb_linked_by st) in *.
  destruct (lkb_p_squash_at_cases compat pos l) as [E|[pre [x [y [post [xy [E1 [E2 T]]]]]]]].
  { rewrite E. repeat split; auto. }
  rewrite E2. apply lkb_p_try_squash_spec in T. destruct T as [Fx [Fy [Dy [By Exy]]]].
  pose proof (proj1 (lkb_p_wf_spec _) W) as [W1 W2].
  assert (Xin : In x l) by (rewrite E1; apply in_or_app; right; left; reflexivity).
  assert (Yin : In y l) by (rewrite E1; apply in_or_app; right; right; left; reflexivity).
  assert (Rx : lkb_regs m (lkb_bid x) = []) by (unfold lkb_regs; rewrite (lkb_p_unflagged_no_entry m l x W PI Xin Fx); reflexivity).
  assert (Ry : lkb_regs m (lkb_bid y) = []) by (unfold lkb_regs; rewrite (lkb_p_unflagged_no_entry m l y W PI Yin Fy); reflexivity).
  assert (IDS : lkb_block_ids xy = lkb_block_ids x ++ lkb_block_ids y).
  { subst xy. unfold lkb_block_ids. cbn. rewrite By. cbn.
    replace (N.to_nat (lkb_blen x + lkb_blen y)) with (N.to_nat (lkb_blen x) + N.to_nat (lkb_blen y))%nat by lia.
    rewrite lkb_p_iota_app, N2Nat.id. reflexivity. }
  assert (Bxy : lkb_bid xy = lkb_bid x) by (subst xy; reflexivity).
  assert (AI : lkb_p_all_ids (pre ++ xy :: post) = lkb_p_all_ids l).
  { rewrite E1, !lkb_p_all_ids_app. f_equal. unfold lkb_p_all_ids. cbn [flat_map]. rewrite IDS, <- app_assoc. reflexivity. }
  assert (Wl' : lkb_wf_blocks (pre ++ xy :: post) = true).
  { apply lkb_p_wf_spec. split; [|rewrite AI; exact W2]. intros c Hc. apply in_app_or in Hc.
    destruct Hc as [Hc|[Hc|Hc]].
    - apply W1. rewrite E1. apply in_or_app. left. exact Hc.
    - subst c xy. cbn. specialize (W1 x Xin). lia.
    - apply W1. rewrite E1. apply in_or_app. right. right. right. exact Hc. }
  split; [|split; [|split; [|split; [|split; [|split]]]]]; auto.
  - rewrite E1, !lkb_p_units_app. f_equal. unfold lkb_units_of. cbn [flat_map]. rewrite app_assoc. f_equal.
    unfold lkb_block_units. rewrite IDS, map_app, Dy. subst xy. reflexivity.
  - rewrite E1, !lkb_p_unit_regs_app. f_equal. unfold lkb_unit_regs_of. cbn [flat_map]. rewrite app_assoc. f_equal.
    rewrite IDS, map_app, Bxy, Rx, Ry. reflexivity.
  - rewrite E1, !lkb_p_flags_app. f_equal. unfold lkb_unit_flags_of. cbn [flat_map]. rewrite app_assoc. f_equal.
    rewrite IDS, map_app, Fx, Fy. subst xy. reflexivity.
  - apply (lkb_p_inv_spec _ _ Wl'). destruct PI as [P1 P2]. split; [exact P1|]. intros k v Hkv.
    destruct (P2 _ _ Hkv) as [A [B [c [C [D F]]]]]. split; [exact A|]. split; [exact B|]. exists c. split; [|auto].
    rewrite E1 in C. apply in_app_or in C. apply in_or_app. destruct C as [C|[C|[C|C]]]; [left; exact C| | |right; right; exact C].
    + subst c. congruence.
    + subst c. congruence.
  - right. exists pre, x, y, post, xy. repeat split; auto.
Qed.

(* unlink_all keeps the invariant whatever the position it starts from *)
Lemma lkb_unlink_inv : forall st q st',
  lkb_wf_blocks (lkb_blocks st) = true -> lkb_inv st = true ->
  lkb_unlink_all st q = lkb_ok st' ->
  lkb_inv st' = true /\ lkb_wf_blocks (lkb_blocks st') = true /\ lkb_quotes st' = lkb_quotes st /\
  lkb_units st' = lkb_units st.
Proof.
  intros st q st' W I H. unfold lkb_unlink_all in H.
  destruct (lkb_find_quote q (lkb_quotes st)) as [qt|]; [|discriminate].
  pose proof (proj1 (lkb_p_inv_spec _ _ W) I) as PI.
  set (l := lkb_blocks st) in *. set (m := lkb_linked_by st) in *.
  destruct (lkb_get_item l (lkb_qstart qt)) as [p|] eqn:GI.
  2:{ inversion H. subst st'. auto. }
  destruct (lkb_unlink_walk q (skipn p l) m) as [suf' m'] eqn:Wk. inversion H. subst st'. clear H.
  unfold lkb_units, lkb_inv. cbn [lkb_blocks lkb_linked_by lkb_quotes]. fold l.
  destruct (lkb_p_unlink_walk_spec _ _ _ _ _ Wk) as [F2 [RG [KN INV]]].
  assert (Lsplit : l = firstn p l ++ skipn p l) by (symmetry; apply firstn_skipn).
  assert (F2all : Forall2 lkb_p_same_shape (firstn p l ++ suf') l).
  { rewrite Lsplit at 2. apply Forall2_app; [apply lkb_p_forall2_refl; apply lkb_p_same_shape_refl|exact F2]. }
  destruct (lkb_p_same_shape_list _ _ F2all) as [SU [SI [SB SIn]]].
  assert (Wl' : lkb_wf_blocks (firstn p l ++ suf') = true).
  { apply lkb_p_wf_spec. pose proof (proj1 (lkb_p_wf_spec _) W) as [W1 W2]. split.
    - intros c' Hc. destruct (SIn _ Hc) as [c [Hc2 [_ [E _]]]]. rewrite E. apply W1. exact Hc2.
    - rewrite SI. exact W2. }
  split; [|split; [|split]]; auto.
  apply (lkb_p_inv_spec _ _ Wl'). destruct PI as [P1 P2]. split; [apply KN; exact P1|].
  apply INV.
  - rewrite <- Lsplit. apply lkb_p_bids_nodup. exact W.
  - rewrite <- Lsplit. exact P2.
Qed.

(* ====================================================================== *)
(* refutations                                                             *)
(* ====================================================================== *)
(* the split before 19d2098 (= what TransactionMut::split_by_snapshot still does):
     forall st a off st', lkb_wf_blocks .. -> lkb_inv st = true -> lkb_split_old st a off = lkb_ok st' ->
       lkb_unit_regs st' = lkb_unit_regs st
   is false: the units of the right half lose their registration, and deleting that half then notifies nobody
   although the unit-level rule says the quotation has to be told *)
Definition lkb_w_split_st : lkb_store :=
  lkb_mks [lkb_mkb (mkid 1 0) 2 false true] [(mkid 1 0, [7])] [lkb_mkq 7 (Some (mkid 1 0, true)) (Some (mkid 1 1, true))].

Theorem lkb_split_preserves_old_refuted : exists st a off st',
  lkb_wf_blocks (lkb_blocks st) = true /\ lkb_inv st = true /\ lkb_quotes_known st = true /\
  lkb_split_old st a off = lkb_ok st' /\
  lkb_units st' = lkb_units st /\
  lkb_unit_regs st = [(mkid 1 0, [7]); (mkid 1 1, [7])] /\
  lkb_unit_regs st' = [(mkid 1 0, [7]); (mkid 1 1, [])] /\
  lkb_unit_flags_of (lkb_blocks st') = [(mkid 1 0, true); (mkid 1 1, true)] /\
  (* the consequence: deleting the right half *)
  snd (lkb_delete st' (mkid 1 1)) = [] /\
  lk_notify_units (lkb_units st) (lkb_units (fst (lkb_delete st' (mkid 1 1)))) (lkb_reg st 7)
                  (Some (mkid 1 0, true)) (Some (mkid 1 1, true)) = true /\
  (* with the repaired split the same deletion notifies quotation 7 *)
  (exists st2, lkb_split st a off = lkb_ok st2 /\ snd (lkb_delete st2 (mkid 1 1)) = [7]).
Proof.
  exists lkb_w_split_st, (mkid 1 0), 1, (lkb_mks [lkb_mkb (mkid 1 0) 1 false true; lkb_mkb (mkid 1 1) 1 false true]
                                             [(mkid 1 0, [7])] (lkb_quotes lkb_w_split_st)).
  repeat split; try (vm_compute; reflexivity). eexists. split; vm_compute; reflexivity.
Qed.

(* "a block is flagged iff linked_by has an entry for it":
     forall st ops, <initial> -> lkb_run_ok st ops = true -> lkb_flag_has_entry (lkb_run st ops) = true
   is false in two ways: join_linked_range sets the flag before it knows that no quotation takes the block,
   and TransactionMut::delete removes the entry and leaves the flag *)
Definition lkb_w_flag_st : lkb_store := lkb_mks [lkb_mkb (mkid 1 0) 2 false false] [] [].
Definition lkb_w_flag_quote : lkb_quote := lkb_mkq 7 (Some (mkid 1 0, true)) (Some (mkid 1 1, true)).

Theorem lkb_flag_entry_iff_refuted :
  (exists ops, lkb_run_ok lkb_w_flag_st ops = true /\
     lkb_inv (lkb_run lkb_w_flag_st ops) = true /\ lkb_flag_has_entry (lkb_run lkb_w_flag_st ops) = false /\
     (* the new block is flagged, registered nowhere, and the next block typed after it is flagged too:
        neither can ever be squashed *)
     lkb_unit_flags_of (lkb_blocks (lkb_run lkb_w_flag_st ops))
       = [(mkid 1 0, true); (mkid 1 1, true); (mkid 1 3, true); (mkid 1 4, true)] /\
     lkb_unit_regs (lkb_run lkb_w_flag_st ops)
       = [(mkid 1 0, [7]); (mkid 1 1, [7]); (mkid 1 3, []); (mkid 1 4, [])] /\
     lkb_blocks (lkb_squash (lkb_run lkb_w_flag_st ops) true 1) = lkb_blocks (lkb_run lkb_w_flag_st ops)) /\
  (exists ops, lkb_run_ok lkb_w_flag_st ops = true /\
     lkb_inv (lkb_run lkb_w_flag_st ops) = true /\ lkb_flag_has_entry (lkb_run lkb_w_flag_st ops) = false /\
     lkb_linked_by (lkb_run lkb_w_flag_st ops) = []).
Proof.
  split.
  - exists [lkb_op_quote lkb_w_flag_quote; lkb_op_integrate 1 (mkid 1 3) 1 false; lkb_op_integrate 2 (mkid 1 4) 1 false].
    repeat split; vm_compute; reflexivity.
  - exists [lkb_op_quote lkb_w_flag_quote; lkb_op_delete (mkid 1 0)].
    repeat split; vm_compute; reflexivity.
Qed.

(* ########## part B: LinkSource::materialize ########## *)
Open Scope N_scope.

(* ---------- maps and sets ---------- *)
Lemma lkb_m_get_del : forall k k' m,
  lkb_get k' (lkb_del k m) = if id_eqb k k' then None else lkb_get k' m.
Proof.
  intros k k' m. induction m as [|[k0 v] m IH]; simpl.
  - destruct (id_eqb k k'); reflexivity.
  - destruct (id_eqb k0 k) eqn:E0; simpl.
    + rewrite IH. destruct (id_eqb k k') eqn:E1; [reflexivity|].
      apply lk_id_eqb_eq in E0. subst k0. rewrite E1. reflexivity.
    + destruct (id_eqb k0 k') eqn:E2.
      * destruct (id_eqb k k') eqn:E1; [|reflexivity].
        apply lk_id_eqb_eq in E1. apply lk_id_eqb_eq in E2. subst.
        rewrite lk_id_eqb_refl in E0. discriminate.
      * exact IH.
Qed.

Lemma lkb_m_get_put : forall k v k' m,
  lkb_get k' (lkb_put k v m) = if id_eqb k k' then Some v else lkb_get k' m.
Proof.
  intros. unfold lkb_put. simpl. rewrite lkb_m_get_del. destruct (id_eqb k k'); reflexivity.
Qed.

Lemma lkb_m_get_extend : forall k qs k' m,
  lkb_get k' (lkb_extend k qs m)
  = if id_eqb k k' then Some (lkb_sunion qs (lkb_regs m k)) else lkb_get k' m.
Proof. intros. unfold lkb_extend. apply lkb_m_get_put. Qed.

Lemma lkb_m_regs_extend : forall k qs k' m,
  lkb_regs (lkb_extend k qs m) k'
  = if id_eqb k k' then lkb_sunion qs (lkb_regs m k) else lkb_regs m k'.
Proof.
  intros. unfold lkb_regs at 1. rewrite lkb_m_get_extend.
  destruct (id_eqb k k'); reflexivity.
Qed.

Lemma lkb_m_nmem_cons : forall q x s, lkb_nmem q (x :: s) = (q =? x) || lkb_nmem q s.
Proof. reflexivity. Qed.

Lemma lkb_m_nmem_sadd : forall q x s, lkb_nmem q (lkb_sadd x s) = (q =? x) || lkb_nmem q s.
Proof.
  intros. unfold lkb_sadd. destruct (lkb_nmem x s) eqn:E; [|reflexivity].
  destruct (N.eqb_spec q x); [subst; rewrite E; reflexivity | reflexivity].
Qed.

Lemma lkb_m_nmem_sunion : forall q qs s,
  lkb_nmem q (lkb_sunion qs s) = lkb_nmem q qs || lkb_nmem q s.
Proof.
  induction qs as [|x qs IH]; intros; cbn [lkb_sunion fold_right].
  - reflexivity.
  - fold (lkb_sunion qs s). rewrite lkb_m_nmem_sadd, IH, lkb_m_nmem_cons, orb_assoc. reflexivity.
Qed.

(* ---------- iota ---------- *)
Lemma lkb_m_iota_eq : forall c k1 k2 n1 n2, k1 = k2 -> n1 = n2 -> lkb_iota c k1 n1 = lkb_iota c k2 n2.
Proof. intros; subst; reflexivity. Qed.

Lemma lkb_m_iota_In : forall n c k a,
  In a (lkb_iota c k n) <-> cl a = c /\ k <= ck a /\ ck a < k + N.of_nat n.
Proof.
  induction n as [|n IH]; intros c k a.
  - simpl. split; [tauto | lia].
  - cbn [lkb_iota In]. rewrite IH. split.
    + intros [H|H]; [subst a; simpl; lia | lia].
    + intros (H1 & H2 & H3). destruct (N.eq_dec (ck a) k) as [E|E].
      * left. destruct a; simpl in *; subst; reflexivity.
      * right. lia.
Qed.

Lemma lkb_m_iota_app : forall n1 n2 c k,
  lkb_iota c k (n1 + n2) = lkb_iota c k n1 ++ lkb_iota c (k + N.of_nat n1) n2.
Proof.
  induction n1 as [|n1 IH]; intros.
  - simpl. apply lkb_m_iota_eq; lia.
  - cbn [plus lkb_iota app]. rewrite IH. f_equal. f_equal. apply lkb_m_iota_eq; lia.
Qed.

Lemma lkb_m_iota_length : forall n c k, length (lkb_iota c k n) = n.
Proof. induction n; intros; simpl; [reflexivity | rewrite IHn; reflexivity]. Qed.

Lemma lkb_m_contains_In : forall b a, lkb_contains b a = true <-> In a (lkb_block_ids b).
Proof.
  intros. unfold lkb_contains, lkb_block_ids.
  rewrite lkb_m_iota_In, !andb_true_iff, N.eqb_eq, N.leb_le, N.ltb_lt, N2Nat.id. tauto.
Qed.

Lemma lkb_m_ids_block_units : forall b, lk_ids (lkb_block_units b) = lkb_block_ids b.
Proof.
  intros. unfold lk_ids, lkb_block_units. rewrite map_map. simpl. apply map_id.
Qed.

(* ---------- drop / take over a run of consecutive ids ---------- *)
Lemma lkb_m_take_notin : forall x ix V R, ~ In x (lk_ids V) ->
  lk_take_until x ix (V ++ R) = V ++ lk_take_until x ix R.
Proof.
  induction V as [|u V IH]; simpl; intros R H; [reflexivity|].
  destruct (id_eqb (fst u) x) eqn:E.
  - apply lk_id_eqb_eq in E. tauto.
  - rewrite IH by tauto. reflexivity.
Qed.

Lemma lkb_m_drop_notin : forall a ia V R, ~ In a (lk_ids V) ->
  lk_drop_until a ia (V ++ R) = lk_drop_until a ia R.
Proof.
  induction V as [|u V IH]; simpl; intros R H; [reflexivity|].
  destruct (id_eqb (fst u) a) eqn:E.
  - apply lk_id_eqb_eq in E. tauto.
  - apply IH. tauto.
Qed.

Lemma lkb_m_ideqb_same : forall c k, id_eqb (mkid c k) (mkid c (k + 0)) = true.
Proof. intros. apply lk_id_eqb_eq. f_equal. lia. Qed.

Lemma lkb_m_ideqb_succ : forall c k j, id_eqb (mkid c k) (mkid c (k + N.of_nat (S j))) = false.
Proof. intros. apply lk_id_eqb_neq. intros H. inversion H. lia. Qed.

Lemma lkb_m_take_iota : forall n c k j live R ix, (j < n)%nat ->
  lk_take_until (mkid c (k + N.of_nat j)) ix (map (fun a => (a, live)) (lkb_iota c k n) ++ R)
  = map (fun a : id => (a, live)) (lkb_iota c k (j + if ix then 1 else 0)).
Proof.
  induction n as [|n IH]; intros c k j live R ix H; [lia|].
  destruct j as [|j].
  - cbn [lkb_iota map app lk_take_until fst N.of_nat]. rewrite lkb_m_ideqb_same.
    destruct ix; reflexivity.
  - cbn [lkb_iota map app lk_take_until fst]. rewrite lkb_m_ideqb_succ.
    replace (k + N.of_nat (S j)) with (k + 1 + N.of_nat j) by lia.
    rewrite IH by lia. reflexivity.
Qed.

Lemma lkb_m_drop_iota : forall n c k j live R ia, (j < n)%nat ->
  lk_drop_until (mkid c (k + N.of_nat j)) ia (map (fun a => (a, live)) (lkb_iota c k n) ++ R)
  = map (fun a : id => (a, live))
        (lkb_iota c (k + N.of_nat (j + if ia then 0 else 1)) (n - (j + if ia then 0 else 1))) ++ R.
Proof.
  induction n as [|n IH]; intros c k j live R ia H; [lia|].
  destruct j as [|j].
  - cbn [lkb_iota map app lk_drop_until fst N.of_nat]. rewrite lkb_m_ideqb_same.
    destruct ia.
    + replace (lkb_iota c (k + N.of_nat (0 + 0)) (S n - (0 + 0))) with (lkb_iota c k (S n))
        by (apply lkb_m_iota_eq; simpl; lia).
      reflexivity.
    + f_equal. f_equal. apply lkb_m_iota_eq; simpl; lia.
  - cbn [lkb_iota map app lk_drop_until fst]. rewrite lkb_m_ideqb_succ.
    replace (k + N.of_nat (S j)) with (k + 1 + N.of_nat j) by lia.
    rewrite IH by lia. f_equal. f_equal. apply lkb_m_iota_eq; destruct ia; simpl; lia.
Qed.

(* ---------- the unit-level meaning of the RangeIter state ---------- *)
Definition lkb_m_useg (s e : lk_bound) (state : lkb_rstate) (u : list lk_unit) : list lk_unit :=
  match state with
  | lkb_opened => lk_segment u s e
  | lkb_inrange => match e with Some (x, ix) => lk_take_until x ix u | None => u end
  | lkb_closed => []
  end.

Definition lkb_m_run (c k : N) (live : bool) (n : nat) : list lk_unit :=
  map (fun a : id => (a, live)) (lkb_iota c k n).

Lemma lkb_m_range_end : forall s e c k n d f so R,
  0 < n -> so < n ->
  (forall x ix, e = Some (x, ix) -> lkb_contains (lkb_mkb (mkid c k) n d f) x = true -> k + so <= ck x) ->
  match lkb_range_end e (lkb_mkb (mkid c k) n d f) so with
  | lkb_fail _ => False
  | lkb_ok lkb_stop =>
      lkb_m_useg s e lkb_inrange (lkb_m_run c (k + so) (negb d) (N.to_nat (n - so)) ++ R) = []
  | lkb_ok (lkb_skip _) => False
  | lkb_ok (lkb_emit st' so' eo) =>
      so' = so /\ so <= eo /\ eo < n /\
      lkb_m_useg s e lkb_inrange (lkb_m_run c (k + so) (negb d) (N.to_nat (n - so)) ++ R)
      = lkb_m_run c (k + so) (negb d) (N.to_nat (eo - so + 1)) ++ lkb_m_useg s e st' R
  end.
Proof.
  intros s e c k n d f so R Hn Hso Hord.
  unfold lkb_range_end. cbn [lkb_blen lkb_bid ck cl].
  assert (Hnone : forall x ix, lkb_contains (lkb_mkb (mkid c k) n d f) x = false ->
     lk_take_until x ix (lkb_m_run c (k + so) (negb d) (N.to_nat (n - so)) ++ R)
     = lkb_m_run c (k + so) (negb d) (N.to_nat (n - 1 - so + 1)) ++ lk_take_until x ix R).
  { intros x ix Hc. rewrite lkb_m_take_notin.
    - f_equal. unfold lkb_m_run. f_equal. apply lkb_m_iota_eq; lia.
    - intros Hin. unfold lkb_m_run, lk_ids in Hin. rewrite map_map in Hin. simpl in Hin.
      rewrite map_id in Hin. apply lkb_m_iota_In in Hin.
      assert (lkb_contains (lkb_mkb (mkid c k) n d f) x = true).
      { apply lkb_m_contains_In. unfold lkb_block_ids. simpl. apply lkb_m_iota_In. lia. }
      congruence. }
  assert (Hlen : (n =? 0) = false) by (apply N.eqb_neq; lia).
  assert (Hle : (so <=? n - 1) = true) by (apply N.leb_le; lia).
  destruct e as [[x ix]|].
  - destruct (lkb_contains (lkb_mkb (mkid c k) n d f) x) eqn:Hc.
    + specialize (Hord x ix eq_refl Hc).
      unfold lkb_contains in Hc. simpl in Hc.
      rewrite !andb_true_iff, N.eqb_eq, N.leb_le, N.ltb_lt in Hc. destruct Hc as [[Hc1 Hc2] Hc3].
      destruct x as [cx kx]. simpl in *. subst cx.
      assert (Htake : forall ix', lk_take_until (mkid c kx) ix'
                (lkb_m_run c (k + so) (negb d) (N.to_nat (n - so)) ++ R)
              = lkb_m_run c (k + so) (negb d) (N.to_nat (kx - k - so) + if ix' then 1 else 0)).
      { intros ix'. unfold lkb_m_run.
        replace kx with (k + so + N.of_nat (N.to_nat (kx - k - so))) at 1 by lia.
        apply lkb_m_take_iota. lia. }
      destruct ix.
      * replace (so <=? kx - k) with true by (symmetry; apply N.leb_le; lia).
        split; [reflexivity|]. split; [lia|]. split; [lia|].
        rewrite Htake. simpl. rewrite app_nil_r. unfold lkb_m_run. f_equal.
        apply lkb_m_iota_eq; lia.
      * destruct (N.eqb_spec (kx - k) so) as [E|E].
        -- rewrite Htake. replace (N.to_nat (kx - k - so) + 0)%nat with 0%nat by lia. reflexivity.
        -- replace (kx - k =? 0) with false by (symmetry; apply N.eqb_neq; lia).
           replace (so <=? kx - k - 1) with true by (symmetry; apply N.leb_le; lia).
           split; [reflexivity|]. split; [lia|]. split; [lia|].
           rewrite Htake. simpl. rewrite app_nil_r. unfold lkb_m_run. f_equal.
           apply lkb_m_iota_eq; lia.
    + rewrite Hlen, Hle. split; [reflexivity|]. split; [lia|]. split; [lia|].
      simpl. apply Hnone. exact Hc.
  - rewrite Hlen, Hle. split; [reflexivity|]. split; [lia|]. split; [lia|].
    simpl. f_equal. unfold lkb_m_run. f_equal. apply lkb_m_iota_eq; lia.
Qed.

Lemma lkb_m_map_iota_eq : forall c k1 k2 n1 n2 (live : bool) (R : list lk_unit), k1 = k2 -> n1 = n2 ->
  map (fun a : id => (a, live)) (lkb_iota c k1 n1) ++ R = map (fun a : id => (a, live)) (lkb_iota c k2 n2) ++ R.
Proof. intros; subst; reflexivity. Qed.

Definition lkb_m_cord (s e : lk_bound) (b : lkb_block) : Prop :=
  forall a ia x ix, s = Some (a, ia) -> e = Some (x, ix) ->
    lkb_contains b a = true -> lkb_contains b x = true -> ck a + (if ia then 0 else 1) <= ck x.

Lemma lkb_m_useg_opened_some : forall a ia e W,
  lkb_m_useg (Some (a, ia)) e lkb_opened W
  = lkb_m_useg (Some (a, ia)) e lkb_inrange (lk_drop_until a ia W).
Proof. intros. destruct e as [[x ix]|]; reflexivity. Qed.

Lemma lkb_m_useg_opened_none : forall e W,
  lkb_m_useg None e lkb_opened W = lkb_m_useg None e lkb_inrange W.
Proof. intros. destruct e as [[x ix]|]; reflexivity. Qed.

Lemma lkb_m_useg_inrange_s : forall s s' e W,
  lkb_m_useg s e lkb_inrange W = lkb_m_useg s' e lkb_inrange W.
Proof. reflexivity. Qed.

Lemma lkb_m_range_step : forall s e state c k n d f R,
  0 < n -> lkb_m_cord s e (lkb_mkb (mkid c k) n d f) ->
  match lkb_range_step s e state (lkb_mkb (mkid c k) n d f) with
  | lkb_fail _ => False
  | lkb_ok lkb_stop => lkb_m_useg s e state (lkb_m_run c k (negb d) (N.to_nat n) ++ R) = []
  | lkb_ok (lkb_skip st') =>
      lkb_m_useg s e state (lkb_m_run c k (negb d) (N.to_nat n) ++ R) = lkb_m_useg s e st' R
  | lkb_ok (lkb_emit st' so eo) => so <= eo /\ eo < n /\
      lkb_m_useg s e state (lkb_m_run c k (negb d) (N.to_nat n) ++ R)
      = lkb_m_run c (k + so) (negb d) (N.to_nat (eo - so + 1)) ++ lkb_m_useg s e st' R
  end.
Proof.
  intros s e state c k n d f R Hn Hord. unfold lkb_m_cord in Hord.
  assert (Hzero : match lkb_range_end e (lkb_mkb (mkid c k) n d f) 0 with
    | lkb_fail _ => False
    | lkb_ok lkb_stop => lkb_m_useg s e lkb_inrange (lkb_m_run c k (negb d) (N.to_nat n) ++ R) = []
    | lkb_ok (lkb_skip _) => False
    | lkb_ok (lkb_emit st' so eo) => so <= eo /\ eo < n /\
        lkb_m_useg s e lkb_inrange (lkb_m_run c k (negb d) (N.to_nat n) ++ R)
        = lkb_m_run c (k + so) (negb d) (N.to_nat (eo - so + 1)) ++ lkb_m_useg s e st' R
    end).
  { pose proof (lkb_m_range_end s e c k n d f 0 R Hn Hn) as H.
    replace (lkb_m_run c (k + 0) (negb d) (N.to_nat (n - 0))) with (lkb_m_run c k (negb d) (N.to_nat n)) in H
      by (unfold lkb_m_run; f_equal; apply lkb_m_iota_eq; lia).
    assert (H0 : forall x ix, e = Some (x, ix) -> lkb_contains (lkb_mkb (mkid c k) n d f) x = true -> k + 0 <= ck x).
    { intros x ix _ Hc. unfold lkb_contains in Hc. simpl in Hc.
      rewrite !andb_true_iff, N.leb_le in Hc. lia. }
    specialize (H H0).
    destruct (lkb_range_end e (lkb_mkb (mkid c k) n d f) 0) as [[st'|st' so eo|]|]; try exact H.
    destruct H as (E & H1 & H2 & H3). subst so. auto. }
  destruct state; unfold lkb_range_step.
  - destruct s as [[a ia]|].
    + destruct (lkb_contains (lkb_mkb (mkid c k) n d f) a) eqn:Hc.
      * pose proof Hc as Hc'. unfold lkb_contains in Hc'. simpl in Hc'.
        rewrite !andb_true_iff, N.eqb_eq, N.leb_le, N.ltb_lt in Hc'. destruct Hc' as [[Hc1 Hc2] Hc3].
        destruct a as [ca ka]. simpl in Hc1, Hc2, Hc3. subst ca.
        cbn [lkb_bid lkb_blen ck cl].
        assert (Hdrop : forall (ia' : bool) (o : N), o = ka - k + (if ia' then 0 else 1) ->
           lk_drop_until (mkid c ka) ia' (lkb_m_run c k (negb d) (N.to_nat n) ++ R)
           = lkb_m_run c (k + o) (negb d) (N.to_nat (n - o)) ++ R).
        { intros ia' o Ho. unfold lkb_m_run.
          replace ka with (k + N.of_nat (N.to_nat (ka - k))) at 1 by lia.
          rewrite lkb_m_drop_iota by lia.
          apply lkb_m_map_iota_eq; destruct ia'; lia. }
        assert (Hgen : forall (ia' : bool) (o : N), o = ka - k + (if ia' then 0 else 1) -> o < n -> ia' = ia ->
          match lkb_range_end e (lkb_mkb (mkid c k) n d f) o with
          | lkb_fail _ => False
          | lkb_ok lkb_stop =>
              lkb_m_useg (Some (mkid c ka, ia)) e lkb_opened (lkb_m_run c k (negb d) (N.to_nat n) ++ R) = []
          | lkb_ok (lkb_skip st') =>
              lkb_m_useg (Some (mkid c ka, ia)) e lkb_opened (lkb_m_run c k (negb d) (N.to_nat n) ++ R)
              = lkb_m_useg (Some (mkid c ka, ia)) e st' R
          | lkb_ok (lkb_emit st' so eo) => so <= eo /\ eo < n /\
              lkb_m_useg (Some (mkid c ka, ia)) e lkb_opened (lkb_m_run c k (negb d) (N.to_nat n) ++ R)
              = lkb_m_run c (k + so) (negb d) (N.to_nat (eo - so + 1))
                ++ lkb_m_useg (Some (mkid c ka, ia)) e st' R
          end).
        { intros ia' o Ho Hlt Hia. subst ia'.
          pose proof (lkb_m_range_end (Some (mkid c ka, ia)) e c k n d f o R Hn Hlt) as H.
          assert (H0 : forall x ix, e = Some (x, ix) ->
                    lkb_contains (lkb_mkb (mkid c k) n d f) x = true -> k + o <= ck x).
          { intros x ix He Hx. specialize (Hord (mkid c ka) ia x ix eq_refl He Hc Hx).
            simpl in Hord. destruct ia; lia. }
          specialize (H H0). rewrite lkb_m_useg_opened_some, (Hdrop ia o Ho).
          destruct (lkb_range_end e (lkb_mkb (mkid c k) n d f) o) as [[st'|st' so eo|]|]; try exact H; try contradiction.
          destruct H as (E & H1 & H2 & H3). subst so. auto. }
        destruct ia.
        -- apply (Hgen true (ka - k)); [lia | lia | reflexivity].
        -- destruct (N.eqb_spec (ka - k + 1) n) as [E|E].
           ++ rewrite lkb_m_useg_opened_some, (Hdrop false n) by lia.
              replace (N.to_nat (n - n)) with 0%nat by lia. reflexivity.
           ++ apply (Hgen false (ka - k + 1)); [lia | lia | reflexivity].
      * rewrite !lkb_m_useg_opened_some. rewrite lkb_m_drop_notin; [reflexivity|].
        intros Hin. unfold lkb_m_run, lk_ids in Hin. rewrite map_map in Hin. simpl in Hin.
        rewrite map_id in Hin.
        assert (lkb_contains (lkb_mkb (mkid c k) n d f) a = true)
          by (apply lkb_m_contains_In; exact Hin).
        congruence.
    + rewrite lkb_m_useg_opened_none.
      destruct (lkb_range_end e (lkb_mkb (mkid c k) n d f) 0) as [[st'|st' so eo|]|]; try exact Hzero; contradiction.
  - destruct (lkb_range_end e (lkb_mkb (mkid c k) n d f) 0) as [[st'|st' so eo|]|]; try exact Hzero; contradiction.
  - reflexivity.
Qed.

(* ---------- Store::materialize, explicit result ---------- *)
Definition lkb_m_cpif (cnd : bool) (src : option (list N)) (key : id) (m : lkb_links) : lkb_links :=
  if cnd then m else lkb_copy_links src key m.

Ltac lkb_m_crunch :=
  repeat (cbn [lkb_bid lkb_blen lkb_bdel lkb_blinked ck cl andb fst snd] in *;
    match goal with
    | |- context [?a =? ?b] => destruct (N.eqb_spec a b); try lia
    | |- context [?a <? ?b] => destruct (N.ltb_spec a b); try lia
    end).

Lemma lkb_m_store_materialize : forall c k n d f so eo m,
  0 < n -> so <= eo -> eo < n ->
  (if (so =? 0) && (eo =? lkb_blen (lkb_mkb (mkid c k) n d f) - 1)
   then lkb_ok ([], lkb_mkb (mkid c k) n d f, [], m)
   else lkb_store_materialize (lkb_mkb (mkid c k) n d f) so eo m)
  = let src := if f then lkb_get (mkid c k) m else None in
    lkb_ok (if so =? 0 then [] else [lkb_mkb (mkid c k) so d f],
            lkb_mkb (mkid c (k + so)) (eo - so + 1) d f,
            if eo =? n - 1 then [] else [lkb_mkb (mkid c (k + eo + 1)) (n - eo - 1) d f],
            lkb_m_cpif (eo =? n - 1) src (mkid c (k + eo + 1))
              (lkb_m_cpif (so =? 0) src (mkid c (k + so)) m)).
Proof.
  intros c k n d f so eo m Hn H1 H2. unfold lkb_store_materialize, lkb_splice, lkb_m_cpif.
  lkb_m_crunch; cbn zeta; cbn [lkb_bid lkb_blen lkb_bdel lkb_blinked ck cl];
    repeat first [ reflexivity | lia | progress f_equal ].
Qed.

(* ---------- registered units, per block ---------- *)
Lemma lkb_m_reg_of_flat : forall m q l,
  lkb_reg_of m l q
  = flat_map (fun b => if lkb_nmem q (lkb_regs m (lkb_bid b)) then lkb_block_ids b else []) l.
Proof.
  intros m q l. unfold lkb_reg_of, lkb_unit_regs_of. induction l as [|b l IH]; [reflexivity|].
  cbn [flat_map]. rewrite filter_app, map_app, IH. f_equal.
  generalize (lkb_block_ids b) as ids. intros ids.
  destruct (lkb_nmem q (lkb_regs m (lkb_bid b))) eqn:E.
  - induction ids as [|a ids IHi]; simpl; [reflexivity|]. rewrite E. simpl. f_equal. exact IHi.
  - induction ids as [|a ids IHi]; simpl; [reflexivity|]. rewrite E. exact IHi.
Qed.

Lemma lkb_m_ids_units_of : forall l, lk_ids (lkb_units_of l) = flat_map lkb_block_ids l.
Proof.
  induction l as [|b l IH]; [reflexivity|].
  change (lkb_units_of (b :: l)) with (lkb_block_units b ++ lkb_units_of l).
  cbn [flat_map]. rewrite <- IH, <- lkb_m_ids_block_units. apply map_app.
Qed.

Lemma lkb_m_nodup_app : forall A C, lk_nodup (A ++ C) = true ->
  lk_nodup C = true /\ forall a, In a A -> ~ In a C.
Proof.
  induction A as [|x A IH]; simpl; intros C H.
  - split; [exact H | tauto].
  - apply andb_true_iff in H. destruct H as [H1 H2]. apply negb_true_iff in H1.
    apply lk_mem_false in H1. destruct (IH C H2) as [H3 H4]. split; [exact H3|].
    intros a [Ha|Ha].
    + subst. intros Hc. apply H1. apply in_or_app. right; exact Hc.
    + apply H4; exact Ha.
Qed.

Lemma lkb_m_regs_cpif : forall cnd src key m key',
  lkb_regs (lkb_m_cpif cnd src key m) key'
  = if cnd then lkb_regs m key'
    else match src with
         | Some qs => if id_eqb key key' then lkb_sunion qs (lkb_regs m key) else lkb_regs m key'
         | None => lkb_regs m key'
         end.
Proof.
  intros. unfold lkb_m_cpif, lkb_copy_links. destruct cnd; [reflexivity|].
  destruct src; [apply lkb_m_regs_extend | reflexivity].
Qed.

Lemma lkb_m_get_cpif : forall cnd src key m key', (cnd = false -> id_eqb key key' = false) ->
  lkb_get key' (lkb_m_cpif cnd src key m) = lkb_get key' m.
Proof.
  intros. unfold lkb_m_cpif, lkb_copy_links. destruct cnd; [reflexivity|].
  destruct src; [|reflexivity]. rewrite lkb_m_get_extend, H by reflexivity. reflexivity.
Qed.

Ltac lkb_m_ideq :=
  match goal with
  | |- context [id_eqb (mkid ?c ?a) (mkid ?c ?b)] =>
      first [ replace (id_eqb (mkid c a) (mkid c b)) with true
                by (symmetry; apply lk_id_eqb_eq; f_equal; lia)
            | replace (id_eqb (mkid c a) (mkid c b)) with false
                by (symmetry; apply lk_id_eqb_neq; let HH := fresh in intros HH; inversion HH; lia) ]
  end.

Lemma lkb_m_regs_none : forall m k, lkb_get k m = None -> lkb_regs m k = [].
Proof. intros. unfold lkb_regs. rewrite H. reflexivity. Qed.

Lemma lkb_m_reg_of_app : forall m q l1 l2,
  lkb_reg_of m (l1 ++ l2) q = lkb_reg_of m l1 q ++ lkb_reg_of m l2 q.
Proof. intros. rewrite !lkb_m_reg_of_flat. apply flat_map_app. Qed.

Lemma lkb_m_reg_of_cons : forall m q b l,
  lkb_reg_of m (b :: l) q
  = (if lkb_nmem q (lkb_regs m (lkb_bid b)) then lkb_block_ids b else []) ++ lkb_reg_of m l q.
Proof. intros. rewrite !lkb_m_reg_of_flat. reflexivity. Qed.

Lemma lkb_m_reg_of_ext : forall m m' q l,
  (forall b, In b l -> lkb_get (lkb_bid b) m' = lkb_get (lkb_bid b) m) ->
  lkb_reg_of m' l q = lkb_reg_of m l q.
Proof.
  intros m m' q l. induction l as [|b l IH]; intros H; [reflexivity|].
  rewrite !lkb_m_reg_of_cons. unfold lkb_regs. rewrite H by (left; reflexivity).
  f_equal. apply IH. intros; apply H; right; assumption.
Qed.

Lemma lkb_m_reg_of_const : forall m q l v,
  (forall b, In b l -> lkb_nmem q (lkb_regs m (lkb_bid b)) = v) ->
  lkb_reg_of m l q = if v then flat_map lkb_block_ids l else [].
Proof.
  intros m q l v. induction l as [|b l IH]; intros H.
  - destruct v; reflexivity.
  - rewrite lkb_m_reg_of_cons, H by (left; reflexivity). rewrite IH by (intros; apply H; right; assumption).
    destruct v; reflexivity.
Qed.


Lemma lkb_m_get_cpif_cases : forall cnd src key m k',
  lkb_get k' (lkb_m_cpif cnd src key m) <> None ->
  (cnd = false /\ src <> None /\ key = k') \/ lkb_get k' m <> None.
Proof.
  intros cnd src key m k' H. unfold lkb_m_cpif, lkb_copy_links in H.
  destruct cnd; [right; exact H|]. destruct src as [qs|]; [|right; exact H].
  rewrite lkb_m_get_extend in H. destruct (id_eqb key k') eqn:E.
  - left. split; [reflexivity|]. split; [discriminate|]. apply lk_id_eqb_eq. exact E.
  - right. exact H.
Qed.

Section Pieces.
  Variables (q c k n : N) (d f : bool) (so eo : N) (m : lkb_links).
  Hypothesis Hn : 0 < n.
  Hypothesis Hso : so <= eo.
  Hypothesis Heo : eo < n.
  Hypothesis Hint : forall a, In a (lkb_iota c k (N.to_nat n)) -> a <> mkid c k -> lkb_get a m = None.
  Hypothesis Hflag : f = false -> lkb_get (mkid c k) m = None.

  Let src := if f then lkb_get (mkid c k) m else None.
  Let m2 := lkb_add (mkid c (k + so)) q
              (lkb_m_cpif (eo =? n - 1) src (mkid c (k + eo + 1))
                 (lkb_m_cpif (so =? 0) src (mkid c (k + so)) m)).

  Lemma lkb_m_src : src = lkb_get (mkid c k) m.
  Proof. unfold src. destruct f; [reflexivity | symmetry; auto]. Qed.

  Lemma lkb_m_int_regs : forall o, 0 < o -> o < n -> lkb_regs m (mkid c (k + o)) = [].
  Proof.
    intros o H1 H2. apply lkb_m_regs_none. apply Hint.
    - apply lkb_m_iota_In. simpl. lia.
    - intros HH. inversion HH. lia.
  Qed.

  Lemma lkb_m_nm_src : forall q',
    lkb_nmem q' (match src with Some qs => lkb_sunion qs [] | None => [] end)
    = lkb_nmem q' (lkb_regs m (mkid c k)).
  Proof.
    intros. rewrite lkb_m_src. unfold lkb_regs. destruct (lkb_get (mkid c k) m); [|reflexivity].
    rewrite lkb_m_nmem_sunion. apply orb_false_r.
  Qed.

  Lemma lkb_m_piece_pre : forall q', so <> 0 ->
    lkb_nmem q' (lkb_regs m2 (mkid c k)) = lkb_nmem q' (lkb_regs m (mkid c k)).
  Proof.
    intros q' H0. unfold m2, lkb_add. rewrite lkb_m_regs_extend. lkb_m_ideq.
    rewrite !lkb_m_regs_cpif. repeat lkb_m_ideq.
    destruct (eo =? n - 1), (so =? 0), src; reflexivity.
  Qed.

  Lemma lkb_m_piece_item : forall q',
    lkb_nmem q' (lkb_regs m2 (mkid c (k + so))) = (q' =? q) || lkb_nmem q' (lkb_regs m (mkid c k)).
  Proof.
    intros q'. unfold m2, lkb_add. rewrite lkb_m_regs_extend, lk_id_eqb_refl.
    rewrite lkb_m_nmem_sunion. unfold lkb_nmem at 1. cbn [existsb]. rewrite orb_false_r. f_equal.
    rewrite !lkb_m_regs_cpif. repeat lkb_m_ideq.
    assert (E : (if so =? 0 then lkb_regs m (mkid c (k + so))
                 else match src with
                      | Some qs => lkb_sunion qs (lkb_regs m (mkid c (k + so)))
                      | None => lkb_regs m (mkid c (k + so)) end)
                = if so =? 0 then lkb_regs m (mkid c k)
                  else match src with Some qs => lkb_sunion qs [] | None => [] end).
    { destruct (N.eqb_spec so 0) as [E|E].
      - subst so. rewrite N.add_0_r. reflexivity.
      - rewrite lkb_m_int_regs by lia. reflexivity. }
    assert (E2 : lkb_nmem q' (if so =? 0 then lkb_regs m (mkid c k)
                  else match src with Some qs => lkb_sunion qs [] | None => [] end)
                 = lkb_nmem q' (lkb_regs m (mkid c k))).
    { destruct (so =? 0); [reflexivity | apply lkb_m_nm_src]. }
    destruct (eo =? n - 1).
    - rewrite E. exact E2.
    - destruct src eqn:Es; rewrite E; exact E2.
  Qed.

  Lemma lkb_m_piece_post : forall q', eo <> n - 1 ->
    lkb_nmem q' (lkb_regs m2 (mkid c (k + eo + 1))) = lkb_nmem q' (lkb_regs m (mkid c k)).
  Proof.
    intros q' H0. unfold m2, lkb_add. rewrite lkb_m_regs_extend. lkb_m_ideq.
    rewrite !lkb_m_regs_cpif. repeat lkb_m_ideq.
    replace (eo =? n - 1) with false by (symmetry; apply N.eqb_neq; exact H0).
    replace (k + eo + 1) with (k + (eo + 1)) by lia.
    rewrite <- lkb_m_nm_src.
    destruct (so =? 0); destruct src; rewrite ?lkb_m_int_regs by lia; reflexivity.
  Qed.

  Lemma lkb_m_piece_frame : forall k', ~ In k' (lkb_iota c k (N.to_nat n)) ->
    lkb_get k' m2 = lkb_get k' m.
  Proof.
    intros k' H. unfold m2, lkb_add. rewrite lkb_m_get_extend.
    assert (forall o, o < n -> id_eqb (mkid c (k + o)) k' = false).
    { intros o Ho. apply lk_id_eqb_neq. intros E. apply H. subst k'. apply lkb_m_iota_In. simpl. lia. }
    rewrite (H0 so) by lia. rewrite !lkb_m_get_cpif; [reflexivity | intros _; apply H0; lia |].
    intros E. apply N.eqb_neq in E.
    replace (k + eo + 1) with (k + (eo + 1)) by lia. apply H0. lia.
  Qed.
  Let pre := if so =? 0 then [] else [lkb_mkb (mkid c k) so d f].
  Let item' := lkb_set_linked (lkb_mkb (mkid c (k + so)) (eo - so + 1) d f) true.
  Let post := if eo =? n - 1 then [] else [lkb_mkb (mkid c (k + eo + 1)) (n - eo - 1) d f].

  Lemma lkb_m_pieces_units :
    lkb_units_of (pre ++ item' :: post) = lkb_m_run c k (negb d) (N.to_nat n).
  Proof.
    unfold lkb_units_of. rewrite flat_map_app. cbn [flat_map].
    assert (E1 : flat_map lkb_block_units pre = lkb_m_run c k (negb d) (N.to_nat so)).
    { unfold pre. destruct (N.eqb_spec so 0) as [E|E]; [subst so; reflexivity|].
      cbn [flat_map]. rewrite app_nil_r. reflexivity. }
    assert (E2 : flat_map lkb_block_units post
                 = lkb_m_run c (k + eo + 1) (negb d) (N.to_nat (n - eo - 1))).
    { unfold post. destruct (N.eqb_spec eo (n - 1)) as [E|E].
      - replace (N.to_nat (n - eo - 1)) with 0%nat by lia. reflexivity.
      - cbn [flat_map]. rewrite app_nil_r. reflexivity. }
    rewrite E1, E2.
    change (lkb_block_units item') with (lkb_m_run c (k + so) (negb d) (N.to_nat (eo - so + 1))).
    unfold lkb_m_run. rewrite <- !map_app. f_equal.
    replace (N.to_nat n) with (N.to_nat so + (N.to_nat (eo - so + 1) + N.to_nat (n - eo - 1)))%nat by lia.
    rewrite !lkb_m_iota_app. f_equal. f_equal; apply lkb_m_iota_eq; lia.
  Qed.

  Lemma lkb_m_pieces_ids :
    flat_map lkb_block_ids (pre ++ item' :: post) = lkb_iota c k (N.to_nat n).
  Proof.
    rewrite <- lkb_m_ids_units_of, lkb_m_pieces_units. unfold lkb_m_run, lk_ids.
    rewrite map_map. simpl. apply map_id.
  Qed.

  Lemma lkb_m_pieces_bid : forall p, In p (pre ++ item' :: post) ->
    In (lkb_bid p) (lkb_iota c k (N.to_nat n)) /\ lkb_blinked p = (f || id_eqb (lkb_bid p) (mkid c (k + so)))
    /\ 0 < lkb_blen p.
  Proof.
    intros p Hp. apply in_app_or in Hp. destruct Hp as [Hp|[Hp|Hp]].
    - unfold pre in Hp. destruct (N.eqb_spec so 0) as [E|E]; [contradiction|].
      destruct Hp as [Hp|[]]. subst p. cbn [lkb_bid lkb_blinked lkb_blen]. split; [|split].
      + apply lkb_m_iota_In. simpl. lia.
      + lkb_m_ideq. rewrite orb_false_r. reflexivity.
      + lia.
    - subst p. cbn [item' lkb_set_linked lkb_bid lkb_blinked lkb_blen]. split; [|split].
      + apply lkb_m_iota_In. simpl. lia.
      + rewrite lk_id_eqb_refl, orb_true_r. reflexivity.
      + lia.
    - unfold post in Hp. destruct (N.eqb_spec eo (n - 1)) as [E|E]; [contradiction|].
      destruct Hp as [Hp|[]]. subst p. cbn [lkb_bid lkb_blinked lkb_blen]. split; [|split].
      + apply lkb_m_iota_In. simpl. lia.
      + lkb_m_ideq. rewrite orb_false_r. reflexivity.
      + lia.
  Qed.

  Lemma lkb_m_pieces_nm : forall q' p, In p (pre ++ item' :: post) ->
    lkb_nmem q' (lkb_regs m2 (lkb_bid p))
    = (id_eqb (lkb_bid p) (mkid c (k + so)) && (q' =? q)) || lkb_nmem q' (lkb_regs m (mkid c k)).
  Proof.
    intros q' p Hp. apply in_app_or in Hp. destruct Hp as [Hp|[Hp|Hp]].
    - unfold pre in Hp. destruct (N.eq_dec so 0) as [E|E];
        [rewrite (proj2 (N.eqb_eq so 0) E) in Hp; contradiction|].
      rewrite (proj2 (N.eqb_neq so 0) E) in Hp.
      destruct Hp as [Hp|[]]. subst p. cbn [lkb_bid]. lkb_m_ideq.
      apply lkb_m_piece_pre. exact E.
    - subst p. cbn [item' lkb_set_linked lkb_bid]. rewrite lk_id_eqb_refl. apply lkb_m_piece_item.
    - unfold post in Hp. destruct (N.eq_dec eo (n - 1)) as [E|E];
        [rewrite (proj2 (N.eqb_eq eo (n - 1)) E) in Hp; contradiction|].
      rewrite (proj2 (N.eqb_neq eo (n - 1)) E) in Hp.
      destruct Hp as [Hp|[]]. subst p. cbn [lkb_bid]. lkb_m_ideq.
      apply lkb_m_piece_post. exact E.
  Qed.
  Lemma lkb_m_pieces_reg : forall q',
    lkb_reg_of m2 (pre ++ item' :: post) q' =
    if lkb_nmem q' (lkb_regs m (mkid c k)) then lkb_iota c k (N.to_nat n)
    else if q' =? q then lkb_iota c (k + so) (N.to_nat (eo - so + 1)) else [].
  Proof.
    intros q'. rewrite lkb_m_reg_of_app, lkb_m_reg_of_cons.
    assert (Epre : lkb_reg_of m2 pre q'
              = if lkb_nmem q' (lkb_regs m (mkid c k)) then flat_map lkb_block_ids pre else []).
    { apply lkb_m_reg_of_const. intros b Hb. unfold pre in Hb. destruct (N.eq_dec so 0) as [E|E].
      - rewrite (proj2 (N.eqb_eq so 0) E) in Hb. contradiction.
      - rewrite (proj2 (N.eqb_neq so 0) E) in Hb. destruct Hb as [Hb|[]]. subst b.
        apply lkb_m_piece_pre. exact E. }
    assert (Epost : lkb_reg_of m2 post q'
              = if lkb_nmem q' (lkb_regs m (mkid c k)) then flat_map lkb_block_ids post else []).
    { apply lkb_m_reg_of_const. intros b Hb. unfold post in Hb. destruct (N.eq_dec eo (n - 1)) as [E|E].
      - rewrite (proj2 (N.eqb_eq eo (n - 1)) E) in Hb. contradiction.
      - rewrite (proj2 (N.eqb_neq eo (n - 1)) E) in Hb. destruct Hb as [Hb|[]]. subst b.
        apply lkb_m_piece_post. exact E. }
    assert (Eitem : lkb_nmem q' (lkb_regs m2 (lkb_bid item'))
              = (q' =? q) || lkb_nmem q' (lkb_regs m (mkid c k))) by apply lkb_m_piece_item.
    rewrite Epre, Epost, Eitem. rewrite <- lkb_m_pieces_ids. rewrite flat_map_app. cbn [flat_map].
    destruct (lkb_nmem q' (lkb_regs m (mkid c k))).
    - rewrite orb_true_r. reflexivity.
    - rewrite orb_false_r. destruct (q' =? q); [|reflexivity].
      simpl. rewrite app_nil_r. reflexivity.
  Qed.
  Lemma lkb_m_pieces_key : forall k', In k' (lkb_iota c k (N.to_nat n)) -> lkb_get k' m2 <> None ->
    exists p, In p (pre ++ item' :: post) /\ lkb_bid p = k' /\ lkb_blinked p = true.
  Proof.
    intros k' Hk Hg. unfold m2, lkb_add in Hg. rewrite lkb_m_get_extend in Hg.
    assert (Hf : src <> None -> f = true).
    { intros Hs. destruct (Bool.bool_dec f true) as [T|T]; [exact T|].
      apply not_true_is_false in T. exfalso. apply Hs. unfold src. rewrite T. reflexivity. }
    destruct (id_eqb (mkid c (k + so)) k') eqn:E1.
    - apply lk_id_eqb_eq in E1. exists item'.
      split; [apply in_or_app; right; left; reflexivity|]. split; [exact E1 | reflexivity].
    - apply lkb_m_get_cpif_cases in Hg. destruct Hg as [(Hc & Hs & Hk')|Hg].
      + exists (lkb_mkb (mkid c (k + eo + 1)) (n - eo - 1) d f). split; [|split].
        * apply in_or_app. right. right. unfold post. rewrite Hc. left. reflexivity.
        * exact Hk'.
        * cbn [lkb_blinked]. apply Hf. exact Hs.
      + apply lkb_m_get_cpif_cases in Hg. destruct Hg as [(Hc & Hs & Hk')|Hg].
        * rewrite Hk', lk_id_eqb_refl in E1. discriminate.
        * assert (Ek : k' = mkid c k).
          { destruct (id_eqb k' (mkid c k)) eqn:E; [apply lk_id_eqb_eq; exact E|].
            apply lk_id_eqb_neq in E. exfalso. apply Hg. apply Hint; assumption. }
          subst k'. assert (Hso0 : so <> 0).
          { intros E. subst so. rewrite N.add_0_r, lk_id_eqb_refl in E1. discriminate. }
          exists (lkb_mkb (mkid c k) so d f). split; [|split].
          -- apply in_or_app. left. unfold pre. rewrite (proj2 (N.eqb_neq so 0) Hso0). left. reflexivity.
          -- reflexivity.
          -- cbn [lkb_blinked]. destruct (Bool.bool_dec f true) as [T|T]; [exact T|].
             apply not_true_is_false in T. exfalso. apply Hg. apply Hflag. exact T.
  Qed.
  Lemma lkb_m_pieces_flags :
    lkb_unit_flags_of (pre ++ item' :: post)
    = map (fun a => (a, f || lk_mem a (lkb_iota c (k + so) (N.to_nat (eo - so + 1)))))
          (lkb_iota c k (N.to_nat n)).
  Proof.
    unfold lkb_unit_flags_of. rewrite flat_map_app. cbn [flat_map].
    assert (E1 : flat_map (fun b => map (fun a => (a, lkb_blinked b)) (lkb_block_ids b)) pre
                 = map (fun a => (a, f)) (lkb_iota c k (N.to_nat so))).
    { unfold pre. destruct (N.eqb_spec so 0) as [E|E]; [subst so; reflexivity|].
      cbn [flat_map]. rewrite app_nil_r. reflexivity. }
    assert (E2 : flat_map (fun b => map (fun a => (a, lkb_blinked b)) (lkb_block_ids b)) post
                 = map (fun a => (a, f)) (lkb_iota c (k + eo + 1) (N.to_nat (n - eo - 1)))).
    { unfold post. destruct (N.eqb_spec eo (n - 1)) as [E|E].
      - replace (N.to_nat (n - eo - 1)) with 0%nat by lia. reflexivity.
      - cbn [flat_map]. rewrite app_nil_r. reflexivity. }
    rewrite E1, E2.
    change (map (fun a => (a, lkb_blinked item')) (lkb_block_ids item'))
      with (map (fun a : id => (a, true)) (lkb_iota c (k + so) (N.to_nat (eo - so + 1)))).
    replace (N.to_nat n) with (N.to_nat so + (N.to_nat (eo - so + 1) + N.to_nat (n - eo - 1)))%nat by lia.
    rewrite !lkb_m_iota_app, !map_app.
    replace (k + N.of_nat (N.to_nat so)) with (k + so) by lia.
    replace (k + so + N.of_nat (N.to_nat (eo - so + 1))) with (k + eo + 1) by lia.
    f_equal; [|f_equal]; apply map_ext_in; intros a Ha; apply lkb_m_iota_In in Ha.
    - replace (lk_mem a (lkb_iota c (k + so) (N.to_nat (eo - so + 1)))) with false; [rewrite orb_false_r; reflexivity|].
      symmetry. apply lk_mem_false. intros Hc. apply lkb_m_iota_In in Hc. lia.
    - replace (lk_mem a (lkb_iota c (k + so) (N.to_nat (eo - so + 1)))) with true; [rewrite orb_true_r; reflexivity|].
      symmetry. apply lk_mem_In. apply lkb_m_iota_In. lia.
    - replace (lk_mem a (lkb_iota c (k + so) (N.to_nat (eo - so + 1)))) with false; [rewrite orb_false_r; reflexivity|].
      symmetry. apply lk_mem_false. intros Hc. apply lkb_m_iota_In in Hc. lia.
  Qed.
End Pieces.

(* ---------- the invariant on the map alone ---------- *)
Definition lkb_m_vj (m : lkb_links) : Prop :=
  forall k v, lkb_get k m = Some v -> v <> [] /\ lkb_nnodup v = true.

Lemma lkb_m_existsb_filter : forall (A : Type) (f g : A -> bool) l,
  existsb f l = false -> existsb f (filter g l) = false.
Proof.
  induction l as [|x l IH]; simpl; intros H; [reflexivity|].
  apply orb_false_iff in H. destruct H as [H1 H2].
  destruct (g x); simpl; [rewrite H1|]; apply IH; exact H2.
Qed.

Lemma lkb_m_keys_nodup_filter : forall g m, lkb_keys_nodup m = true -> lkb_keys_nodup (filter g m) = true.
Proof.
  induction m as [|[k v] m IH]; simpl; intros H; [reflexivity|].
  apply andb_true_iff in H. destruct H as [H1 H2]. apply negb_true_iff in H1.
  destruct (g (k, v)); [|apply IH; exact H2].
  simpl. rewrite lkb_m_existsb_filter by exact H1. simpl. apply IH; exact H2.
Qed.

Lemma lkb_m_keys_nodup_put : forall k v m, lkb_keys_nodup m = true -> lkb_keys_nodup (lkb_put k v m) = true.
Proof.
  intros k v m H. unfold lkb_put, lkb_del. cbn [lkb_keys_nodup].
  rewrite lkb_m_keys_nodup_filter by exact H. rewrite andb_true_r. apply negb_true_iff.
  induction m as [|[k0 v0] m IH]; simpl; [reflexivity|].
  simpl in H. apply andb_true_iff in H. destruct H as [_ H].
  destruct (id_eqb k0 k) eqn:E; simpl; [|rewrite E; simpl]; apply IH; exact H.
Qed.

Lemma lkb_m_keys_nodup_cpif : forall cnd src key m, lkb_keys_nodup m = true ->
  lkb_keys_nodup (lkb_m_cpif cnd src key m) = true.
Proof.
  intros. unfold lkb_m_cpif, lkb_copy_links, lkb_extend. destruct cnd; [assumption|].
  destruct src; [apply lkb_m_keys_nodup_put|]; assumption.
Qed.

Lemma lkb_m_sadd_nonempty : forall x s, lkb_sadd x s <> [].
Proof.
  intros x s. unfold lkb_sadd. destruct (lkb_nmem x s) eqn:E; [|discriminate].
  destruct s; [discriminate E | discriminate].
Qed.

Lemma lkb_m_sunion_nonempty : forall qs s, qs <> [] -> lkb_sunion qs s <> [].
Proof. intros [|x qs] s H; [congruence|]. apply lkb_m_sadd_nonempty. Qed.

Lemma lkb_m_nnodup_sadd : forall x s, lkb_nnodup s = true -> lkb_nnodup (lkb_sadd x s) = true.
Proof.
  intros x s H. unfold lkb_sadd. destruct (lkb_nmem x s) eqn:E; [exact H|].
  cbn [lkb_nnodup]. rewrite E, H. reflexivity.
Qed.

Lemma lkb_m_nnodup_sunion : forall qs s, lkb_nnodup s = true -> lkb_nnodup (lkb_sunion qs s) = true.
Proof.
  induction qs as [|x qs IH]; intros s H; [exact H|].
  cbn [lkb_sunion fold_right]. apply lkb_m_nnodup_sadd. apply IH. exact H.
Qed.

Lemma lkb_m_vj_regs : forall m k, lkb_m_vj m -> lkb_nnodup (lkb_regs m k) = true.
Proof.
  intros m k H. unfold lkb_regs. destruct (lkb_get k m) as [v|] eqn:G; [|reflexivity].
  apply (H k v G).
Qed.

Lemma lkb_m_vj_extend : forall key qs m, lkb_m_vj m -> qs <> [] -> lkb_m_vj (lkb_extend key qs m).
Proof.
  intros key qs m H Hq k v G. rewrite lkb_m_get_extend in G. destruct (id_eqb key k).
  - inversion G. split; [apply lkb_m_sunion_nonempty; exact Hq|].
    apply lkb_m_nnodup_sunion. apply lkb_m_vj_regs. exact H.
  - apply (H k v G).
Qed.

Lemma lkb_m_vj_cpif : forall cnd src key m, lkb_m_vj m -> (forall qs, src = Some qs -> qs <> []) ->
  lkb_m_vj (lkb_m_cpif cnd src key m).
Proof.
  intros cnd src key m H Hs. unfold lkb_m_cpif, lkb_copy_links. destruct cnd; [exact H|].
  destruct src as [qs|]; [|exact H]. apply lkb_m_vj_extend; [exact H | apply Hs; reflexivity].
Qed.

(* ---------- the walk ---------- *)
Definition lkb_m_pre (q : N) (m : lkb_links) (l : list lkb_block) : Prop :=
  forall b, In b l ->
    (forall a, In a (lkb_block_ids b) -> a <> lkb_bid b -> lkb_get a m = None) /\
    lkb_nmem q (lkb_regs m (lkb_bid b)) = false /\
    (lkb_blinked b = false -> lkb_get (lkb_bid b) m = None).

Lemma lkb_m_bid_in : forall b, 0 < lkb_blen b -> In (lkb_bid b) (lkb_block_ids b).
Proof.
  intros. apply lkb_m_contains_In. unfold lkb_contains.
  rewrite N.eqb_refl, N.leb_refl. simpl. apply N.ltb_lt. lia.
Qed.

Lemma lkb_m_pre_ext : forall q m m' l, forallb (fun b => 0 <? lkb_blen b) l = true ->
  (forall k, In k (flat_map lkb_block_ids l) -> lkb_get k m' = lkb_get k m) ->
  lkb_m_pre q m l -> lkb_m_pre q m' l.
Proof.
  intros q m m' l Hl Hg Hp b Hb. destruct (Hp b Hb) as (P1 & P2 & P3).
  assert (Hin : forall a, In a (lkb_block_ids b) -> In a (flat_map lkb_block_ids l)).
  { intros a Ha. apply in_flat_map. exists b; auto. }
  assert (Hpos : 0 < lkb_blen b).
  { rewrite forallb_forall in Hl. apply N.ltb_lt. apply Hl; exact Hb. }
  assert (Hb' : lkb_get (lkb_bid b) m' = lkb_get (lkb_bid b) m)
    by (apply Hg, Hin, lkb_m_bid_in; exact Hpos).
  split; [|split].
  - intros a Ha Hne. rewrite Hg by (apply Hin; exact Ha). apply P1; assumption.
  - unfold lkb_regs. rewrite Hb'. exact P2.
  - intros Hf. rewrite Hb'. apply P3; exact Hf.
Qed.

Lemma lkb_m_pre_key : forall q m l k, lkb_m_pre q m l -> In k (flat_map lkb_block_ids l) ->
  lkb_get k m <> None -> exists b, In b l /\ lkb_bid b = k /\ lkb_blinked b = true.
Proof.
  intros q m l k Hpre Hk Hg. apply in_flat_map in Hk. destruct Hk as (b & Hb & Hkb).
  destruct (Hpre b Hb) as (P1 & _ & P3). exists b. split; [exact Hb|].
  assert (E : k = lkb_bid b).
  { destruct (id_eqb k (lkb_bid b)) eqn:E; [apply lk_id_eqb_eq; exact E|].
    apply lk_id_eqb_neq in E. exfalso. apply Hg. apply P1; assumption. }
  subst k. split; [reflexivity|]. destruct (lkb_blinked b); [reflexivity|].
  exfalso. apply Hg. apply P3. reflexivity.
Qed.

Lemma lkb_m_units_of_app : forall l1 l2, lkb_units_of (l1 ++ l2) = lkb_units_of l1 ++ lkb_units_of l2.
Proof. intros. apply flat_map_app. Qed.

Lemma lkb_m_ids_run : forall c k live n, lk_ids (lkb_m_run c k live n) = lkb_iota c k n.
Proof. intros. unfold lkb_m_run, lk_ids. rewrite map_map. simpl. apply map_id. Qed.

Lemma lkb_m_ids_app : forall A C, lk_ids (A ++ C) = lk_ids A ++ lk_ids C.
Proof. intros. apply map_app. Qed.

(* ---------- flags ---------- *)
Lemma lkb_m_flags_fst : forall l, map fst (lkb_unit_flags_of l) = flat_map lkb_block_ids l.
Proof.
  induction l as [|b l IH]; [reflexivity|]. unfold lkb_unit_flags_of in *. cbn [flat_map].
  rewrite map_app, IH, map_map. simpl. rewrite map_id. reflexivity.
Qed.

Lemma lkb_m_flags_cons : forall b l,
  lkb_unit_flags_of (b :: l) = lkb_unit_flags_of [b] ++ lkb_unit_flags_of l.
Proof. intros. unfold lkb_unit_flags_of. cbn [flat_map]. rewrite app_nil_r. reflexivity. Qed.

Definition lkb_m_orflag (S : list id) (p : id * bool) : id * bool := (fst p, snd p || lk_mem (fst p) S).

Lemma lkb_m_flags_ext : forall S1 S2 l,
  (forall a, In a (flat_map lkb_block_ids l) -> lk_mem a S1 = lk_mem a S2) ->
  map (lkb_m_orflag S1) (lkb_unit_flags_of l) = map (lkb_m_orflag S2) (lkb_unit_flags_of l).
Proof.
  intros S1 S2 l H. apply map_ext_in. intros p Hp. unfold lkb_m_orflag. rewrite H; [reflexivity|].
  rewrite <- lkb_m_flags_fst. apply in_map. exact Hp.
Qed.

Lemma lkb_m_flags_none : forall S l,
  (forall a, In a (flat_map lkb_block_ids l) -> ~ In a S) ->
  map (lkb_m_orflag S) (lkb_unit_flags_of l) = lkb_unit_flags_of l.
Proof.
  intros S l H. rewrite <- (map_id (lkb_unit_flags_of l)) at 2. apply map_ext_in. intros [a fl] Hp.
  unfold lkb_m_orflag. cbn [fst snd]. replace (lk_mem a S) with false; [rewrite orb_false_r; reflexivity|].
  symmetry. apply lk_mem_false. apply H. rewrite <- lkb_m_flags_fst.
  change a with (fst (a, fl)). apply in_map. exact Hp.
Qed.

Lemma lkb_m_mem_app : forall a X Y, lk_mem a (X ++ Y) = lk_mem a X || lk_mem a Y.
Proof. intros. unfold lk_mem. apply existsb_app. Qed.

Lemma lkb_m_drop_incl : forall a ia U x, In x (lk_drop_until a ia U) -> In x U.
Proof.
  induction U as [|u U IH]; simpl; intros x H; [exact H|].
  destruct (id_eqb (fst u) a).
  - destruct ia; [exact H | right; exact H].
  - right. apply IH. exact H.
Qed.

Lemma lkb_m_take_incl : forall a ia U x, In x (lk_take_until a ia U) -> In x U.
Proof.
  induction U as [|u U IH]; simpl; intros x H; [exact H|].
  destruct (id_eqb (fst u) a).
  - destruct ia; [destruct H as [H|[]]; left; exact H | contradiction].
  - destruct H as [H|H]; [left; exact H | right; apply IH; exact H].
Qed.

Lemma lkb_m_useg_incl : forall s e state U x, In x (lkb_m_useg s e state U) -> In x U.
Proof.
  intros s e state U x H. destruct state; simpl in H.
  - unfold lk_segment in H. destruct e as [[b ib]|].
    + apply lkb_m_take_incl in H. destruct s as [[a ia]|]; [apply lkb_m_drop_incl in H|]; exact H.
    + destruct s as [[a ia]|]; [apply lkb_m_drop_incl in H|]; exact H.
  - destruct e as [[b ib]|]; [apply lkb_m_take_incl in H|]; exact H.
  - contradiction.
Qed.

Lemma lkb_m_useg_ids_incl : forall s e state U a,
  In a (lk_ids (lkb_m_useg s e state U)) -> In a (lk_ids U).
Proof.
  intros s e state U a H. unfold lk_ids in *. apply in_map_iff in H. destruct H as (x & Hx & Hin).
  apply in_map_iff. exists x. split; [exact Hx|]. eapply lkb_m_useg_incl. exact Hin.
Qed.

Definition lkb_m_extra (s e : lk_bound) (state : lkb_rstate) (l : list lkb_block) (m : lkb_links)
    (l' : list lkb_block) (m' : lkb_links) : Prop :=
  (lkb_keys_nodup m = true -> lkb_keys_nodup m' = true) /\
  (lkb_m_vj m -> lkb_m_vj m') /\
  (forall k, In k (flat_map lkb_block_ids l) -> lkb_get k m' <> None ->
     exists b', In b' l' /\ lkb_bid b' = k /\ lkb_blinked b' = true) /\
  lkb_unit_flags_of l'
  = map (lkb_m_orflag (lk_ids (lkb_m_useg s e state (lkb_units_of l)))) (lkb_unit_flags_of l).

Lemma lkb_m_walk : forall q s e l state m,
  lkb_wf_blocks l = true -> (forall b, In b l -> lkb_m_cord s e b) -> lkb_m_pre q m l ->
  exists l' m', lkb_mat_walk q s e state l m = lkb_ok (l', m') /\
    lkb_units_of l' = lkb_units_of l /\
    lkb_reg_of m' l' q = lk_ids (lkb_m_useg s e state (lkb_units_of l)) /\
    (forall q', q' <> q -> lkb_reg_of m' l' q' = lkb_reg_of m l q') /\
    (forall k', ~ In k' (flat_map lkb_block_ids l) -> lkb_get k' m' = lkb_get k' m) /\
    forallb (fun b => 0 <? lkb_blen b) l' = true /\
    lkb_m_extra s e state l m l' m'.
Proof.
  intros q s e. induction l as [|B r IH]; intros state m Hwf Hcord Hpre.
  - exists [], m. cbn [lkb_mat_walk]. split; [reflexivity|]. split; [reflexivity|].
    split; [|split; [reflexivity | split; [reflexivity | split; [reflexivity|]]]].
    2:{ split; [auto|]. split; [auto|]. split; [intros k []|reflexivity]. }
    change (lkb_units_of []) with (@nil lk_unit). destruct state; simpl; try reflexivity.
    + unfold lk_segment. destruct s as [[? ?]|], e as [[? ?]|]; reflexivity.
    + destruct e as [[? ?]|]; reflexivity.
  - destruct B as [[c k] n d f].
    unfold lkb_wf_blocks in Hwf. apply andb_true_iff in Hwf. destruct Hwf as [Hpos Hnd].
    cbn [forallb] in Hpos. apply andb_true_iff in Hpos. destruct Hpos as [Hn Hposr].
    apply N.ltb_lt in Hn. cbn [lkb_blen] in Hn.
    change (lkb_units_of (lkb_mkb (mkid c k) n d f :: r))
      with (lkb_m_run c k (negb d) (N.to_nat n) ++ lkb_units_of r) in *.
    rewrite lkb_m_ids_app, lkb_m_ids_run in Hnd.
    apply lkb_m_nodup_app in Hnd. destruct Hnd as [Hndr Hdis].
    rewrite lkb_m_ids_units_of in Hdis.
    assert (Hwfr : lkb_wf_blocks r = true).
    { unfold lkb_wf_blocks. rewrite Hposr, Hndr. reflexivity. }
    assert (Hcordr : forall b, In b r -> lkb_m_cord s e b) by (intros; apply Hcord; right; assumption).
    destruct (Hpre _ (or_introl eq_refl)) as (P1 & P2 & P3).
    cbn [lkb_bid lkb_blinked] in P1, P2, P3.
    change (lkb_block_ids (lkb_mkb (mkid c k) n d f)) with (lkb_iota c k (N.to_nat n)) in P1.
    assert (Hbid : In (mkid c k) (lkb_iota c k (N.to_nat n))) by (apply lkb_m_iota_In; simpl; lia).
    pose proof (lkb_m_range_step s e state c k n d f (lkb_units_of r) Hn (Hcord _ (or_introl eq_refl))) as HS.
    cbn [lkb_mat_walk].
    destruct (lkb_range_step s e state (lkb_mkb (mkid c k) n d f)) as [[st'|st' so eo|]|].
    + (* skip *)
      destruct (IH st' m Hwfr Hcordr (fun b Hb => Hpre b (or_intror Hb)))
        as (r' & m' & Hw & Hu & Hr & Hq & Hfr & Hp' & EK & EV & EP & EF).
      rewrite Hw. eexists; eexists; split; [reflexivity|].
      assert (Hg : lkb_regs m' (mkid c k) = lkb_regs m (mkid c k)).
      { unfold lkb_regs. rewrite Hfr by (apply Hdis; exact Hbid). reflexivity. }
      split; [|split; [|split; [|split]]].
      * change (lkb_units_of (lkb_mkb (mkid c k) n d f :: r'))
          with (lkb_m_run c k (negb d) (N.to_nat n) ++ lkb_units_of r'). rewrite Hu. reflexivity.
      * rewrite lkb_m_reg_of_cons. cbn [lkb_bid]. rewrite Hg, P2, Hr, HS. reflexivity.
      * intros q' Hq'. rewrite !lkb_m_reg_of_cons. cbn [lkb_bid]. rewrite Hg, Hq by exact Hq'. reflexivity.
      * intros k' Hk. apply Hfr. intros Hc. apply Hk. cbn [flat_map]. apply in_or_app. right; exact Hc.
      * split; [cbn [forallb lkb_blen]; rewrite Hp'; rewrite (proj2 (N.ltb_lt 0 n) Hn); reflexivity|].
        split; [exact EK|]. split; [exact EV|]. split.
        -- intros k0 Hk0 Hg0. cbn [flat_map] in Hk0. apply in_app_or in Hk0. destruct Hk0 as [Hk0|Hk0].
           ++ change (lkb_block_ids (lkb_mkb (mkid c k) n d f)) with (lkb_iota c k (N.to_nat n)) in Hk0.
              rewrite Hfr in Hg0 by (apply Hdis; exact Hk0).
              destruct (lkb_m_pre_key q m _ k0 Hpre (in_or_app _ _ _ (or_introl Hk0)) Hg0)
                as (b & [Hb|Hb] & Hbk & Hbl).
              ** exists b. split; [left; exact Hb | auto].
              ** exfalso. apply (Hdis k0 Hk0). apply in_flat_map. exists b. split; [exact Hb|].
                 rewrite <- Hbk. apply lkb_m_bid_in. rewrite forallb_forall in Hposr.
                 apply N.ltb_lt. apply Hposr. exact Hb.
           ++ destruct (EP k0 Hk0 Hg0) as (b' & Hb' & Hx). exists b'. split; [right; exact Hb' | exact Hx].
        -- rewrite (lkb_m_flags_cons _ r'), (lkb_m_flags_cons _ r).
           change (lkb_units_of (lkb_mkb (mkid c k) n d f :: r))
             with (lkb_m_run c k (negb d) (N.to_nat n) ++ lkb_units_of r).
           rewrite map_app, HS, <- EF. f_equal. symmetry. apply lkb_m_flags_none.
           intros a Ha Hc. cbn [flat_map] in Ha. rewrite app_nil_r in Ha.
           apply lkb_m_useg_ids_incl in Hc. rewrite lkb_m_ids_units_of in Hc. exact (Hdis a Ha Hc).
    + (* emit *)
      destruct HS as (H1 & H2 & HS).
      rewrite lkb_m_store_materialize by assumption. cbn zeta. cbn [lkb_bid].
      set (src := if f then lkb_get (mkid c k) m else None).
      set (m2 := lkb_add (mkid c (k + so)) q
                   (lkb_m_cpif (eo =? n - 1) src (mkid c (k + eo + 1))
                      (lkb_m_cpif (so =? 0) src (mkid c (k + so)) m))).
      assert (Hfr2 : forall k', ~ In k' (lkb_iota c k (N.to_nat n)) -> lkb_get k' m2 = lkb_get k' m).
      { intros k' Hk'. apply (lkb_m_piece_frame q c k n f so eo m); assumption. }
      assert (Hpre2 : lkb_m_pre q m2 r).
      { apply (lkb_m_pre_ext q m m2 r Hposr).
        - intros k' Hk'. apply Hfr2. intros Hc. exact (Hdis k' Hc Hk').
        - intros b Hb. apply Hpre. right; exact Hb. }
      destruct (IH st' m2 Hwfr Hcordr Hpre2) as (r' & m' & Hw & Hu & Hr & Hq & Hfr & Hp' & EK & EV & EP & EF).
      rewrite Hw. eexists; eexists; split; [reflexivity|].
      rewrite app_comm_cons, app_assoc.
      match goal with |- context [lkb_units_of (?PP ++ r')] => set (P := PP) end.
      pose proof (lkb_m_pieces_units 0 c k n d f so eo [] Hn H1 H2) as HPu. fold P in HPu.
      pose proof (lkb_m_pieces_ids 0 c k n d f so eo [] Hn H1 H2) as HPi. fold P in HPi.
      pose proof (lkb_m_pieces_bid 0 c k n d f so eo [] Hn H1 H2) as HPb. fold P in HPb.
      pose proof (lkb_m_pieces_nm q c k n d f so eo m Hn H1 H2 P1 P3) as HPn.
      fold src in HPn. fold m2 in HPn. fold P in HPn.
      pose proof (lkb_m_pieces_reg q c k n d f so eo m Hn H1 H2 P1 P3) as HPr.
      fold src in HPr. fold m2 in HPr. fold P in HPr.
      assert (HregP : forall q', lkb_reg_of m' P q' = lkb_reg_of m2 P q').
      { intros q'. apply lkb_m_reg_of_ext. intros p Hp. apply Hfr.
        apply Hdis. apply HPb. exact Hp. }
      split; [|split; [|split; [|split]]].
      * rewrite lkb_m_units_of_app, HPu, Hu. reflexivity.
      * rewrite lkb_m_reg_of_app, HregP, Hr, HS, lkb_m_ids_app, lkb_m_ids_run. f_equal.
        rewrite (HPr q), P2, N.eqb_refl. reflexivity.
      * intros q' Hq'. rewrite lkb_m_reg_of_app, HregP, (HPr q'), (Hq q' Hq').
        replace (q' =? q) with false by (symmetry; apply N.eqb_neq; exact Hq').
        rewrite lkb_m_reg_of_cons. cbn [lkb_bid]. f_equal.
        apply lkb_m_reg_of_ext. intros b Hb. apply Hfr2. intros Hc. apply (Hdis _ Hc).
        apply in_flat_map. exists b. split; [exact Hb|]. apply lkb_m_bid_in.
        rewrite forallb_forall in Hposr. apply N.ltb_lt. apply Hposr. exact Hb.
      * intros k' Hk. cbn [flat_map] in Hk.
        change (lkb_block_ids (lkb_mkb (mkid c k) n d f)) with (lkb_iota c k (N.to_nat n)) in Hk.
        rewrite Hfr by (intros Hc; apply Hk; apply in_or_app; right; exact Hc).
        apply Hfr2. intros Hc; apply Hk; apply in_or_app; left; exact Hc.
      * split; [rewrite forallb_app, Hp', andb_true_r; apply forallb_forall; intros p Hp;
                  apply N.ltb_lt; apply HPb; exact Hp|].
        assert (Hsrc : lkb_m_vj m -> forall qs, src = Some qs -> qs <> []).
        { intros Hv qs Hs. unfold src in Hs. destruct f; [|discriminate]. apply (Hv _ _ Hs). }
        split; [|split; [|split]].
        -- intros HK. apply EK. unfold m2, lkb_add, lkb_extend. apply lkb_m_keys_nodup_put.
           apply lkb_m_keys_nodup_cpif. apply lkb_m_keys_nodup_cpif. exact HK.
        -- intros HV. apply EV. unfold m2, lkb_add. apply lkb_m_vj_extend; [|discriminate].
           apply lkb_m_vj_cpif; [|exact (Hsrc HV)]. apply lkb_m_vj_cpif; [exact HV | exact (Hsrc HV)].
        -- intros k0 Hk0 Hg0. cbn [flat_map] in Hk0. apply in_app_or in Hk0. destruct Hk0 as [Hk0|Hk0].
           ++ change (lkb_block_ids (lkb_mkb (mkid c k) n d f)) with (lkb_iota c k (N.to_nat n)) in Hk0.
              rewrite Hfr in Hg0 by (apply Hdis; exact Hk0).
              destruct (lkb_m_pieces_key q c k n d f so eo m H1 P1 P3 k0 Hk0 Hg0) as (p & Hp & Hx).
              exists p. split; [apply in_or_app; left; exact Hp | exact Hx].
           ++ destruct (EP k0 Hk0 Hg0) as (b' & Hb' & Hx). exists b'.
              split; [apply in_or_app; right; exact Hb' | exact Hx].
        -- unfold lkb_unit_flags_of at 1. rewrite flat_map_app. fold (lkb_unit_flags_of P). fold (lkb_unit_flags_of r').
           rewrite (lkb_m_flags_cons _ r).
           change (lkb_units_of (lkb_mkb (mkid c k) n d f :: r))
             with (lkb_m_run c k (negb d) (N.to_nat n) ++ lkb_units_of r).
           rewrite map_app, HS, lkb_m_ids_app, lkb_m_ids_run. f_equal.
           ++ pose proof (lkb_m_pieces_flags 0 c k n d f so eo [] Hn H1 H2) as HPf. fold P in HPf.
              rewrite HPf. unfold lkb_unit_flags_of. cbn [flat_map lkb_blinked]. rewrite app_nil_r.
              change (lkb_block_ids (lkb_mkb (mkid c k) n d f)) with (lkb_iota c k (N.to_nat n)).
              rewrite map_map. apply map_ext_in. intros a Ha. unfold lkb_m_orflag. cbn [fst snd].
              rewrite lkb_m_mem_app. f_equal. f_equal.
              replace (lk_mem a (lk_ids (lkb_m_useg s e st' (lkb_units_of r)))) with false;
                [rewrite orb_false_r; reflexivity|].
              symmetry. apply lk_mem_false. intros Hc. apply lkb_m_useg_ids_incl in Hc.
              rewrite lkb_m_ids_units_of in Hc. exact (Hdis a Ha Hc).
           ++ rewrite EF. apply lkb_m_flags_ext. intros a Ha. rewrite lkb_m_mem_app.
              replace (lk_mem a (lkb_iota c (k + so) (N.to_nat (eo - so + 1)))) with false; [reflexivity|].
              symmetry. apply lk_mem_false. intros Hc. apply (fun X => Hdis a X Ha).
              apply lkb_m_iota_In in Hc. apply lkb_m_iota_In. lia.
    + (* stop *)
      eexists; eexists; split; [reflexivity|]. split; [reflexivity|].
      split; [|split; [reflexivity | split; [reflexivity|]]].
      2:{ split; [cbn [forallb lkb_blen]; rewrite Hposr; rewrite (proj2 (N.ltb_lt 0 n) Hn); reflexivity|].
          split; [auto|]. split; [auto|]. split.
          - intros k0 Hk0 Hg0. exact (lkb_m_pre_key q m _ k0 Hpre Hk0 Hg0).
          - change (lkb_units_of (lkb_mkb (mkid c k) n d f :: r))
              with (lkb_m_run c k (negb d) (N.to_nat n) ++ lkb_units_of r).
            rewrite HS. symmetry. apply lkb_m_flags_none. intros a _ []. }
      change (lkb_units_of (lkb_mkb (mkid c k) n d f :: r))
        with (lkb_m_run c k (negb d) (N.to_nat n) ++ lkb_units_of r).
      rewrite HS. rewrite (lkb_m_reg_of_const m q _ false); [reflexivity|].
      intros b Hb. apply Hpre. exact Hb.
    + contradiction.
Qed.

(* ---------- from the store invariants to the hypotheses of the walk ---------- *)
Lemma lkb_m_block_unique : forall l b b' a, lk_nodup (flat_map lkb_block_ids l) = true ->
  In b l -> In b' l -> In a (lkb_block_ids b) -> In a (lkb_block_ids b') -> b = b'.
Proof.
  induction l as [|x r IH]; intros b b' a Hnd Hb Hb' Ha Ha'; [contradiction|].
  cbn [flat_map] in Hnd. apply lkb_m_nodup_app in Hnd. destruct Hnd as [Hr Hdis].
  destruct Hb as [Hb|Hb], Hb' as [Hb'|Hb'].
  - congruence.
  - subst x. exfalso. apply (Hdis a Ha). apply in_flat_map. exists b'. auto.
  - subst x. exfalso. apply (Hdis a Ha'). apply in_flat_map. exists b. auto.
  - apply (IH b b' a); assumption.
Qed.

Lemma lkb_m_get_In : forall k m v, lkb_get k m = Some v -> In (k, v) m.
Proof.
  induction m as [|[k0 v0] m IH]; simpl; intros v H; [discriminate|].
  destruct (id_eqb k0 k) eqn:E.
  - apply lk_id_eqb_eq in E. inversion H. subst. left; reflexivity.
  - right. apply IH; exact H.
Qed.

Lemma lkb_m_inv_key : forall m l k v, lkb_inv_of m l = true -> lkb_get k m = Some v ->
  exists b, In b l /\ lkb_bid b = k /\ lkb_blinked b = true.
Proof.
  intros m l k v Hinv Hg. unfold lkb_inv_of in Hinv. apply andb_true_iff in Hinv.
  destruct Hinv as [_ Hall]. rewrite forallb_forall in Hall.
  specialize (Hall _ (lkb_m_get_In _ _ _ Hg)). cbn [fst snd] in Hall.
  apply andb_true_iff in Hall. destruct Hall as [_ Hf].
  unfold lkb_find_block in Hf. destruct (find (fun b => id_eqb (lkb_bid b) k) l) as [b|] eqn:Ef; [|discriminate].
  apply find_some in Ef. destruct Ef as [Hin He]. apply lk_id_eqb_eq in He.
  exists b. auto.
Qed.

Lemma lkb_m_wf_unpack : forall l, lkb_wf_blocks l = true ->
  forallb (fun b => 0 <? lkb_blen b) l = true /\ lk_nodup (flat_map lkb_block_ids l) = true.
Proof.
  intros l H. unfold lkb_wf_blocks in H. apply andb_true_iff in H. destruct H as [H1 H2].
  rewrite lkb_m_ids_units_of in H2. auto.
Qed.

Lemma lkb_m_pre_init : forall st q, lkb_wf_blocks (lkb_blocks st) = true -> lkb_inv st = true ->
  lkb_fresh_quote st q = true -> lkb_m_pre q (lkb_linked_by st) (lkb_blocks st).
Proof.
  intros [l m qs] q Hwf Hinv Hfresh. cbn [lkb_blocks lkb_linked_by] in *. unfold lkb_inv in Hinv.
  cbn [lkb_blocks lkb_linked_by] in Hinv. unfold lkb_fresh_quote in Hfresh. cbn [lkb_linked_by] in Hfresh.
  destruct (lkb_m_wf_unpack l Hwf) as [Hpos Hnd]. rewrite forallb_forall in Hpos, Hfresh.
  intros b Hb. assert (Hb0 : 0 < lkb_blen b) by (apply N.ltb_lt, Hpos, Hb).
  split; [|split].
  - intros a Ha Hne. destruct (lkb_get a m) as [v|] eqn:G; [|reflexivity]. exfalso.
    destruct (lkb_m_inv_key m l a v Hinv G) as (b' & Hb' & Hk & _).
    assert (b = b').
    { apply (lkb_m_block_unique l b b' a Hnd Hb Hb' Ha). rewrite <- Hk. apply lkb_m_bid_in.
      apply N.ltb_lt, Hpos, Hb'. }
    subst b'. congruence.
  - unfold lkb_regs. destruct (lkb_get (lkb_bid b) m) as [v|] eqn:G; [|reflexivity].
    specialize (Hfresh _ (lkb_m_get_In _ _ _ G)). cbn [snd] in Hfresh.
    apply negb_true_iff in Hfresh. exact Hfresh.
  - intros Hf. destruct (lkb_get (lkb_bid b) m) as [v|] eqn:G; [|reflexivity]. exfalso.
    destruct (lkb_m_inv_key m l _ v Hinv G) as (b' & Hb' & Hk & Hl).
    assert (b = b').
    { apply (lkb_m_block_unique l b b' (lkb_bid b) Hnd Hb Hb' (lkb_m_bid_in b Hb0)).
      rewrite <- Hk. apply lkb_m_bid_in. apply N.ltb_lt, Hpos, Hb'. }
    subst b'. congruence.
Qed.

Lemma lkb_m_index_app_notin : forall a I L, ~ In a I ->
  lk_index a (I ++ L) = option_map (plus (length I)) (lk_index a L).
Proof.
  induction I as [|x I IH]; intros L H.
  - simpl. destruct (lk_index a L); reflexivity.
  - cbn [app lk_index length]. destruct (id_eqb x a) eqn:E.
    + apply lk_id_eqb_eq in E. exfalso. apply H. left; exact E.
    + rewrite IH by (intros Hc; apply H; right; exact Hc).
      destruct (lk_index a L); reflexivity.
Qed.

Lemma lkb_m_index_iota : forall n c k j R, (j < n)%nat ->
  lk_index (mkid c (k + N.of_nat j)) (lkb_iota c k n ++ R) = Some j.
Proof.
  induction n as [|n IH]; intros c k j R H; [lia|].
  destruct j as [|j].
  - cbn [lkb_iota app lk_index N.of_nat]. rewrite lkb_m_ideqb_same. reflexivity.
  - cbn [lkb_iota app lk_index]. rewrite lkb_m_ideqb_succ.
    replace (k + N.of_nat (S j)) with (k + 1 + N.of_nat j) by lia.
    rewrite IH by lia. reflexivity.
Qed.

Lemma lkb_m_cord_init : forall l s e b, lkb_wf_blocks l = true -> In b l ->
  lk_bounds_ordered (lk_ids (lkb_units_of l)) s e = true -> lkb_m_cord s e b.
Proof.
  intros l s e b Hwf Hb Hord a ia x ix Hs He Ha Hx. subst s e.
  destruct (lkb_m_wf_unpack l Hwf) as [Hpos Hnd].
  destruct (in_split _ _ Hb) as (l1 & l2 & El). subst l.
  rewrite lkb_m_ids_units_of in Hord. rewrite flat_map_app in Hord, Hnd. cbn [flat_map] in Hord, Hnd.
  apply lkb_m_nodup_app in Hnd. destruct Hnd as [_ Hdis].
  assert (Hnot : forall y, In y (lkb_block_ids b) -> ~ In y (flat_map lkb_block_ids l1)).
  { intros y Hy Hc. apply (Hdis y Hc). apply in_or_app. left; exact Hy. }
  assert (Hidx : forall y, lkb_contains b y = true ->
            lk_index y (flat_map lkb_block_ids l1 ++ lkb_block_ids b ++ flat_map lkb_block_ids l2)
            = Some (length (flat_map lkb_block_ids l1) + N.to_nat (ck y - ck (lkb_bid b)))%nat).
  { intros y Hy. rewrite lkb_m_index_app_notin by (apply Hnot, lkb_m_contains_In, Hy).
    unfold lkb_contains in Hy. rewrite !andb_true_iff, N.eqb_eq, N.leb_le, N.ltb_lt in Hy.
    destruct Hy as [[Hy1 Hy2] Hy3]. destruct y as [cy ky]. simpl in Hy1, Hy2, Hy3. subst cy.
    unfold lkb_block_ids.
    replace ky with (ck (lkb_bid b) + N.of_nat (N.to_nat (ky - ck (lkb_bid b)))) at 1 by lia.
    rewrite lkb_m_index_iota by lia. reflexivity. }
  unfold lk_bounds_ordered in Hord. rewrite (Hidx a Ha), (Hidx x Hx) in Hord.
  unfold lkb_contains in Ha, Hx. rewrite !andb_true_iff, N.leb_le, N.ltb_lt in Ha, Hx.
  apply orb_true_iff in Hord. destruct Hord as [Hord|Hord].
  - apply Nat.ltb_lt in Hord. destruct ia; lia.
  - apply andb_true_iff in Hord. destruct Hord as [Hord Hia]. apply Nat.eqb_eq in Hord. subst ia. lia.
Qed.

Lemma lkb_m_map_fst_filter : forall (g : id -> bool) (l : list lk_unit),
  map fst (filter (fun u => g (fst u)) l) = filter g (map fst l).
Proof.
  induction l as [|u l IH]; simpl; [reflexivity|]. destruct (g (fst u)); simpl; rewrite IH; reflexivity.
Qed.

Lemma lkb_m_unit_level : forall U s e, lk_wf (lk_mk U s e []) = true ->
  lk_registered (lk_materialize (lk_mk U s e [])) = lk_ids (lk_segment U s e).
Proof.
  intros U s e Hwf. apply lk_wf_unpack in Hwf. cbn [lk_units lk_start lk_end] in Hwf.
  destruct Hwf as (H1 & H2 & H3 & H4).
  rewrite <- (lk_in_range_filter_segment U s e H1 H2 H3 H4).
  unfold lk_registered, lk_materialize, lk_in_range. cbn [lk_reg lk_units lk_start lk_end].
  unfold lk_ids. symmetry. apply lkb_m_map_fst_filter.
Qed.

(* ---------- the early return of LinkSource::materialize ---------- *)
Lemma lkb_m_fc_none : forall a l, lkb_find_containing a l = None ->
  forall b, In b l -> lkb_contains b a = false.
Proof.
  induction l as [|x r IH]; intros H b Hb; [contradiction|].
  cbn [lkb_find_containing] in H. destruct (lkb_contains x a) eqn:C; [discriminate|].
  destruct (lkb_find_containing a r) as [[p y]|]; [discriminate|].
  destruct Hb as [Hb|Hb]; [subst; exact C | apply IH; auto].
Qed.

Lemma lkb_m_fc_some : forall a l p b, lkb_find_containing a l = Some (p, b) ->
  exists l1 l2, l = l1 ++ b :: l2 /\ length l1 = p /\ lkb_contains b a = true /\
    forall b', In b' l1 -> lkb_contains b' a = false.
Proof.
  induction l as [|x r IH]; intros p b H; [discriminate|].
  cbn [lkb_find_containing] in H. destruct (lkb_contains x a) eqn:C.
  - inversion H; subst. exists [], r. repeat split; auto. intros b' [].
  - destruct (lkb_find_containing a r) as [[p' y]|] eqn:F; [|discriminate].
    inversion H; subst. destruct (IH p' b eq_refl) as (l1 & l2 & E & L & Cb & Hn).
    exists (x :: l1), l2. subst r. repeat split; auto.
    + simpl. rewrite L. reflexivity.
    + intros b' [Hb|Hb]; [subst; exact C | apply Hn; exact Hb].
Qed.

Lemma lkb_m_get_item_none : forall l s e, lkb_wf_blocks l = true ->
  lk_bound_present (lk_ids (lkb_units_of l)) s = true -> lkb_get_item l s = None ->
  lk_segment (lkb_units_of l) s e = [].
Proof.
  intros l s e Hwf Hpres Hg. destruct s as [[a incl]|].
  - assert (Hdrop : lk_drop_until a incl (lkb_units_of l) = []).
    { unfold lkb_get_item in Hg. destruct (lkb_find_containing a l) as [[p b]|] eqn:F.
      - destruct (negb incl && id_eqb (lkb_last_id b) a) eqn:C; [|discriminate].
        destruct (Nat.ltb (S p) (length l)) eqn:L; [discriminate|].
        apply andb_true_iff in C. destruct C as [C1 C2]. apply negb_true_iff in C1. subst incl.
        apply lk_id_eqb_eq in C2. apply Nat.ltb_ge in L.
        destruct (lkb_m_fc_some a l p b F) as (l1 & l2 & E & Hl & Cb & Hn). subst l.
        rewrite app_length in L. cbn [length] in L. destruct l2 as [|z l2]; [|simpl in L; lia].
        destruct (lkb_m_wf_unpack _ Hwf) as [Hpos _]. rewrite forallb_forall in Hpos.
        assert (Hb0 : 0 < lkb_blen b) by (apply N.ltb_lt, Hpos, in_or_app; right; left; reflexivity).
        rewrite lkb_m_units_of_app. rewrite lkb_m_drop_notin.
        + change (lkb_units_of [b]) with (lkb_block_units b ++ []).
          unfold lkb_block_units, lkb_block_ids. subst a. unfold lkb_last_id.
          replace (ck (lkb_bid b) + lkb_blen b - 1)
            with (ck (lkb_bid b) + N.of_nat (N.to_nat (lkb_blen b) - 1)) by lia.
          rewrite lkb_m_drop_iota by lia.
          replace (N.to_nat (lkb_blen b) - (N.to_nat (lkb_blen b) - 1 + 1))%nat with 0%nat by lia.
          reflexivity.
        + rewrite lkb_m_ids_units_of. intros Hc. apply in_flat_map in Hc. destruct Hc as (b' & Hb' & Ha).
          apply lkb_m_contains_In in Ha. rewrite (Hn b' Hb') in Ha. discriminate.
      - exfalso. simpl in Hpres. apply lk_mem_In in Hpres. rewrite lkb_m_ids_units_of in Hpres.
        apply in_flat_map in Hpres. destruct Hpres as (b' & Hb' & Ha).
        apply lkb_m_contains_In in Ha. rewrite (lkb_m_fc_none a l F b' Hb') in Ha. discriminate. }
    unfold lk_segment. rewrite Hdrop. destruct e as [[x ix]|]; reflexivity.
  - destruct l; [|discriminate]. destruct e as [[x ix]|]; reflexivity.
Qed.

(* ---------- assembling lkb_inv ---------- *)
Lemma lkb_m_In_get : forall m k v, lkb_keys_nodup m = true -> In (k, v) m -> lkb_get k m = Some v.
Proof.
  induction m as [|[k0 v0] m IH]; intros k v HK Hin; [contradiction|].
  cbn [lkb_keys_nodup] in HK. apply andb_true_iff in HK. destruct HK as [HK1 HK2].
  apply negb_true_iff in HK1. cbn [lkb_get]. destruct Hin as [Hin|Hin].
  - inversion Hin. subst. rewrite lk_id_eqb_refl. reflexivity.
  - destruct (id_eqb k0 k) eqn:E; [|apply IH; assumption].
    apply lk_id_eqb_eq in E. subst k0. exfalso.
    assert (X : existsb (fun p : id * list N => id_eqb (fst p) k) m = true).
    { apply existsb_exists. exists (k, v). split; [exact Hin | apply lk_id_eqb_refl]. }
    congruence.
Qed.

Lemma lkb_m_find_block_unique : forall l b, lkb_wf_blocks l = true -> In b l ->
  lkb_find_block (lkb_bid b) l = Some b.
Proof.
  intros l b Hwf Hb. destruct (lkb_m_wf_unpack l Hwf) as [Hpos Hnd]. rewrite forallb_forall in Hpos.
  unfold lkb_find_block. destruct (find (fun b0 => id_eqb (lkb_bid b0) (lkb_bid b)) l) as [b0|] eqn:F.
  - apply find_some in F. destruct F as [Hb0 E]. apply lk_id_eqb_eq in E. f_equal.
    apply (lkb_m_block_unique l b0 b (lkb_bid b) Hnd Hb0 Hb).
    + rewrite <- E. apply lkb_m_bid_in. apply N.ltb_lt, Hpos, Hb0.
    + apply lkb_m_bid_in. apply N.ltb_lt, Hpos, Hb.
  - exfalso. pose proof (find_none _ _ F b Hb) as X. cbn beta in X. rewrite lk_id_eqb_refl in X. discriminate.
Qed.

Lemma lkb_m_inv_build : forall m l, lkb_wf_blocks l = true -> lkb_keys_nodup m = true -> lkb_m_vj m ->
  (forall k, lkb_get k m <> None -> exists b, In b l /\ lkb_bid b = k /\ lkb_blinked b = true) ->
  lkb_inv_of m l = true.
Proof.
  intros m l Hwf HK HV HP. unfold lkb_inv_of. rewrite HK. cbn [andb]. apply forallb_forall.
  intros [k v] Hin. cbn [fst snd]. pose proof (lkb_m_In_get m k v HK Hin) as G.
  destruct (HV k v G) as [Hne Hnn].
  destruct (HP k) as (b & Hb & Hbk & Hbl); [rewrite G; discriminate|].
  subst k. rewrite (lkb_m_find_block_unique l b Hwf Hb), Hnn, Hbl.
  destruct v; [congruence | reflexivity].
Qed.

Lemma lkb_m_inv_vj : forall m l, lkb_inv_of m l = true -> lkb_keys_nodup m = true /\ lkb_m_vj m.
Proof.
  intros m l H. unfold lkb_inv_of in H. apply andb_true_iff in H. destruct H as [HK Hall].
  split; [exact HK|]. intros k v G. rewrite forallb_forall in Hall.
  specialize (Hall _ (lkb_m_get_In _ _ _ G)). cbn [fst snd] in Hall.
  apply andb_true_iff in Hall. destruct Hall as [Hall _]. apply andb_true_iff in Hall.
  destruct Hall as [H1 H2]. split; [|exact H2]. destruct v; [discriminate | discriminate].
Qed.

Theorem lkb_materialize_refines : forall st qt,
  lkb_wf_blocks (lkb_blocks st) = true -> lkb_inv st = true ->
  lk_wf (lk_mk (lkb_units st) (lkb_qstart qt) (lkb_qend qt) []) = true ->
  lkb_fresh_quote st (lkb_qid qt) = true ->
  exists st', lkb_link_materialize st qt = lkb_ok st' /\
    lkb_units st' = lkb_units st /\
    lkb_reg st' (lkb_qid qt)
      = lk_registered (lk_materialize (lk_mk (lkb_units st) (lkb_qstart qt) (lkb_qend qt) [])) /\
    (forall q, q <> lkb_qid qt -> lkb_reg st' q = lkb_reg st q) /\
    lkb_unit_flags_of (lkb_blocks st')
      = map (fun p => (fst p, snd p || lk_mem (fst p) (lkb_reg st' (lkb_qid qt)))) (lkb_unit_flags_of (lkb_blocks st)) /\
    lkb_inv st' = true /\ lkb_wf_blocks (lkb_blocks st') = true /\
    lkb_quotes st' = qt :: lkb_quotes st.
Proof.
  intros st qt Hwf Hinv Hlk Hfresh.
  pose proof (lkb_m_pre_init st (lkb_qid qt) Hwf Hinv Hfresh) as Hpre.
  destruct st as [l m qs]. destruct qt as [q s e].
  unfold lkb_units, lkb_reg, lkb_inv in *.
  cbn [lkb_blocks lkb_linked_by lkb_quotes lkb_qid lkb_qstart lkb_qend] in *.
  rewrite (lkb_m_unit_level _ _ _ Hlk).
  destruct (lk_wf_unpack _ Hlk) as (N1 & N2 & N3 & N4). cbn [lk_units lk_start lk_end] in N1, N2, N3, N4.
  destruct (lkb_m_inv_vj m l Hinv) as [HK HV].
  unfold lkb_link_materialize. cbn [lkb_blocks lkb_linked_by lkb_quotes lkb_qid lkb_qstart lkb_qend].
  destruct (lkb_get_item l s) eqn:G.
  - destruct (lkb_m_walk q s e l lkb_opened m Hwf
               (fun b Hb => lkb_m_cord_init l s e b Hwf Hb N4) Hpre)
      as (l' & m' & Hw & Hu & Hr & Hq & Hfr & Hp' & EK & EV & EP & EF).
    rewrite Hw. eexists; split; [reflexivity|].
    cbn [lkb_blocks lkb_linked_by lkb_quotes].
    assert (Hwf' : lkb_wf_blocks l' = true) by (unfold lkb_wf_blocks; rewrite Hp', Hu; exact N1).
    split; [exact Hu|]. split; [exact Hr|]. split; [exact Hq |].
    split; [rewrite Hr; exact EF|]. split; [|split; [exact Hwf' | reflexivity]].
    apply (lkb_m_inv_build m' l' Hwf' (EK HK) (EV HV)).
    intros k Hg. destruct (lk_mem k (flat_map lkb_block_ids l)) eqn:Ek.
    + apply lk_mem_In in Ek. exact (EP k Ek Hg).
    + apply lk_mem_false in Ek. exfalso. rewrite (Hfr k Ek) in Hg.
      destruct (lkb_get k m) as [v|] eqn:Gk; [|congruence].
      destruct (lkb_m_inv_key m l k v Hinv Gk) as (b & Hb & Hbk & _).
      apply Ek. apply in_flat_map. exists b. split; [exact Hb|]. rewrite <- Hbk.
      apply lkb_m_bid_in. destruct (lkb_m_wf_unpack l Hwf) as [Hpos _].
      rewrite forallb_forall in Hpos. apply N.ltb_lt, Hpos, Hb.
  - eexists; split; [reflexivity|].
    cbn [lkb_blocks lkb_linked_by lkb_quotes].
    assert (Hreg : lkb_reg_of m l q = []).
    { rewrite (lkb_m_reg_of_const m q l false); [reflexivity|]. intros b Hb. apply Hpre. exact Hb. }
    split; [reflexivity|]. split.
    + rewrite (lkb_m_get_item_none l s e Hwf N2 G). exact Hreg.
    + split; [reflexivity|]. split; [|split; [exact Hinv | split; [exact Hwf | reflexivity]]].
      rewrite Hreg. symmetry. apply (lkb_m_flags_none [] l). intros a _ [].
Qed.

Print Assumptions lkb_materialize_refines.

(* ########## part C: integrate / join_linked_range ########## *)
Open Scope nat_scope.

(* ---------- lists of ids ---------- *)
Lemma lkb_i_mem_app : forall x l1 l2, lk_mem x (l1 ++ l2) = lk_mem x l1 || lk_mem x l2.
Proof. intros. unfold lk_mem. apply existsb_app. Qed.

Lemma lkb_i_nodup_app : forall l1 l2, lk_nodup (l1 ++ l2) = true ->
  lk_nodup l1 = true /\ lk_nodup l2 = true /\ (forall x, In x l1 -> In x l2 -> False).
Proof.
  induction l1 as [|a r IH]; intros l2 H; cbn in *.
  - repeat split; auto.
  - apply andb_true_iff in H. destruct H as [H1 H2]. apply negb_true_iff in H1.
    rewrite lkb_i_mem_app in H1. apply orb_false_iff in H1. destruct H1 as [M1 M2].
    destruct (IH _ H2) as [N1 [N2 D]]. rewrite M1, N1. repeat split; auto.
    intros x [E|Hx] Hx2.
    + subst. apply lk_mem_false in M2. auto.
    + eauto.
Qed.

Lemma lkb_i_find_app_none : forall (A : Type) (f : A -> bool) l1 l2,
  (forall x, In x l1 -> f x = false) -> find f (l1 ++ l2) = find f l2.
Proof.
  intros A f l1 l2. induction l1 as [|x r IH]; intros H; cbn; [reflexivity|].
  rewrite (H x (or_introl eq_refl)). apply IH. intros y Hy. apply H. right. exact Hy.
Qed.

Lemma lkb_i_rev_case : forall (A : Type) (l : list A), l = [] \/ exists l' x, l = l' ++ [x].
Proof.
  intros A l. induction l as [|x r IH] using rev_ind; [left; reflexivity|right; eauto].
Qed.

Lemma lkb_i_split : forall (A : Type) pos (l : list A), pos <= length l ->
  exists pre post, l = pre ++ post /\ length pre = pos.
Proof.
  intros A pos l H. exists (firstn pos l), (skipn pos l). split.
  - symmetry. apply firstn_skipn.
  - apply firstn_length_le. exact H.
Qed.

Lemma lkb_i_insert_at_app : forall (A : Type) (pre : list A) x post,
  lk_insert_at (length pre) x (pre ++ post) = pre ++ x :: post.
Proof. intros A pre x post. induction pre as [|y r IH]; cbn; [reflexivity|]. rewrite IH. reflexivity. Qed.

Lemma lkb_i_find_insert : forall (A : Type) (f : A -> bool) pre x post,
  f x = false -> find f (pre ++ x :: post) = find f (pre ++ post).
Proof.
  intros A f pre x post H. induction pre as [|y r IH]; cbn.
  - rewrite H. reflexivity.
  - rewrite IH. reflexivity.
Qed.

(* ---------- units of blocks ---------- *)
Lemma lkb_i_ids_block : forall b, lk_ids (lkb_block_units b) = lkb_block_ids b.
Proof. intros. unfold lk_ids, lkb_block_units. rewrite map_map. cbn. apply map_id. Qed.

Lemma lkb_i_units_app : forall l1 l2, lkb_units_of (l1 ++ l2) = lkb_units_of l1 ++ lkb_units_of l2.
Proof. intros. unfold lkb_units_of. apply flat_map_app. Qed.

Lemma lkb_i_ids_app : forall l1 l2,
  lk_ids (lkb_units_of (l1 ++ l2)) = lk_ids (lkb_units_of l1) ++ lk_ids (lkb_units_of l2).
Proof. intros. rewrite lkb_i_units_app. unfold lk_ids. apply map_app. Qed.

Lemma lkb_i_ids_cons : forall b l,
  lk_ids (lkb_units_of (b :: l)) = lkb_block_ids b ++ lk_ids (lkb_units_of l).
Proof.
  intros. cbn [lkb_units_of flat_map]. unfold lk_ids. rewrite map_app.
  fold (lk_ids (lkb_block_units b)). rewrite lkb_i_ids_block. reflexivity.
Qed.

Lemma lkb_i_ids_In : forall l x,
  In x (lk_ids (lkb_units_of l)) <-> exists b, In b l /\ In x (lkb_block_ids b).
Proof.
  induction l as [|a l IH]; intros x.
  - cbn. split; [tauto|intros [b [[] _]]].
  - rewrite lkb_i_ids_cons, in_app_iff, IH. cbn [In]. split.
    + intros [H|[b [H1 H2]]]; eauto.
    + intros [b [[E|H1] H2]]; [subst; auto|right; eauto].
Qed.

Lemma lkb_i_iota_snoc : forall n c k,
  lkb_iota c k (S n) = lkb_iota c k n ++ [mkid c (k + N.of_nat n)].
Proof.
  induction n as [|n IH]; intros c k.
  - cbn. rewrite N.add_0_r. reflexivity.
  - change (lkb_iota c k (S (S n))) with (mkid c k :: lkb_iota c (k + 1) (S n)).
    rewrite IH. cbn [lkb_iota app].
    replace (k + 1 + N.of_nat n)%N with (k + N.of_nat (S n))%N by lia. reflexivity.
Qed.

Lemma lkb_i_block_ids_first : forall b, (0 <? lkb_blen b)%N = true ->
  exists r, lkb_block_ids b = lkb_bid b :: r.
Proof.
  intros b H. apply N.ltb_lt in H. unfold lkb_block_ids.
  destruct (N.to_nat (lkb_blen b)) eqn:E; [lia|]. cbn. exists (lkb_iota (cl (lkb_bid b)) (ck (lkb_bid b) + 1) n). destruct (lkb_bid b). reflexivity.
Qed.

Lemma lkb_i_block_ids_last : forall b, (0 <? lkb_blen b)%N = true ->
  exists r, lkb_block_ids b = r ++ [lkb_last_id b].
Proof.
  intros b H. apply N.ltb_lt in H. unfold lkb_block_ids.
  destruct (N.to_nat (lkb_blen b)) eqn:E; [lia|]. rewrite lkb_i_iota_snoc. eexists.
  unfold lkb_last_id.
  replace (ck (lkb_bid b) + lkb_blen b - 1)%N with (ck (lkb_bid b) + N.of_nat n)%N by lia. reflexivity.
Qed.

Lemma lkb_i_bid_In : forall b, (0 <? lkb_blen b)%N = true -> In (lkb_bid b) (lkb_block_ids b).
Proof. intros b H. destruct (lkb_i_block_ids_first b H) as [r E]. rewrite E. left. reflexivity. Qed.

Lemma lkb_i_last_In : forall b, (0 <? lkb_blen b)%N = true -> In (lkb_last_id b) (lkb_block_ids b).
Proof.
  intros b H. destruct (lkb_i_block_ids_last b H) as [r E]. rewrite E. apply in_app_iff. right. left. reflexivity.
Qed.

Lemma lkb_i_disj : forall l1 b l2, lk_nodup (lk_ids (lkb_units_of (l1 ++ b :: l2))) = true ->
  forall b' x, In b' (l1 ++ l2) -> In x (lkb_block_ids b') -> In x (lkb_block_ids b) -> False.
Proof.
  intros l1 b l2 H b' x Hb' Hx' Hx. rewrite lkb_i_ids_app, lkb_i_ids_cons in H.
  apply lkb_i_nodup_app in H. destruct H as [_ [H2 D1]].
  apply lkb_i_nodup_app in H2. destruct H2 as [_ [_ D2]].
  apply in_app_iff in Hb'. destruct Hb' as [Hb'|Hb'].
  - apply (D1 x).
    + apply lkb_i_ids_In. eauto.
    + apply in_app_iff. auto.
  - apply (D2 x); [exact Hx|]. apply lkb_i_ids_In. eauto.
Qed.

(* ---------- registered units ---------- *)
Lemma lkb_i_reg_app : forall m l1 l2 q, lkb_reg_of m (l1 ++ l2) q = lkb_reg_of m l1 q ++ lkb_reg_of m l2 q.
Proof. intros. unfold lkb_reg_of, lkb_unit_regs_of. rewrite flat_map_app, filter_app, map_app. reflexivity. Qed.

Lemma lkb_i_reg_cons : forall m b l q,
  lkb_reg_of m (b :: l) q
  = (if lkb_nmem q (lkb_regs m (lkb_bid b)) then lkb_block_ids b else []) ++ lkb_reg_of m l q.
Proof.
  intros. unfold lkb_reg_of, lkb_unit_regs_of. cbn [flat_map]. rewrite filter_app, map_app. f_equal.
  destruct (lkb_nmem q (lkb_regs m (lkb_bid b))) eqn:E;
    induction (lkb_block_ids b) as [|x r IH]; cbn [map filter snd fst]; try reflexivity; rewrite E; cbn [map filter snd fst]; [f_equal|]; exact IH.
Qed.

Lemma lkb_i_reg_sub : forall m q l x, lk_mem x (lkb_reg_of m l q) = true -> In x (lk_ids (lkb_units_of l)).
Proof.
  intros m q l x. induction l as [|b l IH]; intros H.
  - cbn in H. discriminate.
  - rewrite lkb_i_reg_cons, lkb_i_mem_app in H. rewrite lkb_i_ids_cons. apply in_app_iff.
    apply orb_true_iff in H. destruct H as [H|H]; [left|right; auto].
    destruct (lkb_nmem q (lkb_regs m (lkb_bid b))); [apply lk_mem_In; exact H|cbn in H; discriminate].
Qed.

Lemma lkb_i_reg_mem_block : forall m q l1 b l2 x,
  lk_nodup (lk_ids (lkb_units_of (l1 ++ b :: l2))) = true -> In x (lkb_block_ids b) ->
  lk_mem x (lkb_reg_of m (l1 ++ b :: l2) q) = lkb_nmem q (lkb_regs m (lkb_bid b)).
Proof.
  intros m q l1 b l2 x N Hx. rewrite lkb_i_reg_app, lkb_i_reg_cons, !lkb_i_mem_app.
  assert (E1 : lk_mem x (lkb_reg_of m l1 q) = false).
  { destruct (lk_mem x (lkb_reg_of m l1 q)) eqn:E; [|reflexivity]. exfalso.
    apply lkb_i_reg_sub, lkb_i_ids_In in E. destruct E as [b' [H1 H2]].
    apply (lkb_i_disj _ _ _ N b' x); auto. apply in_app_iff. auto. }
  assert (E2 : lk_mem x (lkb_reg_of m l2 q) = false).
  { destruct (lk_mem x (lkb_reg_of m l2 q)) eqn:E; [|reflexivity]. exfalso.
    apply lkb_i_reg_sub, lkb_i_ids_In in E. destruct E as [b' [H1 H2]].
    apply (lkb_i_disj _ _ _ N b' x); auto. apply in_app_iff. auto. }
  rewrite E1, E2, orb_false_r. cbn [orb].
  destruct (lkb_nmem q (lkb_regs m (lkb_bid b))); [apply lk_mem_In; exact Hx|reflexivity].
Qed.

Lemma lkb_i_reg_ext : forall m m' q l,
  (forall b, In b l -> lkb_regs m' (lkb_bid b) = lkb_regs m (lkb_bid b)) ->
  lkb_reg_of m' l q = lkb_reg_of m l q.
Proof.
  intros m m' q l. induction l as [|b l IH]; intros H; [reflexivity|].
  rewrite !lkb_i_reg_cons, IH, (H b (or_introl eq_refl)); [reflexivity|].
  intros b' Hb'. apply H. right. exact Hb'.
Qed.

(* ---------- the map and the sets ---------- *)
Lemma lkb_i_get_del_other : forall k k' m, id_eqb k k' = false -> lkb_get k' (lkb_del k m) = lkb_get k' m.
Proof.
  intros k k' m H. induction m as [|[k0 v] r IH]; cbn; [reflexivity|].
  destruct (id_eqb k0 k) eqn:E; cbn.
  - apply lk_id_eqb_eq in E. subst k0. rewrite H. exact IH.
  - destruct (id_eqb k0 k'); [reflexivity|exact IH].
Qed.

Lemma lkb_i_regs_extend_other : forall k k' qs m, id_eqb k k' = false ->
  lkb_regs (lkb_extend k qs m) k' = lkb_regs m k'.
Proof.
  intros. unfold lkb_extend, lkb_put. unfold lkb_regs at 1 3. cbn [lkb_get]. rewrite H, lkb_i_get_del_other by exact H.
  reflexivity.
Qed.

Lemma lkb_i_regs_extend_same : forall k qs m,
  lkb_regs (lkb_extend k qs m) k = lkb_sunion qs (lkb_regs m k).
Proof.
  intros. unfold lkb_extend, lkb_put. unfold lkb_regs at 1. cbn [lkb_get]. rewrite lk_id_eqb_refl. reflexivity.
Qed.

Lemma lkb_i_nmem_app : forall q l1 l2, lkb_nmem q (l1 ++ l2) = lkb_nmem q l1 || lkb_nmem q l2.
Proof. intros. unfold lkb_nmem. apply existsb_app. Qed.

Lemma lkb_i_nmem_filter : forall q f l, lkb_nmem q (filter f l) = lkb_nmem q l && f q.
Proof.
  intros q f l. induction l as [|a r IH]; [reflexivity|]. cbn [filter].
  destruct (f a) eqn:F; cbn; destruct (N.eqb q a) eqn:E; cbn.
  - apply N.eqb_eq in E. subst. rewrite F. reflexivity.
  - exact IH.
  - apply N.eqb_eq in E. subst. rewrite F, andb_false_r in *. exact IH.
  - exact IH.
Qed.

Lemma lkb_i_nmem_sadd : forall q x s, lkb_nmem q (lkb_sadd x s) = N.eqb q x || lkb_nmem q s.
Proof.
  intros. unfold lkb_sadd. destruct (lkb_nmem x s) eqn:E; [|reflexivity].
  destruct (N.eqb q x) eqn:F; [|reflexivity]. apply N.eqb_eq in F. subst. rewrite E. reflexivity.
Qed.

Lemma lkb_i_nmem_sunion : forall q qs s, lkb_nmem q (lkb_sunion qs s) = lkb_nmem q qs || lkb_nmem q s.
Proof.
  intros q qs s. induction qs as [|x r IH]; [reflexivity|].
  cbn [lkb_sunion fold_right]. rewrite lkb_i_nmem_sadd. fold (lkb_sunion r s). rewrite IH, orb_assoc. reflexivity.
Qed.

Lemma lkb_i_nnodup_sunion : forall qs s, lkb_nnodup s = true -> lkb_nnodup (lkb_sunion qs s) = true.
Proof.
  intros qs s H. induction qs as [|x r IH]; [exact H|].
  cbn [lkb_sunion fold_right]. fold (lkb_sunion r s). unfold lkb_sadd.
  destruct (lkb_nmem x (lkb_sunion r s)) eqn:E; [exact IH|]. cbn. rewrite E, IH. reflexivity.
Qed.

Lemma lkb_i_sunion_nonempty : forall c cs s,
  match lkb_sunion (c :: cs) s with [] => false | _ :: _ => true end = true.
Proof.
  intros. cbn [lkb_sunion fold_right]. fold (lkb_sunion cs s). unfold lkb_sadd.
  destruct (lkb_nmem c (lkb_sunion cs s)) eqn:E; [|reflexivity].
  destruct (lkb_sunion cs s); [cbn in E; discriminate|reflexivity].
Qed.

Lemma lkb_i_find_quote_qid : forall q t qt, lkb_find_quote q t = Some qt -> lkb_qid qt = q.
Proof.
  intros q t qt. induction t as [|x r IH]; cbn; [discriminate|].
  destruct (N.eqb (lkb_qid x) q) eqn:E; [|exact IH]. intros H. inversion H. subst. apply N.eqb_eq. exact E.
Qed.

(* ---------- join_linked_range for one quotation = lk_links ---------- *)
Lemma lkb_i_join_links : forall quotes m left right q qt reg,
  lkb_find_quote q quotes = Some qt ->
  match left with Some l => lk_mem (lkb_last_id l) reg = lkb_nmem q (lkb_regs m (lkb_bid l)) | None => True end ->
  match right with Some r => lk_mem (lkb_bid r) reg = lkb_nmem q (lkb_regs m (lkb_bid r)) | None => True end ->
  lkb_nmem q (lkb_join_common quotes m left right)
  = lk_links (lkb_qstart qt) (lkb_qend qt) reg (option_map lkb_last_id left) (option_map lkb_bid right).
Proof.
  intros quotes m left right q qt reg Hq HL HR.
  unfold lkb_join_common, lk_links. rewrite lkb_i_nmem_app.
  destruct left as [l|], right as [r|]; cbn [option_map]; try rewrite HL; try rewrite HR; unfold lkb_regs.
  - destruct (lkb_get (lkb_bid l) m) as [lq|], (lkb_get (lkb_bid r) m) as [rq|];
      rewrite ?lkb_i_nmem_filter, ?Hq; cbn [lkb_nmem existsb lkb_is_none andb orb negb];
      destruct (lkb_qstart qt) as [[sa [|]]|], (lkb_qend qt) as [[ea [|]]|];
      cbn [lkb_end_is_before lkb_bound_no_id];
      rewrite ?(lk_id_eqb_sym (lkb_last_id l));
      try destruct (lkb_nmem q lq); try destruct (lkb_nmem q rq); cbn;
      try reflexivity; try (destruct (id_eqb sa (lkb_last_id l)); reflexivity).
  - destruct (lkb_get (lkb_bid l) m) as [lq|];
      rewrite ?lkb_i_nmem_filter, ?Hq; cbn [lkb_nmem existsb lkb_is_none andb orb negb];
      destruct (lkb_qstart qt) as [[sa [|]]|], (lkb_qend qt) as [[ea [|]]|];
      cbn [lkb_end_is_before lkb_bound_no_id];
      try destruct (lkb_nmem q lq); cbn; reflexivity.
  - destruct (lkb_get (lkb_bid r) m) as [rq|];
      rewrite ?lkb_i_nmem_filter, ?Hq; cbn [lkb_nmem existsb lkb_is_none andb orb negb];
      destruct (lkb_qstart qt) as [[sa [|]]|], (lkb_qend qt) as [[ea [|]]|];
      cbn [lkb_end_is_before lkb_bound_no_id];
      try destruct (lkb_nmem q rq); cbn; reflexivity.
  - destruct (lkb_qstart qt) as [[sa [|]]|], (lkb_qend qt) as [[ea [|]]|]; reflexivity.
Qed.

(* ---------- liveness ---------- *)
Lemma lkb_i_live_app : forall l1 l2 x, lk_is_live (l1 ++ l2) x = lk_is_live l1 x || lk_is_live l2 x.
Proof. intros. unfold lk_is_live. apply existsb_app. Qed.

Lemma lkb_i_live_block : forall b x,
  lk_is_live (lkb_block_units b) x = lk_mem x (lkb_block_ids b) && negb (lkb_bdel b).
Proof.
  intros b x. unfold lk_is_live, lkb_block_units, lk_mem.
  induction (lkb_block_ids b) as [|y r IH]; [reflexivity|].
  cbn [map existsb fst snd]. rewrite IH, (lk_id_eqb_sym y x).
  destruct (id_eqb x y), (negb (lkb_bdel b)), (existsb (id_eqb x) r); reflexivity.
Qed.

Lemma lkb_i_live_ids : forall l x, lk_is_live l x = true -> In x (lk_ids l).
Proof. intros l x H. apply lk_is_live_In in H. apply lk_ids_In. eauto. Qed.

(* ---------- lk_added over a block of new units between old units ---------- *)
Definition lkb_i_prev (prev : option id) (l : list lk_unit) : option id :=
  fold_left (fun _ u => Some (fst u)) l prev.

Lemma lkb_i_added_old_app : forall s e reg old l1 l2 prev,
  (forall u, In u l1 -> lk_mem (fst u) old = true) ->
  lk_added s e reg old prev (l1 ++ l2) = lk_added s e reg old (lkb_i_prev prev l1) l2.
Proof.
  unfold lkb_i_prev. intros s e reg old l1. induction l1 as [|u r IH]; intros l2 prev H; [reflexivity|].
  cbn [app lk_added fold_left]. rewrite (H u (or_introl eq_refl)). apply IH.
  intros v Hv. apply H. right. exact Hv.
Qed.

Lemma lkb_i_next_old_new_app : forall old l1 l2,
  (forall u, In u l1 -> lk_mem (fst u) old = false) -> lk_next_old old (l1 ++ l2) = lk_next_old old l2.
Proof.
  intros old l1 l2. induction l1 as [|u r IH]; intros H; [reflexivity|].
  cbn [app lk_next_old]. rewrite (H u (or_introl eq_refl)). apply IH. intros v Hv. apply H. right. exact Hv.
Qed.

Lemma lkb_i_added_new_app : forall s e reg old l1 l2 prev,
  (forall u, In u l1 -> lk_mem (fst u) old = false) ->
  (forall u, In u l2 -> lk_mem (fst u) old = true) ->
  lk_added s e reg old prev (l1 ++ l2) = if lk_links s e reg prev (lk_nbr l2 0) then lk_ids l1 else [].
Proof.
  intros s e reg old l1. induction l1 as [|u r IH]; intros l2 prev H1 H2.
  - cbn [app]. rewrite lk_added_all_old by exact H2. destruct (lk_links s e reg prev (lk_nbr l2 0)); reflexivity.
  - cbn [app lk_added]. rewrite (H1 u (or_introl eq_refl)).
    assert (H1' : forall v, In v r -> lk_mem (fst v) old = false) by (intros v Hv; apply H1; right; exact Hv).
    rewrite (lkb_i_next_old_new_app _ _ _ H1'), (lk_next_old_head _ _ H2), (IH _ _ H1' H2).
    destruct (lk_links s e reg prev (lk_nbr l2 0)); reflexivity.
Qed.

Definition lkb_i_lastb (l : list lkb_block) : option lkb_block :=
  match rev l with [] => None | x :: _ => Some x end.

Lemma lkb_i_lastb_snoc : forall l x, lkb_i_lastb (l ++ [x]) = Some x.
Proof. intros. unfold lkb_i_lastb. rewrite rev_app_distr. reflexivity. Qed.

Lemma lkb_i_left_nth : forall pre post,
  match length pre with O => None | S k => nth_error (pre ++ post) k end = lkb_i_lastb pre.
Proof.
  intros pre post. destruct (lkb_i_rev_case _ pre) as [E|[l' [x E]]]; subst; [reflexivity|].
  rewrite lkb_i_lastb_snoc, app_length. cbn [length]. rewrite Nat.add_1_r, <- app_assoc, nth_error_app2 by lia.
  rewrite Nat.sub_diag. reflexivity.
Qed.

Lemma lkb_i_right_nth : forall pre post : list lkb_block, nth_error (pre ++ post) (length pre) = hd_error post.
Proof. intros. rewrite nth_error_app2 by lia. rewrite Nat.sub_diag. destruct post; reflexivity. Qed.

Lemma lkb_i_prev_units : forall pre, (forall b, In b pre -> (0 <? lkb_blen b)%N = true) ->
  lkb_i_prev None (lkb_units_of pre) = option_map lkb_last_id (lkb_i_lastb pre).
Proof.
  intros pre W. destruct (lkb_i_rev_case _ pre) as [E|[l' [x E]]]; subst; [reflexivity|].
  rewrite lkb_i_lastb_snoc. cbn [option_map]. unfold lkb_i_prev. rewrite lkb_i_units_app.
  cbn [lkb_units_of flat_map]. rewrite app_nil_r. unfold lkb_block_units.
  destruct (lkb_i_block_ids_last x) as [r E]; [apply W; apply in_app_iff; right; left; reflexivity|].
  rewrite E, map_app, !fold_left_app. reflexivity.
Qed.

Lemma lkb_i_nbr_units : forall post, (forall b, In b post -> (0 <? lkb_blen b)%N = true) ->
  lk_nbr (lkb_units_of post) 0 = option_map lkb_bid (hd_error post).
Proof.
  intros [|rb post] W; [reflexivity|]. cbn [lkb_units_of flat_map hd_error option_map]. unfold lkb_block_units.
  destruct (lkb_i_block_ids_first rb) as [r E]; [apply W; left; reflexivity|]. rewrite E. reflexivity.
Qed.

Lemma lkb_i_units_flag : forall pre post a len del f,
  lkb_units_of (pre ++ lkb_mkb a len del f :: post) = lkb_units_of (pre ++ lkb_mkb a len del false :: post).
Proof. intros. rewrite !lkb_i_units_app. reflexivity. Qed.

(* ---------- the map: keys ---------- *)
Lemma lkb_i_get_none : forall a m, (forall p, In p m -> id_eqb (fst p) a = false) ->
  lkb_get a m = None /\ lkb_del a m = m /\ existsb (fun p => id_eqb (fst p) a) m = false.
Proof.
  intros a m. induction m as [|[k v] r IH]; intros H.
  - repeat split.
  - pose proof (H (k, v) (or_introl eq_refl)) as E. cbn [fst] in E.
    destruct IH as [A [B C]]; [intros p Hp; apply H; right; exact Hp|].
    unfold lkb_del in *. cbn [lkb_get filter existsb fst]. rewrite E, A, B, C. repeat split.
Qed.

Lemma lkb_i_get_some_In : forall k m v, lkb_get k m = Some v -> In (k, v) m.
Proof.
  intros k m v. induction m as [|[k0 v0] r IH]; cbn [lkb_get]; [discriminate|].
  destruct (id_eqb k0 k) eqn:E.
  - intros H. inversion H. subst. apply lk_id_eqb_eq in E. subst. left. reflexivity.
  - intros H. right. auto.
Qed.

Lemma lkb_i_find_block_here : forall l1 b l2,
  (forall b', In b' (l1 ++ b :: l2) -> (0 <? lkb_blen b')%N = true) ->
  lk_nodup (lk_ids (lkb_units_of (l1 ++ b :: l2))) = true ->
  lkb_find_block (lkb_bid b) (l1 ++ b :: l2) = Some b.
Proof.
  intros l1 b l2 W N. unfold lkb_find_block. rewrite lkb_i_find_app_none.
  - cbn [find]. rewrite lk_id_eqb_refl. reflexivity.
  - intros x Hx. destruct (id_eqb (lkb_bid x) (lkb_bid b)) eqn:E; [exfalso|reflexivity].
    apply lk_id_eqb_eq in E. apply (lkb_i_disj _ _ _ N x (lkb_bid b)).
    + apply in_app_iff. left. exact Hx.
    + rewrite <- E. apply lkb_i_bid_In, W. apply in_app_iff. left. exact Hx.
    + apply lkb_i_bid_In, W. apply in_app_iff. right. left. reflexivity.
Qed.

Lemma lkb_i_unflagged_no_entry : forall m l1 b l2,
  (forall b', In b' (l1 ++ b :: l2) -> (0 <? lkb_blen b')%N = true) ->
  lk_nodup (lk_ids (lkb_units_of (l1 ++ b :: l2))) = true ->
  lkb_inv_of m (l1 ++ b :: l2) = true -> lkb_blinked b = false -> lkb_regs m (lkb_bid b) = [].
Proof.
  intros m l1 b l2 W N I F. unfold lkb_regs. destruct (lkb_get (lkb_bid b) m) as [v|] eqn:G; [|reflexivity].
  exfalso. apply lkb_i_get_some_In in G. unfold lkb_inv_of in I. apply andb_true_iff in I. destruct I as [_ I2].
  rewrite forallb_forall in I2. specialize (I2 _ G). cbn [fst snd] in I2.
  rewrite (lkb_i_find_block_here _ _ _ W N), F, andb_false_r in I2. discriminate.
Qed.

(* ---------- the neighbours of the insertion point ---------- *)
Lemma lkb_i_left_reg : forall m q pre post,
  (forall b, In b (pre ++ post) -> (0 <? lkb_blen b)%N = true) ->
  lk_nodup (lk_ids (lkb_units_of (pre ++ post))) = true ->
  match lkb_i_lastb pre with
  | Some l => lk_mem (lkb_last_id l) (lkb_reg_of m (pre ++ post) q) = lkb_nmem q (lkb_regs m (lkb_bid l))
  | None => True
  end.
Proof.
  intros m q pre post W N. destruct (lkb_i_rev_case _ pre) as [E|[l' [x E]]]; subst; [exact I|].
  rewrite lkb_i_lastb_snoc. rewrite <- app_assoc in *. cbn [app] in *.
  apply lkb_i_reg_mem_block; [exact N|]. apply lkb_i_last_In, W. apply in_app_iff. right. left. reflexivity.
Qed.

Lemma lkb_i_right_reg : forall m q pre post,
  (forall b, In b (pre ++ post) -> (0 <? lkb_blen b)%N = true) ->
  lk_nodup (lk_ids (lkb_units_of (pre ++ post))) = true ->
  match hd_error post with
  | Some r => lk_mem (lkb_bid r) (lkb_reg_of m (pre ++ post) q) = lkb_nmem q (lkb_regs m (lkb_bid r))
  | None => True
  end.
Proof.
  intros m q pre [|r post] W N; [exact I|]. cbn [hd_error].
  apply lkb_i_reg_mem_block; [exact N|]. apply lkb_i_bid_In, W. apply in_app_iff. right. left. reflexivity.
Qed.

Lemma lkb_i_left_unflagged : forall m pre post,
  (forall b, In b (pre ++ post) -> (0 <? lkb_blen b)%N = true) ->
  lk_nodup (lk_ids (lkb_units_of (pre ++ post))) = true ->
  lkb_inv_of m (pre ++ post) = true ->
  match lkb_i_lastb pre with
  | Some l => lkb_blinked l = false -> lkb_regs m (lkb_bid l) = []
  | None => True
  end.
Proof.
  intros m pre post W N Iv. destruct (lkb_i_rev_case _ pre) as [E|[l' [x E]]]; subst; [exact I|].
  rewrite lkb_i_lastb_snoc. rewrite <- app_assoc in *. cbn [app] in *.
  apply (lkb_i_unflagged_no_entry m l' x post W N Iv).
Qed.

Lemma lkb_i_right_unflagged : forall m pre post,
  (forall b, In b (pre ++ post) -> (0 <? lkb_blen b)%N = true) ->
  lk_nodup (lk_ids (lkb_units_of (pre ++ post))) = true ->
  lkb_inv_of m (pre ++ post) = true ->
  match hd_error post with
  | Some r => lkb_blinked r = false -> lkb_regs m (lkb_bid r) = []
  | None => True
  end.
Proof.
  intros m pre [|r post] W N Iv; [exact I|]. cbn [hd_error].
  apply (lkb_i_unflagged_no_entry m pre r post W N Iv).
Qed.

Lemma lkb_i_links_unreg : forall s e reg L R,
  match L with Some x => lk_mem x reg = false | None => True end ->
  match R with Some x => lk_mem x reg = false | None => True end ->
  lk_links s e reg L R = false.
Proof.
  intros s e reg L R HL HR. unfold lk_links. destruct L, R; try rewrite HL; try rewrite HR; reflexivity.
Qed.

(* ---------- integrate in terms of the two halves of the block list ---------- *)
Definition lkb_i_integrate_pp (pre post : list lkb_block) (m : lkb_links) (quotes : list lkb_quote)
    (a : id) (len : N) (del : bool) : lkb_store :=
  if negb del && (lkb_opt_linked (lkb_i_lastb pre) || lkb_opt_linked (hd_error post)) then
    lkb_mks (pre ++ lkb_mkb a len del true :: post)
            (match lkb_join_common quotes m (lkb_i_lastb pre) (hd_error post) with
             | [] => m
             | _ :: _ => lkb_extend a (lkb_join_common quotes m (lkb_i_lastb pre) (hd_error post)) m
             end)
            quotes
  else lkb_mks (pre ++ lkb_mkb a len del false :: post) m quotes.

Lemma lkb_i_integrate_eq : forall st pre post a len del, lkb_blocks st = pre ++ post ->
  lkb_integrate st (length pre) a len del
  = lkb_i_integrate_pp pre post (lkb_linked_by st) (lkb_quotes st) a len del.
Proof.
  intros st pre post a len del H. unfold lkb_integrate, lkb_i_integrate_pp. cbv zeta.
  rewrite H, lkb_i_left_nth, lkb_i_right_nth, !lkb_i_insert_at_app. reflexivity.
Qed.

Definition lkb_i_ctx (pre post : list lkb_block) (m : lkb_links) (a : id) (len : N) (del : bool) : Prop :=
  (forall b, In b (pre ++ post) -> (0 <? lkb_blen b)%N = true) /\ (0 <? len)%N = true /\
  lk_nodup (lk_ids (lkb_units_of (pre ++ post))) = true /\
  lk_nodup (lk_ids (lkb_units_of (pre ++ lkb_mkb a len del false :: post))) = true /\
  lkb_inv_of m (pre ++ post) = true.

Lemma lkb_i_fresh_bid : forall pre post m a len del, lkb_i_ctx pre post m a len del ->
  forall b, In b (pre ++ post) -> id_eqb (lkb_bid b) a = false.
Proof.
  intros pre post m a len del [W [Hlen [N0 [N1 Iv]]]] b Hb.
  destruct (id_eqb (lkb_bid b) a) eqn:E; [exfalso|reflexivity]. apply lk_id_eqb_eq in E.
  apply (lkb_i_disj _ _ _ N1 b a Hb).
  - rewrite <- E. apply lkb_i_bid_In, W, Hb.
  - exact (lkb_i_bid_In (lkb_mkb a len del false) Hlen).
Qed.

Lemma lkb_i_fresh_key : forall pre post m a len del, lkb_i_ctx pre post m a len del ->
  forall p, In p m -> id_eqb (fst p) a = false.
Proof.
  intros pre post m a len del C p Hp. pose proof (lkb_i_fresh_bid _ _ _ _ _ _ C) as F1.
  destruct C as [W [Hlen [N0 [N1 Iv]]]]. unfold lkb_inv_of in Iv. apply andb_true_iff in Iv. destruct Iv as [_ I2].
  rewrite forallb_forall in I2. specialize (I2 p Hp). apply andb_true_iff in I2. destruct I2 as [_ I2].
  destruct (lkb_find_block (fst p) (pre ++ post)) as [b|] eqn:Fb; [|discriminate].
  apply find_some in Fb. destruct Fb as [Hin Heq]. apply lk_id_eqb_eq in Heq. rewrite <- Heq. apply F1, Hin.
Qed.

Lemma lkb_i_regs_fresh : forall pre post m a len del, lkb_i_ctx pre post m a len del -> lkb_regs m a = [].
Proof.
  intros pre post m a len del C. unfold lkb_regs.
  destruct (lkb_i_get_none a m (lkb_i_fresh_key _ _ _ _ _ _ C)) as [A _]. rewrite A. reflexivity.
Qed.

Lemma lkb_i_inv_plain : forall pre post m a len del f, lkb_i_ctx pre post m a len del ->
  lkb_inv_of m (pre ++ lkb_mkb a len del f :: post) = true.
Proof.
  intros pre post m a len del f C. pose proof (lkb_i_fresh_key _ _ _ _ _ _ C) as K.
  destruct C as [W [Hlen [N0 [N1 Iv]]]]. unfold lkb_inv_of in *. apply andb_true_iff in Iv. destruct Iv as [I1 I2].
  rewrite I1. cbn [andb]. apply forallb_forall. intros p Hp. rewrite forallb_forall in I2. specialize (I2 p Hp).
  unfold lkb_find_block in *. rewrite lkb_i_find_insert; [exact I2|]. cbn [lkb_bid].
  rewrite lk_id_eqb_sym. apply K, Hp.
Qed.

Lemma lkb_i_inv_entry : forall pre post m a len del v, lkb_i_ctx pre post m a len del ->
  match v with [] => false | _ :: _ => true end = true -> lkb_nnodup v = true ->
  lkb_inv_of ((a, v) :: m) (pre ++ lkb_mkb a len del true :: post) = true.
Proof.
  intros pre post m a len del v C H1 H2. pose proof (lkb_i_inv_plain _ _ _ _ _ _ true C) as P.
  pose proof (lkb_i_fresh_bid _ _ _ _ _ _ C) as F1.
  destruct (lkb_i_get_none a m (lkb_i_fresh_key _ _ _ _ _ _ C)) as [_ [_ E]].
  unfold lkb_inv_of in *. apply andb_true_iff in P. destruct P as [P1 P2].
  cbn [lkb_keys_nodup forallb fst snd]. rewrite P1, P2, H1, H2, E. cbn [negb andb].
  unfold lkb_find_block. rewrite lkb_i_find_app_none.
  - cbn [find lkb_bid]. rewrite lk_id_eqb_refl. reflexivity.
  - intros x Hx. apply F1. apply in_app_iff. left. exact Hx.
Qed.

Lemma lkb_i_inv_pp : forall pre post m quotes a len del, lkb_i_ctx pre post m a len del ->
  lkb_inv (lkb_i_integrate_pp pre post m quotes a len del) = true.
Proof.
  intros pre post m quotes a len del C. unfold lkb_i_integrate_pp, lkb_inv.
  destruct (negb del && (lkb_opt_linked (lkb_i_lastb pre) || lkb_opt_linked (hd_error post)));
    cbn [lkb_linked_by lkb_blocks]; [|apply lkb_i_inv_plain; exact C].
  destruct (lkb_join_common quotes m (lkb_i_lastb pre) (hd_error post)) as [|c cs]; [apply lkb_i_inv_plain; exact C|].
  unfold lkb_extend, lkb_put. rewrite (lkb_i_regs_fresh _ _ _ _ _ _ C).
  destruct (lkb_i_get_none a m (lkb_i_fresh_key _ _ _ _ _ _ C)) as [_ [B _]]. rewrite B.
  apply lkb_i_inv_entry; [exact C|apply lkb_i_sunion_nonempty|apply lkb_i_nnodup_sunion; reflexivity].
Qed.

Lemma lkb_i_wf_flag : forall pre post m a len del f, lkb_i_ctx pre post m a len del ->
  lkb_wf_blocks (pre ++ lkb_mkb a len del f :: post) = true.
Proof.
  intros pre post m a len del f [W [Hlen [N0 [N1 Iv]]]]. unfold lkb_wf_blocks.
  rewrite lkb_i_units_flag, N1, andb_true_r. apply forallb_forall. intros b Hb.
  apply in_app_iff in Hb. destruct Hb as [Hb|[Hb|Hb]].
  - apply W. apply in_app_iff. left. exact Hb.
  - subst b. exact Hlen.
  - apply W. apply in_app_iff. right. exact Hb.
Qed.

Lemma lkb_i_wf_pp : forall pre post m quotes a len del, lkb_i_ctx pre post m a len del ->
  lkb_wf_blocks (lkb_blocks (lkb_i_integrate_pp pre post m quotes a len del)) = true.
Proof.
  intros pre post m quotes a len del C. unfold lkb_i_integrate_pp.
  destruct (negb del && (lkb_opt_linked (lkb_i_lastb pre) || lkb_opt_linked (hd_error post)));
    cbn [lkb_blocks]; apply (lkb_i_wf_flag _ _ _ _ _ _ _ C).
Qed.

Lemma lkb_i_quotes_pp : forall pre post m quotes a len del,
  lkb_quotes (lkb_i_integrate_pp pre post m quotes a len del) = quotes.
Proof.
  intros. unfold lkb_i_integrate_pp.
  destruct (negb del && (lkb_opt_linked (lkb_i_lastb pre) || lkb_opt_linked (hd_error post))); reflexivity.
Qed.

Lemma lkb_i_units_pp : forall pre post m quotes a len del,
  lkb_units (lkb_i_integrate_pp pre post m quotes a len del)
  = lkb_units_of (pre ++ lkb_mkb a len del false :: post).
Proof.
  intros. unfold lkb_i_integrate_pp, lkb_units.
  destruct (negb del && (lkb_opt_linked (lkb_i_lastb pre) || lkb_opt_linked (hd_error post)));
    cbn [lkb_blocks]; apply lkb_i_units_flag.
Qed.

Lemma lkb_i_ctx_of : forall st pre post a len del,
  lkb_wf_blocks (lkb_blocks st) = true -> lkb_inv st = true ->
  lkb_op_ok st (lkb_op_integrate (length pre) a len del) = true ->
  lkb_blocks st = pre ++ post ->
  lkb_i_ctx pre post (lkb_linked_by st) a len del.
Proof.
  intros st pre post a len del Hwf Hinv Hok E. unfold lkb_wf_blocks in Hwf. unfold lkb_inv in Hinv.
  cbn [lkb_op_ok] in Hok. rewrite E in *. rewrite lkb_i_insert_at_app in Hok.
  apply andb_true_iff in Hwf. destruct Hwf as [W N0].
  apply andb_true_iff in Hok. destruct Hok as [Hok N1]. apply andb_true_iff in Hok. destruct Hok as [_ Hlen].
  rewrite forallb_forall in W. repeat split; assumption.
Qed.

Lemma lkb_integrate_inv : forall st pos a len del,
  lkb_wf_blocks (lkb_blocks st) = true -> lkb_inv st = true ->
  lkb_op_ok st (lkb_op_integrate pos a len del) = true ->
  lkb_inv (lkb_integrate st pos a len del) = true /\
  lkb_wf_blocks (lkb_blocks (lkb_integrate st pos a len del)) = true /\
  lkb_quotes (lkb_integrate st pos a len del) = lkb_quotes st.
Proof.
  intros st pos a len del Hwf Hinv Hok.
  assert (Hpos : pos <= length (lkb_blocks st)).
  { cbn [lkb_op_ok] in Hok. apply andb_true_iff in Hok. destruct Hok as [Hok _].
    apply andb_true_iff in Hok. destruct Hok as [Hok _]. apply Nat.leb_le. exact Hok. }
  destruct (lkb_i_split _ pos (lkb_blocks st) Hpos) as [pre [post [E Hl]]]. subst pos.
  pose proof (lkb_i_ctx_of st pre post a len del Hwf Hinv Hok E) as C.
  rewrite (lkb_i_integrate_eq st pre post a len del E).
  split; [apply lkb_i_inv_pp; exact C|]. split; [apply lkb_i_wf_pp; exact C|apply lkb_i_quotes_pp].
Qed.

(* ---------- the unit-level side ---------- *)
Lemma lkb_i_added_eq : forall pre post m a len del s e reg, lkb_i_ctx pre post m a len del ->
  lk_added s e reg (lk_ids (lkb_units_of (pre ++ post))) None
           (lkb_units_of (pre ++ lkb_mkb a len del false :: post))
  = if lk_links s e reg (option_map lkb_last_id (lkb_i_lastb pre)) (option_map lkb_bid (hd_error post))
    then lkb_block_ids (lkb_mkb a len del false) else [].
Proof.
  intros pre post m a len del s e reg [W [Hlen [N0 [N1 Iv]]]].
  rewrite (lkb_i_units_app pre (_ :: post)).
  change (lkb_units_of (lkb_mkb a len del false :: post))
    with (lkb_block_units (lkb_mkb a len del false) ++ lkb_units_of post).
  rewrite lkb_i_added_old_app.
  2:{ intros u Hu. apply lk_mem_In. rewrite lkb_i_ids_app. apply in_app_iff. left. unfold lk_ids.
      apply in_map. exact Hu. }
  rewrite lkb_i_added_new_app.
  2:{ intros u Hu. apply lk_mem_false. intros Hin. apply lkb_i_ids_In in Hin. destruct Hin as [b [Hb Hx]].
      apply (lkb_i_disj _ _ _ N1 b (fst u) Hb Hx). rewrite <- lkb_i_ids_block. unfold lk_ids.
      apply in_map. exact Hu. }
  2:{ intros u Hu. apply lk_mem_In. rewrite lkb_i_ids_app. apply in_app_iff. right. unfold lk_ids.
      apply in_map. exact Hu. }
  rewrite lkb_i_prev_units, lkb_i_nbr_units, lkb_i_ids_block; [reflexivity| |].
  - intros b Hb. apply W. apply in_app_iff. right. exact Hb.
  - intros b Hb. apply W. apply in_app_iff. left. exact Hb.
Qed.

Lemma lkb_i_removed_nil : forall pre post nb reg,
  lk_removed (lkb_units_of (pre ++ post)) (lkb_units_of (pre ++ nb :: post)) reg = [].
Proof.
  intros. unfold lk_removed. apply lk_filter_none. intros x _.
  rewrite (lkb_i_units_app pre (_ :: post)), (lkb_i_units_app pre post).
  change (lkb_units_of (nb :: post)) with (lkb_block_units nb ++ lkb_units_of post).
  rewrite !lkb_i_live_app.
  destruct (lk_is_live (lkb_units_of pre) x), (lk_is_live (lkb_units_of post) x),
    (lk_is_live (lkb_block_units nb) x); reflexivity.
Qed.

Lemma lkb_i_live_new : forall pre post m a len del, lkb_i_ctx pre post m a len del ->
  forall x, In x (lkb_block_ids (lkb_mkb a len del false)) ->
  lk_is_live (lkb_units_of (pre ++ lkb_mkb a len del false :: post)) x = negb del.
Proof.
  intros pre post m a len del [W [Hlen [N0 [N1 Iv]]]] x Hx.
  rewrite (lkb_i_units_app pre (_ :: post)).
  change (lkb_units_of (lkb_mkb a len del false :: post))
    with (lkb_block_units (lkb_mkb a len del false) ++ lkb_units_of post).
  rewrite !lkb_i_live_app, lkb_i_live_block.
  assert (E1 : lk_is_live (lkb_units_of pre) x = false).
  { destruct (lk_is_live (lkb_units_of pre) x) eqn:E; [exfalso|reflexivity].
    apply lkb_i_live_ids, lkb_i_ids_In in E. destruct E as [b [Hb Hxb]].
    apply (lkb_i_disj _ _ _ N1 b x); auto. apply in_app_iff. left. exact Hb. }
  assert (E2 : lk_is_live (lkb_units_of post) x = false).
  { destruct (lk_is_live (lkb_units_of post) x) eqn:E; [exfalso|reflexivity].
    apply lkb_i_live_ids, lkb_i_ids_In in E. destruct E as [b [Hb Hxb]].
    apply (lkb_i_disj _ _ _ N1 b x); auto. apply in_app_iff. right. exact Hb. }
  apply lk_mem_In in Hx. rewrite E1, E2, Hx. cbn [lkb_bdel orb andb]. apply orb_false_r.
Qed.

Lemma lkb_i_rhs_mem : forall pre post m a len del s e reg, lkb_i_ctx pre post m a len del -> forall x,
  lk_mem x (lk_next_reg_units (lkb_units_of (pre ++ post))
                              (lkb_units_of (pre ++ lkb_mkb a len del false :: post)) reg s e)
  = (lk_links s e reg (option_map lkb_last_id (lkb_i_lastb pre)) (option_map lkb_bid (hd_error post))
     && negb del && lk_mem x (lkb_block_ids (lkb_mkb a len del false)))
    || lk_mem x reg.
Proof.
  intros pre post m a len del s e reg C x. unfold lk_next_reg_units.
  rewrite lkb_i_removed_nil, (lkb_i_added_eq _ _ _ _ _ _ s e reg C), lkb_i_mem_app.
  rewrite (lk_filter_all _ (fun a0 => negb (lk_mem a0 [])) reg) by reflexivity. f_equal.
  destruct (lk_links s e reg (option_map lkb_last_id (lkb_i_lastb pre)) (option_map lkb_bid (hd_error post)));
    [|reflexivity].
  cbn [andb]. destruct del eqn:D.
  - rewrite lk_filter_none; [reflexivity|]. intros y Hy. apply (lkb_i_live_new _ _ _ _ _ _ C y Hy).
  - rewrite lk_filter_all; [reflexivity|]. intros y Hy. apply (lkb_i_live_new _ _ _ _ _ _ C y Hy).
Qed.

(* ---------- the block-level side ---------- *)
Lemma lkb_i_lhs_mem : forall pre post m m' a len del f q,
  (forall b, In b (pre ++ post) -> lkb_regs m' (lkb_bid b) = lkb_regs m (lkb_bid b)) -> forall x,
  lk_mem x (lkb_reg_of m' (pre ++ lkb_mkb a len del f :: post) q)
  = (lkb_nmem q (lkb_regs m' a) && lk_mem x (lkb_block_ids (lkb_mkb a len del false)))
    || lk_mem x (lkb_reg_of m (pre ++ post) q).
Proof.
  intros pre post m m' a len del f q H x.
  rewrite lkb_i_reg_app, lkb_i_reg_cons, !lkb_i_mem_app.
  rewrite (lkb_i_reg_ext m m' q pre), (lkb_i_reg_ext m m' q post).
  2:{ intros b Hb. apply H. apply in_app_iff. right. exact Hb. }
  2:{ intros b Hb. apply H. apply in_app_iff. left. exact Hb. }
  rewrite lkb_i_reg_app, lkb_i_mem_app. cbn [lkb_bid].
  change (lkb_block_ids (lkb_mkb a len del f)) with (lkb_block_ids (lkb_mkb a len del false)).
  destruct (lkb_nmem q (lkb_regs m' a)); cbn [andb];
    destruct (lk_mem x (lkb_reg_of m pre q)), (lk_mem x (lkb_reg_of m post q)),
      (lk_mem x (lkb_block_ids (lkb_mkb a len del false))); reflexivity.
Qed.

Lemma lkb_i_refines_pp : forall pre post m quotes a len del q qt,
  lkb_i_ctx pre post m a len del -> lkb_find_quote q quotes = Some qt -> forall x,
  lk_mem x (lkb_reg (lkb_i_integrate_pp pre post m quotes a len del) q)
  = lk_mem x (lk_next_reg_units (lkb_units_of (pre ++ post))
                (lkb_units_of (pre ++ lkb_mkb a len del false :: post))
                (lkb_reg_of m (pre ++ post) q) (lkb_qstart qt) (lkb_qend qt)).
Proof.
  intros pre post m quotes a len del q qt C Hq x.
  rewrite (lkb_i_rhs_mem _ _ _ _ _ _ _ _ _ C).
  pose proof (lkb_i_regs_fresh _ _ _ _ _ _ C) as RF.
  pose proof (lkb_i_fresh_bid _ _ _ _ _ _ C) as F1.
  destruct C as [W [Hlen [N0 [N1 Iv]]]].
  pose proof (lkb_i_left_reg m q pre post W N0) as HL.
  pose proof (lkb_i_right_reg m q pre post W N0) as HR.
  pose proof (lkb_i_left_unflagged m pre post W N0 Iv) as GL.
  pose proof (lkb_i_right_unflagged m pre post W N0 Iv) as GR.
  pose proof (lkb_i_join_links quotes m _ _ q qt _ Hq HL HR) as J.
  unfold lkb_reg, lkb_i_integrate_pp.
  destruct (negb del && (lkb_opt_linked (lkb_i_lastb pre) || lkb_opt_linked (hd_error post))) eqn:G;
    cbn [lkb_linked_by lkb_blocks].
  - apply andb_true_iff in G. destruct G as [G1 G2]. rewrite G1, andb_true_r. rewrite <- J.
    destruct (lkb_join_common quotes m (lkb_i_lastb pre) (hd_error post)) as [|c cs] eqn:Cm.
    + rewrite (lkb_i_lhs_mem pre post m m) by reflexivity. rewrite RF. reflexivity.
    + rewrite (lkb_i_lhs_mem pre post m).
      2:{ intros b Hb. apply lkb_i_regs_extend_other. rewrite lk_id_eqb_sym. apply F1, Hb. }
      rewrite lkb_i_regs_extend_same, lkb_i_nmem_sunion, RF. cbn [lkb_nmem existsb]. rewrite orb_false_r.
      reflexivity.
  - rewrite (lkb_i_lhs_mem pre post m m) by reflexivity. rewrite RF. cbn [lkb_nmem existsb andb].
    destruct del; [rewrite andb_false_r; reflexivity|]. cbn [negb andb] in G.
    apply orb_false_iff in G. destruct G as [G1 G2].
    rewrite lkb_i_links_unreg; [reflexivity| |].
    + destruct (lkb_i_lastb pre) as [l|]; cbn [option_map]; [|exact I].
      rewrite HL, (GL G1). reflexivity.
    + destruct (hd_error post) as [r|]; cbn [option_map]; [|exact I].
      rewrite HR, (GR G2). reflexivity.
Qed.

Theorem lkb_integrate_refines : forall st pos a len del q qt,
  lkb_wf_blocks (lkb_blocks st) = true -> lkb_inv st = true ->
  lkb_op_ok st (lkb_op_integrate pos a len del) = true ->
  lkb_find_quote q (lkb_quotes st) = Some qt ->
  let st' := lkb_integrate st pos a len del in
  (forall x, lk_mem x (lkb_reg st' q)
             = lk_mem x (lk_next_reg_units (lkb_units st) (lkb_units st') (lkb_reg st q)
                                           (lkb_qstart qt) (lkb_qend qt))) /\
  lkb_units st' = lkb_units_of (lk_insert_at pos (lkb_mkb a len del false) (lkb_blocks st)) /\
  lkb_inv st' = true /\ lkb_wf_blocks (lkb_blocks st') = true /\ lkb_quotes st' = lkb_quotes st.
Proof.
  intros st pos a len del q qt Hwf Hinv Hok Hq st'.
  destruct (lkb_integrate_inv st pos a len del Hwf Hinv Hok) as [R3 [R4 R5]].
  assert (Hpos : pos <= length (lkb_blocks st)).
  { cbn [lkb_op_ok] in Hok. apply andb_true_iff in Hok. destruct Hok as [Hok _].
    apply andb_true_iff in Hok. destruct Hok as [Hok _]. apply Nat.leb_le. exact Hok. }
  destruct (lkb_i_split _ pos (lkb_blocks st) Hpos) as [pre [post [E Hl]]]. subst pos.
  pose proof (lkb_i_ctx_of st pre post a len del Hwf Hinv Hok E) as C.
  assert (U : lkb_units st' = lkb_units_of (pre ++ lkb_mkb a len del false :: post)).
  { unfold st'. rewrite (lkb_i_integrate_eq st pre post a len del E). apply lkb_i_units_pp. }
  split; [|split; [|split; [exact R3|split; [exact R4|exact R5]]]].
  - intros x. rewrite U. unfold st'. rewrite (lkb_i_integrate_eq st pre post a len del E).
    unfold lkb_units, lkb_reg at 2. rewrite E.
    apply (lkb_i_refines_pp pre post (lkb_linked_by st) (lkb_quotes st) a len del q qt C Hq).
  - rewrite U, E, lkb_i_insert_at_app. reflexivity.
Qed.

Print Assumptions lkb_integrate_inv.
Print Assumptions lkb_integrate_refines.

(* ########## part D: reachable states, oracle forms ########## *)
Open Scope N_scope.
Open Scope N_scope.

(* ====================================================================== *)
(* T6b. the invariant in every reachable state                             *)
(* ====================================================================== *)
Lemma lkb_apply_inv : forall st o,
  lkb_wf_blocks (lkb_blocks st) = true -> lkb_inv st = true -> lkb_op_ok st o = true ->
  lkb_inv (lkb_apply st o) = true /\ lkb_wf_blocks (lkb_blocks (lkb_apply st o)) = true.
Proof.
  intros st o W I OK. destruct o as [qt|a off|pos a len del|a|q|c pos]; cbn [lkb_apply].
  - cbn [lkb_op_ok] in OK. apply andb_true_iff in OK. destruct OK as [OK WF]. apply andb_true_iff in OK. destruct OK as [FR _].
    destruct (lkb_materialize_refines st qt W I WF FR) as [st' [E [_ [_ [_ [_ [I' [W' _]]]]]]]]. rewrite E. auto.
  - destruct (lkb_split st a off) as [st'|] eqn:E; [|auto].
    destruct (lkb_split_preserves _ _ _ _ W I E) as [_ [_ [_ [I' [W' _]]]]]. auto.
  - destruct (lkb_integrate_inv st pos a len del W I OK) as [I' [W' _]]. auto.
  - destruct (lkb_delete st a) as [st' ntf] eqn:E.
    destruct (lkb_delete_refines st a st' ntf 0 None None W I E) as [_ [_ [_ [_ [I' [W' _]]]]]]. auto.
  - destruct (lkb_unlink_all st q) as [st'|] eqn:E; [|auto].
    destruct (lkb_unlink_inv _ _ _ W I E) as [I' [W' _]]. auto.
  - destruct (lkb_squash_preserves st c pos W I) as [_ [_ [_ [I' [W' _]]]]]. auto.
Qed.

(* In every state reached by quotations, splits, integrations, deletions, unlinks and squashes:
   every entry of linked_by is not empty and belongs to a block that carries the `linked` flag (lkb_inv).
   The converse (a flagged block has an entry) does not hold: lkb_flag_entry_iff_refuted.
   That squash never merges registered blocks is the last conjunct of lkb_squash_preserves. *)
Theorem lkb_flag_entry_invariant : forall ops st,
  lkb_wf_blocks (lkb_blocks st) = true -> lkb_inv st = true -> lkb_run_ok st ops = true ->
  lkb_inv (lkb_run st ops) = true /\ lkb_wf_blocks (lkb_blocks (lkb_run st ops)) = true.
Proof.
  induction ops as [|o r IH]; intros st W I OK; cbn [lkb_run]; [auto|].
  cbn [lkb_run_ok] in OK. apply andb_true_iff in OK. destruct OK as [O1 O2].
  destruct (lkb_apply_inv st o W I O1) as [I' W']. apply IH; assumption.
Qed.

(* from a store without quotations *)
Corollary lkb_flag_entry_invariant_initial : forall l ops,
  lkb_wf_blocks l = true -> lkb_run_ok (lkb_mks l [] []) ops = true ->
  lkb_inv (lkb_run (lkb_mks l [] []) ops) = true.
Proof. intros l ops W OK. apply lkb_flag_entry_invariant; auto. Qed.

(* ====================================================================== *)
(* the same statements against the oracle functions of Crdt/Links.v that the harness runs on dumped values
   (ids as pairs: lk_initial_registered, lk_next_registered, lk_should_notify)                               *)
(* ====================================================================== *)
Lemma lkb_oracle_next : forall before after reg s e,
  map lk_of_pair (lk_next_registered (lk_enc_units before) (map lk_to_pair reg) (lk_enc_units after)
                                     (lk_enc_bound s) (lk_enc_bound e))
  = lk_next_reg_units before after reg s e.
Proof.
  intros. unfold lk_next_registered. rewrite !lk_of_enc_units, !lk_of_enc_bound, !lk_of_enc_ids. reflexivity.
Qed.

Lemma lkb_oracle_notify : forall before after reg s e,
  lk_should_notify (lk_enc_units before) (map lk_to_pair reg) (lk_enc_units after) (lk_enc_bound s) (lk_enc_bound e)
  = lk_notify_units before after reg s e.
Proof.
  intros. unfold lk_should_notify. rewrite !lk_of_enc_units, !lk_of_enc_bound, !lk_of_enc_ids. reflexivity.
Qed.

Corollary lkb_materialize_refines_oracle : forall st qt st',
  lkb_wf_blocks (lkb_blocks st) = true -> lkb_inv st = true ->
  lk_wf (lk_mk (lkb_units st) (lkb_qstart qt) (lkb_qend qt) []) = true ->
  lkb_fresh_quote st (lkb_qid qt) = true ->
  lkb_link_materialize st qt = lkb_ok st' ->
  map lk_to_pair (lkb_reg st' (lkb_qid qt))
  = lk_initial_registered (lk_enc_units (lkb_units st)) (lk_enc_bound (lkb_qstart qt)) (lk_enc_bound (lkb_qend qt)).
Proof.
  intros st qt st' W I WF FR E. destruct (lkb_materialize_refines st qt W I WF FR) as [st2 [E2 [_ [R _]]]].
  rewrite E in E2. inversion E2. subst st2. rewrite R.
  symmetry. exact (lk_initial_registered_spec (lk_mk (lkb_units st) (lkb_qstart qt) (lkb_qend qt) [])).
Qed.

Corollary lkb_integrate_refines_oracle : forall st pos a len del q qt,
  lkb_wf_blocks (lkb_blocks st) = true -> lkb_inv st = true ->
  lkb_op_ok st (lkb_op_integrate pos a len del) = true ->
  lkb_find_quote q (lkb_quotes st) = Some qt ->
  let st' := lkb_integrate st pos a len del in
  forall x, lk_mem x (lkb_reg st' q)
    = lk_mem x (map lk_of_pair (lk_next_registered (lk_enc_units (lkb_units st)) (map lk_to_pair (lkb_reg st q))
                  (lk_enc_units (lkb_units st')) (lk_enc_bound (lkb_qstart qt)) (lk_enc_bound (lkb_qend qt)))).
Proof.
  intros st pos a len del q qt W I OK FQ st' x. rewrite lkb_oracle_next.
  destruct (lkb_integrate_refines st pos a len del q qt W I OK FQ) as [H _]. apply H.
Qed.

Corollary lkb_delete_refines_oracle : forall st a st' ntf q s e,
  lkb_wf_blocks (lkb_blocks st) = true -> lkb_inv st = true ->
  lkb_delete st a = (st', ntf) ->
  (forall x, lk_mem x (lkb_reg st' q)
     = lk_mem x (map lk_of_pair (lk_next_registered (lk_enc_units (lkb_units st)) (map lk_to_pair (lkb_reg st q))
                   (lk_enc_units (lkb_units st')) (lk_enc_bound s) (lk_enc_bound e)))) /\
  lkb_nmem q ntf = lk_should_notify (lk_enc_units (lkb_units st)) (map lk_to_pair (lkb_reg st q))
                     (lk_enc_units (lkb_units st')) (lk_enc_bound s) (lk_enc_bound e).
Proof.
  intros st a st' ntf q s e W I E. rewrite lkb_oracle_notify.
  destruct (lkb_delete_refines st a st' ntf q s e W I E) as [H1 [H2 _]]. split; [|exact H2].
  intros x. rewrite lkb_oracle_next. apply H1.
Qed.

Print Assumptions lkb_materialize_refines_oracle.
Print Assumptions lkb_integrate_refines_oracle.
Print Assumptions lkb_delete_refines_oracle.
Print Assumptions lkb_flag_entry_invariant.
Print Assumptions lkb_materialize_refines.
Print Assumptions lkb_split_preserves.
Print Assumptions lkb_split_preserves_old_refuted.
Print Assumptions lkb_integrate_refines.
Print Assumptions lkb_delete_refines.
Print Assumptions lkb_unlink_exact.
Print Assumptions lkb_unlink_inv.
Print Assumptions lkb_squash_preserves.
Print Assumptions lkb_flag_entry_iff_refuted.
Print Assumptions lkb_flag_entry_invariant_initial.
