(* Proofs about the block-level garbage collector (GcBlocks.v). *)
From Coq Require Import List NArith Bool Lia PeanoNat Arith.
From YV Require Import Codec.UpdateV1 Ids.Ranges Crdt.Doc Crdt.Blocks Crdt.BlocksProofs Crdt.Merge Crdt.ApplyDelete
  Crdt.ApplyDeleteProofs Crdt.WriteBlocks.
From YV.Crdt Require Import GcBlocks.
Import ListNotations.
Open Scope N_scope.

(* ================================================================================================ *)
(* 0. cells                                                                                         *)
(* ================================================================================================ *)
Lemma gcb_content_len_deleted : forall n, content_len (BDeleted n) = n.
Proof. reflexivity. Qed.

Lemma gcb_wipe_wipe : forall c, gcb_wipe (gcb_wipe c) = gcb_wipe c.
Proof. intros [b d k n]. destruct b; reflexivity. Qed.
Lemma gcb_to_gc_wipe : forall c, gcb_to_gc (gcb_wipe c) = gcb_to_gc c.
Proof. intros [b d k n]. destruct b; reflexivity. Qed.
Lemma gcb_wipe_item : forall c, gcb_is_item (gcb_wipe c) = gcb_is_item c.
Proof. intros [b d k n]. destruct b; reflexivity. Qed.
Lemma gcb_wipe_del : forall c, gcb_del (gcb_wipe c) = gcb_del c.
Proof. intros [b d k n]. destruct b; reflexivity. Qed.
Lemma gcb_wipe_keep : forall c, gcb_keep (gcb_wipe c) = gcb_keep c.
Proof. intros [b d k n]. destruct b; reflexivity. Qed.
Lemma gcb_wipe_not_type : forall c, gcb_is_type (gcb_wipe c) = false.
Proof. intros [b d k n]. destruct b as [i o ro p ps ct| |]; try reflexivity. Qed.
Lemma gcb_to_gc_not_item : forall c, gcb_is_item c = true -> gcb_is_item (gcb_to_gc c) = false.
Proof. intros [b d k n]. destruct b; cbn; congruence. Qed.
Lemma gcb_type_item : forall c, gcb_is_type c = true -> gcb_is_item c = true.
Proof. intros [b d k n]. destruct b as [i o ro p ps ct| |]; cbn; try congruence. Qed.

(* the signature of a cell: what ids, state vectors, delete sets and find_index look at *)
Definition gcb_sig (c : gcb_cell) : id * N * bool * bool :=
  (block_id (gcb_blk c), block_len (gcb_blk c), mrg_is_skip (gcb_blk c), gcb_is_deleted c).

Lemma gcb_wipe_sig : forall c, gcb_sig (gcb_wipe c) = gcb_sig c.
Proof. intros [b d k n]. destruct b; reflexivity. Qed.
Lemma gcb_to_gc_sig : forall c, gcb_is_item c = true -> gcb_del c = true -> gcb_sig (gcb_to_gc c) = gcb_sig c.
Proof.
  intros [b d k n]. destruct b; cbn; try congruence. intros _ ->. reflexivity.
Qed.

Lemma gcb_wrel_crel : forall c c', gcb_wrel c c' -> gcb_crel c c'.
Proof. intros c c' [H|(H1 & H2 & H3 & H4)]; [left; exact H|right; auto]. Qed.
Lemma gcb_crel_sig : forall c c', gcb_crel c c' -> gcb_sig c' = gcb_sig c.
Proof.
  intros c c' [->|(H1 & H2 & [[_ ->]| ->])]; [reflexivity|apply gcb_wipe_sig|apply gcb_to_gc_sig; assumption].
Qed.
Lemma gcb_wrel_refl : forall c, gcb_wrel c c.
Proof. left. reflexivity. Qed.
Lemma gcb_crel_refl : forall c, gcb_crel c c.
Proof. left. reflexivity. Qed.
Lemma gcb_wrel_trans : forall a b c, gcb_wrel a b -> gcb_wrel b c -> gcb_wrel a c.
Proof.
  intros a b c [->|(H1 & H2 & H3 & ->)] H; [exact H|].
  destruct H as [->|(_ & _ & _ & ->)]; right; repeat split; auto. apply gcb_wipe_wipe.
Qed.
Lemma gcb_crel_trans : forall a b c, gcb_crel a b -> gcb_crel b c -> gcb_crel a c.
Proof.
  intros a b c [->|(H1 & H2 & H)] H'; [exact H'|].
  destruct H as [[Hk ->]| ->].
  - destruct H' as [->|(_ & _ & [[_ ->]| ->])]; right; repeat split; auto.
    + left. split; [exact Hk|apply gcb_wipe_wipe].
    + right. apply gcb_to_gc_wipe.
  - destruct H' as [->|(H3 & _)]; [right; auto|].
    rewrite (gcb_to_gc_not_item a H1) in H3. discriminate.
Qed.
Lemma gcb_crel_live : forall c c', gcb_crel c c' -> gcb_is_deleted c = false -> c' = c.
Proof.
  intros c c' [->|(H1 & H2 & _)] H; [reflexivity|].
  unfold gcb_is_deleted, wbf_is_deleted in H. cbn [fst snd] in H. unfold gcb_is_item in H1.
  destruct (gcb_blk c); congruence.
Qed.
Lemma gcb_crel_kept : forall c c', gcb_crel c c' -> gcb_keep c = true -> c' = c \/ c' = gcb_to_gc c.
Proof. intros c c' [->|(H1 & H2 & [[Hk _]| ->])] H; auto. congruence. Qed.

(* going backwards: a cell that is an item after the run was an item before, with the same id, flags, parent *)
Lemma gcb_crel_back_item : forall c c', gcb_crel c c' -> gcb_is_item c' = true ->
  gcb_is_item c = true /\ gcb_del c = gcb_del c' /\ gcb_keep c = gcb_keep c' /\ (c' = c \/ c' = gcb_wipe c).
Proof.
  intros c c' [->|(H1 & H2 & [[Hk ->]| ->])] H; auto.
  - rewrite gcb_wipe_del, gcb_wipe_keep. auto.
  - rewrite (gcb_to_gc_not_item c H1) in H. discriminate.
Qed.
Lemma gcb_crel_back_type : forall c c', gcb_crel c c' -> gcb_is_type c' = true -> c' = c.
Proof.
  intros c c' H Ht. destruct (gcb_crel_back_item c c' H (gcb_type_item _ Ht)) as (_ & _ & _ & [E|E]); [exact E|].
  rewrite E, gcb_wipe_not_type in Ht. discriminate.
Qed.

(* ================================================================================================ *)
(* 1. lists of cells, client maps                                                                   *)
(* ================================================================================================ *)
Lemma gcb_F2_refl : forall (A : Type) (R : A -> A -> Prop), (forall x, R x x) -> forall l, Forall2 R l l.
Proof. intros A R H l. induction l; constructor; auto. Qed.
Lemma gcb_F2_trans : forall (A : Type) (R : A -> A -> Prop), (forall x y z, R x y -> R y z -> R x z) ->
  forall l1 l2 l3, Forall2 R l1 l2 -> Forall2 R l2 l3 -> Forall2 R l1 l3.
Proof.
  intros A R H l1 l2 l3 H1. revert l3. induction H1; intros l3 H2; inversion H2; subst; constructor; eauto.
Qed.
Lemma gcb_F2_impl : forall (A B : Type) (R S : A -> B -> Prop), (forall x y, R x y -> S x y) ->
  forall l l', Forall2 R l l' -> Forall2 S l l'.
Proof. intros A B R S H l l' H1. induction H1; constructor; auto. Qed.
Lemma gcb_F2_nth : forall (A B : Type) (R : A -> B -> Prop) l l' n x, Forall2 R l l' -> nth_error l n = Some x ->
  exists y, nth_error l' n = Some y /\ R x y.
Proof.
  intros A B R l l' n x H. revert n. induction H; intros [|n] Hn; cbn in *; try discriminate.
  - inversion Hn; subst. eauto.
  - eauto.
Qed.
Lemma gcb_F2_nth_back : forall (A B : Type) (R : A -> B -> Prop) l l' n y, Forall2 R l l' -> nth_error l' n = Some y ->
  exists x, nth_error l n = Some x /\ R x y.
Proof.
  intros A B R l l' n y H. revert n. induction H; intros [|n] Hn; cbn in *; try discriminate.
  - inversion Hn; subst. eauto.
  - eauto.
Qed.
Lemma gcb_F2_length : forall (A B : Type) (R : A -> B -> Prop) l l', Forall2 R l l' -> length l = length l'.
Proof. intros A B R l l' H. induction H; cbn; congruence. Qed.
Lemma gcb_F2_map : forall (A B C : Type) (R : A -> B -> Prop) (f : A -> C) (g : B -> C),
  (forall x y, R x y -> g y = f x) -> forall l l', Forall2 R l l' -> map g l' = map f l.
Proof. intros A B C R f g H l l' H1. induction H1; cbn; [reflexivity|]. rewrite IHForall2, (H _ _ H0). reflexivity. Qed.

Lemma gcb_set_nth_F2 : forall (R : gcb_cell -> gcb_cell -> Prop), (forall x, R x x) ->
  forall l pos x y, nth_error l pos = Some x -> R x y -> Forall2 R l (adl_set_nth l pos y).
Proof.
  intros R Hr l. induction l as [|a r IH]; intros [|pos] x y Hn Hxy; cbn in *; try discriminate.
  - inversion Hn; subst. constructor; [exact Hxy|apply gcb_F2_refl; exact Hr].
  - constructor; [apply Hr|]. exact (IH pos x y Hn Hxy).
Qed.

Definition gcb_crelL (R : gcb_cell -> gcb_cell -> Prop) (cs cs' : list (N * list gcb_cell)) : Prop :=
  Forall2 (fun cb cb' => fst cb' = fst cb /\ Forall2 R (snd cb) (snd cb')) cs cs'.

Lemma gcb_set_client_rel : forall (R : gcb_cell -> gcb_cell -> Prop), (forall x, R x x) ->
  forall cs c bl bl', gcb_get_client cs c = Some bl -> Forall2 R bl bl' -> gcb_crelL R cs (gcb_set_client cs c bl').
Proof.
  intros R Hr cs c. induction cs as [|[c' b'] r IH]; intros bl bl' Hg HF; cbn in *; [discriminate|].
  destruct (c' =? c).
  - inversion Hg; subst. constructor; [split; [reflexivity|exact HF]|].
    apply gcb_F2_refl. intros x. split; [reflexivity|apply gcb_F2_refl; exact Hr].
  - constructor; [split; [reflexivity|apply gcb_F2_refl; exact Hr]|]. exact (IH bl bl' Hg HF).
Qed.

Lemma gcb_get_client_rel : forall R cs cs' c bl, gcb_crelL R cs cs' -> gcb_get_client cs c = Some bl ->
  exists bl', gcb_get_client cs' c = Some bl' /\ Forall2 R bl bl'.
Proof.
  intros R cs cs' c bl H. induction H as [|[c1 b1] [c2 b2] r r' [E HF] H IH]; intros Hg; cbn in *; [discriminate|].
  subst c2. destruct (c1 =? c); [inversion Hg; subst; eauto|auto].
Qed.
Lemma gcb_get_client_rel_none : forall R cs cs' c, gcb_crelL R cs cs' -> gcb_get_client cs c = None ->
  gcb_get_client cs' c = None.
Proof.
  intros R cs cs' c H. induction H as [|[c1 b1] [c2 b2] r r' [E HF] H IH]; intros Hg; cbn in *; [reflexivity|].
  subst c2. destruct (c1 =? c); [discriminate|auto].
Qed.
Lemma gcb_get_client_rel_back : forall R cs cs' c bl', gcb_crelL R cs cs' -> gcb_get_client cs' c = Some bl' ->
  exists bl, gcb_get_client cs c = Some bl /\ Forall2 R bl bl'.
Proof.
  intros R cs cs' c bl' H. induction H as [|[c1 b1] [c2 b2] r r' [E HF] H IH]; intros Hg; cbn in *; [discriminate|].
  subst c2. destruct (c1 =? c); [inversion Hg; subst; eauto|auto].
Qed.

Lemma gcb_find_pos_sig : forall l l' k, map gcb_sig l' = map gcb_sig l -> gcb_find_pos l' k = gcb_find_pos l k.
Proof.
  induction l as [|a r IH]; intros [|a' r'] k H; cbn [map gcb_find_pos] in *; try discriminate; [reflexivity|].
  pose proof (f_equal (fun l => match l with x :: _ => fst (fst (fst x)) | [] => block_id (gcb_blk a) end) H) as H1.
  pose proof (f_equal (@tl _) H) as H2. cbn in H1, H2. unfold mrg_clock. rewrite H1.
  destruct (ck (block_id (gcb_blk a)) =? k); [reflexivity|]. rewrite (IH r' k H2). reflexivity.
Qed.
Lemma gcb_crel_map_sig : forall l l', Forall2 gcb_crel l l' -> map gcb_sig l' = map gcb_sig l.
Proof. apply gcb_F2_map. apply gcb_crel_sig. Qed.

(* ================================================================================================ *)
(* 2. the store relation                                                                            *)
(* ================================================================================================ *)
Lemma gcb_get_item_inv : forall st i pos c, gcb_get_item st i = Some (pos, c) ->
  exists bl, gcb_get_client (gcb_clients st) (cl i) = Some bl /\ gcb_find_pos bl (ck i) = Some pos
             /\ nth_error bl pos = Some c /\ gcb_is_item c = true.
Proof.
  intros st i pos c H. unfold gcb_get_item in H.
  destruct (gcb_get_client (gcb_clients st) (cl i)) as [bl|]; [|discriminate].
  destruct (gcb_find_pos bl (ck i)) as [p|] eqn:Ef; [|discriminate].
  destruct (nth_error bl p) as [x|] eqn:En; [|discriminate].
  destruct (gcb_is_item x) eqn:Ei; [|discriminate]. inversion H; subst. eauto.
Qed.

Lemma gcb_get_item_back : forall st st' i pos c', gcb_crelL gcb_crel (gcb_clients st) (gcb_clients st') ->
  gcb_get_item st' i = Some (pos, c') ->
  exists c, gcb_get_item st i = Some (pos, c) /\ gcb_crel c c'.
Proof.
  intros st st' i pos c' HR H. destruct (gcb_get_item_inv _ _ _ _ H) as (bl' & Hg & Hf & Hn & Hi).
  destruct (gcb_get_client_rel_back _ _ _ _ _ HR Hg) as (bl & Hg0 & HF).
  destruct (gcb_F2_nth_back _ _ _ _ _ _ _ HF Hn) as (c & Hn0 & Hc).
  exists c. split; [|exact Hc]. unfold gcb_get_item. rewrite Hg0.
  rewrite <- (gcb_find_pos_sig bl bl' (ck i) (gcb_crel_map_sig _ _ HF)), Hf, Hn0.
  destruct (gcb_crel_back_item _ _ Hc Hi) as (-> & _). reflexivity.
Qed.

Lemma gcb_dead_type_back : forall st st' i, gcb_crelL gcb_crel (gcb_clients st) (gcb_clients st') ->
  gcb_dead_type st' i = true -> gcb_dead_type st i = true.
Proof.
  intros st st' i HR H. unfold gcb_dead_type in *. destruct (gcb_get_item st' i) as [[pos c']|] eqn:E; [|discriminate].
  destruct (gcb_get_item_back _ _ _ _ _ HR E) as (c & -> & Hc). apply andb_true_iff in H. destruct H as [H1 H2].
  pose proof (gcb_crel_back_type _ _ Hc H2) as E'. subst c'. cbn. rewrite H1, H2. reflexivity.
Qed.

Lemma gcb_brel_refl : forall st e, gcb_brel st e e.
Proof. intros st e. split; [reflexivity|left; reflexivity]. Qed.

Lemma gcb_srelR_refl : forall R : gcb_cell -> gcb_cell -> Prop, (forall x, R x x) -> forall st, gcb_srelR R st st.
Proof.
  intros R Hr st. split.
  - apply gcb_F2_refl. intros x. split; [reflexivity|apply gcb_F2_refl; exact Hr].
  - apply gcb_F2_refl. apply gcb_brel_refl.
Qed.

Lemma gcb_crelL_trans : forall R1 R2 R3 : gcb_cell -> gcb_cell -> Prop, (forall a b c, R1 a b -> R2 b c -> R3 a c) ->
  forall x y z, gcb_crelL R1 x y -> gcb_crelL R2 y z -> gcb_crelL R3 x z.
Proof.
  intros R1 R2 R3 H x y z H1. revert z. induction H1 as [|a b r r' [E HF] H1 IH]; intros z H2; inversion H2 as [|b' c r2 r3 [E' HF'] H3]; subst.
  - constructor.
  - constructor; [|apply IH; exact H3]. split; [congruence|].
    clear - H HF HF'. revert HF'. generalize (snd c). induction HF; intros l3 H2; inversion H2; subst; constructor; eauto.
Qed.

Lemma gcb_srelR_trans : forall R1 R2 R3 : gcb_cell -> gcb_cell -> Prop,
  (forall a b, R1 a b -> gcb_crel a b) -> (forall a b c, R1 a b -> R2 b c -> R3 a c) ->
  forall x y z, gcb_srelR R1 x y -> gcb_srelR R2 y z -> gcb_srelR R3 x z.
Proof.
  intros R1 R2 R3 Hsub H x y z [H1 B1] [H2 B2]. split; [exact (gcb_crelL_trans R1 R2 R3 H _ _ _ H1 H2)|].
  assert (HC : gcb_crelL gcb_crel (gcb_clients x) (gcb_clients y)).
  { revert H1. apply gcb_F2_impl. intros a b [E HF]. split; [exact E|]. revert HF. apply gcb_F2_impl. exact Hsub. }
  clear H1 H2. revert B2. generalize (gcb_branches z). induction B1 as [|e e' r r' He B1 IH]; intros l3 B2; inversion B2 as [|e2 e'' r2 r3 He' B3]; subst.
  - constructor.
  - constructor; [|apply IH; exact B3]. destruct He as [K1 D1]. destruct He' as [K2 D2]. split; [congruence|].
    destruct D2 as [D2|(D2 & i & Ki & Di)].
    + rewrite D2. exact D1.
    + right. split; [exact D2|]. exists i. split; [congruence|]. exact (gcb_dead_type_back _ _ _ HC Di).
Qed.

Lemma gcb_wrel_srel_trans : forall x y z, gcb_srelR gcb_wrel x y -> gcb_srelR gcb_wrel y z -> gcb_srelR gcb_wrel x z.
Proof. apply gcb_srelR_trans; [exact gcb_wrel_crel|exact gcb_wrel_trans]. Qed.
Lemma gcb_srel_trans : forall x y z, gcb_srel x y -> gcb_srel y z -> gcb_srel x z.
Proof. apply gcb_srelR_trans; [auto|exact gcb_crel_trans]. Qed.
Lemma gcb_wrel_srel : forall x y, gcb_srelR gcb_wrel x y -> gcb_srel x y.
Proof.
  intros x y [H B]. split; [|exact B]. revert H. apply gcb_F2_impl. intros a b [E HF]. split; [exact E|].
  revert HF. apply gcb_F2_impl. exact gcb_wrel_crel.
Qed.

Lemma gcb_map_at_rel : forall (R : gcb_cell -> gcb_cell -> Prop) st c pos f, (forall x, R x x) ->
  (forall bl x, gcb_get_client (gcb_clients st) c = Some bl -> nth_error bl pos = Some x -> R x (f x)) ->
  gcb_srelR R st (gcb_map_at st c pos f).
Proof.
  intros R st c pos f Hr H. unfold gcb_map_at.
  destruct (gcb_get_client (gcb_clients st) c) as [bl|] eqn:Eg; [|apply gcb_srelR_refl; exact Hr].
  destruct (nth_error bl pos) as [x|] eqn:En; [|apply gcb_srelR_refl; exact Hr].
  split; cbn [gcb_clients gcb_branches].
  - apply (gcb_set_client_rel R Hr _ _ bl _ Eg). apply (gcb_set_nth_F2 R Hr bl pos x (f x) En). exact (H bl x eq_refl En).
  - apply gcb_F2_refl. apply gcb_brel_refl.
Qed.

Lemma gcb_key_is_eq : forall i p, gcb_key_is i p = true -> p = PId i.
Proof. intros i [n|j|] H; cbn in H; try discriminate. apply blk_id_eqb_eq in H. subst. reflexivity. Qed.

Lemma gcb_clear_branch_F2 : forall st i brs brs', Forall2 (gcb_brel st) brs brs' -> gcb_dead_type st i = true ->
  Forall2 (gcb_brel st) brs (gcb_clear_branch brs' i).
Proof.
  intros st i brs brs' H Hd. induction H as [|e [p' b'] r r' [K D] H IH]; cbn [gcb_clear_branch]; [constructor|].
  cbn [fst snd] in *. destruct (gcb_key_is i p') eqn:Ek.
  - constructor; [|exact H]. split; [exact K|]. right. split; [reflexivity|]. exists i. split; [|exact Hd].
    rewrite <- K. apply gcb_key_is_eq. exact Ek.
  - constructor; [split; [exact K|exact D]|exact IH].
Qed.

(* a generic invariant of adl_fold *)
Lemma gcb_fold_inv : forall (A B : Type) (Rel : A -> A -> Prop) (f : A -> B -> adl_res A) (l : list B),
  (forall a, Rel a a) -> (forall a b c, Rel a b -> Rel b c -> Rel a c) ->
  (forall a x a', In x l -> f a x = adl_ok a' -> Rel a a') ->
  forall a a', adl_fold f l a = adl_ok a' -> Rel a a'.
Proof.
  intros A B Rel f l Hr Ht. induction l as [|x r IH]; intros Hs a a' H; cbn in H.
  - inversion H; subst. apply Hr.
  - destruct (f a x) as [a1|] eqn:E; [|discriminate]. cbn in H.
    apply (Ht _ a1); [apply (Hs a x a1 (or_introl eq_refl) E)|].
    apply IH; [|exact H]. intros a0 x0 a0' Hin. apply Hs. right. exact Hin.
Qed.

(* ================================================================================================ *)
(* 3. the mark phase only wipes deleted, not kept items and empties the branches of deleted types    *)
(* ================================================================================================ *)
Definition gcb_wpair (a a' : gcb_store * gcb_marked) : Prop := gcb_srelR gcb_wrel (fst a) (fst a').

Lemma gcb_item_gc_rel : forall fuel st mk i pgc st' mk',
  gcb_item_gc fuel st mk i pgc = adl_ok (st', mk') -> gcb_srelR gcb_wrel st st'.
Proof.
  induction fuel as [|f IH]; intros st mk i pgc st' mk' H; cbn [gcb_item_gc] in H; [discriminate|].
  destruct (gcb_get_item st i) as [[pos c]|] eqn:Eg; [|discriminate].
  destruct (gcb_del c && (pgc || negb (gcb_keep c))) eqn:Ec;
    [|inversion H; subst; apply gcb_srelR_refl; exact gcb_wrel_refl].
  apply andb_true_iff in Ec. destruct Ec as [Hdel Hk].
  destruct (gcb_get_item_inv _ _ _ _ Eg) as (bl & Hgc & Hfp & Hn & Hit).
  (* the children *)
  match type of H with adl_bind ?X _ = _ => destruct X as [acc|] eqn:EX; [|discriminate] end.
  cbn [adl_bind] in H.
  assert (HA : gcb_srelR gcb_wrel st (fst acc)).
  { destruct (gcb_is_type c) eqn:Et; [|inversion EX; subst; apply gcb_srelR_refl; exact gcb_wrel_refl].
    destruct (gcb_branch_of (gcb_branches st) i) as [br|]; [|inversion EX; subst; apply gcb_srelR_refl; exact gcb_wrel_refl].
    match type of EX with adl_bind ?X _ = _ => destruct X as [acc1|] eqn:E1; [|discriminate] end. cbn [adl_bind] in EX.
    match type of EX with adl_bind ?X _ = _ => destruct X as [acc2|] eqn:E2; [|discriminate] end. cbn [adl_bind] in EX.
    inversion EX; subst acc. cbn [fst].
    assert (Hchild : forall a x a', gcb_item_gc f (fst a) (snd a) x true = adl_ok a' -> gcb_wpair a a').
    { intros a x [s' m'] Hx. exact (IH _ _ _ _ _ _ Hx). }
    assert (Hr : forall a, gcb_wpair a a) by (intros a; apply gcb_srelR_refl; exact gcb_wrel_refl).
    assert (Ht : forall a b c, gcb_wpair a b -> gcb_wpair b c -> gcb_wpair a c)
      by (intros a b c0; apply gcb_wrel_srel_trans).
    assert (H1 : gcb_wpair (st, mk) acc1).
    { refine (gcb_fold_inv _ _ gcb_wpair _ _ Hr Ht _ _ _ E1). intros a x a' _. apply Hchild. }
    assert (H2 : gcb_wpair acc1 acc2).
    { refine (gcb_fold_inv _ _ gcb_wpair _ _ Hr Ht _ _ _ E2). intros a kv a' _ Hkv.
      refine (gcb_fold_inv _ _ gcb_wpair _ _ Hr Ht _ _ _ Hkv). intros a0 x a0' _. apply Hchild. }
    pose proof (Ht _ _ _ H1 H2) as H12. unfold gcb_wpair in H12. cbn [fst] in H12. destruct H12 as [HC HB].
    split; cbn [gcb_clients gcb_branches]; [exact HC|].
    apply gcb_clear_branch_F2; [exact HB|]. unfold gcb_dead_type. rewrite Eg, Hdel, Et. reflexivity. }
  destruct pgc.
  - inversion H; subst. exact HA.
  - inversion H; subst. apply (gcb_wrel_srel_trans _ _ _ HA). apply gcb_map_at_rel; [exact gcb_wrel_refl|].
    intros bl' x Hg' Hn'. destruct HA as [HC _].
    destruct (gcb_get_client_rel _ _ _ _ _ HC Hgc) as (bl2 & Hg2 & HF). rewrite Hg' in Hg2. inversion Hg2; subst bl2.
    destruct (gcb_F2_nth _ _ _ _ _ _ _ HF Hn) as (y & Hy & Hcy). rewrite Hn' in Hy. inversion Hy; subst y.
    cbn [orb] in Hk. apply negb_true_iff in Hk.
    right. destruct Hcy as [->|(_ & _ & _ & ->)].
    + repeat split; assumption.
    + rewrite gcb_wipe_item, gcb_wipe_del, gcb_wipe_keep. repeat split; assumption.
Qed.

Definition gcb_wstate (s s' : gcb_mstate) : Prop := gcb_srelR gcb_wrel (fst (fst s)) (fst (fst s')).
Lemma gcb_wstate_refl : forall s, gcb_wstate s s.
Proof. intros s. apply gcb_srelR_refl. exact gcb_wrel_refl. Qed.
Lemma gcb_wstate_trans : forall a b c, gcb_wstate a b -> gcb_wstate b c -> gcb_wstate a c.
Proof. intros a b c. apply gcb_wrel_srel_trans. Qed.

Lemma gcb_walk_rel : forall fuel g client push s start e i s',
  gcb_walk fuel g client push s start e i = adl_ok s' -> gcb_wstate s s'.
Proof.
  induction fuel as [|f IH]; intros g client push [[st mk] mb] start e i s' H; cbn [gcb_walk] in H; [discriminate|].
  destruct (gcb_get_client (gcb_clients st) client) as [bl|]; [|discriminate].
  destruct (Nat.ltb i (length bl)); [|inversion H; subst; apply gcb_wstate_refl].
  destruct (nth_error bl i) as [c|]; [|discriminate].
  destruct (adl_add32 start (block_len (gcb_blk c))) as [start'|]; [|discriminate]. cbn [adl_bind] in H.
  destruct (e <? start'); [inversion H; subst; apply gcb_wstate_refl|].
  destruct (gcb_blk c) as [it o ro p ps ct| |]; try (exact (IH _ _ _ _ _ _ _ _ H)).
  destruct (gcb_item_gc g st mk it false) as [[st1 mk1]|] eqn:E; [|discriminate]. cbn [adl_bind fst snd] in H.
  apply (gcb_wstate_trans _ (st1, mk1, if push then mb ++ [it] else mb)); [|exact (IH _ _ _ _ _ _ _ _ H)].
  exact (gcb_item_gc_rel _ _ _ _ _ _ _ E).
Qed.

Lemma gcb_mark_range_rel : forall g client push s e s',
  gcb_mark_range g client push s e = adl_ok s' -> gcb_wstate s s'.
Proof.
  intros g client push s e s' H. unfold gcb_mark_range in H.
  destruct (gcb_get_client (gcb_clients (fst (fst s))) client) as [bl|]; [|inversion H; subst; apply gcb_wstate_refl].
  destruct (adl_list_clock (map gcb_abs bl)) as [clk|]; cbn [adl_bind] in H; [|discriminate].
  destruct (clk <=? e_start e); [inversion H; subst; apply gcb_wstate_refl|].
  destruct (gcb_find_index bl (e_start e)) as [[i|]|]; cbn [adl_bind] in H; try discriminate.
  - exact (gcb_walk_rel _ _ _ _ _ _ _ _ _ H).
  - inversion H; subst. apply gcb_wstate_refl.
Qed.

Lemma gcb_mark_client_rel : forall g push s cr s', gcb_mark_client g push s cr = adl_ok s' -> gcb_wstate s s'.
Proof.
  intros g push s cr s' H. unfold gcb_mark_client in H.
  destruct (gcb_get_client (gcb_clients (fst (fst s))) (fst cr)); [|inversion H; subst; apply gcb_wstate_refl].
  refine (gcb_fold_inv _ _ gcb_wstate _ _ gcb_wstate_refl gcb_wstate_trans _ _ _ H).
  intros a x a' _. apply gcb_mark_range_rel.
Qed.

Lemma gcb_mark_in_scope_rel : forall g push s ds s', gcb_mark_in_scope g push s ds = adl_ok s' -> gcb_wstate s s'.
Proof.
  intros g push s ds s' H. unfold gcb_mark_in_scope in H.
  refine (gcb_fold_inv _ _ gcb_wstate _ _ gcb_wstate_refl gcb_wstate_trans _ _ _ H).
  intros a x a' _. apply gcb_mark_client_rel.
Qed.

Lemma gcb_mark_all_list_rel : forall g client n s i s', gcb_mark_all_list g client s n i = adl_ok s' -> gcb_wstate s s'.
Proof.
  induction n as [|m IH]; intros [[st mk] mb] i s' H; cbn [gcb_mark_all_list] in H; [inversion H; subst; apply gcb_wstate_refl|].
  destruct (gcb_get_client (gcb_clients st) client) as [bl|]; [|discriminate].
  destruct (nth_error bl i) as [c|]; [|discriminate].
  destruct (gcb_blk c) as [it o ro p ps ct| |]; try (exact (IH _ _ _ H)).
  destruct (gcb_del c); [|exact (IH _ _ _ H)].
  destruct (gcb_item_gc g st mk it false) as [[st1 mk1]|] eqn:E; [|discriminate]. cbn [adl_bind fst snd] in H.
  apply (gcb_wstate_trans _ (st1, mk1, mb ++ [it])); [|exact (IH _ _ _ H)].
  exact (gcb_item_gc_rel _ _ _ _ _ _ _ E).
Qed.

Lemma gcb_mark_all_rel : forall g s s', gcb_mark_all g s = adl_ok s' -> gcb_wstate s s'.
Proof.
  intros g s s' H. unfold gcb_mark_all in H.
  refine (gcb_fold_inv _ _ gcb_wstate _ _ gcb_wstate_refl gcb_wstate_trans _ _ _ H).
  intros a x a' _. apply gcb_mark_all_list_rel.
Qed.

Lemma gcb_marks_of_rel : forall st ods s, gcb_marks_of st ods = adl_ok s -> gcb_srelR gcb_wrel st (fst (fst s)).
Proof.
  intros st [ds|] s H; cbn [gcb_marks_of] in H.
  - exact (gcb_mark_in_scope_rel _ _ _ _ _ H).
  - exact (gcb_mark_all_rel _ _ _ H).
Qed.

(* ================================================================================================ *)
(* 4. the collect phase turns deleted items into GC ranges                                          *)
(* ================================================================================================ *)
Definition gcb_cpair (a a' : gcb_store * bool) : Prop := gcb_srel (fst a) (fst a').

Lemma gcb_collect_clock_rel : forall client acc clock acc',
  gcb_collect_clock client acc clock = adl_ok acc' -> gcb_cpair acc acc'.
Proof.
  intros client [st fl] clock acc' H. unfold gcb_collect_clock in H. cbn [fst snd] in H.
  destruct (gcb_get_client (gcb_clients st) client) as [bl|] eqn:Eg; [|discriminate].
  destruct (gcb_find_index bl clock) as [[index|]|]; cbn [adl_bind] in H; try discriminate;
    [|inversion H; subst; apply gcb_srelR_refl; exact gcb_crel_refl].
  destruct (nth_error bl index) as [c|] eqn:En; [|discriminate].
  destruct (gcb_is_item c && gcb_del c) eqn:Ec; [|inversion H; subst; apply gcb_srelR_refl; exact gcb_crel_refl].
  inversion H; subst. unfold gcb_cpair. cbn [fst]. apply gcb_map_at_rel; [exact gcb_crel_refl|].
  intros bl' x Hg Hn. rewrite Eg in Hg. inversion Hg; subst bl'. rewrite En in Hn. inversion Hn; subst x.
  apply andb_true_iff in Ec. destruct Ec. right. auto.
Qed.

Lemma gcb_collect_marked_chk_rel : forall st mk r, gcb_collect_marked_chk st mk = adl_ok r -> gcb_srel st (fst r).
Proof.
  intros st mk r H. unfold gcb_collect_marked_chk in H.
  assert (Hr : forall a, gcb_cpair a a) by (intros a; apply gcb_srelR_refl; exact gcb_crel_refl).
  assert (Ht : forall a b c, gcb_cpair a b -> gcb_cpair b c -> gcb_cpair a c) by (intros a b c; apply gcb_srel_trans).
  refine (gcb_fold_inv _ _ gcb_cpair _ _ Hr Ht _ _ _ H). intros a ce a' _ Hce.
  refine (gcb_fold_inv _ _ gcb_cpair _ _ Hr Ht _ _ _ Hce). intros a0 k a0' _. apply gcb_collect_clock_rel.
Qed.

Lemma gcb_collect_marked_rel : forall st mk st', gcb_collect_marked st mk = adl_ok st' -> gcb_srel st st'.
Proof.
  intros st mk st' H. unfold gcb_collect_marked in H.
  destruct (gcb_collect_marked_chk st mk) as [r|] eqn:E; [|discriminate]. cbn in H. inversion H; subst.
  exact (gcb_collect_marked_chk_rel _ _ _ E).
Qed.

(* the central invariant: whatever the delete set, a run of the collector relates every cell to itself, to its
   wiped form (deleted, not kept) or to a GC range of the same ids (deleted), and every branch to itself or to the
   empty branch (branch of a deleted type item) *)
Theorem gcb_collect_all_srel : forall st ods st' mb, gcb_collect_all st ods = adl_ok (st', mb) -> gcb_srel st st'.
Proof.
  intros st ods st' mb H. unfold gcb_collect_all in H. fold (gcb_marks_of st ods) in H.
  destruct (gcb_marks_of st ods) as [s|] eqn:Em; [|discriminate]. cbn [adl_bind] in H.
  destruct (gcb_collect_marked (fst (fst s)) (snd (fst s))) as [st1|] eqn:Ec; [|discriminate]. cbn [adl_bind] in H.
  inversion H; subst. apply (gcb_srel_trans _ (fst (fst s))).
  - apply gcb_wrel_srel. exact (gcb_marks_of_rel _ _ _ Em).
  - exact (gcb_collect_marked_rel _ _ _ Ec).
Qed.
Print Assumptions gcb_collect_all_srel.

Theorem gcb_collect_srel : forall st ds st', gcb_collect st ds = adl_ok st' -> gcb_srel st st'.
Proof.
  intros st ds st' H. unfold gcb_collect in H.
  destruct (gcb_mark_in_scope (gcb_gc_fuel st) false (st, [], []) ds) as [s|] eqn:Em; [|discriminate]. cbn [adl_bind] in H.
  apply (gcb_srel_trans _ (fst (fst s))).
  - apply gcb_wrel_srel. exact (gcb_mark_in_scope_rel _ _ _ _ _ Em).
  - exact (gcb_collect_marked_rel _ _ _ H).
Qed.
Print Assumptions gcb_collect_srel.

(* ================================================================================================ *)
(* 5. what the relation preserves                                                                   *)
(* ================================================================================================ *)
Lemma gcb_sig_fields : forall c c', gcb_sig c' = gcb_sig c ->
  mrg_clock (gcb_blk c') = mrg_clock (gcb_blk c) /\ block_len (gcb_blk c') = block_len (gcb_blk c)
  /\ mrg_end (gcb_blk c') = mrg_end (gcb_blk c) /\ mrg_is_skip (gcb_blk c') = mrg_is_skip (gcb_blk c)
  /\ gcb_is_deleted c' = gcb_is_deleted c /\ mrg_client (gcb_blk c') = mrg_client (gcb_blk c).
Proof.
  intros c c' H. unfold gcb_sig in H.
  pose proof (f_equal (fun s => fst (fst (fst s))) H) as H1. pose proof (f_equal (fun s => snd (fst (fst s))) H) as H2.
  pose proof (f_equal (fun s => snd (fst s)) H) as H3. pose proof (f_equal snd H) as H4. cbn in H1, H2, H3, H4.
  unfold mrg_end, mrg_clock, mrg_client. rewrite H1, H2. repeat split; assumption.
Qed.

Definition gcb_sigrel (c c' : gcb_cell) : Prop := gcb_sig c' = gcb_sig c.
Lemma gcb_srel_sigrel : forall st st', gcb_srel st st' -> gcb_crelL gcb_sigrel (gcb_clients st) (gcb_clients st').
Proof.
  intros st st' [H _]. revert H. apply gcb_F2_impl. intros a b [E HF]. split; [exact E|].
  revert HF. apply gcb_F2_impl. exact gcb_crel_sig.
Qed.

Lemma gcb_cell_ids_sig : forall c c', gcb_sigrel c c' -> gcb_cell_ids c' = gcb_cell_ids c.
Proof.
  intros c c' H. destruct (gcb_sig_fields _ _ H) as (H1 & H2 & _ & _ & H5 & _). unfold gcb_cell_ids. rewrite H1, H2, H5. reflexivity.
Qed.

Lemma gcb_ids_sig : forall st st', gcb_crelL gcb_sigrel (gcb_clients st) (gcb_clients st') -> gcb_ids st' = gcb_ids st.
Proof.
  intros st st' H. unfold gcb_ids. induction H as [|a b r r' [E HF] H IH]; cbn [map]; [reflexivity|].
  rewrite IH, E. f_equal. f_equal. clear - HF. induction HF as [|c c' l l' Hc HF IH]; cbn [flat_map]; [reflexivity|].
  rewrite IH, (gcb_cell_ids_sig _ _ Hc). destruct (gcb_sig_fields _ _ Hc) as (_ & _ & _ & -> & _). reflexivity.
Qed.

Lemma gcb_bounds_sig : forall st st', gcb_crelL gcb_sigrel (gcb_clients st) (gcb_clients st') -> gcb_bounds st' = gcb_bounds st.
Proof.
  intros st st' H. unfold gcb_bounds. induction H as [|a b r r' [E HF] H IH]; cbn [map]; [reflexivity|].
  rewrite IH, E. f_equal. f_equal. clear - HF. induction HF as [|c c' l l' Hc HF IH]; cbn [map]; [reflexivity|].
  rewrite IH. destruct (gcb_sig_fields _ _ Hc) as (-> & -> & _). reflexivity.
Qed.

Definition gcb_wcells (l : list gcb_cell) : list (block * bool) := map (fun c => (gcb_blk c, gcb_del c)) l.

Lemma gcb_list_clock_sig : forall l l', Forall2 gcb_sigrel l l' ->
  wbf_list_clock (map fst (gcb_wcells l')) = wbf_list_clock (map fst (gcb_wcells l)).
Proof.
  intros l l' H. induction H as [|c c' r r' Hc H IH]; [reflexivity|]. unfold gcb_wcells in *. cbn [map fst wbf_list_clock] in *.
  destruct H as [|d d' r0 r0' Hd H]; cbn [map] in *.
  - destruct (gcb_sig_fields _ _ Hc) as (_ & _ & -> & _). reflexivity.
  - exact IH.
Qed.
Lemma gcb_first_skip_sig : forall l l', Forall2 gcb_sigrel l l' ->
  wbf_first_skip (map fst (gcb_wcells l')) = wbf_first_skip (map fst (gcb_wcells l)).
Proof.
  intros l l' H. induction H as [|c c' r r' Hc H IH]; [reflexivity|]. unfold gcb_wcells in *. cbn [map fst wbf_first_skip] in *.
  destruct (gcb_sig_fields _ _ Hc) as (-> & _ & _ & -> & _). rewrite IH. reflexivity.
Qed.
Lemma gcb_client_deletes_fold : forall l l', Forall2 gcb_sigrel l l' -> forall acc : idrange,
  fold_left (fun acc e => if wbf_is_deleted e then wbf_range_insert acc (mrg_clock (fst e)) (mrg_end (fst e)) else acc)
            (gcb_wcells l') acc =
  fold_left (fun acc e => if wbf_is_deleted e then wbf_range_insert acc (mrg_clock (fst e)) (mrg_end (fst e)) else acc)
            (gcb_wcells l) acc.
Proof.
  intros l l' H. induction H as [|c c' r r' Hc H IH]; intros acc; [reflexivity|].
  unfold gcb_wcells in *. cbn [map fold_left fst snd] in *.
  destruct (gcb_sig_fields _ _ Hc) as (E1 & _ & E3 & _ & E5 & _). unfold gcb_is_deleted in E5. rewrite E5, E1, E3. apply IH.
Qed.
Lemma gcb_client_deletes_sig : forall l l', Forall2 gcb_sigrel l l' ->
  wbf_client_deletes (gcb_wcells l') = wbf_client_deletes (gcb_wcells l).
Proof. intros l l' H. unfold wbf_client_deletes. apply gcb_client_deletes_fold. exact H. Qed.

Lemma gcb_state_vector_sig : forall st st', gcb_crelL gcb_sigrel (gcb_clients st) (gcb_clients st') ->
  wbf_state_vector (gcb_to_wbf st') = wbf_state_vector (gcb_to_wbf st).
Proof.
  intros st st' H. unfold wbf_state_vector, gcb_to_wbf. induction H as [|a b r r' [E HF] H IH]; cbn [map fst snd]; [reflexivity|].
  rewrite IH, E. f_equal. f_equal. unfold wbf_client_sv. fold (gcb_wcells (snd b)). fold (gcb_wcells (snd a)).
  rewrite (gcb_first_skip_sig _ _ HF), (gcb_list_clock_sig _ _ HF). reflexivity.
Qed.
Lemma gcb_local_sv_sig : forall st st', gcb_crelL gcb_sigrel (gcb_clients st) (gcb_clients st') ->
  wbf_local_sv (gcb_to_wbf st') = wbf_local_sv (gcb_to_wbf st).
Proof.
  intros st st' H. unfold wbf_local_sv, gcb_to_wbf. induction H as [|a b r r' [E HF] H IH]; cbn [map fst snd]; [reflexivity|].
  rewrite IH, E. f_equal. f_equal. fold (gcb_wcells (snd b)). fold (gcb_wcells (snd a)).
  exact (gcb_list_clock_sig _ _ HF).
Qed.
Lemma gcb_delete_set_fold : forall cs cs', gcb_crelL gcb_sigrel cs cs' -> forall m : idset,
  fold_left (fun m cb => match wbf_client_deletes (snd cb) with [] => m | r => im_set m (fst cb) r end)
            (map (fun cb => (fst cb, gcb_wcells (snd cb))) cs') m =
  fold_left (fun m cb => match wbf_client_deletes (snd cb) with [] => m | r => im_set m (fst cb) r end)
            (map (fun cb => (fst cb, gcb_wcells (snd cb))) cs) m.
Proof.
  intros cs cs' H. induction H as [|a b r r' [E HF] H IH]; intros m; cbn [map fold_left fst snd]; [reflexivity|].
  rewrite (gcb_client_deletes_sig _ _ HF), E. apply IH.
Qed.
Lemma gcb_delete_set_sig : forall st st', gcb_crelL gcb_sigrel (gcb_clients st) (gcb_clients st') ->
  wbf_delete_set (gcb_to_wbf st') = wbf_delete_set (gcb_to_wbf st).
Proof. intros st st' H. unfold wbf_delete_set, gcb_to_wbf. exact (gcb_delete_set_fold _ _ H []). Qed.

(* Theorem 2.  The unit ids of every client with their deletedness, the block boundaries, the state vector, the
   vector write_blocks_from compares with and IdSet::from_store are the same before and after a run of the
   collector.  (Boundaries do not move at all in the collector: Block::GC(item.block_range()) covers the clocks
   of the item; they move only in the squash that follows, see gcb_squash_left_units.) *)
Theorem gcb_preserves_ids : forall st ods st' mb, gcb_collect_all st ods = adl_ok (st', mb) ->
  gcb_ids st' = gcb_ids st /\ gcb_bounds st' = gcb_bounds st
  /\ wbf_state_vector (gcb_to_wbf st') = wbf_state_vector (gcb_to_wbf st)
  /\ wbf_local_sv (gcb_to_wbf st') = wbf_local_sv (gcb_to_wbf st)
  /\ wbf_delete_set (gcb_to_wbf st') = wbf_delete_set (gcb_to_wbf st).
Proof.
  intros st ods st' mb H. pose proof (gcb_srel_sigrel _ _ (gcb_collect_all_srel _ _ _ _ H)) as HS.
  repeat split; [apply gcb_ids_sig|apply gcb_bounds_sig|apply gcb_state_vector_sig|apply gcb_local_sv_sig|apply gcb_delete_set_sig]; exact HS.
Qed.
Print Assumptions gcb_preserves_ids.

Theorem gcb_commit_preserves_ids : forall st ds st', gcb_collect st ds = adl_ok st' ->
  gcb_ids st' = gcb_ids st /\ gcb_bounds st' = gcb_bounds st
  /\ wbf_state_vector (gcb_to_wbf st') = wbf_state_vector (gcb_to_wbf st)
  /\ wbf_local_sv (gcb_to_wbf st') = wbf_local_sv (gcb_to_wbf st)
  /\ wbf_delete_set (gcb_to_wbf st') = wbf_delete_set (gcb_to_wbf st).
Proof.
  intros st ds st' H. pose proof (gcb_srel_sigrel _ _ (gcb_collect_srel _ _ _ H)) as HS.
  repeat split; [apply gcb_ids_sig|apply gcb_bounds_sig|apply gcb_state_vector_sig|apply gcb_local_sv_sig|apply gcb_delete_set_sig]; exact HS.
Qed.
Print Assumptions gcb_commit_preserves_ids.

(* ---- visible content ---- *)
Lemma gcb_live_cell_srel : forall st st' i, gcb_srel st st' -> gcb_live_cell st' i = gcb_live_cell st i.
Proof.
  intros st st' i [HC _]. unfold gcb_live_cell, gcb_get_item.
  destruct (gcb_get_client (gcb_clients st) (cl i)) as [bl|] eqn:Eg.
  - destruct (gcb_get_client_rel _ _ _ _ _ HC Eg) as (bl' & -> & HF).
    rewrite (gcb_find_pos_sig bl bl' (ck i) (gcb_crel_map_sig _ _ HF)).
    destruct (gcb_find_pos bl (ck i)) as [pos|]; [|reflexivity].
    destruct (nth_error bl pos) as [c|] eqn:En.
    + destruct (gcb_F2_nth _ _ _ _ _ _ _ HF En) as (c' & -> & Hc).
      destruct Hc as [->|(H1 & H2 & [[_ ->]| ->])]; [reflexivity| |].
      * rewrite gcb_wipe_item, H1, gcb_wipe_del, H2. reflexivity.
      * rewrite (gcb_to_gc_not_item c H1), H1, H2. reflexivity.
    + assert (nth_error bl' pos = None) as ->; [|reflexivity].
      apply nth_error_None. rewrite <- (gcb_F2_length _ _ _ _ _ HF). apply nth_error_None. exact En.
  - rewrite (gcb_get_client_rel_none _ _ _ _ HC Eg). reflexivity.
Qed.

Lemma gcb_render_srel : forall st st' br, gcb_srel st st' -> gcb_render st' br = gcb_render st br.
Proof.
  intros st st' br H. unfold gcb_render. f_equal.
  - induction (gcb_seq br) as [|x r IH]; cbn [flat_map]; [reflexivity|]. rewrite IH, (gcb_live_cell_srel _ _ x H). reflexivity.
  - apply map_ext. intros [k [|h t]]; cbn [fst snd]; [reflexivity|]. rewrite (gcb_live_cell_srel _ _ h H). reflexivity.
Qed.

(* Theorem 3 (and the second half of 1).  Whatever the delete set handed to the collector:
   (a) every cell that is not deleted (live item, Skip) is found unchanged at the same position of the same list:
       content, parent, parent_sub, origins, flags;  (b) the pointer structure of every shared type is untouched
       unless the type's own item is a deleted type item;  (c) what a reader sees of ANY branch value (the live items
       of its sequence, the live head of each map chain) is the same in the new store. *)
Theorem gcb_preserves_visible : forall st ods st' mb, gcb_collect_all st ods = adl_ok (st', mb) ->
  (forall client bl pos c, gcb_get_client (gcb_clients st) client = Some bl -> nth_error bl pos = Some c ->
     gcb_is_deleted c = false ->
     exists bl', gcb_get_client (gcb_clients st') client = Some bl' /\ nth_error bl' pos = Some c)
  /\ (forall n key br, nth_error (gcb_branches st) n = Some (key, br) ->
        (forall i, key = PId i -> gcb_dead_type st i = false) ->
        nth_error (gcb_branches st') n = Some (key, br))
  /\ length (gcb_branches st') = length (gcb_branches st)
  /\ (forall br, gcb_render st' br = gcb_render st br).
Proof.
  intros st ods st' mb H. pose proof (gcb_collect_all_srel _ _ _ _ H) as HS. repeat split.
  - intros client bl pos c Hg Hn Hl. destruct HS as [HC _].
    destruct (gcb_get_client_rel _ _ _ _ _ HC Hg) as (bl' & Hg' & HF). exists bl'. split; [exact Hg'|].
    destruct (gcb_F2_nth _ _ _ _ _ _ _ HF Hn) as (c' & Hn' & Hc). rewrite (gcb_crel_live _ _ Hc Hl) in Hn'. exact Hn'.
  - intros n key br Hn Hk. destruct HS as [_ HB].
    destruct (gcb_F2_nth _ _ _ _ _ _ _ HB Hn) as ([k' b'] & Hn' & K & D). cbn [fst snd] in *. subst k'.
    destruct D as [->|(_ & i & Ki & Di)]; [exact Hn'|]. rewrite (Hk i Ki) in Di. discriminate.
  - destruct HS as [_ HB]. symmetry. exact (gcb_F2_length _ _ _ _ _ HB).
  - intros br. exact (gcb_render_srel _ _ br HS).
Qed.
Print Assumptions gcb_preserves_visible.

(* Theorem 4, first part: what may happen to a cell.  A cell changes only if it is a deleted item; its content is
   wiped only if it does not carry the keep flag; a kept item can only disappear as a whole (GC range). *)
Theorem gcb_cells_change_only_so : forall st ods st' mb client bl pos c,
  gcb_collect_all st ods = adl_ok (st', mb) ->
  gcb_get_client (gcb_clients st) client = Some bl -> nth_error bl pos = Some c ->
  exists bl' c', gcb_get_client (gcb_clients st') client = Some bl' /\ nth_error bl' pos = Some c' /\
    length bl' = length bl /\
    (c' = c \/ (gcb_is_item c = true /\ gcb_del c = true /\
                ((gcb_keep c = false /\ c' = gcb_wipe c) \/ c' = gcb_to_gc c))).
Proof.
  intros st ods st' mb client bl pos c H Hg Hn. destruct (gcb_collect_all_srel _ _ _ _ H) as [HC _].
  destruct (gcb_get_client_rel _ _ _ _ _ HC Hg) as (bl' & Hg' & HF).
  destruct (gcb_F2_nth _ _ _ _ _ _ _ HF Hn) as (c' & Hn' & Hc). exists bl', c'.
  repeat split; [exact Hg'|exact Hn'|symmetry; exact (gcb_F2_length _ _ _ _ _ HF)|exact Hc].
Qed.
Print Assumptions gcb_cells_change_only_so.

(* ================================================================================================ *)
(* 6. Theorem 1: which blocks the walk of mark_in_scope visits                                      *)
(* ================================================================================================ *)
(* on a list without holes the cells visited from a start that lies d units after the first block's clock are the
   blocks whose END, shifted by d, still fits the range: for d = 0 the blocks wholly inside the range; for d > 0
   the first block (partly outside) is visited when its end + d fits, and a block wholly inside is NOT visited when
   its end + d exceeds the range end *)
Theorem gcb_visited_contig : forall bl a d e, gcb_contigb a bl = true ->
  gcb_visited bl (a + d) e = gcb_take_while (fun c => mrg_end (gcb_blk c) + d <=? e) bl.
Proof.
  induction bl as [|c r IH]; intros a d e H; [reflexivity|]. cbn [gcb_contigb] in H. apply andb_true_iff in H.
  destruct H as [H1 H2]. apply N.eqb_eq in H1. cbn [gcb_visited gcb_take_while]. unfold mrg_end in *. rewrite H1 in *.
  replace (a + block_len (gcb_blk c) + d) with (a + d + block_len (gcb_blk c)) by lia.
  destruct (e <? a + d + block_len (gcb_blk c)) eqn:E1; destruct (a + d + block_len (gcb_blk c) <=? e) eqn:E2;
    try (apply N.ltb_lt in E1; apply N.leb_le in E2; lia); try (apply N.ltb_ge in E1; apply N.leb_gt in E2; lia);
    [reflexivity|]. f_equal. replace (a + d + block_len (gcb_blk c)) with (a + block_len (gcb_blk c) + d) by lia.
  rewrite (IH _ d e H2). reflexivity.
Qed.
Print Assumptions gcb_visited_contig.

(* ... and for d = 0 these are exactly the blocks that lie wholly inside [a, e) *)
Lemma gcb_contigb_ge : forall bl a c, gcb_contigb a bl = true -> In c bl -> a <= mrg_clock (gcb_blk c).
Proof.
  induction bl as [|x r IH]; intros a c H Hin; [destruct Hin|]. cbn [gcb_contigb] in H. apply andb_true_iff in H.
  destruct H as [H1 H2]. apply N.eqb_eq in H1. destruct Hin as [->|Hin]; [lia|].
  pose proof (IH _ c H2 Hin). unfold mrg_end in *. lia.
Qed.
Theorem gcb_visited_aligned : forall bl a e, gcb_contigb a bl = true ->
  (forall c, In c bl -> 0 < block_len (gcb_blk c)) ->
  gcb_visited bl a e = filter (gcb_inside a e) bl.
Proof.
  intros bl a e H Hp. replace a with (a + 0) at 1 by lia. rewrite (gcb_visited_contig bl a 0 e H).
  revert a H. induction bl as [|c r IH]; intros a H; [reflexivity|]. cbn [gcb_contigb] in H. apply andb_true_iff in H.
  destruct H as [H1 H2]. apply N.eqb_eq in H1. cbn [gcb_take_while filter]. unfold gcb_inside at 1.
  rewrite H1, N.leb_refl, N.add_0_r. cbn [andb]. destruct (mrg_end (gcb_blk c) <=? e) eqn:E.
  - f_equal. rewrite (IH (fun x Hx => Hp x (or_intror Hx)) _ H2). apply filter_ext_in. intros x Hx. unfold gcb_inside.
    pose proof (gcb_contigb_ge _ _ _ H2 Hx). pose proof (Hp c (or_introl eq_refl)). unfold mrg_end in *.
    destruct (a <=? mrg_clock (gcb_blk x)) eqn:E1; destruct (mrg_clock (gcb_blk c) + block_len (gcb_blk c) <=? mrg_clock (gcb_blk x)) eqn:E2;
      try reflexivity; try (apply N.leb_le in E2; apply N.leb_gt in E1; lia); apply N.leb_gt in E2; lia.
  - symmetry. clear IH. assert (G : forall x, In x r -> gcb_inside a e x = false).
    { intros x Hx. unfold gcb_inside. pose proof (gcb_contigb_ge _ _ _ H2 Hx). pose proof (Hp x (or_intror Hx)).
      apply N.leb_gt in E. apply andb_false_iff. right. apply N.leb_gt. unfold mrg_end in *. lia. }
    clear - G. induction r as [|x r' IHr]; [reflexivity|]. cbn [filter]. rewrite (G x (or_introl eq_refl)).
    apply IHr. intros y Hy. apply G. right. exact Hy.
Qed.
Print Assumptions gcb_visited_aligned.

Lemma gcb_F2_skipn : forall (A B : Type) (R : A -> B -> Prop) n l l', Forall2 R l l' -> Forall2 R (skipn n l) (skipn n l').
Proof. intros A B R n. induction n as [|n IH]; intros l l' H; [exact H|]. destruct H; cbn [skipn]; [constructor|apply IH; assumption]. Qed.

Lemma gcb_wrel_len_id : forall c c', gcb_wrel c c' ->
  block_len (gcb_blk c') = block_len (gcb_blk c) /\
  gcb_item_ids [c'] = gcb_item_ids [c].
Proof.
  intros c c' [->|(_ & _ & _ & ->)]; [split; reflexivity|]. destruct c as [b d k n]. destruct b; split; reflexivity.
Qed.
Lemma gcb_visited_wrel : forall l l', Forall2 gcb_wrel l l' -> forall s e,
  gcb_item_ids (gcb_visited l' s e) = gcb_item_ids (gcb_visited l s e).
Proof.
  intros l l' H. induction H as [|c c' r r' Hc H IH]; intros s e; [reflexivity|]. cbn [gcb_visited].
  destruct (gcb_wrel_len_id _ _ Hc) as [E1 E2]. rewrite E1. destruct (e <? s + block_len (gcb_blk c)); [reflexivity|].
  unfold gcb_item_ids in *. cbn [flat_map] in *. rewrite IH. rewrite !app_nil_r in E2. rewrite E2. reflexivity.
Qed.
Lemma gcb_skipn_nth : forall (A : Type) (l : list A) i x, nth_error l i = Some x -> skipn i l = x :: skipn (S i) l.
Proof. intros A l. induction l as [|a r IH]; intros [|i] x H; cbn in *; try discriminate; [inversion H; reflexivity|apply IH; exact H]. Qed.

(* the trace of the walk: with merge_blocks recorded (collect_all), the ids handed to Item::gc are those of the
   cells [gcb_visited] computes on the list as it was when the walk started *)
Theorem gcb_walk_trace : forall fuel g client st mk mb start e i s' bl,
  gcb_walk fuel g client true (st, mk, mb) start e i = adl_ok s' ->
  gcb_get_client (gcb_clients st) client = Some bl ->
  snd s' = mb ++ gcb_item_ids (gcb_visited (skipn i bl) start e).
Proof.
  induction fuel as [|f IH]; intros g client st mk mb start e i s' bl H Hg; cbn [gcb_walk] in H; [discriminate|].
  rewrite Hg in H. destruct (Nat.ltb i (length bl)) eqn:El.
  - destruct (nth_error bl i) as [c|] eqn:En; [|discriminate]. rewrite (gcb_skipn_nth _ _ _ _ En). cbn [gcb_visited].
    unfold adl_add32 in H. destruct (start + block_len (gcb_blk c) <=? adl_u32_max); [|discriminate]. cbn [adl_bind] in H.
    destruct (e <? start + block_len (gcb_blk c)); [inversion H; subst; cbn; rewrite app_nil_r; reflexivity|].
    unfold gcb_item_ids. cbn [flat_map]. fold (gcb_item_ids (gcb_visited (skipn (S i) bl) (start + block_len (gcb_blk c)) e)).
    destruct (gcb_blk c) as [it o ro p ps ct| |] eqn:Eb; try (cbn [app]; exact (IH _ _ _ _ _ _ _ _ _ _ H Hg)).
    destruct (gcb_item_gc g st mk it false) as [[st1 mk1]|] eqn:E; [|discriminate]. cbn [adl_bind fst snd] in H.
    destruct (gcb_item_gc_rel _ _ _ _ _ _ _ E) as [HC _].
    destruct (gcb_get_client_rel _ _ _ _ _ HC Hg) as (bl1 & Hg1 & HF).
    rewrite (IH _ _ _ _ _ _ _ _ _ _ H Hg1), <- app_assoc. f_equal. cbn [app]. f_equal.
    apply gcb_visited_wrel. apply gcb_F2_skipn. exact HF.
  - inversion H; subst. apply Nat.ltb_ge in El. rewrite (skipn_all2 bl El). cbn. rewrite app_nil_r. reflexivity.
Qed.
Print Assumptions gcb_walk_trace.

Lemma gcb_find_index_ok : forall bl pre c r k, adl_wf_blist (map gcb_abs bl) = true -> bl = pre ++ c :: r ->
  mrg_clock (gcb_blk c) <= k < mrg_end (gcb_blk c) -> gcb_find_index bl k = adl_ok (Some (length pre)).
Proof.
  intros bl pre c r k Hwf E Hk. unfold adl_wf_blist in Hwf. apply andb_true_iff in Hwf. destruct Hwf as [H1 H2].
  apply N.leb_le in H2. unfold gcb_find_index.
  rewrite (adl_find_index_ok (map gcb_abs bl) k (map gcb_abs pre) (gcb_abs c) (map gcb_abs r) H1 H2).
  - rewrite map_length. reflexivity.
  - rewrite E, map_app. reflexivity.
  - exact Hk.
Qed.

Lemma gcb_contigb_app : forall pre a l, gcb_contigb a (pre ++ l) = true ->
  exists b, gcb_contigb b l = true.
Proof.
  induction pre as [|x r IH]; intros a l H; [eauto|]. cbn [app gcb_contigb] in H. apply andb_true_iff in H. destruct H as [_ H].
  exact (IH _ _ H).
Qed.

(* Theorem 1.  One delete-set range [s, e) of TransactionMut::gc(Some(ds)) on a client whose list bl has no holes,
   s lying in the block c (d = s - clock of c units after its start): the ids handed to Item::gc (and pushed to
   merge_blocks) are those of the blocks from c on whose end + d is at most e.
     d = 0 (commit: see the report): exactly the blocks wholly inside the range [gcb_walk_exact_aligned];
     d > 0: c itself - not wholly inside - is visited if its end + d <= e, and the walk stops d units early. *)
Theorem gcb_walk_exact : forall g client st mk mb s e s' bl pre c r,
  gcb_get_client (gcb_clients st) client = Some bl -> adl_wf_blist (map gcb_abs bl) = true ->
  gcb_contigb 0 bl = true -> bl = pre ++ c :: r -> mrg_clock (gcb_blk c) <= s < mrg_end (gcb_blk c) ->
  gcb_mark_range g client true (st, mk, mb) (s, e, tt) = adl_ok s' ->
  snd s' = mb ++ gcb_item_ids (gcb_take_while (fun x => mrg_end (gcb_blk x) + (s - mrg_clock (gcb_blk c)) <=? e) (c :: r)).
Proof.
  intros g client st mk mb s e s' bl pre c r Hg Hwf Hc E Hs H. unfold gcb_mark_range in H. cbn [fst snd] in H. rewrite Hg in H.
  unfold e_start, e_end in H. cbn [fst snd] in H.
  assert (Hcl : adl_list_clock (map gcb_abs bl) = adl_ok (adl_end 0 (map gcb_abs bl)) /\ s < adl_end 0 (map gcb_abs bl)).
  { pose proof Hwf as Hwf'. unfold adl_wf_blist in Hwf'. apply andb_true_iff in Hwf'. destruct Hwf' as [W1 W2]. apply N.leb_le in W2.
    split; [exact (adl_list_clock_ok _ W1 W2)|].
    assert (Hin : In (gcb_abs c) (map gcb_abs bl)) by (apply in_map; rewrite E; apply in_or_app; right; left; reflexivity).
    destruct (adl_contig_in _ _ _ W1 Hin) as (_ & Q & _). unfold mrg_end in Hs.
    change (adl_bclock (gcb_abs c)) with (mrg_clock (gcb_blk c)) in Q. change (adl_blen (gcb_abs c)) with (block_len (gcb_blk c)) in Q. lia. }
  destruct Hcl as [Hcl1 Hcl2]. rewrite Hcl1 in H. cbn [adl_bind] in H.
  destruct (adl_end 0 (map gcb_abs bl) <=? s) eqn:Eguard; [apply N.leb_le in Eguard; lia|].
  rewrite (gcb_find_index_ok bl pre c r s Hwf E Hs) in H. cbn [adl_bind] in H.
  rewrite (gcb_walk_trace _ _ _ _ _ _ _ _ _ _ bl H Hg). f_equal. f_equal.
  assert (Esk : skipn (length pre) bl = c :: r).
  { rewrite E. rewrite skipn_app, skipn_all, Nat.sub_diag. reflexivity. }
  rewrite Esk. rewrite E in Hc.
  assert (Hc' : gcb_contigb (mrg_clock (gcb_blk c)) (c :: r) = true).
  { clear - Hc. revert Hc. generalize 0. induction pre as [|x p IH]; intros a H; cbn [app gcb_contigb] in *.
    - apply andb_true_iff in H. destruct H as [H1 H2]. rewrite N.eqb_refl. exact H2.
    - apply andb_true_iff in H. destruct H as [_ H]. exact (IH _ H). }
  replace s with (mrg_clock (gcb_blk c) + (s - mrg_clock (gcb_blk c))) at 1 by lia.
  apply gcb_visited_contig. exact Hc'.
Qed.
Print Assumptions gcb_walk_exact.

Theorem gcb_walk_exact_aligned : forall g client st mk mb e s' bl pre c r,
  gcb_get_client (gcb_clients st) client = Some bl -> adl_wf_blist (map gcb_abs bl) = true ->
  gcb_contigb 0 bl = true -> bl = pre ++ c :: r ->
  gcb_mark_range g client true (st, mk, mb) (mrg_clock (gcb_blk c), e, tt) = adl_ok s' ->
  snd s' = mb ++ gcb_item_ids (filter (gcb_inside (mrg_clock (gcb_blk c)) e) (c :: r)).
Proof.
  intros g client st mk mb e s' bl pre c r Hg Hwf Hc E H.
  assert (Hpos : forall x, In x bl -> 0 < block_len (gcb_blk x)).
  { unfold adl_wf_blist in Hwf. apply andb_true_iff in Hwf. destruct Hwf as [H1 _].
    assert (G : forall l a, adl_contig a (map gcb_abs l) = true -> forall x, In x l -> 0 < block_len (gcb_blk x)); [|exact (G bl 0 H1)].
    induction l as [|y l IH]; intros a Q x Hin; [destruct Hin|]. cbn [map adl_contig] in Q.
    apply andb_true_iff in Q. destruct Q as [Q H3]. apply andb_true_iff in Q. destruct Q as [_ H2].
    destruct Hin as [->|Hin]; [apply N.ltb_lt in H2; exact H2|exact (IH _ H3 x Hin)]. }
  assert (Hs : mrg_clock (gcb_blk c) <= mrg_clock (gcb_blk c) < mrg_end (gcb_blk c)).
  { pose proof (Hpos c ltac:(rewrite E; apply in_or_app; right; left; reflexivity)). unfold mrg_end. lia. }
  rewrite (gcb_walk_exact _ _ _ _ _ _ _ _ _ _ _ _ Hg Hwf Hc E Hs H). f_equal. f_equal.
  rewrite N.sub_diag.
  assert (Hc' : gcb_contigb (mrg_clock (gcb_blk c)) (c :: r) = true).
  { rewrite E in Hc. clear - Hc. revert Hc. generalize 0. induction pre as [|x p IH]; intros a H; cbn [app gcb_contigb] in *.
    - apply andb_true_iff in H. destruct H as [H1 H2]. rewrite N.eqb_refl. exact H2.
    - apply andb_true_iff in H. destruct H as [_ H]. exact (IH _ H). }
  rewrite <- (gcb_visited_aligned (c :: r) _ e Hc').
  - symmetry. pose proof (gcb_visited_contig (c :: r) (mrg_clock (gcb_blk c)) 0 e Hc') as Q. rewrite N.add_0_r in Q. exact Q.
  - intros x Hx. apply Hpos. rewrite E. apply in_or_app. right. exact Hx.
Qed.
Print Assumptions gcb_walk_exact_aligned.

(* ================================================================================================ *)
(* 7. Theorem 6 (partial): what a peer is sent                                                      *)
(* ================================================================================================ *)
(* the only difference between the store a peer's update is encoded from (Crdt/WriteBlocks.v wbf_encode_diff is a
   function of [gcb_to_wbf st] and the peer's state vector) before and after the collector: a DELETED item keeps
   id, origin, right origin, parent, parent_sub and has content Deleted(len), or has become the GC range of its
   ids.  Same clients, same number of blocks per client, same block boundaries (gcb_preserves_ids), same delete
   set, same state vectors. *)
Definition gcb_wire_rel (e e' : block * bool) : Prop :=
  e' = e \/
  (snd e = true /\ snd e' = true /\
   exists i o ro p ps c, fst e = BItem i o ro p ps c /\
     (fst e' = BItem i o ro p ps (BDeleted (content_len c)) \/ fst e' = BGC i (content_len c))).

Lemma gcb_crel_wire : forall c c', gcb_crel c c' -> gcb_wire_rel (gcb_blk c, gcb_del c) (gcb_blk c', gcb_del c').
Proof.
  intros c c' [->|(H1 & H2 & H)]; [left; reflexivity|]. right. cbn [fst snd]. destruct c as [b d k n]. cbn in *. subst d.
  destruct b as [i o ro p ps ct| |]; try discriminate.
  destruct H as [[_ ->]| ->]; cbn; (split; [reflexivity|split; [reflexivity|]]); exists i, o, ro, p, ps, ct; auto.
Qed.

Theorem gcb_peer_cannot_tell_partial : forall st ods st' mb, gcb_collect_all st ods = adl_ok (st', mb) ->
  Forall2 (fun cb cb' => fst cb' = fst cb /\ Forall2 gcb_wire_rel (snd cb) (snd cb')) (gcb_to_wbf st) (gcb_to_wbf st')
  /\ (forall sv, u_ds (wbf_encode_diff (gcb_to_wbf st') sv) = u_ds (wbf_encode_diff (gcb_to_wbf st) sv))
  /\ wbf_local_sv (gcb_to_wbf st') = wbf_local_sv (gcb_to_wbf st)
  /\ wbf_state_vector (gcb_to_wbf st') = wbf_state_vector (gcb_to_wbf st).
Proof.
  intros st ods st' mb H. pose proof (gcb_collect_all_srel _ _ _ _ H) as HS.
  destruct (gcb_preserves_ids _ _ _ _ H) as (_ & _ & Hsv & Hl & Hds). repeat split; try assumption.
  - destruct HS as [HC _]. unfold gcb_to_wbf. induction HC as [|a b r r' [E HF] HC IH]; cbn [map]; constructor; [|exact IH].
    cbn [fst snd]. split; [exact E|]. clear - HF. induction HF as [|c c' l l' Hc HF IH]; cbn [map]; constructor; [|exact IH].
    exact (gcb_crel_wire _ _ Hc).
  - intros sv. unfold wbf_encode_diff. cbn [u_ds]. exact Hds.
Qed.
Print Assumptions gcb_peer_cannot_tell_partial.


(* ================================================================================================ *)
(* 8. refuted statements (replayed against the Rust code: yrs/tests/gcb_replay.rs)                  *)
(* ================================================================================================ *)
Definition gcb_w_str (c k : N) (s : list N) (del : bool) : gcb_cell :=
  gcb_mkcell (BItem (mkid c k) None None (PNamed [116]) None (BString s)) del false true.
Definition gcb_w_any (c k : N) (key : list N) (del : bool) : gcb_cell :=
  gcb_mkcell (BItem (mkid c k) None None (PNamed [109]) (Some key) (BJson [[53]])) del false true.

(* R1: one block (1,0) of length 1; the delete set names clock 1 of client 1 *)
Definition gcb_w1_store : gcb_store :=
  gcb_mkstore [(1, [gcb_w_str 1 0 [97] false])] [(PNamed [116], gcb_mkbranch [mkid 1 0] [])].
Definition gcb_w1_ds : idset := [(1, [(1, 2, tt)])].
(* R1b: two blocks (1,0), (1,1) of length 1; the delete set names clock 7 *)
Definition gcb_w1b_store : gcb_store :=
  gcb_mkstore [(1, [gcb_w_any 1 0 [97] false; gcb_w_any 1 1 [98] false])]
              [(PNamed [109], gcb_mkbranch [] [([97], [mkid 1 0]); ([98], [mkid 1 1])])].
Definition gcb_w1b_ds : idset := [(1, [(7, 8, tt)])].

(* Full statement (FALSE for the code before 1f736a8; TRUE for the repaired code: gcb_collect_all_total):
     forall st ds, gcb_total_ok st = true -> exists r, gcb_collect_all_pre_1f736a8 st (Some ds) = adl_ok r.
   TransactionMut::gc(Some(ds)) panicked when ds names a clock the client's list does not reach: mark_in_scope calls
   find_index without the `clock < blocks.clock()` test apply_delete performs (division by zero when the last block
   is (c, 0) of length 1, index out of bounds otherwise). *)
Theorem gcb_collect_all_total_pre_1f736a8_refuted : exists st ds,
  gcb_wf st = true /\ gcb_total_ok st = true /\ adl_ds_ok ds = true /\ gcb_collect_all_pre_1f736a8 st (Some ds) = adl_panic
  /\ gcb_collect_all st (Some ds) = adl_ok (st, []).
Proof. exists gcb_w1_store, gcb_w1_ds. vm_compute. auto. Qed.
Print Assumptions gcb_collect_all_total_pre_1f736a8_refuted.
Theorem gcb_collect_all_total_pre_1f736a8_refuted_b : exists st ds,
  gcb_wf st = true /\ gcb_total_ok st = true /\ adl_ds_ok ds = true /\ gcb_collect_all_pre_1f736a8 st (Some ds) = adl_panic
  /\ gcb_collect_all st (Some ds) = adl_ok (st, []).
Proof. exists gcb_w1b_store, gcb_w1b_ds. vm_compute. auto 6. Qed.
Print Assumptions gcb_collect_all_total_pre_1f736a8_refuted_b.

(* R2: blocks [0,2) "ab" (deleted) and [2,3) map entry (deleted); range [1,3) *)
Definition gcb_w2_store : gcb_store :=
  gcb_mkstore [(1, [gcb_w_str 1 0 [97; 98] true; gcb_w_any 1 2 [107] true])]
              [(PNamed [116], gcb_mkbranch [mkid 1 0] []); (PNamed [109], gcb_mkbranch [] [([107], [mkid 1 2])])].
Definition gcb_w2_ds : idset := [(1, [(1, 3, tt)])].

(* Full statement (FALSE): the scope of TransactionMut::gc(Some(ds)) is the set of blocks wholly inside ds:
     forall st client bl s e s', gcb_wf st = true -> gcb_get_client (gcb_clients st) client = Some bl ->
       gcb_mark_range (gcb_gc_fuel st) client true (st, [], []) (s, e, tt) = adl_ok s' ->
       snd s' = gcb_item_ids (filter (gcb_inside s e) bl).
   `start` is advanced by the full length of the block find_index returned, also when the range begins inside it:
   the block [0,2), half outside the range, is collected; the block [2,3), wholly inside, is not. *)
Theorem gcb_walk_wholly_inside_refuted : exists st client bl s e s',
  gcb_wf st = true /\ gcb_get_client (gcb_clients st) client = Some bl /\
  gcb_mark_range (gcb_gc_fuel st) client true (st, [], []) (s, e, tt) = adl_ok s' /\
  snd s' = [mkid 1 0] /\ gcb_item_ids (filter (gcb_inside s e) bl) = [mkid 1 2].
Proof.
  exists gcb_w2_store, 1, [gcb_w_str 1 0 [97; 98] true; gcb_w_any 1 2 [107] true], 1, 3.
  eexists. repeat split; vm_compute; reflexivity.
Qed.
Print Assumptions gcb_walk_wholly_inside_refuted.

(* ================================================================================================ *)
(* 9. totality of the repaired collector (1f736a8) on well-formed stores, for ANY delete set        *)
(* ================================================================================================ *)
Definition gcb_has_clock (st : gcb_store) (i : id) : Prop :=
  exists bl pos, gcb_get_client (gcb_clients st) (cl i) = Some bl /\ gcb_find_pos bl (ck i) = Some pos.
Definition gcb_marks_in (st : gcb_store) (mk : gcb_marked) : Prop :=
  forall i, In i (gcb_marked_ids mk) -> gcb_has_clock st i.

Lemma gcb_marked_ids_mark : forall mk i x, In x (gcb_marked_ids (gcb_mark mk i)) -> x = i \/ In x (gcb_marked_ids mk).
Proof.
  induction mk as [|[c ks] r IH]; intros i x H; cbn [gcb_mark] in H.
  - unfold gcb_marked_ids in H. cbn in H. destruct H as [H|[]]. left. destruct i; cbn in H. congruence.
  - destruct (c =? cl i) eqn:E.
    + apply N.eqb_eq in E. unfold gcb_marked_ids in *. cbn [flat_map fst snd] in *. apply in_app_or in H. destruct H as [H|H].
      * rewrite map_app in H. apply in_app_or in H. destruct H as [H|H]; [right; apply in_or_app; left; exact H|].
        cbn in H. destruct H as [H|[]]. left. subst c. destruct i; cbn in H. congruence.
      * right. apply in_or_app. right. exact H.
    + unfold gcb_marked_ids in *. cbn [flat_map fst snd] in *. apply in_app_or in H. destruct H as [H|H].
      * right. apply in_or_app. left. exact H.
      * destruct (IH i x H) as [G|G]; [left; exact G|right; apply in_or_app; right; exact G].
Qed.

Lemma gcb_sigrel_map : forall l l', Forall2 gcb_sigrel l l' -> map gcb_sig l' = map gcb_sig l.
Proof. apply gcb_F2_map. intros x y H. exact H. Qed.

Lemma gcb_has_clock_fwd : forall st st' i, gcb_crelL gcb_sigrel (gcb_clients st) (gcb_clients st') ->
  gcb_has_clock st i -> gcb_has_clock st' i.
Proof.
  intros st st' i H (bl & pos & Hg & Hf). destruct (gcb_get_client_rel _ _ _ _ _ H Hg) as (bl' & Hg' & HF).
  exists bl', pos. split; [exact Hg'|]. rewrite (gcb_find_pos_sig bl bl' (ck i) (gcb_sigrel_map _ _ HF)). exact Hf.
Qed.
Lemma gcb_has_clock_back : forall st st' i, gcb_crelL gcb_sigrel (gcb_clients st) (gcb_clients st') ->
  gcb_has_clock st' i -> gcb_has_clock st i.
Proof.
  intros st st' i H (bl' & pos & Hg & Hf). destruct (gcb_get_client_rel_back _ _ _ _ _ H Hg) as (bl & Hg' & HF).
  exists bl, pos. split; [exact Hg'|]. rewrite <- (gcb_find_pos_sig bl bl' (ck i) (gcb_sigrel_map _ _ HF)). exact Hf.
Qed.
Lemma gcb_wsrel_sigrel : forall st st', gcb_srelR gcb_wrel st st' -> gcb_crelL gcb_sigrel (gcb_clients st) (gcb_clients st').
Proof. intros st st' H. apply gcb_srel_sigrel. apply gcb_wrel_srel. exact H. Qed.
Lemma gcb_marks_in_fwd : forall st st' mk, gcb_crelL gcb_sigrel (gcb_clients st) (gcb_clients st') ->
  gcb_marks_in st mk -> gcb_marks_in st' mk.
Proof. intros st st' mk H Hm i Hi. exact (gcb_has_clock_fwd _ _ _ H (Hm i Hi)). Qed.
Lemma gcb_marks_in_back : forall st st' mk, gcb_crelL gcb_sigrel (gcb_clients st) (gcb_clients st') ->
  gcb_marks_in st' mk -> gcb_marks_in st mk.
Proof. intros st st' mk H Hm i Hi. exact (gcb_has_clock_back _ _ _ H (Hm i Hi)). Qed.

Lemma gcb_get_item_has_clock : forall st i pos c, gcb_get_item st i = Some (pos, c) -> gcb_has_clock st i.
Proof. intros st i pos c H. destruct (gcb_get_item_inv _ _ _ _ H) as (bl & Hg & Hf & _). exists bl, pos. auto. Qed.

Lemma gcb_get_item_fwd : forall st st' i pos c, gcb_srelR gcb_wrel st st' -> gcb_get_item st i = Some (pos, c) ->
  exists c', gcb_get_item st' i = Some (pos, c') /\ gcb_wrel c c'.
Proof.
  intros st st' i pos c [HC _] H. destruct (gcb_get_item_inv _ _ _ _ H) as (bl & Hg & Hf & Hn & Hi).
  destruct (gcb_get_client_rel _ _ _ _ _ HC Hg) as (bl' & Hg' & HF).
  destruct (gcb_F2_nth _ _ _ _ _ _ _ HF Hn) as (c' & Hn' & Hc). exists c'. split; [|exact Hc].
  unfold gcb_get_item. rewrite Hg'.
  assert (Hs : map gcb_sig bl' = map gcb_sig bl).
  { apply gcb_crel_map_sig. revert HF. apply gcb_F2_impl. exact gcb_wrel_crel. }
  rewrite (gcb_find_pos_sig bl bl' (ck i) Hs), Hf, Hn'.
  destruct Hc as [->|(_ & _ & _ & ->)]; [rewrite Hi; reflexivity|rewrite gcb_wipe_item, Hi; reflexivity].
Qed.

Lemma gcb_branch_of_rel : forall st brs brs' i, Forall2 (gcb_brel st) brs brs' ->
  match gcb_branch_of brs i with
  | None => gcb_branch_of brs' i = None
  | Some br => exists br', gcb_branch_of brs' i = Some br' /\ (br' = br \/ br' = gcb_empty_branch)
  end.
Proof.
  intros st brs brs' i H. induction H as [|[p b] [p' b'] r r' [K D] H IH]; cbn [gcb_branch_of]; [reflexivity|].
  cbn [fst snd] in *. subst p'. destruct (gcb_key_is i p).
  - exists b'. split; [reflexivity|]. destruct D as [D|[D _]]; auto.
  - exact IH.
Qed.

Lemma gcb_safe_mono : forall n st st' i, gcb_srelR gcb_wrel st st' -> gcb_safe n st i = true -> gcb_safe n st' i = true.
Proof.
  induction n as [|m IH]; intros st st' i HS H; cbn [gcb_safe] in *; [discriminate|].
  destruct (gcb_get_item st i) as [[pos c]|] eqn:Eg; [|discriminate].
  destruct (gcb_get_item_fwd _ _ _ _ _ HS Eg) as (c' & -> & _).
  pose proof (gcb_branch_of_rel st _ _ i (proj2 HS)) as HB.
  destruct (gcb_branch_of (gcb_branches st) i) as [br|].
  - destruct HB as (br' & -> & [->| ->]); [|reflexivity].
    apply forallb_forall. intros x Hx. apply (IH st st' x HS). exact (proj1 (forallb_forall _ _) H x Hx).
  - rewrite HB. reflexivity.
Qed.

Lemma gcb_get_client_in : forall cs c bl, gcb_get_client cs c = Some bl -> In (c, bl) cs.
Proof.
  induction cs as [|[c' b'] r IH]; intros c bl H; cbn in H; [discriminate|]. destruct (c' =? c) eqn:E.
  - apply N.eqb_eq in E. inversion H; subst. left. reflexivity.
  - right. exact (IH _ _ H).
Qed.

Lemma gcb_all_safe_cell : forall g st0 st client bl j c it o ro p ps ct,
  gcb_all_safe g st0 = true -> gcb_srelR gcb_wrel st0 st ->
  gcb_get_client (gcb_clients st) client = Some bl -> nth_error bl j = Some c -> gcb_blk c = BItem it o ro p ps ct ->
  gcb_safe g st it = true.
Proof.
  intros g st0 st client bl j c it o ro p ps ct Ha HS Hg Hn Hb.
  destruct (gcb_get_client_rel_back _ _ _ _ _ (proj1 HS) Hg) as (bl0 & Hg0 & HF).
  destruct (gcb_F2_nth_back _ _ _ _ _ _ _ HF Hn) as (c0 & Hn0 & Hc).
  apply (gcb_safe_mono g st0 st it HS). unfold gcb_all_safe in Ha.
  pose proof (proj1 (forallb_forall _ _) Ha _ (gcb_get_client_in _ _ _ Hg0)) as H1. cbn [snd] in H1.
  pose proof (proj1 (forallb_forall _ _) H1 _ (nth_error_In _ _ Hn0)) as H2. cbn beta in H2.
  destruct Hc as [->|(_ & _ & _ & ->)]; [rewrite Hb in H2; exact H2|].
  destruct c0 as [b0 d0 k0 n0]. cbn in *. destruct b0; cbn in Hb; try discriminate. inversion Hb; subst. exact H2.
Qed.

(* a generic totality lemma for adl_fold *)
Lemma gcb_fold_total : forall (A B : Type) (Inv : A -> Prop) (f : A -> B -> adl_res A) (l : list B),
  (forall a x, In x l -> Inv a -> exists a', f a x = adl_ok a' /\ Inv a') ->
  forall a, Inv a -> exists a', adl_fold f l a = adl_ok a' /\ Inv a'.
Proof.
  intros A B Inv f l. induction l as [|x r IH]; intros Hs a Ha; cbn [adl_fold]; [eauto|].
  destruct (Hs a x (or_introl eq_refl) Ha) as (a1 & -> & H1). cbn [adl_bind].
  apply IH; [|exact H1]. intros a0 x0 Hin. apply Hs. right. exact Hin.
Qed.

Definition gcb_pinv (st : gcb_store) (a : gcb_store * gcb_marked) : Prop :=
  gcb_srelR gcb_wrel st (fst a) /\ gcb_marks_in (fst a) (snd a).

Lemma gcb_item_gc_total : forall fuel st mk i pgc, gcb_safe fuel st i = true -> gcb_marks_in st mk ->
  exists st' mk', gcb_item_gc fuel st mk i pgc = adl_ok (st', mk') /\ gcb_marks_in st' mk'.
Proof.
  induction fuel as [|f IH]; intros st mk i pgc Hs Hm; cbn [gcb_safe] in Hs; [discriminate|].
  destruct (gcb_get_item st i) as [[pos c]|] eqn:Eg; [|discriminate].
  assert (Hchild : forall a x, gcb_safe f st x = true -> gcb_pinv st a ->
            exists a', gcb_item_gc f (fst a) (snd a) x true = adl_ok a' /\ gcb_pinv st a').
  { intros a x Hx [Ha1 Ha2]. destruct (IH (fst a) (snd a) x true (gcb_safe_mono _ _ _ _ Ha1 Hx) Ha2) as (s1 & m1 & E & Hm1).
    exists (s1, m1). split; [exact E|]. split; [|exact Hm1]. cbn [fst].
    exact (gcb_wrel_srel_trans _ _ _ Ha1 (gcb_item_gc_rel _ _ _ _ _ _ _ E)). }
  assert (H0 : gcb_pinv st (st, mk)) by (split; [apply gcb_srelR_refl; exact gcb_wrel_refl|exact Hm]).
  (* the children *)
  assert (HX : exists acc,
     (if gcb_is_type c then
        match gcb_branch_of (gcb_branches st) i with
        | None => adl_ok (st, mk)
        | Some br =>
          adl_bind (adl_fold (fun (acc : gcb_store * gcb_marked) (ch : id) => gcb_item_gc f (fst acc) (snd acc) ch true)
                             (gcb_seq br) (st, mk)) (fun acc1 =>
          adl_bind (adl_fold (fun acc kv => adl_fold (fun (acc : gcb_store * gcb_marked) (ch : id) =>
                                                        gcb_item_gc f (fst acc) (snd acc) ch true) (snd kv) acc)
                             (gcb_map br) acc1) (fun acc2 =>
          adl_ok (gcb_mkstore (gcb_clients (fst acc2)) (gcb_clear_branch (gcb_branches (fst acc2)) i), snd acc2)))
        end
      else adl_ok (st, mk)) = adl_ok acc /\ gcb_marks_in (fst acc) (snd acc)
      /\ gcb_crelL gcb_sigrel (gcb_clients st) (gcb_clients (fst acc))).
  { assert (Hrefl : gcb_crelL gcb_sigrel (gcb_clients st) (gcb_clients st)).
    { apply gcb_F2_refl. intros x. split; [reflexivity|]. apply gcb_F2_refl. intros y. reflexivity. }
    destruct (gcb_is_type c); [|exists (st, mk); auto].
    destruct (gcb_branch_of (gcb_branches st) i) as [br|]; [|exists (st, mk); auto].
    assert (Hall : forall x, In x (gcb_seq br ++ flat_map snd (gcb_map br)) -> gcb_safe f st x = true)
      by (exact (proj1 (forallb_forall _ _) Hs)).
    destruct (gcb_fold_total _ _ (gcb_pinv st)
                (fun acc ch => gcb_item_gc f (fst acc) (snd acc) ch true) (gcb_seq br)) with (a := (st, mk)) as (acc1 & E1 & I1).
    { intros a x Hx Ha. apply Hchild; [|exact Ha]. apply Hall. apply in_or_app. left. exact Hx. }
    { exact H0. }
    rewrite E1. cbn [adl_bind].
    destruct (gcb_fold_total _ _ (gcb_pinv st)
                (fun acc kv => adl_fold (fun acc ch => gcb_item_gc f (fst acc) (snd acc) ch true) (snd kv) acc)
                (gcb_map br)) with (a := acc1) as (acc2 & E2 & I2).
    { intros a kv Hkv Ha. apply gcb_fold_total; [|exact Ha]. intros a0 x Hx Ha0. apply Hchild; [|exact Ha0].
      apply Hall. apply in_or_app. right. apply in_flat_map. exists kv. split; assumption. }
    { exact I1. }
    rewrite E2. cbn [adl_bind]. eexists. split; [reflexivity|]. cbn [fst snd gcb_clients]. destruct I2 as [J1 J2]. split.
    - intros x Hx. destruct (J2 x Hx) as (bl & p & G1 & G2). exists bl, p. auto.
    - exact (gcb_wsrel_sigrel _ _ J1). }
  destruct HX as (acc & EX & Hmacc & Hsig).
  cbn [gcb_item_gc]. rewrite Eg.
  destruct (gcb_del c && (pgc || negb (gcb_keep c))) eqn:Ec; [|exists st, mk; auto].
  rewrite EX. cbn [adl_bind].
  destruct pgc.
  - eexists _, _. split; [reflexivity|]. intros x Hx. apply gcb_marked_ids_mark in Hx. destruct Hx as [->|Hx]; [|exact (Hmacc x Hx)].
    exact (gcb_has_clock_fwd _ _ _ Hsig (gcb_get_item_has_clock _ _ _ _ Eg)).
  - eexists _, _. split; [reflexivity|].
    assert (Hfull : gcb_item_gc (S f) st mk i false = adl_ok (gcb_map_at (fst acc) (cl i) pos gcb_wipe, snd acc)).
    { cbn [gcb_item_gc]. rewrite Eg, Ec, EX. reflexivity. }
    pose proof (gcb_wsrel_sigrel _ _ (gcb_item_gc_rel _ _ _ _ _ _ _ Hfull)) as Hsig2.
    apply (gcb_marks_in_fwd st _ _ Hsig2). exact (gcb_marks_in_back _ _ _ Hsig Hmacc).
Qed.

Definition gcb_sum_len (l : list gcb_cell) : N := fold_right (fun c n => block_len (gcb_blk c) + n) 0 l.
Lemma gcb_sum_len_wrel : forall l l', Forall2 gcb_wrel l l' -> gcb_sum_len l' = gcb_sum_len l.
Proof.
  intros l l' H. induction H as [|c c' r r' Hc H IH]; [reflexivity|].
  change (gcb_sum_len (c' :: r')) with (block_len (gcb_blk c') + gcb_sum_len r').
  change (gcb_sum_len (c :: r)) with (block_len (gcb_blk c) + gcb_sum_len r).
  rewrite IH. destruct (gcb_wrel_len_id _ _ Hc) as [-> _]. reflexivity.
Qed.
Lemma gcb_sum_len_skipn : forall l n, gcb_sum_len (skipn n l) <= gcb_sum_len l.
Proof.
  induction l as [|c r IH]; intros [|n]; cbn [skipn gcb_sum_len fold_right]; try lia.
  specialize (IH n). unfold gcb_sum_len in IH. lia.
Qed.
Lemma gcb_adl_end_sum : forall l a, adl_end a (map gcb_abs l) = a + gcb_sum_len l.
Proof.
  induction l as [|c r IH]; intros a; cbn [map adl_end gcb_sum_len fold_right]; [lia|].
  rewrite IH. change (adl_blen (gcb_abs c)) with (block_len (gcb_blk c)). unfold gcb_sum_len. lia.
Qed.

Definition gcb_minv (st0 : gcb_store) (s : gcb_mstate) : Prop :=
  gcb_srelR gcb_wrel st0 (fst (fst s)) /\ gcb_marks_in (fst (fst s)) (snd (fst s)).

Lemma gcb_walk_total : forall fuel g client push st0 st mk mb start e i bl,
  gcb_all_safe g st0 = true -> gcb_minv st0 (st, mk, mb) ->
  gcb_get_client (gcb_clients st) client = Some bl -> (length bl - i < fuel)%nat ->
  start + gcb_sum_len (skipn i bl) <= adl_u32_max ->
  exists s', gcb_walk fuel g client push (st, mk, mb) start e i = adl_ok s' /\ gcb_minv st0 s'.
Proof.
  induction fuel as [|f IH]; intros g client push st0 st mk mb start e i bl Ha Hi Hg Hf Hb; [lia|].
  cbn [gcb_walk]. rewrite Hg. destruct (Nat.ltb i (length bl)) eqn:El; [|eauto].
  apply Nat.ltb_lt in El. destruct (nth_error bl i) as [c|] eqn:En; [|apply nth_error_None in En; lia].
  rewrite (gcb_skipn_nth _ _ _ _ En) in Hb. cbn [gcb_sum_len fold_right] in Hb. fold (gcb_sum_len (skipn (S i) bl)) in Hb.
  rewrite adl_add32_ok by lia. cbn [adl_bind].
  destruct (e <? start + block_len (gcb_blk c)); [eauto|].
  destruct (gcb_blk c) as [it o ro p ps ct| |] eqn:Eb.
  - destruct Hi as [H1 H2]. cbn [fst snd] in H1, H2.
    destruct (gcb_item_gc_total g st mk it false (gcb_all_safe_cell _ _ _ _ _ _ _ _ _ _ _ _ _ Ha H1 Hg En Eb) H2) as (st1 & mk1 & E & Hm1).
    rewrite E. cbn [adl_bind fst snd]. pose proof (gcb_item_gc_rel _ _ _ _ _ _ _ E) as HR.
    destruct (gcb_get_client_rel _ _ _ _ _ (proj1 HR) Hg) as (bl1 & Hg1 & HF).
    apply (IH g client push st0 st1 mk1 _ _ e (S i) bl1 Ha); [split; [exact (gcb_wrel_srel_trans _ _ _ H1 HR)|exact Hm1]|exact Hg1| |].
    + rewrite <- (gcb_F2_length _ _ _ _ _ HF). lia.
    + rewrite (gcb_sum_len_wrel _ _ (gcb_F2_skipn _ _ _ (S i) _ _ HF)). lia.
  - apply (IH g client push st0 st mk mb _ e (S i) bl Ha Hi Hg); lia.
  - apply (IH g client push st0 st mk mb _ e (S i) bl Ha Hi Hg); lia.
Qed.

Lemma gcb_abs_sigrel : forall l l', Forall2 gcb_sigrel l l' -> forall a,
  adl_contig a (map gcb_abs l') = adl_contig a (map gcb_abs l) /\ adl_end a (map gcb_abs l') = adl_end a (map gcb_abs l).
Proof.
  intros l l' H. induction H as [|c c' r r' Hc H IH]; intros a; [split; reflexivity|]. cbn [map adl_contig adl_end].
  destruct (gcb_sig_fields _ _ Hc) as (E1 & E2 & _).
  change (adl_bclock (gcb_abs c')) with (mrg_clock (gcb_blk c')). change (adl_blen (gcb_abs c')) with (block_len (gcb_blk c')).
  change (adl_bclock (gcb_abs c)) with (mrg_clock (gcb_blk c)). change (adl_blen (gcb_abs c)) with (block_len (gcb_blk c)).
  rewrite E1, E2. destruct (IH (a + block_len (gcb_blk c))) as [-> ->]. split; reflexivity.
Qed.

(* the list of a client in a store reached from a store with good lists is good *)
Lemma gcb_lists_ok_cur : forall st0 st client bl, gcb_lists_ok st0 = true ->
  gcb_crelL gcb_sigrel (gcb_clients st0) (gcb_clients st) -> gcb_get_client (gcb_clients st) client = Some bl ->
  adl_contig 0 (map gcb_abs bl) = true /\ adl_end 0 (map gcb_abs bl) <= adl_u32_max
  /\ adl_end 0 (map gcb_abs bl) + adl_end 0 (map gcb_abs bl) <= adl_u32_max.
Proof.
  intros st0 st client bl Hl HS Hg. destruct (gcb_get_client_rel_back _ _ _ _ _ HS Hg) as (bl0 & Hg0 & HF).
  pose proof (proj1 (forallb_forall _ _) Hl _ (gcb_get_client_in _ _ _ Hg0)) as H. cbn [snd] in H.
  apply andb_true_iff in H. destruct H as [H1 H2]. unfold adl_wf_blist in H1. apply andb_true_iff in H1. destruct H1 as [H1 H3].
  apply N.leb_le in H2. apply N.leb_le in H3. destruct (gcb_abs_sigrel _ _ HF 0) as [-> ->]. auto.
Qed.

Lemma gcb_mark_range_total : forall g client push st0 s e, gcb_lists_ok st0 = true -> gcb_all_safe g st0 = true ->
  gcb_minv st0 s -> exists s', gcb_mark_range g client push s e = adl_ok s' /\ gcb_minv st0 s'.
Proof.
  intros g client push st0 [[st mk] mb] e Hl Ha Hi. unfold gcb_mark_range. cbn [fst snd].
  destruct (gcb_get_client (gcb_clients st) client) as [bl|] eqn:Hg; [|eauto].
  destruct (gcb_lists_ok_cur st0 st client bl Hl (gcb_wsrel_sigrel _ _ (proj1 Hi)) Hg) as (W1 & W2 & W3).
  rewrite (adl_list_clock_ok _ W1 W2). cbn [adl_bind].
  destruct (adl_end 0 (map gcb_abs bl) <=? e_start e) eqn:Eg; [eauto|]. apply N.leb_gt in Eg.
  destruct (adl_contig_cover (map gcb_abs bl) 0 (e_start e) W1 ltac:(lia)) as (pre & b & r & Ebl & Hk).
  unfold gcb_find_index. rewrite (adl_find_index_ok _ (e_start e) pre b r W1 W2 Ebl Hk). cbn [adl_bind].
  apply (gcb_walk_total _ g client push st0 st mk mb _ _ _ bl Ha Hi Hg); [lia|].
  pose proof (gcb_sum_len_skipn bl (length pre)). rewrite gcb_adl_end_sum in W3, Eg. lia.
Qed.

Lemma gcb_mark_in_scope_total : forall g push st0 s ds, gcb_lists_ok st0 = true -> gcb_all_safe g st0 = true ->
  gcb_minv st0 s -> exists s', gcb_mark_in_scope g push s ds = adl_ok s' /\ gcb_minv st0 s'.
Proof.
  intros g push st0 s ds Hl Ha Hi. unfold gcb_mark_in_scope. apply gcb_fold_total; [|exact Hi].
  intros a cr _ Hia. unfold gcb_mark_client. destruct (gcb_get_client (gcb_clients (fst (fst a))) (fst cr)); [|eauto].
  apply gcb_fold_total; [|exact Hia]. intros a0 x _ Hia0. apply gcb_mark_range_total; assumption.
Qed.

Lemma gcb_mark_all_list_total : forall g client st0 n s i bl, gcb_all_safe g st0 = true -> gcb_minv st0 s ->
  gcb_get_client (gcb_clients (fst (fst s))) client = Some bl -> (i + n <= length bl)%nat ->
  exists s', gcb_mark_all_list g client s n i = adl_ok s' /\ gcb_minv st0 s'.
Proof.
  induction n as [|m IH]; intros [[st mk] mb] i bl Ha Hi Hg Hn; cbn [gcb_mark_all_list]; [eauto|]. cbn [fst snd] in Hg.
  rewrite Hg. destruct (nth_error bl i) as [c|] eqn:En; [|apply nth_error_None in En; lia].
  destruct (gcb_blk c) as [it o ro p ps ct| |] eqn:Eb; try (apply (IH _ (S i) bl Ha Hi Hg); lia).
  destruct (gcb_del c); [|apply (IH _ (S i) bl Ha Hi Hg); lia].
  destruct Hi as [H1 H2]. cbn [fst snd] in H1, H2.
  destruct (gcb_item_gc_total g st mk it false (gcb_all_safe_cell _ _ _ _ _ _ _ _ _ _ _ _ _ Ha H1 Hg En Eb) H2) as (st1 & mk1 & E & Hm1).
  rewrite E. cbn [adl_bind fst snd]. pose proof (gcb_item_gc_rel _ _ _ _ _ _ _ E) as HR.
  destruct (gcb_get_client_rel _ _ _ _ _ (proj1 HR) Hg) as (bl1 & Hg1 & HF).
  apply (IH _ (S i) bl1 Ha); [split; [exact (gcb_wrel_srel_trans _ _ _ H1 HR)|exact Hm1]|exact Hg1|].
  rewrite <- (gcb_F2_length _ _ _ _ _ HF). lia.
Qed.

Lemma gcb_mark_all_total : forall g st0, gcb_keys_ok st0 = true -> gcb_all_safe g st0 = true ->
  exists s', gcb_mark_all g (st0, [], []) = adl_ok s' /\ gcb_minv st0 s'.
Proof.
  intros g st0 Hk Ha. unfold gcb_mark_all. cbn [fst snd]. apply gcb_fold_total.
  - intros a cb Hcb Hia. pose proof (proj1 (forallb_forall _ _) Hk _ Hcb) as H. cbn beta in H.
    destruct (gcb_get_client (gcb_clients st0) (fst cb)) as [bl0|] eqn:Hg0; [|discriminate]. apply Nat.eqb_eq in H.
    destruct (gcb_get_client_rel _ _ _ _ _ (proj1 (proj1 Hia)) Hg0) as (bl & Hg & HF).
    apply (gcb_mark_all_list_total g (fst cb) st0 _ a O bl Ha Hia Hg). rewrite <- (gcb_F2_length _ _ _ _ _ HF). lia.
  - split; [apply gcb_srelR_refl; exact gcb_wrel_refl|]. intros i [].
Qed.

(* ---- the collect phase finds every marked clock ---- *)
Lemma gcb_find_pos_nth : forall l k pos, gcb_find_pos l k = Some pos ->
  exists c, nth_error l pos = Some c /\ mrg_clock (gcb_blk c) = k.
Proof.
  induction l as [|x r IH]; intros k pos H; cbn [gcb_find_pos] in H; [discriminate|].
  destruct (mrg_clock (gcb_blk x) =? k) eqn:E.
  - inversion H; subst. exists x. split; [reflexivity|apply N.eqb_eq; exact E].
  - destruct (gcb_find_pos r k) as [n|] eqn:Ef; [|discriminate]. inversion H; subst. exact (IH k n Ef).
Qed.

Lemma gcb_find_index_clock : forall bl k pos, adl_contig 0 (map gcb_abs bl) = true -> adl_end 0 (map gcb_abs bl) <= adl_u32_max ->
  gcb_find_pos bl k = Some pos -> gcb_find_index bl k = adl_ok (Some pos) /\ exists c, nth_error bl pos = Some c.
Proof.
  intros bl k pos W1 W2 Hf. destruct (gcb_find_pos_nth _ _ _ Hf) as (c & Hn & Hc). split; [|eauto].
  destruct (nth_error_split bl pos Hn) as (pre & r & E & Hlen). subst pos.
  apply (gcb_find_index_ok bl pre c r k); [unfold adl_wf_blist; rewrite W1; apply N.leb_le in W2; rewrite W2; reflexivity|exact E|].
  assert (Hin : In (gcb_abs c) (map gcb_abs bl)) by (apply in_map; rewrite E; apply in_or_app; right; left; reflexivity).
  destruct (adl_contig_in _ _ _ W1 Hin) as (_ & _ & Q). change (adl_blen (gcb_abs c)) with (block_len (gcb_blk c)) in Q.
  unfold mrg_end. lia.
Qed.

Definition gcb_cinv (st0 stm : gcb_store) (a : gcb_store * bool) : Prop := gcb_srel stm (fst a) /\ snd a = true.

Lemma gcb_collect_marked_chk_total : forall st0 stm mk, gcb_lists_ok st0 = true ->
  gcb_crelL gcb_sigrel (gcb_clients st0) (gcb_clients stm) -> gcb_marks_in stm mk ->
  exists st', gcb_collect_marked_chk stm mk = adl_ok (st', true) /\ gcb_srel stm st'.
Proof.
  intros st0 stm mk Hl HS Hm. unfold gcb_collect_marked_chk.
  destruct (gcb_fold_total _ _ (gcb_cinv st0 stm)
              (fun acc ce => adl_fold (gcb_collect_clock (fst ce)) (snd ce) acc) mk) with (a := (stm, true)) as ([st' fl] & E & I1 & I2).
  - intros a ce Hce Ha. apply gcb_fold_total; [|exact Ha]. intros [st fl] k Hk [J1 J2]. cbn [fst snd] in *. subst fl.
    assert (Hin : In (mkid (fst ce) k) (gcb_marked_ids mk)).
    { unfold gcb_marked_ids. apply in_flat_map. exists ce. split; [exact Hce|]. apply in_map. exact Hk. }
    pose proof (gcb_srel_sigrel _ _ J1) as Hsig.
    destruct (gcb_has_clock_fwd _ _ _ Hsig (Hm _ Hin)) as (bl & pos & Hg & Hf). cbn [cl ck] in Hg, Hf.
    assert (HS2 : gcb_crelL gcb_sigrel (gcb_clients st0) (gcb_clients st)).
    { refine (gcb_crelL_trans gcb_sigrel gcb_sigrel gcb_sigrel _ _ _ _ HS Hsig). intros x y z H1 H2. unfold gcb_sigrel in *. congruence. }
    destruct (gcb_lists_ok_cur st0 st (fst ce) bl Hl HS2 Hg) as (W1 & W2 & _).
    destruct (gcb_find_index_clock bl k pos W1 W2 Hf) as (Efi & c & Hn).
    unfold gcb_collect_clock. cbn [fst snd]. rewrite Hg, Efi. cbn [adl_bind]. rewrite Hn.
    destruct (gcb_is_item c && gcb_del c) eqn:Ec.
    + eexists. split; [reflexivity|]. split; [|reflexivity]. cbn [fst]. apply (gcb_srel_trans _ _ _ J1).
      apply gcb_map_at_rel; [exact gcb_crel_refl|]. intros bl' x Hg' Hn'. rewrite Hg in Hg'. inversion Hg'; subst bl'.
      rewrite Hn in Hn'. inversion Hn'; subst x. apply andb_true_iff in Ec. destruct Ec. right. auto.
    + eexists. split; [reflexivity|]. split; [exact J1|reflexivity].
  - split; [apply gcb_srelR_refl; exact gcb_crel_refl|reflexivity].
  - cbn [fst snd] in *. subst fl. exists st'. split; [exact E|exact I1].
Qed.

(* Theorem (A).  The repaired collector returns on every well-formed store, whatever the delete set: ranges beyond the
   store, inside holes (Skip blocks), beginning or ending inside blocks, unknown clients.  [gcb_total_ok]:
   every list contiguous from clock 0 with positive lengths, twice its end within u32 (gcb_lists_ok); clients are
   keys (gcb_keys_ok); every pointer of a branch leads to an Item cell and the nesting below every item is at most
   1 + number of cells deep (gcb_all_safe: sound pointers and acyclic parents, the fuel given by the entry points). *)
Theorem gcb_collect_all_total : forall st ods, gcb_total_ok st = true -> exists r, gcb_collect_all st ods = adl_ok r.
Proof.
  intros st ods H. unfold gcb_total_ok in H. apply andb_true_iff in H. destruct H as [H Ha]. apply andb_true_iff in H. destruct H as [Hl Hk].
  assert (Hm : exists s, gcb_marks_of st ods = adl_ok s /\ gcb_minv st s).
  { destruct ods as [ds|]; cbn [gcb_marks_of].
    - apply gcb_mark_in_scope_total; [exact Hl|exact Ha|]. split; [apply gcb_srelR_refl; exact gcb_wrel_refl|intros i []].
    - apply gcb_mark_all_total; assumption. }
  destruct Hm as (s & Em & H1 & H2). unfold gcb_collect_all. fold (gcb_marks_of st ods). rewrite Em. cbn [adl_bind].
  destruct (gcb_collect_marked_chk_total st _ _ Hl (gcb_wsrel_sigrel _ _ H1) H2) as (st' & Ec & _).
  unfold gcb_collect_marked. rewrite Ec. cbn [adl_bind fst]. eauto.
Qed.
Print Assumptions gcb_collect_all_total.

(* Theorem 5, second half.  On such stores collect_marked finds every clock the mark phase recorded: the
   `if let Some(index) = client.find_index(clock)` of collect_marked never skips. *)
Theorem gcb_marked_are_found : forall st ods, gcb_total_ok st = true ->
  exists s st', gcb_marks_of st ods = adl_ok s /\ gcb_collect_marked_chk (fst (fst s)) (snd (fst s)) = adl_ok (st', true).
Proof.
  intros st ods H. unfold gcb_total_ok in H. apply andb_true_iff in H. destruct H as [H Ha]. apply andb_true_iff in H. destruct H as [Hl Hk].
  assert (Hm : exists s, gcb_marks_of st ods = adl_ok s /\ gcb_minv st s).
  { destruct ods as [ds|]; cbn [gcb_marks_of].
    - apply gcb_mark_in_scope_total; [exact Hl|exact Ha|]. split; [apply gcb_srelR_refl; exact gcb_wrel_refl|intros i []].
    - apply gcb_mark_all_total; assumption. }
  destruct Hm as (s & Em & H1 & H2).
  destruct (gcb_collect_marked_chk_total st _ _ Hl (gcb_wsrel_sigrel _ _ H1) H2) as (st' & Ec & _). eauto.
Qed.
Print Assumptions gcb_marked_are_found.

(* `start += len` can overflow u32 when a range begins inside a block of a list that ends near 2^32: the second
   conjunct of gcb_lists_ok is needed (a build with overflow checks panics; a release build wraps) *)
Definition gcb_w3_store : gcb_store :=
  gcb_mkstore [(1, [gcb_w_str 1 0 [97; 98] true;
                    gcb_mkcell (BItem (mkid 1 2) None None (PNamed [116]) None (BDeleted 4294967293)) true false false])]
              [(PNamed [116], gcb_mkbranch [mkid 1 0; mkid 1 2] [])].
Theorem gcb_walk_overflow_refuted : exists st ds,
  gcb_wf st = true /\ gcb_keys_ok st = true /\ gcb_all_safe (gcb_gc_fuel st) st = true /\ gcb_lists_ok st = false
  /\ gcb_collect_all st (Some ds) = adl_panic.
Proof. exists gcb_w3_store, [(1, [(1, 4294967295, tt)])]. vm_compute. auto 6. Qed.
Print Assumptions gcb_walk_overflow_refuted.

(* ================================================================================================ *)
(* 10. Theorem 5, first half (partial): after a full collection nothing is left to do               *)
(* ================================================================================================ *)
Definition gcb_settled (c : gcb_cell) : Prop :=
  gcb_is_item c = true -> gcb_del c = true -> gcb_keep c = false -> gcb_wipe c = c.
Definition gcb_all_settled (st : gcb_store) : Prop :=
  forall client bl j c, gcb_get_client (gcb_clients st) client = Some bl -> nth_error bl j = Some c -> gcb_settled c.

Lemma gcb_settled_crel : forall c c', gcb_crel c c' -> gcb_settled c -> gcb_settled c'.
Proof.
  intros c c' [->|(H1 & H2 & [[H3 ->]| ->])] Hs; [exact Hs| |].
  - intros _ _ _. apply gcb_wipe_wipe.
  - intros Hi. rewrite (gcb_to_gc_not_item c H1) in Hi. discriminate.
Qed.
Lemma gcb_wipe_fixed_settled : forall c, gcb_settled (gcb_wipe c).
Proof. intros c _ _ _. apply gcb_wipe_wipe. Qed.

Lemma gcb_set_nth_same : forall (A : Type) (l : list A) pos x, nth_error l pos = Some x -> adl_set_nth l pos x = l.
Proof.
  intros A l. induction l as [|a r IH]; intros [|pos] x H; cbn in *; try discriminate; [inversion H; reflexivity|].
  unfold adl_set_nth in *. cbn [firstn skipn app]. f_equal. exact (IH pos x H).
Qed.
Lemma gcb_set_client_same : forall cs c bl, gcb_get_client cs c = Some bl -> gcb_set_client cs c bl = cs.
Proof.
  induction cs as [|[c' b'] r IH]; intros c bl H; cbn in *; [reflexivity|]. destruct (c' =? c); [inversion H; reflexivity|].
  f_equal. exact (IH c bl H).
Qed.
Lemma gcb_map_at_same : forall st c pos f bl x, gcb_get_client (gcb_clients st) c = Some bl -> nth_error bl pos = Some x ->
  f x = x -> gcb_map_at st c pos f = st.
Proof.
  intros st c pos f bl x Hg Hn Hf. unfold gcb_map_at. rewrite Hg, Hn, Hf, (gcb_set_nth_same _ _ _ _ Hn), (gcb_set_client_same _ _ _ Hg).
  destruct st; reflexivity.
Qed.

Lemma gcb_item_gc_settled_id : forall fuel st mk i st' mk', gcb_all_settled st ->
  gcb_item_gc fuel st mk i false = adl_ok (st', mk') -> st' = st /\ mk' = mk.
Proof.
  intros [|f] st mk i st' mk' Hs H; cbn [gcb_item_gc] in H; [discriminate|].
  destruct (gcb_get_item st i) as [[pos c]|] eqn:Eg; [|discriminate].
  destruct (gcb_get_item_inv _ _ _ _ Eg) as (bl & Hg & _ & Hn & Hi).
  destruct (gcb_del c && (false || negb (gcb_keep c))) eqn:Ec; [|inversion H; auto].
  apply andb_true_iff in Ec. destruct Ec as [Hd Hk]. cbn [orb] in Hk. apply negb_true_iff in Hk.
  pose proof (Hs _ _ _ _ Hg Hn Hi Hd Hk) as Hw.
  assert (Ht : gcb_is_type c = false) by (rewrite <- Hw; apply gcb_wipe_not_type).
  rewrite Ht in H. cbn [adl_bind fst snd] in H. inversion H; subst. split; [|reflexivity].
  exact (gcb_map_at_same _ _ _ _ _ _ Hg Hn Hw).
Qed.

Definition gcb_idrel (a a' : gcb_mstate) : Prop :=
  gcb_all_settled (fst (fst a)) -> fst (fst a') = fst (fst a) /\ snd (fst a') = snd (fst a).
Lemma gcb_idrel_refl : forall a, gcb_idrel a a.
Proof. intros a _. auto. Qed.
Lemma gcb_idrel_trans : forall a b c, gcb_idrel a b -> gcb_idrel b c -> gcb_idrel a c.
Proof. intros a b c H1 H2 Hs. destruct (H1 Hs) as [E1 E2]. rewrite <- E1 in Hs. destruct (H2 Hs) as [E3 E4]. split; congruence. Qed.

Lemma gcb_walk_idrel : forall fuel g client push s start e i s', gcb_walk fuel g client push s start e i = adl_ok s' -> gcb_idrel s s'.
Proof.
  induction fuel as [|f IH]; intros g client push [[st mk] mb] start e i s' H; cbn [gcb_walk] in H; [discriminate|].
  destruct (gcb_get_client (gcb_clients st) client) as [bl|]; [|discriminate].
  destruct (Nat.ltb i (length bl)); [|inversion H; subst; apply gcb_idrel_refl].
  destruct (nth_error bl i) as [c|]; [|discriminate].
  destruct (adl_add32 start (block_len (gcb_blk c))) as [start'|]; [|discriminate]. cbn [adl_bind] in H.
  destruct (e <? start'); [inversion H; subst; apply gcb_idrel_refl|].
  destruct (gcb_blk c) as [it o ro p ps ct| |]; try (exact (IH _ _ _ _ _ _ _ _ H)).
  destruct (gcb_item_gc g st mk it false) as [[st1 mk1]|] eqn:E; [|discriminate]. cbn [adl_bind fst snd] in H.
  apply (gcb_idrel_trans _ (st1, mk1, if push then mb ++ [it] else mb)); [|exact (IH _ _ _ _ _ _ _ _ H)].
  intros Hs. cbn [fst snd] in *. exact (gcb_item_gc_settled_id _ _ _ _ _ _ Hs E).
Qed.
Lemma gcb_mark_range_idrel : forall g client push s e s', gcb_mark_range g client push s e = adl_ok s' -> gcb_idrel s s'.
Proof.
  intros g client push s e s' H. unfold gcb_mark_range in H.
  destruct (gcb_get_client (gcb_clients (fst (fst s))) client) as [bl|]; [|inversion H; subst; apply gcb_idrel_refl].
  destruct (adl_list_clock (map gcb_abs bl)) as [clk|]; cbn [adl_bind] in H; [|discriminate].
  destruct (clk <=? e_start e); [inversion H; subst; apply gcb_idrel_refl|].
  destruct (gcb_find_index bl (e_start e)) as [[i|]|]; cbn [adl_bind] in H; try discriminate.
  - exact (gcb_walk_idrel _ _ _ _ _ _ _ _ _ H).
  - inversion H; subst. apply gcb_idrel_refl.
Qed.
Lemma gcb_mark_in_scope_idrel : forall g push s ds s', gcb_mark_in_scope g push s ds = adl_ok s' -> gcb_idrel s s'.
Proof.
  intros g push s ds s' H. unfold gcb_mark_in_scope in H.
  refine (gcb_fold_inv _ _ gcb_idrel _ _ gcb_idrel_refl gcb_idrel_trans _ _ _ H). intros a cr a' _ Hc.
  unfold gcb_mark_client in Hc. destruct (gcb_get_client (gcb_clients (fst (fst a))) (fst cr)); [|inversion Hc; subst; apply gcb_idrel_refl].
  refine (gcb_fold_inv _ _ gcb_idrel _ _ gcb_idrel_refl gcb_idrel_trans _ _ _ Hc). intros a0 x a0' _. apply gcb_mark_range_idrel.
Qed.
Lemma gcb_mark_all_list_idrel : forall g client n s i s', gcb_mark_all_list g client s n i = adl_ok s' -> gcb_idrel s s'.
Proof.
  induction n as [|m IH]; intros [[st mk] mb] i s' H; cbn [gcb_mark_all_list] in H; [inversion H; subst; apply gcb_idrel_refl|].
  destruct (gcb_get_client (gcb_clients st) client) as [bl|]; [|discriminate].
  destruct (nth_error bl i) as [c|]; [|discriminate].
  destruct (gcb_blk c) as [it o ro p ps ct| |]; try (exact (IH _ _ _ H)).
  destruct (gcb_del c); [|exact (IH _ _ _ H)].
  destruct (gcb_item_gc g st mk it false) as [[st1 mk1]|] eqn:E; [|discriminate]. cbn [adl_bind fst snd] in H.
  apply (gcb_idrel_trans _ (st1, mk1, mb ++ [it])); [|exact (IH _ _ _ H)].
  intros Hs. cbn [fst snd] in *. exact (gcb_item_gc_settled_id _ _ _ _ _ _ Hs E).
Qed.
Lemma gcb_marks_of_idrel : forall st ods s, gcb_all_settled st -> gcb_marks_of st ods = adl_ok s ->
  fst (fst s) = st /\ snd (fst s) = [].
Proof.
  intros st [ds|] s Hs H; cbn [gcb_marks_of] in H.
  - exact (gcb_mark_in_scope_idrel _ _ _ _ _ H Hs).
  - unfold gcb_mark_all in H. refine (gcb_fold_inv _ _ gcb_idrel _ _ gcb_idrel_refl gcb_idrel_trans _ _ _ H Hs).
    intros a x a' _. apply gcb_mark_all_list_idrel.
Qed.

(* on a store where every deleted, not kept item already has content Deleted, a run of the collector - whatever
   its argument - changes nothing and marks nothing *)
Theorem gcb_collect_all_settled_id : forall st ods st' mb, gcb_all_settled st ->
  gcb_collect_all st ods = adl_ok (st', mb) -> st' = st.
Proof.
  intros st ods st' mb Hs H. unfold gcb_collect_all in H. fold (gcb_marks_of st ods) in H.
  destruct (gcb_marks_of st ods) as [s|] eqn:Em; [|discriminate]. cbn [adl_bind] in H.
  destruct (gcb_marks_of_idrel _ _ _ Hs Em) as [E1 E2]. rewrite E1, E2 in H. cbn in H. inversion H. reflexivity.
Qed.
Print Assumptions gcb_collect_all_settled_id.

(* ---- after collect_all(None) every cell is settled ---- *)
Lemma gcb_find_pos_contig : forall l a j c, adl_contig a (map gcb_abs l) = true -> nth_error l j = Some c ->
  gcb_find_pos l (mrg_clock (gcb_blk c)) = Some j.
Proof.
  induction l as [|x r IH]; intros a j c Hc Hn; [destruct j; discriminate|]. cbn [map] in Hc.
  apply adl_contig_cons in Hc. destruct Hc as (H1 & H2 & H3). cbn [gcb_find_pos]. destruct j as [|j]; cbn [nth_error] in Hn.
  - inversion Hn; subst. rewrite N.eqb_refl. reflexivity.
  - assert (Hin : In (gcb_abs c) (map gcb_abs r)) by (apply in_map; exact (nth_error_In _ _ Hn)).
    destruct (adl_contig_in _ _ _ H3 Hin) as (Q & _).
    change (adl_bclock (gcb_abs c)) with (mrg_clock (gcb_blk c)) in Q. change (adl_bclock (gcb_abs x)) with (mrg_clock (gcb_blk x)) in H1.
    destruct (mrg_clock (gcb_blk x) =? mrg_clock (gcb_blk c)) eqn:E; [apply N.eqb_eq in E; lia|].
    rewrite (IH _ j c H3 Hn). reflexivity.
Qed.

Lemma gcb_get_set_client : forall cs c bl bl', gcb_get_client cs c = Some bl -> gcb_get_client (gcb_set_client cs c bl') c = Some bl'.
Proof.
  induction cs as [|[c' b'] r IH]; intros c bl bl' H; cbn in *; [discriminate|]. destruct (c' =? c) eqn:E; cbn; rewrite E; [reflexivity|].
  exact (IH c bl bl' H).
Qed.
Lemma gcb_nth_set_nth : forall (A : Type) (l : list A) pos x y, nth_error l pos = Some x -> nth_error (adl_set_nth l pos y) pos = Some y.
Proof.
  intros A l. induction l as [|a r IH]; intros [|pos] x y H; cbn in *; try discriminate; [reflexivity|].
  unfold adl_set_nth in *. cbn [firstn skipn app nth_error]. exact (IH pos x y H).
Qed.

Lemma gcb_item_gc_settles : forall fuel st mk it st' mk' pos c,
  gcb_item_gc fuel st mk it false = adl_ok (st', mk') -> gcb_get_item st it = Some (pos, c) ->
  exists bl' c', gcb_get_client (gcb_clients st') (cl it) = Some bl' /\ nth_error bl' pos = Some c' /\ gcb_settled c'.
Proof.
  intros [|f] st mk it st' mk' pos c H Eg; [discriminate|].
  destruct (gcb_get_item_inv _ _ _ _ Eg) as (bl & Hg & _ & Hn & Hi).
  pose proof H as H0. cbn [gcb_item_gc] in H. rewrite Eg in H.
  destruct (gcb_del c) eqn:Hd; cbn [andb orb] in H.
  - destruct (gcb_keep c) eqn:Hk; cbn [negb] in H.
    + inversion H; subst. exists bl, c. repeat split; try assumption. intros _ _ Q. congruence.
    + match type of H with adl_bind ?X _ = _ => destruct X as [acc|] eqn:EX; [|discriminate] end. cbn [adl_bind] in H.
      inversion H; subst. clear H.
      assert (HT : gcb_item_gc (S f) st mk it true = adl_ok (fst acc, gcb_mark (snd acc) it)).
      { cbn [gcb_item_gc]. rewrite Eg, Hd. cbn [andb orb]. rewrite EX. reflexivity. }
      destruct (gcb_get_client_rel _ _ _ _ _ (proj1 (gcb_item_gc_rel _ _ _ _ _ _ _ HT)) Hg) as (bl2 & Hg2 & HF).
      destruct (gcb_F2_nth _ _ _ _ _ _ _ HF Hn) as (x & Hx & _).
      exists (adl_set_nth bl2 pos (gcb_wipe x)), (gcb_wipe x). unfold gcb_map_at. rewrite Hg2, Hx. cbn [gcb_clients].
      repeat split; [exact (gcb_get_set_client _ _ _ _ Hg2)|exact (gcb_nth_set_nth _ _ _ _ _ Hx)|apply gcb_wipe_fixed_settled].
  - inversion H; subst. exists bl, c. repeat split; try assumption. intros _ Q. congruence.
Qed.

Definition gcb_settled_range (st : gcb_store) (client : N) (lo hi : nat) : Prop :=
  forall bl j c, gcb_get_client (gcb_clients st) client = Some bl -> (lo <= j < hi)%nat -> nth_error bl j = Some c -> gcb_settled c.

Lemma gcb_settled_range_srel : forall st st' client lo hi, gcb_srel st st' ->
  gcb_settled_range st client lo hi -> gcb_settled_range st' client lo hi.
Proof.
  intros st st' client lo hi [HC _] H bl' j c' Hg' Hj Hn'.
  destruct (gcb_get_client_rel_back _ _ _ _ _ HC Hg') as (bl & Hg & HF).
  destruct (gcb_F2_nth_back _ _ _ _ _ _ _ HF Hn') as (c & Hn & Hc). exact (gcb_settled_crel _ _ Hc (H bl j c Hg Hj Hn)).
Qed.

Lemma gcb_mark_all_list_settles : forall g client n s i s' bl,
  gcb_mark_all_list g client s n i = adl_ok s' ->
  gcb_get_client (gcb_clients (fst (fst s))) client = Some bl -> adl_contig 0 (map gcb_abs bl) = true ->
  (forall c, In c bl -> mrg_client (gcb_blk c) = client) ->
  gcb_settled_range (fst (fst s')) client i (i + n).
Proof.
  induction n as [|m IH]; intros [[st mk] mb] i s' bl H Hg Hc Hid; [intros bl' j c _ Hj; lia|].
  pose proof (gcb_mark_all_list_rel _ _ _ _ _ _ H) as Hall. cbn [gcb_mark_all_list] in H. cbn [fst snd] in *. rewrite Hg in H.
  destruct (nth_error bl i) as [c|] eqn:En; [|discriminate].
  assert (Hsplit : forall st1 mk1 mb1, gcb_mark_all_list g client (st1, mk1, mb1) m (S i) = adl_ok s' ->
            gcb_srelR gcb_wrel st st1 ->
            (exists bl1 c1, gcb_get_client (gcb_clients st1) client = Some bl1 /\ nth_error bl1 i = Some c1 /\ gcb_settled c1) ->
            gcb_settled_range (fst (fst s')) client i (i + S m)).
  { intros st1 mk1 mb1 H1 HR (bl1 & c1 & Hg1 & Hn1 & Hs1) bl' j c' Hg' Hj Hn'.
    destruct (gcb_get_client_rel _ _ _ _ _ (proj1 HR) Hg) as (bl1' & Hg1' & HF). rewrite Hg1 in Hg1'. inversion Hg1'; subst bl1'.
    destruct (Nat.eq_dec j i) as [->|Hne].
    - pose proof (gcb_wrel_srel _ _ (gcb_mark_all_list_rel _ _ _ _ _ _ H1)) as HS. cbn [fst] in HS.
      assert (R : gcb_settled_range st1 client i (S i)).
      { intros b0 j0 c0 G0 J0 N0. assert (j0 = i) by lia. subst j0. rewrite Hg1 in G0. inversion G0; subst b0. rewrite Hn1 in N0. inversion N0; subst. exact Hs1. }
      exact (gcb_settled_range_srel _ _ _ _ _ HS R bl' i c' Hg' ltac:(lia) Hn').
    - assert (Hsig : map gcb_sig bl1 = map gcb_sig bl).
      { apply gcb_crel_map_sig. revert HF. apply gcb_F2_impl. exact gcb_wrel_crel. }
      refine (IH (st1, mk1, mb1) (S i) s' bl1 H1 Hg1 _ _ bl' j c' Hg' ltac:(lia) Hn').
      + assert (HF' : Forall2 gcb_sigrel bl bl1) by (revert HF; apply gcb_F2_impl; intros x y Hxy; apply gcb_crel_sig; apply gcb_wrel_crel; exact Hxy).
        rewrite (proj1 (gcb_abs_sigrel _ _ HF' 0)). exact Hc.
      + intros x Hx. destruct (In_nth_error _ _ Hx) as (k & Hk). destruct (gcb_F2_nth_back _ _ _ _ _ _ _ HF Hk) as (x0 & Hk0 & Hx0).
        destruct (gcb_sig_fields _ _ (gcb_crel_sig _ _ (gcb_wrel_crel _ _ Hx0))) as (_ & _ & _ & _ & _ & ->).
        exact (Hid x0 (nth_error_In _ _ Hk0)). }
  assert (Htriv : gcb_settled c -> gcb_mark_all_list g client (st, mk, mb) m (S i) = adl_ok s' ->
            gcb_settled_range (fst (fst s')) client i (i + S m)).
  { intros Hs H1. apply (Hsplit st mk mb H1); [apply gcb_srelR_refl; exact gcb_wrel_refl|]. exists bl, c. auto. }
  destruct (gcb_blk c) as [it o ro p ps ct| |] eqn:Eb;
    try (apply Htriv; [intros Q; unfold gcb_is_item in Q; rewrite Eb in Q; discriminate|exact H]).
  destruct (gcb_del c) eqn:Hd; [|apply Htriv; [intros _ Q; congruence|exact H]].
  destruct (gcb_item_gc g st mk it false) as [[st1 mk1]|] eqn:E; [|discriminate]. cbn [adl_bind fst snd] in H.
  apply (Hsplit st1 mk1 _ H (gcb_item_gc_rel _ _ _ _ _ _ _ E)).
  assert (Eg : gcb_get_item st it = Some (i, c)).
  { unfold gcb_get_item. pose proof (Hid c (nth_error_In _ _ En)) as Q. unfold mrg_client in Q. rewrite Eb in Q. cbn in Q.
    rewrite Q, Hg. pose proof (gcb_find_pos_contig bl 0 i c Hc En) as P. unfold mrg_clock in P. rewrite Eb in P. cbn in P.
    rewrite P, En. unfold gcb_is_item. rewrite Eb. reflexivity. }
  destruct (gcb_item_gc_settles _ _ _ _ _ _ _ _ E Eg) as (bl' & c' & G1 & G2 & G3).
  pose proof (Hid c (nth_error_In _ _ En)) as Q. unfold mrg_client in Q. rewrite Eb in Q. cbn in Q. rewrite Q in G1. eauto.
Qed.

Lemma gcb_fold_each : forall (A B : Type) (Rel : A -> A -> Prop) (f : A -> B -> adl_res A),
  (forall a, Rel a a) -> (forall a b c, Rel a b -> Rel b c -> Rel a c) ->
  (forall a x a', f a x = adl_ok a' -> Rel a a') ->
  forall l a af, adl_fold f l a = adl_ok af -> forall x, In x l ->
  exists a1 a2, Rel a a1 /\ f a1 x = adl_ok a2 /\ Rel a2 af.
Proof.
  intros A B Rel f Hr Ht Hs. induction l as [|y r IH]; intros a af H x Hin; [destruct Hin|]. cbn [adl_fold] in H.
  destruct (f a y) as [a1|] eqn:E; [|discriminate]. cbn [adl_bind] in H. destruct Hin as [->|Hin].
  - exists a, a1. repeat split; [apply Hr|exact E|].
    refine (gcb_fold_inv _ _ Rel f r Hr Ht _ _ _ H). intros a0 x0 a0' _. apply Hs.
  - destruct (IH a1 af H x Hin) as (b1 & b2 & R1 & E2 & R2). exists b1, b2. repeat split; try assumption.
    exact (Ht _ _ _ (Hs _ _ _ E) R1).
Qed.

Theorem gcb_collect_all_none_settles : forall st st1 mb, gcb_lists_ok st = true -> gcb_keys_ok st = true ->
  gcb_clients_ok st = true -> gcb_collect_all st None = adl_ok (st1, mb) -> gcb_all_settled st1.
Proof.
  intros st st1 mb Hl Hk Hid H. unfold gcb_collect_all in H.
  destruct (gcb_mark_all (gcb_gc_fuel st) (st, [], [])) as [s|] eqn:Em; [|discriminate]. cbn [adl_bind] in H.
  destruct (gcb_collect_marked (fst (fst s)) (snd (fst s))) as [st'|] eqn:Ec; [|discriminate]. cbn [adl_bind] in H.
  inversion H; subst st' mb. clear H. pose proof (gcb_collect_marked_rel _ _ _ Ec) as HC.
  intros client blf j cf Hgf Hnf.
  pose proof (gcb_wrel_srel _ _ (gcb_mark_all_rel _ _ _ Em)) as HM. cbn [fst] in HM.
  pose proof (gcb_srel_trans _ _ _ HM HC) as HT.
  destruct (gcb_get_client_rel_back _ _ _ _ _ (proj1 HT) Hgf) as (bl0 & Hg0 & HF0).
  pose proof (gcb_get_client_in _ _ _ Hg0) as Hin. unfold gcb_mark_all in Em. cbn [fst] in Em.
  destruct (gcb_fold_each _ _ gcb_wstate _ gcb_wstate_refl gcb_wstate_trans
              (fun a x a' => gcb_mark_all_list_rel _ _ _ _ _ _) _ _ _ Em _ Hin) as (a1 & a2 & R1 & E2 & R2).
  cbn [fst snd] in E2. unfold gcb_wstate in R1, R2. cbn [fst] in R1.
  destruct (gcb_get_client_rel _ _ _ _ _ (proj1 R1) Hg0) as (bl1 & Hg1 & HF1).
  assert (HF1' : Forall2 gcb_sigrel bl0 bl1) by (revert HF1; apply gcb_F2_impl; intros x y Hxy; apply gcb_crel_sig; apply gcb_wrel_crel; exact Hxy).
  pose proof (proj1 (forallb_forall _ _) Hl _ Hin) as W. cbn [snd] in W. apply andb_true_iff in W. destruct W as [W _].
  unfold adl_wf_blist in W. apply andb_true_iff in W. destruct W as [W _].
  assert (R : gcb_settled_range (fst (fst a2)) client 0 (0 + length bl0)).
  { apply (gcb_mark_all_list_settles _ _ _ _ _ _ bl1 E2 Hg1).
    - rewrite (proj1 (gcb_abs_sigrel _ _ HF1' 0)). exact W.
    - intros x Hx. destruct (In_nth_error _ _ Hx) as (k & Hk0). destruct (gcb_F2_nth_back _ _ _ _ _ _ _ HF1' Hk0) as (x0 & Hk1 & Hx0).
      destruct (gcb_sig_fields _ _ Hx0) as (_ & _ & _ & _ & _ & ->).
      pose proof (proj1 (forallb_forall _ _) Hid _ Hin) as Q. cbn [snd fst] in Q.
      apply N.eqb_eq. exact (proj1 (forallb_forall _ _) Q _ (nth_error_In _ _ Hk1)). }
  pose proof (gcb_settled_range_srel _ _ _ _ _ (gcb_srel_trans _ _ _ (gcb_wrel_srel _ _ R2) HC) R) as R'.
  apply (R' blf j cf Hgf); [|exact Hnf]. split; [lia|]. cbn. rewrite (gcb_F2_length _ _ _ _ _ HF0). apply nth_error_Some. congruence.
Qed.
Print Assumptions gcb_collect_all_none_settles.

(* Theorem 5, first half, for the full collection: after TransactionMut::gc(None) any further run of the collector
   (gc(None) again, gc(Some(ds)) for any ds) that returns, returns the same store.
   PARTIAL: for gc(Some(ds)) followed by gc(Some(ds)) with the same ds the statement is only tested
   (GcBlocksCases.v gcb_case_idempotent_sweep). *)
Theorem gcb_idempotent_partial : forall st st1 mb ods st2 mb2, gcb_lists_ok st = true -> gcb_keys_ok st = true ->
  gcb_clients_ok st = true -> gcb_collect_all st None = adl_ok (st1, mb) ->
  gcb_collect_all st1 ods = adl_ok (st2, mb2) -> st2 = st1.
Proof.
  intros st st1 mb ods st2 mb2 Hl Hk Hid H1 H2.
  exact (gcb_collect_all_settled_id _ _ _ _ (gcb_collect_all_none_settles _ _ _ Hl Hk Hid H1) H2).
Qed.
Print Assumptions gcb_idempotent_partial.
