(* Concrete runs of the model against the Rust library (scratch test yrs/tests/wbf_cases.rs, debug build with
   --cfg y_crdt_y_crdt_verif).  Every store below is the yrs::verif::dump_store of a real replica, printed as
   a [wbf_store]; every byte list is what the same replica returned.
     wbf_store_K_sv      the model's state vector = ReadTxn::state_vector(), sorted by client;
     wbf_case_N_diff     ReadTxn::encode_diff_v1(sv): the store is well formed, the code as written
                         ([wbf_encode_diff_v1], with find_index and the panics) and the total version
                         ([wbf_encode_diff]) both give the Rust bytes; when the vector cuts no surrogate pair,
                         decoding the bytes gives back the model's update (block lists with their ids, delete set)
                         up to the parent information that is not on the wire ([dff_wire]);
     wbf_case_N_dff      yrs::diff_updates_v1(encode_diff_v1([]), sv) - the document-free function of Crdt/Diff.v
                         on the full state of the same replica - = dff_diff_update (dff_wire (wbf_as_update st)) sv;
                         the comment says whether Rust returned the same bytes as for encode_diff_v1(sv);
     wbf_case_N_txn      the update event of one transaction (observe_update_v1, Rust at 7da5187): the store dumped
                         inside the callback, TransactionMut::insert_set() (the ranges per client),
                         TransactionMut::delete_set(): the code as written ([wbf_encode_update_v1]) and the total
                         version ([wbf_encode_txn_update]) give the event bytes, which decode to the model's update;
     wbf_case_N_full     ReadTxn::encode_state_as_update_v1(sv) of a replica that holds a pending update / a
                         pending delete set: [wbf_encode_state_as_update]; the pending update is given as the
                         merge of the updates the replica has stashed (their bytes), pending_ds comes from the dump.
   Replicas: 1-3 authors; in-order delivery; out-of-order delivery (holes at clock 0 and in the middle; a hole
   filled in front of blocks that are already there - also in front of a deleted one: the event holds the new
   block only -; one transaction that adds two pieces of a client that are not adjacent (a Skip inside the event);
   hand-made GC ranges squashed into one (a slice trimmed at both ends); deletions with the content kept (skip_gc) and collected
   (Deleted content, GC ranges); pending blocks and pending deletions.  Vectors: empty, explicit zero, below / at /
   inside / above blocks, inside a surrogate pair, inside GC ranges, inside holes, at the end of a hole, the
   replica's own vector, clients the store does not know. *)
From Coq Require Import List NArith ZArith Bool.
From YV Require Import Gen.Consts Lib.Bytes Codec.Varint Codec.AnyCodec Codec.IdSetCodec Codec.UpdateV1 Ids.Ranges
  Crdt.Doc Crdt.Blocks Crdt.Merge Crdt.Diff Crdt.ApplyDelete.
From YV Require Import Crdt.WriteBlocks.
Import ListNotations. Open Scope N_scope.

Definition wbf_sv_check (st : wbf_store) (rust_sv : list (N * N)) : Prop := wbf_state_vector_sorted st = rust_sv.

Definition wbf_diff_check (st : wbf_store) (sv : list (N * N)) (bytes : list N) : Prop :=
  wbf_wf st = true /\ wbf_sv_ok sv = true /\
  wbf_encode_diff_v1 st sv = Ok bytes [] /\
  encode_update_v1 (wbf_encode_diff st sv) = Some bytes /\
  (if wbf_cut_ok st sv
   then decode_update_v1 (S (length bytes)) bytes = Ok (dff_wire (wbf_encode_diff st sv)) []
   else True).

Definition wbf_dff_check (st : wbf_store) (sv : list (N * N)) (bytes : list N) : Prop :=
  encode_update_v1 (dff_diff_update (dff_wire (wbf_as_update st)) sv) = Some bytes.

Definition wbf_txn_check (st : wbf_store) (ins : idset) (ds : idset) (bytes : list N) : Prop :=
  wbf_wf st = true /\ wbf_ins_ok ins = true /\ wbf_txn_cut_ok st ins = true /\
  wbf_encode_update_v1 st ins ds = Ok bytes [] /\
  encode_update_v1 (wbf_encode_txn_update st ins ds) = Some bytes /\
  decode_update_v1 (S (length bytes)) bytes = Ok (dff_wire (wbf_encode_txn_update st ins ds)) [].

Definition wbf_full_check (st : wbf_store) (sv : list (N * N)) (stashed : list (list N)) (pending_ds : option idset)
    (bytes : list N) : Prop :=
  wbf_encode_state_as_update_v1 st sv stashed pending_ds = Ok bytes [].

(* ==== store 0: client 1 in order, no deletions (pending false, pending_ds false) ==== *)
Definition wbf_store_0 : wbf_store := [
   (1, [(BItem (mkid 1 0) None None (PNamed [109]) (Some [107; 49]) (BAny [(AString [118; 49])]), false);
        (BItem (mkid 1 1) None None (PNamed [109]) (Some [107; 50]) (BAny [(AString [118; 50])]), false);
        (BItem (mkid 1 2) None None (PNamed [109]) (Some [107; 51]) (BAny [(AString [118; 51])]), false);
        (BItem (mkid 1 3) None None (PNamed [116]) None (BString [104; 101; 108; 108; 111; 32; 119; 111; 114; 108; 100]), false)])].
(* Rust: state_vector() = [(1, 14)] *)
Example wbf_store_0_sv : wbf_sv_check wbf_store_0 [(1, 14)].
Proof. vm_compute; reflexivity. Qed.
(* ---- case 0: empty vector ---- Rust: encode_diff_v1([]) = 57 bytes; encode_state_as_update_v1 gives the same bytes *)
Example wbf_case_0_diff : wbf_diff_check wbf_store_0 [] [1; 4; 1; 0; 40; 1; 1; 109; 2; 107; 49; 1; 119; 2; 118; 49; 40; 1; 1; 109; 2; 107; 50; 1; 119; 2; 118; 50; 40; 1; 1; 109; 2; 107; 51; 1; 119; 2; 118; 51; 4; 1; 1; 116; 11; 104; 101; 108; 108; 111; 32; 119; 111; 114; 108; 100; 0].
Proof. vm_compute; repeat split; reflexivity. Qed.
(* Rust: diff_updates_v1(encode_diff_v1([]), sv) gives the same bytes *)
Example wbf_case_0_dff : wbf_dff_check wbf_store_0 [] [1; 4; 1; 0; 40; 1; 1; 109; 2; 107; 49; 1; 119; 2; 118; 49; 40; 1; 1; 109; 2; 107; 50; 1; 119; 2; 118; 50; 40; 1; 1; 109; 2; 107; 51; 1; 119; 2; 118; 51; 4; 1; 1; 116; 11; 104; 101; 108; 108; 111; 32; 119; 111; 114; 108; 100; 0].
Proof. vm_compute; reflexivity. Qed.
(* ---- case 1: vector at a block boundary ---- Rust: encode_diff_v1([(1, 3)]) = 21 bytes; encode_state_as_update_v1 gives the same bytes *)
Example wbf_case_1_diff : wbf_diff_check wbf_store_0 [(1, 3)] [1; 1; 1; 3; 4; 1; 1; 116; 11; 104; 101; 108; 108; 111; 32; 119; 111; 114; 108; 100; 0].
Proof. vm_compute; repeat split; reflexivity. Qed.
(* Rust: diff_updates_v1(encode_diff_v1([]), sv) gives the same bytes *)
Example wbf_case_1_dff : wbf_dff_check wbf_store_0 [(1, 3)] [1; 1; 1; 3; 4; 1; 1; 116; 11; 104; 101; 108; 108; 111; 32; 119; 111; 114; 108; 100; 0].
Proof. vm_compute; reflexivity. Qed.
(* ---- case 2: vector inside a string block ---- Rust: encode_diff_v1([(1, 5)]) = 18 bytes; encode_state_as_update_v1 gives the same bytes *)
Example wbf_case_2_diff : wbf_diff_check wbf_store_0 [(1, 5)] [1; 1; 1; 5; 132; 1; 4; 9; 108; 108; 111; 32; 119; 111; 114; 108; 100; 0].
Proof. vm_compute; repeat split; reflexivity. Qed.
(* Rust: diff_updates_v1(encode_diff_v1([]), sv) gives the same bytes *)
Example wbf_case_2_dff : wbf_dff_check wbf_store_0 [(1, 5)] [1; 1; 1; 5; 132; 1; 4; 9; 108; 108; 111; 32; 119; 111; 114; 108; 100; 0].
Proof. vm_compute; reflexivity. Qed.
(* ---- case 3: vector at the end ---- Rust: encode_diff_v1([(1, 14)]) = 2 bytes; encode_state_as_update_v1 gives the same bytes *)
Example wbf_case_3_diff : wbf_diff_check wbf_store_0 [(1, 14)] [0; 0].
Proof. vm_compute; repeat split; reflexivity. Qed.
(* Rust: diff_updates_v1(encode_diff_v1([]), sv) gives the same bytes *)
Example wbf_case_3_dff : wbf_dff_check wbf_store_0 [(1, 14)] [0; 0].
Proof. vm_compute; reflexivity. Qed.
(* ---- case 4: vector above the end ---- Rust: encode_diff_v1([(1, 20)]) = 2 bytes; encode_state_as_update_v1 gives the same bytes *)
Example wbf_case_4_diff : wbf_diff_check wbf_store_0 [(1, 20)] [0; 0].
Proof. vm_compute; repeat split; reflexivity. Qed.
(* Rust: diff_updates_v1(encode_diff_v1([]), sv) gives the same bytes *)
Example wbf_case_4_dff : wbf_dff_check wbf_store_0 [(1, 20)] [0; 0].
Proof. vm_compute; reflexivity. Qed.
(* ---- case 5: unknown client in the vector ---- Rust: encode_diff_v1([(77, 3)]) = 57 bytes; encode_state_as_update_v1 gives the same bytes *)
Example wbf_case_5_diff : wbf_diff_check wbf_store_0 [(77, 3)] [1; 4; 1; 0; 40; 1; 1; 109; 2; 107; 49; 1; 119; 2; 118; 49; 40; 1; 1; 109; 2; 107; 50; 1; 119; 2; 118; 50; 40; 1; 1; 109; 2; 107; 51; 1; 119; 2; 118; 51; 4; 1; 1; 116; 11; 104; 101; 108; 108; 111; 32; 119; 111; 114; 108; 100; 0].
Proof. vm_compute; repeat split; reflexivity. Qed.
(* Rust: diff_updates_v1(encode_diff_v1([]), sv) gives the same bytes *)
Example wbf_case_5_dff : wbf_dff_check wbf_store_0 [(77, 3)] [1; 4; 1; 0; 40; 1; 1; 109; 2; 107; 49; 1; 119; 2; 118; 49; 40; 1; 1; 109; 2; 107; 50; 1; 119; 2; 118; 50; 40; 1; 1; 109; 2; 107; 51; 1; 119; 2; 118; 51; 4; 1; 1; 116; 11; 104; 101; 108; 108; 111; 32; 119; 111; 114; 108; 100; 0].
Proof. vm_compute; reflexivity. Qed.
(* ---- case 6: explicit zero entry ---- Rust: encode_diff_v1([(1, 0)]) = 57 bytes; encode_state_as_update_v1 gives the same bytes *)
Example wbf_case_6_diff : wbf_diff_check wbf_store_0 [(1, 0)] [1; 4; 1; 0; 40; 1; 1; 109; 2; 107; 49; 1; 119; 2; 118; 49; 40; 1; 1; 109; 2; 107; 50; 1; 119; 2; 118; 50; 40; 1; 1; 109; 2; 107; 51; 1; 119; 2; 118; 51; 4; 1; 1; 116; 11; 104; 101; 108; 108; 111; 32; 119; 111; 114; 108; 100; 0].
Proof. vm_compute; repeat split; reflexivity. Qed.
(* Rust: diff_updates_v1(encode_diff_v1([]), sv) gives the same bytes *)
Example wbf_case_6_dff : wbf_dff_check wbf_store_0 [(1, 0)] [1; 4; 1; 0; 40; 1; 1; 109; 2; 107; 49; 1; 119; 2; 118; 49; 40; 1; 1; 109; 2; 107; 50; 1; 119; 2; 118; 50; 40; 1; 1; 109; 2; 107; 51; 1; 119; 2; 118; 51; 4; 1; 1; 116; 11; 104; 101; 108; 108; 111; 32; 119; 111; 114; 108; 100; 0].
Proof. vm_compute; reflexivity. Qed.

(* ==== store 1: client 1 in order, with deletions, content kept (skip_gc) (pending false, pending_ds false) ==== *)
Definition wbf_store_1 : wbf_store := [
   (1, [(BItem (mkid 1 0) None None (PNamed [109]) (Some [107; 49]) (BAny [(AString [118; 49])]), true);
        (BItem (mkid 1 1) None None (PNamed [109]) (Some [107; 50]) (BAny [(AString [118; 50])]), false);
        (BItem (mkid 1 2) None None (PNamed [109]) (Some [107; 51]) (BAny [(AString [118; 51])]), false);
        (BItem (mkid 1 3) None None (PNamed [116]) None (BString [104]), false);
        (BItem (mkid 1 4) (Some (mkid 1 3)) None (PNamed [116]) None (BString [101; 108; 108]), true);
        (BItem (mkid 1 7) (Some (mkid 1 6)) None (PNamed [116]) None (BString [111; 32; 119; 111; 114; 108; 100]), false);
        (BItem (mkid 1 14) (Some (mkid 1 0)) None (PNamed [109]) (Some [107; 49]) (BAny [(AString [119; 49])]), false)])].
(* Rust: state_vector() = [(1, 15)] *)
Example wbf_store_1_sv : wbf_sv_check wbf_store_1 [(1, 15)].
Proof. vm_compute; reflexivity. Qed.
(* ---- case 7: deleted items, empty vector ---- Rust: encode_diff_v1([]) = 79 bytes; encode_state_as_update_v1 gives the same bytes *)
Example wbf_case_7_diff : wbf_diff_check wbf_store_1 [] [1; 7; 1; 0; 40; 1; 1; 109; 2; 107; 49; 1; 119; 2; 118; 49; 40; 1; 1; 109; 2; 107; 50; 1; 119; 2; 118; 50; 40; 1; 1; 109; 2; 107; 51; 1; 119; 2; 118; 51; 4; 1; 1; 116; 1; 104; 132; 1; 3; 3; 101; 108; 108; 132; 1; 6; 7; 111; 32; 119; 111; 114; 108; 100; 168; 1; 0; 1; 119; 2; 119; 49; 1; 1; 2; 0; 1; 4; 3].
Proof. vm_compute; repeat split; reflexivity. Qed.
(* Rust: diff_updates_v1(encode_diff_v1([]), sv) DIFFERS from encode_diff_v1(sv) *)
Example wbf_case_7_dff : wbf_dff_check wbf_store_1 [] [1; 7; 1; 0; 40; 1; 1; 109; 2; 107; 49; 1; 119; 2; 118; 49; 40; 1; 1; 109; 2; 107; 50; 1; 119; 2; 118; 50; 40; 1; 1; 109; 2; 107; 51; 1; 119; 2; 118; 51; 4; 1; 1; 116; 1; 104; 132; 1; 3; 3; 101; 108; 108; 132; 1; 6; 7; 111; 32; 119; 111; 114; 108; 100; 136; 1; 0; 1; 119; 2; 119; 49; 1; 1; 2; 0; 1; 4; 3].
Proof. vm_compute; reflexivity. Qed.
(* ---- case 8: deleted items, vector inside the deleted run ---- Rust: encode_diff_v1([(1, 5)]) = 36 bytes; encode_state_as_update_v1 gives the same bytes *)
Example wbf_case_8_diff : wbf_diff_check wbf_store_1 [(1, 5)] [1; 3; 1; 5; 132; 1; 4; 2; 108; 108; 132; 1; 6; 7; 111; 32; 119; 111; 114; 108; 100; 168; 1; 0; 1; 119; 2; 119; 49; 1; 1; 2; 0; 1; 4; 3].
Proof. vm_compute; repeat split; reflexivity. Qed.
(* Rust: diff_updates_v1(encode_diff_v1([]), sv) DIFFERS from encode_diff_v1(sv) *)
Example wbf_case_8_dff : wbf_dff_check wbf_store_1 [(1, 5)] [1; 3; 1; 5; 132; 1; 4; 2; 108; 108; 132; 1; 6; 7; 111; 32; 119; 111; 114; 108; 100; 136; 1; 0; 1; 119; 2; 119; 49; 1; 1; 2; 0; 1; 4; 3].
Proof. vm_compute; reflexivity. Qed.
(* ---- case 9: deleted items, vector inside the last string block ---- Rust: encode_diff_v1([(1, 10)]) = 27 bytes; encode_state_as_update_v1 gives the same bytes *)
Example wbf_case_9_diff : wbf_diff_check wbf_store_1 [(1, 10)] [1; 2; 1; 10; 132; 1; 9; 4; 111; 114; 108; 100; 168; 1; 0; 1; 119; 2; 119; 49; 1; 1; 2; 0; 1; 4; 3].
Proof. vm_compute; repeat split; reflexivity. Qed.
(* Rust: diff_updates_v1(encode_diff_v1([]), sv) DIFFERS from encode_diff_v1(sv) *)
Example wbf_case_9_dff : wbf_dff_check wbf_store_1 [(1, 10)] [1; 2; 1; 10; 132; 1; 9; 4; 111; 114; 108; 100; 136; 1; 0; 1; 119; 2; 119; 49; 1; 1; 2; 0; 1; 4; 3].
Proof. vm_compute; reflexivity. Qed.

(* ---- case 10: per-transaction update, replica with holes ---- Rust: insert set [(1, [(2, 3, tt)])], delete set [] *)
Definition wbf_txn_store_10 : wbf_store := [
   (1, [(BSkip (mkid 1 0) 2, false);
        (BItem (mkid 1 2) None None (PNamed [109]) (Some [107; 51]) (BAny [(AString [118; 51])]), false)])].
Example wbf_case_10_txn : wbf_txn_check wbf_txn_store_10 [(1, [(2, 3, tt)])] [] [1; 1; 1; 2; 40; 1; 1; 109; 2; 107; 51; 1; 119; 2; 118; 51; 0].
Proof. vm_compute; repeat split; reflexivity. Qed.

(* ---- case 11: per-transaction update, replica with holes ---- Rust: insert set [(2, [(4, 5, tt)])], delete set [] *)
Definition wbf_txn_store_11 : wbf_store := [
   (1, [(BSkip (mkid 1 0) 2, false);
        (BItem (mkid 1 2) None None (PNamed [109]) (Some [107; 51]) (BAny [(AString [118; 51])]), false)]);
   (2, [(BSkip (mkid 2 0) 4, false);
        (BItem (mkid 2 4) None None (PNamed [97]) None (BAny [(AString [112])]), false)])].
Example wbf_case_11_txn : wbf_txn_check wbf_txn_store_11 [(2, [(4, 5, tt)])] [] [1; 1; 2; 4; 8; 1; 1; 97; 1; 119; 1; 112; 0].
Proof. vm_compute; repeat split; reflexivity. Qed.

(* ==== store 2: holes at clock 0 for clients 1 and 2 (pending false, pending_ds false) ==== *)
Definition wbf_store_2 : wbf_store := [
   (1, [(BSkip (mkid 1 0) 2, false);
        (BItem (mkid 1 2) None None (PNamed [109]) (Some [107; 51]) (BAny [(AString [118; 51])]), false)]);
   (2, [(BSkip (mkid 2 0) 4, false);
        (BItem (mkid 2 4) None None (PNamed [97]) None (BAny [(AString [112])]), false)])].
(* Rust: state_vector() = [(1, 0); (2, 0)] *)
Example wbf_store_2_sv : wbf_sv_check wbf_store_2 [(1, 0); (2, 0)].
Proof. vm_compute; reflexivity. Qed.
(* ---- case 12: holes, empty vector ---- Rust: encode_diff_v1([]) = 32 bytes; encode_state_as_update_v1 gives the same bytes *)
Example wbf_case_12_diff : wbf_diff_check wbf_store_2 [] [2; 2; 2; 0; 10; 4; 8; 1; 1; 97; 1; 119; 1; 112; 2; 1; 0; 10; 2; 40; 1; 1; 109; 2; 107; 51; 1; 119; 2; 118; 51; 0].
Proof. vm_compute; repeat split; reflexivity. Qed.
(* Rust: diff_updates_v1(encode_diff_v1([]), sv) DIFFERS from encode_diff_v1(sv) *)
Example wbf_case_12_dff : wbf_dff_check wbf_store_2 [] [2; 1; 2; 4; 8; 1; 1; 97; 1; 119; 1; 112; 1; 1; 2; 40; 1; 1; 109; 2; 107; 51; 1; 119; 2; 118; 51; 0].
Proof. vm_compute; reflexivity. Qed.
(* ---- case 13: holes, vector inside the hole of 1 ---- Rust: encode_diff_v1([(1, 1)]) = 32 bytes; encode_state_as_update_v1 gives the same bytes *)
Example wbf_case_13_diff : wbf_diff_check wbf_store_2 [(1, 1)] [2; 2; 2; 0; 10; 4; 8; 1; 1; 97; 1; 119; 1; 112; 2; 1; 1; 10; 1; 40; 1; 1; 109; 2; 107; 51; 1; 119; 2; 118; 51; 0].
Proof. vm_compute; repeat split; reflexivity. Qed.
(* Rust: diff_updates_v1(encode_diff_v1([]), sv) DIFFERS from encode_diff_v1(sv) *)
Example wbf_case_13_dff : wbf_dff_check wbf_store_2 [(1, 1)] [2; 1; 2; 4; 8; 1; 1; 97; 1; 119; 1; 112; 1; 1; 2; 40; 1; 1; 109; 2; 107; 51; 1; 119; 2; 118; 51; 0].
Proof. vm_compute; reflexivity. Qed.
(* ---- case 14: holes, vector at the end of the hole of 1, inside the hole of 2 ---- Rust: encode_diff_v1([(1, 2); (2, 3)]) = 30 bytes; encode_state_as_update_v1 gives the same bytes *)
Example wbf_case_14_diff : wbf_diff_check wbf_store_2 [(1, 2); (2, 3)] [2; 2; 2; 3; 10; 1; 8; 1; 1; 97; 1; 119; 1; 112; 1; 1; 2; 40; 1; 1; 109; 2; 107; 51; 1; 119; 2; 118; 51; 0].
Proof. vm_compute; repeat split; reflexivity. Qed.
(* Rust: diff_updates_v1(encode_diff_v1([]), sv) DIFFERS from encode_diff_v1(sv) *)
Example wbf_case_14_dff : wbf_dff_check wbf_store_2 [(1, 2); (2, 3)] [2; 1; 2; 4; 8; 1; 1; 97; 1; 119; 1; 112; 1; 1; 2; 40; 1; 1; 109; 2; 107; 51; 1; 119; 2; 118; 51; 0].
Proof. vm_compute; reflexivity. Qed.
(* ---- case 15: holes, own state vector ---- Rust: encode_diff_v1([(1, 0); (2, 0)]) = 32 bytes; encode_state_as_update_v1 gives the same bytes *)
Example wbf_case_15_diff : wbf_diff_check wbf_store_2 [(1, 0); (2, 0)] [2; 2; 2; 0; 10; 4; 8; 1; 1; 97; 1; 119; 1; 112; 2; 1; 0; 10; 2; 40; 1; 1; 109; 2; 107; 51; 1; 119; 2; 118; 51; 0].
Proof. vm_compute; repeat split; reflexivity. Qed.
(* Rust: diff_updates_v1(encode_diff_v1([]), sv) DIFFERS from encode_diff_v1(sv) *)
Example wbf_case_15_dff : wbf_dff_check wbf_store_2 [(1, 0); (2, 0)] [2; 1; 2; 4; 8; 1; 1; 97; 1; 119; 1; 112; 1; 1; 2; 40; 1; 1; 109; 2; 107; 51; 1; 119; 2; 118; 51; 0].
Proof. vm_compute; reflexivity. Qed.
(* ---- case 16: holes, vector at the ends ---- Rust: encode_diff_v1([(1, 3); (2, 5)]) = 2 bytes; encode_state_as_update_v1 gives the same bytes *)
Example wbf_case_16_diff : wbf_diff_check wbf_store_2 [(1, 3); (2, 5)] [0; 0].
Proof. vm_compute; repeat split; reflexivity. Qed.
(* Rust: diff_updates_v1(encode_diff_v1([]), sv) gives the same bytes *)
Example wbf_case_16_dff : wbf_dff_check wbf_store_2 [(1, 3); (2, 5)] [0; 0].
Proof. vm_compute; reflexivity. Qed.

(* ---- case 17: per-transaction update, replica with holes ---- Rust: insert set [(1, [(0, 1, tt)])], delete set [] *)
Definition wbf_txn_store_17 : wbf_store := [
   (1, [(BItem (mkid 1 0) None None (PNamed [109]) (Some [107; 49]) (BAny [(AString [118; 49])]), false);
        (BSkip (mkid 1 1) 1, false);
        (BItem (mkid 1 2) None None (PNamed [109]) (Some [107; 51]) (BAny [(AString [118; 51])]), false)]);
   (2, [(BSkip (mkid 2 0) 4, false);
        (BItem (mkid 2 4) None None (PNamed [97]) None (BAny [(AString [112])]), false)])].
Example wbf_case_17_txn : wbf_txn_check wbf_txn_store_17 [(1, [(0, 1, tt)])] [] [1; 1; 1; 0; 40; 1; 1; 109; 2; 107; 49; 1; 119; 2; 118; 49; 0].
Proof. vm_compute; repeat split; reflexivity. Qed.

(* ---- case 18: per-transaction update, replica with holes ---- Rust: insert set [(1, [(3, 8, tt)])], delete set [] *)
Definition wbf_txn_store_18 : wbf_store := [
   (1, [(BItem (mkid 1 0) None None (PNamed [109]) (Some [107; 49]) (BAny [(AString [118; 49])]), false);
        (BSkip (mkid 1 1) 1, false);
        (BItem (mkid 1 2) None None (PNamed [109]) (Some [107; 51]) (BAny [(AString [118; 51])]), false);
        (BItem (mkid 1 3) None None (PNamed [116]) None (BString [104; 101; 108; 108; 111]), false)]);
   (2, [(BSkip (mkid 2 0) 4, false);
        (BItem (mkid 2 4) None None (PNamed [97]) None (BAny [(AString [112])]), false)])].
Example wbf_case_18_txn : wbf_txn_check wbf_txn_store_18 [(1, [(3, 8, tt)])] [] [1; 1; 1; 3; 4; 1; 1; 116; 5; 104; 101; 108; 108; 111; 0].
Proof. vm_compute; repeat split; reflexivity. Qed.

(* ---- case 19: per-transaction update, replica with holes ---- Rust: insert set [(2, [(5, 6, tt)])], delete set [] *)
Definition wbf_txn_store_19 : wbf_store := [
   (1, [(BItem (mkid 1 0) None None (PNamed [109]) (Some [107; 49]) (BAny [(AString [118; 49])]), false);
        (BSkip (mkid 1 1) 1, false);
        (BItem (mkid 1 2) None None (PNamed [109]) (Some [107; 51]) (BAny [(AString [118; 51])]), false);
        (BItem (mkid 1 3) None None (PNamed [116]) None (BString [104; 101; 108; 108; 111]), false)]);
   (2, [(BSkip (mkid 2 0) 4, false);
        (BItem (mkid 2 4) None None (PNamed [97]) None (BAny [(AString [112]); (AString [113])]), false)])].
Example wbf_case_19_txn : wbf_txn_check wbf_txn_store_19 [(2, [(5, 6, tt)])] [] [1; 1; 2; 5; 136; 2; 4; 1; 119; 1; 113; 0].
Proof. vm_compute; repeat split; reflexivity. Qed.

(* ==== store 3: hole in the middle for client 1, hole at 0 for client 2 (pending false, pending_ds false) ==== *)
Definition wbf_store_3 : wbf_store := [
   (1, [(BItem (mkid 1 0) None None (PNamed [109]) (Some [107; 49]) (BAny [(AString [118; 49])]), false);
        (BSkip (mkid 1 1) 1, false);
        (BItem (mkid 1 2) None None (PNamed [109]) (Some [107; 51]) (BAny [(AString [118; 51])]), false);
        (BItem (mkid 1 3) None None (PNamed [116]) None (BString [104; 101; 108; 108; 111]), false)]);
   (2, [(BSkip (mkid 2 0) 4, false);
        (BItem (mkid 2 4) None None (PNamed [97]) None (BAny [(AString [112]); (AString [113])]), false)])].
(* Rust: state_vector() = [(1, 1); (2, 0)] *)
Example wbf_store_3_sv : wbf_sv_check wbf_store_3 [(1, 1); (2, 0)].
Proof. vm_compute; reflexivity. Qed.
(* ---- case 20: mid hole, empty vector ---- Rust: encode_diff_v1([]) = 57 bytes; encode_state_as_update_v1 gives the same bytes *)
Example wbf_case_20_diff : wbf_diff_check wbf_store_3 [] [2; 2; 2; 0; 10; 4; 8; 1; 1; 97; 2; 119; 1; 112; 119; 1; 113; 4; 1; 0; 40; 1; 1; 109; 2; 107; 49; 1; 119; 2; 118; 49; 10; 1; 40; 1; 1; 109; 2; 107; 51; 1; 119; 2; 118; 51; 4; 1; 1; 116; 5; 104; 101; 108; 108; 111; 0].
Proof. vm_compute; repeat split; reflexivity. Qed.
(* Rust: diff_updates_v1(encode_diff_v1([]), sv) DIFFERS from encode_diff_v1(sv) *)
Example wbf_case_20_dff : wbf_dff_check wbf_store_3 [] [2; 1; 2; 4; 8; 1; 1; 97; 2; 119; 1; 112; 119; 1; 113; 4; 1; 0; 40; 1; 1; 109; 2; 107; 49; 1; 119; 2; 118; 49; 10; 1; 40; 1; 1; 109; 2; 107; 51; 1; 119; 2; 118; 51; 4; 1; 1; 116; 5; 104; 101; 108; 108; 111; 0].
Proof. vm_compute; reflexivity. Qed.
(* ---- case 21: mid hole, vector below the hole ---- Rust: encode_diff_v1([(1, 1)]) = 45 bytes; encode_state_as_update_v1 gives the same bytes *)
Example wbf_case_21_diff : wbf_diff_check wbf_store_3 [(1, 1)] [2; 2; 2; 0; 10; 4; 8; 1; 1; 97; 2; 119; 1; 112; 119; 1; 113; 3; 1; 1; 10; 1; 40; 1; 1; 109; 2; 107; 51; 1; 119; 2; 118; 51; 4; 1; 1; 116; 5; 104; 101; 108; 108; 111; 0].
Proof. vm_compute; repeat split; reflexivity. Qed.
(* Rust: diff_updates_v1(encode_diff_v1([]), sv) DIFFERS from encode_diff_v1(sv) *)
Example wbf_case_21_dff : wbf_dff_check wbf_store_3 [(1, 1)] [2; 1; 2; 4; 8; 1; 1; 97; 2; 119; 1; 112; 119; 1; 113; 2; 1; 2; 40; 1; 1; 109; 2; 107; 51; 1; 119; 2; 118; 51; 4; 1; 1; 116; 5; 104; 101; 108; 108; 111; 0].
Proof. vm_compute; reflexivity. Qed.
(* ---- case 22: mid hole, vector behind the hole, inside a block ---- Rust: encode_diff_v1([(1, 5); (2, 5)]) = 22 bytes; encode_state_as_update_v1 gives the same bytes *)
Example wbf_case_22_diff : wbf_diff_check wbf_store_3 [(1, 5); (2, 5)] [2; 1; 2; 5; 136; 2; 4; 1; 119; 1; 113; 1; 1; 5; 132; 1; 4; 3; 108; 108; 111; 0].
Proof. vm_compute; repeat split; reflexivity. Qed.
(* Rust: diff_updates_v1(encode_diff_v1([]), sv) gives the same bytes *)
Example wbf_case_22_dff : wbf_dff_check wbf_store_3 [(1, 5); (2, 5)] [2; 1; 2; 5; 136; 2; 4; 1; 119; 1; 113; 1; 1; 5; 132; 1; 4; 3; 108; 108; 111; 0].
Proof. vm_compute; reflexivity. Qed.
(* ---- case 23: mid hole, own state vector ---- Rust: encode_diff_v1([(1, 1); (2, 0)]) = 45 bytes; encode_state_as_update_v1 gives the same bytes *)
Example wbf_case_23_diff : wbf_diff_check wbf_store_3 [(1, 1); (2, 0)] [2; 2; 2; 0; 10; 4; 8; 1; 1; 97; 2; 119; 1; 112; 119; 1; 113; 3; 1; 1; 10; 1; 40; 1; 1; 109; 2; 107; 51; 1; 119; 2; 118; 51; 4; 1; 1; 116; 5; 104; 101; 108; 108; 111; 0].
Proof. vm_compute; repeat split; reflexivity. Qed.
(* Rust: diff_updates_v1(encode_diff_v1([]), sv) DIFFERS from encode_diff_v1(sv) *)
Example wbf_case_23_dff : wbf_dff_check wbf_store_3 [(1, 1); (2, 0)] [2; 1; 2; 4; 8; 1; 1; 97; 2; 119; 1; 112; 119; 1; 113; 2; 1; 2; 40; 1; 1; 109; 2; 107; 51; 1; 119; 2; 118; 51; 4; 1; 1; 116; 5; 104; 101; 108; 108; 111; 0].
Proof. vm_compute; reflexivity. Qed.
(* ---- case 24: mid hole, third client unknown to the store ---- Rust: encode_diff_v1([(1, 1); (3, 7)]) = 45 bytes; encode_state_as_update_v1 gives the same bytes *)
Example wbf_case_24_diff : wbf_diff_check wbf_store_3 [(1, 1); (3, 7)] [2; 2; 2; 0; 10; 4; 8; 1; 1; 97; 2; 119; 1; 112; 119; 1; 113; 3; 1; 1; 10; 1; 40; 1; 1; 109; 2; 107; 51; 1; 119; 2; 118; 51; 4; 1; 1; 116; 5; 104; 101; 108; 108; 111; 0].
Proof. vm_compute; repeat split; reflexivity. Qed.
(* Rust: diff_updates_v1(encode_diff_v1([]), sv) DIFFERS from encode_diff_v1(sv) *)
Example wbf_case_24_dff : wbf_dff_check wbf_store_3 [(1, 1); (3, 7)] [2; 1; 2; 4; 8; 1; 1; 97; 2; 119; 1; 112; 119; 1; 113; 2; 1; 2; 40; 1; 1; 109; 2; 107; 51; 1; 119; 2; 118; 51; 4; 1; 1; 116; 5; 104; 101; 108; 108; 111; 0].
Proof. vm_compute; reflexivity. Qed.

(* ---- case 25: per-transaction update, replica with holes ---- Rust: insert set [(9, [(0, 2, tt)])], delete set [] *)
Definition wbf_txn_store_25 : wbf_store := [
   (1, [(BItem (mkid 1 0) None None (PNamed [109]) (Some [107; 49]) (BAny [(AString [118; 49])]), false);
        (BSkip (mkid 1 1) 1, false);
        (BItem (mkid 1 2) None None (PNamed [109]) (Some [107; 51]) (BAny [(AString [118; 51])]), false);
        (BItem (mkid 1 3) None None (PNamed [116]) None (BString [104; 101; 108; 108; 111]), false)]);
   (2, [(BSkip (mkid 2 0) 4, false);
        (BItem (mkid 2 4) None None (PNamed [97]) None (BAny [(AString [112]); (AString [113])]), false)]);
   (9, [(BItem (mkid 9 0) None None (PNamed [111; 119; 110]) None (BString [122; 122]), false)])].
Example wbf_case_25_txn : wbf_txn_check wbf_txn_store_25 [(9, [(0, 2, tt)])] [] [1; 1; 9; 0; 4; 1; 3; 111; 119; 110; 2; 122; 122; 0].
Proof. vm_compute; repeat split; reflexivity. Qed.

(* ---- case 26: per-transaction update, replica with holes ---- Rust: insert set [(1, [(1, 2, tt)])], delete set [] *)
Definition wbf_txn_store_26 : wbf_store := [
   (1, [(BItem (mkid 1 0) None None (PNamed [109]) (Some [107; 49]) (BAny [(AString [118; 49])]), false);
        (BItem (mkid 1 1) None None (PNamed [109]) (Some [107; 50]) (BAny [(AString [118; 50])]), false);
        (BItem (mkid 1 2) None None (PNamed [109]) (Some [107; 51]) (BAny [(AString [118; 51])]), false);
        (BItem (mkid 1 3) None None (PNamed [116]) None (BString [104; 101; 108; 108; 111]), false)]);
   (2, [(BSkip (mkid 2 0) 4, false);
        (BItem (mkid 2 4) None None (PNamed [97]) None (BAny [(AString [112]); (AString [113])]), false)]);
   (9, [(BItem (mkid 9 0) None None (PNamed [111; 119; 110]) None (BString [122; 122]), false)])].
Example wbf_case_26_txn : wbf_txn_check wbf_txn_store_26 [(1, [(1, 2, tt)])] [] [1; 1; 1; 1; 40; 1; 1; 109; 2; 107; 50; 1; 119; 2; 118; 50; 0].
Proof. vm_compute; repeat split; reflexivity. Qed.

(* ---- case 27: per-transaction update, replica with holes ---- Rust: insert set [], delete set [(1, [(4, 7, tt)])] *)
Definition wbf_txn_store_27 : wbf_store := [
   (1, [(BItem (mkid 1 0) None None (PNamed [109]) (Some [107; 49]) (BAny [(AString [118; 49])]), false);
        (BItem (mkid 1 1) None None (PNamed [109]) (Some [107; 50]) (BAny [(AString [118; 50])]), false);
        (BItem (mkid 1 2) None None (PNamed [109]) (Some [107; 51]) (BAny [(AString [118; 51])]), false);
        (BItem (mkid 1 3) None None (PNamed [116]) None (BString [104]), false);
        (BItem (mkid 1 4) (Some (mkid 1 3)) None (PNamed [116]) None (BString [101; 108; 108]), true);
        (BItem (mkid 1 7) (Some (mkid 1 6)) None (PNamed [116]) None (BString [111]), false)]);
   (2, [(BSkip (mkid 2 0) 4, false);
        (BItem (mkid 2 4) None None (PNamed [97]) None (BAny [(AString [112]); (AString [113])]), false)]);
   (9, [(BItem (mkid 9 0) None None (PNamed [111; 119; 110]) None (BString [122; 122]), false)])].
Example wbf_case_27_txn : wbf_txn_check wbf_txn_store_27 [] [(1, [(4, 7, tt)])] [0; 1; 1; 1; 4; 3].
Proof. vm_compute; repeat split; reflexivity. Qed.

(* ==== store 4: client 1 complete with deletions, hole at 0 for client 2, own client 9 (pending false, pending_ds false) ==== *)
Definition wbf_store_4 : wbf_store := [
   (1, [(BItem (mkid 1 0) None None (PNamed [109]) (Some [107; 49]) (BAny [(AString [118; 49])]), false);
        (BItem (mkid 1 1) None None (PNamed [109]) (Some [107; 50]) (BAny [(AString [118; 50])]), false);
        (BItem (mkid 1 2) None None (PNamed [109]) (Some [107; 51]) (BAny [(AString [118; 51])]), false);
        (BItem (mkid 1 3) None None (PNamed [116]) None (BString [104]), false);
        (BItem (mkid 1 4) (Some (mkid 1 3)) None (PNamed [116]) None (BString [101; 108; 108]), true);
        (BItem (mkid 1 7) (Some (mkid 1 6)) None (PNamed [116]) None (BString [111]), false)]);
   (2, [(BSkip (mkid 2 0) 4, false);
        (BItem (mkid 2 4) None None (PNamed [97]) None (BAny [(AString [112]); (AString [113])]), false)]);
   (9, [(BItem (mkid 9 0) None None (PNamed [111; 119; 110]) None (BString [122; 122]), false)])].
(* Rust: state_vector() = [(1, 8); (2, 0); (9, 2)] *)
Example wbf_store_4_sv : wbf_sv_check wbf_store_4 [(1, 8); (2, 0); (9, 2)].
Proof. vm_compute; reflexivity. Qed.
(* ---- case 28: three clients, empty vector ---- Rust: encode_diff_v1([]) = 91 bytes; encode_state_as_update_v1 gives the same bytes *)
Example wbf_case_28_diff : wbf_diff_check wbf_store_4 [] [3; 1; 9; 0; 4; 1; 3; 111; 119; 110; 2; 122; 122; 2; 2; 0; 10; 4; 8; 1; 1; 97; 2; 119; 1; 112; 119; 1; 113; 6; 1; 0; 40; 1; 1; 109; 2; 107; 49; 1; 119; 2; 118; 49; 40; 1; 1; 109; 2; 107; 50; 1; 119; 2; 118; 50; 40; 1; 1; 109; 2; 107; 51; 1; 119; 2; 118; 51; 4; 1; 1; 116; 1; 104; 132; 1; 3; 3; 101; 108; 108; 132; 1; 6; 1; 111; 1; 1; 1; 4; 3].
Proof. vm_compute; repeat split; reflexivity. Qed.
(* Rust: diff_updates_v1(encode_diff_v1([]), sv) DIFFERS from encode_diff_v1(sv) *)
Example wbf_case_28_dff : wbf_dff_check wbf_store_4 [] [3; 1; 9; 0; 4; 1; 3; 111; 119; 110; 2; 122; 122; 1; 2; 4; 8; 1; 1; 97; 2; 119; 1; 112; 119; 1; 113; 6; 1; 0; 40; 1; 1; 109; 2; 107; 49; 1; 119; 2; 118; 49; 40; 1; 1; 109; 2; 107; 50; 1; 119; 2; 118; 50; 40; 1; 1; 109; 2; 107; 51; 1; 119; 2; 118; 51; 4; 1; 1; 116; 1; 104; 132; 1; 3; 3; 101; 108; 108; 132; 1; 6; 1; 111; 1; 1; 1; 4; 3].
Proof. vm_compute; reflexivity. Qed.
(* ---- case 29: three clients, mixed vector ---- Rust: encode_diff_v1([(1, 6); (2, 2); (9, 1)]) = 43 bytes; encode_state_as_update_v1 gives the same bytes *)
Example wbf_case_29_diff : wbf_diff_check wbf_store_4 [(1, 6); (2, 2); (9, 1)] [3; 1; 9; 1; 132; 9; 0; 1; 122; 2; 2; 2; 10; 2; 8; 1; 1; 97; 2; 119; 1; 112; 119; 1; 113; 2; 1; 6; 132; 1; 5; 1; 108; 132; 1; 6; 1; 111; 1; 1; 1; 4; 3].
Proof. vm_compute; repeat split; reflexivity. Qed.
(* Rust: diff_updates_v1(encode_diff_v1([]), sv) DIFFERS from encode_diff_v1(sv) *)
Example wbf_case_29_dff : wbf_dff_check wbf_store_4 [(1, 6); (2, 2); (9, 1)] [3; 1; 9; 1; 132; 9; 0; 1; 122; 1; 2; 4; 8; 1; 1; 97; 2; 119; 1; 112; 119; 1; 113; 2; 1; 6; 132; 1; 5; 1; 108; 132; 1; 6; 1; 111; 1; 1; 1; 4; 3].
Proof. vm_compute; reflexivity. Qed.

(* ---- case 30: per-transaction update, collecting replica ---- Rust: insert set [(3, [(0, 4, tt)])], delete set [] *)
Definition wbf_txn_store_30 : wbf_store := [
   (3, [(BItem (mkid 3 0) None None (PNamed [110]) (Some [108; 105; 115; 116]) (BType TArray), false);
        (BItem (mkid 3 1) None None (PId (mkid 3 0)) None (BAny [(AString [105]); (AString [106]); (AString [107])]), false)])].
Example wbf_case_30_txn : wbf_txn_check wbf_txn_store_30 [(3, [(0, 4, tt)])] [] [1; 2; 3; 0; 39; 1; 1; 110; 4; 108; 105; 115; 116; 0; 8; 0; 3; 0; 3; 119; 1; 105; 119; 1; 106; 119; 1; 107; 0].
Proof. vm_compute; repeat split; reflexivity. Qed.

(* ---- case 31: per-transaction update, collecting replica ---- Rust: insert set [(3, [(4, 5, tt)])], delete set [] *)
Definition wbf_txn_store_31 : wbf_store := [
   (3, [(BItem (mkid 3 0) None None (PNamed [110]) (Some [108; 105; 115; 116]) (BType TArray), false);
        (BItem (mkid 3 1) None None (PId (mkid 3 0)) None (BAny [(AString [105]); (AString [106]); (AString [107])]), false);
        (BItem (mkid 3 4) None None (PNamed [110]) (Some [111; 116; 104; 101; 114]) (BAny [(AString [111])]), false)])].
Example wbf_case_31_txn : wbf_txn_check wbf_txn_store_31 [(3, [(4, 5, tt)])] [] [1; 1; 3; 4; 40; 1; 1; 110; 5; 111; 116; 104; 101; 114; 1; 119; 1; 111; 0].
Proof. vm_compute; repeat split; reflexivity. Qed.

(* ---- case 32: per-transaction update, collecting replica ---- Rust: insert set [], delete set [(3, [(0, 4, tt)])] *)
Definition wbf_txn_store_32 : wbf_store := [
   (3, [(BItem (mkid 3 0) None None (PNamed [110]) (Some [108; 105; 115; 116]) (BDeleted 1), true);
        (BGC (mkid 3 1) 3, true);
        (BItem (mkid 3 4) None None (PNamed [110]) (Some [111; 116; 104; 101; 114]) (BAny [(AString [111])]), false)])].
Example wbf_case_32_txn : wbf_txn_check wbf_txn_store_32 [] [(3, [(0, 4, tt)])] [0; 1; 3; 1; 0; 4].
Proof. vm_compute; repeat split; reflexivity. Qed.

(* ---- case 33: per-transaction update, collecting replica ---- Rust: insert set [(1, [(0, 1, tt)])], delete set [] *)
Definition wbf_txn_store_33 : wbf_store := [
   (1, [(BItem (mkid 1 0) None None (PNamed [109]) (Some [107; 49]) (BAny [(AString [118; 49])]), false)]);
   (3, [(BItem (mkid 3 0) None None (PNamed [110]) (Some [108; 105; 115; 116]) (BDeleted 1), true);
        (BGC (mkid 3 1) 3, true);
        (BItem (mkid 3 4) None None (PNamed [110]) (Some [111; 116; 104; 101; 114]) (BAny [(AString [111])]), false)])].
Example wbf_case_33_txn : wbf_txn_check wbf_txn_store_33 [(1, [(0, 1, tt)])] [] [1; 1; 1; 0; 40; 1; 1; 109; 2; 107; 49; 1; 119; 2; 118; 49; 0].
Proof. vm_compute; repeat split; reflexivity. Qed.

(* ---- case 34: per-transaction update, collecting replica ---- Rust: insert set [(1, [(1, 2, tt)])], delete set [] *)
Definition wbf_txn_store_34 : wbf_store := [
   (1, [(BItem (mkid 1 0) None None (PNamed [109]) (Some [107; 49]) (BAny [(AString [118; 49])]), false);
        (BItem (mkid 1 1) None None (PNamed [109]) (Some [107; 50]) (BAny [(AString [118; 50])]), false)]);
   (3, [(BItem (mkid 3 0) None None (PNamed [110]) (Some [108; 105; 115; 116]) (BDeleted 1), true);
        (BGC (mkid 3 1) 3, true);
        (BItem (mkid 3 4) None None (PNamed [110]) (Some [111; 116; 104; 101; 114]) (BAny [(AString [111])]), false)])].
Example wbf_case_34_txn : wbf_txn_check wbf_txn_store_34 [(1, [(1, 2, tt)])] [] [1; 1; 1; 1; 40; 1; 1; 109; 2; 107; 50; 1; 119; 2; 118; 50; 0].
Proof. vm_compute; repeat split; reflexivity. Qed.

(* ---- case 35: per-transaction update, collecting replica ---- Rust: insert set [(1, [(2, 3, tt)])], delete set [] *)
Definition wbf_txn_store_35 : wbf_store := [
   (1, [(BItem (mkid 1 0) None None (PNamed [109]) (Some [107; 49]) (BAny [(AString [118; 49])]), false);
        (BItem (mkid 1 1) None None (PNamed [109]) (Some [107; 50]) (BAny [(AString [118; 50])]), false);
        (BItem (mkid 1 2) None None (PNamed [109]) (Some [107; 51]) (BAny [(AString [118; 51])]), false)]);
   (3, [(BItem (mkid 3 0) None None (PNamed [110]) (Some [108; 105; 115; 116]) (BDeleted 1), true);
        (BGC (mkid 3 1) 3, true);
        (BItem (mkid 3 4) None None (PNamed [110]) (Some [111; 116; 104; 101; 114]) (BAny [(AString [111])]), false)])].
Example wbf_case_35_txn : wbf_txn_check wbf_txn_store_35 [(1, [(2, 3, tt)])] [] [1; 1; 1; 2; 40; 1; 1; 109; 2; 107; 51; 1; 119; 2; 118; 51; 0].
Proof. vm_compute; repeat split; reflexivity. Qed.

(* ---- case 36: per-transaction update, collecting replica ---- Rust: insert set [(1, [(3, 8, tt)])], delete set [] *)
Definition wbf_txn_store_36 : wbf_store := [
   (1, [(BItem (mkid 1 0) None None (PNamed [109]) (Some [107; 49]) (BAny [(AString [118; 49])]), false);
        (BItem (mkid 1 1) None None (PNamed [109]) (Some [107; 50]) (BAny [(AString [118; 50])]), false);
        (BItem (mkid 1 2) None None (PNamed [109]) (Some [107; 51]) (BAny [(AString [118; 51])]), false);
        (BItem (mkid 1 3) None None (PNamed [116]) None (BString [104; 101; 108; 108; 111]), false)]);
   (3, [(BItem (mkid 3 0) None None (PNamed [110]) (Some [108; 105; 115; 116]) (BDeleted 1), true);
        (BGC (mkid 3 1) 3, true);
        (BItem (mkid 3 4) None None (PNamed [110]) (Some [111; 116; 104; 101; 114]) (BAny [(AString [111])]), false)])].
Example wbf_case_36_txn : wbf_txn_check wbf_txn_store_36 [(1, [(3, 8, tt)])] [] [1; 1; 1; 3; 4; 1; 1; 116; 5; 104; 101; 108; 108; 111; 0].
Proof. vm_compute; repeat split; reflexivity. Qed.

(* ---- case 37: per-transaction update, collecting replica ---- Rust: insert set [(1, [(8, 14, tt)])], delete set [] *)
Definition wbf_txn_store_37 : wbf_store := [
   (1, [(BItem (mkid 1 0) None None (PNamed [109]) (Some [107; 49]) (BAny [(AString [118; 49])]), false);
        (BItem (mkid 1 1) None None (PNamed [109]) (Some [107; 50]) (BAny [(AString [118; 50])]), false);
        (BItem (mkid 1 2) None None (PNamed [109]) (Some [107; 51]) (BAny [(AString [118; 51])]), false);
        (BItem (mkid 1 3) None None (PNamed [116]) None (BString [104; 101; 108; 108; 111; 32; 119; 111; 114; 108; 100]), false)]);
   (3, [(BItem (mkid 3 0) None None (PNamed [110]) (Some [108; 105; 115; 116]) (BDeleted 1), true);
        (BGC (mkid 3 1) 3, true);
        (BItem (mkid 3 4) None None (PNamed [110]) (Some [111; 116; 104; 101; 114]) (BAny [(AString [111])]), false)])].
Example wbf_case_37_txn : wbf_txn_check wbf_txn_store_37 [(1, [(8, 14, tt)])] [] [1; 1; 1; 8; 132; 1; 7; 6; 32; 119; 111; 114; 108; 100; 0].
Proof. vm_compute; repeat split; reflexivity. Qed.

(* ---- case 38: per-transaction update, collecting replica ---- Rust: insert set [], delete set [(1, [(4, 7, tt)])] *)
Definition wbf_txn_store_38 : wbf_store := [
   (1, [(BItem (mkid 1 0) None None (PNamed [109]) (Some [107; 49]) (BAny [(AString [118; 49])]), false);
        (BItem (mkid 1 1) None None (PNamed [109]) (Some [107; 50]) (BAny [(AString [118; 50])]), false);
        (BItem (mkid 1 2) None None (PNamed [109]) (Some [107; 51]) (BAny [(AString [118; 51])]), false);
        (BItem (mkid 1 3) None None (PNamed [116]) None (BString [104]), false);
        (BItem (mkid 1 4) (Some (mkid 1 3)) None (PNamed [116]) None (BDeleted 3), true);
        (BItem (mkid 1 7) (Some (mkid 1 6)) None (PNamed [116]) None (BString [111; 32; 119; 111; 114; 108; 100]), false)]);
   (3, [(BItem (mkid 3 0) None None (PNamed [110]) (Some [108; 105; 115; 116]) (BDeleted 1), true);
        (BGC (mkid 3 1) 3, true);
        (BItem (mkid 3 4) None None (PNamed [110]) (Some [111; 116; 104; 101; 114]) (BAny [(AString [111])]), false)])].
Example wbf_case_38_txn : wbf_txn_check wbf_txn_store_38 [] [(1, [(4, 7, tt)])] [0; 1; 1; 1; 4; 3].
Proof. vm_compute; repeat split; reflexivity. Qed.

(* ==== store 5: collecting replica: GC blocks and Deleted contents (pending false, pending_ds false) ==== *)
Definition wbf_store_5 : wbf_store := [
   (1, [(BItem (mkid 1 0) None None (PNamed [109]) (Some [107; 49]) (BAny [(AString [118; 49])]), false);
        (BItem (mkid 1 1) None None (PNamed [109]) (Some [107; 50]) (BAny [(AString [118; 50])]), false);
        (BItem (mkid 1 2) None None (PNamed [109]) (Some [107; 51]) (BAny [(AString [118; 51])]), false);
        (BItem (mkid 1 3) None None (PNamed [116]) None (BString [104]), false);
        (BItem (mkid 1 4) (Some (mkid 1 3)) None (PNamed [116]) None (BDeleted 3), true);
        (BItem (mkid 1 7) (Some (mkid 1 6)) None (PNamed [116]) None (BString [111; 32; 119; 111; 114; 108; 100]), false)]);
   (3, [(BItem (mkid 3 0) None None (PNamed [110]) (Some [108; 105; 115; 116]) (BDeleted 1), true);
        (BGC (mkid 3 1) 3, true);
        (BItem (mkid 3 4) None None (PNamed [110]) (Some [111; 116; 104; 101; 114]) (BAny [(AString [111])]), false)])].
(* Rust: state_vector() = [(1, 14); (3, 5)] *)
Example wbf_store_5_sv : wbf_sv_check wbf_store_5 [(1, 14); (3, 5)].
Proof. vm_compute; reflexivity. Qed.
(* ---- case 39: gc, empty vector ---- Rust: encode_diff_v1([]) = 99 bytes; encode_state_as_update_v1 gives the same bytes *)
Example wbf_case_39_diff : wbf_diff_check wbf_store_5 [] [2; 3; 3; 0; 33; 1; 1; 110; 4; 108; 105; 115; 116; 1; 0; 3; 40; 1; 1; 110; 5; 111; 116; 104; 101; 114; 1; 119; 1; 111; 6; 1; 0; 40; 1; 1; 109; 2; 107; 49; 1; 119; 2; 118; 49; 40; 1; 1; 109; 2; 107; 50; 1; 119; 2; 118; 50; 40; 1; 1; 109; 2; 107; 51; 1; 119; 2; 118; 51; 4; 1; 1; 116; 1; 104; 129; 1; 3; 3; 132; 1; 6; 7; 111; 32; 119; 111; 114; 108; 100; 2; 1; 1; 4; 3; 3; 1; 0; 4].
Proof. vm_compute; repeat split; reflexivity. Qed.
(* Rust: diff_updates_v1(encode_diff_v1([]), sv) gives the same bytes *)
Example wbf_case_39_dff : wbf_dff_check wbf_store_5 [] [2; 3; 3; 0; 33; 1; 1; 110; 4; 108; 105; 115; 116; 1; 0; 3; 40; 1; 1; 110; 5; 111; 116; 104; 101; 114; 1; 119; 1; 111; 6; 1; 0; 40; 1; 1; 109; 2; 107; 49; 1; 119; 2; 118; 49; 40; 1; 1; 109; 2; 107; 50; 1; 119; 2; 118; 50; 40; 1; 1; 109; 2; 107; 51; 1; 119; 2; 118; 51; 4; 1; 1; 116; 1; 104; 129; 1; 3; 3; 132; 1; 6; 7; 111; 32; 119; 111; 114; 108; 100; 2; 1; 1; 4; 3; 3; 1; 0; 4].
Proof. vm_compute; reflexivity. Qed.
(* ---- case 40: gc, vector inside the GC range and inside the Deleted content ---- Rust: encode_diff_v1([(3, 2); (1, 5)]) = 47 bytes; encode_state_as_update_v1 gives the same bytes *)
Example wbf_case_40_diff : wbf_diff_check wbf_store_5 [(3, 2); (1, 5)] [2; 2; 3; 2; 0; 2; 40; 1; 1; 110; 5; 111; 116; 104; 101; 114; 1; 119; 1; 111; 2; 1; 5; 129; 1; 4; 2; 132; 1; 6; 7; 111; 32; 119; 111; 114; 108; 100; 2; 1; 1; 4; 3; 3; 1; 0; 4].
Proof. vm_compute; repeat split; reflexivity. Qed.
(* Rust: diff_updates_v1(encode_diff_v1([]), sv) gives the same bytes *)
Example wbf_case_40_dff : wbf_dff_check wbf_store_5 [(3, 2); (1, 5)] [2; 2; 3; 2; 0; 2; 40; 1; 1; 110; 5; 111; 116; 104; 101; 114; 1; 119; 1; 111; 2; 1; 5; 129; 1; 4; 2; 132; 1; 6; 7; 111; 32; 119; 111; 114; 108; 100; 2; 1; 1; 4; 3; 3; 1; 0; 4].
Proof. vm_compute; reflexivity. Qed.
(* ---- case 41: gc, vector at the end of the GC range ---- Rust: encode_diff_v1([(3, 4); (1, 14)]) = 27 bytes; encode_state_as_update_v1 gives the same bytes *)
Example wbf_case_41_diff : wbf_diff_check wbf_store_5 [(3, 4); (1, 14)] [1; 1; 3; 4; 40; 1; 1; 110; 5; 111; 116; 104; 101; 114; 1; 119; 1; 111; 2; 1; 1; 4; 3; 3; 1; 0; 4].
Proof. vm_compute; repeat split; reflexivity. Qed.
(* Rust: diff_updates_v1(encode_diff_v1([]), sv) gives the same bytes *)
Example wbf_case_41_dff : wbf_dff_check wbf_store_5 [(3, 4); (1, 14)] [1; 1; 3; 4; 40; 1; 1; 110; 5; 111; 116; 104; 101; 114; 1; 119; 1; 111; 2; 1; 1; 4; 3; 3; 1; 0; 4].
Proof. vm_compute; reflexivity. Qed.

(* ---- case 42: per-transaction update, holes, pending ---- Rust: insert set [(3, [(4, 5, tt)])], delete set [] *)
Definition wbf_txn_store_42 : wbf_store := [
   (3, [(BSkip (mkid 3 0) 4, false);
        (BItem (mkid 3 4) None None (PNamed [110]) (Some [111; 116; 104; 101; 114]) (BAny [(AString [111])]), false)])].
Example wbf_case_42_txn : wbf_txn_check wbf_txn_store_42 [(3, [(4, 5, tt)])] [] [1; 1; 3; 4; 40; 1; 1; 110; 5; 111; 116; 104; 101; 114; 1; 119; 1; 111; 0].
Proof. vm_compute; repeat split; reflexivity. Qed.

(* ---- case 43: per-transaction update, holes, pending ---- Rust: insert set [(2, [(0, 4, tt)])], delete set [] *)
Definition wbf_txn_store_43 : wbf_store := [
   (2, [(BItem (mkid 2 0) None None (PNamed [116; 50]) None (BString [120; 240; 159; 152; 128; 121]), false)]);
   (3, [(BSkip (mkid 3 0) 4, false);
        (BItem (mkid 3 4) None None (PNamed [110]) (Some [111; 116; 104; 101; 114]) (BAny [(AString [111])]), false)])].
Example wbf_case_43_txn : wbf_txn_check wbf_txn_store_43 [(2, [(0, 4, tt)])] [] [1; 1; 2; 0; 4; 1; 2; 116; 50; 6; 120; 240; 159; 152; 128; 121; 0].
Proof. vm_compute; repeat split; reflexivity. Qed.

(* ==== store 6: hole for 3, client 2 with a pending block, client 1 only pending (pending true, pending_ds false) ==== *)
Definition wbf_store_6 : wbf_store := [
   (2, [(BItem (mkid 2 0) None None (PNamed [116; 50]) None (BString [120; 240; 159; 152; 128; 121]), false)]);
   (3, [(BSkip (mkid 3 0) 4, false);
        (BItem (mkid 3 4) None None (PNamed [110]) (Some [111; 116; 104; 101; 114]) (BAny [(AString [111])]), false)])].
(* Rust: state_vector() = [(2, 4); (3, 0)] *)
Example wbf_store_6_sv : wbf_sv_check wbf_store_6 [(2, 4); (3, 0)].
Proof. vm_compute; reflexivity. Qed.
(* ---- case 44: pending, empty vector ---- Rust: encode_diff_v1([]) = 36 bytes; encode_state_as_update_v1 DIFFERS (pending merged) *)
Example wbf_case_44_diff : wbf_diff_check wbf_store_6 [] [2; 2; 3; 0; 10; 4; 40; 1; 1; 110; 5; 111; 116; 104; 101; 114; 1; 119; 1; 111; 1; 2; 0; 4; 1; 2; 116; 50; 6; 120; 240; 159; 152; 128; 121; 0].
Proof. vm_compute; repeat split; reflexivity. Qed.
(* encode_state_as_update_v1: [3; 1; 3; 4; 40; 1; 1; 110; 5; 111; 116; 104; 101; 114; 1; 119; 1; 111; 3; 2; 0; 4; 1; 2; 116; 50; 6; 120; 240; 159; 152; 128; 121; 10; 2; 72; 2; 4; 1; 119; 1; 114; 1; 1; 8; 132; 1; 7; 6; 32; 119; 111; 114; 108; 100; 0] *)
(* Rust: diff_updates_v1(encode_diff_v1([]), sv) DIFFERS from encode_diff_v1(sv) *)
Example wbf_case_44_dff : wbf_dff_check wbf_store_6 [] [2; 1; 3; 4; 40; 1; 1; 110; 5; 111; 116; 104; 101; 114; 1; 119; 1; 111; 1; 2; 0; 4; 1; 2; 116; 50; 6; 120; 240; 159; 152; 128; 121; 0].
Proof. vm_compute; reflexivity. Qed.
(* ---- case 45: pending, vector inside the surrogate pair of client 2 ---- Rust: encode_diff_v1([(2, 2)]) = 29 bytes; encode_state_as_update_v1 DIFFERS (pending merged) *)
Example wbf_case_45_diff : wbf_diff_check wbf_store_6 [(2, 2)] [2; 2; 3; 0; 10; 4; 40; 1; 1; 110; 5; 111; 116; 104; 101; 114; 1; 119; 1; 111; 1; 2; 2; 132; 2; 1; 1; 121; 0].
Proof. vm_compute; repeat split; reflexivity. Qed.
(* encode_state_as_update_v1: [3; 1; 3; 4; 40; 1; 1; 110; 5; 111; 116; 104; 101; 114; 1; 119; 1; 111; 3; 2; 2; 132; 2; 1; 1; 121; 10; 3; 72; 2; 4; 1; 119; 1; 114; 1; 1; 8; 132; 1; 7; 6; 32; 119; 111; 114; 108; 100; 0] *)
(* Rust: diff_updates_v1(encode_diff_v1([]), sv) DIFFERS from encode_diff_v1(sv) *)
Example wbf_case_45_dff : wbf_dff_check wbf_store_6 [(2, 2)] [2; 1; 3; 4; 40; 1; 1; 110; 5; 111; 116; 104; 101; 114; 1; 119; 1; 111; 1; 2; 2; 132; 2; 1; 1; 121; 0].
Proof. vm_compute; reflexivity. Qed.
(* ---- case 46: pending, vector behind the pair ---- Rust: encode_diff_v1([(2, 3); (3, 4)]) = 27 bytes; encode_state_as_update_v1 DIFFERS (pending merged) *)
Example wbf_case_46_diff : wbf_diff_check wbf_store_6 [(2, 3); (3, 4)] [2; 1; 3; 4; 40; 1; 1; 110; 5; 111; 116; 104; 101; 114; 1; 119; 1; 111; 1; 2; 3; 132; 2; 2; 1; 121; 0].
Proof. vm_compute; repeat split; reflexivity. Qed.
(* encode_state_as_update_v1: [3; 1; 3; 4; 40; 1; 1; 110; 5; 111; 116; 104; 101; 114; 1; 119; 1; 111; 3; 2; 3; 132; 2; 2; 1; 121; 10; 2; 72; 2; 4; 1; 119; 1; 114; 1; 1; 8; 132; 1; 7; 6; 32; 119; 111; 114; 108; 100; 0] *)
(* Rust: diff_updates_v1(encode_diff_v1([]), sv) gives the same bytes *)
Example wbf_case_46_dff : wbf_dff_check wbf_store_6 [(2, 3); (3, 4)] [2; 1; 3; 4; 40; 1; 1; 110; 5; 111; 116; 104; 101; 114; 1; 119; 1; 111; 1; 2; 3; 132; 2; 2; 1; 121; 0].
Proof. vm_compute; reflexivity. Qed.
(* ---- case 47: pending blocks merged, empty vector ---- Rust: encode_state_as_update_v1([]); pending true, pending_ds false *)
Example wbf_case_47_full : wbf_full_check wbf_store_6 [] [[1; 1; 1; 8; 132; 1; 7; 6; 32; 119; 111; 114; 108; 100; 0]; [1; 1; 2; 6; 72; 2; 4; 1; 119; 1; 114; 0]] None [3; 1; 3; 4; 40; 1; 1; 110; 5; 111; 116; 104; 101; 114; 1; 119; 1; 111; 3; 2; 0; 4; 1; 2; 116; 50; 6; 120; 240; 159; 152; 128; 121; 10; 2; 72; 2; 4; 1; 119; 1; 114; 1; 1; 8; 132; 1; 7; 6; 32; 119; 111; 114; 108; 100; 0].
Proof. vm_compute; reflexivity. Qed.
(* ---- case 48: pending blocks merged, vector behind the pair ---- Rust: encode_state_as_update_v1([(2, 3); (3, 4)]); pending true, pending_ds false *)
Example wbf_case_48_full : wbf_full_check wbf_store_6 [(2, 3); (3, 4)] [[1; 1; 1; 8; 132; 1; 7; 6; 32; 119; 111; 114; 108; 100; 0]; [1; 1; 2; 6; 72; 2; 4; 1; 119; 1; 114; 0]] None [3; 1; 3; 4; 40; 1; 1; 110; 5; 111; 116; 104; 101; 114; 1; 119; 1; 111; 3; 2; 3; 132; 2; 2; 1; 121; 10; 2; 72; 2; 4; 1; 119; 1; 114; 1; 1; 8; 132; 1; 7; 6; 32; 119; 111; 114; 108; 100; 0].
Proof. vm_compute; reflexivity. Qed.

(* ==== store 7: hole for 3, deletions waiting for their blocks (pending false, pending_ds true) ==== *)
Definition wbf_store_7 : wbf_store := [
   (3, [(BSkip (mkid 3 0) 4, false);
        (BItem (mkid 3 4) None None (PNamed [110]) (Some [111; 116; 104; 101; 114]) (BAny [(AString [111])]), false)])].
(* Rust: state_vector() = [(3, 0)] *)
Example wbf_store_7_sv : wbf_sv_check wbf_store_7 [(3, 0)].
Proof. vm_compute; reflexivity. Qed.
(* ---- case 49: pending_ds, empty vector ---- Rust: encode_diff_v1([]) = 21 bytes; encode_state_as_update_v1 DIFFERS (pending merged) *)
Example wbf_case_49_diff : wbf_diff_check wbf_store_7 [] [1; 2; 3; 0; 10; 4; 40; 1; 1; 110; 5; 111; 116; 104; 101; 114; 1; 119; 1; 111; 0].
Proof. vm_compute; repeat split; reflexivity. Qed.
(* encode_state_as_update_v1: [1; 1; 3; 4; 40; 1; 1; 110; 5; 111; 116; 104; 101; 114; 1; 119; 1; 111; 2; 1; 1; 4; 3; 3; 1; 0; 4] *)
(* Rust: diff_updates_v1(encode_diff_v1([]), sv) DIFFERS from encode_diff_v1(sv) *)
Example wbf_case_49_dff : wbf_dff_check wbf_store_7 [] [1; 1; 3; 4; 40; 1; 1; 110; 5; 111; 116; 104; 101; 114; 1; 119; 1; 111; 0].
Proof. vm_compute; reflexivity. Qed.
(* ---- case 50: pending_ds merged, empty vector ---- Rust: encode_state_as_update_v1([]); pending false, pending_ds true *)
Example wbf_case_50_full : wbf_full_check wbf_store_7 [] [] (Some [(1, [(4, 7, tt)]); (3, [(0, 4, tt)])]) [1; 1; 3; 4; 40; 1; 1; 110; 5; 111; 116; 104; 101; 114; 1; 119; 1; 111; 2; 1; 1; 4; 3; 3; 1; 0; 4].
Proof. vm_compute; reflexivity. Qed.
(* ---- case 51: pending_ds merged, vector inside the hole ---- Rust: encode_state_as_update_v1([(3, 2)]); pending false, pending_ds true *)
Example wbf_case_51_full : wbf_full_check wbf_store_7 [(3, 2)] [] (Some [(1, [(4, 7, tt)]); (3, [(0, 4, tt)])]) [1; 1; 3; 4; 40; 1; 1; 110; 5; 111; 116; 104; 101; 114; 1; 119; 1; 111; 2; 1; 1; 4; 3; 3; 1; 0; 4].
Proof. vm_compute; reflexivity. Qed.

(* ---- case 52: per-transaction update, hole filled in front of a deleted block ---- Rust: insert set [(4, [(2, 3, tt)])], delete set [] *)
Definition wbf_txn_store_52 : wbf_store := [
   (4, [(BSkip (mkid 4 0) 2, false);
        (BItem (mkid 4 2) None None (PNamed [109]) (Some [107; 51]) (BAny [(AString [118; 51])]), false)])].
Example wbf_case_52_txn : wbf_txn_check wbf_txn_store_52 [(4, [(2, 3, tt)])] [] [1; 1; 4; 2; 40; 1; 1; 109; 2; 107; 51; 1; 119; 2; 118; 51; 0].
Proof. vm_compute; repeat split; reflexivity. Qed.

(* ---- case 53: per-transaction update, hole filled in front of a deleted block ---- Rust: insert set [], delete set [(4, [(2, 3, tt)])] *)
Definition wbf_txn_store_53 : wbf_store := [
   (4, [(BSkip (mkid 4 0) 2, false);
        (BItem (mkid 4 2) None None (PNamed [109]) (Some [107; 51]) (BAny [(AString [118; 51])]), true)])].
Example wbf_case_53_txn : wbf_txn_check wbf_txn_store_53 [] [(4, [(2, 3, tt)])] [0; 1; 4; 1; 2; 1].
Proof. vm_compute; repeat split; reflexivity. Qed.

(* ---- case 54: per-transaction update, hole filled in front of a deleted block ---- Rust: insert set [(4, [(0, 1, tt)])], delete set [] *)
Definition wbf_txn_store_54 : wbf_store := [
   (4, [(BItem (mkid 4 0) None None (PNamed [109]) (Some [107; 49]) (BAny [(AString [118; 49])]), false);
        (BSkip (mkid 4 1) 1, false);
        (BItem (mkid 4 2) None None (PNamed [109]) (Some [107; 51]) (BAny [(AString [118; 51])]), true)])].
Example wbf_case_54_txn : wbf_txn_check wbf_txn_store_54 [(4, [(0, 1, tt)])] [] [1; 1; 4; 0; 40; 1; 1; 109; 2; 107; 49; 1; 119; 2; 118; 49; 0].
Proof. vm_compute; repeat split; reflexivity. Qed.
(* third party that hears only the last event of the replica: map m = {k1=v1}; the replica itself: m = {k1=v1} *)

(* ---- case 55: per-transaction update, two pieces, not adjacent (Skip inside the event) ---- Rust: insert set [(1, [(0, 1, tt); (2, 3, tt)]); (2, [(0, 4, tt)])], delete set [] *)
Definition wbf_txn_store_55 : wbf_store := [
   (1, [(BItem (mkid 1 0) None None (PNamed [109]) (Some [107; 49]) (BAny [(AString [118; 49])]), false);
        (BSkip (mkid 1 1) 1, false);
        (BItem (mkid 1 2) None None (PNamed [109]) (Some [107; 51]) (BAny [(AString [118; 51])]), false)]);
   (2, [(BItem (mkid 2 0) None None (PNamed [116; 50]) None (BString [120; 240; 159; 152; 128; 121]), false)])].
Example wbf_case_55_txn : wbf_txn_check wbf_txn_store_55 [(1, [(0, 1, tt); (2, 3, tt)]); (2, [(0, 4, tt)])] [] [2; 1; 2; 0; 4; 1; 2; 116; 50; 6; 120; 240; 159; 152; 128; 121; 3; 1; 0; 40; 1; 1; 109; 2; 107; 49; 1; 119; 2; 118; 49; 10; 1; 40; 1; 1; 109; 2; 107; 51; 1; 119; 2; 118; 51; 0].
Proof. vm_compute; repeat split; reflexivity. Qed.

(* ---- case 56: per-transaction update, two pieces, not adjacent (Skip inside the event) ---- Rust: insert set [(1, [(1, 2, tt)])], delete set [] *)
Definition wbf_txn_store_56 : wbf_store := [
   (1, [(BItem (mkid 1 0) None None (PNamed [109]) (Some [107; 49]) (BAny [(AString [118; 49])]), false);
        (BItem (mkid 1 1) None None (PNamed [109]) (Some [107; 50]) (BAny [(AString [118; 50])]), false);
        (BItem (mkid 1 2) None None (PNamed [109]) (Some [107; 51]) (BAny [(AString [118; 51])]), false)]);
   (2, [(BItem (mkid 2 0) None None (PNamed [116; 50]) None (BString [120; 240; 159; 152; 128; 121]), false)])].
Example wbf_case_56_txn : wbf_txn_check wbf_txn_store_56 [(1, [(1, 2, tt)])] [] [1; 1; 1; 1; 40; 1; 1; 109; 2; 107; 50; 1; 119; 2; 118; 50; 0].
Proof. vm_compute; repeat split; reflexivity. Qed.

(* ---- case 57: per-transaction update, GC ranges, slice trimmed at both ends ---- Rust: insert set [(3, [(4, 6, tt)])], delete set [(3, [(4, 6, tt)])] *)
Definition wbf_txn_store_57 : wbf_store := [
   (3, [(BSkip (mkid 3 0) 4, false);
        (BGC (mkid 3 4) 2, true)])].
Example wbf_case_57_txn : wbf_txn_check wbf_txn_store_57 [(3, [(4, 6, tt)])] [(3, [(4, 6, tt)])] [1; 1; 3; 4; 0; 2; 1; 3; 1; 4; 2].
Proof. vm_compute; repeat split; reflexivity. Qed.

(* ---- case 58: per-transaction update, GC ranges, slice trimmed at both ends ---- Rust: insert set [(3, [(0, 2, tt)])], delete set [(3, [(0, 2, tt)])] *)
Definition wbf_txn_store_58 : wbf_store := [
   (3, [(BGC (mkid 3 0) 2, true);
        (BSkip (mkid 3 2) 2, false);
        (BGC (mkid 3 4) 2, true)])].
Example wbf_case_58_txn : wbf_txn_check wbf_txn_store_58 [(3, [(0, 2, tt)])] [(3, [(0, 2, tt)])] [1; 1; 3; 0; 0; 2; 1; 3; 1; 0; 2].
Proof. vm_compute; repeat split; reflexivity. Qed.

(* ---- case 59: per-transaction update, GC ranges, slice trimmed at both ends ---- Rust: insert set [(3, [(2, 4, tt)])], delete set [(3, [(2, 4, tt)])] *)
Definition wbf_txn_store_59 : wbf_store := [
   (3, [(BGC (mkid 3 0) 6, true)])].
Example wbf_case_59_txn : wbf_txn_check wbf_txn_store_59 [(3, [(2, 4, tt)])] [(3, [(2, 4, tt)])] [1; 1; 3; 2; 0; 2; 1; 3; 1; 2; 2].
Proof. vm_compute; repeat split; reflexivity. Qed.

(* ==== store 8: one GC range made of three (pending false, pending_ds false) ==== *)
Definition wbf_store_8 : wbf_store := [
   (3, [(BGC (mkid 3 0) 6, true)])].
(* Rust: state_vector() = [(3, 6)] *)
Example wbf_store_8_sv : wbf_sv_check wbf_store_8 [(3, 6)].
Proof. vm_compute; reflexivity. Qed.
(* ---- case 60: GC range, vector inside ---- Rust: encode_diff_v1([(3, 3)]) = 11 bytes; encode_state_as_update_v1 gives the same bytes *)
Example wbf_case_60_diff : wbf_diff_check wbf_store_8 [(3, 3)] [1; 1; 3; 3; 0; 3; 1; 3; 1; 0; 6].
Proof. vm_compute; repeat split; reflexivity. Qed.
(* Rust: diff_updates_v1(encode_diff_v1([]), sv) gives the same bytes *)
Example wbf_case_60_dff : wbf_dff_check wbf_store_8 [(3, 3)] [1; 1; 3; 3; 0; 3; 1; 3; 1; 0; 6].
Proof. vm_compute; reflexivity. Qed.
