(* Machine-checked facts about local operations, sticky indexes and quoted ranges of Crdt/Local.v.
   Stdlib only; no axioms.  Every numbered theorem is followed by Print Assumptions. *)
From Coq Require Import List NArith ZArith Bool Lia Permutation.
From YV Require Import Lib.Bytes Codec.UpdateV1 Ids.Ranges Crdt.Doc Crdt.Local.
From YV Require Import Crdt.YataProofs Crdt.MapProofs.
Import ListNotations.
Local Open Scope nat_scope.

(* ====================================================================== *)
(* 0. live units, contents                                                 *)
(* ====================================================================== *)

Lemma live_visible_countable : forall l, filter live l = filter countable (visible l).
Proof.
  intros l. unfold visible. induction l as [|x r IH]; cbn [filter]; [reflexivity|].
  unfold live at 1. destruct (d_del x); cbn [negb andb filter].
  - exact IH.
  - destruct (countable x); [f_equal|]; exact IH.
Qed.

Lemma contents_app : forall a b, contents (a ++ b) = contents a ++ contents b.
Proof. intros a b. unfold contents. rewrite filter_app, map_app. reflexivity. Qed.

Lemma contents_length : forall l, length (contents l) = length (filter live l).
Proof. intros l. unfold contents. apply map_length. Qed.

Lemma contents_cons_live : forall x r, live x = true -> contents (x :: r) = ocont (d_op x) :: contents r.
Proof. intros x r H. unfold contents. cbn [filter]. rewrite H. reflexivity. Qed.

Lemma contents_cons_dead : forall x r, live x = false -> contents (x :: r) = contents r.
Proof. intros x r H. unfold contents. cbn [filter]. rewrite H. reflexivity. Qed.

Lemma last_id_snoc : forall m z, last_id (m ++ [z]) = Some (did z).
Proof. intros m z. unfold last_id. rewrite rev_unit. reflexivity. Qed.

Lemma NoDup_did_prefix : forall a' yo b,
  NoDup (map did ((a' ++ [yo]) ++ b)) -> forall z, In z a' -> did z <> did yo.
Proof.
  intros a' yo b H. rewrite <- app_assoc in H. cbn [app] in H.
  eapply NoDup_did_head. exact H.
Qed.

(* ====================================================================== *)
(* 1. split_live                                                           *)
(* ====================================================================== *)

Lemma split_live_zero : forall l, split_live 0 l = ([], l).
Proof. intros [|x r]; reflexivity. Qed.

Lemma split_live_app : forall i l a b, split_live i l = (a, b) -> l = a ++ b.
Proof.
  intros i l. revert i. induction l as [|x r IH]; intros i a b H.
  - destruct i; cbn [split_live] in H; inversion H; reflexivity.
  - destruct i as [|j]; cbn [split_live] in H.
    + inversion H; reflexivity.
    + destruct (split_live (if live x then j else S j) r) as [a' b'] eqn:E.
      inversion H; subst. cbn [app]. f_equal. eapply IH. exact E.
Qed.
Print Assumptions split_live_app.

Lemma split_live_count : forall i l a b, split_live i l = (a, b) ->
  i <= length (filter live l) -> length (filter live a) = i.
Proof.
  intros i l. revert i. induction l as [|x r IH]; intros i a b H L.
  - cbn [filter length] in L. assert (i = 0) by lia. subst. cbn [split_live] in H.
    inversion H; reflexivity.
  - destruct i as [|j]; cbn [split_live] in H.
    + inversion H; reflexivity.
    + destruct (split_live (if live x then j else S j) r) as [a' b'] eqn:E.
      inversion H; subst. cbn [filter] in *. destruct (live x); cbn [length] in *.
      * f_equal. eapply IH; [exact E|lia].
      * eapply IH; [exact E|lia].
Qed.
Print Assumptions split_live_count.

(* the left part ends with a live item: the i-th live unit *)
Lemma split_live_last : forall i l a b, split_live i l = (a, b) ->
  0 < i -> i <= length (filter live l) ->
  exists a' y, a = a' ++ [y] /\ live y = true.
Proof.
  intros i l. revert i. induction l as [|x r IH]; intros i a b H P L.
  - cbn [filter length] in L. lia.
  - destruct i as [|j]; [lia|]. cbn [split_live] in H.
    destruct (split_live (if live x then j else S j) r) as [a' b'] eqn:E.
    inversion H; subst. cbn [filter] in L. destruct (live x) eqn:Lx; cbn [length] in L.
    + destruct j as [|j'].
      * rewrite split_live_zero in E. inversion E; subst. exists [], x. split; [reflexivity|exact Lx].
      * destruct (IH _ _ _ E) as (a'' & y & Ea & Ly); [lia|lia|].
        exists (x :: a''), y. subst a'. split; [reflexivity|exact Ly].
    + destruct (IH _ _ _ E) as (a'' & y & Ea & Ly); [lia|lia|].
      exists (x :: a''), y. subst a'. split; [reflexivity|exact Ly].
Qed.
Print Assumptions split_live_last.

(* [last_id a] is the id of the i-th live unit (index i-1 of the live units) *)
Lemma nth_error_filter_snoc : forall (a' : list ditem) y b,
  live y = true ->
  nth_error (filter live ((a' ++ [y]) ++ b)) (length (filter live a')) = Some y.
Proof.
  intros a' y b Ly. rewrite <- app_assoc. cbn [app]. rewrite filter_app. cbn [filter]. rewrite Ly.
  rewrite nth_error_app2 by lia. rewrite Nat.sub_diag. reflexivity.
Qed.

Theorem split_live_origin_is_ith : forall i l a b, split_live i l = (a, b) ->
  i <= length (filter live l) ->
  match i with
  | O => a = []
  | S j => exists y, nth_live l j = Some y /\ last_id a = Some (did y) /\ live y = true
  end.
Proof.
  intros i l a b H L. destruct i as [|j].
  - rewrite split_live_zero in H. inversion H; reflexivity.
  - destruct (split_live_last _ _ _ _ H) as (a' & y & Ea & Ly); [lia|exact L|].
    exists y. pose proof (split_live_count _ _ _ _ H L) as Hc.
    pose proof (split_live_app _ _ _ _ H) as Hl. subst a l.
    rewrite filter_app in Hc. cbn [filter] in Hc. rewrite Ly in Hc. rewrite app_length in Hc.
    cbn [length] in Hc. assert (Hj : j = length (filter live a')) by lia.
    split; [|split; [apply last_id_snoc|exact Ly]].
    unfold nth_live. rewrite Hj. apply nth_error_filter_snoc. exact Ly.
Qed.
Print Assumptions split_live_origin_is_ith.

(* ====================================================================== *)
(* 1b. skip_deleted, split_gap                                             *)
(* ====================================================================== *)

Lemma deleted_not_live : forall x, d_del x = true -> live x = false.
Proof. intros x H. unfold live. rewrite H. reflexivity. Qed.

Lemma skip_deleted_app : forall l d b, skip_deleted l = (d, b) -> l = d ++ b.
Proof.
  induction l as [|x r IH]; intros d b H; cbn [skip_deleted] in H.
  - inversion H; reflexivity.
  - destruct (d_del x).
    + destruct (skip_deleted r) as [d' b'] eqn:E. inversion H; subst. cbn [app]. f_equal.
      apply IH. reflexivity.
    + inversion H; reflexivity.
Qed.

Lemma skip_deleted_all_deleted : forall l d b, skip_deleted l = (d, b) ->
  forall z, In z d -> d_del z = true.
Proof.
  induction l as [|x r IH]; intros d b H z Hz; cbn [skip_deleted] in H.
  - inversion H; subst. destruct Hz.
  - destruct (d_del x) eqn:Dx.
    + destruct (skip_deleted r) as [d' b'] eqn:E. inversion H; subst.
      destruct Hz as [Hz|Hz]; [subst z; exact Dx|eapply IH; [reflexivity|exact Hz]].
    + inversion H; subst. destruct Hz.
Qed.

Lemma skip_deleted_head_not_deleted : forall l d x b, skip_deleted l = (d, x :: b) -> d_del x = false.
Proof.
  induction l as [|y r IH]; intros d x b H; cbn [skip_deleted] in H.
  - inversion H.
  - destruct (d_del y) eqn:Dy.
    + destruct (skip_deleted r) as [d' b'] eqn:E. inversion H; subst. eapply IH. reflexivity.
    + inversion H; subst. exact Dy.
Qed.

Lemma filter_live_all_deleted : forall d, (forall z, In z d -> d_del z = true) -> filter live d = [].
Proof.
  induction d as [|x r IH]; intros H; [reflexivity|]. cbn [filter].
  rewrite (deleted_not_live x) by (apply H; left; reflexivity).
  apply IH. intros z Hz. apply H. right. exact Hz.
Qed.

(* [split_gap] = [split_live], then the run of deleted items that follows moves to the left part *)
Lemma split_gap_decompose : forall i l a b, split_gap i l = (a, b) ->
  exists a0 d, split_live i l = (a0, d ++ b) /\ a = a0 ++ d /\
               (forall z, In z d -> d_del z = true) /\
               match b with x :: _ => d_del x = false | [] => True end.
Proof.
  intros i l a b H. unfold split_gap in H.
  destruct (split_live i l) as [a0 b0] eqn:Hs. destruct (skip_deleted b0) as [d b'] eqn:Hk.
  inversion H; subst. exists a0, d.
  split; [f_equal; apply skip_deleted_app; exact Hk|]. split; [reflexivity|].
  split; [eapply skip_deleted_all_deleted; exact Hk|].
  destruct b as [|x b'']; [exact I|]. eapply skip_deleted_head_not_deleted. exact Hk.
Qed.

Lemma split_gap_app : forall i l a b, split_gap i l = (a, b) -> l = a ++ b.
Proof.
  intros i l a b H. destruct (split_gap_decompose _ _ _ _ H) as (a0 & d & Hs & Ea & _ & _).
  rewrite (split_live_app _ _ _ _ Hs), Ea, <- app_assoc. reflexivity.
Qed.
Print Assumptions split_gap_app.

(* the items moved to the left part are deleted: both splits have the same live units on the left *)
Theorem split_gap_live_prefix : forall i l,
  filter live (fst (split_gap i l)) = filter live (fst (split_live i l)).
Proof.
  intros i l. destruct (split_gap i l) as [a b] eqn:H.
  destruct (split_gap_decompose _ _ _ _ H) as (a0 & d & Hs & Ea & Hd & _).
  rewrite Hs. cbn [fst]. rewrite Ea, filter_app, (filter_live_all_deleted d Hd). apply app_nil_r.
Qed.
Print Assumptions split_gap_live_prefix.

Theorem split_gap_right_head_not_deleted : forall i l a b x,
  split_gap i l = (a, x :: b) -> d_del x = false.
Proof.
  intros i l a b x H. destruct (split_gap_decompose _ _ _ _ H) as (a0 & d & _ & _ & _ & Hx). exact Hx.
Qed.
Print Assumptions split_gap_right_head_not_deleted.

Lemma split_gap_count : forall i l a b, split_gap i l = (a, b) ->
  i <= length (filter live l) -> length (filter live a) = i.
Proof.
  intros i l a b H L. pose proof (split_gap_live_prefix i l) as E. rewrite H in E. cbn [fst] in E.
  rewrite E. destruct (split_live i l) as [a0 b0] eqn:Hs. cbn [fst].
  eapply split_live_count; eassumption.
Qed.
Print Assumptions split_gap_count.

(* [last_id a]: the i-th live unit when no tombstone follows it, otherwise the last tombstone of the
   run that follows it; in both cases no live unit lies between the i-th live unit and the gap *)
Theorem split_gap_origin : forall i l a b, split_gap i l = (a, b) ->
  i <= length (filter live l) ->
  exists a0 d, a = a0 ++ d /\ (forall z, In z d -> d_del z = true) /\
    match i with
    | O => a0 = []
    | S j => exists y, nth_live l j = Some y /\ last_id a0 = Some (did y) /\ live y = true
    end.
Proof.
  intros i l a b H L. destruct (split_gap_decompose _ _ _ _ H) as (a0 & d & Hs & Ea & Hd & _).
  exists a0, d. split; [exact Ea|]. split; [exact Hd|].
  exact (split_live_origin_is_ith _ _ _ _ Hs L).
Qed.
Print Assumptions split_gap_origin.

(* ====================================================================== *)
(* 2. local insertion refines insertion into a plain sequence              *)
(* ====================================================================== *)

Lemma yata_insert_nil : forall x, oorigin (d_op x) = None -> yata_insert [] x = [x].
Proof. intros x H. unfold yata_insert. rewrite H. reflexivity. Qed.

(* generic form: when the origin is the last item of [a] and the right origin the first item of [b],
   the conflict scan stops at once and the new item lands between [a] and [b] *)
Lemma yata_insert_at_gap : forall l x a b,
  NoDup (map did l) -> l = a ++ b ->
  oorigin (d_op x) = last_id a -> ororigin (d_op x) = head_id b ->
  yata_insert l x = a ++ x :: b.
Proof.
  intros l x a b Hnd Hl Ho Hr.
  destruct (list_snoc_cases _ a) as [Ea|(a' & yo & Ea)].
  - subst a. cbn [app] in *. subst b. cbn [last_id rev] in Ho.
    destruct l as [|yr post].
    + apply yata_insert_nil. exact Ho.
    + cbn [head_id] in Hr.
      destruct (yata_insert_left_of_rorigin_gen (yr :: post) x (did yr) [] yr post) as (m1 & m2 & Em & Ei).
      * intros o Eo. congruence.
      * exact Hr.
      * reflexivity.
      * reflexivity.
      * symmetry in Em. apply app_eq_nil in Em. destruct Em; subst. exact Ei.
  - subst a. rewrite last_id_snoc in Ho.
    assert (Hpre : forall z, In z a' -> did z <> did yo).
    { subst l. eapply NoDup_did_prefix. exact Hnd. }
    destruct b as [|yr post].
    + destruct (yata_insert_right_of_origin_gen l x (did yo) a' yo []) as (m1 & m2 & Em & Ei).
      * exact Ho.
      * rewrite Hl, <- app_assoc. reflexivity.
      * reflexivity.
      * exact Hpre.
      * symmetry in Em. apply app_eq_nil in Em. destruct Em; subst. rewrite Ei.
        rewrite <- app_assoc. reflexivity.
    + cbn [head_id] in Hr.
      destruct (yata_insert_between_origins_gen l x (did yo) (did yr) a' yo [] yr post)
        as (m1 & m2 & Em & Ei).
      * exact Ho.
      * exact Hr.
      * rewrite Hl, <- app_assoc. reflexivity.
      * reflexivity.
      * reflexivity.
      * exact Hpre.
      * symmetry in Em. apply app_eq_nil in Em. destruct Em; subst. rewrite Ei.
        rewrite <- app_assoc. reflexivity.
Qed.

(* origin / right origin of the created unit: the two neighbours of the gap [split_gap] designates *)
Lemma local_op_origins : forall key l i newid c a b, split_gap i l = (a, b) ->
  oorigin (local_op key l i newid c) = last_id a /\ ororigin (local_op key l i newid c) = head_id b.
Proof. intros key l i newid c a b Hs. unfold local_op. rewrite Hs. split; reflexivity. Qed.

(* the new item lands exactly in the gap [split_gap] designates: after the i-th live unit and the
   tombstones that follow it, immediately before the next item that is not deleted.  (The third
   hypothesis is kept for the shape of the statement; it is not needed any more.) *)
Theorem local_insert_position : forall key l i newid c a b,
  NoDup (map did l) -> split_gap i l = (a, b) ->
  (i = 0 \/ exists a' y, a = a' ++ [y]) ->
  local_insert key l i newid c = a ++ mkditem (local_op key l i newid c) false :: b.
Proof.
  intros key l i newid c a b Hnd Hs _.
  pose proof (split_gap_app _ _ _ _ Hs) as Hl.
  destruct (local_op_origins key l i newid c a b Hs) as [Ho Hr].
  unfold local_insert. apply yata_insert_at_gap; assumption.
Qed.
Print Assumptions local_insert_position.

Lemma split_live_shape : forall i l a b, split_live i l = (a, b) ->
  i <= length (filter live l) -> i = 0 \/ exists a' y, a = a' ++ [y].
Proof.
  intros i l a b H L. destruct i as [|j]; [left; reflexivity|right].
  destruct (split_live_last _ _ _ _ H) as (a' & y & Ea & _); [lia|exact L|].
  exists a', y. exact Ea.
Qed.

Lemma split_gap_shape : forall i l a b, split_gap i l = (a, b) ->
  i <= length (filter live l) -> i = 0 \/ exists a' y, a = a' ++ [y].
Proof.
  intros i l a b H L. destruct (list_snoc_cases _ a) as [Ea|Ea]; [|right; exact Ea].
  left. pose proof (split_gap_count _ _ _ _ H L) as Hc. subst a. symmetry. exact Hc.
Qed.

Lemma firstn_skipn_at : forall (A : Type) (u v : list A) i, length u = i ->
  firstn i (u ++ v) = u /\ skipn i (u ++ v) = v.
Proof.
  intros A u v i H. subst i. split.
  - rewrite firstn_app, Nat.sub_diag, firstn_all. cbn [firstn]. apply app_nil_r.
  - rewrite skipn_app, Nat.sub_diag, skipn_all. reflexivity.
Qed.

Theorem local_insert_refines : forall key l i newid c,
  NoDup (map did l) -> ~ In newid (map did l) ->
  i <= length (filter live l) ->
  live (mkditem (local_op key l i newid c) false) = true ->
  contents (local_insert key l i newid c) = firstn i (contents l) ++ c :: skipn i (contents l).
Proof.
  intros key l i newid c Hnd _ L Hlive.
  destruct (split_gap i l) as [a b] eqn:Hs.
  rewrite (local_insert_position key l i newid c a b Hnd Hs (split_gap_shape _ _ _ _ Hs L)).
  pose proof (split_gap_app _ _ _ _ Hs) as Hl.
  pose proof (split_gap_count _ _ _ _ Hs L) as Hc.
  rewrite contents_app, contents_cons_live by exact Hlive.
  assert (Ec : ocont (d_op (mkditem (local_op key l i newid c) false)) = c).
  { unfold local_op. rewrite Hs. reflexivity. }
  rewrite Ec.
  assert (Hcl : contents l = contents a ++ contents b) by (rewrite Hl; apply contents_app).
  rewrite Hcl.
  destruct (firstn_skipn_at _ (contents a) (contents b) i) as [Ef Es].
  { rewrite contents_length. exact Hc. }
  rewrite Ef, Es. reflexivity.
Qed.
Print Assumptions local_insert_refines.

(* liveness of the created unit only depends on the content *)
Lemma local_op_live : forall key l i newid c,
  live (mkditem (local_op key l i newid c) false) =
  match c with UDeleted | UFormat _ _ => false | _ => true end.
Proof.
  intros key l i newid c. unfold live, countable, local_op.
  destruct (split_gap i l) as [a b]. reflexivity.
Qed.

(* a non-countable unit (format mark) leaves the contents unchanged *)
Theorem local_insert_uncountable : forall key l i newid c,
  NoDup (map did l) -> i <= length (filter live l) ->
  live (mkditem (local_op key l i newid c) false) = false ->
  contents (local_insert key l i newid c) = contents l.
Proof.
  intros key l i newid c Hnd L Hlive.
  destruct (split_gap i l) as [a b] eqn:Hs.
  rewrite (local_insert_position key l i newid c a b Hnd Hs (split_gap_shape _ _ _ _ Hs L)).
  pose proof (split_gap_app _ _ _ _ Hs) as Hl.
  rewrite contents_app, contents_cons_dead by exact Hlive.
  assert (Hcl : contents l = contents a ++ contents b) by (rewrite Hl; apply contents_app).
  rewrite Hcl. reflexivity.
Qed.

Theorem local_insert_ids : forall key l i newid c,
  Permutation (newid :: map did l) (map did (local_insert key l i newid c)).
Proof.
  intros key l i newid c. unfold local_insert.
  set (x := mkditem (local_op key l i newid c) false).
  assert (E : did x = newid).
  { unfold x, did, local_op. destruct (split_gap i l). reflexivity. }
  rewrite <- E. change (did x :: map did l) with (map did (x :: l)).
  apply Permutation_map. apply yata_insert_perm.
Qed.

Theorem local_insert_NoDup : forall key l i newid c,
  NoDup (map did l) -> ~ In newid (map did l) ->
  NoDup (map did (local_insert key l i newid c)).
Proof.
  intros key l i newid c Hnd Hf. eapply Permutation_NoDup; [apply local_insert_ids|].
  constructor; assumption.
Qed.

(* ====================================================================== *)
(* 3. local deletion refines deletion from a plain sequence                *)
(* ====================================================================== *)

Lemma live_kill : forall x, live (mkditem (d_op x) true) = false.
Proof. intros x. reflexivity. Qed.

Theorem local_delete_refines_gen : forall l i n,
  contents (local_delete i n l) = firstn i (contents l) ++ skipn (i + n) (contents l).
Proof.
  induction l as [|x r IH]; intros i n.
  - cbn [local_delete]. unfold contents. cbn [filter map]. rewrite firstn_nil, skipn_nil. reflexivity.
  - cbn [local_delete]. destruct (live x) eqn:Lx.
    + destruct i as [|j].
      * destruct n as [|m].
        -- reflexivity.
        -- rewrite contents_cons_dead by apply live_kill.
           rewrite (contents_cons_live x r Lx). rewrite IH. cbn [firstn plus skipn app]. reflexivity.
      * rewrite !(contents_cons_live x _ Lx). rewrite IH. cbn [firstn plus skipn app]. reflexivity.
    + rewrite !(contents_cons_dead x _ Lx). apply IH.
Qed.

Theorem local_delete_refines : forall l i n,
  i + n <= length (filter live l) ->
  contents (local_delete i n l) = firstn i (contents l) ++ skipn (i + n) (contents l).
Proof. intros l i n _. apply local_delete_refines_gen. Qed.
Print Assumptions local_delete_refines.

(* nothing moves, flags only go up *)
Theorem local_delete_flag_le : forall l i n, flag_le l (local_delete i n l).
Proof.
  induction l as [|x r IH]; intros i n; cbn [local_delete].
  - constructor.
  - destruct (live x).
    + destruct i as [|j].
      * destruct n as [|m].
        -- apply flag_le_refl.
        -- constructor; [|apply IH]. split; [reflexivity|]. intros _. reflexivity.
      * constructor; [apply flag_le1_refl|apply IH].
    + constructor; [apply flag_le1_refl|apply IH].
Qed.

Theorem local_delete_ids : forall l i n, map did (local_delete i n l) = map did l.
Proof. intros l i n. symmetry. apply flag_le_ids. apply local_delete_flag_le. Qed.
Print Assumptions local_delete_ids.

Theorem local_delete_ops : forall l i n, map d_op (local_delete i n l) = map d_op l.
Proof.
  intros l i n. pose proof (local_delete_flag_le l i n) as H.
  induction H as [|a b l1 l2 [H1 _] _ IH]; [reflexivity|]. cbn [map]. rewrite H1, IH. reflexivity.
Qed.

(* exactly n live units die (when there are that many) *)
Theorem local_delete_count : forall l i n,
  i + n <= length (filter live l) ->
  length (filter live (local_delete i n l)) + n = length (filter live l).
Proof.
  intros l i n L. rewrite <- !contents_length, local_delete_refines_gen.
  rewrite app_length, firstn_length, skipn_length, contents_length. lia.
Qed.

(* ====================================================================== *)
(* 5. sticky indexes                                                       *)
(* ====================================================================== *)

Lemma id_eqb_sym : forall a b, id_eqb a b = id_eqb b a.
Proof. intros a b. unfold id_eqb. rewrite (N.eqb_sym (cl a)), (N.eqb_sym (ck a)). reflexivity. Qed.

Lemma first_occ_iff : forall a (pre : list ditem),
  (forall z, In z pre -> did z <> a) <-> ~ In a (map did pre).
Proof.
  intros a pre. split.
  - intros H Hin. apply in_map_iff in Hin. destruct Hin as (z & Ez & Hz). apply (H z Hz Ez).
  - intros H z Hz E. apply H. rewrite <- E. apply in_map. exact Hz.
Qed.

Lemma live_before_spec : forall a pre x post,
  (forall z, In z pre -> did z <> a) -> did x = a ->
  live_before a (pre ++ x :: post) = Some (length (filter live pre)).
Proof.
  intros a pre x post Hpre Hx. induction pre as [|h t IH]; cbn [app live_before].
  - rewrite Hx, id_eqb_refl. reflexivity.
  - assert (Eh : id_eqb (did h) a = false) by (apply id_eqb_neq; apply Hpre; left; reflexivity).
    rewrite Eh, IH by (intros z Hz; apply Hpre; right; exact Hz).
    cbn [filter]. destruct (live h); reflexivity.
Qed.

Lemma find_in_list_first : forall a pre x post,
  (forall z, In z pre -> did z <> a) -> did x = a ->
  find_in_list a (pre ++ x :: post) = Some x.
Proof.
  intros a pre x post Hpre Hx. induction pre as [|h t IH]; cbn [app find_in_list].
  - rewrite Hx, id_eqb_refl. reflexivity.
  - assert (Eh : id_eqb (did h) a = false) by (apply id_eqb_neq; apply Hpre; left; reflexivity).
    rewrite Eh. apply IH. intros z Hz; apply Hpre; right; exact Hz.
Qed.

(* the offset of an item anchor: the live units left of it, plus the anchor itself when it is live
   and the association is Before *)
Theorem sticky_offset_spec : forall pre x post after,
  (forall z, In z pre -> did z <> did x) ->
  sticky_offset (pre ++ x :: post) (AItem (did x)) after =
  Some (length (filter live pre) + (if live x && negb after then 1 else 0)).
Proof.
  intros pre x post after Hpre. unfold sticky_offset.
  rewrite (live_before_spec (did x) pre x post Hpre eq_refl).
  rewrite (find_in_list_first (did x) pre x post Hpre eq_refl).
  destruct (live x), after; cbn [andb negb]; f_equal; lia.
Qed.
Print Assumptions sticky_offset_spec.

Lemma in_split_first : forall a (l : list ditem), In a (map did l) ->
  exists pre x post, l = pre ++ x :: post /\ did x = a /\ (forall z, In z pre -> did z <> a).
Proof.
  intros a l. induction l as [|h t IH]; intros H; [destruct H|].
  destruct (id_eqb (did h) a) eqn:E.
  - apply id_eqb_eq in E. exists [], h, t. split; [reflexivity|]. split; [exact E|]. intros z [].
  - apply id_eqb_neq in E. destruct H as [H|H]; [contradiction|].
    destruct (IH H) as (pre & x & post & El & Ex & Hpre).
    exists (h :: pre), x, post. subst t. split; [reflexivity|]. split; [exact Ex|].
    intros z [Hz|Hz]; [subst z; exact E|apply Hpre; exact Hz].
Qed.

Lemma nth_live_split : forall l i x, nth_error (filter live l) i = Some x ->
  exists pre post, l = pre ++ x :: post /\ length (filter live pre) = i /\ live x = true.
Proof.
  induction l as [|y r IH]; intros i x H.
  - destruct i; discriminate H.
  - cbn [filter] in H. destruct (live y) eqn:Ly.
    + destruct i as [|j]; cbn [nth_error] in H.
      * inversion H; subst. exists [], r. split; [reflexivity|]. split; [reflexivity|exact Ly].
      * destruct (IH _ _ H) as (pre & post & El & Ec & Lx).
        exists (y :: pre), post. subst r. split; [reflexivity|]. cbn [filter]. rewrite Ly.
        cbn [length]. split; [f_equal; exact Ec|exact Lx].
    + destruct (IH _ _ H) as (pre & post & El & Ec & Lx).
      exists (y :: pre), post. subst r. split; [reflexivity|]. cbn [filter]. rewrite Ly.
      split; [exact Ec|exact Lx].
Qed.

(* an item anchor always designates a live unit at creation *)
Theorem sticky_anchor_live : forall l i after a,
  sticky_at l i after = Some (AItem a) -> exists x, In x l /\ did x = a /\ live x = true.
Proof.
  intros l i after a H. unfold sticky_at, nth_live in H.
  assert (G : forall j x, nth_error (filter live l) j = Some x -> Some (AItem (did x)) = Some (AItem a) ->
              exists x, In x l /\ did x = a /\ live x = true).
  { intros j x Hn E. inversion E; subst. exists x.
    apply nth_error_In in Hn. apply filter_In in Hn. destruct Hn as [Hin Lx].
    split; [exact Hin|]. split; [reflexivity|exact Lx]. }
  destruct after.
  - destruct (nth_error (filter live l) i) as [x|] eqn:Hn; [eapply G; eassumption|discriminate H].
  - destruct i as [|j]; [discriminate H|].
    destruct (nth_error (filter live l) j) as [x|] eqn:Hn; [eapply G; eassumption|discriminate H].
Qed.
Print Assumptions sticky_anchor_live.

(* a sticky index resolves to where it was created *)
Theorem sticky_resolves_next_to_anchor : forall l i after an,
  NoDup (map did l) -> sticky_at l i after = Some an -> sticky_offset l an after = Some i.
Proof.
  intros l i after an Hnd H. unfold sticky_at, nth_live in H.
  assert (G : forall j x, nth_error (filter live l) j = Some x ->
              sticky_offset l (AItem (did x)) after = Some (j + (if negb after then 1 else 0))).
  { intros j x Hn. destruct (nth_live_split _ _ _ Hn) as (pre & post & El & Ec & Lx). subst l.
    rewrite sticky_offset_spec by (eapply NoDup_did_head; exact Hnd).
    rewrite Lx, Ec. reflexivity. }
  destruct after.
  - destruct (nth_error (filter live l) i) as [x|] eqn:Hn.
    + inversion H; subst. rewrite (G _ _ Hn). cbn [negb]. f_equal. lia.
    + discriminate H.
  - destruct i as [|j].
    + inversion H; subst. reflexivity.
    + destruct (nth_error (filter live l) j) as [x|] eqn:Hn; [|discriminate H].
      inversion H; subst. rewrite (G _ _ Hn). cbn [negb]. f_equal. lia.
Qed.
Print Assumptions sticky_resolves_next_to_anchor.

(* every index in range can be made sticky: Before at every gap, After in front of every element (there is no element
   at the very end, and the code answers None there) *)
Theorem sticky_at_total : forall l i after,
  i <= length (filter live l) -> (after = true -> i < length (filter live l)) ->
  exists an, sticky_at l i after = Some an.
Proof.
  intros l i after L La. unfold sticky_at, nth_live. destruct after.
  - destruct (nth_error (filter live l) i) as [x|] eqn:Hn; [eexists; reflexivity|].
    apply nth_error_None in Hn. specialize (La eq_refl). lia.
  - destruct i as [|j]; [eexists; reflexivity|].
    destruct (nth_error (filter live l) j) as [x|] eqn:Hn; [eexists; reflexivity|].
    apply nth_error_None in Hn. lia.
Qed.

(* and only those *)
Theorem sticky_at_none_at_end : forall l, sticky_at l (length (filter live l)) true = None.
Proof.
  intros l. unfold sticky_at, nth_live.
  destruct (nth_error (filter live l) (length (filter live l))) as [x|] eqn:Hn; [|reflexivity].
  assert (length (filter live l) < length (filter live l)) by (apply nth_error_Some; rewrite Hn; discriminate). lia.
Qed.

(* --- insertions --- *)

Lemma live_before_insert : forall a x l1 l2, did x <> a ->
  live_before a (l1 ++ x :: l2) =
  option_map (fun n => n + (if live x && negb (mem_id a (map did l1)) then 1 else 0))
             (live_before a (l1 ++ l2)).
Proof.
  intros a x l1 l2 Hx. apply id_eqb_neq in Hx.
  induction l1 as [|h t IH]; cbn [app live_before map].
  - rewrite Hx. cbn [mem_id existsb negb]. rewrite andb_true_r.
    destruct (live_before a l2) as [n|]; cbn [option_map]; [|reflexivity].
    destruct (live x); f_equal; lia.
  - unfold mem_id. cbn [existsb]. fold (mem_id a (map did t)). rewrite (id_eqb_sym a (did h)).
    destruct (id_eqb (did h) a) eqn:E; cbn [orb negb].
    + rewrite andb_false_r. reflexivity.
    + rewrite IH. destruct (live_before a (t ++ l2)) as [n|]; cbn [option_map]; [|reflexivity].
      destruct (live h); f_equal; lia.
Qed.

Theorem sticky_offset_insert : forall l1 l2 x a after n, did x <> a ->
  sticky_offset (l1 ++ l2) (AItem a) after = Some n ->
  sticky_offset (l1 ++ x :: l2) (AItem a) after =
  Some (n + (if live x && negb (mem_id a (map did l1)) then 1 else 0)).
Proof.
  intros l1 l2 x a after n Hx H. unfold sticky_offset in *.
  rewrite (find_in_list_insert a x l1 l2 Hx), (live_before_insert a x l1 l2 Hx).
  destruct (live_before a (l1 ++ l2)) as [m|]; [|discriminate H]. cbn [option_map].
  destruct (find_in_list a (l1 ++ l2)) as [y|]; [|discriminate H].
  inversion H; subst. destruct (live y), after; f_equal; lia.
Qed.

(* Integrating any other item shifts the offset by exactly the number of new live units that land
   left of the anchor.  [yata_insert l x = l1 ++ x :: l2]: the anchor is right of [x] iff it is
   not in [l1]. *)
Theorem sticky_stable_under_insert : forall l x a after n, did x <> a ->
  sticky_offset l (AItem a) after = Some n ->
  exists l1 l2, l = l1 ++ l2 /\ yata_insert l x = l1 ++ x :: l2 /\
    sticky_offset (yata_insert l x) (AItem a) after =
    Some (n + (if live x && negb (mem_id a (map did l1)) then 1 else 0)).
Proof.
  intros l x a after n Hx H. destruct (yata_insert_inserts_once l x) as (l1 & l2 & El & Ei).
  exists l1, l2. split; [exact El|]. split; [exact Ei|]. rewrite Ei.
  apply sticky_offset_insert; [exact Hx|]. rewrite <- El. exact H.
Qed.
Print Assumptions sticky_stable_under_insert.

(* the two readings *)
Corollary sticky_insert_right_of_anchor : forall l1 l2 x a after n, did x <> a ->
  In a (map did l1) ->
  sticky_offset (l1 ++ l2) (AItem a) after = Some n ->
  sticky_offset (l1 ++ x :: l2) (AItem a) after = Some n.
Proof.
  intros l1 l2 x a after n Hx Hin H. rewrite (sticky_offset_insert l1 l2 x a after n Hx H).
  apply DeliverProofs.mem_id_In in Hin. rewrite Hin. cbn [negb]. rewrite andb_false_r. f_equal. lia.
Qed.

Corollary sticky_insert_left_of_anchor : forall l1 l2 x a after n, did x <> a ->
  ~ In a (map did l1) ->
  sticky_offset (l1 ++ l2) (AItem a) after = Some n ->
  sticky_offset (l1 ++ x :: l2) (AItem a) after = Some (if live x then S n else n).
Proof.
  intros l1 l2 x a after n Hx Hin H. rewrite (sticky_offset_insert l1 l2 x a after n Hx H).
  destruct (mem_id a (map did l1)) eqn:E.
  - apply DeliverProofs.mem_id_In in E. contradiction.
  - cbn [negb]. rewrite andb_true_r. destruct (live x); f_equal; lia.
Qed.

(* the branch anchors: start stays 0, end follows the length *)
Theorem sticky_branch_offset : forall l after,
  sticky_offset l ABranch after = Some (if after then length (filter live l) else 0).
Proof. reflexivity. Qed.

(* --- deleted anchor --- *)

(* when the anchor is no longer live both associations resolve to the gap where it used to be *)
Theorem sticky_deleted_anchor : forall pre x post after,
  (forall z, In z pre -> did z <> did x) -> live x = false ->
  sticky_offset (pre ++ x :: post) (AItem (did x)) after = Some (length (filter live pre)).
Proof.
  intros pre x post after Hpre Lx. rewrite sticky_offset_spec by exact Hpre. rewrite Lx.
  cbn [andb]. f_equal. lia.
Qed.
Print Assumptions sticky_deleted_anchor.

(* --- deletions (any flag change that keeps the operations) --- *)

Lemma flag_le1_live : forall a b, flag_le1 a b -> live b = true -> live a = true.
Proof.
  intros a b [Hop Hd] H. unfold live, countable in *. rewrite Hop.
  apply andb_true_iff in H. destruct H as [H1 H2]. rewrite H2, andb_true_r.
  destruct (d_del a); [|reflexivity]. rewrite (Hd eq_refl) in H1. discriminate.
Qed.

Definition newly_dead (l l' : list ditem) : nat :=
  length (filter (fun p => live (fst p) && negb (live (snd p))) (combine l l')).

Lemma flag_le_live_count : forall l l', flag_le l l' ->
  length (filter live l) = length (filter live l') + newly_dead l l'.
Proof.
  intros l l' H. unfold newly_dead. induction H as [|a b l1 l2 Hab _ IH]; [reflexivity|].
  cbn [combine filter fst snd]. pose proof (flag_le1_live a b Hab) as Hl.
  destruct (live a), (live b); cbn [andb negb length]; try lia;
    try (specialize (Hl eq_refl); discriminate).
Qed.

Theorem sticky_stable_under_delete : forall pre x post l' after,
  (forall z, In z pre -> did z <> did x) ->
  flag_le (pre ++ x :: post) l' ->
  exists pre' x' post', l' = pre' ++ x' :: post' /\ flag_le pre pre' /\ flag_le1 x x' /\
    sticky_offset l' (AItem (did x)) after =
    Some (length (filter live pre) - newly_dead pre pre' + (if live x' && negb after then 1 else 0)).
Proof.
  intros pre x post l' after Hpre H.
  apply Forall2_app_inv_l in H. destruct H as (pre' & r' & Hp & Hr & El).
  inversion Hr as [|? x' ? post' Hx Hpost]; subst.
  exists pre', x', post'. split; [reflexivity|]. split; [exact Hp|]. split; [exact Hx|].
  rewrite (flag_le1_did _ _ Hx).
  rewrite sticky_offset_spec.
  - rewrite (flag_le_live_count _ _ Hp). f_equal. lia.
  - apply first_occ_iff. rewrite <- (flag_le_ids _ _ Hp), <- (flag_le1_did _ _ Hx).
    apply first_occ_iff. exact Hpre.
Qed.
Print Assumptions sticky_stable_under_delete.

(* anchor untouched: the offset drops by exactly the live units that died left of it *)
Corollary sticky_stable_under_delete_others : forall pre x post l' after n,
  (forall z, In z pre -> did z <> did x) ->
  flag_le (pre ++ x :: post) l' ->
  sticky_offset (pre ++ x :: post) (AItem (did x)) after = Some n ->
  exists pre' x' post', l' = pre' ++ x' :: post' /\ flag_le pre pre' /\ flag_le1 x x' /\
    (live x' = live x ->
     sticky_offset l' (AItem (did x)) after = Some (n - newly_dead pre pre') /\
     newly_dead pre pre' <= n).
Proof.
  intros pre x post l' after n Hpre H Hn.
  destruct (sticky_stable_under_delete pre x post l' after Hpre H) as (pre' & x' & post' & El & Hp & Hx & Ho).
  exists pre', x', post'. split; [exact El|]. split; [exact Hp|]. split; [exact Hx|].
  intros Elive. rewrite sticky_offset_spec in Hn by exact Hpre. inversion Hn; subst n.
  rewrite Ho, Elive. pose proof (flag_le_live_count _ _ Hp). split; [f_equal; lia|lia].
Qed.

(* instance: the local delete operation *)
Corollary sticky_stable_under_local_delete : forall pre x post i n after,
  (forall z, In z pre -> did z <> did x) ->
  exists pre' x' post', local_delete i n (pre ++ x :: post) = pre' ++ x' :: post' /\
    flag_le pre pre' /\ flag_le1 x x' /\
    sticky_offset (local_delete i n (pre ++ x :: post)) (AItem (did x)) after =
    Some (length (filter live pre) - newly_dead pre pre' + (if live x' && negb after then 1 else 0)).
Proof.
  intros pre x post i n after Hpre.
  apply (sticky_stable_under_delete pre x post); [exact Hpre|apply local_delete_flag_le].
Qed.

(* ====================================================================== *)
(* 4. map / attribute write at list level                                  *)
(* ====================================================================== *)

(* the new entry becomes the right-most item of the chain (no hypothesis on deletion flags needed) *)
Theorem local_set_refines : forall key l newid c,
  NoDup (map did l) ->
  yata_insert l (mkditem (local_set_op key l newid c) false) =
  l ++ [mkditem (local_set_op key l newid c) false].
Proof.
  intros key l newid c Hnd. set (x := mkditem (local_set_op key l newid c) false).
  assert (Ho : oorigin (d_op x) = last_id l) by reflexivity.
  destruct (list_snoc_cases _ l) as [El|(m & z & El)].
  - rewrite El in *. apply yata_insert_nil. exact Ho.
  - rewrite El in Ho. rewrite last_id_snoc in Ho.
    destruct (yata_insert_right_of_origin_gen l x (did z) m z []) as (m1 & m2 & Em & Ei).
    + exact Ho.
    + exact El.
    + reflexivity.
    + rewrite El in Hnd. rewrite <- (app_nil_r (m ++ [z])) in Hnd.
      eapply NoDup_did_prefix. exact Hnd.
    + symmetry in Em. apply app_eq_nil in Em. destruct Em; subst m1 m2. rewrite Ei.
      cbn [app]. rewrite El, <- app_assoc. reflexivity.
Qed.
Print Assumptions local_set_refines.

(* on a chain (every item but the last deleted) the new entry is the value once its left neighbour
   is deleted, which is what integrate_op does for keyed lists *)
Theorem local_set_value : forall key l newid c l',
  NoDup (map did l) ->
  flag_le (yata_insert l (mkditem (local_set_op key l newid c) false)) l' ->
  (forall y, In y l' -> did y = newid -> d_del y = false) ->
  exists x', map_value l' = Some x' /\ d_op x' = local_set_op key l newid c.
Proof.
  intros key l newid c l' Hnd Hf Hlive. rewrite local_set_refines in Hf by exact Hnd.
  apply Forall2_app_inv_l in Hf. destruct Hf as (m' & r' & Hm & Hr & El).
  inversion Hr as [|? x' ? r'' Hx Hnil]; subst. inversion Hnil; subst.
  exists x'. destruct Hx as [Hop Hdel]. cbn [d_op] in Hop. split; [|symmetry; exact Hop].
  unfold map_value. rewrite rev_unit.
  rewrite (Hlive x'); [reflexivity|apply in_or_app; right; left; reflexivity|].
  unfold did. rewrite <- Hop. reflexivity.
Qed.
Print Assumptions local_set_value.

(* ====================================================================== *)
(* 6. quoted ranges                                                        *)
(* ====================================================================== *)

Lemma drop_until_first : forall a incl pre x post,
  (forall z, In z pre -> did z <> a) -> did x = a ->
  drop_until a incl (pre ++ x :: post) = if incl then x :: post else post.
Proof.
  intros a incl pre x post Hpre Hx. induction pre as [|h t IH]; cbn [app drop_until].
  - rewrite Hx, id_eqb_refl. reflexivity.
  - assert (Eh : id_eqb (did h) a = false) by (apply id_eqb_neq; apply Hpre; left; reflexivity).
    rewrite Eh. apply IH. intros z Hz. apply Hpre. right. exact Hz.
Qed.

Lemma take_until_first : forall a incl pre x post,
  (forall z, In z pre -> did z <> a) -> did x = a ->
  take_until a incl (pre ++ x :: post) = pre ++ (if incl then [x] else []).
Proof.
  intros a incl pre x post Hpre Hx. induction pre as [|h t IH]; cbn [app take_until].
  - rewrite Hx, id_eqb_refl. reflexivity.
  - assert (Eh : id_eqb (did h) a = false) by (apply id_eqb_neq; apply Hpre; left; reflexivity).
    rewrite Eh. f_equal. apply IH. intros z Hz. apply Hpre. right. exact Hz.
Qed.

(* start anchor strictly left of the end anchor *)
Theorem quoted_spec : forall l pre xa mid xb post ia ib,
  NoDup (map did l) -> l = pre ++ xa :: mid ++ xb :: post ->
  quoted l (Some (did xa, ia)) (Some (did xb, ib)) =
  filter live ((if ia then [xa] else []) ++ mid ++ (if ib then [xb] else [])).
Proof.
  intros l pre xa mid xb post ia ib Hnd El. subst l. unfold quoted. f_equal.
  rewrite drop_until_first; [| eapply NoDup_did_head; exact Hnd | reflexivity].
  assert (Hnd2 : NoDup (map did (xa :: mid ++ xb :: post))).
  { rewrite map_app in Hnd. apply NoDup_app_inv in Hnd. apply Hnd. }
  destruct ia.
  - change (xa :: mid ++ xb :: post) with ((xa :: mid) ++ xb :: post).
    rewrite take_until_first; [reflexivity| |reflexivity].
    change (xa :: mid ++ xb :: post) with ((xa :: mid) ++ xb :: post) in Hnd2.
    eapply NoDup_did_head. exact Hnd2.
  - rewrite take_until_first; [reflexivity| |reflexivity].
    inversion Hnd2 as [|? ? _ Hnd3]; subst. eapply NoDup_did_head. exact Hnd3.
Qed.
Print Assumptions quoted_spec.

(* start anchor = end anchor, both inclusive *)
Theorem quoted_single : forall l pre xa post,
  NoDup (map did l) -> l = pre ++ xa :: post ->
  quoted l (Some (did xa, true)) (Some (did xa, true)) = filter live [xa].
Proof.
  intros l pre xa post Hnd El. subst l. unfold quoted.
  rewrite drop_until_first; [| eapply NoDup_did_head; exact Hnd | reflexivity].
  cbn [take_until]. rewrite id_eqb_refl. reflexivity.
Qed.
Print Assumptions quoted_single.

(* open ends *)
Theorem quoted_open_end : forall l pre xa post ia,
  NoDup (map did l) -> l = pre ++ xa :: post ->
  quoted l (Some (did xa, ia)) None = filter live ((if ia then [xa] else []) ++ post).
Proof.
  intros l pre xa post ia Hnd El. subst l. unfold quoted.
  rewrite drop_until_first; [| eapply NoDup_did_head; exact Hnd | reflexivity].
  destruct ia; reflexivity.
Qed.

Theorem quoted_open_start : forall l pre xb post ib,
  NoDup (map did l) -> l = pre ++ xb :: post ->
  quoted l None (Some (did xb, ib)) = filter live (pre ++ (if ib then [xb] else [])).
Proof.
  intros l pre xb post ib Hnd El. subst l. unfold quoted.
  rewrite take_until_first; [reflexivity| eapply NoDup_did_head; exact Hnd | reflexivity].
Qed.

(* a live item integrated later between the anchors shows up in the quotation, in list order *)
Theorem quoted_sees_later_insertions : forall l pre xa mid xb post ia ib x,
  NoDup (map did l) -> ~ In (did x) (map did l) ->
  l = pre ++ xa :: mid ++ xb :: post ->
  forall m1 m2, mid = m1 ++ m2 ->
  yata_insert l x = pre ++ xa :: m1 ++ x :: m2 ++ xb :: post ->
  quoted (yata_insert l x) (Some (did xa, ia)) (Some (did xb, ib)) =
  filter live ((if ia then [xa] else []) ++ m1) ++ (if live x then [x] else []) ++
  filter live (m2 ++ (if ib then [xb] else [])).
Proof.
  intros l pre xa mid xb post ia ib x Hnd Hfresh El m1 m2 Em Ei.
  assert (Hnd' : NoDup (map did (yata_insert l x))).
  { eapply Permutation_NoDup; [apply Permutation_map; apply yata_insert_perm|].
    cbn [map]. constructor; assumption. }
  rewrite (quoted_spec (yata_insert l x) pre xa (m1 ++ x :: m2) xb post ia ib Hnd').
  - rewrite !filter_app. cbn [filter]. rewrite <- !app_assoc. destruct (live x); reflexivity.
  - rewrite Ei, <- app_assoc. reflexivity.
Qed.
Print Assumptions quoted_sees_later_insertions.

Corollary quoted_shows_inserted : forall l pre xa mid xb post ia ib x,
  NoDup (map did l) -> ~ In (did x) (map did l) ->
  l = pre ++ xa :: mid ++ xb :: post ->
  forall m1 m2, mid = m1 ++ m2 ->
  yata_insert l x = pre ++ xa :: m1 ++ x :: m2 ++ xb :: post ->
  (In x (quoted (yata_insert l x) (Some (did xa, ia)) (Some (did xb, ib))) <-> live x = true).
Proof.
  intros l pre xa mid xb post ia ib x Hnd Hfresh El m1 m2 Em Ei.
  rewrite (quoted_sees_later_insertions l pre xa mid xb post ia ib x Hnd Hfresh El m1 m2 Em Ei).
  rewrite !in_app_iff. split.
  - intros [H|[H|H]].
    + apply filter_In in H. apply H.
    + destruct (live x); [reflexivity|destruct H].
    + apply filter_In in H. apply H.
  - intros H. right. left. rewrite H. left. reflexivity.
Qed.

(* an item whose origins are the two anchors lands between them, hence in the quotation *)
Corollary quoted_sees_insert_at_anchors : forall l pre xa mid xb post ia ib x,
  NoDup (map did l) -> ~ In (did x) (map did l) ->
  l = pre ++ xa :: mid ++ xb :: post ->
  oorigin (d_op x) = Some (did xa) -> ororigin (d_op x) = Some (did xb) ->
  exists m1 m2, mid = m1 ++ m2 /\
    quoted (yata_insert l x) (Some (did xa, ia)) (Some (did xb, ib)) =
    filter live ((if ia then [xa] else []) ++ m1) ++ (if live x then [x] else []) ++
    filter live (m2 ++ (if ib then [xb] else [])).
Proof.
  intros l pre xa mid xb post ia ib x Hnd Hfresh El Ho Hr.
  destruct (yata_insert_between_origins l x (did xa) (did xb) pre xa mid xb post Ho Hr Hnd El eq_refl eq_refl)
    as (m1 & m2 & Em & Ei).
  exists m1, m2. split; [exact Em|].
  eapply quoted_sees_later_insertions; eassumption.
Qed.
Print Assumptions quoted_sees_insert_at_anchors.

(* deletions: the quotation of the flagged list is the live part of the flagged segment; an item
   that is no longer live is not shown *)
Theorem quoted_hides_deleted : forall l s e y,
  In y (quoted l s e) -> live y = true.
Proof. intros l s e y H. unfold quoted in H. apply filter_In in H. apply H. Qed.

Theorem quoted_after_delete : forall l l' pre xa mid xb post ia ib,
  NoDup (map did l) -> l = pre ++ xa :: mid ++ xb :: post -> flag_le l l' ->
  exists pre' xa' mid' xb' post',
    l' = pre' ++ xa' :: mid' ++ xb' :: post' /\ flag_le1 xa xa' /\ flag_le mid mid' /\ flag_le1 xb xb' /\
    quoted l' (Some (did xa, ia)) (Some (did xb, ib)) =
    filter live ((if ia then [xa'] else []) ++ mid' ++ (if ib then [xb'] else [])).
Proof.
  intros l l' pre xa mid xb post ia ib Hnd El Hf.
  assert (Hnd' : NoDup (map did l')) by (rewrite <- (flag_le_ids _ _ Hf); exact Hnd).
  subst l. apply Forall2_app_inv_l in Hf. destruct Hf as (pre' & r1 & Hp & Hr1 & E1).
  inversion Hr1 as [|? xa' ? r2 Hxa Hr2]; subst.
  apply Forall2_app_inv_l in Hr2. destruct Hr2 as (mid' & r3 & Hm & Hr3 & E3).
  inversion Hr3 as [|? xb' ? post' Hxb Hpost]; subst.
  exists pre', xa', mid', xb', post'. split; [reflexivity|]. split; [exact Hxa|].
  split; [exact Hm|]. split; [exact Hxb|].
  rewrite (flag_le1_did _ _ Hxa), (flag_le1_did _ _ Hxb).
  eapply quoted_spec; [exact Hnd'|reflexivity].
Qed.
Print Assumptions quoted_after_delete.

(* ====================================================================== *)
(* 4b. map write through integrate_op (root-level maps)                    *)
(* ====================================================================== *)

Lemma get_list_set_list_same : forall k l ls, get_list k (set_list k l ls) = l.
Proof.
  intros k l ls. induction ls as [|[k' l'] r IH]; cbn [set_list get_list].
  - rewrite seqkey_eqb_refl. reflexivity.
  - destruct (seqkey_eqb k' k) eqn:E; cbn [get_list].
    + rewrite seqkey_eqb_refl. reflexivity.
    + rewrite E. exact IH.
Qed.

Lemma get_list_tle : forall k ls1 ls2, tle ls1 ls2 -> flag_le (get_list k ls1) (get_list k ls2).
Proof.
  intros k ls1 ls2 H. induction H as [|[k1 l1] [k2 l2] r1 r2 [Hk Hf] _ IH]; cbn [get_list].
  - constructor.
  - cbn [fst snd] in Hk, Hf. subst k2. destruct (seqkey_eqb k1 k); [exact Hf|exact IH].
Qed.

Lemma NoDup_ids_of_list : forall ls k l,
  NoDup (DeliverProofs.ids_of ls) -> In (k, l) ls -> NoDup (map did l).
Proof.
  intros ls k l. unfold DeliverProofs.ids_of.
  induction ls as [|[k' l'] r IH]; intros Hn Hin; [destruct Hin|].
  cbn [flat_map snd] in Hn. apply NoDup_app_inv in Hn. destruct Hn as (H1 & H2 & _).
  destruct Hin as [E|Hin]; [inversion E; subst; exact H1|apply IH; assumption].
Qed.

Theorem local_set_integrates : forall d n k newid c,
  map_wf d -> integrated d newid = false -> c <> UDeleted ->
  exists x,
    map_value (get_list (PNamed n, Some k)
      (d_lists (integrate_op d (local_set_op (PNamed n, Some k)
                                  (get_list (PNamed n, Some k) (d_lists d)) newid c)))) = Some x /\
    d_op x = local_set_op (PNamed n, Some k) (get_list (PNamed n, Some k) (d_lists d)) newid c.
Proof.
  intros d n k newid c (Hinv & Hnk & Hni) Hnot Hc.
  set (key := (PNamed n, Some k)).
  set (l := get_list key (d_lists d)).
  set (o := local_set_op key l newid c).
  assert (Hl : l = [] \/ In (key, l) (d_lists d)).
  { unfold l. destruct (get_list_In key (d_lists d)) as [A|[A _]]; [right; exact A|left; exact A]. }
  assert (Hndl : NoDup (map did l)).
  { destruct Hl as [El|Hl]; [rewrite El; constructor|].
    eapply NoDup_ids_of_list; [exact Hni|exact Hl]. }
  assert (Hfresh : forall z, In z l -> did z <> newid).
  { intros z Hz E. destruct Hl as [El|Hl]; [rewrite El in Hz; destruct Hz|].
    apply (not_integrated_not_in _ _ Hnot). rewrite <- E. eapply in_ids_of; eassumption. }
  assert (Hres : resolve_parent o d = Some key).
  { unfold resolve_parent, o, local_set_op. cbn [oparent oorigin ororigin osub].
    unfold key at 1 2 3. cbn [fst snd].
    destruct (list_snoc_cases _ l) as [El|(m & z & El)].
    - rewrite El. cbn [last_id rev]. reflexivity.
    - rewrite El, last_id_snoc.
      destruct Hl as [Hl|Hl]; [rewrite Hl in El; destruct m; discriminate|].

      rewrite (find_item_In (d_lists d) key l z Hni Hl)
        by (rewrite El; apply in_or_app; right; left; reflexivity).
      reflexivity. }
  unfold integrate_op. rewrite Hres. cbv zeta.
  set (x := mkditem o false).
  assert (Ex : mkditem (mkop (oid o) (oorigin o) (ororigin o) (fst key) (snd key) (ocont o))
                 (match ocont o with UDeleted => true | _ => false end) = x).
  { unfold x. f_equal. unfold o, local_set_op. cbn [ocont]. destruct c; try reflexivity. congruence. }
  rewrite Ex. fold l.
  pose proof (local_set_refines key l newid c Hndl) as Hins. fold o in Hins. fold x in Hins.
  rewrite Hins.
  assert (Hsp : split_after (oid o) (l ++ [x]) = Some (l ++ [x], [])).
  { apply split_after_first; [exact Hfresh|reflexivity]. }
  rewrite Hsp, rev_unit.
  change (snd key) with (Some k). change (fst key) with (PNamed n).
  unfold parent_deleted. cbv beta iota.
  set (d1 := mkdoc (set_list key (l ++ [x]) (d_lists d)) (d_gc d)).
  assert (Hg1 : get_list key (d_lists d1) = l ++ [x]) by apply get_list_set_list_same.
  assert (Hmv : forall l', flag_le (l ++ [x]) l' ->
            (forall y, In y l' -> did y = newid -> d_del y = false) ->
            exists x0, map_value l' = Some x0 /\ d_op x0 = o).
  { intros l' Hf Hlive. rewrite <- Hins in Hf.
    exact (local_set_value key l newid c l' Hndl Hf Hlive). }
  destruct (list_snoc_cases _ l) as [El|(m & z & El)].
  - assert (Hrev : rev l = []) by (rewrite El; reflexivity). rewrite Hrev.
    rewrite Hg1. apply Hmv; [apply flag_le_refl|].
    intros y Hy Ey. rewrite El in Hy. destruct Hy as [Hy|[]]. subst y. reflexivity.
  - assert (Hrev : rev l = z :: rev m) by (rewrite El; apply rev_unit). rewrite Hrev.
    assert (Hd1k : NoDupKeys d1).
    { unfold NoDupKeys, d1. cbn [d_lists]. apply set_list_NoDup_keys. exact Hnk. }
    assert (Hd1i : NoDupIds d1).
    { pose proof (d1_NoDupIds d o key Hni Hnot) as H. cbv zeta in H. rewrite Ex in H.
      fold l in H. rewrite Hins in H. exact H. }
    set (d2 := delete_item (did z) d1).
    pose proof (get_list_tle key _ _ (delete_item_tle (did z) d1)) as Hf. fold d2 in Hf.
    rewrite Hg1 in Hf.
    apply Hmv; [exact Hf|].
    intros y Hy Ey. destruct (d_del y) eqn:Ed; [exfalso|reflexivity].
    assert (Hin2 : In (key, get_list key (d_lists d2)) (d_lists d2)).
    { destruct (get_list_In key (d_lists d2)) as [A|[A _]]; [exact A|].
      rewrite A in Hy. destruct Hy. }
    assert (Hni2 : NoDupIds d2) by (apply delete_item_NoDupIds; exact Hd1i).
    pose proof (find_item_In _ _ _ _ Hni2 Hin2 Hy) as Hfy. rewrite Ey in Hfy.
    assert (Hin1 : In (key, l ++ [x]) (d_lists d1)).
    { destruct (get_list_In key (d_lists d1)) as [A|[A _]]; rewrite Hg1 in A; [exact A|].
      destruct l; discriminate A. }
    assert (Hfx : find_item newid (d_lists d1) = Some (key, x)).
    { apply (find_item_In _ _ _ x Hd1i Hin1). apply in_or_app. right. left. reflexivity. }
    destruct (delete_item_only_deletes_subtree (did z) d1 newid key y Hd1k Hd1i Hfy Ed) as [E|(p & E & _)].
    + intros (k0 & x0 & Hf0 & Hd0). rewrite Hfx in Hf0. inversion Hf0; subst x0. discriminate Hd0.
    + apply (Hfresh z); [rewrite El; apply in_or_app; right; left; reflexivity|symmetry; exact E].
    + discriminate E.
Qed.
Print Assumptions local_set_integrates.

(* ====================================================================== *)
(* 6b. a degenerate request of the quotation model                         *)
(* ====================================================================== *)

(* start = end with an EXCLUSIVE start: the end anchor is searched right of the start, is not found
   there, and the quotation runs to the end of the list (not empty) *)
Theorem quoted_same_anchor_exclusive_start : forall l pre xa post ib,
  NoDup (map did l) -> l = pre ++ xa :: post ->
  quoted l (Some (did xa, false)) (Some (did xa, ib)) = filter live post.
Proof.
  intros l pre xa post ib Hnd El. subst l. unfold quoted.
  rewrite drop_until_first; [| eapply NoDup_did_head; exact Hnd | reflexivity].
  f_equal.
  assert (Hnd2 : NoDup (map did (xa :: post))).
  { rewrite map_app in Hnd. apply NoDup_app_inv in Hnd. apply Hnd. }
  assert (Hpost : forall z, In z post -> did z <> did xa).
  { intros z Hz E. inversion Hnd2 as [|? ? Hn _]; subst. apply Hn. rewrite <- E.
    apply in_map. exact Hz. }
  clear Hnd Hnd2. induction post as [|h t IH]; [reflexivity|]. cbn [take_until].
  assert (Eh : id_eqb (did h) (did xa) = false)
    by (apply id_eqb_neq; apply Hpost; left; reflexivity).
  rewrite Eh. f_equal. apply IH. intros z Hz. apply Hpost. right. exact Hz.
Qed.

(* ====================================================================== *)
(* 7. placement of a local insertion among tombstones                      *)
(* ====================================================================== *)

(* The new unit lands after the tombstones that follow the i-th live unit.  No hypothesis on the
   conflict scan is needed: the right origin is by construction the head of [b] and the origin the
   last item of [a], so the scan stops at once.  (Freshness of [newid] is not needed either; it is
   listed because the neighbouring theorems carry it.) *)
Theorem local_insert_after_following_tombstones : forall key l i newid c a b,
  NoDup (map did l) -> ~ In newid (map did l) -> split_gap i l = (a, b) ->
  local_insert key l i newid c = a ++ mkditem (local_op key l i newid c) false :: b.
Proof.
  intros key l i newid c a b Hnd _ Hs.
  pose proof (split_gap_app _ _ _ _ Hs) as Hl.
  destruct (local_op_origins key l i newid c a b Hs) as [Ho Hr].
  unfold local_insert. apply yata_insert_at_gap; assumption.
Qed.

(* the same relative to [split_live]: exactly the run [d] of deleted items that follows the i-th live
   unit is passed over, and the right neighbour of the new unit, if any, is not deleted *)
Theorem local_insert_gap_shape : forall key l i newid c,
  NoDup (map did l) ->
  exists a0 d b,
    split_live i l = (a0, d ++ b) /\ split_gap i l = (a0 ++ d, b) /\
    (forall z, In z d -> d_del z = true) /\
    match b with x :: _ => d_del x = false | [] => True end /\
    oorigin (local_op key l i newid c) = last_id (a0 ++ d) /\
    ororigin (local_op key l i newid c) = head_id b /\
    local_insert key l i newid c = a0 ++ d ++ mkditem (local_op key l i newid c) false :: b.
Proof.
  intros key l i newid c Hnd. destruct (split_gap i l) as [a b] eqn:Hs.
  destruct (split_gap_decompose _ _ _ _ Hs) as (a0 & d & Hl & Ea & Hd & Hb).
  exists a0, d, b. subst a. split; [exact Hl|]. split; [reflexivity|]. split; [exact Hd|].
  split; [exact Hb|]. destruct (local_op_origins key l i newid c _ _ Hs) as [Ho Hr].
  split; [exact Ho|]. split; [exact Hr|].
  unfold local_insert. rewrite (app_assoc a0 d). apply yata_insert_at_gap; try assumption.
  eapply split_gap_app. exact Hs.
Qed.

(* the placement of the previous model (directly after the i-th live unit, left of the tombstones
   that follow it) does not hold any more: one live unit followed by one tombstone, index 1 *)
Example local_insert_not_before_tombstones :
  let key : seqkey := (PNamed [], None) in
  let A := mkditem (mkop (mkid 1 0) None None (PNamed []) None (UString 65)) false in
  let T := mkditem (mkop (mkid 1 1) (Some (mkid 1 0)) None (PNamed []) None (UString 66)) true in
  let x := mkditem (local_op key [A; T] 1 (mkid 2 0) (UString 67)) false in
  split_live 1 [A; T] = ([A], [T]) /\
  local_insert key [A; T] 1 (mkid 2 0) (UString 67) = [A; T; x] /\
  local_insert key [A; T] 1 (mkid 2 0) (UString 67) <> [A] ++ x :: [T].
Proof.
  cbv zeta. split; [reflexivity|]. split; [vm_compute; reflexivity|]. vm_compute. discriminate.
Qed.

Print Assumptions local_insert_after_following_tombstones.
Print Assumptions local_insert_gap_shape.
Print Assumptions local_insert_not_before_tombstones.
Print Assumptions split_gap_right_head_not_deleted.
Print Assumptions split_gap_live_prefix.

(* ====================================================================== *)
(* 8. direct insertion (XML children)                                      *)
(* ====================================================================== *)

(* origin / right origin of the created unit: the two neighbours of the gap [split_live] designates *)
Lemma local_op_direct_origins : forall key l i newid c a b, split_live i l = (a, b) ->
  oorigin (local_op_direct key l i newid c) = last_id a /\
  ororigin (local_op_direct key l i newid c) = head_id b.
Proof. intros key l i newid c a b Hs. unfold local_op_direct. rewrite Hs. split; reflexivity. Qed.

(* the new item lands exactly in the gap [split_live] designates: immediately after the i-th live
   unit, before any tombstones that follow it *)
Theorem local_insert_direct_position : forall key l i newid c a b,
  NoDup (map did l) -> split_live i l = (a, b) ->
  (i = 0 \/ exists a' y, a = a' ++ [y]) ->
  local_insert_direct key l i newid c = a ++ mkditem (local_op_direct key l i newid c) false :: b.
Proof.
  intros key l i newid c a b Hnd Hs _.
  pose proof (split_live_app _ _ _ _ Hs) as Hl.
  destruct (local_op_direct_origins key l i newid c a b Hs) as [Ho Hr].
  unfold local_insert_direct. apply yata_insert_at_gap; assumption.
Qed.

Theorem local_insert_direct_refines : forall key l i newid c,
  NoDup (map did l) -> ~ In newid (map did l) ->
  i <= length (filter live l) ->
  live (mkditem (local_op_direct key l i newid c) false) = true ->
  contents (local_insert_direct key l i newid c) = firstn i (contents l) ++ c :: skipn i (contents l).
Proof.
  intros key l i newid c Hnd _ L Hlive.
  destruct (split_live i l) as [a b] eqn:Hs.
  rewrite (local_insert_direct_position key l i newid c a b Hnd Hs (split_live_shape _ _ _ _ Hs L)).
  pose proof (split_live_app _ _ _ _ Hs) as Hl.
  pose proof (split_live_count _ _ _ _ Hs L) as Hc.
  rewrite contents_app, contents_cons_live by exact Hlive.
  assert (Ec : ocont (d_op (mkditem (local_op_direct key l i newid c) false)) = c).
  { unfold local_op_direct. rewrite Hs. reflexivity. }
  rewrite Ec.
  assert (Hcl : contents l = contents a ++ contents b) by (rewrite Hl; apply contents_app).
  rewrite Hcl.
  destruct (firstn_skipn_at _ (contents a) (contents b) i) as [Ef Es].
  { rewrite contents_length. exact Hc. }
  rewrite Ef, Es. reflexivity.
Qed.

(* liveness of the created unit only depends on the content *)
Lemma local_op_direct_live : forall key l i newid c,
  live (mkditem (local_op_direct key l i newid c) false) =
  match c with UDeleted | UFormat _ _ => false | _ => true end.
Proof.
  intros key l i newid c. unfold live, countable, local_op_direct.
  destruct (split_live i l) as [a b]. reflexivity.
Qed.

(* a non-countable unit leaves the contents unchanged *)
Theorem local_insert_direct_uncountable : forall key l i newid c,
  NoDup (map did l) -> i <= length (filter live l) ->
  live (mkditem (local_op_direct key l i newid c) false) = false ->
  contents (local_insert_direct key l i newid c) = contents l.
Proof.
  intros key l i newid c Hnd L Hlive.
  destruct (split_live i l) as [a b] eqn:Hs.
  rewrite (local_insert_direct_position key l i newid c a b Hnd Hs (split_live_shape _ _ _ _ Hs L)).
  pose proof (split_live_app _ _ _ _ Hs) as Hl.
  rewrite contents_app, contents_cons_dead by exact Hlive.
  assert (Hcl : contents l = contents a ++ contents b) by (rewrite Hl; apply contents_app).
  rewrite Hcl. reflexivity.
Qed.

Theorem local_insert_direct_ids : forall key l i newid c,
  Permutation (newid :: map did l) (map did (local_insert_direct key l i newid c)).
Proof.
  intros key l i newid c. unfold local_insert_direct.
  set (x := mkditem (local_op_direct key l i newid c) false).
  assert (E : did x = newid).
  { unfold x, did, local_op_direct. destruct (split_live i l). reflexivity. }
  rewrite <- E. change (did x :: map did l) with (map did (x :: l)).
  apply Permutation_map. apply yata_insert_perm.
Qed.

Theorem local_insert_direct_NoDup : forall key l i newid c,
  NoDup (map did l) -> ~ In newid (map did l) ->
  NoDup (map did (local_insert_direct key l i newid c)).
Proof.
  intros key l i newid c Hnd Hf. eapply Permutation_NoDup; [apply local_insert_direct_ids|].
  constructor; assumption.
Qed.

(* both lookups show the same contents; they differ only in the position among tombstones *)
Theorem local_insert_direct_same_contents : forall key l i newid c,
  NoDup (map did l) -> i <= length (filter live l) ->
  contents (local_insert_direct key l i newid c) = contents (local_insert key l i newid c).
Proof.
  intros key l i newid c Hnd L.
  destruct (live (mkditem (local_op key l i newid c) false)) eqn:E.
  - assert (E' : live (mkditem (local_op_direct key l i newid c) false) = true)
      by (rewrite local_op_direct_live; rewrite local_op_live in E; exact E).
    destruct (split_live i l) as [a b] eqn:Hs.
    rewrite (local_insert_direct_position key l i newid c a b Hnd Hs (split_live_shape _ _ _ _ Hs L)).
    destruct (split_gap i l) as [a2 b2] eqn:Hg.
    rewrite (local_insert_position key l i newid c a2 b2 Hnd Hg (split_gap_shape _ _ _ _ Hg L)).
    destruct (split_gap_decompose _ _ _ _ Hg) as (a0 & d & Hs' & Ea & Hd & _).
    rewrite Hs in Hs'. inversion Hs'; subst.
    assert (Hcd : contents d = []) by (unfold contents; rewrite (filter_live_all_deleted d Hd); reflexivity).
    rewrite !contents_app, !contents_cons_live by assumption. rewrite !contents_app, Hcd.
    cbn [app]. rewrite app_nil_r.
    f_equal. f_equal. unfold local_op_direct, local_op. rewrite Hs, Hg. reflexivity.
  - assert (E' : live (mkditem (local_op_direct key l i newid c) false) = false)
      by (rewrite local_op_direct_live; rewrite local_op_live in E; exact E).
    rewrite local_insert_direct_uncountable, local_insert_uncountable by assumption. reflexivity.
Qed.

Print Assumptions local_op_direct_origins.
Print Assumptions local_insert_direct_position.
Print Assumptions local_insert_direct_refines.
Print Assumptions local_op_direct_live.
Print Assumptions local_insert_direct_uncountable.
Print Assumptions local_insert_direct_ids.
Print Assumptions local_insert_direct_NoDup.
Print Assumptions local_insert_direct_same_contents.
