(* Scenarios replayed against the Rust library (yrs at /repo HEAD 7f9cd1e, test tests/itg_cases.rs in a scratch
   worktree, built with --cfg y_crdt_y_crdt_verif).  Small documents of 1-5 clients are edited; every local
   transaction gives one v1 update; a fresh receiver (client 999) applies the listed updates (single, merged with
   merge_updates_v1, full states, duplicates), one transaction per apply_update.  After every apply_update the Rust
   test records: the state vector, whether a pending update is held, the block lists of yrs::verif::dump_store
   (as maximal integrated ranges and holes per client), pending.missing, and the v1 encoding of pending.update.
   [itg_check_case] decodes the same bytes with the model's decoder, runs [itg_apply_update] and compares all of
   this after every step (the stash: the non-Skip blocks per client as (clock, length, kind)). *)
From Coq Require Import List NArith ZArith Bool.
From YV Require Import Gen.Consts Lib.Bytes Codec.Varint Codec.AnyCodec Codec.IdSetCodec Codec.UpdateV1
  Ids.Ranges Crdt.Doc Crdt.Blocks Crdt.Merge.
From YV Require Import Crdt.Integrate.
Import ListNotations.
Open Scope N_scope.

Record itg_expect := itg_mkexpect {
  itg_ex_sv : list (N * N);
  itg_ex_pending : bool;
  itg_ex_ranges : list (N * list (N * N));
  itg_ex_holes : list (N * list (N * N));
  itg_ex_missing : list (N * N);
  itg_ex_pbytes : list N
}.

Definition itg_dec (bs : list N) : option update :=
  match decode_update_v1 (S (length bs)) bs with Ok u [] => Some u | _ => None end.

Definition itg_nn_eqb (a b : N * N) : bool := (fst a =? fst b) && (snd a =? snd b).
Fixpoint itg_list_eqb {A : Type} (eq : A -> A -> bool) (a b : list A) : bool :=
  match a, b with
  | [], [] => true
  | x :: a', y :: b' => eq x y && itg_list_eqb eq a' b'
  | _, _ => false
  end.
Definition itg_pc_eqb (a b : list (N * list (N * N))) : bool :=
  itg_list_eqb (fun x y => (fst x =? fst y) && itg_list_eqb itg_nn_eqb (snd x) (snd y)) a b.
Definition itg_nnn_eqb (a b : N * N * N) : bool := itg_nn_eqb (fst a) (fst b) && (snd a =? snd b).
Definition itg_pb_eqb (a b : list (N * list (N * N * N))) : bool :=
  itg_list_eqb (fun x y => (fst x =? fst y) && itg_list_eqb itg_nnn_eqb (snd x) (snd y)) a b.

(* the non-Skip blocks of a stash, clients ascending, clients without such blocks left out *)
Definition itg_noskip (l : list (N * list (N * N * N))) : list (N * list (N * N * N)) :=
  filter (fun e => match snd e with [] => false | _ => true end)
         (map (fun e => (fst e, filter (fun x => negb (snd x =? 2)) (snd e))) l).
Definition itg_blocks_view (bs : list (N * list block)) : list (N * list (N * N * N)) :=
  itg_noskip (fold_left (fun m e => itg_put m (fst e) (map (fun b => (itg_clock b, block_len b, itg_kind b)) (snd e))) bs []).

Definition itg_matches (s : itg_store) (e : itg_expect) : bool :=
  itg_list_eqb itg_nn_eqb (itg_obs_sv s) (itg_ex_sv e) &&
  Bool.eqb (itg_obs_has_pending s) (itg_ex_pending e) &&
  itg_pc_eqb (itg_obs_ranges s) (itg_ex_ranges e) &&
  itg_pc_eqb (itg_obs_holes s) (itg_ex_holes e) &&
  itg_list_eqb itg_nn_eqb (itg_obs_missing s) (itg_ex_missing e) &&
  match itg_ex_pbytes e with
  | [] => match itg_noskip (itg_obs_pending s) with [] => true | _ => false end
  | bs => match itg_dec bs with
          | Some u => itg_pb_eqb (itg_noskip (itg_obs_pending s)) (itg_blocks_view (u_blocks u))
          | None => false
          end
  end.

Fixpoint itg_check_from (s : itg_store) (us : list (list N)) (es : list itg_expect) : bool :=
  match us, es with
  | [], [] => true
  | bs :: us', e :: es' =>
      match itg_dec bs with
      | Some u =>
          match itg_apply_update_res s u with
          | itg_ok s' => itg_matches s' e && itg_check_from s' us' es'
          | _ => false
          end
      | None => false
      end
  | _, _ => false
  end.
Definition itg_check_case (us : list (list N)) (es : list itg_expect) : bool := itg_check_from itg_empty us es.

(* the stores along a case (for inspection) *)
Fixpoint itg_trace_from (s : itg_store) (us : list (list N)) : list (option itg_store) :=
  match us with
  | [] => []
  | bs :: us' =>
      match itg_dec bs with
      | Some u => match itg_apply_update_res s u with
                  | itg_ok s' => Some s' :: itg_trace_from s' us'
                  | _ => [None]
                  end
      | None => [None]
      end
  end.

(* case01: blocks 7, 8, 9 of client 20 wait for client 10; then one update brings 10:0 and 20:13 (which depends on 20:7); 20:9 depends on 20:5, which is missing. 7 and 8 are integrated on retry, 9 is set aside and 13 with it; the same update again integrates 13; then 20:5 arrives
   clients [20, 10]
   u0 =  { blocks: BlockSet { clients: {ClientID(20): [(<20#0>, len: 5, parent: t: 'hello')]} } }
   u1 =  { blocks: BlockSet { clients: {ClientID(20): [(<20#5>, len: 1, origin-r: <20#0>: 'x')]} } }
   u2 =  { blocks: BlockSet { clients: {ClientID(20): [(<20#6>, len: 1, origin-r: <20#5>: 'y')]} } }
   u3 =  { blocks: BlockSet { clients: {ClientID(10): [(<10#0>, len: 1, origin-l: <20#4>: 'B')]} } }
   u4 =  { blocks: BlockSet { clients: {ClientID(20): [(<20#7>, len: 1, origin-l: <10#0>: 'p')]} } }
   u5 =  { blocks: BlockSet { clients: {ClientID(20): [(<20#8>, len: 1, origin-l: <20#7>: 'q')]} } }
   u6 =  { blocks: BlockSet { clients: {ClientID(20): [(<20#9>, len: 1, origin-l: <20#5>, origin-r: <20#0>: 'r')]} } }
   u7 =  { blocks: BlockSet { clients: {ClientID(20): [(<20#10>, len: 1, origin-l: <20#8>: 's')]} } }
   u8 =  { blocks: BlockSet { clients: {ClientID(20): [(<20#11>, len: 1, origin-l: <20#10>: 't')]} } }
   u9 =  { blocks: BlockSet { clients: {ClientID(20): [(<20#12>, len: 1, origin-l: <20#11>: 'u')]} } }
   u10 =  { blocks: BlockSet { clients: {ClientID(20): [(<20#13>, len: 1, origin-l: <20#7>, origin-r: <20#8>: 'v')]} } }
   plan [One(0), One(4), One(5), One(6), Merge([3, 10]), Merge([3, 10]), One(1), One(2), Merge([7, 8, 9])]; receiver text at the end: "yxrhelloBpvqstu" *)
Definition itg_case01_updates : list (list N) :=
  [[1; 1; 20; 0; 4; 1; 1; 116; 5; 104; 101; 108; 108; 111; 0];
   [1; 1; 20; 7; 132; 10; 0; 1; 112; 0];
   [1; 1; 20; 8; 132; 20; 7; 1; 113; 0];
   [1; 1; 20; 9; 196; 20; 5; 20; 0; 1; 114; 0];
   [2; 1; 20; 13; 196; 20; 7; 20; 8; 1; 118; 1; 10; 0; 132; 20; 4; 1; 66; 0];
   [2; 1; 20; 13; 196; 20; 7; 20; 8; 1; 118; 1; 10; 0; 132; 20; 4; 1; 66; 0];
   [1; 1; 20; 5; 68; 20; 0; 1; 120; 0];
   [1; 1; 20; 6; 68; 20; 5; 1; 121; 0];
   [1; 3; 20; 10; 132; 20; 8; 1; 115; 132; 20; 10; 1; 116; 132; 20; 11; 1; 117; 0]].
Definition itg_case01_expect : list itg_expect :=
  [itg_mkexpect [(20, 5)] false [(20, [(0, 5)])] [] [] [];
   itg_mkexpect [(20, 5)] true [(20, [(0, 5)])] [] [(10, 0)] [1; 1; 20; 7; 132; 10; 0; 1; 112; 0];
   itg_mkexpect [(20, 5)] true [(20, [(0, 5)])] [] [(10, 0); (20, 7)] [1; 2; 20; 7; 132; 10; 0; 1; 112; 132; 20; 7; 1; 113; 0];
   itg_mkexpect [(20, 5)] true [(20, [(0, 5)])] [] [(10, 0); (20, 5)] [1; 3; 20; 7; 132; 10; 0; 1; 112; 132; 20; 7; 1; 113; 196; 20; 5; 20; 0; 1; 114; 0];
   itg_mkexpect [(10, 1); (20, 5)] true [(10, [(0, 1)]); (20, [(0, 5); (7, 9)])] [(20, [(5, 7)])] [(20, 5)] [1; 3; 20; 9; 196; 20; 5; 20; 0; 1; 114; 10; 3; 196; 20; 7; 20; 8; 1; 118; 0];
   itg_mkexpect [(10, 1); (20, 5)] true [(10, [(0, 1)]); (20, [(0, 5); (7, 9); (13, 14)])] [(20, [(5, 7); (9, 13)])] [(20, 5)] [1; 3; 20; 9; 196; 20; 5; 20; 0; 1; 114; 10; 3; 196; 20; 7; 20; 8; 1; 118; 0];
   itg_mkexpect [(10, 1); (20, 6)] false [(10, [(0, 1)]); (20, [(0, 6); (7, 10); (13, 14)])] [(20, [(6, 7); (10, 13)])] [] [];
   itg_mkexpect [(10, 1); (20, 10)] false [(10, [(0, 1)]); (20, [(0, 10); (13, 14)])] [(20, [(10, 13)])] [] [];
   itg_mkexpect [(10, 1); (20, 14)] false [(10, [(0, 1)]); (20, [(0, 14)])] [] [] []].
Example itg_case01_ok : itg_check_case itg_case01_updates itg_case01_expect = true.
Proof. vm_compute. reflexivity. Qed.

(* case02: case01 with the client ids swapped: A = 10, B = 20
   clients [10, 20]
   u0 =  { blocks: BlockSet { clients: {ClientID(10): [(<10#0>, len: 5, parent: t: 'hello')]} } }
   u1 =  { blocks: BlockSet { clients: {ClientID(10): [(<10#5>, len: 1, origin-r: <10#0>: 'x')]} } }
   u2 =  { blocks: BlockSet { clients: {ClientID(10): [(<10#6>, len: 1, origin-r: <10#5>: 'y')]} } }
   u3 =  { blocks: BlockSet { clients: {ClientID(20): [(<20#0>, len: 1, origin-l: <10#4>: 'B')]} } }
   u4 =  { blocks: BlockSet { clients: {ClientID(10): [(<10#7>, len: 1, origin-l: <20#0>: 'p')]} } }
   u5 =  { blocks: BlockSet { clients: {ClientID(10): [(<10#8>, len: 1, origin-l: <10#7>: 'q')]} } }
   u6 =  { blocks: BlockSet { clients: {ClientID(10): [(<10#9>, len: 1, origin-l: <10#5>, origin-r: <10#0>: 'r')]} } }
   u7 =  { blocks: BlockSet { clients: {ClientID(10): [(<10#10>, len: 1, origin-l: <10#8>: 's')]} } }
   u8 =  { blocks: BlockSet { clients: {ClientID(10): [(<10#11>, len: 1, origin-l: <10#10>: 't')]} } }
   u9 =  { blocks: BlockSet { clients: {ClientID(10): [(<10#12>, len: 1, origin-l: <10#11>: 'u')]} } }
   u10 =  { blocks: BlockSet { clients: {ClientID(10): [(<10#13>, len: 1, origin-l: <10#7>, origin-r: <10#8>: 'v')]} } }
   plan [One(0), One(4), One(5), One(6), Merge([3, 10]), Merge([3, 10]), One(1), One(2), Merge([7, 8, 9])]; receiver text at the end: "yxrhelloBpvqstu" *)
Definition itg_case02_updates : list (list N) :=
  [[1; 1; 10; 0; 4; 1; 1; 116; 5; 104; 101; 108; 108; 111; 0];
   [1; 1; 10; 7; 132; 20; 0; 1; 112; 0];
   [1; 1; 10; 8; 132; 10; 7; 1; 113; 0];
   [1; 1; 10; 9; 196; 10; 5; 10; 0; 1; 114; 0];
   [2; 1; 20; 0; 132; 10; 4; 1; 66; 1; 10; 13; 196; 10; 7; 10; 8; 1; 118; 0];
   [2; 1; 20; 0; 132; 10; 4; 1; 66; 1; 10; 13; 196; 10; 7; 10; 8; 1; 118; 0];
   [1; 1; 10; 5; 68; 10; 0; 1; 120; 0];
   [1; 1; 10; 6; 68; 10; 5; 1; 121; 0];
   [1; 3; 10; 10; 132; 10; 8; 1; 115; 132; 10; 10; 1; 116; 132; 10; 11; 1; 117; 0]].
Definition itg_case02_expect : list itg_expect :=
  [itg_mkexpect [(10, 5)] false [(10, [(0, 5)])] [] [] [];
   itg_mkexpect [(10, 5)] true [(10, [(0, 5)])] [] [(20, 0)] [1; 1; 10; 7; 132; 20; 0; 1; 112; 0];
   itg_mkexpect [(10, 5)] true [(10, [(0, 5)])] [] [(10, 7); (20, 0)] [1; 2; 10; 7; 132; 20; 0; 1; 112; 132; 10; 7; 1; 113; 0];
   itg_mkexpect [(10, 5)] true [(10, [(0, 5)])] [] [(10, 5); (20, 0)] [1; 3; 10; 7; 132; 20; 0; 1; 112; 132; 10; 7; 1; 113; 196; 10; 5; 10; 0; 1; 114; 0];
   itg_mkexpect [(10, 5); (20, 1)] true [(10, [(0, 5); (7, 9)]); (20, [(0, 1)])] [(10, [(5, 7)])] [(10, 5)] [1; 3; 10; 9; 196; 10; 5; 10; 0; 1; 114; 10; 3; 196; 10; 7; 10; 8; 1; 118; 0];
   itg_mkexpect [(10, 5); (20, 1)] true [(10, [(0, 5); (7, 9); (13, 14)]); (20, [(0, 1)])] [(10, [(5, 7); (9, 13)])] [(10, 5)] [1; 3; 10; 9; 196; 10; 5; 10; 0; 1; 114; 10; 3; 196; 10; 7; 10; 8; 1; 118; 0];
   itg_mkexpect [(10, 6); (20, 1)] false [(10, [(0, 6); (7, 10); (13, 14)]); (20, [(0, 1)])] [(10, [(6, 7); (10, 13)])] [] [];
   itg_mkexpect [(10, 10); (20, 1)] false [(10, [(0, 10); (13, 14)]); (20, [(0, 1)])] [(10, [(10, 13)])] [] [];
   itg_mkexpect [(10, 14); (20, 1)] false [(10, [(0, 14)]); (20, [(0, 1)])] [] [] []].
Example itg_case02_ok : itg_check_case itg_case02_updates itg_case02_expect = true.
Proof. vm_compute. reflexivity. Qed.

(* case03: four single inserts of two clients, delivered in reverse order
   clients [1, 2]
   u0 =  { blocks: BlockSet { clients: {ClientID(1): [(<1#0>, len: 1, parent: t: 'a')]} } }
   u1 =  { blocks: BlockSet { clients: {ClientID(2): [(<2#0>, len: 1, origin-l: <1#0>: 'b')]} } }
   u2 =  { blocks: BlockSet { clients: {ClientID(1): [(<1#1>, len: 1, origin-l: <2#0>: 'c')]} } }
   u3 =  { blocks: BlockSet { clients: {ClientID(2): [(<2#1>, len: 1, origin-l: <1#1>: 'd')]} } }
   plan [One(3), One(2), One(1), One(0)]; receiver text at the end: "abcd" *)
Definition itg_case03_updates : list (list N) :=
  [[1; 1; 2; 1; 132; 1; 1; 1; 100; 0];
   [1; 1; 1; 1; 132; 2; 0; 1; 99; 0];
   [1; 1; 2; 0; 132; 1; 0; 1; 98; 0];
   [1; 1; 1; 0; 4; 1; 1; 116; 1; 97; 0]].
Definition itg_case03_expect : list itg_expect :=
  [itg_mkexpect [] true [] [] [(1, 1)] [1; 1; 2; 1; 132; 1; 1; 1; 100; 0];
   itg_mkexpect [] true [] [] [(1, 1); (2, 0)] [2; 1; 2; 1; 132; 1; 1; 1; 100; 1; 1; 1; 132; 2; 0; 1; 99; 0];
   itg_mkexpect [] true [] [] [(1, 0); (2, 0)] [2; 2; 2; 0; 132; 1; 0; 1; 98; 132; 1; 1; 1; 100; 1; 1; 1; 132; 2; 0; 1; 99; 0];
   itg_mkexpect [(1, 2); (2, 2)] false [(1, [(0, 2)]); (2, [(0, 2)])] [] [] []].
Example itg_case03_ok : itg_check_case itg_case03_updates itg_case03_expect = true.
Proof. vm_compute. reflexivity. Qed.

(* case04: the same in order, every update twice
   clients [1, 2]
   u0 =  { blocks: BlockSet { clients: {ClientID(1): [(<1#0>, len: 1, parent: t: 'a')]} } }
   u1 =  { blocks: BlockSet { clients: {ClientID(2): [(<2#0>, len: 1, origin-l: <1#0>: 'b')]} } }
   u2 =  { blocks: BlockSet { clients: {ClientID(1): [(<1#1>, len: 1, origin-l: <2#0>: 'c')]} } }
   u3 =  { blocks: BlockSet { clients: {ClientID(2): [(<2#1>, len: 1, origin-l: <1#1>: 'd')]} } }
   plan [One(0), One(0), One(1), One(1), One(2), One(2), One(3), One(3)]; receiver text at the end: "abcd" *)
Definition itg_case04_updates : list (list N) :=
  [[1; 1; 1; 0; 4; 1; 1; 116; 1; 97; 0];
   [1; 1; 1; 0; 4; 1; 1; 116; 1; 97; 0];
   [1; 1; 2; 0; 132; 1; 0; 1; 98; 0];
   [1; 1; 2; 0; 132; 1; 0; 1; 98; 0];
   [1; 1; 1; 1; 132; 2; 0; 1; 99; 0];
   [1; 1; 1; 1; 132; 2; 0; 1; 99; 0];
   [1; 1; 2; 1; 132; 1; 1; 1; 100; 0];
   [1; 1; 2; 1; 132; 1; 1; 1; 100; 0]].
Definition itg_case04_expect : list itg_expect :=
  [itg_mkexpect [(1, 1)] false [(1, [(0, 1)])] [] [] [];
   itg_mkexpect [(1, 1)] false [(1, [(0, 1)])] [] [] [];
   itg_mkexpect [(1, 1); (2, 1)] false [(1, [(0, 1)]); (2, [(0, 1)])] [] [] [];
   itg_mkexpect [(1, 1); (2, 1)] false [(1, [(0, 1)]); (2, [(0, 1)])] [] [] [];
   itg_mkexpect [(1, 2); (2, 1)] false [(1, [(0, 2)]); (2, [(0, 1)])] [] [] [];
   itg_mkexpect [(1, 2); (2, 1)] false [(1, [(0, 2)]); (2, [(0, 1)])] [] [] [];
   itg_mkexpect [(1, 2); (2, 2)] false [(1, [(0, 2)]); (2, [(0, 2)])] [] [] [];
   itg_mkexpect [(1, 2); (2, 2)] false [(1, [(0, 2)]); (2, [(0, 2)])] [] [] []].
Example itg_case04_ok : itg_check_case itg_case04_updates itg_case04_expect = true.
Proof. vm_compute. reflexivity. Qed.

(* case05: one client: blocks without dependencies on each other arrive with gaps (Skip placeholders), the holes are filled later, partly
   clients [7]
   u0 =  { blocks: BlockSet { clients: {ClientID(7): [(<7#0>, len: 2, parent: t: 'ab')]} } }
   u1 =  { blocks: BlockSet { clients: {ClientID(7): [(<7#2>, len: 2, origin-r: <7#0>: 'cd')]} } }
   u2 =  { blocks: BlockSet { clients: {ClientID(7): [(<7#4>, len: 2, origin-r: <7#2>: 'ef')]} } }
   u3 =  { blocks: BlockSet { clients: {ClientID(7): [(<7#6>, len: 1, origin-r: <7#4>: 'g')]} } }
   u4 =  { blocks: BlockSet { clients: {ClientID(7): [(<7#7>, len: 1, origin-l: <7#1>: 'h')]} } }
   plan [One(3), One(0), One(4), One(1), One(2)]; receiver text at the end: "gefcdabh" *)
Definition itg_case05_updates : list (list N) :=
  [[1; 1; 7; 6; 68; 7; 4; 1; 103; 0];
   [1; 1; 7; 0; 4; 1; 1; 116; 2; 97; 98; 0];
   [1; 1; 7; 7; 132; 7; 1; 1; 104; 0];
   [1; 1; 7; 2; 68; 7; 0; 2; 99; 100; 0];
   [1; 1; 7; 4; 68; 7; 2; 2; 101; 102; 0]].
Definition itg_case05_expect : list itg_expect :=
  [itg_mkexpect [] true [] [] [(7, 4)] [1; 1; 7; 6; 68; 7; 4; 1; 103; 0];
   itg_mkexpect [(7, 2)] true [(7, [(0, 2)])] [] [(7, 4)] [1; 1; 7; 6; 68; 7; 4; 1; 103; 0];
   itg_mkexpect [(7, 2)] true [(7, [(0, 2); (7, 8)])] [(7, [(2, 7)])] [(7, 4)] [1; 1; 7; 6; 68; 7; 4; 1; 103; 0];
   itg_mkexpect [(7, 4)] true [(7, [(0, 4); (7, 8)])] [(7, [(4, 7)])] [(7, 4)] [1; 1; 7; 6; 68; 7; 4; 1; 103; 0];
   itg_mkexpect [(7, 8)] false [(7, [(0, 8)])] [] [] []].
Example itg_case05_ok : itg_check_case itg_case05_updates itg_case05_expect = true.
Proof. vm_compute. reflexivity. Qed.

(* case06: one client: a merged update with a Skip inside, then the filler, then everything again
   clients [7]
   u0 =  { blocks: BlockSet { clients: {ClientID(7): [(<7#0>, len: 2, parent: t: 'ab')]} } }
   u1 =  { blocks: BlockSet { clients: {ClientID(7): [(<7#2>, len: 2, origin-r: <7#0>: 'cd')]} } }
   u2 =  { blocks: BlockSet { clients: {ClientID(7): [(<7#4>, len: 2, origin-r: <7#2>: 'ef')]} } }
   u3 =  { blocks: BlockSet { clients: {ClientID(7): [(<7#6>, len: 1, origin-r: <7#4>: 'g')]} } }
   u4 =  { blocks: BlockSet { clients: {ClientID(7): [(<7#7>, len: 1, origin-l: <7#1>: 'h')]} } }
   plan [Merge([0, 2]), Merge([1, 3]), One(4), Merge([0, 1, 2, 3, 4])]; receiver text at the end: "gefcdabh" *)
Definition itg_case06_updates : list (list N) :=
  [[1; 3; 7; 0; 4; 1; 1; 116; 2; 97; 98; 10; 2; 68; 7; 2; 2; 101; 102; 0];
   [1; 3; 7; 2; 68; 7; 0; 2; 99; 100; 10; 2; 68; 7; 4; 1; 103; 0];
   [1; 1; 7; 7; 132; 7; 1; 1; 104; 0];
   [1; 5; 7; 0; 4; 1; 1; 116; 2; 97; 98; 68; 7; 0; 2; 99; 100; 68; 7; 2; 2; 101; 102; 68; 7; 4; 1; 103; 132; 7; 1; 1; 104; 0]].
Definition itg_case06_expect : list itg_expect :=
  [itg_mkexpect [(7, 2)] true [(7, [(0, 2)])] [] [(7, 2)] [1; 1; 7; 4; 68; 7; 2; 2; 101; 102; 0];
   itg_mkexpect [(7, 7)] false [(7, [(0, 7)])] [] [] [];
   itg_mkexpect [(7, 8)] false [(7, [(0, 8)])] [] [] [];
   itg_mkexpect [(7, 8)] false [(7, [(0, 8)])] [] [] []].
Example itg_case06_ok : itg_check_case itg_case06_updates itg_case06_expect = true.
Proof. vm_compute. reflexivity. Qed.

(* case07: chain over three clients (5 < 6 < 7), delivered last first
   clients [5, 6, 7]
   u0 =  { blocks: BlockSet { clients: {ClientID(5): [(<5#0>, len: 1, parent: t: 'a')]} } }
   u1 =  { blocks: BlockSet { clients: {ClientID(6): [(<6#0>, len: 1, origin-l: <5#0>: 'b')]} } }
   u2 =  { blocks: BlockSet { clients: {ClientID(7): [(<7#0>, len: 1, origin-l: <6#0>: 'c')]} } }
   u3 =  { blocks: BlockSet { clients: {ClientID(5): [(<5#1>, len: 1, origin-l: <7#0>: 'd')]} } }
   plan [One(3), One(2), One(1), One(0)]; receiver text at the end: "abcd" *)
Definition itg_case07_updates : list (list N) :=
  [[1; 1; 5; 1; 132; 7; 0; 1; 100; 0];
   [1; 1; 7; 0; 132; 6; 0; 1; 99; 0];
   [1; 1; 6; 0; 132; 5; 0; 1; 98; 0];
   [1; 1; 5; 0; 4; 1; 1; 116; 1; 97; 0]].
Definition itg_case07_expect : list itg_expect :=
  [itg_mkexpect [] true [] [] [(7, 0)] [1; 1; 5; 1; 132; 7; 0; 1; 100; 0];
   itg_mkexpect [] true [] [] [(6, 0); (7, 0)] [2; 1; 7; 0; 132; 6; 0; 1; 99; 1; 5; 1; 132; 7; 0; 1; 100; 0];
   itg_mkexpect [] true [] [] [(5, 0); (6, 0); (7, 0)] [3; 1; 7; 0; 132; 6; 0; 1; 99; 1; 6; 0; 132; 5; 0; 1; 98; 1; 5; 1; 132; 7; 0; 1; 100; 0];
   itg_mkexpect [(5, 2); (6, 1); (7, 1)] false [(5, [(0, 2)]); (6, [(0, 1)]); (7, [(0, 1)])] [] [] []].
Example itg_case07_ok : itg_check_case itg_case07_updates itg_case07_expect = true.
Proof. vm_compute. reflexivity. Qed.

(* case08: the same chain with descending client ids, last first, then an empty update
   clients [7, 6, 5]
   u0 =  { blocks: BlockSet { clients: {ClientID(7): [(<7#0>, len: 1, parent: t: 'a')]} } }
   u1 =  { blocks: BlockSet { clients: {ClientID(6): [(<6#0>, len: 1, origin-l: <7#0>: 'b')]} } }
   u2 =  { blocks: BlockSet { clients: {ClientID(5): [(<5#0>, len: 1, origin-l: <6#0>: 'c')]} } }
   u3 =  { blocks: BlockSet { clients: {ClientID(7): [(<7#1>, len: 1, origin-l: <5#0>: 'd')]} } }
   plan [One(3), One(2), One(1), One(0), Empty]; receiver text at the end: "abcd" *)
Definition itg_case08_updates : list (list N) :=
  [[1; 1; 7; 1; 132; 5; 0; 1; 100; 0];
   [1; 1; 5; 0; 132; 6; 0; 1; 99; 0];
   [1; 1; 6; 0; 132; 7; 0; 1; 98; 0];
   [1; 1; 7; 0; 4; 1; 1; 116; 1; 97; 0];
   [0; 0]].
Definition itg_case08_expect : list itg_expect :=
  [itg_mkexpect [] true [] [] [(5, 0)] [1; 1; 7; 1; 132; 5; 0; 1; 100; 0];
   itg_mkexpect [] true [] [] [(5, 0); (6, 0)] [2; 1; 7; 1; 132; 5; 0; 1; 100; 1; 5; 0; 132; 6; 0; 1; 99; 0];
   itg_mkexpect [] true [] [] [(5, 0); (6, 0); (7, 0)] [3; 1; 7; 1; 132; 5; 0; 1; 100; 1; 6; 0; 132; 7; 0; 1; 98; 1; 5; 0; 132; 6; 0; 1; 99; 0];
   itg_mkexpect [(5, 1); (6, 1); (7, 2)] false [(5, [(0, 1)]); (6, [(0, 1)]); (7, [(0, 2)])] [] [] [];
   itg_mkexpect [(5, 1); (6, 1); (7, 2)] false [(5, [(0, 1)]); (6, [(0, 1)]); (7, [(0, 2)])] [] [] []].
Example itg_case08_ok : itg_check_case itg_case08_updates itg_case08_expect = true.
Proof. vm_compute. reflexivity. Qed.

(* case09: the chain in one merged update (switch succeeds along the chain)
   clients [5, 6, 7]
   u0 =  { blocks: BlockSet { clients: {ClientID(5): [(<5#0>, len: 1, parent: t: 'a')]} } }
   u1 =  { blocks: BlockSet { clients: {ClientID(6): [(<6#0>, len: 1, origin-l: <5#0>: 'b')]} } }
   u2 =  { blocks: BlockSet { clients: {ClientID(7): [(<7#0>, len: 1, origin-l: <6#0>: 'c')]} } }
   u3 =  { blocks: BlockSet { clients: {ClientID(5): [(<5#1>, len: 1, origin-l: <7#0>: 'd')]} } }
   plan [Merge([0, 1, 2, 3])]; receiver text at the end: "abcd" *)
Definition itg_case09_updates : list (list N) :=
  [[3; 1; 7; 0; 132; 6; 0; 1; 99; 1; 6; 0; 132; 5; 0; 1; 98; 2; 5; 0; 4; 1; 1; 116; 1; 97; 132; 7; 0; 1; 100; 0]].
Definition itg_case09_expect : list itg_expect :=
  [itg_mkexpect [(5, 2); (6, 1); (7, 1)] false [(5, [(0, 2)]); (6, [(0, 1)]); (7, [(0, 1)])] [] [] []].
Example itg_case09_ok : itg_check_case itg_case09_updates itg_case09_expect = true.
Proof. vm_compute. reflexivity. Qed.

(* case10: the chain, descending ids, merged without the first link, then the first link
   clients [7, 6, 5]
   u0 =  { blocks: BlockSet { clients: {ClientID(7): [(<7#0>, len: 1, parent: t: 'a')]} } }
   u1 =  { blocks: BlockSet { clients: {ClientID(6): [(<6#0>, len: 1, origin-l: <7#0>: 'b')]} } }
   u2 =  { blocks: BlockSet { clients: {ClientID(5): [(<5#0>, len: 1, origin-l: <6#0>: 'c')]} } }
   u3 =  { blocks: BlockSet { clients: {ClientID(7): [(<7#1>, len: 1, origin-l: <5#0>: 'd')]} } }
   plan [Merge([1, 2, 3]), One(0)]; receiver text at the end: "abcd" *)
Definition itg_case10_updates : list (list N) :=
  [[3; 1; 7; 1; 132; 5; 0; 1; 100; 1; 6; 0; 132; 7; 0; 1; 98; 1; 5; 0; 132; 6; 0; 1; 99; 0];
   [1; 1; 7; 0; 4; 1; 1; 116; 1; 97; 0]].
Definition itg_case10_expect : list itg_expect :=
  [itg_mkexpect [] true [] [] [(5, 0); (6, 0); (7, 0)] [3; 1; 7; 1; 132; 5; 0; 1; 100; 1; 6; 0; 132; 7; 0; 1; 98; 1; 5; 0; 132; 6; 0; 1; 99; 0];
   itg_mkexpect [(5, 1); (6, 1); (7, 2)] false [(5, [(0, 1)]); (6, [(0, 1)]); (7, [(0, 2)])] [] [] []].
Example itg_case10_ok : itg_check_case itg_case10_updates itg_case10_expect = true.
Proof. vm_compute. reflexivity. Qed.

(* case11: full states of a growing document (one squashed block that the known state cuts), out of order
   clients [3]
   u0 =  { blocks: BlockSet { clients: {ClientID(3): [(<3#0>, len: 3, parent: t: 'abc')]} } }
   u1 =  { blocks: BlockSet { clients: {ClientID(3): [(<3#0>, len: 3, parent: t: 'abc')]} } }
   u2 =  { blocks: BlockSet { clients: {ClientID(3): [(<3#3>, len: 3, origin-l: <3#2>: 'def')]} } }
   u3 =  { blocks: BlockSet { clients: {ClientID(3): [(<3#0>, len: 6, parent: t: 'abcdef')]} } }
   u4 =  { blocks: BlockSet { clients: {ClientID(3): [(<3#6>, len: 3, origin-l: <3#5>: 'ghi')]} } }
   u5 =  { blocks: BlockSet { clients: {ClientID(3): [(<3#0>, len: 9, parent: t: 'abcdefghi')]} } }
   u6 =  { blocks: BlockSet { clients: {ClientID(3): [(<3#9>, len: 1, origin-r: <3#0>: 'Z')]} } }
   u7 =  { blocks: BlockSet { clients: {ClientID(3): [(<3#0>, len: 9, parent: t: 'abcdefghi'), (<3#9>, len: 1, origin-r: <3#0>: 'Z')]} } }
   plan [One(1), One(5), One(3), One(7), One(0)]; receiver text at the end: "Zabcdefghi" *)
Definition itg_case11_updates : list (list N) :=
  [[1; 1; 3; 0; 4; 1; 1; 116; 3; 97; 98; 99; 0];
   [1; 1; 3; 0; 4; 1; 1; 116; 9; 97; 98; 99; 100; 101; 102; 103; 104; 105; 0];
   [1; 1; 3; 0; 4; 1; 1; 116; 6; 97; 98; 99; 100; 101; 102; 0];
   [1; 2; 3; 0; 4; 1; 1; 116; 9; 97; 98; 99; 100; 101; 102; 103; 104; 105; 68; 3; 0; 1; 90; 0];
   [1; 1; 3; 0; 4; 1; 1; 116; 3; 97; 98; 99; 0]].
Definition itg_case11_expect : list itg_expect :=
  [itg_mkexpect [(3, 3)] false [(3, [(0, 3)])] [] [] [];
   itg_mkexpect [(3, 9)] false [(3, [(0, 9)])] [] [] [];
   itg_mkexpect [(3, 9)] false [(3, [(0, 9)])] [] [] [];
   itg_mkexpect [(3, 10)] false [(3, [(0, 10)])] [] [] [];
   itg_mkexpect [(3, 10)] false [(3, [(0, 10)])] [] [] []].
Example itg_case11_ok : itg_check_case itg_case11_updates itg_case11_expect = true.
Proof. vm_compute. reflexivity. Qed.

(* case12: a block in the middle is known (behind a Skip) when the squashed block arrives: it is cut on both sides
   clients [3]
   u0 =  { blocks: BlockSet { clients: {ClientID(3): [(<3#0>, len: 3, parent: t: 'abc')]} } }
   u1 =  { blocks: BlockSet { clients: {ClientID(3): [(<3#0>, len: 3, parent: t: 'abc')]} } }
   u2 =  { blocks: BlockSet { clients: {ClientID(3): [(<3#3>, len: 3, origin-l: <3#2>: 'def')]} } }
   u3 =  { blocks: BlockSet { clients: {ClientID(3): [(<3#0>, len: 6, parent: t: 'abcdef')]} } }
   u4 =  { blocks: BlockSet { clients: {ClientID(3): [(<3#6>, len: 3, origin-l: <3#5>: 'ghi')]} } }
   u5 =  { blocks: BlockSet { clients: {ClientID(3): [(<3#0>, len: 9, parent: t: 'abcdefghi')]} } }
   u6 =  { blocks: BlockSet { clients: {ClientID(3): [(<3#9>, len: 1, origin-r: <3#0>: 'Z')]} } }
   u7 =  { blocks: BlockSet { clients: {ClientID(3): [(<3#0>, len: 9, parent: t: 'abcdefghi'), (<3#9>, len: 1, origin-r: <3#0>: 'Z')]} } }
   plan [One(2), One(5), One(7)]; receiver text at the end: "Zabcdefghi" *)
Definition itg_case12_updates : list (list N) :=
  [[1; 1; 3; 3; 132; 3; 2; 3; 100; 101; 102; 0];
   [1; 1; 3; 0; 4; 1; 1; 116; 9; 97; 98; 99; 100; 101; 102; 103; 104; 105; 0];
   [1; 2; 3; 0; 4; 1; 1; 116; 9; 97; 98; 99; 100; 101; 102; 103; 104; 105; 68; 3; 0; 1; 90; 0]].
Definition itg_case12_expect : list itg_expect :=
  [itg_mkexpect [] true [] [] [(3, 2)] [1; 1; 3; 3; 132; 3; 2; 3; 100; 101; 102; 0];
   itg_mkexpect [(3, 9)] false [(3, [(0, 9)])] [] [] [];
   itg_mkexpect [(3, 10)] false [(3, [(0, 10)])] [] [] []].
Example itg_case12_ok : itg_check_case itg_case12_updates itg_case12_expect = true.
Proof. vm_compute. reflexivity. Qed.

(* case13: nested texts: items whose parent is given by id arrive before the parent
   clients [4, 9]
   u0 =  { blocks: BlockSet { clients: {ClientID(4): [(<4#0>, len: 1, parent: m, 'k' => <text>), (<4#1>, len: 2, parent: <4#0>: 'ab')]} } }
   u1 =  { blocks: BlockSet { clients: {ClientID(9): [(<9#0>, len: 1, origin-l: <4#2>: 'c')]} } }
   u2 =  { blocks: BlockSet { clients: {ClientID(4): [(<4#3>, len: 1, origin-r: <4#1>: 'z')]} } }
   u3 =  { blocks: BlockSet { clients: {ClientID(9): [(<9#1>, len: 1, parent: m, 'j' => <text>)]} } }
   u4 =  { blocks: BlockSet { clients: {ClientID(9): [(<9#2>, len: 1, parent: <9#1>: 'q')]} } }
   plan [One(4), One(1), One(2), One(3), One(0)]; receiver text at the end: "" *)
Definition itg_case13_updates : list (list N) :=
  [[1; 1; 9; 2; 4; 0; 9; 1; 1; 113; 0];
   [1; 1; 9; 0; 132; 4; 2; 1; 99; 0];
   [1; 1; 4; 3; 68; 4; 1; 1; 122; 0];
   [1; 1; 9; 1; 39; 1; 1; 109; 1; 106; 2; 0];
   [1; 2; 4; 0; 39; 1; 1; 109; 1; 107; 2; 4; 0; 4; 0; 2; 97; 98; 0]].
Definition itg_case13_expect : list itg_expect :=
  [itg_mkexpect [] true [] [] [(9, 1)] [1; 1; 9; 2; 4; 0; 9; 1; 1; 113; 0];
   itg_mkexpect [] true [] [] [(4, 2); (9, 1)] [1; 3; 9; 0; 132; 4; 2; 1; 99; 10; 1; 4; 0; 9; 1; 1; 113; 0];
   itg_mkexpect [] true [] [] [(4, 1); (9, 1)] [2; 3; 9; 0; 132; 4; 2; 1; 99; 10; 1; 4; 0; 9; 1; 1; 113; 1; 4; 3; 68; 4; 1; 1; 122; 0];
   itg_mkexpect [(9, 0)] true [(9, [(1, 2)])] [(9, [(0, 1)])] [(4, 1)] [2; 3; 9; 0; 132; 4; 2; 1; 99; 10; 1; 4; 0; 9; 1; 1; 113; 1; 4; 3; 68; 4; 1; 1; 122; 0];
   itg_mkexpect [(4, 4); (9, 3)] false [(4, [(0, 4)]); (9, [(0, 3)])] [] [] []].
Example itg_case13_ok : itg_check_case itg_case13_updates itg_case13_expect = true.
Proof. vm_compute. reflexivity. Qed.

(* case14: nested texts, merged without the parent, then the parent twice
   clients [9, 4]
   u0 =  { blocks: BlockSet { clients: {ClientID(9): [(<9#0>, len: 1, parent: m, 'k' => <text>), (<9#1>, len: 2, parent: <9#0>: 'ab')]} } }
   u1 =  { blocks: BlockSet { clients: {ClientID(4): [(<4#0>, len: 1, origin-l: <9#2>: 'c')]} } }
   u2 =  { blocks: BlockSet { clients: {ClientID(9): [(<9#3>, len: 1, origin-r: <9#1>: 'z')]} } }
   u3 =  { blocks: BlockSet { clients: {ClientID(4): [(<4#1>, len: 1, parent: m, 'j' => <text>)]} } }
   u4 =  { blocks: BlockSet { clients: {ClientID(4): [(<4#2>, len: 1, parent: <4#1>: 'q')]} } }
   plan [Merge([1, 2, 3, 4]), One(0), One(0)]; receiver text at the end: "" *)
Definition itg_case14_updates : list (list N) :=
  [[2; 1; 9; 3; 68; 9; 1; 1; 122; 3; 4; 0; 132; 9; 2; 1; 99; 39; 1; 1; 109; 1; 106; 2; 4; 0; 4; 1; 1; 113; 0];
   [1; 2; 9; 0; 39; 1; 1; 109; 1; 107; 2; 4; 0; 9; 0; 2; 97; 98; 0];
   [1; 2; 9; 0; 39; 1; 1; 109; 1; 107; 2; 4; 0; 9; 0; 2; 97; 98; 0]].
Definition itg_case14_expect : list itg_expect :=
  [itg_mkexpect [] true [] [] [(9, 1)] [2; 1; 9; 3; 68; 9; 1; 1; 122; 3; 4; 0; 132; 9; 2; 1; 99; 39; 1; 1; 109; 1; 106; 2; 4; 0; 4; 1; 1; 113; 0];
   itg_mkexpect [(4, 3); (9, 4)] false [(4, [(0, 3)]); (9, [(0, 4)])] [] [] [];
   itg_mkexpect [(4, 3); (9, 4)] false [(4, [(0, 3)]); (9, [(0, 4)])] [] [] []].
Example itg_case14_ok : itg_check_case itg_case14_updates itg_case14_expect = true.
Proof. vm_compute. reflexivity. Qed.

(* case15: two stashed blocks wait for ids of the same client: the missing vector keeps the smaller clock; the larger one arrives first
   clients [30, 20, 10]
   u0 =  { blocks: BlockSet { clients: {ClientID(30): [(<30#0>, len: 4, parent: t: '0123')]} } }
   u1 =  { blocks: BlockSet { clients: {ClientID(30): [(<30#4>, len: 1, origin-l: <30#3>: '4')]} } }
   u2 =  { blocks: BlockSet { clients: {ClientID(30): [(<30#5>, len: 1, origin-l: <30#4>: '5')]} } }
   u3 =  { blocks: BlockSet { clients: {ClientID(30): [(<30#6>, len: 1, origin-l: <30#5>: '6')]} } }
   u4 =  { blocks: BlockSet { clients: {ClientID(20): [(<20#0>, len: 1, origin-l: <30#6>: 'c')]} } }
   u5 =  { blocks: BlockSet { clients: {ClientID(10): [(<10#0>, len: 1, origin-l: <30#1>, origin-r: <30#2>: 'd')]} } }
   u6 =  { blocks: BlockSet { clients: {ClientID(30): [(<30#7>, len: 1, origin-r: <30#0>: '7')]} } }
   plan [One(4), One(5), One(3), One(0), One(6), One(1), One(2)]; receiver text at the end: "701d23456c" *)
Definition itg_case15_updates : list (list N) :=
  [[1; 1; 20; 0; 132; 30; 6; 1; 99; 0];
   [1; 1; 10; 0; 196; 30; 1; 30; 2; 1; 100; 0];
   [1; 1; 30; 6; 132; 30; 5; 1; 54; 0];
   [1; 1; 30; 0; 4; 1; 1; 116; 4; 48; 49; 50; 51; 0];
   [1; 1; 30; 7; 68; 30; 0; 1; 55; 0];
   [1; 1; 30; 4; 132; 30; 3; 1; 52; 0];
   [1; 1; 30; 5; 132; 30; 4; 1; 53; 0]].
Definition itg_case15_expect : list itg_expect :=
  [itg_mkexpect [] true [] [] [(30, 6)] [1; 1; 20; 0; 132; 30; 6; 1; 99; 0];
   itg_mkexpect [] true [] [] [(30, 1)] [2; 1; 20; 0; 132; 30; 6; 1; 99; 1; 10; 0; 196; 30; 1; 30; 2; 1; 100; 0];
   itg_mkexpect [] true [] [] [(30, 1)] [3; 1; 30; 6; 132; 30; 5; 1; 54; 1; 20; 0; 132; 30; 6; 1; 99; 1; 10; 0; 196; 30; 1; 30; 2; 1; 100; 0];
   itg_mkexpect [(10, 1); (30, 4)] true [(10, [(0, 1)]); (30, [(0, 4)])] [] [(30, 5)] [2; 1; 30; 6; 132; 30; 5; 1; 54; 1; 20; 0; 132; 30; 6; 1; 99; 0];
   itg_mkexpect [(10, 1); (30, 4)] true [(10, [(0, 1)]); (30, [(0, 4); (7, 8)])] [(30, [(4, 7)])] [(30, 5)] [2; 1; 30; 6; 132; 30; 5; 1; 54; 1; 20; 0; 132; 30; 6; 1; 99; 0];
   itg_mkexpect [(10, 1); (30, 5)] true [(10, [(0, 1)]); (30, [(0, 5); (7, 8)])] [(30, [(5, 7)])] [(30, 5)] [2; 1; 30; 6; 132; 30; 5; 1; 54; 1; 20; 0; 132; 30; 6; 1; 99; 0];
   itg_mkexpect [(10, 1); (20, 1); (30, 8)] false [(10, [(0, 1)]); (20, [(0, 1)]); (30, [(0, 8)])] [] [] []].
Example itg_case15_ok : itg_check_case itg_case15_updates itg_case15_expect = true.
Proof. vm_compute. reflexivity. Qed.

(* case16: a stash {A:0 -> B:0 -> E:0, C:0 -> D:0}; E:0 arrives: the retry integrates B:0 and A:0, records B:0 at a successful switch, the test after it succeeds and the stash is applied once more
   clients [1, 5, 9, 2, 7]
   u0 =  { blocks: BlockSet { clients: {ClientID(1): [(<1#0>, len: 1, parent: t: 'e')]} } }
   u1 =  { blocks: BlockSet { clients: {ClientID(5): [(<5#0>, len: 1, origin-l: <1#0>: 'b')]} } }
   u2 =  { blocks: BlockSet { clients: {ClientID(9): [(<9#0>, len: 1, origin-l: <5#0>: 'a')]} } }
   u3 =  { blocks: BlockSet { clients: {ClientID(2): [(<2#0>, len: 1, parent: t: 'd')]} } }
   u4 =  { blocks: BlockSet { clients: {ClientID(7): [(<7#0>, len: 1, origin-l: <2#0>: 'c')]} } }
   plan [Merge([1, 2, 4]), One(0), One(3)]; receiver text at the end: "ebadc" *)
Definition itg_case16_updates : list (list N) :=
  [[3; 1; 9; 0; 132; 5; 0; 1; 97; 1; 7; 0; 132; 2; 0; 1; 99; 1; 5; 0; 132; 1; 0; 1; 98; 0];
   [1; 1; 1; 0; 4; 1; 1; 116; 1; 101; 0];
   [1; 1; 2; 0; 4; 1; 1; 116; 1; 100; 0]].
Definition itg_case16_expect : list itg_expect :=
  [itg_mkexpect [] true [] [] [(1, 0); (2, 0); (5, 0)] [3; 1; 9; 0; 132; 5; 0; 1; 97; 1; 7; 0; 132; 2; 0; 1; 99; 1; 5; 0; 132; 1; 0; 1; 98; 0];
   itg_mkexpect [(1, 1); (5, 1); (9, 1)] true [(1, [(0, 1)]); (5, [(0, 1)]); (9, [(0, 1)])] [] [(2, 0)] [1; 1; 7; 0; 132; 2; 0; 1; 99; 0];
   itg_mkexpect [(1, 1); (2, 1); (5, 1); (7, 1); (9, 1)] false [(1, [(0, 1)]); (2, [(0, 1)]); (5, [(0, 1)]); (7, [(0, 1)]); (9, [(0, 1)])] [] [] []].
Example itg_case16_ok : itg_check_case itg_case16_updates itg_case16_expect = true.
Proof. vm_compute. reflexivity. Qed.

(* case17: the same stash built from single updates, duplicates in between
   clients [1, 5, 9, 2, 7]
   u0 =  { blocks: BlockSet { clients: {ClientID(1): [(<1#0>, len: 1, parent: t: 'e')]} } }
   u1 =  { blocks: BlockSet { clients: {ClientID(5): [(<5#0>, len: 1, origin-l: <1#0>: 'b')]} } }
   u2 =  { blocks: BlockSet { clients: {ClientID(9): [(<9#0>, len: 1, origin-l: <5#0>: 'a')]} } }
   u3 =  { blocks: BlockSet { clients: {ClientID(2): [(<2#0>, len: 1, parent: t: 'd')]} } }
   u4 =  { blocks: BlockSet { clients: {ClientID(7): [(<7#0>, len: 1, origin-l: <2#0>: 'c')]} } }
   plan [One(2), One(4), One(1), One(2), One(0), Empty, One(3), One(4)]; receiver text at the end: "ebadc" *)
Definition itg_case17_updates : list (list N) :=
  [[1; 1; 9; 0; 132; 5; 0; 1; 97; 0];
   [1; 1; 7; 0; 132; 2; 0; 1; 99; 0];
   [1; 1; 5; 0; 132; 1; 0; 1; 98; 0];
   [1; 1; 9; 0; 132; 5; 0; 1; 97; 0];
   [1; 1; 1; 0; 4; 1; 1; 116; 1; 101; 0];
   [0; 0];
   [1; 1; 2; 0; 4; 1; 1; 116; 1; 100; 0];
   [1; 1; 7; 0; 132; 2; 0; 1; 99; 0]].
Definition itg_case17_expect : list itg_expect :=
  [itg_mkexpect [] true [] [] [(5, 0)] [1; 1; 9; 0; 132; 5; 0; 1; 97; 0];
   itg_mkexpect [] true [] [] [(2, 0); (5, 0)] [2; 1; 9; 0; 132; 5; 0; 1; 97; 1; 7; 0; 132; 2; 0; 1; 99; 0];
   itg_mkexpect [] true [] [] [(1, 0); (2, 0); (5, 0)] [3; 1; 9; 0; 132; 5; 0; 1; 97; 1; 7; 0; 132; 2; 0; 1; 99; 1; 5; 0; 132; 1; 0; 1; 98; 0];
   itg_mkexpect [] true [] [] [(1, 0); (2, 0); (5, 0)] [3; 1; 9; 0; 132; 5; 0; 1; 97; 1; 7; 0; 132; 2; 0; 1; 99; 1; 5; 0; 132; 1; 0; 1; 98; 0];
   itg_mkexpect [(1, 1); (5, 1); (9, 1)] true [(1, [(0, 1)]); (5, [(0, 1)]); (9, [(0, 1)])] [] [(2, 0)] [1; 1; 7; 0; 132; 2; 0; 1; 99; 0];
   itg_mkexpect [(1, 1); (5, 1); (9, 1)] true [(1, [(0, 1)]); (5, [(0, 1)]); (9, [(0, 1)])] [] [(2, 0)] [1; 1; 7; 0; 132; 2; 0; 1; 99; 0];
   itg_mkexpect [(1, 1); (2, 1); (5, 1); (7, 1); (9, 1)] false [(1, [(0, 1)]); (2, [(0, 1)]); (5, [(0, 1)]); (7, [(0, 1)]); (9, [(0, 1)])] [] [] [];
   itg_mkexpect [(1, 1); (2, 1); (5, 1); (7, 1); (9, 1)] false [(1, [(0, 1)]); (2, [(0, 1)]); (5, [(0, 1)]); (7, [(0, 1)]); (9, [(0, 1)])] [] [] []].
Example itg_case17_ok : itg_check_case itg_case17_updates itg_case17_expect = true.
Proof. vm_compute. reflexivity. Qed.

(* case18: text, array and deletions of two clients, shuffled, with a merged duplicate
   clients [11, 12]
   u0 =  { blocks: BlockSet { clients: {ClientID(11): [(<11#0>, len: 4, parent: t: 'abcd')]} } }
   u1 =  { delete set:  { 11: [[1..3, ()]] } }
   u2 =  { blocks: BlockSet { clients: {ClientID(12): [(<12#0>, len: 1, parent: a: [1])]} }, delete set:  { 11: [[1..3, ()]] } }
   u3 =  { blocks: BlockSet { clients: {ClientID(12): [(<12#1>, len: 1, origin-l: <11#3>: 'X')]} }, delete set:  { 11: [[1..3, ()]] } }
   u4 =  { blocks: BlockSet { clients: {ClientID(11): [(<11#4>, len: 1, origin-l: <12#0>: [1])]} }, delete set:  { 11: [[1..3, ()]] } }
   u5 =  { delete set:  { 11: [[0..3, ()]] } }
   u6 =  { blocks: BlockSet { clients: {ClientID(11): [(<11#5>, len: 1, origin-l: <11#2>, origin-r: <11#3>: 'Y')]} }, delete set:  { 11: [[0..3, ()]] } }
   plan [One(6), One(4), One(1), One(3), Merge([2, 5, 6]), One(0), One(5), One(2)]; receiver text at the end: "YdX" *)
Definition itg_case18_updates : list (list N) :=
  [[1; 1; 11; 5; 196; 11; 2; 11; 3; 1; 89; 1; 11; 1; 0; 3];
   [1; 1; 11; 4; 136; 12; 0; 1; 125; 1; 1; 11; 1; 1; 2];
   [0; 1; 11; 1; 1; 2];
   [1; 1; 12; 1; 132; 11; 3; 1; 88; 1; 11; 1; 1; 2];
   [2; 1; 12; 0; 8; 1; 1; 97; 1; 125; 1; 1; 11; 5; 196; 11; 2; 11; 3; 1; 89; 1; 11; 1; 0; 3];
   [1; 1; 11; 0; 4; 1; 1; 116; 4; 97; 98; 99; 100; 0];
   [0; 1; 11; 1; 0; 3];
   [1; 1; 12; 0; 8; 1; 1; 97; 1; 125; 1; 1; 11; 1; 1; 2]].
Definition itg_case18_expect : list itg_expect :=
  [itg_mkexpect [] true [] [] [(11, 2)] [1; 1; 11; 5; 196; 11; 2; 11; 3; 1; 89; 0];
   itg_mkexpect [] true [] [] [(11, 2); (12, 0)] [1; 2; 11; 4; 136; 12; 0; 1; 125; 1; 196; 11; 2; 11; 3; 1; 89; 0];
   itg_mkexpect [] true [] [] [(11, 2); (12, 0)] [1; 2; 11; 4; 136; 12; 0; 1; 125; 1; 196; 11; 2; 11; 3; 1; 89; 0];
   itg_mkexpect [] true [] [] [(11, 2); (12, 0)] [2; 1; 12; 1; 132; 11; 3; 1; 88; 2; 11; 4; 136; 12; 0; 1; 125; 1; 196; 11; 2; 11; 3; 1; 89; 0];
   itg_mkexpect [(11, 0); (12, 1)] true [(11, [(4, 5)]); (12, [(0, 1)])] [(11, [(0, 4)])] [(11, 2)] [2; 1; 12; 1; 132; 11; 3; 1; 88; 1; 11; 5; 196; 11; 2; 11; 3; 1; 89; 0];
   itg_mkexpect [(11, 6); (12, 2)] false [(11, [(0, 6)]); (12, [(0, 2)])] [] [] [];
   itg_mkexpect [(11, 6); (12, 2)] false [(11, [(0, 6)]); (12, [(0, 2)])] [] [] [];
   itg_mkexpect [(11, 6); (12, 2)] false [(11, [(0, 6)]); (12, [(0, 2)])] [] [] []].
Example itg_case18_ok : itg_check_case itg_case18_updates itg_case18_expect = true.
Proof. vm_compute. reflexivity. Qed.

(* case19: a stash of single updates, then the full state of the other replica, which contains everything
   clients [8, 6]
   u0 =  { blocks: BlockSet { clients: {ClientID(8): [(<8#0>, len: 2, parent: t: 'ab')]} } }
   u1 =  { blocks: BlockSet { clients: {ClientID(6): [(<6#0>, len: 1, origin-l: <8#1>: 'c')]} } }
   u2 =  { blocks: BlockSet { clients: {ClientID(8): [(<8#2>, len: 1, origin-l: <6#0>: 'd')]} } }
   u3 =  { blocks: BlockSet { clients: {ClientID(6): [(<6#1>, len: 1, origin-l: <8#2>: 'e')]} } }
   u4 =  { blocks: BlockSet { clients: {ClientID(8): [(<8#0>, len: 2, parent: t: 'ab'), (<8#2>, len: 1, origin-l: <6#0>: 'd')], ClientID(6): [(<6#0>, len: 1, origin-l: <8#1>: 'c'), (<6#1>, len: 1, origin-l: <8#2>: 'e')]} } }
   plan [One(3), One(2), One(4), One(1)]; receiver text at the end: "abcde" *)
Definition itg_case19_updates : list (list N) :=
  [[1; 1; 6; 1; 132; 8; 2; 1; 101; 0];
   [1; 1; 8; 2; 132; 6; 0; 1; 100; 0];
   [2; 2; 8; 0; 4; 1; 1; 116; 2; 97; 98; 132; 6; 0; 1; 100; 2; 6; 0; 132; 8; 1; 1; 99; 132; 8; 2; 1; 101; 0];
   [1; 1; 6; 0; 132; 8; 1; 1; 99; 0]].
Definition itg_case19_expect : list itg_expect :=
  [itg_mkexpect [] true [] [] [(8, 2)] [1; 1; 6; 1; 132; 8; 2; 1; 101; 0];
   itg_mkexpect [] true [] [] [(6, 0); (8, 2)] [2; 1; 8; 2; 132; 6; 0; 1; 100; 1; 6; 1; 132; 8; 2; 1; 101; 0];
   itg_mkexpect [(6, 2); (8, 3)] false [(6, [(0, 2)]); (8, [(0, 3)])] [] [] [];
   itg_mkexpect [(6, 2); (8, 3)] false [(6, [(0, 2)]); (8, [(0, 3)])] [] [] []].
Example itg_case19_ok : itg_check_case itg_case19_updates itg_case19_expect = true.
Proof. vm_compute. reflexivity. Qed.

(* case20: the full state first, then all single updates again
   clients [8, 6]
   u0 =  { blocks: BlockSet { clients: {ClientID(8): [(<8#0>, len: 2, parent: t: 'ab')]} } }
   u1 =  { blocks: BlockSet { clients: {ClientID(6): [(<6#0>, len: 1, origin-l: <8#1>: 'c')]} } }
   u2 =  { blocks: BlockSet { clients: {ClientID(8): [(<8#2>, len: 1, origin-l: <6#0>: 'd')]} } }
   u3 =  { blocks: BlockSet { clients: {ClientID(6): [(<6#1>, len: 1, origin-l: <8#2>: 'e')]} } }
   u4 =  { blocks: BlockSet { clients: {ClientID(8): [(<8#0>, len: 2, parent: t: 'ab'), (<8#2>, len: 1, origin-l: <6#0>: 'd')], ClientID(6): [(<6#0>, len: 1, origin-l: <8#1>: 'c'), (<6#1>, len: 1, origin-l: <8#2>: 'e')]} } }
   plan [One(4), One(3), One(2), One(1), One(0)]; receiver text at the end: "abcde" *)
Definition itg_case20_updates : list (list N) :=
  [[2; 2; 8; 0; 4; 1; 1; 116; 2; 97; 98; 132; 6; 0; 1; 100; 2; 6; 0; 132; 8; 1; 1; 99; 132; 8; 2; 1; 101; 0];
   [1; 1; 6; 1; 132; 8; 2; 1; 101; 0];
   [1; 1; 8; 2; 132; 6; 0; 1; 100; 0];
   [1; 1; 6; 0; 132; 8; 1; 1; 99; 0];
   [1; 1; 8; 0; 4; 1; 1; 116; 2; 97; 98; 0]].
Definition itg_case20_expect : list itg_expect :=
  [itg_mkexpect [(6, 2); (8, 3)] false [(6, [(0, 2)]); (8, [(0, 3)])] [] [] [];
   itg_mkexpect [(6, 2); (8, 3)] false [(6, [(0, 2)]); (8, [(0, 3)])] [] [] [];
   itg_mkexpect [(6, 2); (8, 3)] false [(6, [(0, 2)]); (8, [(0, 3)])] [] [] [];
   itg_mkexpect [(6, 2); (8, 3)] false [(6, [(0, 2)]); (8, [(0, 3)])] [] [] [];
   itg_mkexpect [(6, 2); (8, 3)] false [(6, [(0, 2)]); (8, [(0, 3)])] [] [] []].
Example itg_case20_ok : itg_check_case itg_case20_updates itg_case20_expect = true.
Proof. vm_compute. reflexivity. Qed.

(* the two cases below were recorded with `--features weak` (Update::missing_dependency then also tests the ids of the two ends of a quotation) *)
(* case21: feature weak: quotations (weak links) arrive before the quoted text: missing_dependency tests the ids of both ends
   clients [3, 4]
   u0 =  { blocks: BlockSet { clients: {ClientID(3): [(<3#0>, len: 6, parent: t: 'abcdef')]} } }
   u1 =  { blocks: BlockSet { clients: {ClientID(4): [(<4#0>, len: 1, parent: a: <weak(<<3#1>..<3#3>>)>)]} } }
   u2 =  { blocks: BlockSet { clients: {ClientID(3): [(<3#6>, len: 1, origin-l: <3#5>: 'g')]} } }
   u3 =  { blocks: BlockSet { clients: {ClientID(4): [(<4#1>, len: 1, origin-r: <4#0>: <weak(<<3#6>..<3#6>>)>)]} } }
   plan [One(1), One(3), One(0), One(1), One(2)]; receiver text at the end: "abcdefg" *)
Definition itg_case21_updates : list (list N) :=
  [[1; 1; 4; 0; 7; 1; 1; 97; 7; 5; 3; 1; 3; 3; 0];
   [1; 1; 4; 1; 71; 4; 0; 7; 4; 3; 6; 0];
   [1; 1; 3; 0; 4; 1; 1; 116; 6; 97; 98; 99; 100; 101; 102; 0];
   [1; 1; 4; 0; 7; 1; 1; 97; 7; 5; 3; 1; 3; 3; 0];
   [1; 1; 3; 6; 132; 3; 5; 1; 103; 0]].
Definition itg_case21_expect : list itg_expect :=
  [itg_mkexpect [] true [] [] [(3, 1)] [1; 1; 4; 0; 7; 1; 1; 97; 7; 5; 3; 1; 3; 3; 0];
   itg_mkexpect [] true [] [] [(3, 1); (4, 0)] [1; 2; 4; 0; 7; 1; 1; 97; 7; 5; 3; 1; 3; 3; 71; 4; 0; 7; 4; 3; 6; 0];
   itg_mkexpect [(3, 6); (4, 1)] true [(3, [(0, 6)]); (4, [(0, 1)])] [] [(3, 6)] [1; 1; 4; 1; 71; 4; 0; 7; 4; 3; 6; 0];
   itg_mkexpect [(3, 6); (4, 1)] true [(3, [(0, 6)]); (4, [(0, 1)])] [] [(3, 6)] [1; 1; 4; 1; 71; 4; 0; 7; 4; 3; 6; 0];
   itg_mkexpect [(3, 7); (4, 2)] false [(3, [(0, 7)]); (4, [(0, 2)])] [] [] []].
Example itg_case21_ok : itg_check_case itg_case21_updates itg_case21_expect = true.
Proof. vm_compute. reflexivity. Qed.

(* case22: feature weak: the quotation and the text in one merged update, the link's client first (4 > 3)
   clients [3, 4]
   u0 =  { blocks: BlockSet { clients: {ClientID(3): [(<3#0>, len: 6, parent: t: 'abcdef')]} } }
   u1 =  { blocks: BlockSet { clients: {ClientID(4): [(<4#0>, len: 1, parent: a: <weak(<<3#1>..<3#3>>)>)]} } }
   u2 =  { blocks: BlockSet { clients: {ClientID(3): [(<3#6>, len: 1, origin-l: <3#5>: 'g')]} } }
   u3 =  { blocks: BlockSet { clients: {ClientID(4): [(<4#1>, len: 1, origin-r: <4#0>: <weak(<<3#6>..<3#6>>)>)]} } }
   plan [Merge([1, 0]), Merge([3, 2]), One(3)]; receiver text at the end: "abcdefg" *)
Definition itg_case22_updates : list (list N) :=
  [[2; 1; 4; 0; 7; 1; 1; 97; 7; 5; 3; 1; 3; 3; 1; 3; 0; 4; 1; 1; 116; 6; 97; 98; 99; 100; 101; 102; 0];
   [2; 1; 4; 1; 71; 4; 0; 7; 4; 3; 6; 1; 3; 6; 132; 3; 5; 1; 103; 0];
   [1; 1; 4; 1; 71; 4; 0; 7; 4; 3; 6; 0]].
Definition itg_case22_expect : list itg_expect :=
  [itg_mkexpect [(3, 6); (4, 1)] false [(3, [(0, 6)]); (4, [(0, 1)])] [] [] [];
   itg_mkexpect [(3, 7); (4, 2)] false [(3, [(0, 7)]); (4, [(0, 2)])] [] [] [];
   itg_mkexpect [(3, 7); (4, 2)] false [(3, [(0, 7)]); (4, [(0, 2)])] [] [] []].
Example itg_case22_ok : itg_check_case itg_case22_updates itg_case22_expect = true.
Proof. vm_compute. reflexivity. Qed.


(* ================================================================================================ *)
(* (d), negative part: a block whose own dependencies are all integrated stays in the stash          *)
(* ================================================================================================ *)
(* case01 after its first five steps: 20:0..5, 10:0, 20:7, 20:8 are integrated; the stash holds 20:9 (which waits
   for 20:5), a Skip and 20:13 = BItem 20:13 (origin 20:7) (right origin 20:8) *)
Definition itg_stuck_store : option itg_store :=
  match rev (itg_trace_from itg_empty (firstn 5 itg_case01_updates)) with
  | Some s :: _ => Some s
  | _ => None
  end.
Definition itg_stuck_block : block := BItem (mkid 20 13) (Some (mkid 20 7)) (Some (mkid 20 8)) PUnknown None (BDeleted 1).
Definition itg_stuck_update : option update := itg_dec (nth 4 itg_case01_updates []).

(* every dependency id of 20:13 is integrated, 20:13 is in the stash and not integrated *)
Example itg_complete_refuted :
  match itg_stuck_store with
  | Some s =>
      forallb (fun d => itg_has (itg_blocks s) d && negb (itg_is_missing (itg_blocks s) d)) (itg_deps itg_stuck_block)
      && negb (itg_has (itg_blocks s) (mkid 20 13))
      && match itg_pend s with
         | Some p => existsb (fun e => existsb (fun b => id_eqb (block_id b) (mkid 20 13) &&
                                                   oid_eqb (match b with BItem _ o _ _ _ _ => o | _ => None end) (Some (mkid 20 7)))
                                               (snd e)) (u_blocks (itg_p_update p))
         | None => false
         end
      && itg_list_eqb itg_nn_eqb (itg_obs_missing s) [(20, 5)]
  | None => false
  end = true.
Proof. vm_compute. reflexivity. Qed.

(* applying the update that brought 20:13 once more integrates it (the stash keeps its stale copy) *)
Example itg_complete_refuted_second_application :
  match itg_stuck_store, itg_stuck_update with
  | Some s, Some u =>
      match itg_apply_update_res s u with
      | itg_ok s' => itg_has (itg_blocks s') (mkid 20 13) && itg_obs_has_pending s'
      | _ => false
      end
  | _, _ => false
  end = true.
Proof. vm_compute. reflexivity. Qed.

(* ================================================================================================ *)
(* decodable updates outside the domain of the Rust code (tests/itg_hostile.rs)                      *)
(* ================================================================================================ *)
(* the receiver knows 1:0..3 ("abc", client 1) *)
Definition itg_hostile_base (c : N) : option itg_store :=
  match itg_dec [1; 1; c; 0; 4; 1; 1; 116; 3; 97; 98; 99; 0] with
  | Some u => match itg_apply_update_res itg_empty u with itg_ok s => Some s | _ => None end
  | None => None
  end.
Definition itg_hostile_run (c : N) (bs : list N) : option (itg_res itg_store) :=
  match itg_hostile_base c, itg_dec bs with
  | Some s, Some u => Some (itg_apply_update_res s u)
  | _, _ => None
  end.
Definition itg_is_undef (t : N) (r : option (itg_res itg_store)) : bool :=
  match r with Some (itg_undef t') => t =? t' | _ => false end.

(* the closure hypothesis of (d) asks for a ranking that respects the order of each client's blocks; without it (d)
   is false.  This update (clients 6 and 5; 6:0 has origin 5:1, 5:0 has origin 6:1; 6:1 and 5:1 have no dependency) is
   closed: integrating 6:1, 5:0, 5:1, 6:0 in this order meets every dependency.  BlockPicker visits each client's
   blocks in clock order: 6:0 waits for client 5, whose first block 5:0 waits for client 6, which is on the stack.
   Everything is set aside, and a second and third application change nothing (Rust: the same, tests/itg_hostile.rs
   "closed-against-client-order": sv {1: 3}, pending, missing {5: 1, 6: 1}).  No Yrs client produces such an
   update: 6:0 would have been created after 5:1, 5:1 after 5:0, 5:0 after 6:1, 6:1 after 6:0. *)
Definition itg_weak_bytes : list N :=
  [2; 2; 6; 0; 132; 5; 1; 1; 97; 4; 1; 1; 116; 1; 98; 2; 5; 0; 132; 6; 1; 1; 99; 4; 1; 1; 116; 1; 100; 0].
Example itg_complete_weak_closure_refuted :
  match itg_hostile_base 1, itg_dec itg_weak_bytes with
  | Some s, Some u =>
      (* every dependency id is the id of a block of the update *)
      forallb (fun e => forallb (fun b => forallb (fun d =>
                 existsb (fun e2 => existsb (fun b2 => id_eqb (block_id b2) d) (snd e2)) (u_blocks u)) (itg_deps b)) (snd e))
              (u_blocks u) &&
      match itg_apply_update_res s u with
      | itg_ok s1 =>
          itg_obs_has_pending s1 && itg_list_eqb itg_nn_eqb (itg_obs_sv s1) [(1, 3)] &&
          itg_list_eqb itg_nn_eqb (itg_obs_missing s1) [(5, 1); (6, 1)] &&
          match itg_apply_update_res s1 u with
          | itg_ok s2 =>
              itg_obs_has_pending s2 && itg_list_eqb itg_nn_eqb (itg_obs_sv s2) [(1, 3)] &&
              match itg_apply_update_res s2 u with
              | itg_ok s3 => itg_obs_has_pending s3 && itg_list_eqb itg_nn_eqb (itg_obs_sv s3) [(1, 3)] &&
                             itg_list_eqb itg_nn_eqb (itg_obs_missing s3) [(5, 1); (6, 1)]
              | _ => false
              end
          | _ => false
          end
      | _ => false
      end
  | _, _ => false
  end = true.
Proof. vm_compute. reflexivity. Qed.

(* 1. a client section with 0 blocks for a client the receiver knows.
   Rust: panics, yrs/src/update.rs:85 `structs.front().unwrap()` (called `Option::unwrap()` on a `None` value) *)
Example itg_hostile_empty_section : itg_is_undef 1 (itg_hostile_run 1 [1; 0; 1; 0; 0]) = true.
Proof. vm_compute. reflexivity. Qed.
(* for a client the receiver does not know the same update is harmless (Rust: no panic, nothing changes) *)
Example itg_hostile_empty_section_unknown :
  match itg_hostile_run 1 [1; 0; 5; 0; 0] with Some (itg_ok s) => itg_list_eqb itg_nn_eqb (itg_obs_sv s) [(1, 3)] | _ => false end = true.
Proof. vm_compute. reflexivity. Qed.
(* 2. two sections of client 2 (2:0 and 2:5); the receiver knows 2:0..3, the cut at clock 3 falls into the gap.
   Rust: panics, yrs/src/update.rs:156 `unreachable!()` (internal error: entered unreachable code) *)
Example itg_hostile_gap_sections :
  itg_is_undef 2 (itg_hostile_run 2 [2; 1; 2; 0; 4; 1; 1; 116; 1; 97; 1; 2; 5; 4; 1; 1; 116; 1; 122; 0]) = true.
Proof. vm_compute. reflexivity. Qed.
(* 3. the same id twice in one update (two sections of client 3, both at clock 0).
   Rust: no panic; BlockStore::push overwrites the first item in the block list (`list.inner[index] = block`, the Box of
   the first item is dropped) while the text still links to it: the document reads "abcrq", the block list of
   client 3 holds one block *)
Example itg_hostile_duplicate_block :
  itg_is_undef 4 (itg_hostile_run 1 [2; 1; 3; 0; 4; 1; 1; 116; 1; 113; 1; 3; 0; 4; 1; 1; 116; 1; 114; 0]) = true.
Proof. vm_compute. reflexivity. Qed.
(* 4. overlapping blocks 3:0..2 and 3:1..3.
   Rust: panics, yrs/src/block_store.rs:318 (attempt to subtract with overflow; debug build) *)
Example itg_hostile_overlapping_blocks :
  itg_is_undef 5 (itg_hostile_run 1 [2; 1; 3; 0; 4; 1; 1; 116; 2; 113; 113; 1; 3; 1; 4; 1; 1; 116; 2; 114; 114; 0]) = true.
Proof. vm_compute. reflexivity. Qed.
(* 5. sections out of order (3:5 then 3:0): inside the domain, the second block fills the Skip (Rust: sv 3:1, "abcrq") *)
Example itg_hostile_out_of_order_sections :
  match itg_hostile_run 1 [2; 1; 3; 5; 4; 1; 1; 116; 1; 113; 1; 3; 0; 4; 1; 1; 116; 1; 114; 0] with
  | Some (itg_ok s) => itg_list_eqb itg_nn_eqb (itg_obs_sv s) [(1, 3); (3, 1)] &&
                       itg_pc_eqb (itg_obs_ranges s) [(1, [(0, 3)]); (3, [(0, 1); (5, 6)])]
  | _ => false
  end = true.
Proof. vm_compute. reflexivity. Qed.

(* ================================================================================================ *)
(* the literal recursion of apply_update and the loop agree on every step of every case             *)
(* ================================================================================================ *)
Definition itg_res_eqb (a b : itg_res itg_store) : bool :=
  match a, b with
  | itg_ok s, itg_ok s' =>
      itg_list_eqb itg_nn_eqb (itg_obs_sv s) (itg_obs_sv s') && itg_pc_eqb (itg_obs_ranges s) (itg_obs_ranges s') &&
      itg_pc_eqb (itg_obs_holes s) (itg_obs_holes s') && itg_list_eqb itg_nn_eqb (itg_obs_missing s) (itg_obs_missing s') &&
      itg_pb_eqb (itg_obs_pending s) (itg_obs_pending s') && (length (itg_log s) =? length (itg_log s'))%nat
  | itg_undef t, itg_undef t' => t =? t'
  | itg_nofuel, itg_nofuel => true
  | _, _ => false
  end.
Fixpoint itg_rec_agrees (s : itg_store) (us : list (list N)) : bool :=
  match us with
  | [] => true
  | bs :: us' =>
      match itg_dec bs with
      | Some u =>
          itg_res_eqb (itg_apply_rec 12 s u) (itg_apply_update_res s u) &&
          match itg_apply_update_res s u with itg_ok s' => itg_rec_agrees s' us' | _ => false end
      | None => false
      end
  end.
Example itg_rec_agrees_cases :
  forallb (itg_rec_agrees itg_empty)
    [itg_case01_updates; itg_case02_updates; itg_case03_updates; itg_case08_updates; itg_case10_updates;
     itg_case15_updates; itg_case16_updates; itg_case17_updates; itg_case18_updates; itg_case19_updates] = true.
Proof. vm_compute. reflexivity. Qed.

(* ================================================================================================ *)
(* (e), eventual statement, bounded: every delivery order of some small closed histories            *)
(* ================================================================================================ *)
(* The general statement is not proved (see the end of IntegrateProofs.v).  Here: for the single-transaction updates
   of four of the histories above, EVERY permutation, and every permutation with one update delivered a second
   time at any position, leaves the model without a stash and with the whole history integrated. *)
Fixpoint itg_insert_all {A : Type} (x : A) (l : list A) : list (list A) :=
  match l with
  | [] => [[x]]
  | y :: r => (x :: l) :: map (cons y) (itg_insert_all x r)
  end.
Fixpoint itg_perms {A : Type} (l : list A) : list (list A) :=
  match l with
  | [] => [[]]
  | x :: r => flat_map (itg_insert_all x) (itg_perms r)
  end.
Definition itg_with_one_dup {A : Type} (l : list A) : list (list A) :=
  flat_map (fun p => flat_map (fun x => itg_insert_all x p) l) (itg_perms l).

Fixpoint itg_run_all (s : itg_store) (us : list update) : option itg_store :=
  match us with
  | [] => Some s
  | u :: r => match itg_apply_update_res s u with itg_ok s' => itg_run_all s' r | _ => None end
  end.
Definition itg_decode_all (bs : list (list N)) : list update :=
  flat_map (fun b => match itg_dec b with Some u => [u] | None => [] end) bs.
Definition itg_final_ok (sv : list (N * N)) (us : list update) : bool :=
  match itg_run_all itg_empty us with
  | Some s => negb (itg_obs_has_pending s) && itg_list_eqb itg_nn_eqb (itg_obs_sv s) sv &&
              match itg_obs_holes s with [] => true | _ => false end
  | None => false
  end.
Definition itg_all_orders_ok (sv : list (N * N)) (bs : list (list N)) : bool :=
  let us := itg_decode_all bs in
  (length us =? length bs)%nat &&
  forallb (itg_final_ok sv) (itg_perms us) && forallb (itg_final_ok sv) (itg_with_one_dup us).

(* case03: four single inserts of two clients: 24 orders, 480 with a duplicate *)
Example itg_eventual_case03 : itg_all_orders_ok [(1, 2); (2, 2)] (rev itg_case03_updates) = true.
Proof. vm_compute. reflexivity. Qed.
(* case07: chain over three clients *)
Example itg_eventual_case07 : itg_all_orders_ok [(5, 2); (6, 1); (7, 1)] itg_case07_updates = true.
Proof. vm_compute. reflexivity. Qed.
(* case05: one client, five blocks that do not depend on each other in clock order: 120 orders, 3600 with a duplicate *)
Example itg_eventual_case05 : itg_all_orders_ok [(7, 8)] itg_case05_updates = true.
Proof. vm_compute. reflexivity. Qed.
(* case16/17: five clients, two chains: 120 orders, 3600 with a duplicate *)
Example itg_eventual_case16 :
  itg_all_orders_ok [(1, 1); (2, 1); (5, 1); (7, 1); (9, 1)]
    [nth 4 itg_case17_updates []; nth 2 itg_case17_updates []; nth 0 itg_case17_updates []; nth 1 itg_case17_updates []; nth 6 itg_case17_updates []] = true.
Proof. vm_compute. reflexivity. Qed.
(* case15: three clients, seven updates: the 5040 orders (no duplicates) *)
Example itg_eventual_case15 :
  let us := itg_decode_all [nth 3 itg_case15_updates []; nth 5 itg_case15_updates []; nth 6 itg_case15_updates [];
                            nth 2 itg_case15_updates []; nth 0 itg_case15_updates []; nth 1 itg_case15_updates [];
                            nth 4 itg_case15_updates []] in
  (length us =? 7)%nat && forallb (itg_final_ok [(10, 1); (20, 1); (30, 8)]) (itg_perms us) = true.
Proof. vm_compute. reflexivity. Qed.
