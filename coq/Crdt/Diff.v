(* Two document-free functions of yrs/src/alt.rs, transcribed from yrs/src/update.rs:

     diff_updates_v1(update, state_vector)
        = StateVector::decode_v1, Update::decode_v1, Update::encode_diff(&sv, EncoderV1)      [dff_diff_update]
     encode_state_vector_from_update_v1(update)
        = Update::decode_v1, Update::state_vector(), StateVector::encode_v1                   [dff_state_vector]

   Update::encode_diff, per entry (client, blocks) of the block map:
        remote_clock = remote_sv.get(client)                          (0 for a client the vector does not know)
        walk the blocks:  a Skip block is passed over;
                          a block with  clock + len <= remote_clock  is passed over;
                          the first other block is pushed with
                              offset = max(remote_clock - clock, 0)   (computed in i64)
                          and then EVERY block that follows is pushed as it is, Skip blocks included.
      Hence: leading Skip blocks and blocks entirely below the vector disappear; a block list that starts above
      the vector's clock (a gap) is written from its own first clock (offset 0); a Skip block that follows the
      first written block is written.
   Then the clients that got at least one block are written by descending client id:
        number of blocks, client, clock of the first block + offset, blocks[0].encode_with_offset(offset),
        the other blocks with encode_with_offset(0),
   and finally the delete set of the update, in full.

   Block::encode_with_offset(offset)                                                       [dff_encode_with_offset]
        GC / Skip:  the ref number and  len - offset;
        Item:       ItemSlice::new(item, offset, len - 1).encode():
                      origin = the item's origin when offset = 0, else Some (client, clock + offset - 1);
                      right origin = the item's;
                      parent and parent_sub are written only when there is neither origin nor right origin (so a
                      slice with offset > 0 never carries them), but the HAS_PARENT_SUB bit of the info byte is
                      the item's;
                      content = ItemContent::encode_slice(offset, len - 1)                 [dff_content_slice]:
                        Deleted: len - offset; JSON / Any: the elements from index offset on;
                        String: split_str(s, offset, Utf16).1 when offset != 0  (and no trimming at the end, as
                                end + 1 = len); Binary, Embed, Format, Type, Doc: the content (their length is 1,
                                so the offset is 0).
      The result is given as a block of the model: [encode_block] of it are the bytes written.  A sliced item
      keeps its parent / parent_sub in memory; on the wire they are absent (its origin is present), which is
      what [encode_block] does with them.  The ids inside the block list are those of the argument (the id of
      the first block is moved by the offset): the wire carries the first clock of a client only, the decoder
      numbers the other blocks consecutively.

   split_str(s, offset, Utf16) = [blk_split_str] (Crdt/Blocks.v): an offset between the two code units of a
   surrogate pair is rounded up to the end of the character.  encode_diff then writes `clock + offset` as the
   first clock and a string that starts AFTER the pair: the low surrogate is not sent and the slice is one unit
   shorter than `len - offset` (see dff_diff_units_pair_refuted in DiffProofs.v).

   Arithmetic.  All clocks and lengths are u32 in Rust and N here.  For an update produced by Update::decode
   every `clock + len` fits u32 (checked_add in the decoder); encode_diff computes `clock + len` (fits),
   `remote_clock as i64 - clock as i64` (exact), `clock + offset` (<= clock + len), `len - offset` and, for
   items, `len - 1` (offset <= len, and < len when len > 0; an item has len >= 1): no operation can overflow,
   see dff_scan_bounds in DiffProofs.v.  N.sub is therefore exact wherever it is used below.  No `unwrap`,
   no index out of range: the only panic of ItemSlice::encode (TypePtr::Unknown on an item without origins)
   is unreachable for decoded items (an item without origins was decoded with its parent) - it is the None of
   [encode_block].

   Update::state_vector, per entry (client, blocks):
        last_clock = 0
        if blocks is not empty and blocks[0].clock == 0:
           for each block, until the first Skip block:  last_clock = clock + len
        if last_clock != 0: sv.set_max(client, last_clock)
   Nothing is compared between consecutive blocks: a hole in the list that is not filled by a Skip block is
   not seen (dff_state_vector_spec_needs_chain in DiffProofs.v).

   The block map and the state vector are HashMaps.  [u_blocks] lists the entries of the block map (distinct
   keys: [add_client_blocks]); encode_diff sorts the clients it writes, so the order of [u_blocks] is
   irrelevant.  StateVector::encode writes in the iteration order of the HashMap, which is not modelled:
   [dff_state_vector] lists the entries in the order of [u_blocks], and results are compared up to the order
   ([dff_sv_sort]). *)
From Coq Require Import List NArith ZArith Bool.
From YV Require Import Gen.Consts Lib.Bytes Codec.Varint Codec.AnyCodec Codec.IdSetCodec Codec.UpdateV1
  Codec.V2Cols Ids.Ranges Crdt.Doc Crdt.Blocks Crdt.Merge.
Import ListNotations.
Open Scope N_scope.

(* ================================================================================================ *)
(* A. Update::encode_diff                                                                           *)
(* ================================================================================================ *)

(* ItemContent::encode_slice(start, len - 1) *)
Definition dff_content_slice (c : bcontent) (start : N) : bcontent :=
  match c with
  | BDeleted n => BDeleted (n - start)                                   (* end - start + 1 *)
  | BString s => if start =? 0 then c else BString (snd (blk_split_str s start))
  | BJson l => BJson (skipn (N.to_nat start) l)                          (* for i in start..=end *)
  | BAny l => BAny (skipn (N.to_nat start) l)
  | BBinary _ | BEmbed _ | BFormat _ _ | BType _ | BDoc _ _ => c
  end.

(* Block::encode_with_offset, as the block whose plain encoding are the bytes written *)
Definition dff_encode_with_offset (b : block) (offset : N) : block :=
  match b with
  | BItem i o ro p ps c =>
      if offset =? 0 then b                                              (* adjacent_left: the item's origin *)
      else BItem (mkid (cl i) (ck i + offset)) (Some (mkid (cl i) (ck i + offset - 1))) ro p ps
                 (dff_content_slice c offset)
  | BGC i n => BGC (mkid (cl i) (ck i + offset)) (n - offset)
  | BSkip i n => BSkip (mkid (cl i) (ck i + offset)) (n - offset)
  end.

(* the `while let Some(block) = curr` loop over one client's blocks: the offset and the blocks pushed *)
Fixpoint dff_scan (remote_clock : N) (bs : list block) : option (N * list block) :=
  match bs with
  | [] => None
  | b :: r =>
    if mrg_is_skip b then dff_scan remote_clock r
    else if remote_clock <? mrg_end b then Some (remote_clock - mrg_clock b, bs)
    else dff_scan remote_clock r
  end.

(* what is written for one client *)
Definition dff_client_diff (remote_clock : N) (bs : list block) : list block :=
  match dff_scan remote_clock bs with
  | Some (offset, b :: r) => dff_encode_with_offset b offset :: r
  | _ => []
  end.

Definition dff_nonempty (cb : N * list block) : bool := match snd cb with [] => false | _ => true end.

(* `sv.get(client)`: [sv_get] of Codec/IdSetCodec.v *)
Definition dff_diff_update (u : update) (sv : list (N * N)) : update :=
  {| u_blocks :=
       mrg_sort_clients                                                  (* sort_by(|x, y| y.cmp(x)) *)
         (filter dff_nonempty                                            (* only clients that got a block *)
            (map (fun cb => (fst cb, dff_client_diff (sv_get sv (fst cb)) (snd cb))) (u_blocks u)));
     u_ds := u_ds u |}.                                                  (* self.delete_set.encode(encoder) *)

(* ================================================================================================ *)
(* B. Update::state_vector                                                                          *)
(* ================================================================================================ *)

(* the `for block in blocks.iter()` loop: [last] is last_clock *)
Fixpoint dff_sv_scan (last : N) (bs : list block) : N :=
  match bs with
  | [] => last
  | b :: r => if mrg_is_skip b then last else dff_sv_scan (mrg_end b) r
  end.

Definition dff_client_sv (bs : list block) : N :=
  match bs with
  | b0 :: _ => if mrg_clock b0 =? 0 then dff_sv_scan 0 bs else 0
  | [] => 0
  end.

(* StateVector::set_max *)
Definition dff_sv_set_max (s : list (N * N)) (c k : N) : list (N * N) := sv_set s c (N.max (sv_get s c) k).

Definition dff_state_vector (u : update) : list (N * N) :=
  fold_left (fun s cb => let n := dff_client_sv (snd cb) in
                         if n =? 0 then s else dff_sv_set_max s (fst cb) n) (u_blocks u) [].

(* comparison of state vectors up to the order of the entries *)
Fixpoint dff_sv_insert (x : N * N) (l : list (N * N)) : list (N * N) :=
  match l with
  | [] => [x]
  | y :: r => if fst x <=? fst y then x :: l else y :: dff_sv_insert x r
  end.
Definition dff_sv_sort (l : list (N * N)) : list (N * N) := fold_right dff_sv_insert [] l.

(* ================================================================================================ *)
(* C. entry points on bytes (for a driver)                                                          *)
(* ================================================================================================ *)
(* a panic site for the encoder (ItemSlice::encode on TypePtr::Unknown, unencodable Any): never reached from
   decoded input in any run so far *)
Definition dff_P_ENCODE : N := 40.

(* diff_updates_v1: the state vector is decoded first; bytes that follow the vector / the update are ignored *)
Definition dff_diff_updates_v1 (update state_vector : list N) : res (list N) :=
  let* (sv, _r) := decode_sv_v1 (S (length state_vector)) state_vector in
  let* (u, _r') := decode_update_v1 (S (length update)) update in
  match encode_update_v1 (dff_diff_update u sv) with
  | Some bs => Ok bs []
  | None => Panic dff_P_ENCODE
  end.

(* encode_state_vector_from_update_v1, up to the order of the entries: the vector itself, sorted by client *)
Definition dff_state_vector_from_update_v1 (update : list N) : res (list (N * N)) :=
  let* (u, _r) := decode_update_v1 (S (length update)) update in
  Ok (dff_sv_sort (dff_state_vector u)) [].
(* ... and some encoding of it (entries by ascending client) *)
Definition dff_encode_state_vector_from_update_v1 (update : list N) : res (list N) :=
  rmap encode_sv_v1 (dff_state_vector_from_update_v1 update).

(* ================================================================================================ *)
(* D. hypotheses of the theorems (executable)                                                       *)
(* ================================================================================================ *)
Fixpoint dff_nodupb (l : list N) : bool :=
  match l with [] => true | x :: r => negb (existsb (N.eqb x) r) && dff_nodupb r end.

(* consecutive blocks do not overlap and are in increasing clock order *)
Fixpoint dff_sorted_b (bs : list block) : bool :=
  match bs with
  | a :: r => match r with b :: _ => mrg_end a <=? mrg_clock b | [] => true end && dff_sorted_b r
  | [] => true
  end.

(* one entry of the block map: every block belongs to the client, has a positive length and (strings) valid
   UTF-8 - [mrg_block_ok] -, increasing clocks without overlap *)
Definition dff_client_wf (cb : N * list block) : bool :=
  forallb (fun b => (mrg_client b =? fst cb) && mrg_block_ok b) (snd cb) && dff_sorted_b (snd cb).

Definition dff_wf (u : update) : bool :=
  dff_nodupb (map fst (u_blocks u)) && forallb dff_client_wf (u_blocks u).

(* the vector does not point between the two code units of a surrogate pair: a block that contains the
   vector's clock strictly inside can be cut there ([blk_split] fails only on a string, at such an offset) *)
Definition dff_cut_ok_block (v : N) (b : block) : bool :=
  negb ((mrg_clock b <? v) && (v <? mrg_end b))
  || match blk_split b (v - mrg_clock b) with Some _ => true | None => false end.
Definition dff_cut_ok (u : update) (sv : list (N * N)) : bool :=
  forallb (fun cb => forallb (dff_cut_ok_block (sv_get sv (fst cb))) (snd cb)) (u_blocks u).

(* holes are filled by Skip blocks: every block starts where the previous one ends (what Update::decode
   produces for a client that occurs in one section of the update) *)
Fixpoint dff_chain_b (bs : list block) : bool :=
  match bs with
  | a :: r => match r with b :: _ => mrg_end a =? mrg_clock b | [] => true end && dff_chain_b r
  | [] => true
  end.
Definition dff_chain (u : update) : bool := forallb (fun cb => dff_chain_b (snd cb)) (u_blocks u).

(* for a driver: (dff_wf, dff_chain, dff_cut_ok) of the decoded arguments; None = an argument does not decode *)
Definition dff_hypotheses_v1 (update state_vector : list N) : option (bool * bool * bool) :=
  match decode_sv_v1 (S (length state_vector)) state_vector, decode_update_v1 (S (length update)) update with
  | Ok sv _, Ok u _ => Some (dff_wf u, dff_chain u, dff_cut_ok u sv)
  | _, _ => None
  end.

(* ---- specification side ---- *)
(* the blocks of an update, clients descending (the order encode_diff and Update::encode write them in) *)
Definition dff_blocks_desc (u : update) : list block := flat_map snd (mrg_sort_clients (u_blocks u)).
Definition dff_units_desc (u : update) : list xop := flat_map units_of_block (dff_blocks_desc u).
(* a unit the receiver does not have according to its vector *)
Definition dff_new (sv : list (N * N)) (x : xop) : bool := sv_get sv (cl (xid x)) <=? ck (xid x).
(* what the decoder of the receiver makes of a block: parent and parent_sub only on items without origins *)
Definition dff_wire_block (b : block) : block :=
  match b with
  | BItem i o ro p ps c =>
      match o, ro with None, None => b | _, _ => BItem i o ro PUnknown None c end
  | _ => b
  end.
Definition dff_wire (u : update) : update :=
  {| u_blocks := map (fun cb => (fst cb, map dff_wire_block (snd cb))) (u_blocks u); u_ds := u_ds u |}.
