(* Local rich-text operations of ONE replica at unit level: transcription of yrs/src/types/text.rs
     Text::insert, Text::insert_with_attributes (fn insert), Text::insert_embed, Text::format (fn insert_format),
     Text::remove_range (fn remove, fn clean_format_gap as of commit b6f7856), Text::diff (DiffAssembler::process without snapshots),
     find_position, minimize_attr_changes, insert_attributes, insert_negated_attributes,
     update_current_attributes, and of block.rs ItemPosition::forward / ItemPosition::unset_missing,
   over the item list of one text (tombstones included, gc off or on), one item per UTF-16 unit / embed / marker.
   What is not visible at this granularity: block splitting and squashing, origins (a local item lands exactly
   between pos.left and pos.right), the cached lengths.
   Attribute names and values are tokens as in Events.v (token 0 = Any::Null); maps are [amap].
   The Rust iterates over HashMaps (attributes, negated attributes): the order in which the new Format items
   are created is not determined by the program. The model takes two ORDER HINTS (lists of keys, see rt_order):
   o1 for the loop of insert_attributes, o2 for the loop of insert_negated_attributes; with [] [] the maps are
   walked in list order. Every theorem holds for all hints.
   Fresh ids: [ids n] is the id of the n-th unit the call creates (n = 0, 1, ...), in the order the Rust creates
   them: markers of insert_attributes, then the characters, then the markers of insert_negated_attributes.
   No proofs in this file. *)
From Coq Require Import List NArith Bool Arith.
From YV Require Import Codec.UpdateV1 Crdt.Events.
Import ListNotations.
Open Scope N_scope.

(* ---------------------------------------------------------------------------------------------- *)
(* items *)

Inductive rt_content :=
| RChar (u : N)            (* one unit of ItemContent::String *)
| REmbed (v : tok)         (* ItemContent::Embed *)
| RType (v : tok)          (* ItemContent::Type: a shared type embedded in the text *)
| RFormat (k v : tok)      (* ItemContent::Format(key, value); value NULL = the attribute ends *)
| RGone.                   (* one unit of ItemContent::Deleted (collected content; always deleted) *)

Record rt_item := rt_mk { rt_id : id; rt_del : bool; rt_cont : rt_content }.
Definition rt_it (c k : N) (d : bool) (x : rt_content) : rt_item := rt_mk (mkid c k) d x.

(* txn.delete(item) *)
Definition rt_kill (x : rt_item) : rt_item := rt_mk (rt_id x) true (rt_cont x).

(* Embed | String | Type: what find_position counts, remove deletes, diff reports *)
Definition rt_countable (x : rt_item) : bool :=
  match rt_cont x with RChar _ | REmbed _ | RType _ => true | _ => false end.

(* the store never holds a live item with collected content *)
Definition rt_wf_item (x : rt_item) : bool := match rt_cont x with RGone => rt_del x | _ => true end.
Definition rt_wf (l : list rt_item) : bool := forallb rt_wf_item l.

(* ---------------------------------------------------------------------------------------------- *)
(* attribute maps *)

Definition rt_mem (m : amap) (k : tok) : bool := match am_get m k with Some _ => true | None => false end.
Definition rt_getd (m : amap) (k : tok) : tok := match am_get m k with Some v => v | None => NULL end.
Definition rt_is_empty (m : amap) : bool := match m with [] => true | _ => false end.

(* a HashMap has one entry per key *)
Fixpoint rt_attrs_ok (m : amap) : bool :=
  match m with [] => true | (k, _) :: r => negb (rt_mem r k) && rt_attrs_ok r end.

(* iteration order: the entries whose key is listed in [o], in the order of [o], then the others as they come *)
Definition rt_order (o : list tok) (m : amap) : amap :=
  flat_map (fun k => match am_get m k with Some v => [(k, v)] | None => [] end) (nodup N.eq_dec o)
  ++ filter (fun kv => negb (existsb (N.eqb (fst kv)) o)) m.

(* pos.current_attrs : Option<Box<Attrs>> *)
Definition rt_cur_map (c : option amap) : amap := match c with Some m => m | None => [] end.   (* get_or_init *)
Definition rt_cur_get (c : option amap) (k : tok) : tok := rt_getd (rt_cur_map c) k.          (* .get(k).unwrap_or(Null) *)

(* ItemPosition::forward, the part that concerns current_attrs *)
Definition rt_forward_cur (c : option amap) (x : rt_item) : option amap :=
  if rt_del x then c
  else match rt_cont x with
       | RFormat k v => Some (am_update (rt_cur_map c) k v)
       | _ => c
       end.

(* ItemPosition::unset_missing *)
Definition rt_unset_missing (c : option amap) (attrs : amap) : amap :=
  match c with
  | None => attrs
  | Some m => attrs ++ map (fun kv => (fst kv, NULL)) (filter (fun kv => negb (rt_mem attrs (fst kv))) m)
  end.

(* ---------------------------------------------------------------------------------------------- *)
(* find_position: (items passed, items to the right, format_ptrs as key -> value of the marker).
   The loop stops as soon as [remaining] is used up: the position is directly after the index-th live unit,
   BEFORE the markers and tombstones that follow it. An index beyond the end yields the end. *)
Fixpoint rt_find_position (l : list rt_item) (remaining : nat) (fp : amap) : list rt_item * list rt_item * amap :=
  match l with
  | [] => ([], [], fp)
  | x :: rest =>
    match remaining with
    | O => ([], l, fp)
    | S rem' =>
      let '(a, b, fp') :=
        if rt_del x then rt_find_position rest remaining fp
        else match rt_cont x with
             | RFormat k v => rt_find_position rest remaining (am_update fp k v)   (* Null: remove(key), else insert *)
             | _ => rt_find_position rest rem' fp
             end in
      (x :: a, b, fp')
    end
  end.

(* current_attrs stays None when no marker is in force *)
Definition rt_init_cur (fp : amap) : option amap := if rt_is_empty fp then None else Some fp.

(* minimize_attr_changes *)
Fixpoint rt_minimize (attrs : amap) (cur : option amap) (r : list rt_item) : list rt_item * list rt_item * option amap :=
  match r with
  | [] => ([], [], cur)
  | x :: rest =>
    if rt_del x then let '(a, b, c) := rt_minimize attrs cur rest in (x :: a, b, c)
    else match rt_cont x with
         | RFormat k v =>
           if opt_tok_eqb (am_get attrs k) v
           then let '(a, b, c) := rt_minimize attrs (rt_forward_cur cur x) rest in (x :: a, b, c)
           else ([], r, cur)
         | _ => ([], r, cur)
         end
  end.

(* insert_attributes: [it] is the attribute map in iteration order; result: new markers, current_attrs,
   negated attributes, next fresh id *)
Fixpoint rt_insert_attributes (it : amap) (cur : option amap) (neg : amap) (ids : nat -> id) (n : nat)
  : list rt_item * option amap * amap * nat :=
  match it with
  | [] => ([], cur, neg, n)
  | (k, v) :: rest =>
    let cv := rt_cur_get cur k in
    if v =? cv then rt_insert_attributes rest cur neg ids n
    else
      let x := rt_mk (ids n) false (RFormat k v) in
      let '(a, c, ng, n') := rt_insert_attributes rest (rt_forward_cur cur x) (am_insert neg k cv) ids (S n) in
      (x :: a, c, ng, n')
  end.

(* insert_negated_attributes, first loop *)
Fixpoint rt_neg_skip (neg : amap) (r : list rt_item) : list rt_item * list rt_item * amap :=
  match r with
  | [] => ([], [], neg)
  | x :: rest =>
    if rt_del x then let '(a, b, ng) := rt_neg_skip neg rest in (x :: a, b, ng)
    else match rt_cont x with
         | RFormat k v =>
           if opt_tok_eqb (am_get neg k) v
           then let '(a, b, ng) := rt_neg_skip (am_remove neg k) rest in (x :: a, b, ng)
           else ([], r, neg)
         | _ => ([], r, neg)
         end
  end.

Fixpoint rt_new_formats (it : amap) (ids : nat -> id) (n : nat) : list rt_item :=
  match it with
  | [] => []
  | (k, v) :: rest => rt_mk (ids n) false (RFormat k v) :: rt_new_formats rest ids (S n)
  end.

Fixpoint rt_new_chars (chars : list N) (ids : nat -> id) (n : nat) : list rt_item :=
  match chars with
  | [] => []
  | u :: rest => rt_mk (ids n) false (RChar u) :: rt_new_chars rest ids (S n)
  end.

(* insert_negated_attributes: what becomes of the items right of the position *)
Definition rt_insert_negated (o2 : list tok) (neg : amap) (r : list rt_item) (ids : nat -> id) (n : nat) : list rt_item :=
  let '(p, r', neg') := rt_neg_skip neg r in
  p ++ rt_new_formats (rt_order o2 neg') ids n ++ r'.

(* ---------------------------------------------------------------------------------------------- *)
(* Text::insert: skips the tombstones right of the position, stops in front of the first live item *)
Fixpoint rt_skip_deleted (r : list rt_item) : list rt_item * list rt_item :=
  match r with
  | x :: rest => if rt_del x then let '(a, b) := rt_skip_deleted rest in (x :: a, b) else ([], r)
  | [] => ([], [])
  end.

Definition rt_insert (l : list rt_item) (index : nat) (chars : list N) (ids : nat -> id) : list rt_item :=
  match chars with
  | [] => l
  | _ =>
    let '(a, b, _) := rt_find_position l index [] in
    let '(d, b') := rt_skip_deleted b in
    a ++ d ++ rt_new_chars chars ids 0 ++ b'
  end.

(* Text::insert_embed: no skipping *)
Definition rt_insert_embed (l : list rt_item) (index : nat) (shared : bool) (v : tok) (ids : nat -> id) : list rt_item :=
  let '(a, b, _) := rt_find_position l index [] in
  a ++ rt_mk (ids O) false (if shared then RType v else REmbed v) :: b.

(* Text::insert_with_attributes = find_position; fn insert *)
Definition rt_insert_with_attributes (l : list rt_item) (index : nat) (chars : list N) (attrs : amap)
           (o1 o2 : list tok) (ids : nat -> id) : list rt_item :=
  match chars with
  | [] => l
  | _ =>
    let '(a, b, fp) := rt_find_position l index [] in
    let cur := rt_init_cur fp in
    let attrs1 := rt_unset_missing cur attrs in
    let '(p1, b1, cur1) := rt_minimize attrs1 cur b in
    let '(m, _, neg, n) := rt_insert_attributes (rt_order o1 attrs1) cur1 [] ids 0 in
    a ++ p1 ++ m ++ rt_new_chars chars ids n ++ rt_insert_negated o2 neg b1 ids (n + length chars)
  end.

(* insert_format, the loop: `while let Some(right) = pos.right { if !(len > 0 || (!negated.is_empty() &&
   is_valid_target(right))) break; ... }` *)
Definition rt_valid_target (x : rt_item) : bool :=
  rt_del x || match rt_cont x with RFormat _ _ => true | _ => false end.

Fixpoint rt_format_loop (attrs : amap) (r : list rt_item) (len : nat) (neg : amap) : list rt_item * list rt_item * amap :=
  match r with
  | [] => ([], [], neg)
  | x :: rest =>
    if negb ((0 <? len)%nat || (negb (rt_is_empty neg) && rt_valid_target x)) then ([], r, neg)
    else if rt_del x then let '(a, b, ng) := rt_format_loop attrs rest len neg in (x :: a, b, ng)
    else match rt_cont x with
         | RFormat k v =>
           match am_get attrs k with
           | Some v' =>
             let neg' := if v' =? v then am_remove neg k else am_insert neg k v in
             let '(a, b, ng) := rt_format_loop attrs rest len neg' in (rt_kill x :: a, b, ng)
           | None => let '(a, b, ng) := rt_format_loop attrs rest len neg in (x :: a, b, ng)
           end
         | _ => let '(a, b, ng) := rt_format_loop attrs rest (pred len) neg in (x :: a, b, ng)
         end
  end.

(* Text::format = find_position; insert_format *)
Definition rt_format (l : list rt_item) (index len : nat) (attrs : amap) (o1 o2 : list tok) (ids : nat -> id) : list rt_item :=
  let '(a, b, fp) := rt_find_position l index [] in
  let cur := rt_init_cur fp in
  let '(p1, b1, cur1) := rt_minimize attrs cur b in
  let '(m, _, neg, n) := rt_insert_attributes (rt_order o1 attrs) cur1 [] ids 0 in
  let '(p2, b2, neg2) := rt_format_loop attrs b1 len neg in
  a ++ p1 ++ m ++ p2 ++ rt_insert_negated o2 neg2 b2 ids n.

(* fn remove, the loop: (items passed, items to the right, current_attrs, remaining) *)
Fixpoint rt_remove_loop (r : list rt_item) (remaining : nat) (cur : option amap)
  : list rt_item * list rt_item * option amap * nat :=
  match r with
  | [] => ([], [], cur, remaining)
  | x :: rest =>
    match remaining with
    | O => ([], r, cur, O)
    | S rem' =>
      if negb (rt_del x) && rt_countable x
      then let '(a, b, c, m) := rt_remove_loop rest rem' cur in (rt_kill x :: a, b, c, m)
      else let '(a, b, c, m) := rt_remove_loop rest remaining (rt_forward_cur cur x) in (x :: a, b, c, m)
    end
  end.

(* clean_format_gap, first loop: `end` moves right until a String or an Embed (deleted or not) or any other
   live countable item (an embedded shared type; since b6f7856) *)
Fixpoint rt_gap_end (r : list rt_item) (ea : amap) : list rt_item * list rt_item * amap :=
  match r with
  | [] => ([], [], ea)
  | x :: rest =>
    match rt_cont x with
    | RChar _ | REmbed _ => ([], r, ea)
    | RFormat k v =>
      let '(a, b, e) := rt_gap_end rest (if rt_del x then ea else am_update ea k v) in (x :: a, b, e)
    | _ =>
      if negb (rt_del x) && rt_countable x then ([], r, ea)
      else let '(a, b, e) := rt_gap_end rest ea in (x :: a, b, e)
    end
  end.

(* clean_format_gap, second loop, one item between start and end *)
Definition rt_clean (sa ea : amap) (x : rt_item) : rt_item :=
  if rt_del x then x
  else match rt_cont x with
       | RFormat k v =>
         if negb (rt_getd ea k =? v) || (rt_getd sa k =? v) then rt_kill x else x
       | _ => x
       end.

(* Text::remove_range; None = the Rust panics (fewer than len units right of the index) *)
Definition rt_remove_range (l : list rt_item) (index len : nat) : option (list rt_item) :=
  let '(a, b, fp) := rt_find_position l index [] in
  let cur := rt_init_cur fp in
  let '(mid, rest, cur', remaining) := rt_remove_loop b len cur in
  if (0 <? remaining)%nat then None
  else Some (a ++
    match b, cur, cur' with
    | _ :: _, Some sa, Some ea =>
      let '(ext, rest', ea') := rt_gap_end rest ea in
      map (rt_clean sa ea') (mid ++ ext) ++ rest'
    | _, _, _ => mid ++ rest
    end).

(* the same without the clean-up (for the statement that the clean-up changes nothing that is visible) *)
Definition rt_remove_range_raw (l : list rt_item) (index len : nat) : option (list rt_item) :=
  let '(a, b, fp) := rt_find_position l index [] in
  let '(mid, rest, _, remaining) := rt_remove_loop b len (rt_init_cur fp) in
  if (0 <? remaining)%nat then None else Some (a ++ mid ++ rest).

(* ---------------------------------------------------------------------------------------------- *)
(* Text::diff, per unit: the attributes in force at every live unit / embed *)
Fixpoint rt_run (cur : amap) (l : list rt_item) : list relem :=
  match l with
  | [] => []
  | x :: r =>
    if rt_del x then rt_run cur r
    else match rt_cont x with
         | RChar u => (EUnit u, cur) :: rt_run cur r
         | REmbed v => (EEmb v, cur) :: rt_run cur r
         | RType v => (EEmb v, cur) :: rt_run cur r
         | RFormat k v => rt_run (am_update cur k v) r
         | RGone => rt_run cur r
         end
  end.
Definition rt_render (l : list rt_item) : list relem := rt_run [] l.

(* ---------------------------------------------------------------------------------------------- *)
(* the sequential specification: a list of elements, each with its attribute map *)

(* the attributes as a map without NULL entries *)
Definition rt_norm_attrs (attrs : amap) : amap := fold_left (fun m kv => am_update m (fst kv) (snd kv)) attrs [].

Definition spec_insert_with_attributes (t : list relem) (index : nat) (chars : list N) (attrs : amap) : list relem :=
  firstn index t ++ map (fun u => (EUnit u, rt_norm_attrs attrs)) chars ++ skipn index t.

(* every element in [index, index+len): for each (k, v) of attrs, v = NULL removes k, otherwise k is set to v *)
Definition spec_format (t : list relem) (index len : nat) (attrs : amap) : list relem :=
  firstn index t ++ map (restyle attrs) (firstn len (skipn index t)) ++ skipn len (skipn index t).

(* the attributes of the element to the left; nothing at index 0 *)
Definition rt_left_attrs (t : list relem) (index : nat) : amap :=
  match index with
  | O => []
  | S j => match nth_error t j with Some e => snd e | None => [] end
  end.
Definition spec_insert (t : list relem) (index : nat) (chars : list N) : list relem :=
  firstn index t ++ map (fun u => (EUnit u, rt_left_attrs t index)) chars ++ skipn index t.
Definition spec_insert_embed (t : list relem) (index : nat) (v : tok) : list relem :=
  firstn index t ++ (EEmb v, rt_left_attrs t index) :: skipn index t.

Definition spec_remove_range (t : list relem) (index len : nat) : list relem :=
  firstn index t ++ skipn len (skipn index t).

(* ---------------------------------------------------------------------------------------------- *)
(* entry points for a driver *)

Inductive rt_op :=
| RtInsertWith (index : nat) (chars : list N) (attrs : amap) (o1 o2 : list tok)
| RtFormat (index len : nat) (attrs : amap) (o1 o2 : list tok)
| RtInsert (index : nat) (chars : list N)
| RtRemove (index len : nat)
| RtEmbed (index : nat) (shared : bool) (v : tok).

Definition rt_apply (l : list rt_item) (op : rt_op) (ids : nat -> id) : option (list rt_item) :=
  match op with
  | RtInsertWith i cs at_ o1 o2 => Some (rt_insert_with_attributes l i cs at_ o1 o2 ids)
  | RtFormat i n at_ o1 o2 => Some (rt_format l i n at_ o1 o2 ids)
  | RtInsert i cs => Some (rt_insert l i cs ids)
  | RtRemove i n => rt_remove_range l i n
  | RtEmbed i sh v => Some (rt_insert_embed l i sh v ids)
  end.

Definition rt_spec_apply (t : list relem) (op : rt_op) : list relem :=
  match op with
  | RtInsertWith i cs at_ _ _ => match cs with [] => t | _ => spec_insert_with_attributes t i cs at_ end
  | RtFormat i n at_ _ _ => spec_format t i n at_
  | RtInsert i cs => spec_insert t i cs
  | RtRemove i n => spec_remove_range t i n
  | RtEmbed i _ v => spec_insert_embed t i v
  end.

(* ---------------------------------------------------------------------------------------------- *)
(* the order hints, read off the result of the implementation: the items of [after] whose id does not occur in
   [before], by ascending clock (= in the order of creation; they all belong to the local client).
   insert_with_attributes: the new markers created before the first new character were made by insert_attributes
   (o1), the others by insert_negated_attributes (o2).
   format: a new marker (k, v) with attrs[k] = v was made by insert_attributes (o1); a negating marker never
   carries the value asked for (o2). *)
Definition rt_is_new (before : list rt_item) (x : rt_item) : bool :=
  negb (existsb (fun y => id_eqb (rt_id y) (rt_id x)) before).
Fixpoint rt_ins_by_clock (x : rt_item) (l : list rt_item) : list rt_item :=
  match l with
  | [] => [x]
  | y :: r => if ck (rt_id x) <? ck (rt_id y) then x :: l else y :: rt_ins_by_clock x r
  end.
Definition rt_new_items (before after : list rt_item) : list rt_item :=
  fold_right rt_ins_by_clock [] (filter (rt_is_new before) after).
Fixpoint rt_split_at_char (l : list rt_item) : list rt_item * list rt_item :=
  match l with
  | [] => ([], [])
  | x :: r => match rt_cont x with
              | RChar _ => ([], l)
              | _ => let '(a, b) := rt_split_at_char r in (x :: a, b)
              end
  end.
Definition rt_format_keys (l : list rt_item) : list tok :=
  flat_map (fun x => match rt_cont x with RFormat k _ => [k] | _ => [] end) l.
Definition rt_hints_after (before after : list rt_item) (op : rt_op) : list tok * list tok :=
  let nw := rt_new_items before after in
  match op with
  | RtInsertWith _ _ _ _ _ => let '(a, b) := rt_split_at_char nw in (rt_format_keys a, rt_format_keys b)
  | RtFormat _ _ at_ _ _ =>
    let pos x := match rt_cont x with RFormat k v => opt_tok_eqb (am_get at_ k) v | _ => false end in
    (rt_format_keys (filter pos nw), rt_format_keys (filter (fun x => negb (pos x)) nw))
  | _ => ([], [])
  end.
Definition rt_set_hints (op : rt_op) (h : list tok * list tok) : rt_op :=
  match op with
  | RtInsertWith i cs at_ _ _ => RtInsertWith i cs at_ (fst h) (snd h)
  | RtFormat i n at_ _ _ => RtFormat i n at_ (fst h) (snd h)
  | _ => op
  end.
(* one call against the implementation: the hints are taken from [after], whatever the call carries *)
Definition rt_apply_auto (before after : list rt_item) (op : rt_op) (ids : nat -> id) : option (list rt_item) :=
  rt_apply before (rt_set_hints op (rt_hints_after before after op)) ids.

(* ---------------------------------------------------------------------------------------------- *)
(* from a store dump (blocks) to units: a block (id, deleted, content) of length n becomes n items with the clocks
   ck id, ck id + 1, ... *)
Inductive rt_dump_content :=
| DString (units : list N)     (* ItemContent::String, its UTF-16 code units *)
| DEmbed (v : tok)             (* ItemContent::Embed(any) *)
| DType (v : tok)              (* ItemContent::Type *)
| DFormat (k v : tok)          (* ItemContent::Format(key, any) *)
| DDeleted (n : N).            (* ItemContent::Deleted(n): collected *)
Fixpoint rt_units_from (c k : N) (d : bool) (cs : list rt_content) : list rt_item :=
  match cs with
  | [] => []
  | x :: r => rt_mk (mkid c k) d x :: rt_units_from c (k + 1) d r
  end.
Definition rt_of_dump_item (it : id * bool * rt_dump_content) : list rt_item :=
  let '(i, d, c) := it in
  rt_units_from (cl i) (ck i) d
    match c with
    | DString us => map RChar us
    | DEmbed v => [REmbed v]
    | DType v => [RType v]
    | DFormat k v => [RFormat k v]
    | DDeleted n => repeat RGone (N.to_nat n)
    end.
Definition rt_of_dump (items : list (id * bool * rt_dump_content)) : list rt_item := flat_map rt_of_dump_item items.

(* the preconditions of the refinement theorems, as a boolean *)
Definition rt_op_ok (l : list rt_item) (op : rt_op) : bool :=
  let n := length (rt_render l) in
  match op with
  | RtInsertWith i _ at_ _ _ => rt_attrs_ok at_
  | RtFormat i _ at_ _ _ => rt_attrs_ok at_
  | RtInsert i _ => (i <=? n)%nat
  | RtRemove i k => (i + k <=? n)%nat
  | RtEmbed i _ _ => (i <=? n)%nat
  end.

(* comparison of item lists *)
Definition rt_content_eqb (a b : rt_content) : bool :=
  match a, b with
  | RChar x, RChar y => x =? y
  | REmbed x, REmbed y => x =? y
  | RType x, RType y => x =? y
  | RFormat k v, RFormat k' v' => (k =? k') && (v =? v')
  | RGone, RGone => true
  | _, _ => false
  end.
Definition rt_item_eqb (a b : rt_item) : bool :=
  id_eqb (rt_id a) (rt_id b) && Bool.eqb (rt_del a) (rt_del b) && rt_content_eqb (rt_cont a) (rt_cont b).
Fixpoint rt_items_eqb (a b : list rt_item) : bool :=
  match a, b with
  | [], [] => true
  | x :: a', y :: b' => rt_item_eqb x y && rt_items_eqb a' b'
  | _, _ => false
  end.

(* scenarios: after every call, the item list and the per-unit Text::diff of the implementation *)
Record rt_step := rt_mkstep { rs_op : rt_op; rs_items : list rt_item; rs_diff : list relem }.

(* one client; the n-th unit it creates has clock n *)
Definition rt_ids_after (client : N) (l : list rt_item) : nat -> id :=
  fun n => mkid client (N.of_nat (length l + n)).

(* model against implementation: items and rendering after every call *)
Fixpoint rt_check_from (l : list rt_item) (steps : list rt_step) : bool :=
  match steps with
  | [] => true
  | s :: rest =>
    match rt_apply l (rs_op s) (rt_ids_after 1 l) with
    | Some l' => rt_wf l' && rt_items_eqb l' (rs_items s) && relems_eqb (rt_render l') (rs_diff s) && rt_check_from l' rest
    | None => false
    end
  end.
Definition rt_check_steps (steps : list rt_step) : bool := rt_check_from [] steps.

(* the same call by call, every call starting from the item list of the IMPLEMENTATION after the previous call;
   with gc on, an item the model deletes may already be collected there (content RGone) *)
Definition rt_item_eqb_gc (a b : rt_item) : bool :=
  id_eqb (rt_id a) (rt_id b) && Bool.eqb (rt_del a) (rt_del b) &&
  (rt_content_eqb (rt_cont a) (rt_cont b) || (rt_del b && match rt_cont b with RGone => true | _ => false end)).
Fixpoint rt_items_eqb_gc (a b : list rt_item) : bool :=
  match a, b with
  | [], [] => true
  | x :: a', y :: b' => rt_item_eqb_gc x y && rt_items_eqb_gc a' b'
  | _, _ => false
  end.
Fixpoint rt_check_stepwise_from (l : list rt_item) (steps : list rt_step) : bool :=
  match steps with
  | [] => true
  | s :: rest =>
    match rt_apply l (rs_op s) (rt_ids_after 1 l) with
    | Some l' => rt_wf (rs_items s) && rt_items_eqb_gc l' (rs_items s) && relems_eqb (rt_render (rs_items s)) (rs_diff s)
                 && rt_check_stepwise_from (rs_items s) rest
    | None => false
    end
  end.
Definition rt_check_stepwise (steps : list rt_step) : bool := rt_check_stepwise_from [] steps.

(* the same with the hints computed by rt_hints_after instead of the ones the scenario carries *)
Fixpoint rt_check_auto_from (l : list rt_item) (steps : list rt_step) : bool :=
  match steps with
  | [] => true
  | s :: rest =>
    match rt_apply_auto l (rs_items s) (rs_op s) (rt_ids_after 1 l) with
    | Some l' => rt_items_eqb_gc l' (rs_items s) && rt_check_auto_from (rs_items s) rest
    | None => false
    end
  end.
Definition rt_check_auto (steps : list rt_step) : bool := rt_check_auto_from [] steps.

(* specification against implementation: the diff after every call is what the specification predicts from
   the diff before it; the result lists the numbers (from 0) of the calls where it is not *)
Fixpoint rt_spec_from (n : nat) (t : list relem) (steps : list rt_step) : list nat :=
  match steps with
  | [] => []
  | s :: rest =>
    (if relems_eqb (rt_spec_apply t (rs_op s)) (rs_diff s) then [] else [n]) ++ rt_spec_from (S n) (rs_diff s) rest
  end.
Definition rt_spec_mismatches (steps : list rt_step) : list nat := rt_spec_from 0 [] steps.
