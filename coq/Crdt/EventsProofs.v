(* Proofs about the change-event model of Crdt/Events.v (C11).

   1. change_set_exact        : the change list of event_change_set, applied to the content visible
                                before the transaction, yields exactly the content visible after it.
   2. change_set_nil_unchanged: an empty change list means nothing visible changed.
   3. keys_change_exact       : same for event_keys on one key chain.
   4. path_index_resolves     : the index Branch::path reports for a live single-value child is the
                                position of that value in the content after the transaction.
   5. text_delta_exact        : same as 1 for TextEvent::get_delta, WITH formatting items, up to
                                finite-map equality of attribute maps (relems_eqb). No hypothesis beyond
                                forallb twf: text_delta_exact_stmt holds as stated.
      text_delta_exact_plain  : the corollary without TFormat items.
      text_delta_exact_bounded: the exhaustive check that was run before attempting the proof.
      seq_exact_true, key_exact_true, text_exact_true: the boolean statements the runner evaluates.
   6. non-vacuity examples (ex_seq, ex_chain, ex_text).

   Standard library only; every theorem is closed under the global context. *)
From Coq Require Import List NArith Bool Lia Arith.
From YV Require Import Crdt.Events.
Import ListNotations.
Open Scope N_scope.

Local Arguments N.add : simpl never.
Local Arguments N.of_nat : simpl never.
Local Arguments N.to_nat : simpl never.
Local Arguments N.ltb : simpl never.
Local Arguments N.eqb : simpl never.

(* ---------------------------------------------------------------------------------------------- *)
(* generic list facts *)

Lemma option_map_app_nil {X} (x : option (list X)) : option_map (app []) x = x.
Proof. destruct x; reflexivity. Qed.

Lemma len_to_nat {X} (l : list X) n : N.of_nat (length l) = n -> N.to_nat n = length l.
Proof. intros <-. apply Nat2N.id. Qed.

Lemma skipn_len_app {X} (l r : list X) : skipn (length l) (l ++ r) = r.
Proof. induction l; cbn; auto. Qed.

Lemma firstn_len_app {X} (l r : list X) : firstn (length l) (l ++ r) = l.
Proof. induction l; cbn; f_equal; auto. Qed.

Lemma ltb_len_app_false {X} (l r : list X) n : N.of_nat (length l) = n -> (N.of_nat (length (l ++ r)) <? n) = false.
Proof. intros H. apply N.ltb_ge. rewrite app_length. lia. Qed.

(* ---------------------------------------------------------------------------------------------- *)
(* 1. event_change_set *)

(* [d] consumes exactly [B] from the front of the current content and produces [A] there *)
Definition cexact (d : list change) (B A : list tok) : Prop :=
  forall rest d', apply_changes (B ++ rest) (d ++ d') = option_map (app A) (apply_changes rest d').

Lemma cexact_nil : cexact [] [] [].
Proof. intros rest d'. cbn. now rewrite option_map_app_nil. Qed.

Lemma cexact_app d1 d2 B1 B2 A1 A2 :
  cexact d1 B1 A1 -> cexact d2 B2 A2 -> cexact (d1 ++ d2) (B1 ++ B2) (A1 ++ A2).
Proof.
  intros H1 H2 rest d'. rewrite <- !app_assoc. rewrite H1, H2.
  destruct (apply_changes rest d'); cbn; [now rewrite app_assoc | reflexivity].
Qed.

Lemma cexact_added vs : cexact [Added vs] [] vs.
Proof. intros rest d'. reflexivity. Qed.

Lemma cexact_removed B n : N.of_nat (length B) = n -> cexact [Removed n] B [].
Proof.
  intros H rest d'. cbn [app apply_changes].
  rewrite (ltb_len_app_false _ _ _ H), (len_to_nat _ _ H), skipn_len_app.
  now rewrite option_map_app_nil.
Qed.

Lemma cexact_retain B n : N.of_nat (length B) = n -> cexact [Retain n] B B.
Proof.
  intros H rest d'. cbn [app apply_changes].
  now rewrite (ltb_len_app_false _ _ _ H), (len_to_nat _ _ H), skipn_len_app, firstn_len_app.
Qed.

(* the pending operation [last] accounts for the suffix [bl] of the consumed "before" content and the
   suffix [al] of the produced "after" content *)
Definition opinv (last : option change) (bl al : list tok) : Prop :=
  match last with
  | None => bl = [] /\ al = []
  | Some (Removed c) => al = [] /\ N.of_nat (length bl) = c
  | Some (Added vs) => bl = [] /\ al = vs
  | Some (Retain c) => al = bl /\ N.of_nat (length bl) = c
  end.

Lemma opinv_cexact c bl al : opinv (Some c) bl al -> cexact [c] bl al.
Proof.
  destruct c; cbn; intros [H1 H2]; subst.
  - apply cexact_added.
  - now apply cexact_removed.
  - now apply cexact_retain.
Qed.

(* loop invariant of event_change_set, accumulator generalised *)
Definition cs_inv (st : list change * option change) (B A : list tok) : Prop :=
  exists B0 A0 bl al, B = B0 ++ bl /\ A = A0 ++ al /\ cexact (fst st) B0 A0 /\ opinv (snd st) bl al.

Definition s_before (it : sitem) : list tok := if s_visible_before it then s_vals it else [].
Definition s_after (it : sitem) : list tok := if s_visible_after it then s_vals it else [].

Lemma seq_before_cons it items : seq_before (it :: items) = s_before it ++ seq_before items.
Proof. reflexivity. Qed.
Lemma seq_after_cons it items : seq_after (it :: items) = s_after it ++ seq_after items.
Proof. reflexivity. Qed.

Lemma cs_inv_flush delta c B A :
  cs_inv (delta, Some c) B A -> cs_inv (delta ++ [c], None) B A.
Proof.
  intros (B0 & A0 & bl & al & -> & -> & Hex & Hop). cbn [fst snd] in *.
  exists (B0 ++ bl), (A0 ++ al), [], []. rewrite !app_nil_r. repeat split.
  apply cexact_app; [exact Hex | now apply opinv_cexact].
Qed.

(* pushing a removal / an insertion / a retention onto a state whose pending operation is of the same
   kind or absent *)
Lemma cs_push_removed delta c vs l B A :
  N.of_nat (length vs) = l ->
  cs_inv (delta, Some (Removed c)) B A -> cs_inv (delta, Some (Removed (c + l))) (B ++ vs) (A ++ []).
Proof.
  intros Hl (B0 & A0 & bl & al & -> & -> & Hex & Hal & Hc). cbn [fst snd] in *. subst al.
  exists B0, A0, (bl ++ vs), []. rewrite !app_nil_r, <- app_assoc. repeat split; trivial.
  rewrite app_length. lia.
Qed.

Lemma cs_push_added delta ws vs B A :
  cs_inv (delta, Some (Added ws)) B A -> cs_inv (delta, Some (Added (ws ++ vs))) (B ++ []) (A ++ vs).
Proof.
  intros (B0 & A0 & bl & al & -> & -> & Hex & Hbl & Hal). cbn [fst snd] in *. subst bl al.
  exists B0, A0, [], (ws ++ vs). rewrite !app_nil_r, <- app_assoc. repeat split; trivial.
Qed.

Lemma cs_push_retain delta c vs l B A :
  N.of_nat (length vs) = l ->
  cs_inv (delta, Some (Retain c)) B A -> cs_inv (delta, Some (Retain (c + l))) (B ++ vs) (A ++ vs).
Proof.
  intros Hl (B0 & A0 & bl & al & -> & -> & Hex & Hal & Hc). cbn [fst snd] in *. subst al.
  exists B0, A0, (bl ++ vs), (bl ++ vs). rewrite <- !app_assoc. repeat split; trivial.
  rewrite app_length. lia.
Qed.

Lemma cs_start_removed delta vs l B A :
  N.of_nat (length vs) = l ->
  cs_inv (delta, None) B A -> cs_inv (delta, Some (Removed (0 + l))) (B ++ vs) (A ++ []).
Proof.
  intros Hl (B0 & A0 & bl & al & -> & -> & Hex & Hbl & Hal). cbn [fst snd] in *. subst bl al.
  exists B0, A0, vs, []. rewrite !app_nil_r. repeat split; trivial; try lia.
Qed.

Lemma cs_start_added delta vs B A :
  cs_inv (delta, None) B A -> cs_inv (delta, Some (Added vs)) (B ++ []) (A ++ vs).
Proof.
  intros (B0 & A0 & bl & al & -> & -> & Hex & Hbl & Hal). cbn [fst snd] in *. subst bl al.
  exists B0, A0, [], vs. rewrite !app_nil_r. repeat split; trivial.
Qed.

Lemma cs_start_retain delta vs l B A :
  N.of_nat (length vs) = l ->
  cs_inv (delta, None) B A -> cs_inv (delta, Some (Retain (0 + l))) (B ++ vs) (A ++ vs).
Proof.
  intros Hl (B0 & A0 & bl & al & -> & -> & Hex & Hbl & Hal). cbn [fst snd] in *. subst bl al.
  exists B0, A0, vs, vs. rewrite !app_nil_r. repeat split; trivial; try lia.
Qed.

Lemma cs_step_inv st it B A :
  swf it = true -> cs_inv st B A -> cs_inv (cs_step st it) (B ++ s_before it) (A ++ s_after it).
Proof.
  intros Hwf Hinv. destruct st as [delta last].
  destruct it as [len vals del add deld].
  unfold swf, s_before, s_after, s_visible_before, s_visible_after, cs_step in *.
  cbn [s_len s_vals s_deleted s_added s_deld] in *.
  destruct del, add, deld; cbn [negb andb orb implb] in *; try discriminate Hwf;
    try (rewrite !app_nil_r; exact Hinv).
  - (* deleted by the transaction *)
    apply N.eqb_eq in Hwf.
    destruct last as [[ws|c|c]|].
    + apply cs_start_removed; trivial. now apply cs_inv_flush.
    + now apply cs_push_removed.
    + apply cs_start_removed; trivial. now apply cs_inv_flush.
    + now apply cs_start_removed.
  - (* added *)
    destruct last as [[ws|c|c]|].
    + now apply cs_push_added.
    + apply cs_start_added. now apply cs_inv_flush.
    + apply cs_start_added. now apply cs_inv_flush.
    + now apply cs_start_added.
  - (* retained *)
    apply N.eqb_eq in Hwf.
    destruct last as [[ws|c|c]|].
    + apply cs_start_retain; trivial. now apply cs_inv_flush.
    + apply cs_start_retain; trivial. now apply cs_inv_flush.
    + now apply cs_push_retain.
    + now apply cs_start_retain.
Qed.

Lemma cs_fold_inv items : forall st B A,
  forallb swf items = true -> cs_inv st B A ->
  cs_inv (fold_left cs_step items st) (B ++ seq_before items) (A ++ seq_after items).
Proof.
  induction items as [|it items IH]; intros st B A Hwf Hinv.
  - cbn. now rewrite !app_nil_r.
  - cbn [forallb] in Hwf. apply andb_prop in Hwf as [Hit Hwf].
    rewrite seq_before_cons, seq_after_cons, !app_assoc. cbn [fold_left].
    apply IH; trivial. now apply cs_step_inv.
Qed.

Theorem change_set_exact : forall items,
  forallb swf items = true ->
  apply_changes (seq_before items) (change_set items) = Some (seq_after items).
Proof.
  intros items Hwf.
  assert (H0 : cs_inv ([], None) [] []).
  { exists [], [], [], []. repeat split. apply cexact_nil. }
  pose proof (cs_fold_inv items _ _ _ Hwf H0) as H. cbn [app] in H.
  unfold change_set. destruct (fold_left cs_step items ([], None)) as [delta last].
  assert (Hfin : forall d, cs_inv (d, None) (seq_before items) (seq_after items) ->
                           apply_changes (seq_before items) d = Some (seq_after items)).
  { intros d (B0 & A0 & bl & al & HB & HA & Hex & Hbl & Hal). cbn [fst snd] in *. subst bl al.
    rewrite app_nil_r in HB, HA. subst B0 A0.
    specialize (Hex [] []). rewrite !app_nil_r in Hex. rewrite Hex. cbn. now rewrite app_nil_r. }
  unfold cs_finish; cbn [fst snd].
  destruct last as [[ws|c|c]|].
  - apply Hfin. now apply cs_inv_flush.
  - apply Hfin. now apply cs_inv_flush.
  - (* trailing retain is dropped: the observer leaves the tail in place *)
    destruct H as (B0 & A0 & bl & al & HB & HA & Hex & Hal & Hc). cbn [fst snd] in *. subst al.
    rewrite HB, HA. specialize (Hex bl []). rewrite app_nil_r in Hex. rewrite Hex. reflexivity.
  - now apply Hfin.
Qed.

Theorem change_set_nil_unchanged : forall items,
  forallb swf items = true -> change_set items = [] -> seq_before items = seq_after items.
Proof.
  intros items Hwf Hnil. pose proof (change_set_exact items Hwf) as H.
  rewrite Hnil in H. cbn in H. now inversion H.
Qed.

(* ---------------------------------------------------------------------------------------------- *)
(* 3. event_keys *)

Lemma lna_snoc l x : last_not_added (l ++ [x]) = if k_added x then last_not_added l else Some x.
Proof.
  induction l as [|a l IH]; cbn.
  - destruct (k_added x); reflexivity.
  - rewrite IH. destruct (k_added x); reflexivity.
Qed.

Lemma lna_rev l : last_not_added (rev l) = first_not_added l.
Proof.
  induction l as [|p r IH]; cbn; trivial.
  rewrite lna_snoc, IH. reflexivity.
Qed.

Lemma first_not_added_in l p : first_not_added l = Some p -> In p l /\ k_added p = false.
Proof.
  induction l as [|q r IH]; cbn; [discriminate|].
  destruct (k_added q) eqn:E.
  - intros H. destruct (IH H). auto.
  - intros H. inversion H; subst. auto.
Qed.

Theorem keys_change_exact : forall chain,
  kwf chain = true -> apply_entry (key_before chain) (keys_change chain) = Some (key_after chain).
Proof.
  intros chain Hk. unfold kwf in Hk. apply andb_prop in Hk as [Hall Hlast].
  assert (Hchain : chain = rev (rev chain)) by (symmetry; apply rev_involutive).
  unfold keys_change, key_before, key_after.
  destruct (rev chain) as [|item lefts] eqn:E.
  - cbn in Hchain. subst chain. reflexivity.
  - assert (Hlna : last_not_added chain = if k_added item then first_not_added lefts else Some item).
    { rewrite Hchain. cbn [rev]. now rewrite lna_snoc, lna_rev. }
    rewrite Hlna in *.
    rewrite forallb_forall in Hall.
    assert (Hitem : implb (k_deld item) (k_deleted item) = true).
    { apply Hall. rewrite Hchain. cbn [rev]. apply in_or_app. right. now left. }
    assert (Hp : forall p, first_not_added lefts = Some p -> implb (k_deld p) (k_deleted p) = true).
    { intros p Hf. apply Hall. rewrite Hchain. cbn [rev]. apply in_or_app. left.
      apply in_rev. rewrite rev_involutive. now apply first_not_added_in. }
    destruct item as [v del add deld]. cbn [k_val k_deleted k_added k_deld] in *.
    destruct add, deld, del; cbn in Hitem, Hlast |- *; try discriminate;
      try (rewrite N.eqb_refl; reflexivity); try reflexivity.
    + (* added and deleted by the transaction *)
      destruct (first_not_added lefts) as [p|] eqn:Ef; [|reflexivity].
      specialize (Hp p eq_refl). destruct p as [pv pdel padd pdeld]. cbn in *.
      subst pdel. destruct pdeld; cbn; [rewrite N.eqb_refl|]; reflexivity.
    + (* added, live *)
      destruct (first_not_added lefts) as [p|] eqn:Ef; [|reflexivity].
      specialize (Hp p eq_refl). destruct p as [pv pdel padd pdeld]. cbn in *.
      subst pdel. destruct pdeld; cbn; [rewrite N.eqb_refl|]; reflexivity.
Qed.

(* ---------------------------------------------------------------------------------------------- *)
(* 4. Branch::path *)

Lemma swf_live_len it : swf it = true -> s_deleted it = false -> N.of_nat (length (s_vals it)) = s_len it.
Proof.
  unfold swf, s_visible_after. intros H Hd. rewrite Hd in H. cbn [negb] in H.
  rewrite orb_true_r in H. apply andb_prop in H as [_ H]. cbn in H. now apply N.eqb_eq.
Qed.

Theorem path_index_resolves : forall items k it v,
  forallb swf items = true -> nth_error items k = Some it -> s_deleted it = false -> s_vals it = [v] ->
  nth_error (seq_after items) (N.to_nat (path_index items k)) = Some v.
Proof.
  intros items k. revert items.
  induction k as [|k IH]; intros items it v Hwf Hnth Hd Hv.
  - destruct items as [|it0 rest]; [discriminate|]. cbn in Hnth. inversion Hnth; subst it0.
    cbn [path_index]. rewrite seq_after_cons. unfold s_after, s_visible_after. rewrite Hd, Hv. reflexivity.
  - destruct items as [|it0 rest]; [discriminate|]. cbn in Hnth.
    cbn [forallb] in Hwf. apply andb_prop in Hwf as [H0 Hwf].
    cbn [path_index]. rewrite seq_after_cons. unfold s_after, s_visible_after.
    destruct (s_deleted it0) eqn:Ed0; cbn [negb app].
    + rewrite N.add_0_l. eapply IH; eauto.
    + pose proof (swf_live_len it0 H0 Ed0) as Hlen.
      rewrite nth_error_app2 by (rewrite N2Nat.inj_add; lia).
      replace (N.to_nat (s_len it0 + path_index rest k) - length (s_vals it0))%nat
        with (N.to_nat (path_index rest k)) by (rewrite N2Nat.inj_add; lia).
      eapply IH; eauto.
Qed.

(* ---------------------------------------------------------------------------------------------- *)
(* 5. TextEvent::get_delta *)

Definition relems_equiv (a b : list relem) : Prop := relems_eqb a b = true.

Definition text_delta_exact_stmt : Prop :=
  forall items, forallb twf items = true ->
  exists r, apply_delta (text_before items) (text_delta items) = Some r /\ relems_equiv r (text_after items).

(* 5.1 attribute maps *)

Definition getd (m : amap) (k : tok) : tok := match am_get m k with Some v => v | None => NULL end.

Lemma am_get_remove m k k' : am_get (am_remove m k) k' = if k =? k' then None else am_get m k'.
Proof.
  induction m as [|[k1 v1] r IH]; cbn.
  - now destruct (k =? k').
  - destruct (k1 =? k) eqn:E1.
    + rewrite IH. destruct (k =? k') eqn:E2; trivial.
      apply N.eqb_eq in E1; subst k1. now rewrite E2.
    + cbn. destruct (k1 =? k') eqn:E3.
      * destruct (k =? k') eqn:E2; trivial. apply N.eqb_eq in E3, E2. subst.
        rewrite N.eqb_refl in E1. discriminate.
      * apply IH.
Qed.

Lemma am_get_app m s k : am_get (m ++ s) k = match am_get m k with Some v => Some v | None => am_get s k end.
Proof. induction m as [|[k1 v1] r IH]; cbn; trivial. destruct (k1 =? k); trivial. Qed.

Lemma am_get_insert m k v k' : am_get (am_insert m k v) k' = if k =? k' then Some v else am_get m k'.
Proof.
  unfold am_insert. rewrite am_get_app, am_get_remove. cbn.
  destruct (k =? k'); trivial. now destruct (am_get m k').
Qed.

Lemma getd_remove m k k' : getd (am_remove m k) k' = if k =? k' then NULL else getd m k'.
Proof. unfold getd. rewrite am_get_remove. now destruct (k =? k'). Qed.

Lemma getd_insert m k v k' : getd (am_insert m k v) k' = if k =? k' then v else getd m k'.
Proof. unfold getd. rewrite am_get_insert. now destruct (k =? k'). Qed.

Lemma getd_update m k v k' : getd (am_update m k v) k' = if k =? k' then v else getd m k'.
Proof.
  unfold am_update. destruct (v =? NULL) eqn:E.
  - apply N.eqb_eq in E. subst v. apply getd_remove.
  - apply getd_insert.
Qed.

(* no duplicate names *)
Fixpoint wfm (m : amap) : Prop :=
  match m with [] => True | (k, _) :: r => am_get r k = None /\ wfm r end.

Lemma wfm_remove m k : wfm m -> wfm (am_remove m k).
Proof.
  induction m as [|[k1 v1] r IH]; cbn; trivial. intros [H1 H2].
  destruct (k1 =? k); auto. cbn. split; auto. rewrite am_get_remove. now destruct (k =? k1).
Qed.

Lemma wfm_snoc m k v : wfm m -> am_get m k = None -> wfm (m ++ [(k, v)]).
Proof.
  induction m as [|[k1 v1] r IH]; cbn; auto. intros [H1 H2] H.
  destruct (k1 =? k) eqn:E; [discriminate|]. split; auto.
  rewrite am_get_app, H1. cbn. rewrite (N.eqb_sym k k1), E. reflexivity.
Qed.

Lemma wfm_insert m k v : wfm m -> wfm (am_insert m k v).
Proof.
  intros H. apply wfm_snoc. now apply wfm_remove.
  rewrite am_get_remove, N.eqb_refl. reflexivity.
Qed.

Lemma wfm_in m k v : wfm m -> In (k, v) m -> am_get m k = Some v.
Proof.
  induction m as [|[k1 v1] r IH]; cbn; [tauto|]. intros [H1 H2] [Heq|Hin].
  - inversion Heq; subst. now rewrite N.eqb_refl.
  - destruct (k1 =? k) eqn:E; auto. apply N.eqb_eq in E; subst k1.
    rewrite (IH H2 Hin) in H1. discriminate.
Qed.

(* no duplicate names and no name bound to NULL: what rendering and restyling maintain *)
Definition clean (m : amap) : Prop := wfm m /\ forall k, am_get m k <> Some NULL.

Lemma clean_nil : clean [].
Proof. split; cbn; trivial. discriminate. Qed.

Lemma clean_update m k v : clean m -> clean (am_update m k v).
Proof.
  intros [Hw Hn]. unfold am_update. destruct (v =? NULL) eqn:E.
  - split. now apply wfm_remove. intros k'. rewrite am_get_remove.
    destruct (k =? k'); [discriminate | apply Hn].
  - split. now apply wfm_insert. intros k'. rewrite am_get_insert.
    destruct (k =? k'); [|apply Hn].
    intros H; inversion H; subst. rewrite N.eqb_refl in E; discriminate.
Qed.

Lemma amap_eqb_getd x y : clean x -> clean y -> (forall k, getd x k = getd y k) -> amap_eqb x y = true.
Proof.
  assert (Hhalf : forall x y, clean x -> (forall k, getd x k = getd y k) ->
            forallb (fun kv => opt_tok_eqb (am_get y (fst kv)) (snd kv)) x = true).
  { intros x0 y0 [Hw Hn] Hg. apply forallb_forall. intros [k v] Hin. cbn [fst snd].
    pose proof (wfm_in _ _ _ Hw Hin) as Hx. specialize (Hg k). unfold getd in Hg. rewrite Hx in Hg.
    destruct (am_get y0 k) as [v'|].
    - subst v'. cbn. apply N.eqb_refl.
    - exfalso. apply (Hn k). rewrite Hx, Hg. reflexivity. }
  intros Hx Hy Hg. unfold amap_eqb. rewrite (Hhalf x y Hx Hg), (Hhalf y x Hy); auto.
Qed.

Lemma amap_eqb_refl m : wfm m -> amap_eqb m m = true.
Proof.
  intros Hw. unfold amap_eqb.
  assert (H : forallb (fun kv => opt_tok_eqb (am_get m (fst kv)) (snd kv)) m = true).
  { apply forallb_forall. intros [k v] Hin. cbn [fst snd]. rewrite (wfm_in _ _ _ Hw Hin). cbn. apply N.eqb_refl. }
  now rewrite H.
Qed.

(* the map part of restyle *)
Definition rs (attrs m : amap) : amap := fold_left (fun m kv => am_update m (fst kv) (snd kv)) attrs m.

Lemma restyle_rs attrs e : restyle attrs e = (fst e, rs attrs (snd e)).
Proof. reflexivity. Qed.

Lemma rs_getd attrs : forall m k, wfm attrs ->
  getd (rs attrs m) k = match am_get attrs k with Some v => v | None => getd m k end.
Proof.
  unfold rs. induction attrs as [|[k1 v1] r IH]; intros m k Hw; cbn [fold_left am_get fst snd]; trivial.
  destruct Hw as [H1 H2]. rewrite IH by trivial. rewrite getd_update.
  destruct (k1 =? k) eqn:E; trivial. apply N.eqb_eq in E; subst. now rewrite H1.
Qed.

Lemma rs_clean attrs : forall m, clean m -> clean (rs attrs m).
Proof.
  unfold rs. induction attrs as [|[k1 v1] r IH]; intros m Hm; cbn [fold_left]; trivial.
  apply IH. now apply clean_update.
Qed.

Lemma map_restyle_nil l : map (restyle []) l = l.
Proof. induction l as [|[e m] l IH]; cbn; trivial. now rewrite IH. Qed.

(* 5.2 element lists up to attribute-map equality *)

Definition requiv (a b : list relem) : Prop :=
  Forall2 (fun x y => fst x = fst y /\ amap_eqb (snd x) (snd y) = true) a b.

Lemma elem_eqb_refl e : elem_eqb e e = true.
Proof. destruct e; cbn; apply N.eqb_refl. Qed.

Lemma requiv_eqb a b : requiv a b -> relems_eqb a b = true.
Proof.
  induction 1 as [|[e1 m1] [e2 m2] r1 r2 [He Hm] _ IH]; cbn in *; trivial.
  subst. now rewrite elem_eqb_refl, Hm, IH.
Qed.

Lemma requiv_app a1 a2 b1 b2 : requiv a1 b1 -> requiv a2 b2 -> requiv (a1 ++ a2) (b1 ++ b2).
Proof. apply Forall2_app. Qed.

Lemma requiv_nil : requiv [] [].
Proof. constructor. Qed.

Lemma requiv_const {X} (f : X -> elem) m1 m2 (s : list X) :
  amap_eqb m1 m2 = true -> requiv (map (fun u => (f u, m1)) s) (map (fun u => (f u, m2)) s).
Proof. intros H. induction s; cbn; constructor; auto. Qed.

(* 5.3 deltas that consume a known prefix *)

Definition texact (d : list delta) (B A : list relem) : Prop :=
  forall rest d', apply_delta (B ++ rest) (d ++ d') = option_map (app A) (apply_delta rest d').

(* [d] turns [B] into something equivalent to [A] *)
Definition Done (d : list delta) (B A : list relem) : Prop := exists A', texact d B A' /\ requiv A' A.

Lemma texact_nil : texact [] [] [].
Proof. intros rest d'. cbn. now rewrite option_map_app_nil. Qed.

Lemma texact_app d1 d2 B1 B2 A1 A2 :
  texact d1 B1 A1 -> texact d2 B2 A2 -> texact (d1 ++ d2) (B1 ++ B2) (A1 ++ A2).
Proof.
  intros H1 H2 rest d'. rewrite <- !app_assoc. rewrite H1, H2.
  destruct (apply_delta rest d'); cbn; [now rewrite app_assoc | reflexivity].
Qed.

Lemma texact_ins_str s at_ : texact [DInsStr s at_] [] (map (fun u => (EUnit u, at_)) s).
Proof. intros rest d'. reflexivity. Qed.

Lemma texact_ins_embed v at_ : texact [DInsEmbed v at_] [] [(EEmb v, at_)].
Proof. intros rest d'. cbn. now destruct (apply_delta rest d'). Qed.

Lemma texact_delete B n : N.of_nat (length B) = n -> texact [DDelete n] B [].
Proof.
  intros H rest d'. cbn [app apply_delta].
  rewrite (ltb_len_app_false _ _ _ H), (len_to_nat _ _ H), skipn_len_app.
  now rewrite option_map_app_nil.
Qed.

Lemma texact_retain B n at_ : N.of_nat (length B) = n -> texact [DRetain n at_] B (map (restyle at_) B).
Proof.
  intros H rest d'. cbn [app apply_delta].
  now rewrite (ltb_len_app_false _ _ _ H), (len_to_nat _ _ H), skipn_len_app, firstn_len_app.
Qed.

Lemma done_nil : Done [] [] [].
Proof. exists []. split. apply texact_nil. apply requiv_nil. Qed.

Lemma done_app d1 d2 B1 B2 A1 A2 : Done d1 B1 A1 -> Done d2 B2 A2 -> Done (d1 ++ d2) (B1 ++ B2) (A1 ++ A2).
Proof.
  intros (A1' & H1 & Q1) (A2' & H2 & Q2). exists (A1' ++ A2'). split.
  now apply texact_app. now apply requiv_app.
Qed.

(* trailing attribute-free retains change nothing *)
Definition plain_retain (d : delta) : Prop := match d with DRetain _ [] => True | _ => False end.

Lemma drop_trailing_split l : exists R, l = R ++ drop_trailing l /\ Forall plain_retain R.
Proof.
  induction l as [|d l IH].
  - exists []. split; trivial.
  - destruct IH as (R & HR & HF).
    destruct d as [s at_|v at_|n|n at_]; try (exists []; split; [reflexivity|constructor]).
    destruct at_ as [|kv at_]; [|exists []; split; [reflexivity|constructor]].
    cbn [drop_trailing]. exists (DRetain n [] :: R). split.
    + cbn. now rewrite <- HR.
    + constructor; cbn; trivial.
Qed.

Lemma finish_split D : exists R, D = rev (drop_trailing (rev D)) ++ R /\ Forall plain_retain R.
Proof.
  destruct (drop_trailing_split (rev D)) as (R & HR & HF).
  exists (rev R). split.
  - rewrite <- rev_app_distr, <- HR. symmetry. apply rev_involutive.
  - apply Forall_forall. intros x Hx. apply in_rev in Hx. revert x Hx. now apply Forall_forall.
Qed.

Lemma plain_retains_id R : Forall plain_retain R -> forall cur r, apply_delta cur R = Some r -> r = cur.
Proof.
  induction 1 as [|d R Hd _ IH]; intros cur r Hr.
  - cbn in Hr. now inversion Hr.
  - destruct d as [s at_|v at_|n|n at_]; cbn in Hd; try contradiction.
    destruct at_; [|contradiction]. cbn [apply_delta] in Hr.
    destruct (N.of_nat (length cur) <? n); [discriminate|].
    destruct (apply_delta (skipn (N.to_nat n) cur) R) as [r'|] eqn:E; [|discriminate].
    cbn in Hr. inversion Hr; subst r. rewrite (IH _ _ E), map_restyle_nil. apply firstn_skipn.
Qed.

Lemma apply_delta_drop R : Forall plain_retain R ->
  forall D cur r, apply_delta cur (D ++ R) = Some r -> apply_delta cur D = Some r.
Proof.
  intros HR. induction D as [|d D IH]; intros cur r Hr.
  - cbn in *. f_equal. symmetry. eapply plain_retains_id; eauto.
  - destruct d as [s at_|v at_|n|n at_]; cbn [app apply_delta] in *.
    + destruct (apply_delta cur (D ++ R)) as [r'|] eqn:E; [|discriminate].
      now rewrite (IH _ _ E).
    + destruct (apply_delta cur (D ++ R)) as [r'|] eqn:E; [|discriminate].
      now rewrite (IH _ _ E).
    + destruct (N.of_nat (length cur) <? n); [discriminate|]. now apply IH.
    + destruct (N.of_nat (length cur) <? n); [discriminate|].
      destruct (apply_delta (skipn (N.to_nat n) cur) (D ++ R)) as [r'|] eqn:E; [|discriminate].
      now rewrite (IH _ _ E).
Qed.

(* 5.4 the assembler: fields untouched by the flushing operations *)

Lemma add_op_action a : a_action (add_op a) = None.
Proof. unfold add_op. destruct (a_action a) as [[| |]|] eqn:E; cbn; auto. Qed.
Lemma add_op_attrs a : a_attrs (add_op a) = a_attrs a.
Proof. unfold add_op. destruct (a_action a) as [[| |]|]; reflexivity. Qed.
Lemma add_op_old a : a_old (add_op a) = a_old a.
Proof. unfold add_op. destruct (a_action a) as [[| |]|]; reflexivity. Qed.
Lemma add_op_current a : a_current (add_op a) = a_current a.
Proof. unfold add_op. destruct (a_action a) as [[| |]|]; reflexivity. Qed.

Lemma is_action_eq x y : is_action x y = true -> x = Some y.
Proof. destruct x as [[| |]|], y; cbn; congruence. Qed.

Lemma begin_action_action a x : a_action (begin_action a x) = Some x.
Proof. unfold begin_action. destruct (is_action (a_action a) x) eqn:E; [now apply is_action_eq | reflexivity]. Qed.
Lemma begin_action_attrs a x : a_attrs (begin_action a x) = a_attrs a.
Proof. unfold begin_action. destruct (is_action (a_action a) x); cbn; auto using add_op_attrs. Qed.
Lemma begin_action_old a x : a_old (begin_action a x) = a_old a.
Proof. unfold begin_action. destruct (is_action (a_action a) x); cbn; auto using add_op_old. Qed.
Lemma begin_action_current a x : a_current (begin_action a x) = a_current a.
Proof. unfold begin_action. destruct (is_action (a_action a) x); cbn; auto using add_op_current. Qed.

Lemma flush_if_action a x : is_action (a_action (flush_if a x)) x = false.
Proof. unfold flush_if. destruct (is_action (a_action a) x) eqn:E; trivial. now rewrite add_op_action. Qed.
Lemma flush_if_attrs a x : a_attrs (flush_if a x) = a_attrs a.
Proof. unfold flush_if. destruct (is_action (a_action a) x); auto using add_op_attrs. Qed.
Lemma flush_if_old a x : a_old (flush_if a x) = a_old a.
Proof. unfold flush_if. destruct (is_action (a_action a) x); auto using add_op_old. Qed.
Lemma flush_if_current a x : a_current (flush_if a x) = a_current a.
Proof. unfold flush_if. destruct (is_action (a_action a) x); auto using add_op_current. Qed.

Ltac asm_cbn :=
  cbn [a_action a_insert a_insert_string a_retain a_delete a_attrs a_current a_old a_delta
       set_action set_attrs set_current set_old add_delete add_retain push_string set_insert
       is_action action_eqb] in *.

(* 5.5 loop invariant, structural part: the delta emitted so far accounts for a prefix of the content
   before / after, the pending action accounts for the rest *)

Definition pend (a : asm) (bl al : list relem) : Prop :=
  match a_action a with
  | None => bl = [] /\ al = []
  | Some ADelete => al = [] /\ N.of_nat (length bl) = a_delete a
  | Some ARetain => N.of_nat (length bl) = a_retain a /\ requiv (map (restyle (a_attrs a)) bl) al
  | Some AInsert =>
      bl = [] /\
      al = map (fun u => (EUnit u, a_current a)) (match a_insert_string a with Some s => s | None => [] end)
  end.

Record Core (a : asm) (B A : list relem) : Prop := mkCore {
  c_ins : a_insert a = None;
  c_del : is_action (a_action a) ADelete = false -> a_delete a = 0;
  c_ret : is_action (a_action a) ARetain = false -> a_retain a = 0;
  c_str : is_action (a_action a) AInsert = false -> a_insert_string a = None;
  c_cur : wfm (a_current a);
  c_ex : exists B0 A0 bl al, B = B0 ++ bl /\ A = A0 ++ al /\ Done (a_delta a) B0 A0 /\ pend a bl al }.

Lemma ex_none a B A :
  a_action a = None -> Done (a_delta a) B A ->
  exists B0 A0 bl al, B = B0 ++ bl /\ A = A0 ++ al /\ Done (a_delta a) B0 A0 /\ pend a bl al.
Proof.
  intros Ha Hd. exists B, A, [], []. rewrite !app_nil_r. repeat split; trivial.
  unfold pend. rewrite Ha. auto.
Qed.

Lemma core_asm0 : Core asm0 [] [].
Proof.
  constructor; cbn; auto. apply (ex_none asm0 [] []); trivial. apply done_nil.
Qed.

Lemma core_add_op a B A : Core a B A -> Core (add_op a) B A.
Proof.
  intros [Hins Hdel Hret Hstr Hcur (B0 & A0 & bl & al & -> & -> & Hd & Hp)].
  unfold add_op, pend in *. revert Hdel Hret Hstr Hp.
  destruct (a_action a) as [[| |]|] eqn:Eact; intros Hdel Hret Hstr Hp.
  - (* insert *)
    rewrite Hins. destruct Hp as [-> ->].
    constructor; try (asm_cbn; now auto). apply ex_none; asm_cbn; trivial.
    apply done_app; trivial. eexists. split. apply texact_ins_str.
    apply requiv_const. now apply amap_eqb_refl.
  - (* retain *)
    destruct Hp as [Hlen Hq].
    constructor; try (asm_cbn; now auto). apply ex_none; asm_cbn; trivial.
    apply done_app; trivial. eexists. split. apply texact_retain; eassumption. exact Hq.
  - (* delete *)
    destruct Hp as [-> Hlen].
    constructor; try (asm_cbn; now auto). apply ex_none; asm_cbn; trivial.
    apply done_app; trivial. eexists. split. apply texact_delete; eassumption. apply requiv_nil.
  - constructor; auto. exists B0, A0, bl, al. unfold pend. rewrite Eact. auto.
Qed.

Lemma core_set_action a x B A : Core a B A -> a_action a = None -> Core (set_action a (Some x)) B A.
Proof.
  intros [Hins Hdel Hret Hstr Hcur (B0 & A0 & bl & al & -> & -> & Hd & Hp)] Ha.
  unfold pend in Hp. rewrite Ha in *. destruct Hp as [-> ->]. asm_cbn.
  constructor; asm_cbn; auto.
  exists B0, A0, [], []. repeat split; trivial. unfold pend. asm_cbn.
  destruct x; asm_cbn.
  - rewrite Hstr by trivial. auto.
  - rewrite Hret by trivial. split; trivial. apply requiv_nil.
  - rewrite Hdel by trivial. auto.
Qed.

Lemma core_begin_action a x B A : Core a B A -> Core (begin_action a x) B A.
Proof.
  intros H. unfold begin_action. destruct (is_action (a_action a) x); trivial.
  apply core_set_action. now apply core_add_op. apply add_op_action.
Qed.

Lemma core_flush_if a x B A : Core a B A -> Core (flush_if a x) B A.
Proof. intros H. unfold flush_if. destruct (is_action (a_action a) x); trivial. now apply core_add_op. Qed.

Lemma core_set_old a m B A : Core a B A -> Core (set_old a m) B A.
Proof. intros [Hins Hdel Hret Hstr Hcur Hex]. constructor; asm_cbn; auto. Qed.

Lemma core_set_attrs a m B A :
  is_action (a_action a) ARetain = false -> Core a B A -> Core (set_attrs a m) B A.
Proof.
  intros Ha [Hins Hdel Hret Hstr Hcur (B0 & A0 & bl & al & -> & -> & Hd & Hp)].
  constructor; asm_cbn; auto. exists B0, A0, bl, al. repeat split; trivial.
  unfold pend in *. asm_cbn. destruct (a_action a) as [[| |]|]; trivial. discriminate.
Qed.

Lemma core_set_current a m B A :
  is_action (a_action a) AInsert = false -> wfm m -> Core a B A -> Core (set_current a m) B A.
Proof.
  intros Ha Hm [Hins Hdel Hret Hstr Hcur (B0 & A0 & bl & al & -> & -> & Hd & Hp)].
  constructor; asm_cbn; auto. exists B0, A0, bl, al. repeat split; trivial.
  unfold pend in *. asm_cbn. destruct (a_action a) as [[| |]|]; trivial. discriminate.
Qed.

(* extending the pending action *)
Lemma core_push_string a s B A :
  Core a B A -> a_action a = Some AInsert ->
  Core (push_string a s) B (A ++ map (fun u => (EUnit u, a_current a)) s).
Proof.
  intros [Hins Hdel Hret Hstr Hcur (B0 & A0 & bl & al & -> & -> & Hd & Hp)] Ha.
  unfold pend in Hp. rewrite Ha in *. destruct Hp as [-> ->].
  constructor; asm_cbn; rewrite ?Ha; auto; try discriminate.
  exists B0, A0, [], (map (fun u => (EUnit u, a_current a)) (match a_insert_string a with Some b => b ++ s | None => s end)).
  repeat split; trivial.
  - rewrite <- app_assoc. f_equal. destruct (a_insert_string a); cbn; trivial. now rewrite map_app.
  - unfold pend. asm_cbn. rewrite Ha. auto.
Qed.

Lemma core_add_delete a n bs B A :
  Core a B A -> a_action a = Some ADelete -> N.of_nat (length bs) = n ->
  Core (add_delete a n) (B ++ bs) A.
Proof.
  intros [Hins Hdel Hret Hstr Hcur (B0 & A0 & bl & al & -> & -> & Hd & Hp)] Ha Hn.
  unfold pend in Hp. rewrite Ha in *. destruct Hp as [-> Hlen].
  constructor; asm_cbn; rewrite ?Ha; auto; try discriminate.
  exists B0, A0, (bl ++ bs), []. rewrite <- app_assoc. repeat split; trivial.
  unfold pend. asm_cbn. rewrite Ha. split; trivial. rewrite app_length. lia.
Qed.

Lemma core_add_retain a n bs as_ B A :
  Core a B A -> a_action a = Some ARetain -> N.of_nat (length bs) = n ->
  requiv (map (restyle (a_attrs a)) bs) as_ ->
  Core (add_retain a n) (B ++ bs) (A ++ as_).
Proof.
  intros [Hins Hdel Hret Hstr Hcur (B0 & A0 & bl & al & -> & -> & Hd & Hp)] Ha Hn Hq.
  unfold pend in Hp. rewrite Ha in *. destruct Hp as [Hlen Hq0].
  constructor; asm_cbn; rewrite ?Ha; auto; try discriminate.
  exists B0, A0, (bl ++ bs), (al ++ as_). rewrite <- !app_assoc. repeat split; trivial.
  unfold pend. asm_cbn. rewrite Ha. split.
  - rewrite app_length. lia.
  - rewrite map_app. now apply requiv_app.
Qed.

(* an embed is emitted at once, between two flushes *)
Lemma core_embed a v B A :
  Core a B A ->
  Core (add_op (set_insert (set_action (add_op a) (Some AInsert)) v)) B (A ++ [(EEmb v, a_current a)]).
Proof.
  intros H. pose proof (core_add_op _ _ _ H) as H1. pose proof (add_op_action a) as Ha.
  rewrite <- (add_op_current a). clear H. set (a1 := add_op a) in *.
  destruct H1 as [Hins Hdel Hret Hstr Hcur (B0 & A0 & bl & al & -> & -> & Hd & Hp)].
  unfold pend in Hp. rewrite Ha in *. destruct Hp as [-> ->].
  unfold add_op. asm_cbn.
  constructor; try (asm_cbn; now auto).
  apply ex_none; asm_cbn; trivial. rewrite (app_nil_r A0).
  apply done_app; trivial. eexists. split. apply texact_ins_embed.
  constructor; [|constructor]. split; trivial. now apply amap_eqb_refl.
Qed.

(* 5.6 loop invariant, attribute part. [cb] / [ca] are the attributes in force at the current position in
   the content before / after the transaction.
   - a_current is [ca];
   - a_old agrees with [cb] (a_old may bind a name to NULL where [cb] has no binding);
   - restyling with a_attrs turns [cb] into [ca]. *)
Record AttrQ (attrs old cb ca : amap) : Prop := mkAttrQ {
  q_cb : clean cb;
  q_ca : clean ca;
  q_wf : wfm attrs;
  q_old : forall k, getd old k = getd cb k;
  q_att : forall k, match am_get attrs k with Some v => v | None => getd cb k end = getd ca k }.

Definition Inv (a : asm) (B A : list relem) (cb ca : amap) : Prop :=
  Core a B A /\ a_current a = ca /\ AttrQ (a_attrs a) (a_old a) cb ca.

Lemma attrq_restyle attrs old cb ca : AttrQ attrs old cb ca -> amap_eqb (rs attrs cb) ca = true.
Proof.
  intros [Hcb Hca Hwf Hold Hatt]. apply amap_eqb_getd; trivial. now apply rs_clean.
  intros k. rewrite rs_getd by trivial. apply Hatt.
Qed.

(* a step that only touches name [k] *)
Lemma attrq_step attrs old cb ca attrs' old' cb' ca' k :
  AttrQ attrs old cb ca -> clean cb' -> clean ca' -> wfm attrs' ->
  (forall k', (k =? k') = false ->
     am_get attrs' k' = am_get attrs k' /\ getd old' k' = getd old k' /\
     getd cb' k' = getd cb k' /\ getd ca' k' = getd ca k') ->
  getd old' k = getd cb' k ->
  match am_get attrs' k with Some x => x | None => getd cb' k end = getd ca' k ->
  AttrQ attrs' old' cb' ca'.
Proof.
  intros [Hcb Hca Hwf Hold Hatt] Hcb' Hca' Hwf' Hframe Hok Hak. constructor; trivial.
  - intros k'. destruct (k =? k') eqn:E.
    + apply N.eqb_eq in E; now subst.
    + destruct (Hframe k' E) as (_ & -> & -> & _). apply Hold.
  - intros k'. destruct (k =? k') eqn:E.
    + apply N.eqb_eq in E; now subst.
    + destruct (Hframe k' E) as (-> & _ & -> & ->). apply Hatt.
Qed.

(* rendering, one item at a time *)
Definition r_elems (vis : titem -> bool) (it : titem) (cur : amap) : list relem :=
  if vis it then
    match t_content it with
    | TStr s => map (fun u => (EUnit u, cur)) s
    | TEmbed v => [(EEmb v, cur)]
    | _ => []
    end
  else [].
Definition r_next (vis : titem -> bool) (it : titem) (cur : amap) : amap :=
  if vis it then match t_content it with TFormat k v => am_update cur k v | _ => cur end else cur.

Lemma render_cons vis it rest cur :
  render_with vis (it :: rest) cur = r_elems vis it cur ++ render_with vis rest (r_next vis it cur).
Proof.
  unfold r_elems, r_next. cbn [render_with]. destruct (vis it); trivial.
  destruct (t_content it); reflexivity.
Qed.

Ltac fields1 :=
  asm_cbn;
  rewrite ?add_op_attrs, ?add_op_old, ?add_op_current,
          ?begin_action_attrs, ?begin_action_old, ?begin_action_current,
          ?flush_if_attrs, ?flush_if_old, ?flush_if_current.
Ltac fields := fields1; fields1; fields1.

Lemma inv_noop a B A cb ca : Inv a B A cb ca -> Inv a (B ++ []) (A ++ []) cb ca.
Proof. now rewrite !app_nil_r. Qed.

Lemma td_step_str a s del add deld B A cb ca (it := {| t_content := TStr s; t_deleted := del; t_added := add; t_deld := deld |}) :
  twf it = true -> Inv a B A cb ca ->
  Inv (td_step a it) (B ++ r_elems t_visible_before it cb) (A ++ r_elems t_visible_after it ca)
      (r_next t_visible_before it cb) (r_next t_visible_after it ca).
Proof.
  subst it. intros Htwf (Hcore & Hcur & Hq).
  unfold twf, r_elems, r_next, t_visible_before, t_visible_after, td_step in *.
  cbn [t_content t_deleted t_added t_deld] in *.
  destruct add, deld, del; cbn [negb andb orb implb] in *; try discriminate Htwf;
    try (apply inv_noop; exact (conj Hcore (conj Hcur Hq))).
  - (* added *)
    rewrite app_nil_r. split; [|split]; fields; trivial.
    subst ca. rewrite <- (begin_action_current a AInsert).
    apply core_push_string; [now apply core_begin_action | apply begin_action_action].
  - (* deleted by the transaction *)
    rewrite app_nil_r. split; [|split]; fields; trivial.
    apply core_add_delete; [now apply core_begin_action | apply begin_action_action | now rewrite map_length].
  - (* retained *)
    split; [|split]; fields; trivial.
    apply core_add_retain; [now apply core_begin_action | apply begin_action_action | now rewrite map_length |].
    rewrite begin_action_attrs, map_map.
    apply (requiv_const EUnit (rs (a_attrs a) cb) ca s). eapply attrq_restyle; eassumption.
Qed.

Lemma td_step_embed a v del add deld B A cb ca (it := {| t_content := TEmbed v; t_deleted := del; t_added := add; t_deld := deld |}) :
  twf it = true -> Inv a B A cb ca ->
  Inv (td_step a it) (B ++ r_elems t_visible_before it cb) (A ++ r_elems t_visible_after it ca)
      (r_next t_visible_before it cb) (r_next t_visible_after it ca).
Proof.
  subst it. intros Htwf (Hcore & Hcur & Hq).
  unfold twf, r_elems, r_next, t_visible_before, t_visible_after, td_step in *.
  cbn [t_content t_deleted t_added t_deld] in *.
  destruct add, deld, del; cbn [negb andb orb implb] in *; try discriminate Htwf;
    try (apply inv_noop; exact (conj Hcore (conj Hcur Hq))).
  - (* added *)
    rewrite app_nil_r. split; [|split]; fields; trivial.
    subst ca. now apply core_embed.
  - (* deleted by the transaction *)
    rewrite app_nil_r. split; [|split]; fields; trivial.
    apply core_add_delete; [now apply core_begin_action | apply begin_action_action | reflexivity].
  - (* retained *)
    split; [|split]; fields; trivial.
    apply core_add_retain; [now apply core_begin_action | apply begin_action_action | reflexivity |].
    rewrite begin_action_attrs.
    apply (requiv_const (fun _ : unit => EEmb v) (rs (a_attrs a) cb) ca [tt]). eapply attrq_restyle; eassumption.
Qed.

(* the end of the TFormat arm for a live item: flush a pending insert, then update a_current *)
Lemma inv_tail a1 k v B A cb' ca ca' :
  Core a1 B A -> a_current a1 = ca -> ca' = am_update ca k v ->
  AttrQ (a_attrs a1) (a_old a1) cb' ca' ->
  Inv (set_current (flush_if a1 AInsert) (am_update (a_current (flush_if a1 AInsert)) k v)) B A cb' ca'.
Proof.
  intros Hcore Hcur Hca' Hq. split; [|split]; fields; trivial.
  - apply core_set_current; [apply flush_if_action | | now apply core_flush_if].
    rewrite Hcur, <- Hca'. apply (q_ca _ _ _ _ Hq).
  - now rewrite Hcur.
Qed.

Ltac frame :=
  let k' := fresh "k'" in let E := fresh "E" in
  intros k' E; rewrite ?am_get_remove, ?am_get_insert, ?getd_update, ?getd_insert, ?E; auto.

Lemma td_step_format a k v del add deld B A cb ca (it := {| t_content := TFormat k v; t_deleted := del; t_added := add; t_deld := deld |}) :
  twf it = true -> Inv a B A cb ca ->
  Inv (td_step a it) (B ++ r_elems t_visible_before it cb) (A ++ r_elems t_visible_after it ca)
      (r_next t_visible_before it cb) (r_next t_visible_after it ca).
Proof.
  subst it. intros Htwf (Hcore & Hcur & Hq).
  unfold twf, r_elems, r_next, t_visible_before, t_visible_after, td_step in *.
  cbn [t_content t_deleted t_added t_deld] in *.
  destruct add, deld, del; cbn [negb andb orb implb] in *; try discriminate Htwf;
    try (apply inv_noop; exact (conj Hcore (conj Hcur Hq))).
  all: rewrite !app_nil_r; pose proof Hq as [Hcb Hca Hwf Hold Hatt].
  all: assert (Hcb' : clean (am_update cb k v)) by now apply clean_update.
  all: assert (Hca' : clean (am_update ca k v)) by now apply clean_update.
  - (* added, live *)
    rewrite ?flush_if_old, ?flush_if_attrs.
    destruct (opt_tok_eqb (am_get (a_current a) k) v) eqn:Ecur; cbn [negb].
    + (* the value is already in force *)
      apply inv_tail with (ca := ca); trivial.
      eapply attrq_step with (k := k); [exact Hq | trivial.. | frame | apply Hold |].
      rewrite Hatt, getd_update, N.eqb_refl. rewrite Hcur in Ecur. unfold getd.
      destruct (am_get ca k); cbn in Ecur; [now apply N.eqb_eq | discriminate].
    + assert (Hleaf : forall m,
                wfm m -> (forall k', (k =? k') = false -> am_get m k' = am_get (a_attrs a) k') ->
                match am_get m k with Some x => x | None => getd cb k end = v ->
                Inv (set_current (flush_if (set_attrs (flush_if a ARetain) m) AInsert)
                       (am_update (a_current (flush_if (set_attrs (flush_if a ARetain) m) AInsert)) k v))
                    B A cb (am_update ca k v)).
      { intros m Hm Hfr Hk. apply inv_tail with (ca := ca); fields; trivial.
        - apply core_set_attrs; [apply flush_if_action | now apply core_flush_if].
        - eapply attrq_step with (k := k); [exact Hq | trivial.. | | apply Hold |].
          + intros k' E. rewrite (Hfr k' E), getd_update, E. auto.
          + now rewrite getd_update, N.eqb_refl. }
      destruct (am_get (a_old a) k) as [ov|] eqn:Eold; [destruct (ov =? v) eqn:Eov | destruct (v =? NULL) eqn:Enull];
        apply Hleaf; try (now apply wfm_remove); try (now apply wfm_insert); try frame;
        rewrite ?am_get_remove, ?am_get_insert, N.eqb_refl; trivial.
      * rewrite <- Hold. unfold getd. rewrite Eold. now apply N.eqb_eq.
      * rewrite <- Hold. unfold getd. rewrite Eold. symmetry. now apply N.eqb_eq.
  - (* deleted by the transaction *)
    fields.
    assert (Hcurk : match am_get (a_current a) k with Some v0 => v0 | None => NULL end = getd ca k)
      by (now rewrite Hcur).
    rewrite Hcurk.
    destruct (getd ca k =? v) eqn:Ecv; cbn [negb].
    + split; [|split]; fields; trivial. now apply core_set_old.
      eapply attrq_step with (k := k); [exact Hq | trivial.. | frame | |].
      * now rewrite getd_insert, getd_update, N.eqb_refl.
      * specialize (Hatt k). destruct (am_get (a_attrs a) k); trivial.
        rewrite getd_update, N.eqb_refl. symmetry. now apply N.eqb_eq.
    + split; [|split]; fields; trivial.
      * apply core_set_attrs; [apply flush_if_action | apply core_flush_if; now apply core_set_old].
      * eapply attrq_step with (k := k); [exact Hq | trivial | trivial | now apply wfm_insert | frame | |].
        -- now rewrite getd_insert, getd_update, N.eqb_refl.
        -- now rewrite am_get_insert, N.eqb_refl.
  - (* retained *)
    change (a_attrs (set_old a (am_insert (a_old a) k v))) with (a_attrs a).
    assert (Hleaf : forall a1,
              Core a1 B A -> a_current a1 = ca -> a_old a1 = am_insert (a_old a) k v ->
              wfm (a_attrs a1) ->
              (forall k', (k =? k') = false -> am_get (a_attrs a1) k' = am_get (a_attrs a) k') ->
              match am_get (a_attrs a1) k with Some x => x | None => v end = v ->
              Inv (set_current (flush_if a1 AInsert) (am_update (a_current (flush_if a1 AInsert)) k v))
                  B A (am_update cb k v) (am_update ca k v)).
    { intros a1 Hc1 Hcur1 Hold1 Hm Hfr Hk. apply inv_tail with (ca := ca); trivial.
      rewrite Hold1.
      eapply attrq_step with (k := k); [exact Hq | trivial.. | | |].
      - intros k' E. rewrite (Hfr k' E), getd_insert, !getd_update, E. auto.
      - now rewrite getd_insert, getd_update, N.eqb_refl.
      - now rewrite !getd_update, N.eqb_refl. }
    assert (Hc0 : Core (set_old a (am_insert (a_old a) k v)) B A) by now apply core_set_old.
    destruct (am_get (a_attrs a) k) as [attr|] eqn:Eattr;
      [destruct (attr =? v) eqn:Eav; cbn [negb]; [|destruct (v =? NULL) eqn:Enull] |];
      apply Hleaf; fields; trivial;
      try (apply core_set_attrs; [apply flush_if_action | now apply core_flush_if]);
      try (now apply wfm_remove); try (now apply wfm_insert); try frame;
      rewrite ?am_get_remove, ?am_get_insert, ?N.eqb_refl, ?Eattr; trivial.
    now apply N.eqb_eq.
Qed.

Lemma td_step_inv a it B A cb ca :
  twf it = true -> Inv a B A cb ca ->
  Inv (td_step a it) (B ++ r_elems t_visible_before it cb) (A ++ r_elems t_visible_after it ca)
      (r_next t_visible_before it cb) (r_next t_visible_after it ca).
Proof.
  destruct it as [c del add deld]. destruct c as [s|v|k v|].
  - apply td_step_str.
  - apply td_step_embed.
  - apply td_step_format.
  - intros _ H. unfold td_step, r_elems, r_next. cbn [t_content].
    destruct (t_visible_before _), (t_visible_after _); now apply inv_noop.
Qed.

Lemma td_fold_inv items : forall a B A cb ca,
  forallb twf items = true -> Inv a B A cb ca ->
  exists cb' ca',
    Inv (fold_left td_step items a)
        (B ++ render_with t_visible_before items cb) (A ++ render_with t_visible_after items ca) cb' ca'.
Proof.
  induction items as [|it items IH]; intros a B A cb ca Hwf Hinv.
  - cbn. rewrite !app_nil_r. eauto.
  - cbn [forallb] in Hwf. apply andb_prop in Hwf as [Hit Hwf].
    rewrite !render_cons, !app_assoc. cbn [fold_left].
    apply IH; trivial. now apply td_step_inv.
Qed.

Lemma inv_asm0 : Inv asm0 [] [] [] [].
Proof.
  split; [apply core_asm0 | split; [reflexivity|]].
  constructor; cbn; trivial; apply clean_nil.
Qed.

(* The full statement, formatting items included. *)
Theorem text_delta_exact : text_delta_exact_stmt.
Proof.
  intros items Hwf.
  destruct (td_fold_inv items _ _ _ _ _ Hwf inv_asm0) as (cb' & ca' & Hcore & _ & _).
  cbn [app] in Hcore. fold (text_before items) in Hcore. fold (text_after items) in Hcore.
  unfold text_delta, td_finish. set (a := fold_left td_step items asm0) in *.
  apply core_add_op in Hcore.
  destruct Hcore as [_ _ _ _ _ (B0 & A0 & bl & al & HB & HA & (A' & Hex & Hq) & Hp)].
  unfold pend in Hp. rewrite add_op_action in Hp. destruct Hp as [-> ->].
  rewrite app_nil_r in HB, HA. subst B0 A0.
  destruct (finish_split (a_delta (add_op a))) as (R & HR & HF).
  exists A'. split.
  - apply (apply_delta_drop R HF). rewrite <- HR.
    specialize (Hex [] []). rewrite !app_nil_r in Hex. rewrite Hex. cbn. now rewrite app_nil_r.
  - now apply requiv_eqb.
Qed.

Theorem text_delta_exact_plain : forall items,
  forallb twf items = true ->
  (forall it, In it items -> match t_content it with TFormat _ _ => False | _ => True end) ->
  exists r, apply_delta (text_before items) (text_delta items) = Some r /\ relems_equiv r (text_after items).
Proof. intros items Hwf _. now apply text_delta_exact. Qed.

(* the executable statements the runner evaluates are true on every well-formed input *)
Corollary seq_exact_true : forall items, forallb swf items = true -> seq_exact items = true.
Proof.
  intros items Hwf. unfold seq_exact. rewrite (change_set_exact items Hwf).
  now destruct (list_eq_dec N.eq_dec (seq_after items) (seq_after items)).
Qed.

Corollary key_exact_true : forall chain, kwf chain = true -> key_exact chain = true.
Proof.
  intros chain Hk. unfold key_exact. rewrite (keys_change_exact chain Hk).
  destruct (key_after chain); trivial. apply N.eqb_refl.
Qed.

Corollary text_exact_true : forall items, forallb twf items = true -> text_exact items = true.
Proof.
  intros items Hwf. unfold text_exact.
  destruct (text_delta_exact items Hwf) as (r & -> & Hr). exact Hr.
Qed.

(* 5.7 The exhaustive check that was run BEFORE attempting the proof of the full statement: every item
   list of length <= 4 over the alphabet below (one string, three format items on one key with values
   NULL / 2 / 3, all five flag combinations twf allows) is exact. No counterexample exists within this
   bound; a wider search (length <= 5 over two keys and two strings, 21 letters, 4.3 million lists) was
   run outside this file with the same outcome. text_delta_exact above supersedes both. *)
Definition bounded_flags : list (bool * bool * bool) :=   (* deleted, added, deld *)
  [(false, false, false); (false, true, false); (true, false, true); (true, false, false); (true, true, true)].
Definition bounded_contents : list tcontent := [TStr [7]; TFormat 1 0; TFormat 1 2; TFormat 1 3].
Definition bounded_alphabet : list titem :=
  flat_map (fun c => map (fun f => match f with (d, a, dd) =>
                                     {| t_content := c; t_deleted := d; t_added := a; t_deld := dd |} end)
                         bounded_flags) bounded_contents.
Fixpoint bounded_universe (n : nat) : list (list titem) :=
  match n with
  | O => [[]]
  | S n' => [] :: flat_map (fun l => map (fun i => i :: l) bounded_alphabet) (bounded_universe n')
  end.

Theorem text_delta_exact_bounded : forall items, In items (bounded_universe 4) -> text_exact items = true.
Proof.
  apply (proj1 (forallb_forall text_exact (bounded_universe 4))). vm_compute. reflexivity.
Qed.

Example bounded_universe_wf : forallb (forallb twf) (bounded_universe 4) = true.
Proof. vm_compute. reflexivity. Qed.

(* ---------------------------------------------------------------------------------------------- *)
(* 6. non-vacuity *)

Definition ex_seq : list sitem :=
  [ {| s_len := 2; s_vals := [10; 11]; s_deleted := false; s_added := false; s_deld := false |};   (* retained *)
    {| s_len := 1; s_vals := [20];     s_deleted := false; s_added := true;  s_deld := false |};   (* added *)
    {| s_len := 2; s_vals := [21; 22]; s_deleted := false; s_added := true;  s_deld := false |};   (* added, merged *)
    {| s_len := 1; s_vals := [];       s_deleted := true;  s_added := false; s_deld := false |};   (* old tombstone *)
    {| s_len := 1; s_vals := [30];     s_deleted := true;  s_added := false; s_deld := true  |};   (* deleted by the transaction *)
    {| s_len := 1; s_vals := [40];     s_deleted := true;  s_added := true;  s_deld := true  |};   (* added and deleted *)
    {| s_len := 1; s_vals := [12];     s_deleted := false; s_added := false; s_deld := false |};   (* retained *)
    {| s_len := 1; s_vals := [50];     s_deleted := false; s_added := true;  s_deld := false |};   (* added *)
    {| s_len := 3; s_vals := [13; 14; 15]; s_deleted := false; s_added := false; s_deld := false |} ]. (* retained tail *)

Example ex_seq_wf : forallb swf ex_seq = true.
Proof. vm_compute. reflexivity. Qed.
Example ex_seq_before : seq_before ex_seq = [10; 11; 30; 12; 13; 14; 15].
Proof. vm_compute. reflexivity. Qed.
Example ex_seq_change_set :
  change_set ex_seq = [Retain 2; Added [20; 21; 22]; Removed 1; Retain 1; Added [50]].   (* trailing Retain 3 dropped *)
Proof. vm_compute. reflexivity. Qed.
Example ex_seq_after : seq_after ex_seq = [10; 11; 20; 21; 22; 12; 50; 13; 14; 15].
Proof. vm_compute. reflexivity. Qed.
Example ex_seq_applied : apply_changes (seq_before ex_seq) (change_set ex_seq) = Some (seq_after ex_seq).
Proof. apply change_set_exact. apply ex_seq_wf. Qed.
Example ex_seq_path : path_index ex_seq 6 = 5 /\ nth_error (seq_after ex_seq) 5 = Some 12.
Proof. vm_compute. auto. Qed.

Definition ex_chain : list kitem :=
  [ {| k_val := 4; k_deleted := true;  k_added := false; k_deld := false |};    (* overwritten long ago *)
    {| k_val := 5; k_deleted := true;  k_added := false; k_deld := true  |};    (* the value before, deleted by the transaction *)
    {| k_val := 7; k_deleted := true;  k_added := true;  k_deld := true  |};    (* set and overwritten inside the transaction *)
    {| k_val := 6; k_deleted := false; k_added := true;  k_deld := false |} ].  (* branch.map[key] *)

Example ex_chain_wf : kwf ex_chain = true.
Proof. vm_compute. reflexivity. Qed.
Example ex_chain_change :
  key_before ex_chain = Some 5 /\ keys_change ex_chain = Some (EUpdated 5 6) /\ key_after ex_chain = Some 6.
Proof. vm_compute. auto. Qed.

Definition ti (c : tcontent) (d a dd : bool) : titem := {| t_content := c; t_deleted := d; t_added := a; t_deld := dd |}.
Definition ex_text : list titem :=
  [ ti (TFormat 1 2) false false false;     (* retained: attribute 1 := 2 *)
    ti (TStr [65; 66]) false false false;   (* retained "AB" *)
    ti (TFormat 5 3) false true false;      (* added: attribute 5 := 3 *)
    ti (TStr [67]) false true false;        (* added "C" *)
    ti (TStr [70]) true true true;          (* added and deleted *)
    ti (TFormat 1 0) true false true;       (* deleted by the transaction: the end of attribute 1 *)
    ti (TStr [68; 69]) false false false;   (* retained "DE", gains attributes 1 and 5 *)
    ti (TEmbed 9) true false true;          (* embed deleted by the transaction *)
    ti (TFormat 1 0) false false false;     (* retained: end of attribute 1 *)
    ti (TStr [71]) true false false;        (* old tombstone *)
    ti (TEmbed 8) false true false;         (* added embed *)
    ti (TFormat 5 0) false true false;      (* added: end of attribute 5 *)
    ti (TStr [72]) false false false ].     (* retained "H", untouched: the trailing retain is trimmed *)

Example ex_text_wf : forallb twf ex_text = true.
Proof. vm_compute. reflexivity. Qed.
Example ex_text_before :
  text_before ex_text =
  [(EUnit 65, [(1, 2)]); (EUnit 66, [(1, 2)]); (EUnit 68, []); (EUnit 69, []); (EEmb 9, []); (EUnit 72, [])].
Proof. vm_compute. reflexivity. Qed.
Example ex_text_delta :
  text_delta ex_text =
  [DRetain 2 []; DInsStr [67] [(1, 2); (5, 3)]; DRetain 2 [(5, 3); (1, 2)]; DDelete 1; DInsEmbed 8 [(5, 3)]].
Proof. vm_compute. reflexivity. Qed.
(* the observer's result and text_after differ in the ORDER of the attribute bindings of "DE": the
   conclusion of text_delta_exact cannot be strengthened to syntactic equality *)
Example ex_text_applied :
  apply_delta (text_before ex_text) (text_delta ex_text) =
  Some [(EUnit 65, [(1, 2)]); (EUnit 66, [(1, 2)]); (EUnit 67, [(1, 2); (5, 3)]);
        (EUnit 68, [(5, 3); (1, 2)]); (EUnit 69, [(5, 3); (1, 2)]); (EEmb 8, [(5, 3)]); (EUnit 72, [])].
Proof. vm_compute. reflexivity. Qed.
Example ex_text_after :
  text_after ex_text =
  [(EUnit 65, [(1, 2)]); (EUnit 66, [(1, 2)]); (EUnit 67, [(1, 2); (5, 3)]);
   (EUnit 68, [(1, 2); (5, 3)]); (EUnit 69, [(1, 2); (5, 3)]); (EEmb 8, [(5, 3)]); (EUnit 72, [])].
Proof. vm_compute. reflexivity. Qed.
Example ex_text_exact : text_exact ex_text = true.
Proof. apply text_exact_true. apply ex_text_wf. Qed.

(* ---------------------------------------------------------------------------------------------- *)
Print Assumptions change_set_exact.
Print Assumptions change_set_nil_unchanged.
Print Assumptions keys_change_exact.
Print Assumptions path_index_resolves.
Print Assumptions text_delta_exact.
Print Assumptions text_delta_exact_plain.
Print Assumptions text_delta_exact_bounded.
Print Assumptions seq_exact_true.
Print Assumptions key_exact_true.
Print Assumptions text_exact_true.
