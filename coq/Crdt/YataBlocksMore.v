(* Additional definitions for YataBlocksMoreProofs.v (same prefix yib_).
   [yib_cut_ok]: the executable predicate under which no split asked for by the integration of one block can be
   refused (failure tag 2 of YataBlocks.v).  [yib_integrate_all] / [yib_hist_ok]: a history of incoming blocks. *)
From Coq Require Import List NArith ZArith Bool.
From YV Require Import Gen.Consts Lib.Bytes Codec.Varint Codec.AnyCodec Codec.IdSetCodec Codec.UpdateV1
  Codec.V2Cols Ids.Ranges Crdt.Doc Crdt.Blocks Crdt.YataBlocks.
Import ListNotations.
Open Scope N_scope.

(* can the block that holds unit [i] be cut right BEFORE unit [i] ?  (true when [i] starts its block, or is
   not in the sequence: nothing is cut then) *)
Definition yib_cut_before_ok (i : id) (s : yib_seq) : bool :=
  match yib_get_item i s with
  | None => true
  | Some b => let k := ck i - ck (yib_id b) in
              if k =? 0 then true else match blk_split (yib_b b) k with Some _ => true | None => false end
  end.
(* ... right AFTER unit [i] (true when [i] ends its block) *)
Definition yib_cut_after_ok (i : id) (s : yib_seq) : bool :=
  match yib_get_item i s with
  | None => true
  | Some b => let k := ck i - ck (yib_id b) + 1 in
              if k =? yib_len b then true else match blk_split (yib_b b) k with Some _ => true | None => false end
  end.
(* ItemContent::splice refuses nothing but: Binary / Embed / Format / Type / Doc (length 1: never asked), and
   (model only, see Blocks.blk_content_split) a String cut between the two UTF-16 units of one char.  So this
   says: the origin is not the high half, the right origin not the low half, of a surrogate pair. *)
Definition yib_cut_ok (s : yib_seq) (b : yib_blk) : bool :=
  match yib_origin b with Some o => yib_cut_after_ok o s | None => true end &&
  match yib_rorigin b with Some ro => yib_cut_before_ok ro s | None => true end.

(* a history: the blocks of one list, in the order in which they are integrated *)
Fixpoint yib_integrate_all (s : yib_seq) (bs : list yib_blk) : yib_res yib_seq :=
  match bs with
  | [] => yib_ok s
  | b :: r => yib_bind (yib_integrate s b) (fun s' => yib_integrate_all s' r)
  end.
(* every block is fresh (and a sequence item) for the state it meets *)
Fixpoint yib_hist_ok (s : yib_seq) (bs : list yib_blk) : bool :=
  match bs with
  | [] => true
  | b :: r => yib_fresh s b && match yib_psub b with None => true | Some _ => false end &&
              match yib_integrate s b with yib_ok s' => yib_hist_ok s' r | yib_fail _ => false end
  end.

(* the keyed list (one map key) in Doc.integrate_op for `osub = Some k`: yata_insert, then "the right-most entry
   wins": the new entry is right-most -> its left neighbour is deleted; otherwise the new entry is deleted.
   (Doc.integrate_op does this on the document with delete_item; on the list of the key, for entries that are
   not types, delete_item is mark_deleted.) *)
Definition yib_umap_step (l : list ditem) (x : ditem) : list ditem :=
  let l' := yata_insert l x in
  match split_after (did x) l' with
  | Some (upto, []) => match rev upto with _ :: lft :: _ => mark_deleted (did lft) l' | _ => l' end
  | _ => mark_deleted (did x) l'
  end.
