(* Transcription of TransactionMut::apply_delete (yrs/src/transaction.rs) together with the parts of
   block_store.rs it runs through:
     ClientBlockList::clock / find_index / get / len / insert,  BlockStore::split_block (+ ItemPtr::splice),
     Block::clock_start / len / is_deleted / as_item / next_clock / clock_range,  IdSet::insert.

   Abstraction.  A block is (clock, len, kind); kind = live item | deleted item | GC | Skip.  No content, no
   YATA links.  What is NOT modelled:
     - TransactionMut::delete(item) is reduced to flipping live -> deleted.  Its recursion into the children of a
       deleted nested type, the subdocument bookkeeping, the parent's cached lengths, `changed`, the transaction's
       own delete set and the `linked_by` notifications are ignored.
     - `merge_blocks`, `linked_by.insert(split, links)`: bookkeeping for the commit, no effect on the block lists
       during apply_delete.
     - ItemContent::splice(offset).unwrap(): the content is not there; the split of a block of length l at
       0 < offset < l always succeeds (true of every splittable content; contents of length 1 are never split).
   Arithmetic.  Clocks and lengths are u32; every `+`, `-`, `*`, `/` the code performs on them is performed here by
   [adl_add32] .. [adl_div32], which return [adl_panic] where a build with overflow checks (debug) panics
   (a release build wraps; that is not modelled).  usize arithmetic (indices) is on nat; `x - 1` on usize 0 and
   indexing past the end are [adl_panic] as well.  [adl_apply_delete_no_panic] (ApplyDeleteProofs.v): none of this
   happens on well-formed stores and canonical delete sets. *)
From Coq Require Import List NArith Bool.
From YV Require Import Ids.Ranges.
Import ListNotations.
Open Scope N_scope.

(* ---------- blocks, block lists, the store ---------- *)
Inductive adl_kind := adl_live | adl_dead | adl_gc | adl_skip.
(* (the three type names are notations, so that every statement elaborates to the same terms) *)
Notation adl_block := (N * N * adl_kind)%type (only parsing).    (* clock, len, kind *)
Definition adl_bclock (b : adl_block) : N := fst (fst b).
Definition adl_blen (b : adl_block) : N := snd (fst b).
Definition adl_bkind (b : adl_block) : adl_kind := snd b.
Notation adl_blist := (list (N * N * adl_kind)) (only parsing).   (* ClientBlockList *)
Notation adl_store := (list (N * list (N * N * adl_kind))) (only parsing).
                                                                  (* BlockStore.clients (a HashMap: keys distinct) *)

Definition adl_kind_eqb (a b : adl_kind) : bool :=
  match a, b with
  | adl_live, adl_live | adl_dead, adl_dead | adl_gc, adl_gc | adl_skip, adl_skip => true
  | _, _ => false
  end.

(* ---------- results: a value or a Rust panic ---------- *)
Inductive adl_res (A : Type) := adl_ok (a : A) | adl_panic.
Arguments adl_ok {A}.
Arguments adl_panic {A}.
Definition adl_bind {A B : Type} (x : adl_res A) (f : A -> adl_res B) : adl_res B :=
  match x with adl_ok a => f a | adl_panic => adl_panic end.
Fixpoint adl_fold {A B : Type} (f : A -> B -> adl_res A) (l : list B) (a : A) : adl_res A :=
  match l with
  | [] => adl_ok a
  | x :: r => adl_bind (f a x) (fun a' => adl_fold f r a')
  end.

(* ---------- u32 ---------- *)
Definition adl_u32_max : N := 4294967295.
Definition adl_add32 (a b : N) : adl_res N := if a + b <=? adl_u32_max then adl_ok (a + b) else adl_panic.
Definition adl_sub32 (a b : N) : adl_res N := if b <=? a then adl_ok (a - b) else adl_panic.
Definition adl_mul32 (a b : N) : adl_res N := if a * b <=? adl_u32_max then adl_ok (a * b) else adl_panic.
Definition adl_div32 (a b : N) : adl_res N := if b =? 0 then adl_panic else adl_ok (a / b).

(* ---------- Block ---------- *)
(* Block::is_deleted: Item => item.is_deleted(), Skip => false, GC => true *)
Definition adl_is_deleted (b : adl_block) : bool :=
  match adl_bkind b with adl_dead | adl_gc => true | _ => false end.
(* Block::as_item is Some *)
Definition adl_is_item (b : adl_block) : bool :=
  match adl_bkind b with adl_live | adl_dead => true | _ => false end.
Definition adl_is_skip (b : adl_block) : bool :=
  match adl_bkind b with adl_skip => true | _ => false end.
(* Block::next_clock: clock + len *)
Definition adl_next_clock (b : adl_block) : adl_res N := adl_add32 (adl_bclock b) (adl_blen b).
(* Block::clock_range: (start, start + len - 1) *)
Definition adl_clock_range (b : adl_block) : adl_res (N * N) :=
  adl_bind (adl_add32 (adl_bclock b) (adl_blen b)) (fun e =>
  adl_bind (adl_sub32 e 1) (fun e1 => adl_ok (adl_bclock b, e1))).

(* ---------- ClientBlockList ---------- *)
Fixpoint adl_last (bl : adl_blist) : option adl_block :=
  match bl with
  | [] => None
  | b :: r => match r with [] => Some b | _ => adl_last r end
  end.
(* ClientBlockList::clock: 0 for an empty list, otherwise last.next_clock() *)
Definition adl_list_clock (bl : adl_blist) : adl_res N :=
  match adl_last bl with None => adl_ok 0 | Some b => adl_next_clock b end.

(* the `while left <= right` loop of find_index; one unit of fuel per iteration *)
Fixpoint adl_fi_loop (fuel : nat) (bl : adl_blist) (clock : N) (lft rgt mid : nat) : adl_res (option nat) :=
  match fuel with
  | O => adl_panic                                    (* not reached: see adl_find_index *)
  | S f =>
    if Nat.leb lft rgt then
      match nth_error bl mid with
      | None => adl_panic                             (* self.inner[mid] *)
      | Some b =>
        adl_bind (adl_clock_range b) (fun se =>
        if fst se <=? clock then
          if clock <=? snd se then adl_ok (Some mid)
          else adl_fi_loop f bl clock (S mid) rgt (Nat.div (S mid + rgt) 2)
        else
          match mid with
          | O => adl_panic                            (* right = mid - 1 on usize *)
          | S m => adl_fi_loop f bl clock lft m (Nat.div (lft + m) 2)
          end)
      end
    else adl_ok None
  end.

(* ClientBlockList::find_index.  After the first probe the interval [left, right] lies inside the list and
   shrinks with every iteration, so length + 2 units of fuel are never used up. *)
Definition adl_find_index (bl : adl_blist) (clock : N) : adl_res (option nat) :=
  match length bl with
  | O => adl_panic                                    (* self.inner.len() - 1 *)
  | S rgt =>
    match nth_error bl rgt with
    | None => adl_panic
    | Some b =>
      adl_bind (adl_clock_range b) (fun se =>
      if fst se =? clock then adl_ok (Some rgt)
      else
        adl_bind (adl_div32 clock (snd se)) (fun q =>                       (* clock / end *)
        adl_bind (adl_mul32 q (N.of_nat rgt mod 4294967296)) (fun m =>    (* * right as u32 *)
        adl_fi_loop (S (S (length bl))) bl clock O rgt (N.to_nat m))))
    end
  end.

Definition adl_set_nth {A : Type} (l : list A) (i : nat) (x : A) : list A := firstn i l ++ x :: skipn (S i) l.
Definition adl_insert_at {A : Type} (l : list A) (i : nat) (x : A) : list A := firstn i l ++ x :: skipn i l.

(* BlockStore::split_block(item, offset) for the item that sits at position [pos] of its client's list:
     let index = blocks.find_index(id.clock)?;  let right = block.splice(offset)?;  blocks.insert(index + 1, right)
   ItemPtr::splice: None for offset 0; otherwise item.len = offset and the new item has
   id.clock = clock + offset, len = len - offset, origin clock + offset - 1 and the flags (info) of the item.
   Result: None = no split; Some = the new list. *)
Definition adl_split_block (bl : adl_blist) (pos : nat) (offset : N) : adl_res (option adl_blist) :=
  match nth_error bl pos with
  | None => adl_panic
  | Some b =>
    adl_bind (adl_find_index bl (adl_bclock b)) (fun oi =>
    match oi with
    | None => adl_ok None
    | Some index =>
      if offset =? 0 then adl_ok None else
      adl_bind (adl_add32 (adl_bclock b) offset) (fun c2 =>
      adl_bind (adl_sub32 (adl_blen b) offset) (fun l2 =>
      adl_bind (adl_sub32 c2 1) (fun _ =>
      let bl1 := adl_set_nth bl pos (adl_bclock b, offset, adl_bkind b) in
      if Nat.leb (S index) (length bl1)
      then adl_ok (Some (adl_insert_at bl1 (S index) (c2, l2, adl_bkind b)))
      else adl_panic)))                                (* Vec::insert past the end *)
    end)
  end.

(* TransactionMut::delete(item), reduced to the flag of the item itself *)
Definition adl_delete (bl : adl_blist) (pos : nat) : adl_blist :=
  match nth_error bl pos with
  | Some b => match adl_bkind b with
              | adl_live => adl_set_nth bl pos (adl_bclock b, adl_blen b, adl_dead)
              | _ => bl
              end
  | None => bl
  end.

(* IdSet::insert(ID::new(client, clock), len): nothing for len 0, otherwise the range clock..clock + len *)
Definition adl_un_insert (un : idset) (client clock len : N) : adl_res idset :=
  if len =? 0 then adl_ok un else
  adl_bind (adl_add32 clock len) (fun e =>
  match im_insert_range ueq umerge un client clock e tt with
  | Some un' => adl_ok un'
  | None => adl_panic                                  (* an index panic inside IdRanges::insert *)
  end).

(* ---------- apply_delete: the `while index < blocks.len()` loop ---------- *)
Fixpoint adl_loop (fuel : nat) (client clock clock_end : N) (bl : adl_blist) (index : nat) (un : idset)
  : adl_res (adl_blist * idset) :=
  match fuel with
  | O => adl_panic                                    (* not reached: see adl_range *)
  | S f =>
    if Nat.ltb index (length bl) then
      match nth_error bl index with
      | None => adl_panic
      | Some block =>
        let pos := index in
        let index := S index in                                           (* index += 1 *)
        if adl_bclock block <? clock_end then
          if negb (adl_is_deleted block) then
            if adl_is_item block then
              adl_bind (adl_add32 (adl_bclock block) (adl_blen block)) (fun nc =>   (* item.id.clock + item.len() *)
              adl_bind
                (if clock_end <? nc then
                   adl_bind (adl_sub32 clock_end (adl_bclock block)) (fun off =>
                   adl_bind (adl_split_block bl pos off) (fun sp =>
                   adl_ok (match sp with Some bl' => bl' | None => bl end)))
                 else adl_ok bl) (fun bl1 =>
              adl_loop f client clock clock_end (adl_delete bl1 pos) index un))     (* self.delete(item) *)
            else
              (* a Skip: the range goes to the unapplied set *)
              let c' := N.max (adl_bclock block) clock in
              adl_bind (adl_sub32 clock_end c') (fun d =>
              let len := N.min (adl_blen block) d in
              adl_bind (adl_un_insert un client c' len) (fun un' =>
              adl_loop f client clock clock_end bl index un'))
          else adl_loop f client clock clock_end bl index un
        else adl_ok (bl, un)                                              (* break *)
      end
    else adl_ok (bl, un)
  end.

(* the body of `for range in ranges.iter()` for a client the store knows; state = blocks.clock() *)
Definition adl_range (client state : N) (acc : adl_blist * idset) (r : entry unit)
  : adl_res (adl_blist * idset) :=
  let bl := fst acc in
  let un := snd acc in
  let clock := e_start r in
  let clock_end := e_end r in
  if clock <? state then
    adl_bind (if state <? clock_end
              then adl_bind (adl_sub32 clock_end state) (fun d => adl_un_insert un client state d)
              else adl_ok un) (fun un1 =>
    adl_bind (adl_find_index bl clock) (fun oi =>
    match oi with
    | None => adl_ok (bl, un1)
    | Some index =>
      match nth_error bl index with
      | None => adl_panic                              (* get(index).unwrap_unchecked() on None *)
      | Some block =>
        (* split the first item if necessary *)
        adl_bind
          (if negb (adl_is_deleted block) && (adl_bclock block <? clock) then
             if adl_is_item block then
               adl_bind (adl_sub32 clock (adl_bclock block)) (fun off =>
               adl_bind (adl_split_block bl index off) (fun sp =>
               adl_ok (match sp with Some bl' => (bl', S index) | None => (bl, index) end)))
             else adl_ok (bl, index)
           else adl_ok (bl, index)) (fun bi =>
        (* every iteration moves index one block on; a split lengthens the list by one block and the next
           iteration breaks: length + 2 units of fuel are never used up *)
        adl_loop (S (S (length (fst bi)))) client clock clock_end (fst bi) (snd bi) un1)
      end
    end))
  else
    adl_bind (adl_sub32 clock_end clock) (fun d =>
    adl_bind (adl_un_insert un client clock d) (fun un' => adl_ok (bl, un'))).

(* BlockStore.clients: get / the list written back *)
Fixpoint adl_get (st : adl_store) (c : N) : option adl_blist :=
  match st with
  | [] => None
  | (c', bl) :: r => if c' =? c then Some bl else adl_get r c
  end.
Fixpoint adl_set (st : adl_store) (c : N) (bl : adl_blist) : adl_store :=
  match st with
  | [] => []
  | (c', bl') :: r => if c' =? c then (c', bl) :: r else (c', bl') :: adl_set r c bl
  end.

(* the body of `for (client, ranges) in ds.iter()` *)
Definition adl_client (acc : adl_store * idset) (cr : N * idrange) : adl_res (adl_store * idset) :=
  let st := fst acc in
  let un := snd acc in
  let client := fst cr in
  match adl_get st client with
  | Some bl =>
    adl_bind (adl_list_clock bl) (fun state =>
    adl_bind (adl_fold (adl_range client state) (snd cr) (bl, un)) (fun bu =>
    adl_ok (adl_set st client (fst bu), snd bu)))
  | None =>
    (* the client is not in the block store: everything is unapplied *)
    adl_bind (adl_fold (fun un r =>
                adl_bind (adl_sub32 (e_end r) (e_start r)) (fun d => adl_un_insert un client (e_start r) d))
              (snd cr) un) (fun un' =>
    adl_ok (st, un'))
  end.

(* apply_delete: the new store and the unapplied rest ([] = None) *)
Definition adl_apply_delete_chk (st : adl_store) (ds : idset) : adl_res (adl_store * idset) :=
  adl_fold adl_client ds (st, []).

Definition adl_apply_delete (st : adl_store) (ds : idset) : adl_store * idset :=
  match adl_apply_delete_chk st ds with
  | adl_ok r => r
  | adl_panic => (st, ds)
  end.

(* ---------- views and predicates used by the statements ---------- *)
(* a block list as units: one (clock, kind) per clock tick *)
Definition adl_block_units (b : adl_block) : list (N * adl_kind) :=
  map (fun i => (adl_bclock b + N.of_nat i, adl_bkind b)) (seq 0 (N.to_nat (adl_blen b))).
Definition adl_units (bl : adl_blist) : list (N * adl_kind) := flat_map adl_block_units bl.
Definition adl_store_units (st : adl_store) : list (N * list (N * adl_kind)) :=
  map (fun cb => (fst cb, adl_units (snd cb))) st.

Fixpoint adl_ulookup (us : list (N * adl_kind)) (k : N) : option adl_kind :=
  match us with
  | [] => None
  | (k', kd) :: r => if k' =? k then Some kd else adl_ulookup r k
  end.
(* the kind of the unit (c, k): None = the store has no block that covers it *)
Definition adl_kind_at (st : adl_store) (c k : N) : option adl_kind :=
  match adl_get st c with Some bl => adl_ulookup (adl_units bl) k | None => None end.

(* membership of an id in a delete set *)
Definition adl_range_mem (r : idrange) (k : N) : bool :=
  existsb (fun e => (e_start e <=? k) && (k <? e_end e)) r.
Definition adl_mem (ds : idset) (c k : N) : bool :=
  existsb (fun cr => (fst cr =? c) && adl_range_mem (snd cr) k) ds.

(* what a deletion does to one unit *)
Definition adl_mark (hit : bool) (kd : adl_kind) : adl_kind :=
  match kd with adl_live => if hit then adl_dead else adl_live | _ => kd end.
Definition adl_mark_units (f : N -> bool) (us : list (N * adl_kind)) : list (N * adl_kind) :=
  map (fun u => (fst u, adl_mark (f (fst u)) (snd u))) us.
Definition adl_mark_store (ds : idset) (sus : list (N * list (N * adl_kind))) : list (N * list (N * adl_kind)) :=
  map (fun cu => (fst cu, adl_mark_units (adl_mem ds (fst cu)) (snd cu))) sus.

(* well-formed block list: contiguous from clock 0 (Skip blocks included), positive lengths, clocks fit u32 *)
Fixpoint adl_contig (a : N) (bl : adl_blist) : bool :=
  match bl with
  | [] => true
  | b :: r => (adl_bclock b =? a) && (0 <? adl_blen b) && adl_contig (a + adl_blen b) r
  end.
Fixpoint adl_end (a : N) (bl : adl_blist) : N :=
  match bl with [] => a | b :: r => adl_end (a + adl_blen b) r end.
Definition adl_wf_blist (bl : adl_blist) : bool := adl_contig 0 bl && (adl_end 0 bl <=? adl_u32_max).
Fixpoint adl_nodup (l : list N) : bool :=
  match l with [] => true | x :: r => negb (existsb (N.eqb x) r) && adl_nodup r end.
Definition adl_wf_store (st : adl_store) : bool :=
  adl_nodup (map fst st) && forallb (fun cb => adl_wf_blist (snd cb)) st.

(* a delete set as IdSet keeps it and as the decoder produces it: clients ascending, per client sorted
   non-empty ranges that do not touch, ends within u32 *)
Fixpoint adl_asc_above (lo : N) (l : list N) : bool :=
  match l with [] => true | x :: r => (lo <? x) && adl_asc_above x r end.
Definition adl_asc (l : list N) : bool :=
  match l with [] => true | x :: r => adl_asc_above x r end.
Fixpoint adl_canonb (l : idrange) : bool :=
  match l with
  | [] => true
  | x :: r => (e_start x <? e_end x)
              && match r with [] => true | y :: _ => e_end x <? e_start y end
              && adl_canonb r
  end.
Definition adl_ds_ok (ds : idset) : bool :=
  adl_asc (map fst ds)
  && forallb (fun cr => adl_canonb (snd cr) && forallb (fun e => e_end e <=? adl_u32_max) (snd cr)) ds.

(* the id (c, k) lies in a Skip block / is not covered by the store at all *)
Definition adl_in_skip (st : adl_store) (c k : N) : bool :=
  match adl_kind_at st c k with Some adl_skip => true | _ => false end.
Definition adl_unknown (st : adl_store) (c k : N) : bool :=
  match adl_kind_at st c k with None => true | _ => false end.
(* some range of the delete set starts strictly inside a Skip block *)
Definition adl_starts_in_skip (st : adl_store) (ds : idset) : bool :=
  existsb (fun cr =>
    existsb (fun e =>
      match adl_get st (fst cr) with
      | Some bl => existsb (fun b => adl_is_skip b && (adl_bclock b <? e_start e)
                                     && (e_start e <? adl_bclock b + adl_blen b)) bl
      | None => false
      end) (snd cr)) ds.

(* ---------- integration of further blocks, as BlockStore::push places them ----------
   a block (c0, l0, kd) is appended when it starts at the end of the list, or replaces (part of) the Skip block
   that covers it; anything else leaves the list as it is *)
Fixpoint adl_push_blist (bl : adl_blist) (a : N) (nb : adl_block) : adl_blist :=
  match bl with
  | [] => if adl_bclock nb =? a then [nb] else []
  | b :: r =>
    if adl_is_skip b && (adl_bclock b <=? adl_bclock nb)
       && (adl_bclock nb + adl_blen nb <=? adl_bclock b + adl_blen b) then
      (if adl_bclock b <? adl_bclock nb then [(adl_bclock b, adl_bclock nb - adl_bclock b, adl_skip)] else [])
      ++ nb ::
      (if adl_bclock nb + adl_blen nb <? adl_bclock b + adl_blen b
       then [(adl_bclock nb + adl_blen nb, adl_bclock b + adl_blen b - (adl_bclock nb + adl_blen nb), adl_skip)]
       else [])
      ++ r
    else b :: adl_push_blist r (adl_bclock b + adl_blen b) nb
  end.
Definition adl_push (st : adl_store) (c : N) (nb : adl_block) : adl_store :=
  match adl_get st c with
  | Some bl => adl_set st c (adl_push_blist bl 0 nb)
  | None => if adl_bclock nb =? 0 then st ++ [(c, [nb])] else st
  end.
