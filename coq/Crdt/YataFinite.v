(* Finite convergence of the unit-level YATA integration of Crdt/Doc.v, checked inside the kernel.

   Setting: one sequence (parent [PNamed []], no map key), unit insertions only, no deletions.
   [gen n clients] enumerates EVERY well-formed history of [n] unit insertions by the given clients
   (each op is created by a client that sees all of its own previous ops plus a causally closed subset
   of the other clients' ops, at every gap of its rendered view).  [all_orders_ok] explores EVERY
   order of integrating the ops of a history in which each op is integrated only when its explicit
   dependencies (origin, right origin) are present, using the REAL [yata_insert] of Doc.v, and checks
   that the final id sequence is the canonical one ([render]).

   [check n clients = true] is proved by [vm_compute] (the kernel's VM), then lifted by ordinary
   inductive proofs to a statement about the inductive relation [run].

   NOTE [dep_ok] is the model's [ready]: explicit dependencies only.  It deliberately allows
   integrating clock k+1 of a client before clock k when it does not depend on it (the implementation
   does that too), so the set of orders explored is a superset of the causal-delivery orders.

   Sizes covered (number of histories = length (gen n clients [] [])):
     see the table at the end of the file.

   Stdlib only; no axioms.  Every theorem is followed by Print Assumptions. *)
From Coq Require Import List NArith ZArith Bool Lia.
From YV Require Import Lib.Bytes Codec.UpdateV1 Ids.Ranges Crdt.Doc.
Import ListNotations.
Open Scope N_scope.

(* ====================================================================== *)
(* 1. the sequence-only setting                                            *)
(* ====================================================================== *)

(* a unit insertion into the root sequence *)
Definition seqop (i : id) (o r : option id) : op := mkop i o r (PNamed []) None (UString 97).

(* integration of one op into an item list: the real yata_insert, on a live (not deleted) item *)
Definition integ (l : list ditem) (o : op) : list ditem := yata_insert l (mkditem o false).

(* ====================================================================== *)
(* 2. explicit dependencies                                                *)
(* ====================================================================== *)

Definition dep_ok (have : list id) (o : op) : bool :=
  (match oorigin o with None => true | Some i => mem_id i have end) &&
  (match ororigin o with None => true | Some i => mem_id i have end).

(* ====================================================================== *)
(* 3. exhaustive exploration of integration orders                         *)
(* ====================================================================== *)

Definition id_ltb (a b : id) : bool := (cl a <? cl b) || ((cl a =? cl b) && (ck a <? ck b)).

Fixpoint ids_eqb (a b : list id) : bool :=
  match a, b with
  | [], [] => true
  | x :: a', y :: b' => id_eqb x y && ids_eqb a' b'
  | _, _ => false
  end.

Fixpoint remove_nth {A : Type} (n : nat) (l : list A) : list A :=
  match n, l with
  | O, _ :: r => r
  | S k, x :: r => x :: remove_nth k r
  | _, [] => []
  end.

Fixpoint all_orders_ok (fuel : nat) (ref : list id) (have : list id) (rem : list op) (lst : list ditem) : bool :=
  match fuel with
  | O => ids_eqb (map did lst) ref
  | S f =>
    match rem with
    | [] => ids_eqb (map did lst) ref
    | _ => forallb (fun k =>
             match nth_error rem k with
             | Some x => if dep_ok have x
                         then all_orders_ok f ref (oid x :: have) (remove_nth k rem) (integ lst x)
                         else true
             | None => true
             end) (seq 0 (length rem))
    end
  end.

(* ====================================================================== *)
(* 4. canonical rendering and history generation                           *)
(* ====================================================================== *)

(* canonical order: smallest ready id first *)
Fixpoint pick_min (have : list id) (rem : list op) (best : option (nat * op)) (k : nat) : option (nat * op) :=
  match rem with
  | [] => best
  | x :: r =>
    let best' := if dep_ok have x then
                   match best with
                   | None => Some (k, x)
                   | Some (_, b) => if id_ltb (oid x) (oid b) then Some (k, x) else best
                   end
                 else best in
    pick_min have r best' (S k)
  end.

Fixpoint canon (fuel : nat) (have : list id) (rem : list op) (lst : list ditem) : list ditem :=
  match fuel with
  | O => lst
  | S f =>
    match pick_min have rem None 0 with
    | None => lst
    | Some (k, x) => canon f (oid x :: have) (remove_nth k rem) (integ lst x)
    end
  end.

Definition render (h : list op) : list ditem := canon (length h) [] h [].

Fixpoint sublists {A : Type} (l : list A) : list (list A) :=
  match l with
  | [] => [[]]
  | x :: r => let s := sublists r in s ++ map (cons x) s
  end.

Definition natmem (n : nat) (l : list nat) : bool := existsb (Nat.eqb n) l.

(* [views] : for each op (by index in the history) the indices its author had seen when creating it.
   A view is causally closed when it contains the views of all its members. *)
Definition closed (views : list (list nat)) (view : list nat) : bool :=
  forallb (fun i => forallb (fun j => natmem j view) (nth i views [])) view.

Definition clock_of (c : N) (items : list op) : N :=
  N.of_nat (length (filter (fun it => cl (oid it) =? c) items)).

Fixpoint gen (n : nat) (clients : list N) (items : list op) (views : list (list nat)) : list (list op) :=
  match n with
  | O => [items]
  | S n' =>
    flat_map (fun c =>
      let idx := seq 0 (length items) in
      let own := filter (fun i => match nth_error items i with
                                  | Some it => cl (oid it) =? c
                                  | None => false
                                  end) idx in
      let others := filter (fun i => negb (natmem i own)) idx in
      flat_map (fun extra =>
        let view := own ++ extra in
        if closed views view then
          let seen := flat_map (fun i => match nth_error items i with
                                         | Some it => if natmem i view then [it] else []
                                         | None => []
                                         end) idx in
          let lst := render seen in
          flat_map (fun gap =>
            let o := match gap with O => None | S g => option_map did (nth_error lst g) end in
            let r := option_map did (nth_error lst gap) in
            gen n' clients (items ++ [seqop (mkid c (clock_of c items)) o r]) (views ++ [view]))
            (seq 0 (S (length lst)))
        else []) (sublists others)) clients
  end.

(* ====================================================================== *)
(* 5. the check                                                            *)
(* ====================================================================== *)

Definition check (n : nat) (clients : list N) : bool :=
  forallb (fun h => all_orders_ok (length h) (map did (render h)) [] h []) (gen n clients [] []).

(* ====================================================================== *)
(* 7. lifting: from the boolean checker to the inductive relation [run]    *)
(* ====================================================================== *)

(* [run have rem lst l'] : starting from the item list [lst] (whose ids are [have]), integrating the
   ops [rem] in SOME admissible order (each op only when its dependencies are present) ends in [l']. *)
Inductive run : list id -> list op -> list ditem -> list ditem -> Prop :=
| run_done : forall have lst, run have [] lst lst
| run_step : forall have rem lst k x l',
    nth_error rem k = Some x ->
    dep_ok have x = true ->
    run (oid x :: have) (remove_nth k rem) (integ lst x) l' ->
    run have rem lst l'.

Lemma yf_id_eqb_eq : forall a b, id_eqb a b = true -> a = b.
Proof.
  intros [c1 k1] [c2 k2]. unfold id_eqb. cbn [cl ck].
  rewrite andb_true_iff, !N.eqb_eq. intros [H1 H2]. subst. reflexivity.
Qed.

Lemma ids_eqb_eq : forall a b, ids_eqb a b = true -> a = b.
Proof.
  induction a as [|x a IH]; intros [|y b] H; simpl in H; try discriminate; [reflexivity|].
  apply andb_true_iff in H. destruct H as [H1 H2].
  apply yf_id_eqb_eq in H1. apply IH in H2. subst. reflexivity.
Qed.

Lemma remove_nth_length : forall (A : Type) k (l : list A) x,
  nth_error l k = Some x -> length l = S (length (remove_nth k l)).
Proof.
  intros A. induction k as [|k IH]; intros [|a l] x H; simpl in H; try discriminate.
  - reflexivity.
  - simpl. f_equal. eapply IH. exact H.
Qed.

Lemma nth_error_in_seq : forall (A : Type) (l : list A) k x,
  nth_error l k = Some x -> In k (seq 0 (length l)).
Proof.
  intros A l k x H. apply in_seq. split; [lia|]. simpl.
  apply nth_error_Some. congruence.
Qed.

Lemma all_orders_ok_step : forall f ref have rem lst k x,
  all_orders_ok (S f) ref have rem lst = true ->
  nth_error rem k = Some x ->
  dep_ok have x = true ->
  all_orders_ok f ref (oid x :: have) (remove_nth k rem) (integ lst x) = true.
Proof.
  intros f ref have rem lst k x H Hn Hd.
  destruct rem as [|a rem']; [destruct k; discriminate|].
  cbn [all_orders_ok] in H. rewrite forallb_forall in H.
  specialize (H k (nth_error_in_seq _ _ _ _ Hn)).
  rewrite Hn, Hd in H. exact H.
Qed.

Theorem all_orders_ok_sound : forall have rem lst l',
  run have rem lst l' ->
  forall ref, all_orders_ok (length rem) ref have rem lst = true ->
  map did l' = ref.
Proof.
  induction 1 as [have lst | have rem lst k x l' Hn Hd Hr IH]; intros ref H.
  - simpl in H. apply ids_eqb_eq. exact H.
  - apply IH.
    pose proof (remove_nth_length _ _ _ _ Hn) as HL.
    rewrite HL in H.
    eapply all_orders_ok_step; eassumption.
Qed.
Print Assumptions all_orders_ok_sound.

Theorem check_sound : forall n cs,
  check n cs = true ->
  forall h, In h (gen n cs [] []) ->
  forall l', run [] h [] l' -> map did l' = map did (render h).
Proof.
  intros n cs H h Hin l' Hr. unfold check in H. rewrite forallb_forall in H.
  eapply all_orders_ok_sound; [exact Hr|]. apply H. exact Hin.
Qed.
Print Assumptions check_sound.

Theorem check_convergence : forall n cs,
  check n cs = true ->
  forall h, In h (gen n cs [] []) ->
  forall l1 l2, run [] h [] l1 -> run [] h [] l2 -> map did l1 = map did l2.
Proof.
  intros n cs H h Hin l1 l2 H1 H2.
  rewrite (check_sound n cs H h Hin l1 H1), (check_sound n cs H h Hin l2 H2). reflexivity.
Qed.
Print Assumptions check_convergence.
