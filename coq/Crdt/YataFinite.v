(* Finite convergence of the unit-level YATA integration of Crdt/Doc.v, checked inside the kernel.

   Setting: one sequence (parent [PNamed []], no map key), unit insertions only, no deletions.
   [gen n clients] enumerates EVERY well-formed history of [n] unit insertions by the given clients
   (each op is created by a client that sees all of its own previous ops plus a causally closed subset
   of the other clients' ops, at every gap of its rendered view).  [all_orders_ok] explores EVERY
   order of integrating the ops of a history in which each op is integrated only when its explicit
   dependencies (origin, right origin) are present, using the REAL [yata_insert] of Doc.v, and checks
   that the final id sequence is the canonical one ([render]).

   [check n clients = true] is proved by [vm_compute] (the kernel's VM), then lifted by ordinary
   inductive proofs to a statement about the inductive relation [run].

   NOTE [dep_ok] is the model's [ready]: explicit dependencies only.  It deliberately allows
   integrating clock k+1 of a client before clock k when it does not depend on it (the implementation
   does that too), so the set of orders explored is a superset of the causal-delivery orders.

   Sizes covered (number of histories = length (gen n clients [] [])):
     see the table at the end of the file.

   Stdlib only; no axioms.  Every theorem is followed by Print Assumptions. *)
From Coq Require Import List NArith ZArith Bool Lia.
From YV Require Import Lib.Bytes Codec.UpdateV1 Ids.Ranges Crdt.Doc.
Import ListNotations.
Open Scope N_scope.

(* ====================================================================== *)
(* 1. the sequence-only setting                                            *)
(* ====================================================================== *)

(* a unit insertion into the root sequence *)
Definition seqop (i : id) (o r : option id) : op := mkop i o r (PNamed []) None (UString 97).

(* integration of one op into an item list: the real yata_insert, on a live (not deleted) item *)
Definition integ (l : list ditem) (o : op) : list ditem := yata_insert l (mkditem o false).

(* ====================================================================== *)
(* 2. explicit dependencies                                                *)
(* ====================================================================== *)

Definition dep_ok (have : list id) (o : op) : bool :=
  (match oorigin o with None => true | Some i => mem_id i have end) &&
  (match ororigin o with None => true | Some i => mem_id i have end).

(* ====================================================================== *)
(* 3. exhaustive exploration of integration orders                         *)
(* ====================================================================== *)

Definition id_ltb (a b : id) : bool := (cl a <? cl b) || ((cl a =? cl b) && (ck a <? ck b)).

Fixpoint ids_eqb (a b : list id) : bool :=
  match a, b with
  | [], [] => true
  | x :: a', y :: b' => id_eqb x y && ids_eqb a' b'
  | _, _ => false
  end.

Fixpoint remove_nth {A : Type} (n : nat) (l : list A) : list A :=
  match n, l with
  | O, _ :: r => r
  | S k, x :: r => x :: remove_nth k r
  | _, [] => []
  end.

Fixpoint all_orders_ok (fuel : nat) (ref : list id) (have : list id) (rem : list op) (lst : list ditem) : bool :=
  match fuel with
  | O => ids_eqb (map did lst) ref
  | S f =>
    match rem with
    | [] => ids_eqb (map did lst) ref
    | _ => forallb (fun k =>
             match nth_error rem k with
             | Some x => if dep_ok have x
                         then all_orders_ok f ref (oid x :: have) (remove_nth k rem) (integ lst x)
                         else true
             | None => true
             end) (seq 0 (length rem))
    end
  end.

(* ====================================================================== *)
(* 4. canonical rendering and history generation                           *)
(* ====================================================================== *)

(* canonical order: smallest ready id first *)
Fixpoint pick_min (have : list id) (rem : list op) (best : option (nat * op)) (k : nat) : option (nat * op) :=
  match rem with
  | [] => best
  | x :: r =>
    let best' := if dep_ok have x then
                   match best with
                   | None => Some (k, x)
                   | Some (_, b) => if id_ltb (oid x) (oid b) then Some (k, x) else best
                   end
                 else best in
    pick_min have r best' (S k)
  end.

Fixpoint canon (fuel : nat) (have : list id) (rem : list op) (lst : list ditem) : list ditem :=
  match fuel with
  | O => lst
  | S f =>
    match pick_min have rem None 0 with
    | None => lst
    | Some (k, x) => canon f (oid x :: have) (remove_nth k rem) (integ lst x)
    end
  end.

Definition render (h : list op) : list ditem := canon (length h) [] h [].

Fixpoint sublists {A : Type} (l : list A) : list (list A) :=
  match l with
  | [] => [[]]
  | x :: r => let s := sublists r in s ++ map (cons x) s
  end.

Definition natmem (n : nat) (l : list nat) : bool := existsb (Nat.eqb n) l.

(* [views] : for each op (by index in the history) the indices its author had seen when creating it.
   A view is causally closed when it contains the views of all its members. *)
Definition closed (views : list (list nat)) (view : list nat) : bool :=
  forallb (fun i => forallb (fun j => natmem j view) (nth i views [])) view.

Definition clock_of (c : N) (items : list op) : N :=
  N.of_nat (length (filter (fun it => cl (oid it) =? c) items)).

Fixpoint gen (n : nat) (clients : list N) (items : list op) (views : list (list nat)) : list (list op) :=
  match n with
  | O => [items]
  | S n' =>
    flat_map (fun c =>
      let idx := seq 0 (length items) in
      let own := filter (fun i => match nth_error items i with
                                  | Some it => cl (oid it) =? c
                                  | None => false
                                  end) idx in
      let others := filter (fun i => negb (natmem i own)) idx in
      flat_map (fun extra =>
        let view := own ++ extra in
        if closed views view then
          let seen := flat_map (fun i => match nth_error items i with
                                         | Some it => if natmem i view then [it] else []
                                         | None => []
                                         end) idx in
          let lst := render seen in
          flat_map (fun gap =>
            let o := match gap with O => None | S g => option_map did (nth_error lst g) end in
            let r := option_map did (nth_error lst gap) in
            gen n' clients (items ++ [seqop (mkid c (clock_of c items)) o r]) (views ++ [view]))
            (seq 0 (S (length lst)))
        else []) (sublists others)) clients
  end.

(* ====================================================================== *)
(* 5. the check                                                            *)
(* ====================================================================== *)

Definition check (n : nat) (clients : list N) : bool :=
  forallb (fun h => all_orders_ok (length h) (map did (render h)) [] h []) (gen n clients [] []).

(* ====================================================================== *)
(* 7. lifting: from the boolean checker to the inductive relation [run]    *)
(* ====================================================================== *)

(* [run have rem lst l'] : starting from the item list [lst] (whose ids are [have]), integrating the
   ops [rem] in SOME admissible order (each op only when its dependencies are present) ends in [l']. *)
Inductive run : list id -> list op -> list ditem -> list ditem -> Prop :=
| run_done : forall have lst, run have [] lst lst
| run_step : forall have rem lst k x l',
    nth_error rem k = Some x ->
    dep_ok have x = true ->
    run (oid x :: have) (remove_nth k rem) (integ lst x) l' ->
    run have rem lst l'.

Lemma yf_id_eqb_eq : forall a b, id_eqb a b = true -> a = b.
Proof.
  intros [c1 k1] [c2 k2]. unfold id_eqb. cbn [cl ck].
  rewrite andb_true_iff, !N.eqb_eq. intros [H1 H2]. subst. reflexivity.
Qed.

Lemma ids_eqb_eq : forall a b, ids_eqb a b = true -> a = b.
Proof.
  induction a as [|x a IH]; intros [|y b] H; simpl in H; try discriminate; [reflexivity|].
  apply andb_true_iff in H. destruct H as [H1 H2].
  apply yf_id_eqb_eq in H1. apply IH in H2. subst. reflexivity.
Qed.

Lemma remove_nth_length : forall (A : Type) k (l : list A) x,
  nth_error l k = Some x -> length l = S (length (remove_nth k l)).
Proof.
  intros A. induction k as [|k IH]; intros [|a l] x H; simpl in H; try discriminate.
  - reflexivity.
  - simpl. f_equal. eapply IH. exact H.
Qed.

Lemma nth_error_in_seq : forall (A : Type) (l : list A) k x,
  nth_error l k = Some x -> In k (seq 0 (length l)).
Proof.
  intros A l k x H. apply in_seq. split; [lia|]. simpl.
  apply nth_error_Some. congruence.
Qed.

Lemma all_orders_ok_step : forall f ref have rem lst k x,
  all_orders_ok (S f) ref have rem lst = true ->
  nth_error rem k = Some x ->
  dep_ok have x = true ->
  all_orders_ok f ref (oid x :: have) (remove_nth k rem) (integ lst x) = true.
Proof.
  intros f ref have rem lst k x H Hn Hd.
  destruct rem as [|a rem']; [destruct k; discriminate|].
  cbn [all_orders_ok] in H. rewrite forallb_forall in H.
  specialize (H k (nth_error_in_seq _ _ _ _ Hn)).
  rewrite Hn, Hd in H. exact H.
Qed.

Theorem all_orders_ok_sound : forall have rem lst l',
  run have rem lst l' ->
  forall ref, all_orders_ok (length rem) ref have rem lst = true ->
  map did l' = ref.
Proof.
  induction 1 as [have lst | have rem lst k x l' Hn Hd Hr IH]; intros ref H.
  - simpl in H. apply ids_eqb_eq. exact H.
  - apply IH.
    pose proof (remove_nth_length _ _ _ _ Hn) as HL.
    rewrite HL in H.
    eapply all_orders_ok_step; eassumption.
Qed.
Print Assumptions all_orders_ok_sound.

Theorem check_sound : forall n cs,
  check n cs = true ->
  forall h, In h (gen n cs [] []) ->
  forall l', run [] h [] l' -> map did l' = map did (render h).
Proof.
  intros n cs H h Hin l' Hr. unfold check in H. rewrite forallb_forall in H.
  eapply all_orders_ok_sound; [exact Hr|]. apply H. exact Hin.
Qed.
Print Assumptions check_sound.

Theorem check_convergence : forall n cs,
  check n cs = true ->
  forall h, In h (gen n cs [] []) ->
  forall l1 l2, run [] h [] l1 -> run [] h [] l2 -> map did l1 = map did l2.
Proof.
  intros n cs H h Hin l1 l2 H1 H2.
  rewrite (check_sound n cs H h Hin l1 H1), (check_sound n cs H h Hin l2 H2). reflexivity.
Qed.
Print Assumptions check_convergence.

(* ====================================================================== *)
(* non-vacuity                                                             *)
(* ====================================================================== *)

Example gen_nonempty : (length (gen 3 [1%N;2%N] [] []) > 0)%nat.
Proof. vm_compute. lia. Qed.

Example gen_3x2_count : length (gen 3 [1;2] [] []) = 88%nat.
Proof. vm_compute. reflexivity. Qed.

(* number of complete admissible integration orders of a history (what all_orders_ok walks through) *)
Fixpoint count_orders (fuel : nat) (have : list id) (rem : list op) : N :=
  match fuel with
  | O => 1
  | S f =>
    match rem with
    | [] => 1
    | _ => fold_left (fun a k =>
             match nth_error rem k with
             | Some x => if dep_ok have x then a + count_orders f (oid x :: have) (remove_nth k rem) else a
             | None => a
             end) (seq 0 (length rem)) 0
    end
  end.
Definition total_orders (n : nat) (clients : list N) : N :=
  fold_left (fun a h => a + count_orders (length h) [] h) (gen n clients [] []) 0.

Example total_orders_3x2 : total_orders 3 [1;2] = 164.
Proof. vm_compute. reflexivity. Qed.

(* a concrete generated history with genuinely concurrent inserts: client 1 types (1,0);
   then client 1 appends (1,1) after it while client 2, having seen only (1,0), also appends (2,0)
   after it.  (1,1) and (2,0) have the same origin (1,0), the same (absent) right origin, and
   neither depends on the other. *)
Definition h_conc : list op :=
  [ seqop (mkid 1 0) None None;
    seqop (mkid 1 1) (Some (mkid 1 0)) None;
    seqop (mkid 2 0) (Some (mkid 1 0)) None ].

Example h_conc_generated : In h_conc (gen 3 [1;2] [] []).
Proof. apply (nth_error_In _ 14%nat). vm_compute. reflexivity. Qed.

Example h_conc_concurrent :
  exists a b, In a h_conc /\ In b h_conc /\
              cl (oid a) <> cl (oid b) /\
              oorigin a = oorigin b /\ oorigin a = Some (mkid 1 0) /\
              dep_ok [mkid 1 0] a = true /\ dep_ok [mkid 1 0] b = true.
Proof.
  exists (seqop (mkid 1 1) (Some (mkid 1 0)) None), (seqop (mkid 2 0) (Some (mkid 1 0)) None).
  repeat split; try reflexivity; simpl; auto. discriminate.
Qed.

(* two different admissible orders of h_conc, both runs *)
Example h_conc_run_123 :
  run [] h_conc []
      (integ (integ (integ [] (seqop (mkid 1 0) None None))
                    (seqop (mkid 1 1) (Some (mkid 1 0)) None))
             (seqop (mkid 2 0) (Some (mkid 1 0)) None)).
Proof.
  eapply (run_step _ _ _ 0%nat); [reflexivity|reflexivity|].
  eapply (run_step _ _ _ 0%nat); [reflexivity|reflexivity|].
  eapply (run_step _ _ _ 0%nat); [reflexivity|reflexivity|].
  apply run_done.
Qed.

Example h_conc_run_132 :
  run [] h_conc []
      (integ (integ (integ [] (seqop (mkid 1 0) None None))
                    (seqop (mkid 2 0) (Some (mkid 1 0)) None))
             (seqop (mkid 1 1) (Some (mkid 1 0)) None)).
Proof.
  eapply (run_step _ _ _ 0%nat); [reflexivity|reflexivity|].
  eapply (run_step _ _ _ 1%nat); [reflexivity|reflexivity|].
  eapply (run_step _ _ _ 0%nat); [reflexivity|reflexivity|].
  apply run_done.
Qed.

Example h_conc_result :
  map did (render h_conc) = [mkid 1 0; mkid 1 1; mkid 2 0].
Proof. vm_compute. reflexivity. Qed.

(* an op whose origin is missing cannot be integrated first: run really is dependency-constrained *)
Example h_conc_not_ready : dep_ok [] (seqop (mkid 2 0) (Some (mkid 1 0)) None) = false.
Proof. reflexivity. Qed.

(* ====================================================================== *)
(* 6. the finite theorems (kernel VM) and their corollaries                *)
(* ====================================================================== *)

Theorem yata_finite_4x3 : check 4 [1;2;3] = true.
Proof. vm_cast_no_check (eq_refl true). Time Qed.
Print Assumptions yata_finite_4x3.

Theorem yata_convergence_4x3 : forall h, In h (gen 4 [1;2;3] [] []) ->
  forall l1 l2, run [] h [] l1 -> run [] h [] l2 -> map did l1 = map did l2.
Proof. exact (check_convergence 4 [1;2;3] yata_finite_4x3). Qed.
Print Assumptions yata_convergence_4x3.

(* extra: four pairwise concurrent clients *)
Theorem yata_finite_4x4 : check 4 [1;2;3;4] = true.
Proof. vm_cast_no_check (eq_refl true). Time Qed.
Print Assumptions yata_finite_4x4.

Theorem yata_convergence_4x4 : forall h, In h (gen 4 [1;2;3;4] [] []) ->
  forall l1 l2, run [] h [] l1 -> run [] h [] l2 -> map did l1 = map did l2.
Proof. exact (check_convergence 4 [1;2;3;4] yata_finite_4x4). Qed.
Print Assumptions yata_convergence_4x4.

Theorem yata_finite_5x2 : check 5 [1;2] = true.
Proof. vm_cast_no_check (eq_refl true). Time Qed.
Print Assumptions yata_finite_5x2.

Theorem yata_convergence_5x2 : forall h, In h (gen 5 [1;2] [] []) ->
  forall l1 l2, run [] h [] l1 -> run [] h [] l2 -> map did l1 = map did l2.
Proof. exact (check_convergence 5 [1;2] yata_finite_5x2). Qed.
Print Assumptions yata_convergence_5x2.

(* the h_conc example through the general theorem (h_conc padded is not needed: 3x2 is cheap) *)
Theorem yata_finite_3x2 : check 3 [1;2] = true.
Proof. vm_cast_no_check (eq_refl true). Time Qed.
Print Assumptions yata_finite_3x2.

Example h_conc_converges : forall l1 l2,
  run [] h_conc [] l1 -> run [] h_conc [] l2 -> map did l1 = map did l2.
Proof. exact (check_convergence 3 [1;2] yata_finite_3x2 h_conc h_conc_generated). Qed.

(* ---------- the two expensive ones, last ---------- *)

Theorem yata_finite_5x3 : check 5 [1;2;3] = true.
Proof. vm_cast_no_check (eq_refl true). Time Qed.
Print Assumptions yata_finite_5x3.

Theorem yata_convergence_5x3 : forall h, In h (gen 5 [1;2;3] [] []) ->
  forall l1 l2, run [] h [] l1 -> run [] h [] l2 -> map did l1 = map did l2.
Proof. exact (check_convergence 5 [1;2;3] yata_finite_5x3). Qed.
Print Assumptions yata_convergence_5x3.

Theorem yata_finite_6x2 : check 6 [1;2] = true.
Proof. vm_cast_no_check (eq_refl true). Time Qed.
Print Assumptions yata_finite_6x2.

Theorem yata_convergence_6x2 : forall h, In h (gen 6 [1;2] [] []) ->
  forall l1 l2, run [] h [] l1 -> run [] h [] l2 -> map did l1 = map did l2.
Proof. exact (check_convergence 6 [1;2] yata_finite_6x2). Qed.
Print Assumptions yata_convergence_6x2.

(* Coverage (measured with vm_compute, Coq 8.16.1):
     size   histories = |gen n cs [] []|   admissible orders explored   check time (Qed)
     3x2            88                              164                    < 0.01 s
     4x3         9 048                           38 451                    ~ 0.5 s
     4x4        35 520                                -                    ~ 2 s
     5x2        20 884                          168 192                    ~ 2.5 s
     5x3       328 296                        3 429 264                    ~ 48 s
     6x2       483 820                       10 214 676                    ~ 160 s
   (Eval vm_compute in length (gen 5 [1;2;3] [] []) overflows the stack when the nat result is read
    back; the counts above were computed as N with fold_left (fun a _ => a + 1).) *)
