(* Concrete cases (vm_compute) for YataBlocks.v / YataBlocksProofs.v: non-vacuity of the hypotheses, the shapes
   asked for, the witnesses of the _refuted statements. *)
From Coq Require Import List NArith ZArith Bool.
From YV Require Import Codec.UpdateV1 Crdt.Doc Crdt.Blocks.
From YV.Crdt Require Import YataBlocks YataBlocksProofs.
Import ListNotations.
Open Scope N_scope.

Definition yibc_p : parent := PNamed [116].
(* a text block "a..." of n ASCII letters *)
Definition yibc_str (c k : N) (o ro : option id) (s : list N) : yib_blk :=
  yib_mk (BItem (mkid c k) o ro yibc_p None (BString s)) false.
Definition yibc_ent (c k : N) (o ro : option id) (v : list (list N)) : yib_blk :=
  yib_mk (BItem (mkid c k) o ro yibc_p (Some [107]) (BJson v)) false.
Definition yibc_ids (s : yib_seq) : list (N * N * bool) :=
  map (fun u => (cl (did u), ck (did u), d_del u)) (yib_expand s).
Definition yibc_blocks (s : yib_seq) : list (N * N * N) := map (fun b => (cl (yib_id b), ck (yib_id b), yib_len b)) s.
Definition yibc_unit_ids (l : list ditem) : list (N * N * bool) := map (fun u => (cl (did u), ck (did u), d_del u)) l.

(* ---- 1. non-vacuity of yib_integrate_refines_units; origin in the MIDDLE of a block, right origin = the next
        unit of the same block ---- *)
Definition yibc_abc : yib_seq := [yibc_str 1 0 None None [97; 98; 99]].
Definition yibc_x_mid : yib_blk := yibc_str 2 0 (Some (mkid 1 1)) (Some (mkid 1 2)) [88; 89].
Example yibc_mid_hyps : yib_seq_ok yibc_abc = true /\ yib_fresh yibc_abc yibc_x_mid = true /\ yib_psub yibc_x_mid = None.
Proof. vm_compute. repeat split. Qed.
Example yibc_mid_result :
  match yib_integrate yibc_abc yibc_x_mid with
  | yib_ok s' => yibc_blocks s' = [(1, 0, 2); (2, 0, 2); (1, 2, 1)] /\
                 yibc_ids s' = yibc_unit_ids (fold_left yata_insert (yib_ditems yibc_x_mid) (yib_expand yibc_abc))
  | yib_fail _ => False
  end.
Proof. vm_compute. split; reflexivity. Qed.

(* ---- 2. a concurrent block of ANOTHER client with the same origin lies to the right and is LONGER than one
        unit: the loop steps over the whole block (client 1 < client 2), the unit scan over its three units ---- *)
Definition yibc_conc : yib_seq := [yibc_str 5 0 None None [97]; yibc_str 1 0 (Some (mkid 5 0)) None [112; 113; 114]].
Definition yibc_x_conc : yib_blk := yibc_str 2 0 (Some (mkid 5 0)) None [88; 89].
Example yibc_conc_hyps : yib_seq_ok yibc_conc = true /\ yib_fresh yibc_conc yibc_x_conc = true.
Proof. vm_compute. split; reflexivity. Qed.
Example yibc_conc_loop :
  yib_resolve_conflict yibc_x_conc None yibc_conc (skipn 1 yibc_conc) = 1%nat /\
  yata_scan (mkop (mkid 2 0) (Some (mkid 5 0)) None yibc_p None (UString 88)) (yib_expand (skipn 1 yibc_conc)) 0 0 [] [] = 3%nat.
Proof. vm_compute. split; reflexivity. Qed.
Example yibc_conc_result :
  match yib_integrate yibc_conc yibc_x_conc with
  | yib_ok s' => yibc_blocks s' = [(5, 0, 1); (1, 0, 3); (2, 0, 2)] /\
                 yibc_ids s' = yibc_unit_ids (fold_left yata_insert (yib_ditems yibc_x_conc) (yib_expand yibc_conc))
  | yib_fail _ => False
  end.
Proof. vm_compute. split; reflexivity. Qed.
(* and the other way round: the LONGER block arrives second and has the greater client id: it stays left *)
Definition yibc_conc2 : yib_seq := [yibc_str 5 0 None None [97]; yibc_str 2 0 (Some (mkid 5 0)) None [88; 89]].
Example yibc_conc2_result :
  match yib_integrate yibc_conc2 (yibc_str 1 0 (Some (mkid 5 0)) None [112; 113; 114]) with
  | yib_ok s' => yibc_blocks s' = [(5, 0, 1); (1, 0, 3); (2, 0, 2)]
  | yib_fail _ => False
  end.
Proof. vm_compute. reflexivity. Qed.

(* ---- 3. the two sets: case 2 of the loop (an item whose origin is a conflicting item) ---- *)
Definition yibc_sets : yib_seq :=
  [yibc_str 5 0 None None [97]; yibc_str 3 0 (Some (mkid 5 0)) None [112; 113];
   yibc_str 1 0 (Some (mkid 3 1)) None [114]].
Example yibc_sets_result :
  match yib_integrate yibc_sets (yibc_str 2 0 (Some (mkid 5 0)) None [88]) with
  | yib_ok s' => yibc_blocks s' = [(5, 0, 1); (2, 0, 1); (3, 0, 2); (1, 0, 1)] /\
       yibc_ids s' = yibc_unit_ids (fold_left yata_insert (yib_ditems (yibc_str 2 0 (Some (mkid 5 0)) None [88])) (yib_expand yibc_sets))
  | yib_fail _ => False
  end.
Proof. vm_compute. split; reflexivity. Qed.

(* ---- 4. the hypothesis "the right origin is not at or to the left of the origin" (last clause of yib_fresh)
        is needed: with right origin = origin, inside a block, the left pointer taken by get_item_clean_end is
        cut short by the split get_item_clean_start performs (the pointer keeps the id of the block, the block
        no longer ends at the origin).  The position then depends on the blocking.
        REPLAYED against the Rust code (yib_hostile_ro.rs: two replicas, same updates, different order of delivery
        end with "aZXbc" and "aZbcX" and equal state vectors).
        Full statement refuted: forall s b, yib_seq_ok s = true -> (yib_fresh without its last clause) ->
          yib_expand (yib_get s (yib_integrate s b)) = fold_left yata_insert (yib_ditems b) (yib_expand s). ---- *)
Definition yibc_x_hostile : yib_blk := yibc_str 2 0 (Some (mkid 1 1)) (Some (mkid 1 1)) [88].
Definition yibc_abc_cut : yib_seq :=
  [yibc_str 1 0 None None [97]; yibc_str 1 1 (Some (mkid 1 0)) None [98]; yibc_str 1 2 (Some (mkid 1 1)) None [99]].
Example yib_ro_at_origin_refuted :
  exists s1 s2 b, yib_seq_ok s1 = true /\ yib_seq_ok s2 = true /\ yib_expand s1 = yib_expand s2 /\
    yib_fresh s1 b = false /\
    yibc_ids (yib_get s1 (yib_integrate s1 b)) = [(1, 0, false); (2, 0, false); (1, 1, false); (1, 2, false)] /\
    yibc_ids (yib_get s2 (yib_integrate s2 b)) = [(1, 0, false); (1, 1, false); (1, 2, false); (2, 0, false)] /\
    yibc_unit_ids (fold_left yata_insert (yib_ditems b) (yib_expand s1)) =
      [(1, 0, false); (1, 1, false); (1, 2, false); (2, 0, false)].
Proof. exists yibc_abc, yibc_abc_cut, yibc_x_hostile. vm_compute. repeat split. Qed.

(* ---- 5. map entries ---- *)
(* the unit-level keyed list of Doc.integrate_op for osub = Some k (yata_insert, then the right-most entry wins) *)
Definition yibc_umap_step (l : list ditem) (x : ditem) : list ditem :=
  let l' := yata_insert l x in
  match split_after (did x) l' with
  | Some (upto, []) => match rev upto with _ :: lft :: _ => mark_deleted (did lft) l' | _ => l' end
  | _ => mark_deleted (did x) l'
  end.
(* two concurrent writers of one key, different clients, both with origin None: the greater client is right-most
   (map[key]) whatever the order of arrival; the other entry is deleted *)
Example yibc_map_concurrent :
  yibc_ids (yib_get [] (yib_integrate [yibc_ent 1 0 None None [[1]]] (yibc_ent 2 0 None None [[2]]))) =
    [(1, 0, true); (2, 0, false)] /\
  yibc_ids (yib_get [] (yib_integrate [yibc_ent 2 0 None None [[2]]] (yibc_ent 1 0 None None [[1]]))) =
    [(1, 0, true); (2, 0, false)] /\
  yibc_unit_ids (fold_left yibc_umap_step (yib_ditems (yibc_ent 1 0 None None [[1]])) (yib_expand [yibc_ent 2 0 None None [[2]]])) =
    [(1, 0, true); (2, 0, false)].
Proof. vm_compute. repeat split. Qed.
(* an overwrite (origin = the previous entry): the previous entry is deleted, the new one is map[key] *)
Example yibc_map_overwrite :
  yibc_ids (yib_get [] (yib_integrate [yibc_ent 1 0 None None [[1]]] (yibc_ent 2 0 (Some (mkid 1 0)) None [[2]]))) =
    [(1, 0, true); (2, 0, false)].
Proof. vm_compute. reflexivity. Qed.
(* an entry that arrives with a right origin (an older writer: it was written to the left of an entry the
   receiver already has) is deleted on arrival, map[key] is unchanged *)
Example yibc_map_older_writer :
  let s := [yibc_ent 1 0 None None [[1]]; yibc_ent 2 0 (Some (mkid 1 0)) None [[2]]] in
  let b := yibc_ent 3 0 (Some (mkid 1 0)) (Some (mkid 2 0)) [[3]] in
  yibc_ids (yib_get [] (yib_integrate (map (fun x => x) [yib_set_del (nth 0 s b) true; nth 1 s b]) b)) =
    [(1, 0, true); (3, 0, true); (2, 0, false)] /\
  yibc_unit_ids (fold_left yibc_umap_step (yib_ditems b) (yib_expand [yib_set_del (nth 0 s b) true; nth 1 s b])) =
    [(1, 0, true); (3, 0, true); (2, 0, false)].
Proof. vm_compute. split; reflexivity. Qed.
(* a map entry of MORE than one unit (no API call produces one; a decoded update can carry one): the block
   level keeps the whole block alive, the unit-level keyed list deletes all its units but the last.
   Full statement refuted: forall chain b, yib_psub b = Some k ->
     yib_expand (yib_get chain (yib_integrate chain b)) = fold_left yibc_umap_step (yib_ditems b) (yib_expand chain);
   it holds (bounded sweep, all chains of <= 4 one-unit entries of 3 clients: 15096 cases) when every entry has
   length 1. *)
Example yib_map_entry_multi_unit_refuted :
  exists chain b, yib_psub b = Some [107] /\
    yibc_ids (yib_get chain (yib_integrate chain b)) = [(1, 0, true); (1, 1, false); (1, 2, false)] /\
    yibc_unit_ids (fold_left yibc_umap_step (yib_ditems b) (yib_expand chain)) = [(1, 0, true); (1, 1, true); (1, 2, false)].
Proof.
  exists [yibc_ent 1 0 None None [[1]]], (yibc_ent 1 1 (Some (mkid 1 0)) None [[2]; [3]]). vm_compute. repeat split.
Qed.

(* ---- 6. the offset prologue ---- *)
Definition yibc_b4 : yib_blk := yibc_str 2 0 (Some (mkid 1 0)) (Some (mkid 1 1)) [119; 120; 121; 122].
Example yibc_offset :
  match blk_split (yib_b yibc_b4) 2 with
  | Some (b1, b2) =>
    match yib_integrate yibc_abc (yib_mk b1 false) with
    | yib_ok s1 =>
        yib_integrate_off s1 yibc_b4 2 false = yib_integrate s1 (yib_mk b2 false) /\
        yibc_ids (yib_get [] (yib_integrate_off s1 yibc_b4 2 false)) =
          [(1, 0, false); (2, 0, false); (2, 1, false); (2, 2, false); (2, 3, false); (1, 1, false); (1, 2, false)]
    | yib_fail _ => False
    end
  | None => False
  end.
Proof. vm_compute. split; reflexivity. Qed.
(* when the unit before the cut is NOT an item of the sequence (e.g. it was collected: a GC block), Item::trim
   sets origin := None (`self.left.map(last_id)`), while the second half of the split block keeps
   origin = Some(previous unit): the stored origins differ, and so can the position *)
Example yib_offset_prologue_absent_refuted :
  exists s b k b1 b2, blk_split (yib_b b) k = Some (b1, b2) /\
    map yib_origin (yib_get [] (yib_integrate_off s b k false)) = [None; None] /\
    map yib_origin (yib_get [] (yib_integrate s (yib_mk b2 false))) = [Some (mkid 2 1); None] /\
    yibc_blocks (yib_get [] (yib_integrate_off s b k false)) = [(1, 0, 1); (2, 2, 2)] /\
    yibc_blocks (yib_get [] (yib_integrate s (yib_mk b2 false))) = [(2, 2, 2); (1, 0, 1)].
Proof.
  exists [yibc_str 1 0 None None [97]], (yibc_str 2 0 None None [119; 120; 121; 122]), 2.
  vm_compute. eexists _, _. repeat split.
Qed.

(* ---- 7. failure values are reachable only through a content that refuses the cut ---- *)
Example yibc_fail_unsplittable :
  yib_integrate [yib_mk (BItem (mkid 1 0) None None yibc_p None (BString [240; 159; 152; 128])) false]
                (yibc_str 2 0 (Some (mkid 1 0)) None [88]) = yib_fail 2.
Proof. vm_compute. reflexivity. Qed.
