(* Local operations and positions at unit level: index -> neighbours -> new item (text.rs find_position,
   Branch::index_to_ptr, BlockIter, TransactionMut::create_item), sticky indexes (sticky_index.rs) and
   quoted ranges (types/weak.rs) as functions of one item list incl. tombstones. *)
From Coq Require Import List NArith ZArith Bool.
From YV Require Import Lib.Bytes Codec.AnyCodec Codec.UpdateV1 Ids.Ranges Crdt.Doc.
Import ListNotations.
Open Scope N_scope.

Definition live (x : ditem) : bool := negb (d_del x) && countable x.

(* split l after the i-th live unit (i = 0: nothing on the left) *)
Fixpoint split_live (i : nat) (l : list ditem) : list ditem * list ditem :=
  match i with
  | O => ([], l)
  | S j =>
    match l with
    | [] => ([], [])
    | x :: r => let '(a, b) := split_live (if live x then j else i) r in (x :: a, b)
    end
  end.

Definition last_id (l : list ditem) : option id := match rev l with x :: _ => Some (did x) | [] => None end.
Definition head_id (l : list ditem) : option id := match l with x :: _ => Some (did x) | [] => None end.

(* Where a local insertion at live index i lands. Both lookups of the implementation first consume i live
   units (passing over whatever is not live on the way) and then keep moving over DELETED items:
   text.rs `find_position` stops when the index is reached and `Text::insert` then forwards `while
   right.is_deleted()`; `BlockIter::try_forward` (arrays, XML children) keeps going while `can_forward`
   sees a deleted or non-countable item once the length is used up (XML children take a third route, see
   local_op_direct below). So the new unit lands after the
   tombstones that follow the i-th live unit, immediately before the next item that is not deleted. *)
Fixpoint skip_deleted (l : list ditem) : list ditem * list ditem :=
  match l with
  | x :: r => if d_del x then let '(a, b) := skip_deleted r in (x :: a, b) else ([], l)
  | [] => ([], [])
  end.
Definition split_gap (i : nat) (l : list ditem) : list ditem * list ditem :=
  let '(a, b) := split_live i l in
  let '(d, b') := skip_deleted b in (a ++ d, b').

(* the unit a local insertion at live index i creates: origin = the last item left of the gap, right
   origin = the item that follows it *)
Definition local_op (key : seqkey) (l : list ditem) (i : nat) (newid : id) (c : ucontent) : op :=
  let '(a, b) := split_gap i l in
  mkop newid (last_id a) (head_id b) (fst key) (snd key) c.
Definition local_insert (key : seqkey) (l : list ditem) (i : nat) (newid : id) (c : ucontent) : list ditem :=
  yata_insert l (mkditem (local_op key l i newid c) false).

(* XML children are inserted through Branch::insert_at / index_to_ptr, which does NOT move on over tombstones:
   index 0 lands at the very start, index i > 0 directly after the i-th live unit *)
Definition local_op_direct (key : seqkey) (l : list ditem) (i : nat) (newid : id) (c : ucontent) : op :=
  let '(a, b) := split_live i l in
  mkop newid (last_id a) (head_id b) (fst key) (snd key) c.
Definition local_insert_direct (key : seqkey) (l : list ditem) (i : nat) (newid : id) (c : ucontent) : list ditem :=
  yata_insert l (mkditem (local_op_direct key l i newid c) false).

(* delete n live units starting at live index i *)
Fixpoint local_delete (i n : nat) (l : list ditem) : list ditem :=
  match l with
  | [] => []
  | x :: r =>
    if live x then
      match i with
      | S j => x :: local_delete j n r
      | O => match n with
             | S m => mkditem (d_op x) true :: local_delete O m r
             | O => l
             end
      end
    else x :: local_delete i n r
  end.

Definition contents (l : list ditem) : list ucontent := map (fun x => ocont (d_op x)) (filter live l).

(* map / attribute set: a new right-most entry whose origin is the current right-most entry *)
Definition local_set_op (key : seqkey) (l : list ditem) (newid : id) (c : ucontent) : op :=
  mkop newid (last_id l) None (fst key) (snd key) c.

(* ---------- sticky indexes ---------- *)
Inductive anchor := AItem (i : id) | ABranch.
(* StickyIndex::at(index, assoc): None = index out of range; Assoc::After needs an element AT the index, so the very
   end (also of an empty sequence) has no After anchor (sticky_index.rs: `else if walker.finished() { None }`) *)
Definition nth_live (l : list ditem) (i : nat) : option ditem := nth_error (filter live l) i.
Definition sticky_at (l : list ditem) (i : nat) (after : bool) : option anchor :=
  if after then
    match nth_live l i with
    | Some x => Some (AItem (did x))
    | None => None
    end
  else
    match i with
    | O => Some ABranch
    | S j => match nth_live l j with Some x => Some (AItem (did x)) | None => None end
    end.

(* number of live units strictly left of the item with id a *)
Fixpoint live_before (a : id) (l : list ditem) : option nat :=
  match l with
  | [] => None
  | x :: r => if id_eqb (did x) a then Some O
              else match live_before a r with Some n => Some (if live x then S n else n) | None => None end
  end.
(* StickyIndex::get_offset *)
Definition sticky_offset (l : list ditem) (an : anchor) (after : bool) : option nat :=
  match an with
  | ABranch => Some (if after then length (filter live l) else O)
  | AItem a =>
    match live_before a l, find_in_list a l with
    | Some n, Some x => Some (if live x then (if after then n else S n) else n)
    | _, _ => None
    end
  end.

(* ---------- quoted ranges: live units between two anchors ---------- *)
Fixpoint drop_until (a : id) (incl : bool) (l : list ditem) : list ditem :=
  match l with
  | [] => []
  | x :: r => if id_eqb (did x) a then (if incl then l else r) else drop_until a incl r
  end.
Fixpoint take_until (a : id) (incl : bool) (l : list ditem) : list ditem :=
  match l with
  | [] => []
  | x :: r => if id_eqb (did x) a then (if incl then [x] else []) else x :: take_until a incl r
  end.
Definition quoted (l : list ditem) (s : option (id * bool)) (e : option (id * bool)) : list ditem :=
  let l1 := match s with Some (a, incl) => drop_until a incl l | None => l end in
  let l2 := match e with Some (a, incl) => take_until a incl l1 | None => l1 end in
  filter live l2.
