(* RedoFixCases.v - TESTS (vm_compute, bounded): the repaired transcription (RedoFix.v) against the original one
   (Crdt/Redo.v) on everything the op language reaches in the sweeps, and the invariant that explains why:
   every in-place copy stands immediately to the left of its tombstone. *)
From Coq Require Import List NArith Bool.
Import ListNotations.
From YV Require Import Crdt.Redo.
From YV.Crdt Require Import RedoFix.
Open Scope N_scope.

Definition rdo_fxc_on (o : option N) : N := match o with Some n => n + 1 | None => 0 end.
Definition rdo_fxc_item (x : rdo_item) : list N :=
  [ rdo_id x; match rdo_par x with RdoRoot n => 2 * n | RdoItem i => 2 * i + 1 end; rdo_fxc_on (rdo_sub x);
    match rdo_cnt x with RdoVal v => 2 * v | RdoType k => 2 * k + 1 end;
    if rdo_del x then 1 else 0; if rdo_keep x then 1 else 0; rdo_fxc_on (rdo_red x); rdo_fxc_on (rdo_org x); rdo_fxc_on (rdo_rorg x) ].
Definition rdo_fxc_stack (l : list rdo_sitem) : list (list N) := flat_map (fun e => [rdo_sins e; rdo_sdel e]) l.
(* the complete state as lists of numbers *)
Definition rdo_fxc_state (s : rdo_state) : list (list N) :=
  [[rdo_clock s; if rdo_ext s then 1 else 0; N.of_nat (length (rdo_us s)); N.of_nat (length (rdo_rs s))]; rdo_scope s]
  ++ map rdo_fxc_item (rdo_doc s) ++ rdo_fxc_stack (rdo_us s) ++ [[99999]] ++ rdo_fxc_stack (rdo_rs s).
Definition rdo_fxc_eqb (a b : list (list N)) : bool := if list_eq_dec (list_eq_dec N.eq_dec) a b then true else false.
Definition rdo_fxc_same (a b : rdo_res rdo_state) : bool :=
  match a, b with
  | RdoOk x, RdoOk y => rdo_fxc_eqb (rdo_fxc_state x) (rdo_fxc_state y)
  | _, _ => false
  end.

(* K: every in-place copy (same parent, same key) stands immediately to the left of its tombstone *)
Definition rdo_fxc_K (st : list rdo_item) : bool :=
  forallb (fun y => match rdo_red y with
                    | Some r => match rdo_get st r with
                                | Some t => if rdo_par_eqb (rdo_par t) (rdo_par y) && negb (rdo_is_some (rdo_sub y))
                                            then rdo_on_eqb (rdo_left st (rdo_id y)) (Some r) else true
                                | None => true
                                end
                    | None => true
                    end) st.

Definition rdo_fxc_acts (d : nat) : list rdo_action :=
  let v := 10 + N.of_nat d in
  [ RdoAUndo; RdoARedo;
    RdoAStep [[RdoOSet 1 [] 0 (RdoType 0)]];
    RdoAStep [[RdoOIns 1 [RdoKey 0] 0 (RdoVal v)]];
    RdoAStep [[RdoOIns 1 [RdoKey 0] 1 (RdoVal v)]];
    RdoAStep [[RdoOIns 1 [RdoKey 0] 2 (RdoType 1)]];
    RdoAStep [[RdoODel 1 [RdoKey 0] 0]];
    RdoAStep [[RdoODel 1 [RdoKey 0] 1]];
    RdoAStep [[RdoORem 1 [] 0]];
    RdoAStep [[RdoOSet 1 [] 0 (RdoVal v)]];
    RdoAOther [RdoOIns 1 [RdoKey 0] 1 (RdoVal (v + 100))];
    RdoAOther [RdoODel 1 [RdoKey 0] 0] ].

(* at every state reached (by the ORIGINAL semantics), every action gives the same complete state in both versions, and K holds *)
Fixpoint rdo_fxc_sweep (d n : nat) (s : rdo_state) : bool :=
  match n with
  | O => true
  | S n' => rdo_fxc_K (rdo_doc s) &&
            forallb (fun a => rdo_fxc_same (rdo_act_fixed s a) (rdo_act s a) &&
                              match rdo_act s a with RdoOk s' => rdo_fxc_sweep (S d) n' s' | RdoErr _ => false end) (rdo_fxc_acts d)
  end.
(* depth 5 in the build (about 250 000 states, 25 s); the sub-agent ran depth 6 (3 million states, 5 minutes) once with the same result *)
Example rdo_fixed_agrees_sweep5 : rdo_fxc_sweep 0 5 (rdo_state0 [0;1]) = true.
Proof. vm_compute. reflexivity. Qed.
Print Assumptions rdo_fixed_agrees_sweep5.

(* the history of the defect, as far as the op language can express it: Array::insert cannot put an element between a copy and
   its tombstone (it lands behind the tombstones), so the element inserted "after b'" lands behind the tombstone b as well and both
   versions re-create the children in the same order *)
Definition rdo_fxc_hist : list rdo_action :=
  [ RdoAStep [[RdoOSet 1 [] 1 (RdoType 0)]; [RdoOIns 1 [RdoKey 1] 0 (RdoVal 1); RdoOIns 1 [RdoKey 1] 1 (RdoVal 2)]];   (* "ab" *)
    RdoAStep [[RdoODel 1 [RdoKey 1] 1]];                        (* remove b *)
    RdoAUndo;                                                   (* copy b' left of the tombstone b *)
    RdoAStep [[RdoOIns 1 [RdoKey 1] 2 (RdoVal 3)]];             (* "embed": lands BEHIND the tombstone *)
    RdoAStep [[RdoOIns 1 [RdoKey 1] 3 (RdoVal 4)]];             (* push d *)
    RdoAStep [[RdoOSet 1 [] 1 (RdoVal 9)]];                     (* overwrite the key: deletes the array with its children *)
    RdoAUndo ].
Example rdo_fixed_same_on_defect_history :
  rdo_renders_fixed (rdo_state0 [0;1]) [0;1] rdo_fxc_hist = rdo_renders (rdo_state0 [0;1]) [0;1] rdo_fxc_hist /\
  nth 1 (last (rdo_renders (rdo_state0 [0;1]) [0;1] rdo_fxc_hist) []) [] = [2; 1; 1; 0; 0; 1; 0; 2; 0; 3; 0; 4; 2; 3; 3].
Proof. vm_compute. split; reflexivity. Qed.
Print Assumptions rdo_fixed_same_on_defect_history.

(* a store the op language does NOT reach (an element e between the copy b' and the tombstone b, as the real Text::insert_embed
   produces): re-creating d after the container was re-created gives different left neighbours in the two versions *)
Definition rdo_fxc_mk (i : N) (p : rdo_parent) (v : N) (d : bool) (r : option N) : rdo_item :=
  {| rdo_id := i; rdo_par := p; rdo_sub := None; rdo_cnt := RdoVal v; rdo_del := d; rdo_keep := true; rdo_red := r; rdo_org := None; rdo_rorg := None |}.
Definition rdo_fxc_store : list rdo_item :=
  [ {| rdo_id := 0; rdo_par := RdoRoot 1; rdo_sub := Some 1; rdo_cnt := RdoType 0; rdo_del := true; rdo_keep := true; rdo_red := Some 7; rdo_org := None; rdo_rorg := None |};
    {| rdo_id := 7; rdo_par := RdoRoot 1; rdo_sub := Some 1; rdo_cnt := RdoType 0; rdo_del := false; rdo_keep := true; rdo_red := None; rdo_org := None; rdo_rorg := None |};
    rdo_fxc_mk 1 (RdoItem 0) 1 true (Some 8);      (* a   -> a'' = 8 below the new container 7 *)
    rdo_fxc_mk 3 (RdoItem 0) 2 true (Some 9);      (* b'  -> b'' = 9 *)
    rdo_fxc_mk 4 (RdoItem 0) 3 true (Some 10);     (* e   -> e'' = 10, BETWEEN the copy b' and the tombstone b *)
    rdo_fxc_mk 2 (RdoItem 0) 2 true (Some 3);      (* b   tombstone, re-created in place as b' = 3 *)
    rdo_fxc_mk 5 (RdoItem 0) 4 true None;          (* d   to be re-created *)
    rdo_fxc_mk 8 (RdoItem 7) 1 false None; rdo_fxc_mk 9 (RdoItem 7) 2 false None; rdo_fxc_mk 10 (RdoItem 7) 3 false None ].
Example rdo_fixed_differs_on_unreachable_store :
  rdo_lloop rdo_fxc_store (Some 7) (rdo_lefts rdo_fxc_store 5) = RdoOk (Some 9) /\          (* old: behind b'' - in front of e'' *)
  rdo_lloop_fixed rdo_fxc_store (Some 7) (Some 0) (rdo_lefts rdo_fxc_store 5) = RdoOk (Some 10) /\  (* repaired: behind e'' *)
  rdo_fxc_K rdo_fxc_store = false.
Proof. vm_compute. repeat split. Qed.
Print Assumptions rdo_fixed_differs_on_unreachable_store.
