(* Change events (C11): transcription of
     yrs/src/types/mod.rs   event_change_set, event_keys
     yrs/src/types/text.rs  TextEvent::get_delta (DeltaAssembler), update_current_attributes
     yrs/src/branch.rs      Branch::path (index of a child below an array-like parent)
   over the item list of one shared type as the observer's transaction sees it: every item carries
   the three facts the code consults - is_deleted(), txn.has_added(id), txn.has_deleted(id).
   Values are interned tokens (the harness interns the printed value); token 0 is Any::Null.
   No proofs in this file. *)
From Coq Require Import List NArith Bool.
Import ListNotations.
Open Scope N_scope.

Definition tok := N.
Definition NULL : tok := 0.

(* ---------------------------------------------------------------------------------------------- *)
(* array / XML children: event_change_set *)

Record sitem := { s_len : N; s_vals : list tok; s_deleted : bool; s_added : bool; s_deld : bool }.

Inductive change := Added (vs : list tok) | Removed (n : N) | Retain (n : N).

(* one iteration of the loop; state = (delta, last_op) *)
Definition cs_step (st : list change * option change) (it : sitem) : list change * option change :=
  let '(delta, last) := st in
  if s_deleted it then
    if s_deld it && negb (s_added it) then
      match last with
      | None => (delta, Some (Removed (0 + s_len it)))
      | Some (Removed c) => (delta, Some (Removed (c + s_len it)))
      | Some other => (delta ++ [other], Some (Removed (0 + s_len it)))
      end
    else st
  else if s_added it then
    match last with
    | None => (delta, Some (Added (s_vals it)))
    | Some (Added vs) => (delta, Some (Added (vs ++ s_vals it)))
    | Some other => (delta ++ [other], Some (Added (s_vals it)))
    end
  else
    match last with
    | None => (delta, Some (Retain (0 + s_len it)))
    | Some (Retain c) => (delta, Some (Retain (c + s_len it)))
    | Some other => (delta ++ [other], Some (Retain (0 + s_len it)))
    end.

Definition cs_finish (st : list change * option change) : list change :=
  match snd st with
  | None => fst st
  | Some (Retain _) => fst st
  | Some c => fst st ++ [c]
  end.

Definition change_set (items : list sitem) : list change := cs_finish (fold_left cs_step items ([], None)).

(* what an observer does with a change list *)
Fixpoint apply_changes (cur : list tok) (d : list change) : option (list tok) :=
  match d with
  | [] => Some cur
  | Added vs :: d' => option_map (app vs) (apply_changes cur d')
  | Removed n :: d' =>
      if N.of_nat (length cur) <? n then None else apply_changes (skipn (N.to_nat n) cur) d'
  | Retain n :: d' =>
      if N.of_nat (length cur) <? n then None
      else option_map (app (firstn (N.to_nat n) cur)) (apply_changes (skipn (N.to_nat n) cur) d')
  end.

(* content before the transaction: items it did not add, that were not yet deleted when it began *)
Definition s_visible_before (it : sitem) : bool := negb (s_added it) && (negb (s_deleted it) || s_deld it).
Definition s_visible_after (it : sitem) : bool := negb (s_deleted it).
Definition seq_before (items : list sitem) : list tok := flat_map (fun it => if s_visible_before it then s_vals it else []) items.
Definition seq_after (items : list sitem) : list tok := flat_map (fun it => if s_visible_after it then s_vals it else []) items.

(* what the store guarantees about an item list: deleted-in-this-transaction implies deleted, and an
   item that is or was visible holds as many values as its length *)
Definition swf (it : sitem) : bool :=
  implb (s_deld it) (s_deleted it) &&
  implb (s_visible_before it || s_visible_after it) (N.of_nat (length (s_vals it)) =? s_len it).

(* Branch::path: index of the k-th item below an array-like parent *)
Fixpoint path_index (items : list sitem) (k : nat) : N :=
  match k, items with
  | O, _ => 0
  | S k', it :: rest => (if s_deleted it then 0 else s_len it) + path_index rest k'
  | S _, [] => 0
  end.

(* ---------------------------------------------------------------------------------------------- *)
(* map entries / XML attributes: event_keys, for ONE key. The chain is the list of items that were
   ever stored under the key, left-most first; its last element is branch.map[key]. k_val is
   content.get_last() with None rendered as the token the harness uses for "no value". *)

Record kitem := { k_val : tok; k_deleted : bool; k_added : bool; k_deld : bool }.

Inductive entry_change := EInserted (v : tok) | EUpdated (o n : tok) | ERemoved (o : tok).

(* `let mut prev = item.left; while prev is Some(p) { if !txn.has_added(p) break; prev = p.left }` *)
Fixpoint first_not_added (lefts : list kitem) : option kitem :=
  match lefts with
  | [] => None
  | p :: rest => if k_added p then first_not_added rest else Some p
  end.

Definition keys_change (chain : list kitem) : option entry_change :=
  match rev chain with
  | [] => None
  | item :: lefts =>
      if k_added item then
        let prev := first_not_added lefts in
        if k_deld item then
          match prev with
          | Some p => if k_deld p then Some (ERemoved (k_val p)) else None
          | None => None
          end
        else
          match prev with
          | Some p => if k_deld p then Some (EUpdated (k_val p) (k_val item)) else Some (EInserted (k_val item))
          | None => Some (EInserted (k_val item))
          end
      else if k_deld item then Some (ERemoved (k_val item))
      else None
  end.

(* what an observer does with a key change; None = the event contradicts what the observer holds *)
Definition apply_entry (cur : option tok) (c : option entry_change) : option (option tok) :=
  match c, cur with
  | None, _ => Some cur
  | Some (EInserted v), None => Some (Some v)
  | Some (EInserted _), Some _ => None
  | Some (EUpdated o n), Some c0 => if c0 =? o then Some (Some n) else None
  | Some (EUpdated _ _), None => None
  | Some (ERemoved o), Some c0 => if c0 =? o then Some None else None
  | Some (ERemoved _), None => None
  end.

(* value under the key before / after the transaction *)
Fixpoint last_not_added (chain : list kitem) : option kitem :=   (* right-most item the transaction did not add *)
  match chain with
  | [] => None
  | p :: rest => match last_not_added rest with Some q => Some q | None => if k_added p then None else Some p end
  end.
Definition key_before (chain : list kitem) : option tok :=
  match last_not_added chain with
  | Some p => if negb (k_deleted p) || k_deld p then Some (k_val p) else None
  | None => None
  end.
Definition key_after (chain : list kitem) : option tok :=
  match rev chain with
  | item :: _ => if k_deleted item then None else Some (k_val item)
  | [] => None
  end.

(* what the theorem assumes of a key chain, checked on every real chain by the harness:
   deleted-in-transaction implies deleted; an item the transaction added can only have been deleted by
   the transaction itself; and when the last item was added by the transaction, the right-most item that
   predates the transaction is deleted (integration of a new last item deletes its predecessor).
   NOT assumed: that only the last item is live - a replica that received a squashed block without the
   deletion of its first half holds a live item to the left of the last one, and the API ignores it. *)
Definition kwf (chain : list kitem) : bool :=
  forallb (fun p => implb (k_deld p) (k_deleted p)) chain &&
  match rev chain with
  | [] => true
  | item :: _ =>
      implb (k_added item && k_deleted item) (k_deld item) &&
      implb (k_added item) (match last_not_added chain with Some q => k_deleted q | None => true end)
  end.

(* ---------------------------------------------------------------------------------------------- *)
(* text / XML text: TextEvent::get_delta *)

Definition amap := list (tok * tok).   (* attribute name -> value, no duplicate names *)
Fixpoint am_get (m : amap) (k : tok) : option tok :=
  match m with [] => None | (k', v) :: r => if k' =? k then Some v else am_get r k end.
Fixpoint am_remove (m : amap) (k : tok) : amap :=
  match m with [] => [] | (k', v) :: r => if k' =? k then am_remove r k else (k', v) :: am_remove r k end.
Definition am_insert (m : amap) (k v : tok) : amap := am_remove m k ++ [(k, v)].
(* update_current_attributes *)
Definition am_update (m : amap) (k v : tok) : amap := if v =? NULL then am_remove m k else am_insert m k v.

Inductive tcontent := TStr (units : list N) | TEmbed (v : tok) | TFormat (key value : tok) | TOther.
Record titem := { t_content : tcontent; t_deleted : bool; t_added : bool; t_deld : bool }.

Inductive delta :=
| DInsStr (s : list N) (attrs : amap)
| DInsEmbed (v : tok) (attrs : amap)
| DDelete (n : N)
| DRetain (n : N) (attrs : amap).

Inductive action := AInsert | ARetain | ADelete.
Definition action_eqb (a b : action) : bool :=
  match a, b with AInsert, AInsert | ARetain, ARetain | ADelete, ADelete => true | _, _ => false end.
Definition is_action (a : option action) (b : action) : bool := match a with Some x => action_eqb x b | None => false end.

Record asm := {
  a_action : option action;
  a_insert : option tok;            (* embed / type waiting to be emitted *)
  a_insert_string : option (list N);
  a_retain : N;
  a_delete : N;
  a_attrs : amap;
  a_current : amap;
  a_old : amap;                     (* old_attrs *)
  a_delta : list delta;
}.
Definition asm0 : asm := {| a_action := None; a_insert := None; a_insert_string := None; a_retain := 0; a_delete := 0;
                            a_attrs := []; a_current := []; a_old := []; a_delta := [] |}.

Definition set_action (a : asm) (x : option action) : asm :=
  {| a_action := x; a_insert := a_insert a; a_insert_string := a_insert_string a; a_retain := a_retain a; a_delete := a_delete a;
     a_attrs := a_attrs a; a_current := a_current a; a_old := a_old a; a_delta := a_delta a |}.
Definition set_attrs (a : asm) (m : amap) : asm :=
  {| a_action := a_action a; a_insert := a_insert a; a_insert_string := a_insert_string a; a_retain := a_retain a; a_delete := a_delete a;
     a_attrs := m; a_current := a_current a; a_old := a_old a; a_delta := a_delta a |}.
Definition set_current (a : asm) (m : amap) : asm :=
  {| a_action := a_action a; a_insert := a_insert a; a_insert_string := a_insert_string a; a_retain := a_retain a; a_delete := a_delete a;
     a_attrs := a_attrs a; a_current := m; a_old := a_old a; a_delta := a_delta a |}.
Definition set_old (a : asm) (m : amap) : asm :=
  {| a_action := a_action a; a_insert := a_insert a; a_insert_string := a_insert_string a; a_retain := a_retain a; a_delete := a_delete a;
     a_attrs := a_attrs a; a_current := a_current a; a_old := m; a_delta := a_delta a |}.

(* DeltaAssembler::add_op. In the Insert arm the code unwraps insert_string when no embed is waiting;
   the loop only selects Insert after storing one of the two, the model emits an empty string otherwise. *)
Definition add_op (a : asm) : asm :=
  match a_action a with
  | None => a
  | Some ADelete =>
      {| a_action := None; a_insert := a_insert a; a_insert_string := a_insert_string a; a_retain := a_retain a; a_delete := 0;
         a_attrs := a_attrs a; a_current := a_current a; a_old := a_old a; a_delta := a_delta a ++ [DDelete (a_delete a)] |}
  | Some AInsert =>
      let d := match a_insert a with
               | Some v => DInsEmbed v (a_current a)
               | None => DInsStr (match a_insert_string a with Some s => s | None => [] end) (a_current a)
               end in
      {| a_action := None; a_insert := None;
         a_insert_string := match a_insert a with Some _ => a_insert_string a | None => None end;
         a_retain := a_retain a; a_delete := a_delete a;
         a_attrs := a_attrs a; a_current := a_current a; a_old := a_old a; a_delta := a_delta a ++ [d] |}
  | Some ARetain =>
      {| a_action := None; a_insert := a_insert a; a_insert_string := a_insert_string a; a_retain := 0; a_delete := a_delete a;
         a_attrs := a_attrs a; a_current := a_current a; a_old := a_old a; a_delta := a_delta a ++ [DRetain (a_retain a) (a_attrs a)] |}
  end.

Definition begin_action (a : asm) (x : action) : asm := if is_action (a_action a) x then a else set_action (add_op a) (Some x).

Definition add_delete (a : asm) (n : N) : asm :=
  {| a_action := a_action a; a_insert := a_insert a; a_insert_string := a_insert_string a; a_retain := a_retain a; a_delete := a_delete a + n;
     a_attrs := a_attrs a; a_current := a_current a; a_old := a_old a; a_delta := a_delta a |}.
Definition add_retain (a : asm) (n : N) : asm :=
  {| a_action := a_action a; a_insert := a_insert a; a_insert_string := a_insert_string a; a_retain := a_retain a + n; a_delete := a_delete a;
     a_attrs := a_attrs a; a_current := a_current a; a_old := a_old a; a_delta := a_delta a |}.
Definition push_string (a : asm) (s : list N) : asm :=
  {| a_action := a_action a; a_insert := a_insert a;
     a_insert_string := Some (match a_insert_string a with Some b => b ++ s | None => s end);
     a_retain := a_retain a; a_delete := a_delete a;
     a_attrs := a_attrs a; a_current := a_current a; a_old := a_old a; a_delta := a_delta a |}.
Definition set_insert (a : asm) (v : tok) : asm :=
  {| a_action := a_action a; a_insert := Some v; a_insert_string := a_insert_string a; a_retain := a_retain a; a_delete := a_delete a;
     a_attrs := a_attrs a; a_current := a_current a; a_old := a_old a; a_delta := a_delta a |}.

Definition flush_if (a : asm) (x : action) : asm := if is_action (a_action a) x then add_op a else a.

Definition opt_tok_eqb (a : option tok) (b : tok) : bool := match a with Some x => x =? b | None => false end.

Definition td_step (a : asm) (it : titem) : asm :=
  match t_content it with
  | TEmbed v =>
      if t_added it then
        if negb (t_deld it) then add_op (set_insert (set_action (add_op a) (Some AInsert)) v) else a
      else if t_deld it then add_delete (begin_action a ADelete) 1
      else if negb (t_deleted it) then add_retain (begin_action a ARetain) 1
      else a
  | TStr s =>
      if t_added it then
        if negb (t_deld it) then push_string (begin_action a AInsert) s else a
      else if t_deld it then add_delete (begin_action a ADelete) (N.of_nat (length s))
      else if negb (t_deleted it) then add_retain (begin_action a ARetain) (N.of_nat (length s))
      else a
  | TFormat key value =>
      let a1 :=
        if t_added it then
          if negb (t_deld it) then
            if negb (opt_tok_eqb (am_get (a_current a) key) value) then
              let a' := flush_if a ARetain in
              match am_get (a_old a') key with
              | None => if value =? NULL then set_attrs a' (am_remove (a_attrs a') key) else set_attrs a' (am_insert (a_attrs a') key value)
              | Some v => if v =? value then set_attrs a' (am_remove (a_attrs a') key) else set_attrs a' (am_insert (a_attrs a') key value)
              end
            else a
          else a
        else if t_deld it then
          let a' := set_old a (am_insert (a_old a) key value) in
          let cur := match am_get (a_current a') key with Some v => v | None => NULL end in
          if negb (cur =? value) then
            let a'' := flush_if a' ARetain in
            set_attrs a'' (am_insert (a_attrs a'') key cur)
          else a'
        else if negb (t_deleted it) then
          let a' := set_old a (am_insert (a_old a) key value) in
          match am_get (a_attrs a') key with
          | Some attr =>
              if negb (attr =? value) then
                let a'' := flush_if a' ARetain in
                if value =? NULL then set_attrs a'' (am_remove (a_attrs a'') key) else set_attrs a'' (am_insert (a_attrs a'') key value)
              else a'
          | None => a'
          end
        else a in
      if negb (t_deleted it) then
        let a2 := flush_if a1 AInsert in
        set_current a2 (am_update (a_current a2) key value)
      else a1
  | TOther => a
  end.

(* DeltaAssembler::finish: drop trailing retains that assign no attributes *)
Fixpoint drop_trailing (rd : list delta) : list delta :=   (* on the reversed delta *)
  match rd with
  | DRetain _ [] :: rest => drop_trailing rest
  | _ => rd
  end.
Definition td_finish (a : asm) : list delta := rev (drop_trailing (rev (a_delta (add_op a)))).

Definition text_delta (items : list titem) : list delta := td_finish (fold_left td_step items asm0).

(* rich text content: one element per UTF-16 unit or embed, each with the attributes in force *)
Inductive elem := EUnit (u : N) | EEmb (v : tok).
Definition relem := (elem * amap)%type.

Fixpoint render_with (vis : titem -> bool) (items : list titem) (cur : amap) : list relem :=
  match items with
  | [] => []
  | it :: rest =>
      if vis it then
        match t_content it with
        | TStr s => map (fun u => (EUnit u, cur)) s ++ render_with vis rest cur
        | TEmbed v => (EEmb v, cur) :: render_with vis rest cur
        | TFormat k v => render_with vis rest (am_update cur k v)
        | TOther => render_with vis rest cur
        end
      else render_with vis rest cur
  end.
Definition t_visible_before (it : titem) : bool := negb (t_added it) && (negb (t_deleted it) || t_deld it).
Definition t_visible_after (it : titem) : bool := negb (t_deleted it).
(* assumed of text items: deleted-in-transaction implies deleted; an added item can only have been deleted by the transaction *)
Definition twf (it : titem) : bool := implb (t_deld it) (t_deleted it) && implb (t_added it && t_deleted it) (t_deld it).
Definition text_before (items : list titem) : list relem := render_with t_visible_before items [].
Definition text_after (items : list titem) : list relem := render_with t_visible_after items [].

(* what an observer does with a text delta: retained elements take the listed attributes (NULL removes) *)
Definition restyle (attrs : amap) (e : relem) : relem := (fst e, fold_left (fun m kv => am_update m (fst kv) (snd kv)) attrs (snd e)).
Fixpoint apply_delta (cur : list relem) (d : list delta) : option (list relem) :=
  match d with
  | [] => Some cur
  | DInsStr s at_ :: d' => option_map (app (map (fun u => (EUnit u, at_)) s)) (apply_delta cur d')
  | DInsEmbed v at_ :: d' => option_map (cons (EEmb v, at_)) (apply_delta cur d')
  | DDelete n :: d' => if N.of_nat (length cur) <? n then None else apply_delta (skipn (N.to_nat n) cur) d'
  | DRetain n at_ :: d' =>
      if N.of_nat (length cur) <? n then None
      else option_map (app (map (restyle at_) (firstn (N.to_nat n) cur))) (apply_delta (skipn (N.to_nat n) cur) d')
  end.

(* attribute maps are compared as finite maps *)
Definition amap_eqb (a b : amap) : bool :=
  forallb (fun kv => opt_tok_eqb (am_get b (fst kv)) (snd kv)) a && forallb (fun kv => opt_tok_eqb (am_get a (fst kv)) (snd kv)) b.
Definition elem_eqb (a b : elem) : bool :=
  match a, b with EUnit x, EUnit y => x =? y | EEmb x, EEmb y => x =? y | _, _ => false end.
Fixpoint relems_eqb (a b : list relem) : bool :=
  match a, b with
  | [], [] => true
  | (e1, m1) :: r1, (e2, m2) :: r2 => elem_eqb e1 e2 && amap_eqb m1 m2 && relems_eqb r1 r2
  | _, _ => false
  end.

(* executable statement of exactness, evaluated by the runner on the item lists of real transactions *)
Definition seq_exact (items : list sitem) : bool :=
  match apply_changes (seq_before items) (change_set items) with
  | Some r => if list_eq_dec N.eq_dec r (seq_after items) then true else false
  | None => false
  end.
Definition key_exact (chain : list kitem) : bool :=
  match apply_entry (key_before chain) (keys_change chain) with
  | Some r => match r, key_after chain with Some x, Some y => x =? y | None, None => true | _, _ => false end
  | None => false
  end.
Definition text_exact (items : list titem) : bool :=
  match apply_delta (text_before items) (text_delta items) with
  | Some r => relems_eqb r (text_after items)
  | None => false
  end.
