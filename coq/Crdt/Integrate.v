(* Which blocks of an incoming update are integrated and which are set aside (the "pending" stash):
     TransactionMut::apply_update            yrs/src/transaction.rs   [itg_step] [itg_retry] [itg_apply_update_res]
                                                                       [itg_apply_rec] (the literal recursion)
     Update::integrate                       yrs/src/update.rs        [itg_loop] [itg_integrate]
     Update::missing_dependency              yrs/src/update.rs        [itg_deps] [itg_missing_dep]
     BlockPicker::new / next / switch / pending                       [itg_pk_new] [itg_pk_next] [itg_pk_switch] [itg_pk_pending]
     BlockStore::get_clock / is_missing / known_state / push          [itg_get_clock] [itg_is_missing] [itg_known] [itg_push]
     BlockSet::exclude / split_at / find_index                        [itg_trim] [itg_excl_range] [itg_split_at]
     TransactionMut::integrate_skip / integrate                       the two [itg_push]es of [itg_loop]
     StateVector::set_min                                             [itg_sv_set_min]
     Update::merge_updates                                            Crdt/Merge.v [mrg_merge_updates]

   What is abstracted.
   * Content, YATA positioning, deletion, the delete set of the update (pending_ds) are not modelled.  A block is
     what these functions look at: kind (Item / GC / Skip), client, clock, length, and for an Item the ids
     missing_dependency tests, in the order it tests them: origin, right origin, parent (when given by id), and for
     a weak link the ids of the two ends of the quotation (`#[cfg(feature = "weak")]`; the second only if it differs
     from the first).  [itg_abs_block] replaces the content of an Item by BDeleted of the same length (a weak link
     keeps its content: it has length 1 and carries the quoted ids), so that cutting a block is arithmetic on
     lengths: ItemPtr::splice / BlockRange::slice = [itg_splice].
     The two error returns of missing_dependency / integrate (UpdateError::InvalidParent: the parent id names an
     item that is neither a type nor deleted) depend on content and are not modelled.
   * The store is, per client, the block list abstracted to segments (start, length, is it a Skip) in list order:
     ClientBlockList without the blocks.  Squashing (at commit) merges neighbours of the same kind and changes none
     of the functions below; observers [itg_obs_ranges] / [itg_obs_holes] give the normal form.
     BlockStore::skips (an IdSet kept next to the lists) is derived: the Skip segments of the list.
     [itg_log] is a ghost field: the blocks integrated so far, newest first (the Rust store holds the blocks
     themselves); nothing reads it.
   * HashMaps (BlockSet::clients, StateVector, the local_clock cache `state`) are association lists with
     [itg_get] / [itg_put] / [itg_del]; nothing depends on the iteration order (BlockPicker::new sorts the keys,
     the retry test is an `any`, merge_updates sorts).
   * ClientBlockList::find_index / BlockSet::find_index are binary searches; on lists ordered by clock they find
     the block that contains the clock, which is what [itg_seg_split] / [itg_split_at] do by linear search.
   * Arithmetic is on N.  u32 overflow of clock + len is excluded by the decoder (checked_add).

   Outside the domain.  The Rust code relies on preconditions that a decodable update can violate.  The model
   returns [itg_undef tag]:
     1  BlockSet::exclude: `structs.front().unwrap()` on a client entry without blocks (update.rs:85, panics)
     2  BlockSet::find_index: `unreachable!()`, the clock to cut at is in no block of the client (a gap between
        two sections of the same client; update.rs:156, panics)
     3  BlockStore::push: `find_index(clock).unwrap()` on None
     4  BlockStore::push: the block found at the clock of the pushed block is not a Skip: the Rust code overwrites
        the integrated block in the list (the old Box<Item> is dropped while the document still points to it)
     5  BlockStore::push: `skip.next_clock() - block.next_clock()` underflows (the pushed block reaches beyond the
        block found; block_store.rs:318, panics with overflow checks)
     6  BlockStore::push of a Skip that does not start at the end of the list (never happens: the cached
        local_clock is the end of the list: itg_cache_ok, kept by itg_loop_inv in IntegrateProofs.v)
   Witnesses for 1, 2, 4, 5 replayed against the Rust: IntegrateCases.v (the itg_hostile cases). *)
From Coq Require Import List NArith ZArith Bool.
From YV Require Import Gen.Consts Lib.Bytes Codec.Varint Codec.AnyCodec Codec.IdSetCodec Codec.UpdateV1
  Ids.Ranges Crdt.Doc Crdt.Blocks Crdt.Merge.
Import ListNotations.
Open Scope N_scope.

(* ================================================================================================ *)
(* results                                                                                          *)
(* ================================================================================================ *)
Inductive itg_res (A : Type) : Type :=
| itg_ok (a : A)
| itg_undef (tag : N)
| itg_nofuel.
Arguments itg_ok {A} a.
Arguments itg_undef {A} tag.
Arguments itg_nofuel {A}.

Definition itg_bind {A B : Type} (r : itg_res A) (f : A -> itg_res B) : itg_res B :=
  match r with
  | itg_ok a => f a
  | itg_undef t => itg_undef t
  | itg_nofuel => itg_nofuel
  end.

(* ================================================================================================ *)
(* association lists keyed by client                                                                *)
(* ================================================================================================ *)
Fixpoint itg_get {A : Type} (m : list (N * A)) (c : N) : option A :=
  match m with
  | [] => None
  | (c', v) :: r => if c =? c' then Some v else itg_get r c
  end.
Definition itg_del {A : Type} (m : list (N * A)) (c : N) : list (N * A) :=
  filter (fun e => negb (fst e =? c)) m.
(* in front of the first larger key (ascending when built from []) *)
Fixpoint itg_ins {A : Type} (m : list (N * A)) (c : N) (v : A) : list (N * A) :=
  match m with
  | [] => [(c, v)]
  | (c', v') :: r => if c <? c' then (c, v) :: m else (c', v') :: itg_ins r c v
  end.
(* insert or replace *)
Definition itg_put {A : Type} (m : list (N * A)) (c : N) (v : A) : list (N * A) := itg_ins (itg_del m c) c v.

(* ================================================================================================ *)
(* the abstract view of a block                                                                     *)
(* ================================================================================================ *)
Definition itg_client (b : block) : N := cl (block_id b).
Definition itg_clock (b : block) : N := ck (block_id b).
Definition itg_end (b : block) : N := itg_clock b + block_len b.
Definition itg_is_skip (b : block) : bool := match b with BSkip _ _ => true | _ => false end.

Definition itg_oid (o : option id) : list id := match o with Some i => [i] | None => [] end.
(* the ids of a quotation: source.quote_start.id(), and source.quote_end.id() `if start != end` *)
Definition itg_weak_deps (w : weaklink) : list id :=
  match wl_start w, wl_end w with
  | SRelative a, SRelative b => if id_eqb a b then [a] else [a; b]
  | SRelative a, _ => [a]
  | _, SRelative b => [b]
  | _, _ => []
  end.
(* the ids missing_dependency tests, in its order *)
Definition itg_deps (b : block) : list id :=
  match b with
  | BItem _ o ro p _ c =>
      itg_oid o ++ itg_oid ro ++
      (match p with PId i => [i] | _ => [] end) ++
      (match c with BType (TWeak w) => itg_weak_deps w | _ => [] end)
  | _ => []
  end.

(* content-free form *)
Definition itg_abs_content (c : bcontent) : bcontent :=
  match c with
  | BType (TWeak w) => c
  | _ => BDeleted (content_len c)
  end.
Definition itg_abs_block (b : block) : block :=
  match b with
  | BItem i o ro p ps c => BItem i o ro p ps (itg_abs_content c)
  | _ => b
  end.
Definition itg_abs_update (u : update) : update :=
  {| u_blocks := map (fun e => (fst e, map itg_abs_block (snd e))) (u_blocks u); u_ds := [] |}.

(* Block::splice(offset) for 0 < offset, together with what BlockSet::split_at leaves in place: the left part *)
Definition itg_splice (b : block) (k : N) : block * block :=
  match b with
  | BItem _ _ _ _ _ _ => mrg_splice b k
  | BGC i n => (BGC i k, BGC (mkid (cl i) (ck i + k)) (n - k))
  | BSkip i n => (BSkip i k, BSkip (mkid (cl i) (ck i + k)) (n - k))
  end.

(* ================================================================================================ *)
(* the block store                                                                                  *)
(* ================================================================================================ *)
Record itg_seg := itg_mkseg { itg_sg_start : N; itg_sg_len : N; itg_sg_skip : bool }.
Definition itg_sg_end (g : itg_seg) : N := itg_sg_start g + itg_sg_len g.

(* ClientBlockList::clock *)
Fixpoint itg_list_clock (l : list itg_seg) : N :=
  match l with
  | [] => 0
  | [g] => itg_sg_end g
  | _ :: r => itg_list_clock r
  end.
(* BlockStore::get_clock *)
Definition itg_get_clock (st : list (N * list itg_seg)) (c : N) : N :=
  match itg_get st c with Some l => itg_list_clock l | None => 0 end.
(* self.skips.contains(id) *)
Definition itg_in_skips (l : list itg_seg) (k : N) : bool :=
  existsb (fun g => itg_sg_skip g && (itg_sg_start g <=? k) && (k <? itg_sg_end g)) l.
(* BlockStore::is_missing *)
Definition itg_is_missing (st : list (N * list itg_seg)) (i : id) : bool :=
  (itg_get_clock st (cl i) <=? ck i) ||
  match itg_get st (cl i) with Some l => itg_in_skips l (ck i) | None => false end.

(* the id lies in an integrated (non-Skip) segment; on contiguous lists this is the negation of is_missing
   (itg_is_missing_spec in IntegrateProofs.v) *)
Definition itg_in_seg (g : itg_seg) (k : N) : bool := (itg_sg_start g <=? k) && (k <? itg_sg_end g).
Definition itg_has_l (l : list itg_seg) (k : N) : bool :=
  existsb (fun g => negb (itg_sg_skip g) && itg_in_seg g k) l.
Definition itg_has (st : list (N * list itg_seg)) (i : id) : bool :=
  match itg_get st (cl i) with Some l => itg_has_l l (ck i) | None => false end.

(* the segment that contains clock k (find_index) *)
Fixpoint itg_seg_split (l : list itg_seg) (k : N) : option (list itg_seg * itg_seg * list itg_seg) :=
  match l with
  | [] => None
  | g :: r =>
      if (itg_sg_start g <=? k) && (k <? itg_sg_end g) then Some ([], g, r)
      else match itg_seg_split r k with
           | Some (pre, x, post) => Some (g :: pre, x, post)
           | None => None
           end
  end.

(* BlockStore::push on one client's list *)
Definition itg_push_list (l : list itg_seg) (s len : N) (sk : bool) : itg_res (list itg_seg) :=
  match l with
  | [] => itg_ok [itg_mkseg s len sk]
  | _ =>
    if itg_list_clock l =? s then itg_ok (l ++ [itg_mkseg s len sk])
    else
      (* "this replaces an integrated skip" *)
      match itg_seg_split l s with
      | None => itg_undef 3
      | Some (pre, g, post) =>
          if itg_sg_end g <? s + len then itg_undef 5
          else if negb (itg_sg_skip g) then itg_undef 4
          else if sk then itg_undef 6
          else itg_ok (pre
                       ++ (if itg_sg_start g <? s then [itg_mkseg (itg_sg_start g) (s - itg_sg_start g) true] else [])
                       ++ [itg_mkseg s len false]
                       ++ (if s + len <? itg_sg_end g then [itg_mkseg (s + len) (itg_sg_end g - (s + len)) true] else [])
                       ++ post)
      end
  end.
Definition itg_push (st : list (N * list itg_seg)) (c s len : N) (sk : bool) : itg_res (list (N * list itg_seg)) :=
  match itg_get st c with
  | None => itg_ok (itg_put st c [itg_mkseg s len sk])
  | Some l => itg_bind (itg_push_list l s len sk) (fun l' => itg_ok (itg_put st c l'))
  end.

(* BlockStore::known_state for one client: [0, clock) minus the skips *)
Fixpoint itg_minus_skips (a : N) (l : list itg_seg) (clock : N) : list (N * N) :=
  match l with
  | [] => if a <? clock then [(a, clock)] else []
  | g :: r =>
      if itg_sg_skip g
      then (if a <? itg_sg_start g then [(a, itg_sg_start g)] else []) ++ itg_minus_skips (itg_sg_end g) r clock
      else itg_minus_skips a r clock
  end.
Definition itg_known (l : list itg_seg) : list (N * N) := itg_minus_skips 0 l (itg_list_clock l).

(* ================================================================================================ *)
(* BlockSet::exclude                                                                                *)
(* ================================================================================================ *)
(* split_at: cut the block that contains clock k at k; the index of the block that starts at k *)
Fixpoint itg_split_at (d : list block) (k : N) : option (list block * nat) :=
  match d with
  | [] => None
  | b :: r =>
      if (itg_clock b <=? k) && (k <? itg_end b) then
        if k =? itg_clock b then Some (d, O)                  (* splice(0) is None *)
        else let lr := itg_splice b (k - itg_clock b) in Some (fst lr :: snd lr :: r, 1%nat)
      else match itg_split_at r k with
           | Some (r', i) => Some (b :: r', S i)
           | None => None
           end
  end.

(* the body of `for (range, _) in id_range.iter()`; cs / ce are computed before the loop *)
Definition itg_excl_range (c cs ce : N) (d : list block) (r : N * N) : itg_res (list block) :=
  let rs := fst r in
  let re := snd r in
  if ce <=? rs then itg_ok d else
  itg_bind (if cs <? rs
            then match itg_split_at d rs with Some p => itg_ok p | None => itg_undef 2 end
            else itg_ok (d, O))
  (fun p1 =>
     let d1 := fst p1 in
     let start_index := snd p1 in
     if re <=? cs then itg_ok d1 else
     itg_bind (if re <? ce
               then match itg_split_at d1 re with Some p => itg_ok p | None => itg_undef 2 end
               else itg_ok (d1, length d1))
     (fun p2 =>
        let d2 := fst p2 in
        let end_index := snd p2 in
        if (start_index <? end_index)%nat
        then itg_ok (firstn start_index d2 ++ BSkip (mkid c rs) (re - rs) :: skipn end_index d2)
        else itg_ok d2)).

Fixpoint itg_excl_ranges (c cs ce : N) (d : list block) (rs : list (N * N)) : itg_res (list block) :=
  match rs with
  | [] => itg_ok d
  | r :: rest => itg_bind (itg_excl_range c cs ce d r) (fun d' => itg_excl_ranges c cs ce d' rest)
  end.

Definition itg_trim_client (st : list (N * list itg_seg)) (c : N) (d : list block) : itg_res (list block) :=
  match itg_get st c with
  | None => itg_ok d
  | Some segs =>
      match d with
      | [] => itg_undef 1
      | f :: _ => itg_excl_ranges c (itg_clock f) (itg_end (last d f)) d (itg_known segs)
      end
  end.

(* known_state + exclude *)
Fixpoint itg_trim (st : list (N * list itg_seg)) (bs : list (N * list block)) : itg_res (list (N * list block)) :=
  match bs with
  | [] => itg_ok []
  | (c, d) :: r =>
      itg_bind (itg_trim_client st c d) (fun d' =>
      itg_bind (itg_trim st r) (fun r' => itg_ok ((c, d') :: r')))
  end.

(* ================================================================================================ *)
(* BlockPicker                                                                                      *)
(* ================================================================================================ *)
Definition itg_sv_set_min (m : list (N * N)) (c k : N) : list (N * N) :=
  match itg_get m c with
  | Some v => itg_put m c (N.min v k)
  | None => itg_put m c k
  end.

Record itg_picker := itg_mkpicker {
  itg_pk_store : list (N * list block);          (* the update's BlockSet *)
  itg_pk_latest : option (N * list block);
  itg_pk_stack : list block;                     (* head = top of the Vec *)
  itg_pk_clients : list N;                       (* head = next `pop()`: descending *)
  itg_pk_missing : list (N * N);
  itg_pk_unapp : list (N * list block)           (* unapplicable *)
}.

Fixpoint itg_insert_desc (c : N) (l : list N) : list N :=
  match l with
  | [] => [c]
  | x :: r => if x <=? c then c :: l else x :: itg_insert_desc c r
  end.
Definition itg_sort_desc (l : list N) : list N := fold_right itg_insert_desc [] l.

Definition itg_pk_new (bs : list (N * list block)) : itg_picker :=
  itg_mkpicker bs None [] (itg_sort_desc (map fst bs)) [] [].

(* the part of next() that runs when the stack is empty and `latest` has no block: pop clients *)
Fixpoint itg_pk_next_client (cs : list N) (store : list (N * list block)) (latest : option (N * list block))
  : option block * list N * list (N * list block) * option (N * list block) :=
  match cs with
  | [] => (None, [], store, latest)
  | c :: cs' =>
      let store' := itg_del store c in
      match itg_get store c with
      | Some (b :: r) => (Some b, cs', store', Some (c, r))
      | Some [] => itg_pk_next_client cs' store' (Some (c, []))
      | None => itg_pk_next_client cs' store' None
      end
  end.

Definition itg_pk_next (pk : itg_picker) : option block * itg_picker :=
  match itg_pk_stack pk with
  | b :: s =>
      (Some b, itg_mkpicker (itg_pk_store pk) (itg_pk_latest pk) s (itg_pk_clients pk) (itg_pk_missing pk) (itg_pk_unapp pk))
  | [] =>
      match itg_pk_latest pk with
      | Some (c, b :: r) =>
          (Some b, itg_mkpicker (itg_pk_store pk) (Some (c, r)) [] (itg_pk_clients pk) (itg_pk_missing pk) (itg_pk_unapp pk))
      | _ =>
          let '(n, cs, store, latest) := itg_pk_next_client (itg_pk_clients pk) (itg_pk_store pk) (itg_pk_latest pk) in
          (n, itg_mkpicker store latest [] cs (itg_pk_missing pk) (itg_pk_unapp pk))
      end
  end.

(* `for item in self.stack.drain(..)`: [items] from the bottom of the stack *)
Fixpoint itg_pk_drain (items : list block) (store : list (N * list block)) (latest : option (N * list block))
  (unapp : list (N * list block)) : list (N * list block) * option (N * list block) * list (N * list block) :=
  match items with
  | [] => (store, latest, unapp)
  | item :: rest =>
      let client := itg_client item in
      match itg_get store client with
      | Some blocks => itg_pk_drain rest (itg_del store client) latest (itg_put unapp client (item :: blocks))
      | None =>
          match latest with
          | Some (lc, blocks) =>
              if lc =? client
              then itg_pk_drain rest store (Some (lc, [])) (itg_put unapp client (item :: blocks))
              else itg_pk_drain rest store latest (itg_put unapp client [item])
          | None => itg_pk_drain rest store latest (itg_put unapp client [item])
          end
      end
  end.

Definition itg_pk_switch (pk : itg_picker) (stack_head : block) (missing_id : id) : option block * itg_picker :=
  let mc := cl missing_id in
  let missing := itg_sv_set_min (itg_pk_missing pk) mc (ck missing_id) in
  let stack := stack_head :: itg_pk_stack pk in
  let fail :=
      let missing' := itg_sv_set_min missing mc (ck missing_id) in
      let '(store, latest, unapp) := itg_pk_drain (rev stack) (itg_pk_store pk) (itg_pk_latest pk) (itg_pk_unapp pk) in
      itg_pk_next (itg_mkpicker store latest [] (itg_pk_clients pk) missing' unapp) in
  match itg_get (itg_pk_store pk) mc with
  | Some (b :: r) =>
      if existsb (fun s => itg_client s =? mc) stack then fail
      else (Some b, itg_mkpicker (itg_put (itg_pk_store pk) mc r) (itg_pk_latest pk) stack (itg_pk_clients pk)
                                 missing (itg_pk_unapp pk))
  | _ => fail
  end.

Record itg_pending := itg_mkpending { itg_p_update : update; itg_p_missing : list (N * N) }.

Definition itg_pk_pending (pk : itg_picker) : option itg_pending :=
  match itg_pk_unapp pk with
  | [] => None
  | un => Some (itg_mkpending {| u_blocks := un; u_ds := [] |} (itg_pk_missing pk))
  end.

(* ================================================================================================ *)
(* Update::missing_dependency and Update::integrate                                                 *)
(* ================================================================================================ *)
Definition itg_missing_dep (st : list (N * list itg_seg)) (b : block) : option id :=
  find (itg_is_missing st) (itg_deps b).

Record itg_run := itg_mkrun {
  itg_rn_blocks : list (N * list itg_seg);
  itg_rn_log : list block;
  itg_rn_state : list (N * N);                    (* `state`: the cached local_clock per client *)
  itg_rn_pk : itg_picker
}.

(* `while let Some(mut stack_head) = next` *)
Fixpoint itg_loop (fuel : nat) (next : option block) (r : itg_run) : itg_res itg_run :=
  match next with
  | None => itg_ok r
  | Some b =>
    match fuel with
    | O => itg_nofuel
    | S f =>
      if itg_is_skip b then
        let np := itg_pk_next (itg_rn_pk r) in
        itg_loop f (fst np) (itg_mkrun (itg_rn_blocks r) (itg_rn_log r) (itg_rn_state r) (snd np))
      else
        let c := itg_client b in
        let local_clock := match itg_get (itg_rn_state r) c with
                           | Some v => v
                           | None => itg_get_clock (itg_rn_blocks r) c
                           end in
        let state1 := match itg_get (itg_rn_state r) c with
                      | Some _ => itg_rn_state r
                      | None => itg_put (itg_rn_state r) c local_clock
                      end in
        match itg_missing_dep (itg_rn_blocks r) b with
        | Some m =>
            let np := itg_pk_switch (itg_rn_pk r) b m in
            itg_loop f (fst np) (itg_mkrun (itg_rn_blocks r) (itg_rn_log r) state1 (snd np))
        | None =>
            (* offset < 0: integrate_skip(BlockRange(ID(client, local_clock), -offset)) *)
            itg_bind (if local_clock <? itg_clock b
                      then itg_push (itg_rn_blocks r) c local_clock (itg_clock b - local_clock) true
                      else itg_ok (itg_rn_blocks r))
            (fun blocks1 =>
            (* txn.integrate(stack_head, 0) *)
            itg_bind (itg_push blocks1 c (itg_clock b) (block_len b) false)
            (fun blocks2 =>
               let state2 := itg_put state1 c (N.max local_clock (itg_clock b + block_len b)) in
               let np := itg_pk_next (itg_rn_pk r) in
               itg_loop f (fst np) (itg_mkrun blocks2 (b :: itg_rn_log r) state2 (snd np))))
        end
    end
  end.

Definition itg_nblocks (bs : list (N * list block)) : nat :=
  fold_right (fun e n => (length (snd e) + n)%nat) O bs.
Definition itg_loop_fuel (bs : list (N * list block)) : nat := (2 * itg_nblocks bs + 3)%nat.

(* Update::integrate: the new block lists, the new log, the rest *)
Definition itg_integrate (blocks : list (N * list itg_seg)) (log : list block) (bs : list (N * list block))
  : itg_res (list (N * list itg_seg) * list block * option itg_pending) :=
  match bs with
  | [] => itg_ok (blocks, log, None)
  | _ =>
      let np := itg_pk_next (itg_pk_new bs) in
      itg_bind (itg_loop (itg_loop_fuel bs) (fst np) (itg_mkrun blocks log [] (snd np)))
      (fun r => itg_ok (itg_rn_blocks r, itg_rn_log r, itg_pk_pending (itg_rn_pk r)))
  end.

(* ================================================================================================ *)
(* TransactionMut::apply_update                                                                     *)
(* ================================================================================================ *)
Record itg_store := itg_mkstore {
  itg_blocks : list (N * list itg_seg);
  itg_pend : option itg_pending;
  itg_log : list block
}.
Definition itg_empty : itg_store := itg_mkstore [] None [].
Definition itg_empty_update : update := {| u_blocks := []; u_ds := [] |}.

(* for (client, clock) in pending.missing: if !is_missing(ID(client, clock)) { retry = true; break } *)
Definition itg_retry_test (blocks : list (N * list itg_seg)) (p : itg_pending) : bool :=
  existsb (fun e => negb (itg_is_missing blocks (mkid (fst e) (snd e)))) (itg_p_missing p).

Definition itg_merge_missing (old new : list (N * N)) : list (N * N) :=
  fold_left (fun m e => itg_sv_set_min m (fst e) (snd e)) new old.

(* steps 1-3 of apply_update, with the merge function as a parameter: the new store and `retry`.
   Content is erased whenever an update enters (on the stash, which is content-free already, this changes
   nothing: itg_abs_update_idem) *)
Definition itg_step_with (mrg : update -> update -> update) (s : itg_store) (u : update) : itg_res (itg_store * bool) :=
  itg_bind (itg_trim (itg_blocks s) (u_blocks (itg_abs_update u))) (fun bs =>
  itg_bind (itg_integrate (itg_blocks s) (itg_log s) bs) (fun res =>
    let '(blocks, log, remaining) := res in
    match itg_pend s with
    | Some pending =>
        let retry := itg_retry_test blocks pending in
        let pending' :=
            match remaining with
            | Some rem => itg_mkpending (mrg (itg_p_update pending) (itg_p_update rem))
                                        (itg_merge_missing (itg_p_missing pending) (itg_p_missing rem))
            | None => pending
            end in
        itg_ok (itg_mkstore blocks (Some pending') log, retry)
    | None => itg_ok (itg_mkstore blocks remaining log, false)
    end)).

(* the literal recursion: step 5 calls apply_update(pending.update) and then apply_update(ds_update),
   an update without blocks *)
Fixpoint itg_apply_rec_with (mrg : update -> update -> update) (fuel : nat) (s : itg_store) (u : update)
  : itg_res itg_store :=
  match fuel with
  | O => itg_nofuel
  | S f =>
    itg_bind (itg_step_with mrg s u) (fun sr =>
      let s1 := fst sr in
      if snd sr then
        match itg_pend s1 with
        | Some pending =>
            itg_bind (itg_apply_rec_with mrg f (itg_mkstore (itg_blocks s1) None (itg_log s1)) (itg_p_update pending))
                     (fun s2 => itg_apply_rec_with mrg f s2 itg_empty_update)
        | None => itg_ok s1
        end
      else itg_ok s1)
  end.

(* the same as a loop.  The nested apply_update(pending.update) runs on a store without a stash, so its own
   `retry` is false; the apply_update(ds_update) that follows tests the missing vector of the new stash and, if
   the test succeeds, repeats (itg_apply_rec_eq in IntegrateProofs.v) *)
Fixpoint itg_retry_with (mrg : update -> update -> update) (fuel : nat) (s : itg_store) : itg_res itg_store :=
  match fuel with
  | O => itg_nofuel
  | S f =>
    match itg_pend s with
    | None => itg_ok s
    | Some pending =>
        itg_bind (itg_step_with mrg (itg_mkstore (itg_blocks s) None (itg_log s)) (itg_p_update pending)) (fun sr1 =>
        itg_bind (itg_step_with mrg (fst sr1) itg_empty_update) (fun sr2 =>
          if snd sr2 then itg_retry_with mrg f (fst sr2) else itg_ok (fst sr2)))
    end
  end.

(* total length of the non-Skip blocks *)
Definition itg_units (bs : list (N * list block)) : N :=
  fold_right (fun e n => fold_right (fun b m => (if itg_is_skip b then 0 else block_len b) + m) 0 (snd e) + n) 0 bs.
Definition itg_retry_fuel (s : itg_store) : nat :=
  match itg_pend s with
  | Some p => S (S (N.to_nat (itg_units (u_blocks (itg_p_update p)))))
  | None => 1%nat
  end.

Definition itg_apply_with (mrg : update -> update -> update) (s : itg_store) (u : update) : itg_res itg_store :=
  itg_bind (itg_step_with mrg s u) (fun sr =>
    if snd sr then itg_retry_with mrg (itg_retry_fuel (fst sr)) (fst sr) else itg_ok (fst sr)).

(* Update::merge_updates(vec![pending.update, remaining.update]) *)
Definition itg_mrg (a b : update) : update := mrg_merge_updates [a; b].

Definition itg_step := itg_step_with itg_mrg.
Definition itg_retry := itg_retry_with itg_mrg.
Definition itg_apply_rec := itg_apply_rec_with itg_mrg.
Definition itg_apply_update_res (s : itg_store) (u : update) : itg_res itg_store := itg_apply_with itg_mrg s u.

(* never itg_nofuel (itg_apply_terminates); outside the domain the store is left as it was *)
Definition itg_apply_update (s : itg_store) (u : update) : itg_store :=
  match itg_apply_update_res s u with
  | itg_ok s' => s'
  | _ => s
  end.

(* ================================================================================================ *)
(* observers (and the entry points of a driver)                                                     *)
(* ================================================================================================ *)
(* maximal runs of one kind: (start, end) *)
Fixpoint itg_runs (want_skip : bool) (cur : option (N * N)) (l : list itg_seg) : list (N * N) :=
  match l with
  | [] => match cur with Some r => [r] | None => [] end
  | g :: rest =>
      if Bool.eqb (itg_sg_skip g) want_skip && (0 <? itg_sg_len g) then
        match cur with
        | Some (a, e) => if e =? itg_sg_start g then itg_runs want_skip (Some (a, itg_sg_end g)) rest
                         else (a, e) :: itg_runs want_skip (Some (itg_sg_start g, itg_sg_end g)) rest
        | None => itg_runs want_skip (Some (itg_sg_start g, itg_sg_end g)) rest
        end
      else if 0 <? itg_sg_len g then
        match cur with Some r => r :: itg_runs want_skip None rest | None => itg_runs want_skip None rest end
      else itg_runs want_skip cur rest
  end.
Definition itg_obs_ranges (s : itg_store) : list (N * list (N * N)) :=
  map (fun e => (fst e, itg_runs false None (snd e))) (itg_blocks s).
Definition itg_obs_holes (s : itg_store) : list (N * list (N * N)) :=
  filter (fun e => match snd e with [] => false | _ => true end)
         (map (fun e => (fst e, itg_runs true None (snd e))) (itg_blocks s)).
(* BlockStore::get_state_vector: the end of the list, or the start of the first skip *)
Definition itg_first_skip (l : list itg_seg) : option N :=
  match find itg_sg_skip l with Some g => Some (itg_sg_start g) | None => None end.
Definition itg_obs_sv (s : itg_store) : list (N * N) :=
  map (fun e => (fst e, match itg_first_skip (snd e) with Some k => k | None => itg_list_clock (snd e) end)) (itg_blocks s).
Definition itg_obs_has_pending (s : itg_store) : bool :=
  match itg_pend s with Some _ => true | None => false end.
Definition itg_obs_missing (s : itg_store) : list (N * N) :=
  match itg_pend s with Some p => itg_p_missing p | None => [] end.
(* the blocks of the stash, clients ascending: (clock, length, kind: 0 Item, 1 GC, 2 Skip) *)
Definition itg_kind (b : block) : N := match b with BItem _ _ _ _ _ _ => 0 | BGC _ _ => 1 | BSkip _ _ => 2 end.
Definition itg_obs_pending (s : itg_store) : list (N * list (N * N * N)) :=
  match itg_pend s with
  | Some p =>
      fold_left (fun m e => itg_put m (fst e) (map (fun b => (itg_clock b, block_len b, itg_kind b)) (snd e)))
                (u_blocks (itg_p_update p)) []
  | None => []
  end.

(* driver: the current store and the decoded block lists of an update *)
Definition itg_drive (s : itg_store) (bs : list (N * list block)) : itg_store :=
  itg_apply_update s {| u_blocks := bs; u_ds := [] |}.
Definition itg_drive_res (s : itg_store) (bs : list (N * list block)) : itg_res itg_store :=
  itg_apply_update_res s {| u_blocks := bs; u_ds := [] |}.

(* ================================================================================================ *)
(* well-formedness (boolean, so that a driver can evaluate it)                                      *)
(* ================================================================================================ *)
(* a client's block list: contiguous from 0 *)
Fixpoint itg_segs_from (a : N) (l : list itg_seg) : bool :=
  match l with
  | [] => true
  | g :: r => (itg_sg_start g =? a) && itg_segs_from (itg_sg_end g) r
  end.
Definition itg_blocks_wf (st : list (N * list itg_seg)) : bool :=
  forallb (fun e => itg_segs_from 0 (snd e) && match snd e with [] => false | _ => true end) st.

(* a client's blocks in an update: of that client, positive lengths, each starting where the previous one ends *)
Fixpoint itg_deque_from (c a : N) (d : list block) : bool :=
  match d with
  | [] => true
  | b :: r => (itg_client b =? c) && (itg_clock b =? a) && (0 <? block_len b) && itg_deque_from c (itg_end b) r
  end.
Definition itg_deque_wf (c : N) (d : list block) : bool :=
  match d with
  | [] => false
  | b :: _ => itg_deque_from c (itg_clock b) d
  end.
Fixpoint itg_keys_distinct (ks : list N) : bool :=
  match ks with
  | [] => true
  | k :: r => negb (existsb (N.eqb k) r) && itg_keys_distinct r
  end.
Definition itg_update_wf (bs : list (N * list block)) : bool :=
  itg_keys_distinct (map fst bs) && forallb (fun e => itg_deque_wf (fst e) (snd e)) bs.
